/-
End-to-end reading of declared systems (C14, "sigma" theorems), part 5: explicit worlds with complexes.
-/
import DsdVerif.Lemmas.ReaderSigmaStrand
import DsdVerif.Lemmas.CanonIds

namespace Dsd.Sig
open Dsd Dsd.PP Dsd.RState

/-- parameters of a world holding domains, strands and complexes (classes `cd`, `cs`, `cc`) -/
structure DW4 where
  cd : Nat
  cs : Nat
  cc : Nat
  dobjs : List (Obj DKey) := []
  sobjs : List (Obj CKey) := []
  cobjs : List (Obj CKey) := []
  nodes : List Node := []
  held : List Nat := []
  next : Nat := 0
  cstate : List (Nat × CplxObj) := []

def baseCplxs : List (ClassReg CKey) := ({} : World).cplxs

def DW4.world (p : DW4) : World :=
  { ({} : World) with
    doms := setObjs baseDoms p.cd p.dobjs, strands := setObjs baseStrands p.cs p.sobjs,
    cplxs := setObjs baseCplxs p.cc p.cobjs,
    nodes := p.nodes, held := p.held, nextId := p.next, cstate := p.cstate }

theorem baseCplxs_get (c : Nat) (hc : c < 4) : ∃ cr, baseCplxs[c]? = some cr ∧ cr.reg = {} := by
  have : c = 0 ∨ c = 1 ∨ c = 2 ∨ c = 3 := by omega
  rcases this with rfl | rfl | rfl | rfl <;> exact ⟨_, rfl, rfl⟩

theorem effId_cplxs (c : Nat) (hc : c < 4) (objs : List (Obj CKey)) :
    World.effId (setObjs baseCplxs c objs) 5 c = 1 := by
  have : c = 0 ∨ c = 1 ∨ c = 2 ∨ c = 3 := by omega
  rcases this with rfl | rfl | rfl | rfl <;> rfl

theorem setObjs_upd_cplxs (c : Nat) (hc : c < 4) (objs objs' : List (Obj CKey)) (cr : ClassReg CKey)
    (hcr : (setObjs baseCplxs c objs)[c]? = some cr) :
    (setObjs baseCplxs c objs).set c
        { cr with reg := { objs := objs', autoId := 1 }, ownId := cr.ownId || (1 : Nat) != 1 } =
      setObjs baseCplxs c objs' := by
  obtain ⟨cr0, h0, _⟩ := baseCplxs_get c hc
  rw [setObjs_get baseCplxs c objs cr0 h0] at hcr
  cases hcr
  unfold setObjs
  rw [h0]
  simp only [List.set_set, bne_self_eq_false, Bool.or_false]

theorem dropDead_setObjs_cplxs (c : Nat) (hc : c < 4) (objs : List (Obj CKey)) (alive : List Nat) :
    World.dropDead (setObjs baseCplxs c objs) alive =
      setObjs baseCplxs c (objs.filter (fun o => alive.contains o.id)) := by
  have : c = 0 ∨ c = 1 ∨ c = 2 ∨ c = 3 := by omega
  rcases this with rfl | rfl | rfl | rfl <;> rfl

theorem setObjs_nil_cplxs (c : Nat) (hc : c < 4) : setObjs baseCplxs c [] = baseCplxs := by
  have : c = 0 ∨ c = 1 ∨ c = 2 ∨ c = 3 := by omega
  rcases this with rfl | rfl | rfl | rfl <;> rfl

/-- a `DW` world seen as a world without complexes -/
def DW.lift (p : DW) (cc : Nat) : DW4 :=
  { cd := p.cd, cs := p.cs, cc := cc, dobjs := p.dobjs, sobjs := p.sobjs, nodes := p.nodes, held := p.held,
    next := p.next }

theorem DW4_of_DW (p : DW) (cc : Nat) (hcc : cc < 4) : (p.lift cc).world = p.world := by
  unfold DW4.world DW.world DW.lift
  simp only [setObjs_nil_cplxs cc hcc]
  rfl

/-- nothing is collected when every object and node is held -/
theorem collect_DW4 (p : DW4) (hcd : p.cd < 4) (hcs : p.cs < 4) (hcc : p.cc < 4)
    (hd : ∀ o ∈ p.dobjs, o.id ∈ p.held) (hs : ∀ o ∈ p.sobjs, o.id ∈ p.held) (hc : ∀ o ∈ p.cobjs, o.id ∈ p.held)
    (hn : ∀ n ∈ p.nodes, n.id ∈ p.held) (hst : ∀ q ∈ p.cstate, q.1 ∈ p.held) : p.world.collect = p.world := by
  have hr : ∀ x ∈ p.held, p.world.reachable.contains x = true := by
    intro x hx
    simp only [List.contains_eq_mem, decide_eq_true_eq]
    exact WorldL.held_sub_reachable p.world x hx
  unfold World.collect
  have e1 : p.world.doms = setObjs baseDoms p.cd p.dobjs := rfl
  have e2 : p.world.strands = setObjs baseStrands p.cs p.sobjs := rfl
  have e3 : p.world.nodes = p.nodes := rfl
  have e4 : p.world.cstate = p.cstate := rfl
  have e5 : p.world.cplxs = setObjs baseCplxs p.cc p.cobjs := rfl
  simp only [e1, e2, e3, e4, e5, dropDead_setObjs_doms p.cd hcd, dropDead_setObjs_strands p.cs hcs,
    dropDead_setObjs_cplxs p.cc hcc]
  rw [List.filter_eq_self.mpr (fun o ho => hr _ (hd o ho)), List.filter_eq_self.mpr (fun o ho => hr _ (hs o ho)),
    List.filter_eq_self.mpr (fun o ho => hr _ (hc o ho)),
    List.filter_eq_self.mpr (fun n hn' => hr _ (hn n hn')), List.filter_eq_self.mpr (fun q hq => hr _ (hst q hq))]
  rfl

/-! ### look-ups that do not change an explicit world -/

theorem domObj_gen (w : World) (cd : Nat) (hcd : cd < 4) (dobjs : List (Obj DKey))
    (hdoms : w.doms = setObjs baseDoms cd dobjs) (id : Nat) (o : Obj DKey)
    (hn : w.nodes.find? (fun n => n.id == id) = some (domNode id cd))
    (ho : dobjs.find? (fun x => x.id == id) = some o) : w.domObj id = some (cd, o) := by
  obtain ⟨cr0, h0, _⟩ := baseDoms_get cd hcd
  have hget := setObjs_get baseDoms cd dobjs cr0 h0
  have hnode : w.node id = some (domNode id cd) := hn
  unfold World.domObj
  rw [hnode]
  simp only [domNode, if_true, hdoms, hget, Option.bind_some, Reg.findId, ho, Option.map_some]

/-- `Strand(None, name = n)` for a live, held strand leaves the world as it is -/
theorem mkStrand_existing (w : World) (cs : Nat) (hcs : cs < 4) (sobjs : List (Obj CKey))
    (hstr : w.strands = setObjs baseStrands cs sobjs) (n : String) (o : Obj CKey)
    (h1 : Reg.findName ({ objs := sobjs, autoId := 1 } : Reg CKey) n = some o) (hheld : o.id ∈ w.held) :
    w.mkStrand cs none (some n) = (w, .ret o.id false) := by
  obtain ⟨cr0, h0, _⟩ := baseStrands_get cs hcs
  have hget := setObjs_get baseStrands cs sobjs cr0 h0
  unfold World.mkStrand
  simp only [Option.map_none]
  rw [ReaderL.withClass_some _ _ _ _ (by rw [hstr]; exact hget)]
  simp only [hstr, effId_strands cs hcs, strandRequest]
  have hcall : Reg.call ({ objs := sobjs, autoId := 1 } : Reg CKey) none (some n) w.nextId [] false =
      ({ objs := sobjs, autoId := 1 }, .ret o.id false) := by
    simp [Reg.call, Reg.decide, h1]
  rw [hcall]
  simp only
  rw [setObjs_upd_strands cs hcs sobjs sobjs _ hget]
  have hc : w.held.contains o.id = true := by simpa using hheld
  simp only [World.settle, hc, if_true, ← hstr]

/-! ### creating a complex -/

def newCplx (id : Nat) (nm : String) (ids : CplxIds) : Obj CKey :=
  { id := id, name := nm, canon := ids.canon, keys := ids.keys }

def cplxNode (id c : Nat) (children : List Nat) : Node := { id := id, kind := .cplx, cls := c, children := children }

def cplxState (ns : List String) (sst : List Char) (ids : CplxIds) (nm : String) : CplxObj :=
  { seq := ns, sst := sst, turns := ids.turns, canon := ids.canon, name := nm }

/-- **creating a complex**: the request goes through when the name is free and no rotation is registered -/
theorem mkCplx_create (w : World) (cc : Nat) (hcc : cc < 4) (cobjs : List (Obj CKey))
    (hcp : w.cplxs = setObjs baseCplxs cc cobjs) (seq : List (Option Nat)) (ns : List String)
    (hns : w.seqNames seq = some ns) (sst : List Char) (nm : String) (ids : CplxIds)
    (hids : complexIdentifiers ({ objs := cobjs, autoId := 1 } : Reg CKey) ns sst = .ok ids)
    (h1 : ∀ o ∈ cobjs, o.name ≠ nm) (h2 : ∀ o ∈ cobjs, ids.canon ∉ o.keys) (h3 : ∀ o ∈ cobjs, o.id ≠ w.nextId) :
    w.mkCplx cc (some seq) sst (some nm) none =
      ({ w with cplxs := setObjs baseCplxs cc (cobjs ++ [newCplx w.nextId nm ids]),
                nodes := w.nodes ++ [cplxNode w.nextId cc (seq.filterMap id)],
                held := if w.held.contains w.nextId then w.held else w.held ++ [w.nextId],
                nextId := w.nextId + 1,
                cstate := w.cstate ++ [(w.nextId, cplxState ns sst ids nm)] }, .ret w.nextId true, some ids) := by
  obtain ⟨cr0, h0, _⟩ := baseCplxs_get cc hcc
  have hget := setObjs_get baseCplxs cc cobjs cr0 h0
  have hcall : Reg.call ({ objs := cobjs, autoId := 1 } : Reg CKey) (some ids.canon) (some nm) w.nextId ids.keys false =
      (Reg.register { objs := cobjs, autoId := 1 } (newCplx w.nextId nm ids) false, .ret w.nextId true) := by
    have f1 := findName_none_of ({ objs := cobjs, autoId := 1 } : Reg CKey) nm h1
    have f2 := findCanon_none_of ({ objs := cobjs, autoId := 1 } : Reg CKey) ids.canon h2
    simp [Reg.call, Reg.decide, f1, f2, newCplx]
  have hfind : Reg.findId (Reg.register ({ objs := cobjs, autoId := 1 } : Reg CKey) (newCplx w.nextId nm ids) false)
      w.nextId = some (newCplx w.nextId nm ids) := by
    simp only [Reg.register, Reg.findId]
    exact find?_snoc_new _ _ _ (fun a ha => by simpa using h3 a ha) (by simp [newCplx])
  unfold World.mkCplx
  simp only [Option.map_some, hns, Option.getD_some, hcp, hget, effId_cplxs cc hcc, complexRequest, hids,
    Option.isNone_some, hcall, hfind]
  simp only [Reg.register, Bool.false_eq_true, if_false]
  rw [setObjs_upd_cplxs cc hcc cobjs _ _ hget]
  rfl

/-! ### canonical form when nothing is registered -/

/-- the identifiers of a description none of whose rotations is registered -/
def cIds (ns : List String) (sst : List Char) : CplxIds :=
  { canon := (minKey (Rot.orb (Rot.nStr ns) ns sst)).getD ([], []),
    turns := wrap (-(lastIdxOf (Rot.orb (Rot.nStr ns) ns sst)
      ((minKey (Rot.orb (Rot.nStr ns) ns sst)).getD ([], [])) : Int)) (Rot.nStr ns),
    keys := (Rot.orb (Rot.nStr ns) ns sst).eraseDups }

theorem cIds_spec (r : Reg CKey) (ns : List String) (sst : List Char) (hd : Rot.Descr' ns sst)
    (hfree : ∀ x ∈ Rot.orb (Rot.nStr ns) ns sst, r.findCanon x = none) :
    complexIdentifiers r ns sst = .ok (cIds ns sst) ∧ (cIds ns sst).canon ∈ Rot.orb (Rot.nStr ns) ns sst ∧
      ∀ x ∈ Rot.orb (Rot.nStr ns) ns sst, ckeyLt x (cIds ns sst).canon = false := by
  rcases Rot.ids_cases r ns sst hd with ⟨ids, _, hmem, hsome⟩ | ⟨_, c, hc, hci⟩
  · rw [hfree _ hmem] at hsome; cases hsome
  · obtain ⟨m1, m2⟩ := Ord.minKey_spec _ _ hc
    have hcanon : (cIds ns sst).canon = c := by unfold cIds; rw [hc]; rfl
    refine ⟨?_, by rw [hcanon]; exact m1, by rw [hcanon]; exact m2⟩
    rw [hci]; unfold cIds; rw [hc]; rfl

/-- two descriptions with a common rotation are rotations of each other -/
theorem orb_meet (a b : List String × List Char) (ha : Rot.Descr' a.1 a.2) (hb : Rot.Descr' b.1 b.2)
    (x : List String × List Char) (hxa : x ∈ Rot.orb (Rot.nStr a.1) a.1 a.2) (hxb : x ∈ Rot.orb (Rot.nStr b.1) b.1 b.2) :
    b ∈ Rot.orb (Rot.nStr a.1) a.1 a.2 := by
  obtain ⟨i, _, hi⟩ := (Rot.mem_orb _ _ _ _).mp hxa
  obtain ⟨j, _, hj⟩ := (Rot.mem_orb _ _ _ _).mp hxb
  obtain ⟨_, hy1, _, hn1⟩ := Rot.descr_rotateN i a.1 a.2 ha
  rw [hi] at hy1; cases hy1
  obtain ⟨_, hy2, _, hn2⟩ := Rot.descr_rotateN j b.1 b.2 hb
  rw [hj] at hy2; cases hy2
  have s1 := (Rot.orb_rotateN j b.1 b.2 hb x hj b).mpr (Rot.self_mem_orb b.1 b.2 hb)
  rw [← hn2, hn1] at s1
  exact (Rot.orb_rotateN i a.1 a.2 ha x hi b).mp s1

/-! ### generic reader steps for a strand-complex line -/

def scplxLine (nm : String) (strands : List String) (sst : List Char) : List Tree :=
  [.tok "strand-complex", .tok nm, .grp (strands.map Tree.tok), .tok (String.ofList sst)]

theorem collect_same (s : RState) (sl : Slots) (f : String → List Nat) (names : List String)
    (h : ∀ n ∈ names, s.strandDomains sl n = (s, .ok (f n))) :
    readLine.collect sl s names = (s, .ok (names.map f)) := by
  induction names with
  | nil => rfl
  | cons n ns ih =>
    unfold readLine.collect
    rw [h n (by simp)]
    simp only
    rw [ih (fun m hm => h m (by simp [hm]))]
    rfl

theorem strandDomains_existing (s : RState) (sl : Slots) (n : String) (id : Nat) (b : Bool) (nd : Node)
    (h : s.w.mkStrand sl.strand none (some n) = (s.w, .ret id b)) (hn : s.w.node id = some nd) :
    s.strandDomains sl n = (s, .ok nd.children) := by
  unfold strandDomains
  rw [h]
  simp only [hn, Option.map_some, Option.getD_some]

theorem readLine_scplx (s : RState) (sl : Slots) (nm : String) (strands : List String) (sst : List Char)
    (hsst : ∀ c ∈ sst, c ≠ ' ') (st : List (List Nat)) (hst : st ≠ [])
    (h1 : readLine.collect sl s strands = (s, .ok st)) (w' : World) (id : Nat) (b : Bool) (ids : Option CplxIds)
    (h2 : s.w.mkCplx sl.cplx (some (joinWith none (st.map (fun ds => ds.map some)))) sst (some nm) none =
      (w', .ret id b, ids)) :
    s.readLine sl (scplxLine nm strands sst) = ({ s with w := w' }, .ok (.cplx id)) := by
  have hfil : (String.ofList sst).toList.filter (· != ' ') = sst := by
    rw [String.toList_ofList, List.filter_eq_self]
    intro c hc; simpa using hsst c hc
  unfold scplxLine readLine
  simp only [tokList_map_tok, h1, hfil]
  cases st with
  | nil => exact absurd rfl hst
  | cons a as => simp only [h2]

theorem readDoc_cplx (s : RState) (sl : Slots) (before : List Nat) (line rest : List Tree) (d : RDict)
    (s1 : RState) (id : Nat) (nm : String)
    (hrl : s.readLine sl line = (s1, .ok (.cplx id)))
    (hn : objName s1.w.cplxs sl.cplx id = some nm) :
    s.readDoc sl [] before (.grp line :: rest) d =
      (s1.keepOnly before { d with complexes := dictPut d.complexes nm id }).readDoc sl [] before rest
        { d with complexes := dictPut d.complexes nm id } := by
  conv => lhs; unfold readDoc
  simp only [kind_not_ignored, Bool.false_eq_true, if_false, hrl, hn, Option.getD_some]

/-- names of a sequence given as domain handles joined by breaks -/
theorem seqNames_joinWith (w : World) (cd : Nat) (f : String → Nat) (cts : List (List String))
    (h : ∀ c ∈ cts, ∀ n ∈ c, ∃ o, w.domObj (f n) = some (cd, o) ∧ o.name = n) :
    w.seqNames (joinWith none (cts.map (fun c => (c.map f).map some))) = some (joinWith "+" cts) := by
  induction cts with
  | nil => rfl
  | cons c rest ih =>
    have hc := seqNames_content w cd f c (h c (by simp))
    cases rest with
    | nil => simpa [joinWith] using hc
    | cons c2 rest2 =>
      have ih' := ih (fun x hx => h x (by simp [hx]))
      simp only [List.map_cons, joinWith] at ih' ⊢
      unfold World.seqNames at hc ih' ⊢
      rw [List.mapM_append, hc]
      simp only [List.mapM_cons, ih']
      rfl

end Dsd.Sig
