/-
A small "symbolic execution" toolkit for the pyparsing model (`PP.run`).

`Ok env N ctx g p r` : with any fuel `≥ N` the element `g` succeeds at `p` with result `r`;
`No env N ctx g p`   : with any fuel `≥ N` it fails.
(Failure is fuel-sensitive in the model — running out of fuel is reported as `none`, which `Optional`,
`MatchFirst` and the repetitions catch — hence both notions are "for all sufficiently large fuel".)
The lemmas compose these judgements through the grammar constructors; the bounds are closed numerals.
-/
import DsdVerif.Model.Pyparsing

namespace Dsd.PP

def Ok (env : Env) (N : Nat) (ctx : Ctx) (g : G) (p : Pos) (r : Pos × List Tree) : Prop :=
  ∀ fuel, N ≤ fuel → run env fuel ctx g p = some r
def No (env : Env) (N : Nat) (ctx : Ctx) (g : G) (p : Pos) : Prop :=
  ∀ fuel, N ≤ fuel → run env fuel ctx g p = none
def OkSeq (env : Env) (N : Nat) (ctx : Ctx) (gs : List G) (p : Pos) (r : Pos × List Tree) : Prop :=
  ∀ fuel, N ≤ fuel → runSeq env fuel ctx gs p = some r
def NoSeq (env : Env) (N : Nat) (ctx : Ctx) (gs : List G) (p : Pos) : Prop :=
  ∀ fuel, N ≤ fuel → runSeq env fuel ctx gs p = none
def OkAlt (env : Env) (N : Nat) (ctx : Ctx) (gs : List G) (p : Pos) (r : Pos × List Tree) : Prop :=
  ∀ fuel, N ≤ fuel → runAlt env fuel ctx gs p = some r
def NoAlt (env : Env) (N : Nat) (ctx : Ctx) (gs : List G) (p : Pos) : Prop :=
  ∀ fuel, N ≤ fuel → runAlt env fuel ctx gs p = none
def OkMany (env : Env) (N : Nat) (ctx : Ctx) (g : G) (p : Pos) (r : Pos × List Tree) : Prop :=
  ∀ reps fuel, N ≤ reps → N ≤ fuel → runMany env reps fuel ctx g p = some r

theorem succ_of_le {N fuel : Nat} (h : N + 1 ≤ fuel) : ∃ f, fuel = f + 1 ∧ N ≤ f :=
  ⟨fuel - 1, by omega, by omega⟩

theorem Ok.mono {env N N' ctx g p r} (h : Ok env N ctx g p r) (hN : N ≤ N') : Ok env N' ctx g p r :=
  fun fuel hf => h fuel (by omega)
theorem No.mono {env N N' ctx g p} (h : No env N ctx g p) (hN : N ≤ N') : No env N' ctx g p :=
  fun fuel hf => h fuel (by omega)

theorem NoSeq.mono {env N N' ctx gs p} (h : NoSeq env N ctx gs p) (hN : N ≤ N') : NoSeq env N' ctx gs p :=
  fun fuel hf => h fuel (by omega)

/-! ### skipping -/

theorem pre_past (ctx : Ctx) (p : Pos) : (pre ctx p).past = p.past := by
  unfold pre; split <;> rfl

theorem pre_skip (p : Pos) : (pre {} p).rest = skipIgn p.rest := rfl
theorem pre_noskip (p : Pos) : (pre { skip := false } p).rest = p.rest := rfl

theorem skipWs_replicate (n : Nat) (r : List Char) : skipWs (List.replicate n ' ' ++ r) = skipWs r := by
  induction n with
  | zero => rfl
  | succ n ih => simp only [List.replicate_succ, List.cons_append, skipWs, List.dropWhile_cons] at ih ⊢
                 simp [isWs, ih]

theorem skipWs_cons (c : Char) (r : List Char) (h : isWs c = false) : skipWs (c :: r) = c :: r := by
  simp [skipWs, h]

theorem skipWs_nil : skipWs [] = [] := rfl

theorem skipIgn_nil : skipIgn [] = [] := rfl

theorem skipIgn_of_skipWs (cs : List Char) (c : Char) (r : List Char) (h : skipWs cs = c :: r) (hc : c ≠ '#') :
    skipIgn cs = c :: r := by
  unfold skipIgn
  simp only [h]
  split
  · rename_i heq; simp at heq; exact absurd heq.1 hc
  · rfl

theorem skipIgn_blanks_cons (n : Nat) (c : Char) (r : List Char) (h : isWs c = false) (hc : c ≠ '#') :
    skipIgn (List.replicate n ' ' ++ c :: r) = c :: r :=
  skipIgn_of_skipWs _ c r (by rw [skipWs_replicate, skipWs_cons c r h]) hc

theorem skipIgn_cons (c : Char) (r : List Char) (h : isWs c = false) (hc : c ≠ '#') :
    skipIgn (c :: r) = c :: r :=
  skipIgn_of_skipWs _ c r (skipWs_cons c r h) hc

theorem skipIgn_blanks (n : Nat) : skipIgn (List.replicate n ' ') = [] := by
  have := skipWs_replicate n []
  rw [List.append_nil] at this
  unfold skipIgn
  simp only [this, skipWs_nil]

theorem dropWhile_no_nl (cs : List Char) (h : '\n' ∉ cs) : cs.dropWhile (· != '\n') = [] := by
  induction cs with
  | nil => rfl
  | cons c cs ih =>
    simp only [List.mem_cons, not_or] at h
    have : (c != '\n') = true := by simp; exact fun e => h.1 e.symm
    rw [List.dropWhile_cons, this]
    exact ih h.2

theorem skipIgn_comment (n : Nat) (comment : List Char) (h : '\n' ∉ comment) :
    skipIgn (List.replicate n ' ' ++ '#' :: comment) = [] := by
  have e : skipWs (List.replicate n ' ' ++ '#' :: comment) = '#' :: comment := by
    rw [skipWs_replicate, skipWs_cons _ _ (by decide)]
  unfold skipIgn
  simp only [e]
  have : ('#' :: comment).dropWhile (· != '\n') = [] :=
    dropWhile_no_nl _ (by simp only [List.mem_cons, not_or]; exact ⟨by decide, h⟩)
  rw [this]; rfl

/-! ### leaves -/

theorem stripPrefix_append (s r : List Char) : stripPrefix s (s ++ r) = some r := by
  induction s with
  | nil => cases r <;> rfl
  | cons a s ih => simp [stripPrefix, ih]

theorem Ok_lit (env : Env) (ctx : Ctx) (s : List Char) (p : Pos) (r : List Char)
    (h : (pre ctx p).rest = s ++ r) (hp : p.past = false) :
    Ok env 1 ctx (.lit s) p ({ rest := r, past := false }, [.tok (String.ofList s)]) := by
  intro fuel hf
  obtain ⟨f, rfl, _⟩ := succ_of_le hf
  simp only [run, pre_past, hp, h, stripPrefix_append]
  simp

theorem No_lit_past (env : Env) (ctx : Ctx) (s : List Char) (p : Pos) (hp : p.past = true) :
    No env 1 ctx (.lit s) p := by
  intro fuel hf
  obtain ⟨f, rfl, _⟩ := succ_of_le hf
  simp only [run, pre_past, hp]
  simp

theorem No_lit (env : Env) (ctx : Ctx) (s : List Char) (p : Pos)
    (h : stripPrefix s (pre ctx p).rest = none) : No env 1 ctx (.lit s) p := by
  intro fuel hf
  obtain ⟨f, rfl, _⟩ := succ_of_le hf
  simp only [run, h]
  split <;> rfl

/-! `Keyword`: like `Literal`, but the character after the match (if any) must not be an identifier character -/

/-- a keyword succeeds when the text starts with it and continues with the end of the text or with a character that
    is not an identifier character (a blank, `=`, a line end, …) -/
theorem Ok_keyword (env : Env) (ctx : Ctx) (s ident : List Char) (p : Pos) (r : List Char)
    (h : (pre ctx p).rest = s ++ r) (hp : p.past = false) (hr : ∀ x, r.head? = some x → x ∉ ident) :
    Ok env 1 ctx (.kw s ident) p ({ rest := r, past := false }, [.tok (String.ofList s)]) := by
  intro fuel hf
  obtain ⟨f, rfl, _⟩ := succ_of_le hf
  simp only [run, pre_past, hp, h, stripPrefix_append]
  cases r with
  | nil => simp
  | cons c r =>
    have : c ∉ ident := hr c rfl
    simp [this]

theorem No_keyword_past (env : Env) (ctx : Ctx) (s ident : List Char) (p : Pos) (hp : p.past = true) :
    No env 1 ctx (.kw s ident) p := by
  intro fuel hf
  obtain ⟨f, rfl, _⟩ := succ_of_le hf
  simp only [run, pre_past, hp]
  simp

/-- a keyword fails when the text does not start with it -/
theorem No_keyword (env : Env) (ctx : Ctx) (s ident : List Char) (p : Pos)
    (h : stripPrefix s (pre ctx p).rest = none) : No env 1 ctx (.kw s ident) p := by
  intro fuel hf
  obtain ⟨f, rfl, _⟩ := succ_of_le hf
  simp only [run, h]
  split <;> rfl

/-- a keyword fails when it is followed by an identifier character (it is a proper prefix of a longer name) -/
theorem No_keyword_ident (env : Env) (ctx : Ctx) (s ident : List Char) (p : Pos) (c : Char) (r : List Char)
    (h : (pre ctx p).rest = s ++ c :: r) (hc : c ∈ ident) : No env 1 ctx (.kw s ident) p := by
  intro fuel hf
  obtain ⟨f, rfl, _⟩ := succ_of_le hf
  simp only [run, h, stripPrefix_append]
  simp [hc]

theorem takeWhile_body (body m r : List Char) (hm : ∀ x ∈ m, x ∈ body)
    (hr : ∀ x, r.head? = some x → x ∉ body) :
    (m ++ r).takeWhile (fun x => body.contains x) = m := by
  induction m with
  | nil =>
    cases r with
    | nil => rfl
    | cons x r =>
      have := hr x rfl
      simp [this]
  | cons a m ih =>
    have ha : a ∈ body := hm a (by simp)
    simp only [List.cons_append, List.takeWhile_cons, List.contains_iff_mem, ha, if_true]
    rw [ih (fun x hx => hm x (List.mem_cons_of_mem _ hx))]

theorem Ok_word (env : Env) (ctx : Ctx) (init body : List Char) (p : Pos) (c : Char) (m r : List Char)
    (h : (pre ctx p).rest = c :: (m ++ r)) (hc : c ∈ init) (hm : ∀ x ∈ m, x ∈ body)
    (hr : ∀ x, r.head? = some x → x ∉ body) :
    Ok env 1 ctx (.word init body) p ({ rest := r, past := p.past }, [.tok (String.ofList (c :: m))]) := by
  intro fuel hf
  obtain ⟨f, rfl, _⟩ := succ_of_le hf
  simp only [run, h, List.contains_iff_mem, hc, if_true]
  have := takeWhile_body body m r hm hr
  rw [this, List.drop_left, pre_past]

theorem No_word_nil (env : Env) (ctx : Ctx) (init body : List Char) (p : Pos) (h : (pre ctx p).rest = []) :
    No env 1 ctx (.word init body) p := by
  intro fuel hf
  obtain ⟨f, rfl, _⟩ := succ_of_le hf
  simp only [run, h]

theorem No_word_cons (env : Env) (ctx : Ctx) (init body : List Char) (p : Pos) (c : Char) (t : List Char)
    (h : (pre ctx p).rest = c :: t) (hc : c ∉ init) : No env 1 ctx (.word init body) p := by
  intro fuel hf
  obtain ⟨f, rfl, _⟩ := succ_of_le hf
  simp only [run, h, List.contains_iff_mem, hc]
  simp

theorem Ok_lineEnd_nl (env : Env) (ctx : Ctx) (p : Pos) (r : List Char) (h : (pre ctx p).rest = '\n' :: r) :
    Ok env 1 ctx .lineEnd p ({ rest := r, past := p.past }, [.tok "\n"]) := by
  intro fuel hf
  obtain ⟨f, rfl, _⟩ := succ_of_le hf
  simp only [run, h, pre_past]

theorem Ok_lineEnd_eof (env : Env) (ctx : Ctx) (p : Pos) (h : (pre ctx p).rest = []) (hp : p.past = false) :
    Ok env 1 ctx .lineEnd p ({ rest := [], past := true }, []) := by
  intro fuel hf
  obtain ⟨f, rfl, _⟩ := succ_of_le hf
  simp only [run, h, pre_past, hp]
  simp

theorem No_lineEnd_past (env : Env) (ctx : Ctx) (p : Pos) (h : (pre ctx p).rest = []) (hp : p.past = true) :
    No env 1 ctx .lineEnd p := by
  intro fuel hf
  obtain ⟨f, rfl, _⟩ := succ_of_le hf
  simp only [run, h, pre_past, hp]
  simp

theorem No_lineEnd_cons (env : Env) (ctx : Ctx) (p : Pos) (c : Char) (t : List Char)
    (h : (pre ctx p).rest = c :: t) (hc : c ≠ '\n') : No env 1 ctx .lineEnd p := by
  intro fuel hf
  obtain ⟨f, rfl, _⟩ := succ_of_le hf
  simp only [run, h]
  split
  · rename_i heq; simp at heq; exact absurd heq.1 hc
  · rename_i heq; simp at heq
  · rfl

theorem Ok_stringStart (env : Env) (ctx : Ctx) (p : Pos) : Ok env 1 ctx .stringStart p (p, []) := by
  intro fuel hf
  obtain ⟨f, rfl, _⟩ := succ_of_le hf
  simp only [run]

theorem Ok_stringEnd (env : Env) (ctx : Ctx) (p : Pos) (h : (pre ctx p).rest = []) :
    Ok env 1 ctx .stringEnd p ({ rest := [], past := true }, []) := by
  intro fuel hf
  obtain ⟨f, rfl, _⟩ := succ_of_le hf
  simp only [run, h]
  simp

/-! ### sequences -/

theorem OkSeq_nil (env : Env) (ctx : Ctx) (p : Pos) : OkSeq env 1 ctx [] p (p, []) := by
  intro fuel hf
  obtain ⟨f, rfl, _⟩ := succ_of_le hf
  simp only [runSeq]

theorem OkSeq_cons {env : Env} {N1 N2 : Nat} {ctx : Ctx} {g : G} {gs : List G} {p p1 p2 : Pos}
    {t1 t2 : List Tree} (h1 : Ok env N1 ctx g p (p1, t1)) (h2 : OkSeq env N2 ctx gs p1 (p2, t2)) :
    OkSeq env (max N1 N2 + 1) ctx (g :: gs) p (p2, t1 ++ t2) := by
  intro fuel hf
  obtain ⟨f, rfl, hf'⟩ := succ_of_le hf
  simp only [runSeq, h1 f (by omega), h2 f (by omega)]

theorem NoSeq_head {env : Env} {N : Nat} {ctx : Ctx} {g : G} {gs : List G} {p : Pos}
    (h1 : No env N ctx g p) : NoSeq env (N + 1) ctx (g :: gs) p := by
  intro fuel hf
  obtain ⟨f, rfl, hf'⟩ := succ_of_le hf
  simp only [runSeq, h1 f hf']

theorem NoSeq_tail {env : Env} {N1 N2 : Nat} {ctx : Ctx} {g : G} {gs : List G} {p p1 : Pos}
    {t1 : List Tree} (h1 : Ok env N1 ctx g p (p1, t1)) (h2 : NoSeq env N2 ctx gs p1) :
    NoSeq env (max N1 N2 + 1) ctx (g :: gs) p := by
  intro fuel hf
  obtain ⟨f, rfl, hf'⟩ := succ_of_le hf
  simp only [runSeq, h1 f (by omega), h2 f (by omega)]

theorem Ok_seq {env : Env} {N : Nat} {ctx : Ctx} {gs : List G} {p : Pos} {r : Pos × List Tree}
    (h : OkSeq env N ctx gs p r) : Ok env (N + 1) ctx (.seq gs) p r := by
  intro fuel hf
  obtain ⟨f, rfl, hf'⟩ := succ_of_le hf
  simp only [run, h f hf']

theorem No_seq {env : Env} {N : Nat} {ctx : Ctx} {gs : List G} {p : Pos}
    (h : NoSeq env N ctx gs p) : No env (N + 1) ctx (.seq gs) p := by
  intro fuel hf
  obtain ⟨f, rfl, hf'⟩ := succ_of_le hf
  simp only [run, h f hf']

/-! ### ordered choice -/

theorem OkAlt_head {env : Env} {N : Nat} {ctx : Ctx} {g : G} {gs : List G} {p : Pos} {r : Pos × List Tree}
    (h : Ok env N ctx g p r) : OkAlt env (N + 1) ctx (g :: gs) p r := by
  intro fuel hf
  obtain ⟨f, rfl, hf'⟩ := succ_of_le hf
  simp only [runAlt, h f hf']

theorem OkAlt_tail {env : Env} {N1 N2 : Nat} {ctx : Ctx} {g : G} {gs : List G} {p : Pos} {r : Pos × List Tree}
    (h1 : No env N1 ctx g p) (h2 : OkAlt env N2 ctx gs p r) : OkAlt env (max N1 N2 + 1) ctx (g :: gs) p r := by
  intro fuel hf
  obtain ⟨f, rfl, hf'⟩ := succ_of_le hf
  simp only [runAlt, h1 f (by omega), h2 f (by omega)]

theorem NoAlt_nil (env : Env) (ctx : Ctx) (p : Pos) : NoAlt env 0 ctx [] p := by
  intro fuel _
  cases fuel <;> simp only [runAlt]

theorem NoAlt_cons {env : Env} {N1 N2 : Nat} {ctx : Ctx} {g : G} {gs : List G} {p : Pos}
    (h1 : No env N1 ctx g p) (h2 : NoAlt env N2 ctx gs p) : NoAlt env (max N1 N2 + 1) ctx (g :: gs) p := by
  intro fuel hf
  obtain ⟨f, rfl, hf'⟩ := succ_of_le hf
  simp only [runAlt, h1 f (by omega), h2 f (by omega)]

theorem Ok_alt {env : Env} {N : Nat} {ctx : Ctx} {gs : List G} {p : Pos} {r : Pos × List Tree}
    (h : OkAlt env N ctx gs p r) : Ok env (N + 1) ctx (.alt gs) p r := by
  intro fuel hf
  obtain ⟨f, rfl, hf'⟩ := succ_of_le hf
  simp only [run, h f hf']

theorem No_alt {env : Env} {N : Nat} {ctx : Ctx} {gs : List G} {p : Pos}
    (h : NoAlt env N ctx gs p) : No env (N + 1) ctx (.alt gs) p := by
  intro fuel hf
  obtain ⟨f, rfl, hf'⟩ := succ_of_le hf
  simp only [run, h f hf']

/-! ### option, wrappers -/

theorem Ok_opt_some {env : Env} {N : Nat} {ctx : Ctx} {g : G} {p : Pos} {r : Pos × List Tree}
    (h : Ok env N ctx g p r) : Ok env (N + 1) ctx (.opt g) p r := by
  intro fuel hf
  obtain ⟨f, rfl, hf'⟩ := succ_of_le hf
  simp only [run, h f hf']

theorem Ok_opt_none {env : Env} {N : Nat} {ctx : Ctx} {g : G} {p : Pos}
    (h : No env N ctx g p) : Ok env (N + 1) ctx (.opt g) p (p, []) := by
  intro fuel hf
  obtain ⟨f, rfl, hf'⟩ := succ_of_le hf
  simp only [run, h f hf']

theorem Ok_group {env : Env} {N : Nat} {ctx : Ctx} {g : G} {p p2 : Pos} {ts : List Tree}
    (h : Ok env N ctx g p (p2, ts)) : Ok env (N + 1) ctx (.group g) p (p2, [.grp ts]) := by
  intro fuel hf
  obtain ⟨f, rfl, hf'⟩ := succ_of_le hf
  simp only [run, h f hf']

theorem No_group {env : Env} {N : Nat} {ctx : Ctx} {g : G} {p : Pos}
    (h : No env N ctx g p) : No env (N + 1) ctx (.group g) p := by
  intro fuel hf
  obtain ⟨f, rfl, hf'⟩ := succ_of_le hf
  simp only [run, h f hf']

theorem Ok_suppress {env : Env} {N : Nat} {ctx : Ctx} {g : G} {p p2 : Pos} {ts : List Tree}
    (h : Ok env N ctx g p (p2, ts)) : Ok env (N + 1) ctx (.suppress g) p (p2, []) := by
  intro fuel hf
  obtain ⟨f, rfl, hf'⟩ := succ_of_le hf
  simp only [run, h f hf']

theorem No_suppress {env : Env} {N : Nat} {ctx : Ctx} {g : G} {p : Pos}
    (h : No env N ctx g p) : No env (N + 1) ctx (.suppress g) p := by
  intro fuel hf
  obtain ⟨f, rfl, hf'⟩ := succ_of_le hf
  simp only [run, h f hf']

theorem Ok_tag {env : Env} {N : Nat} {ctx : Ctx} {t : String} {g : G} {p p2 : Pos} {ts : List Tree}
    (h : Ok env N ctx g p (p2, ts)) : Ok env (N + 1) ctx (.tag t g) p (p2, .tok t :: ts) := by
  intro fuel hf
  obtain ⟨f, rfl, hf'⟩ := succ_of_le hf
  simp only [run, h f hf']

theorem No_tag {env : Env} {N : Nat} {ctx : Ctx} {t : String} {g : G} {p : Pos}
    (h : No env N ctx g p) : No env (N + 1) ctx (.tag t g) p := by
  intro fuel hf
  obtain ⟨f, rfl, hf'⟩ := succ_of_le hf
  simp only [run, h f hf']

/-- `Combine`: `toks` are the tokens of `ts` (any depth bound `≥ N'` yields them) -/
theorem Ok_combine {env : Env} {N N' : Nat} {ctx : Ctx} {g : G} {p p2 : Pos} {ts : List Tree}
    {toks : List String} (h : Ok env N { skip := false } g (pre ctx p) (p2, ts))
    (ht : ∀ f, N' ≤ f → flatToks f ts = toks) :
    Ok env (max N N' + 1) ctx (.combine g) p (p2, [.tok (String.join toks)]) := by
  intro fuel hf
  obtain ⟨f, rfl, hf'⟩ := succ_of_le hf
  simp only [run, h f (by omega), ht (f + 1) (by omega)]

theorem No_combine {env : Env} {N : Nat} {ctx : Ctx} {g : G} {p : Pos}
    (h : No env N { skip := false } g (pre ctx p)) : No env (N + 1) ctx (.combine g) p := by
  intro fuel hf
  obtain ⟨f, rfl, hf'⟩ := succ_of_le hf
  simp only [run, h f hf']

/-! ### repetition -/

theorem OkMany_stop {env : Env} {N : Nat} {ctx : Ctx} {g : G} {p : Pos}
    (h : No env N ctx g p) : OkMany env (N + 1) ctx g p (p, []) := by
  intro reps fuel hr hf
  obtain ⟨f, rfl, hf'⟩ := succ_of_le hf
  obtain ⟨k, rfl, _⟩ := succ_of_le hr
  simp only [runMany, h f hf']

theorem OkMany_step {env : Env} {N1 N2 : Nat} {ctx : Ctx} {g : G} {p p1 p2 : Pos} {t1 t2 : List Tree}
    (h1 : Ok env N1 ctx g p (p1, t1)) (hne : p1 ≠ p) (h2 : OkMany env N2 ctx g p1 (p2, t2)) :
    OkMany env (max N1 N2 + 1) ctx g p (p2, t1 ++ t2) := by
  intro reps fuel hr hf
  obtain ⟨f, rfl, hf'⟩ := succ_of_le hf
  obtain ⟨k, rfl, hk⟩ := succ_of_le hr
  simp only [runMany, h1 f (by omega), h2 k f (by omega) (by omega)]
  simp [hne]

theorem Ok_many {env : Env} {N : Nat} {ctx : Ctx} {g : G} {p : Pos} {r : Pos × List Tree}
    (h : OkMany env N ctx g p r) : Ok env (N + 1) ctx (.many g) p r := by
  intro fuel hf
  obtain ⟨f, rfl, hf'⟩ := succ_of_le hf
  simp only [run, h f f hf' hf']

theorem Ok_many1 {env : Env} {N1 N2 : Nat} {ctx : Ctx} {g : G} {p p1 p2 : Pos} {t1 t2 : List Tree}
    (h1 : Ok env N1 ctx g p (p1, t1)) (h2 : OkMany env N2 ctx g p1 (p2, t2)) :
    Ok env (max N1 N2 + 1) ctx (.many1 g) p (p2, t1 ++ t2) := by
  intro fuel hf
  obtain ⟨f, rfl, hf'⟩ := succ_of_le hf
  simp only [run, h1 f (by omega), h2 f f (by omega) (by omega)]

theorem No_many1 {env : Env} {N : Nat} {ctx : Ctx} {g : G} {p : Pos}
    (h : No env N ctx g p) : No env (N + 1) ctx (.many1 g) p := by
  intro fuel hf
  obtain ⟨f, rfl, hf'⟩ := succ_of_le hf
  simp only [run, h f hf']

/-! ### fuel monotonicity

`run` is *not* monotone in the fuel in general: running out of fuel is reported as `none`, and `Optional`,
`MatchFirst`, `ZeroOrMore`/`OneOrMore` turn a `none` of a sub-element into a success; `Combine` joins
`flatToks (fuel + 1) ts`, which truncates long token lists.  It is monotone on the fragment without these. -/

/-- grammars without choice points (`alt`, `opt`, `many`, `many1`) and without `Combine` -/
inductive Simple : G → Prop
  | lit (s) : Simple (.lit s)
  | kw (s i) : Simple (.kw s i)
  | word (i b) : Simple (.word i b)
  | white : Simple .white
  | lineEnd : Simple .lineEnd
  | stringStart : Simple .stringStart
  | stringEnd : Simple .stringEnd
  | seq (gs) : (∀ g ∈ gs, Simple g) → Simple (.seq gs)
  | group (g) : Simple g → Simple (.group g)
  | suppress (g) : Simple g → Simple (.suppress g)
  | tag (t g) : Simple g → Simple (.tag t g)
  | ref (n) : Simple (.ref n)

theorem run_fuel_mono_false :
    ¬ ∀ (env : Env) (fuel k : Nat) (ctx : Ctx) (g : G) (p : Pos) (r : Pos × List Tree),
      run env fuel ctx g p = some r → run env (fuel + k) ctx g p = some r := by
  intro h
  have := h [] 1 1 {} (.opt (.lit ['a'])) { rest := ['a'] } ({ rest := ['a'] }, []) (by simp [run])
  simp [run, pre, skipIgn, skipWs, isWs, stripPrefix] at this

theorem run_fuel_mono_simple (env : Env) (henv : ∀ n g, env.lookup n = some g → Simple g) :
    ∀ fuel,
      (∀ ctx g p r, Simple g → run env fuel ctx g p = some r → ∀ k, run env (fuel + k) ctx g p = some r) ∧
      (∀ ctx gs p r, (∀ g ∈ gs, Simple g) → runSeq env fuel ctx gs p = some r →
        ∀ k, runSeq env (fuel + k) ctx gs p = some r) := by
  intro fuel
  induction fuel with
  | zero =>
    constructor
    · intro ctx g p r _ h; simp [run] at h
    · intro ctx gs p r _ h; simp [runSeq] at h
  | succ f ih =>
    obtain ⟨ih1, ih2⟩ := ih
    constructor
    · intro ctx g p r hg h k
      rw [Nat.add_right_comm]
      cases hg with
      | lit s => simp only [run] at h ⊢; exact h
      | kw s i => simp only [run] at h ⊢; exact h
      | word i b => simp only [run] at h ⊢; exact h
      | white => simp only [run] at h ⊢; exact h
      | lineEnd => simp only [run] at h ⊢; exact h
      | stringStart => simp only [run] at h ⊢; exact h
      | stringEnd => simp only [run] at h ⊢; exact h
      | seq gs hgs => simp only [run] at h ⊢; exact ih2 ctx gs p r hgs h k
      | group g hg =>
        simp only [run] at h ⊢
        cases hr : run env f ctx g p with
        | none => simp [hr] at h
        | some q => simp only [hr] at h; simp only [ih1 ctx g p q hg hr k]; exact h
      | suppress g hg =>
        simp only [run] at h ⊢
        cases hr : run env f ctx g p with
        | none => simp [hr] at h
        | some q => simp only [hr] at h; simp only [ih1 ctx g p q hg hr k]; exact h
      | tag t g hg =>
        simp only [run] at h ⊢
        cases hr : run env f ctx g p with
        | none => simp [hr] at h
        | some q => simp only [hr] at h; simp only [ih1 ctx g p q hg hr k]; exact h
      | ref n =>
        simp only [run] at h ⊢
        cases hl : env.lookup n with
        | none => simp [hl] at h
        | some g' =>
          simp only [hl] at h ⊢
          exact ih1 ctx g' p r (henv n g' hl) h k
    · intro ctx gs p r hgs h k
      rw [Nat.add_right_comm]
      cases gs with
      | nil => simp only [runSeq] at h ⊢; exact h
      | cons g gs =>
        simp only [runSeq] at h ⊢
        cases hr : run env f ctx g p with
        | none => simp [hr] at h
        | some q =>
          obtain ⟨p1, t1⟩ := q
          simp only [hr] at h
          simp only [ih1 ctx g p _ (hgs g (by simp)) hr k]
          cases hr2 : runSeq env f ctx gs p1 with
          | none => simp [hr2] at h
          | some q2 =>
            simp only [hr2] at h
            simp only [ih2 ctx gs p1 q2 (fun x hx => hgs x (List.mem_cons_of_mem _ hx)) hr2 k]
            exact h


end Dsd.PP
