/-
Class independence of the reader (C15), world level: every request the reader makes touches the registry of
one class of one kind only; a weaker well-formedness `WF` (no condition on names) that is kept by ALL requests —
also by the ones that fault — and by garbage collection.
-/
import DsdVerif.Lemmas.ReaderWF

namespace Dsd.RdL
open Dsd Dsd.PP

/-! ### registries off one class are untouched -/

/-- the registered objects of every class other than `c` are the same -/
def SameOff {κ} (c : Nat) (cs cs' : List (ClassReg κ)) : Prop :=
  ∀ c', c' ≠ c → (cs'[c']?).map (·.reg.objs) = (cs[c']?).map (·.reg.objs)

theorem SameOff.refl {κ} (c : Nat) (cs : List (ClassReg κ)) : SameOff c cs cs := fun _ _ => rfl
theorem SameOff.trans {κ} {c : Nat} {a b d : List (ClassReg κ)} (h1 : SameOff c a b) (h2 : SameOff c b d) :
    SameOff c a d := fun c' hc => (h2 c' hc).trans (h1 c' hc)
theorem SameOff.of_eq {κ} (c : Nat) {cs cs' : List (ClassReg κ)} (h : cs' = cs) : SameOff c cs cs' := by
  subst h; exact SameOff.refl c _

/-- what a request to class `c` of kind `k` leaves alone: all other kinds, and the other classes of kind `k` -/
def FrameK (k : Kind) (c : Nat) (w w' : World) : Prop :=
  (if k = .dom then SameOff c w.doms w'.doms else w'.doms = w.doms) ∧
  (if k = .strand then SameOff c w.strands w'.strands else w'.strands = w.strands) ∧
  (if k = .cplx then SameOff c w.cplxs w'.cplxs else w'.cplxs = w.cplxs) ∧
  (if k = .macro then SameOff c w.macros w'.macros else w'.macros = w.macros) ∧
  (if k = .rxn then SameOff c w.rxns w'.rxns else w'.rxns = w.rxns)

theorem settle_held (w : World) (out : Out) (k : Kind) (c : Nat) (ch : List Nat) :
    ∀ x ∈ w.held, x ∈ (w.settle out k c ch).held := by
  intro x hx
  unfold World.settle
  split
  · simp only; split
    · exact hx
    · exact List.mem_append_left _ hx
  · simp only; split
    · exact hx
    · exact List.mem_append_left _ hx
  · exact hx

theorem settle_ret_held (w : World) (i : Nat) (b : Bool) (k : Kind) (c : Nat) (ch : List Nat) :
    i ∈ (w.settle (.ret i b) k c ch).held := by
  unfold World.settle
  cases b <;> simp only <;> split <;> simp_all

theorem withClass_sameOff {κ} (cs : List (ClassReg κ)) (c : Nat) (f : Reg κ → Reg κ × Out) :
    SameOff c cs (World.withClass cs c f).1 := fun c' hc => (C05.withClass_frame cs c f c' hc).1

theorem mkDom_frameK (w : World) (c : Nat) (q : DomReq) :
    FrameK .dom c w (w.mkDom c q).1 ∧ (∀ x ∈ w.held, x ∈ (w.mkDom c q).1.held) ∧
    (∀ i b, (w.mkDom c q).2 = .ret i b → i ∈ (w.mkDom c q).1.held) := by
  obtain ⟨h1, h2, h3, h4, h5⟩ := C05.mkDom_frame w c q
  refine ⟨⟨?_, ?_, ?_, ?_, ?_⟩, ?_, ?_⟩
  · simp only [if_true]; exact h5
  · simp; exact h1
  · simp; exact h2
  · simp; exact h3
  · simp; exact h4
  · rw [C05.mkDom_eq]; intro x hx; exact settle_held _ _ _ _ _ x hx
  · intro i b hi
    rw [C05.mkDom_eq] at hi ⊢
    simp only at hi ⊢
    rw [hi]; exact settle_ret_held _ _ _ _ _ _

/-- the three facts about a request: frame, handles kept, result held -/
def OpFacts (k : Kind) (c : Nat) (w w' : World) (out : Out) : Prop :=
  FrameK k c w w' ∧ (∀ x ∈ w.held, x ∈ w'.held) ∧ (∀ i b, out = .ret i b → i ∈ w'.held)

theorem mkDom_facts (w : World) (c : Nat) (q : DomReq) : OpFacts .dom c w (w.mkDom c q).1 (w.mkDom c q).2 :=
  mkDom_frameK w c q

theorem settle_facts_strands (w : World) (ss : List (ClassReg CKey)) (out : Out) (c : Nat) (ch : List Nat)
    (h : SameOff c w.strands ss) :
    OpFacts .strand c w (({ w with strands := ss } : World).settle out .strand c ch) out := by
  obtain ⟨f1, f2, f3, f4, f5, _⟩ := C05.settle_frame ({ w with strands := ss } : World) out .strand c ch
  refine ⟨⟨?_, ?_, ?_, ?_, ?_⟩, ?_, ?_⟩
  · simp [f1]
  · simp only [if_true, f2]; exact h
  · simp [f3]
  · simp [f4]
  · simp [f5]
  · intro x hx; exact settle_held _ _ _ _ _ x hx
  · intro i b hi; rw [hi]; exact settle_ret_held _ _ _ _ _ _

theorem mkStrand_facts (w : World) (c : Nat) (seq : Option (List (Option Nat))) (name : Option String) :
    OpFacts .strand c w (w.mkStrand c seq name).1 (w.mkStrand c seq name).2 := by
  unfold World.mkStrand
  exact settle_facts_strands w _ _ c _ (withClass_sameOff _ _ _)

theorem settle_facts_macros (w : World) (ss : List (ClassReg MKey)) (out : Out) (c : Nat) (ch : List Nat)
    (h : SameOff c w.macros ss) :
    OpFacts .macro c w (({ w with macros := ss } : World).settle out .macro c ch) out := by
  obtain ⟨f1, f2, f3, f4, f5, _⟩ := C05.settle_frame ({ w with macros := ss } : World) out .macro c ch
  refine ⟨⟨?_, ?_, ?_, ?_, ?_⟩, ?_, ?_⟩
  · simp [f1]
  · simp [f2]
  · simp [f3]
  · simp only [if_true, f4]; exact h
  · simp [f5]
  · intro x hx; exact settle_held _ _ _ _ _ x hx
  · intro i b hi; rw [hi]; exact settle_ret_held _ _ _ _ _ _

theorem mkMacro_facts (w : World) (c : Nat) (members : Option (List Nat)) (name : Option String) :
    OpFacts .macro c w (w.mkMacro c members name).1 (w.mkMacro c members name).2 := by
  unfold World.mkMacro
  exact settle_facts_macros w _ _ c _ (withClass_sameOff _ _ _)

theorem sameOff_set {κ} (cs : List (ClassReg κ)) (c : Nat) (cr : ClassReg κ) : SameOff c cs (cs.set c cr) := by
  intro c' hc
  rw [List.getElem?_set_ne (fun e => hc e.symm)]

theorem mkRxn_facts (w : World) (c : Nat) (rs ps : Option (List Nat)) (rtype name : Option String) :
    OpFacts .rxn c w (w.mkRxn c rs ps rtype name).1 (w.mkRxn c rs ps rtype name).2.1 := by
  unfold World.mkRxn
  cases hc : w.rxns[c]? with
  | none =>
    simp only
    exact ⟨⟨by simp, by simp, by simp, by simp, by simp [SameOff.refl]⟩, fun x hx => hx, by intro i b h; cases h⟩
  | some cr =>
    simp only
    generalize reactionRequest cr.reg w.nextId _ _ rtype name = res
    obtain ⟨r', out, lists⟩ := res
    simp only
    obtain ⟨f1, f2, f3, f4, f5, _⟩ := C05.settle_frame ({ w with rxns := w.rxns.set c { cr with reg := r' } } : World)
      out .rxn c (rs.getD [] ++ ps.getD [])
    refine ⟨⟨?_, ?_, ?_, ?_, ?_⟩, ?_, ?_⟩
    · simp [f1]
    · simp [f2]
    · simp [f3]
    · simp [f4]
    · simp only [if_true, f5]; exact sameOff_set _ _ _
    · intro x hx; exact settle_held _ _ _ _ _ x hx
    · intro i b hi; rw [hi]; exact settle_ret_held _ _ _ _ _ _

theorem mkCplx_facts (w : World) (c : Nat) (seq : Option (List (Option Nat))) (sst : List Char) (name pfx : Option String) :
    OpFacts .cplx c w (w.mkCplx c seq sst name pfx).1 (w.mkCplx c seq sst name pfx).2.1 := by
  obtain ⟨h1, h2, h3, h4, h5⟩ := C05.mkCplx_frame w c seq sst name pfx
  refine ⟨⟨by simp [h1], by simp [h2], by simp only [if_true]; exact h5, by simp [h3], by simp [h4]⟩, ?_, ?_⟩
  · unfold World.mkCplx
    simp only
    cases hc : w.cplxs[c]? with
    | none => intro x hx; exact hx
    | some cr =>
      simp only
      generalize complexRequest _ _ w.nextId _ = res
      obtain ⟨r', out, ids⟩ := res
      simp only
      intro x hx
      have := settle_held ({ w with cplxs := w.cplxs.set c { cr with reg := r', ownId := cr.ownId || r'.autoId != World.effId w.cplxs 5 c } } : World)
        out .cplx c ((seq.getD []).filterMap id) x hx
      split <;> exact this
  · unfold World.mkCplx
    simp only
    cases hc : w.cplxs[c]? with
    | none => intro i b h; cases h
    | some cr =>
      simp only
      generalize complexRequest _ _ w.nextId _ = res
      obtain ⟨r', out, ids⟩ := res
      simp only
      intro i b hi
      have := settle_ret_held ({ w with cplxs := w.cplxs.set c { cr with reg := r', ownId := cr.ownId || r'.autoId != World.effId w.cplxs 5 c } } : World)
        i b .cplx c ((seq.getD []).filterMap id)
      rw [hi]
      split <;> exact this

/-! ### growth without the no-fault clause -/

/-- the effect of a request on identities and nodes; also satisfied by a request that faults -/
structure GrowF (w w' : World) (k : Kind) (c : Nat) (children : List Nat) (out : Out) : Prop where
  lens : w'.doms.length = w.doms.length ∧ w'.strands.length = w.strands.length ∧ w'.cplxs.length = w.cplxs.length ∧
    w'.macros.length = w.macros.length ∧ w'.rxns.length = w.rxns.length
  hasOld : ∀ k' c' i, has w k' c' i → has w' k' c' i
  hasNew : ∀ k' c' i, has w' k' c' i → has w k' c' i ∨ (out = .ret w.nextId true ∧ i = w.nextId ∧ k' = k ∧ c' = c)
  ret : ∀ i b, out = .ret i b → has w' k c i
  retTrue : ∀ i, out = .ret i true → i = w.nextId
  nodes : w'.nodes = w.nodes ++ newNodes out k c children
  next : w'.nextId = nextOf out w.nextId

theorem Grow.toF {w w' k c children out} (g : Grow w w' k c children out) : GrowF w w' k c children out :=
  ⟨g.lens, g.hasOld, g.hasNew, g.ret, g.retTrue, g.nodes, g.next⟩

/-- a request that changed nothing -/
theorem GrowF.same (w : World) (k : Kind) (c : Nat) (children : List Nat) (out : Out) (h : ∀ i b, out ≠ .ret i b) :
    GrowF w w k c children out := by
  refine ⟨⟨rfl, rfl, rfl, rfl, rfl⟩, fun _ _ _ h => h, fun _ _ _ h => Or.inl h, ?_, ?_, ?_, ?_⟩
  · intro i b ho; exact absurd ho (h i b)
  · intro i ho; exact absurd ho (h i true)
  · unfold newNodes; cases out <;> simp_all
  · unfold nextOf; cases out <;> simp_all

/-- replacing a domain class registry by one with the same objects, without creating anything -/
theorem growF_set_same (w : World) (c : Nat) (cr cr' : ClassReg DKey) (hc : w.doms[c]? = some cr)
    (hobjs : cr'.reg.objs = cr.reg.objs) (out : Out) (hout : ∀ i b, out ≠ .ret i b) :
    GrowF w (({ w with doms := w.doms.set c cr' } : World).settle out .dom c []) .dom c [] out := by
  obtain ⟨f1, f2, f3, f4, f5, _⟩ := C05.settle_frame ({ w with doms := w.doms.set c cr' } : World) out .dom c []
  obtain ⟨n1, n2⟩ := settle_nodes ({ w with doms := w.doms.set c cr' } : World) out .dom c []
  have hset := hasObj_set w.doms c cr cr' [] hc (by simp [hobjs])
  have hhas : ∀ k' c' i, has (({ w with doms := w.doms.set c cr' } : World).settle out .dom c []) k' c' i ↔
      has w k' c' i := by
    intro k' c' i
    cases k' <;> simp only [has, f1, f2, f3, f4, f5]
    rw [hset c' i]; simp
  refine ⟨by simp [f1, f2, f3, f4, f5], fun k' c' i h => (hhas k' c' i).2 h, fun k' c' i h => Or.inl ((hhas k' c' i).1 h),
    ?_, ?_, n1, n2⟩
  · intro i b h; exact absurd h (hout i b)
  · intro i h; exact absurd h (hout i true)

/-- a domain request for the empty name faults and leaves identities and nodes alone -/
theorem mkDom_growF_empty (w : World) (c : Nat) (cr : ClassReg DKey) (hc : w.doms[c]? = some cr) (len : Option Nat) :
    GrowF w (w.mkDom c { name := some "", length := len }).1 .dom c [] (w.mkDom c { name := some "", length := len }).2 := by
  rw [C05.mkDom_eq, withClass_some w.doms c _ cr hc]
  have hreq : ∀ cfg r fresh, domainRequest cfg r fresh { name := some "", length := len } = (r, .fault "IndexError") := by
    intro cfg r fresh; simp [domainRequest]
  simp only [hreq]
  refine growF_set_same w c cr _ hc ?_ (.fault "IndexError") (by intro i b h; cases h)
  rfl

/-- a domain request with any name -/
theorem mkDom_growF (w : World) (c : Nat) (cr : ClassReg DKey) (hc : w.doms[c]? = some cr) (n : String) (len : Option Nat) :
    GrowF w (w.mkDom c { name := some n, length := len }).1 .dom c [] (w.mkDom c { name := some n, length := len }).2 := by
  by_cases hn : n = ""
  · subst hn; exact mkDom_growF_empty w c cr hc len
  · exact (mkDom_grow w c cr hc n hn len).1.toF

/-! ### a well-formedness that every request keeps -/

/-- like `WOK`, without the conditions on names -/
structure WF (w : World) : Prop where
  lens : w.doms.length = 4 ∧ w.strands.length = 4 ∧ w.cplxs.length = 4 ∧ w.macros.length = 4 ∧ w.rxns.length = 4
  nodup : (w.nodes.map (·.id)).Nodup
  lt : ∀ n ∈ w.nodes, n.id < w.nextId
  objNode : ∀ k c i, has w k c i → ∃ n ∈ w.nodes, n.id = i ∧ n.kind = k ∧ n.cls = c
  child : ∀ n ∈ w.nodes, ∀ ch ∈ n.children, HasNode w ch

theorem WOK.wf {w : World} (h : WOK w) : WF w := ⟨h.lens, h.nodup, h.lt, h.objNode, h.child⟩

theorem wf_empty : WF ({} : World) := wok_empty.wf

theorem wf_held (w : World) (h : WF w) (held : List Nat) : WF { w with held := held } :=
  ⟨h.lens, h.nodup, h.lt, h.objNode, h.child⟩

theorem GrowF.nodesOld {w w' k c children out} (g : GrowF w w' k c children out) : ∀ n ∈ w.nodes, n ∈ w'.nodes := by
  intro n hn; rw [g.nodes]; exact List.mem_append_left _ hn

theorem GrowF.hasNodeOld {w w' k c children out} (g : GrowF w w' k c children out) (i : Nat) (h : HasNode w i) :
    HasNode w' i := by
  obtain ⟨m, hm, hi⟩ := h
  exact ⟨m, g.nodesOld m hm, hi⟩

/-- the nodes after a request: the old ones, and the new one if an object was created -/
theorem GrowF.node_cases {w w' k c children out} (g : GrowF w w' k c children out) (n : Node) (hn : n ∈ w'.nodes) :
    n ∈ w.nodes ∨ (n = { id := w.nextId, kind := k, cls := c, children := children } ∧ out = .ret w.nextId true) := by
  rw [g.nodes] at hn
  rcases List.mem_append.mp hn with hn | hn
  · exact Or.inl hn
  · right
    unfold newNodes at hn
    cases out with
    | ret i b =>
      cases b with
      | false => simp at hn
      | true =>
        have hi := g.retTrue i rfl
        subst hi
        simp at hn
        exact ⟨hn, rfl⟩
    | _ => simp at hn

theorem GrowF.wf {w w' k c children out} (g : GrowF w w' k c children out) (h : WF w)
    (hch : ∀ ch ∈ children, HasNode w ch) : WF w' := by
  refine ⟨?_, ?_, ?_, ?_, ?_⟩
  · obtain ⟨a, b, c', d, e⟩ := g.lens
    obtain ⟨a', b', c'', d', e'⟩ := h.lens
    exact ⟨by omega, by omega, by omega, by omega, by omega⟩
  · rw [g.nodes]
    unfold newNodes
    cases out with
    | ret i b =>
      cases b with
      | false => simpa using h.nodup
      | true =>
        have hi := g.retTrue i rfl
        simp only [List.map_append, List.map_cons, List.map_nil]
        rw [List.nodup_append]
        refine ⟨h.nodup, by simp, ?_⟩
        intro a ha b hb
        simp at hb; subst hb
        obtain ⟨n, hn, rfl⟩ := List.mem_map.mp ha
        have := h.lt n hn
        omega
    | _ => simpa using h.nodup
  · intro n hn
    have hnext := g.next
    rcases g.node_cases n hn with hn | ⟨rfl, ho⟩
    · have := h.lt n hn
      rw [hnext]; unfold nextOf
      cases out with
      | ret i b => cases b <;> simp <;> omega
      | _ => simpa using this
    · rw [hnext, ho]; simp [nextOf]
  · intro k' c' i hh
    rcases g.hasNew k' c' i hh with hh | ⟨ho, hi, hk, hc⟩
    · obtain ⟨n, hn, h1⟩ := h.objNode k' c' i hh
      exact ⟨n, g.nodesOld n hn, h1⟩
    · refine ⟨{ id := i, kind := k, cls := c, children := children }, ?_, rfl, hk.symm, hc.symm⟩
      rw [g.nodes, ho, hi]
      simp [newNodes]
  · intro n hn ch hc
    rcases g.node_cases n hn with hn | ⟨rfl, _⟩
    · exact g.hasNodeOld ch (h.child n hn ch hc)
    · exact g.hasNodeOld ch (hch ch hc)

/-! ### look-ups and collection under `WF` -/

theorem wf_node_of_mem (w : World) (h : WF w) (n : Node) (hn : n ∈ w.nodes) : w.node n.id = some n := by
  unfold World.node
  apply RegL.find?_unique _ _ n hn (by simp)
  intro a ha hp
  exact eq_of_nodup_map (·.id) w.nodes h.nodup a n ha hn (by simpa using hp)

theorem wf_node_of_has (w : World) (h : WF w) (k : Kind) (c i : Nat) (hh : has w k c i) :
    ∃ n, w.node i = some n ∧ n ∈ w.nodes ∧ n.id = i ∧ n.kind = k ∧ n.cls = c := by
  obtain ⟨n, hn, h1, h2, h3⟩ := h.objNode k c i hh
  exact ⟨n, by rw [← h1]; exact wf_node_of_mem w h n hn, hn, h1, h2, h3⟩

/-- an identity lives in one class of one kind only -/
theorem wf_has_unique (w : World) (h : WF w) (k k' : Kind) (c c' i : Nat) (h1 : has w k c i) (h2 : has w k' c' i) :
    k = k' ∧ c = c' := by
  obtain ⟨n, hn, _, _, hk, hc⟩ := wf_node_of_has w h k c i h1
  obtain ⟨n', hn', _, _, hk', hc'⟩ := wf_node_of_has w h k' c' i h2
  rw [hn] at hn'
  cases hn'
  exact ⟨hk.symm.trans hk', hc.symm.trans hc'⟩

theorem wf_collect (w : World) (h : WF w) : WF w.collect := by
  refine ⟨?_, ?_, ?_, ?_, ?_⟩
  · obtain ⟨a, b, c, d, e⟩ := h.lens
    simp only [World.collect, World.dropDead, List.length_map]
    exact ⟨a, b, c, d, e⟩
  · simp only [World.collect]
    exact List.Nodup.sublist (List.Sublist.map _ List.filter_sublist) h.nodup
  · intro n hn
    simp only [World.collect, List.mem_filter] at hn ⊢
    exact h.lt n hn.1
  · intro k c i hh
    obtain ⟨hh, ha⟩ := (has_collect w k c i).1 hh
    obtain ⟨n, hn, h1, h2, h3⟩ := h.objNode k c i hh
    refine ⟨n, ?_, h1, h2, h3⟩
    simp only [World.collect, List.mem_filter, List.contains_eq_mem, decide_eq_true_eq]
    exact ⟨hn, by rw [h1]; exact ha⟩
  · intro n hn ch hc
    simp only [World.collect, List.mem_filter, List.contains_eq_mem, decide_eq_true_eq] at hn
    obtain ⟨m, hm, hmi⟩ := h.child n hn.1 ch hc
    refine ⟨m, ?_, hmi⟩
    simp only [World.collect, List.mem_filter, List.contains_eq_mem, decide_eq_true_eq]
    refine ⟨hm, ?_⟩
    rw [hmi]
    apply WorldL.reachable_closed w n.id hn.2 ch
    have := wf_node_of_mem w h n hn.1
    unfold World.node at this
    unfold World.childrenOf
    rw [this]; exact hc

end Dsd.RdL
