/-
`RelatedF`: the relation between the parameter `request` of the translated `identifiers` and the parameter `nested` of the model, with
the FRESHNESS precondition that `tmp` is not the identity of a live object (the relation `Related` of Lemmas/PyDomainEqIdent.lean
without it cannot hold for the real request), and the branch theorems re-derived under it (the same proofs, the freshness passed on:
after the value of a nested request has been released, `tmp` is free again).
-/
import DsdVerif.Lemmas.PyDomainEqReq3

namespace Dsd.PyDomainEq
open Dsd Dsd.Gen Dsd.PySingletonL

/-- `tmp` is not the identity of a live object -/
def Fresh (r : Reg DKey) (tmp : Nat) : Prop := ∀ o ∈ r.objs, o.id ≠ tmp

/-- `Related`, for registries in which `tmp` is free; in addition: once the value of the request has been released, `tmp` is free again,
    and a refused request leaves `tmp` free -/
def RelatedF (request : Py.Dom.Req → Py.Dom.M Nat) (nested : Reg DKey → DomReq → Reg DKey × Out) (tmp : Nat) : Prop :=
  ∀ (s : Py.Dom.Cls) (r : Reg DKey) (n : String) (l : Option Nat), RepX s r → Fresh r tmp →
    (∃ s', RepX s' (nested r { name := some n, length := l }).1 ∧
      (request { name := some n, length := l }).exec s = (toRes (nested r { name := some n, length := l }).2, s') ∧
      (∀ id c, (nested r { name := some n, length := l }).2 = .ret id c → (c = true ↔ id = tmp)) ∧
      (∀ e, (nested r { name := some n, length := l }).2 = e → (∀ id c, e ≠ .ret id c) → (∀ x, e ≠ .singletonErr x) →
        ∀ x, toErr e ≠ .singleton x)) ∧
    (∀ id c, (nested r { name := some n, length := l }).2 = .ret id c →
      Fresh (DomFull.lenAndRelease (nested r { name := some n, length := l }).1 id c).2 tmp) ∧
    ((∀ id c, (nested r { name := some n, length := l }).2 ≠ .ret id c) → Fresh (nested r { name := some n, length := l }).1 tmp)


set_option maxHeartbeats 2000000 in
/-- branch "starred name with a length" (`elif length is not None and name[-1] == '*'`) -/
theorem identifiers_starred_length_F (request : Py.Dom.Req → Py.Dom.M Nat) (nested : Reg DKey → DomReq → Reg DKey × Out) (tmp : Nat)
    (hrel : RelatedF request nested tmp) (s : Py.Dom.Cls) (r : Reg DKey) (h : RepX s r) (hf : Fresh r tmp) (cfg : DomCfg)
    (n : String) (hne : n ≠ "") (hst : isStarred n = true) (l : Nat) (pfx : Option String) :
    ∃ s', RepX s' (DomFull.identifiers nested cfg r { name := some n, length := some l, prefix_ := pfx }).1 ∧
      (py_DomainS_identifiers request tmp cfg.cutoff cfg.shortLen cfg.longLen cfg.prefix_ (some n) (some l) pfx none).exec s =
        (toIdents (DomFull.identifiers nested cfg r { name := some n, length := some l, prefix_ := pfx }).2, s') := by
  obtain ⟨c, hc1, hc2⟩ := strLast_starred n hne
  have hcs : (c == '*') = true := by rw [hc2, hst]
  have hcn : (c != '*') = false := by simp [bne, hcs]
  have hemp : n.isEmpty = false := by simpa using hne
  have hdl : Py.strDropLast n = cnameOf n := by rw [← cname_eq n, if_pos hst]
  obtain ⟨⟨s1, hR1, he1, hcr1, hoth1⟩, hfr1, hfe1⟩ := hrel s r (cnameOf n) none h hf
  unfold py_DomainS_identifiers DomFull.identifiers DomFull.identTail DomFull.lengthArg
  simp only [exec_ite, exec_bind, exec_get, exec_pure, exec_throw, exec_lift, exec_monadLift, exec_tryS, Py.unwrap, Py.Dom.truthyOS,
    Option.isNone_none, Option.isNone_some, Option.isSome_some, if_true, if_false, Bool.false_eq_true, hc1, hcs, hcn, hemp, hst,
    Bool.not_true, hdl, pure_ok, he1]
  cases hn : (nested r { name := some (cnameOf n) }) with
  | mk r1 o =>
    rw [hn] at hR1 hcr1 hoth1
    simp only at hR1 hcr1 hoth1
    cases o with
    | ret id cr =>
      obtain ⟨s2, hR2, hl2⟩ := lenTemp_eq s1 r1 hR1 tmp id cr (hcr1 id cr rfl)
      simp only [toRes, hl2]
      cases hlr : DomFull.lenAndRelease r1 id cr with
      | mk lo r2 =>
        rw [hlr] at hR2
        simp only at hR2
        cases lo with
        | none => exact ⟨s2, hR2, by simp [toIdents, toErr]⟩
        | some cl =>
          by_cases hcl : cl = l
          · refine ⟨s2, by simpa [hcl] using hR2, ?_⟩
            simp [hcl, toIdents, exec_ite, exec_bind, exec_pure, exec_throw, exec_lift] <;> rfl
          · refine ⟨s2, by simpa [hcl] using hR2, ?_⟩
            simp [hcl, toIdents, toErr, exec_ite, exec_bind, exec_pure, exec_throw, exec_lift] <;> rfl
    | singletonErr e =>
      refine ⟨s1, hR1, ?_⟩
      simp [toRes, toErr, toIdents, exec_ite, exec_bind, exec_pure, exec_throw, exec_lift] <;> rfl
    | _ =>
      refine ⟨s1, hR1, ?_⟩
      simp [toRes, toErr, toIdents, exec_ite, exec_bind, exec_pure, exec_throw, exec_lift] <;> rfl

set_option maxHeartbeats 4000000 in
/-- branch `elif length is not None and name[-1] != '*'`: an unstarred name with a length -/
theorem identifiers_unstarred_length_F (request : Py.Dom.Req → Py.Dom.M Nat) (nested : Reg DKey → DomReq → Reg DKey × Out) (tmp : Nat)
    (hrel : RelatedF request nested tmp) (s : Py.Dom.Cls) (r : Reg DKey) (h : RepX s r) (hf : Fresh r tmp) (cfg : DomCfg)
    (n : String) (hne : n ≠ "") (hst : isStarred n = false) (l : Nat) (pfx : Option String) :
    ∃ s', RepX s' (DomFull.identifiers nested cfg r { name := some n, length := some l, prefix_ := pfx }).1 ∧
      (py_DomainS_identifiers request tmp cfg.cutoff cfg.shortLen cfg.longLen cfg.prefix_ (some n) (some l) pfx none).exec s =
        (toIdents (DomFull.identifiers nested cfg r { name := some n, length := some l, prefix_ := pfx }).2, s') := by
  obtain ⟨c, hc1, hc2⟩ := strLast_starred n hne
  have hcs : (c == '*') = false := by rw [hc2, hst]
  have hcn : (c != '*') = true := by simp [bne, hcs]
  have hemp : n.isEmpty = false := by simpa using hne
  have hdl : n ++ "*" = cnameOf n := by rw [← cname_eq n, if_neg (by simp [hst])]
  obtain ⟨⟨s1, hR1, he1, hcr1, hoth1⟩, hfr1, hfe1⟩ := hrel s r (cnameOf n) none h hf
  unfold py_DomainS_identifiers DomFull.identifiers DomFull.identTail DomFull.lengthArg
  simp only [exec_ite, exec_bind, exec_get, exec_pure, exec_throw, exec_lift, exec_monadLift, exec_tryS, Py.unwrap, Py.Dom.truthyOS,
    Option.isNone_none, Option.isNone_some, Option.isSome_some, if_true, if_false, Bool.false_eq_true, hc1, hcs, hcn, hemp, hst,
    Bool.not_true, Bool.not_false, hdl, pure_ok, he1]
  cases hn : (nested r { name := some (cnameOf n) }) with
  | mk r1 o =>
    rw [hn] at hR1 hcr1 hoth1
    simp only at hR1 hcr1 hoth1
    cases o with
    | ret id cr =>
      obtain ⟨s2, hR2, hl2⟩ := lenTemp_eq s1 r1 hR1 tmp id cr (hcr1 id cr rfl)
      simp only [toRes, hl2]
      cases hlr : DomFull.lenAndRelease r1 id cr with
      | mk lo r2 =>
        rw [hlr] at hR2
        simp only at hR2
        cases lo with
        | none => exact ⟨s2, hR2, by simp [toIdents, toErr]⟩
        | some cl =>
          have hf2 : Fresh r2 tmp := by
            have := hfr1 id cr (by rw [hn])
            rw [hn] at this
            simp only at this
            rw [hlr] at this
            exact this
          obtain ⟨⟨s3, hR3, he3, hcr3, hoth3⟩, hfr3, hfe3⟩ := hrel s2 r2 (cnameOf n) (some l) hR2 hf2
          simp only [exec_ite, exec_bind, exec_get, exec_pure, exec_throw, exec_lift, exec_monadLift, exec_tryS, he3]
          cases hn3 : (nested r2 { name := some (cnameOf n), length := some l }) with
          | mk r3 o3 =>
            rw [hn3] at hR3 hcr3 hoth3
            simp only at hR3 hcr3 hoth3
            cases o3 with
            | ret id2 c2 =>
              obtain ⟨s4, hR4, he4⟩ := release_eq s3 r3 hR3 tmp id2 c2 (hcr3 id2 c2 rfl)
              refine ⟨s4, hR4, ?_⟩
              simp [toRes, he4, toIdents, exec_ite, exec_bind, exec_pure, exec_throw, exec_lift] <;> rfl
            | singletonErr e3 =>
              by_cases hcl : cl = l
              · refine ⟨s3, by simpa [hcl] using hR3, ?_⟩
                simp [hcl, toRes, toErr, toIdents, exec_ite, exec_bind, exec_pure, exec_throw, exec_lift] <;> rfl
              · refine ⟨s3, by simpa [hcl] using hR3, ?_⟩
                simp [hcl, toRes, toErr, toIdents, exec_ite, exec_bind, exec_pure, exec_throw, exec_lift] <;> rfl
            | _ =>
              refine ⟨s3, hR3, ?_⟩
              simp [toRes, toErr, toIdents, exec_ite, exec_bind, exec_pure, exec_throw, exec_lift] <;> rfl
    | singletonErr e =>
      refine ⟨s1, hR1, ?_⟩
      simp [toRes, toErr, toIdents, exec_ite, exec_bind, exec_pure, exec_throw, exec_lift] <;> rfl
    | _ =>
      refine ⟨s1, hR1, ?_⟩
      simp [toRes, toErr, toIdents, exec_ite, exec_bind, exec_pure, exec_throw, exec_lift] <;> rfl

set_option maxHeartbeats 4000000 in
/-- branch `if length is None and name[-1] == '*'` (no dtype): `length = len(cls(cname, length = None)); newargs = {'length': length}` -/
theorem identifiers_starred_nolength_F (request : Py.Dom.Req → Py.Dom.M Nat) (nested : Reg DKey → DomReq → Reg DKey × Out) (tmp : Nat)
    (hrel : RelatedF request nested tmp) (s : Py.Dom.Cls) (r : Reg DKey) (h : RepX s r) (hf : Fresh r tmp) (cfg : DomCfg)
    (n : String) (hne : n ≠ "") (hst : isStarred n = true) (pfx : Option String) :
    ∃ s', RepX s' (DomFull.identifiers nested cfg r { name := some n, prefix_ := pfx }).1 ∧
      (py_DomainS_identifiers request tmp cfg.cutoff cfg.shortLen cfg.longLen cfg.prefix_ (some n) none pfx none).exec s =
        (toIdents (DomFull.identifiers nested cfg r { name := some n, prefix_ := pfx }).2, s') := by
  obtain ⟨c, hc1, hc2⟩ := strLast_starred n hne
  have hcs : (c == '*') = true := by rw [hc2, hst]
  have hcn : (c != '*') = false := by simp [bne, hcs]
  have hemp : n.isEmpty = false := by simpa using hne
  have hdl : Py.strDropLast n = cnameOf n := by rw [← cname_eq n, if_pos hst]
  obtain ⟨⟨s1, hR1, he1, hcr1, hoth1⟩, hfr1, hfe1⟩ := hrel s r (cnameOf n) none h hf
  have hd1 : ((none : Option String) == some "short") = false := rfl
  have hd2 : ((none : Option String) == some "long") = false := rfl
  unfold py_DomainS_identifiers DomFull.identifiers DomFull.identTail DomFull.lengthArg
  simp only [exec_ite, exec_bind, exec_get, exec_pure, exec_throw, exec_lift, exec_monadLift, exec_tryS, exec_map, Py.unwrap, Py.Dom.truthyOS,
    Option.isNone_none, Option.isNone_some, Option.isSome_some, Option.isSome_none, if_true, if_false, Bool.false_eq_true, hc1, hcs, hcn,
    hemp, hst, Bool.not_true, Bool.not_false, hdl, pure_ok, hd1, hd2, he1]
  cases hn : (nested r { name := some (cnameOf n) }) with
  | mk r1 o =>
    rw [hn] at hR1 hcr1 hoth1
    simp only at hR1 hcr1 hoth1
    cases o with
    | ret id cr =>
      obtain ⟨s2, hR2, hl2⟩ := lenTemp_eq s1 r1 hR1 tmp id cr (hcr1 id cr rfl)
      simp only [toRes, hl2]
      cases hlr : DomFull.lenAndRelease r1 id cr with
      | mk lo r2 =>
        rw [hlr] at hR2
        simp only at hR2
        cases lo with
        | none => exact ⟨s2, hR2, by simp [toIdents, toErr]⟩
        | some cl =>
          refine ⟨s2, hR2, ?_⟩
          simp [toIdents, exec_ite, exec_bind, exec_pure, exec_throw, exec_lift, exec_tryS, exec_map, pure_ok] <;> rfl
    | singletonErr e =>
      refine ⟨s1, hR1, ?_⟩
      simp [toRes, toErr, toIdents, exec_ite, exec_bind, exec_pure, exec_throw, exec_lift, exec_map] <;> rfl
    | _ =>
      refine ⟨s1, hR1, ?_⟩
      simp [toRes, toErr, toIdents, exec_ite, exec_bind, exec_pure, exec_throw, exec_lift, exec_map] <;> rfl


end Dsd.PyDomainEq
