/-
Rotation arithmetic behind the `turns` setter (C03): `wrap` is `Int.emod`, `rotateN` is additive,
`rotationsFrom n` lists `rotateN 0 … rotateN (n-1)` of the current representation, and on a complex whose
rotation is `n`-periodic the `t`-th entry (`t = wrap (-turns + v) n`) is the `wrap v n`-th rotation of the
canonical form.
-/
import DsdVerif.Model.CplxObject

namespace Dsd.ViewsRot
open Dsd

/-! ### wrap -/

theorem wrap_cast (x : Int) (m : Nat) (hm : 0 < m) : ((wrap x m : Nat) : Int) = x % (m : Int) := by
  have hm' : (m : Int) ≠ 0 := by omega
  have hpos : (0 : Int) < (m : Int) := by omega
  have h0 := Int.emod_nonneg x hm'
  have h1 := Int.emod_lt_of_pos x hpos
  unfold wrap
  have e : (x % (m : Int) + (m : Int)) % (m : Int) = x % (m : Int) := by
    rw [Int.add_emod_right, Int.emod_emod]
  rw [e, Int.toNat_of_nonneg h0]

theorem wrap_lt (x : Int) (m : Nat) (hm : 0 < m) : wrap x m < m := by
  have hpos : (0 : Int) < (m : Int) := by omega
  have h1 := Int.emod_lt_of_pos x hpos
  have := wrap_cast x m hm
  omega

/-- `(turns + wrap (-turns + v) n) % n = wrap v n` -/
theorem wrap_shift (turns : Nat) (v : Int) (n : Nat) (hn : 0 < n) :
    (turns + wrap (-(turns : Int) + v) n) % n = wrap v n := by
  have h1 := wrap_cast (-(turns : Int) + v) n hn
  have h2 := wrap_cast v n hn
  have h3 : (((turns + wrap (-(turns : Int) + v) n) % n : Nat) : Int) = v % (n : Int) := by
    rw [Int.natCast_emod, Int.natCast_add, h1, Int.add_emod_emod]
    congr 1; omega
  omega

/-! ### rotateN -/

theorem rotateN_zero (s : List String) (t : List Char) : rotateN 0 s t = .ok (s, t) := rfl

theorem rotateN_succ (k : Nat) (s : List String) (t : List Char) :
    rotateN (k + 1) s t = (rotateOnce s t).bind (fun r => rotateN k r.1 r.2) := rfl

theorem rotateN_add (a b : Nat) (s : List String) (t : List Char) :
    rotateN (a + b) s t = (rotateN a s t).bind (fun r => rotateN b r.1 r.2) := by
  induction a generalizing s t with
  | zero => simp [rotateN_zero, Except.bind]
  | succ a ih =>
    rw [show a + 1 + b = (a + b) + 1 by omega, rotateN_succ, rotateN_succ]
    cases h : rotateOnce s t with
    | error e => rfl
    | ok r => simp only [Except.bind]; exact ih r.1 r.2

theorem rotateN_add_ok (a b : Nat) (s : List String) (t : List Char) (r : List String × List Char)
    (h : rotateN a s t = .ok r) : rotateN (a + b) s t = rotateN b r.1 r.2 := by
  rw [rotateN_add, h]; rfl

/-! ### rotationsFrom -/

theorem rotationsFrom_spec (n : Nat) : ∀ (s : List String) (t : List Char),
    (∀ k, k < n → ∃ r, rotateN k s t = .ok r) →
    ∃ l, rotationsFrom n s t = .ok l ∧ l.length = n ∧
      ∀ k r, k < n → rotateN k s t = .ok r → l[k]? = some r := by
  induction n with
  | zero => intro s t _; exact ⟨[], rfl, rfl, fun k r hk => absurd hk (by omega)⟩
  | succ m ih =>
    intro s t hall
    cases m with
    | zero =>
      refine ⟨[(s, t)], rfl, rfl, ?_⟩
      intro k r hk hr
      have : k = 0 := by omega
      subst this
      rw [rotateN_zero] at hr
      cases hr; rfl
    | succ m =>
      obtain ⟨r1, hr1⟩ := hall 1 (by omega)
      have hone : rotateOnce s t = .ok r1 := by
        rw [rotateN_succ] at hr1
        cases h : rotateOnce s t with
        | error e => rw [h] at hr1; cases hr1
        | ok r => rw [h] at hr1; simp only [Except.bind, rotateN_zero] at hr1; cases hr1; rfl
      have hstep : ∀ k, rotateN (k + 1) s t = rotateN k r1.1 r1.2 := by
        intro k; rw [rotateN_succ, hone]; rfl
      obtain ⟨l, hl, hlen, hget⟩ := ih r1.1 r1.2 (by
        intro k hk
        obtain ⟨r, hr⟩ := hall (k + 1) (by omega)
        exact ⟨r, by rw [← hstep]; exact hr⟩)
      refine ⟨(s, t) :: l, ?_, by simp [hlen], ?_⟩
      · simp only [rotationsFrom, hone, hl]; rfl
      · intro k r hk hr
        cases k with
        | zero => rw [rotateN_zero] at hr; cases hr; rfl
        | succ k =>
          rw [hstep] at hr
          simpa using hget k r (by omega) hr

/-! ### the setter's selection -/

/-- on an `n`-periodic complex every rotation count reduces modulo `n` -/
theorem rotateN_mod (n : Nat) (c : List String × List Char) (hper : rotateN n c.1 c.2 = .ok c) (k : Nat) :
    rotateN k c.1 c.2 = rotateN (k % n) c.1 c.2 := by
  induction k using Nat.strongRecOn with
  | _ k ih =>
    by_cases hk : k < n
    · rw [Nat.mod_eq_of_lt hk]
    · have hk' : k = n + (k - n) := by omega
      rw [hk', rotateN_add_ok n (k - n) _ _ c hper]
      by_cases hn : n = 0
      · subst hn; simp
      · rw [ih (k - n) (by omega), Nat.add_mod_left]

/-- **the `turns` setter picks the `wrap v n`-th rotation of the canonical form**: `c` the canonical form,
    `(seq, sst)` its `turns`-th rotation, rotation `n`-periodic and defined up to `n` -/
theorem setter_selects (n turns : Nat) (v : Int) (c : List String × List Char) (seq : List String) (sst : List Char)
    (hn : 0 < n) (hcur : rotateN turns c.1 c.2 = .ok (seq, sst))
    (hper : rotateN n c.1 c.2 = .ok c)
    (hall : ∀ k, k ≤ n → ∃ r, rotateN k c.1 c.2 = .ok r ∧ (makeStrandTableList "+" r.1).length = n) :
    ∃ rots r, rotationsFrom n seq sst = .ok rots ∧ rots[wrap (-(turns : Int) + v) n]? = some r ∧
      rotateN (wrap v n) c.1 c.2 = .ok r ∧ (makeStrandTableList "+" r.1).length = n ∧
      wrap v n < n ∧ ((wrap v n : Nat) : Int) = v % (n : Int) := by
  -- rotations of the current representation are rotations of the canonical form
  have hrel : ∀ k, rotateN k seq sst = rotateN ((turns + k) % n) c.1 c.2 := by
    intro k
    rw [← rotateN_mod n c hper, rotateN_add_ok turns k _ _ _ hcur]
  have hmodlt : ∀ k, k % n < n := fun k => Nat.mod_lt _ hn
  obtain ⟨rots, hrots, _, hget⟩ := rotationsFrom_spec n seq sst (by
    intro k _
    obtain ⟨r, hr, _⟩ := hall ((turns + k) % n) (by have := hmodlt (turns + k); omega)
    exact ⟨r, by rw [hrel]; exact hr⟩)
  have hwlt := wrap_lt v n hn
  obtain ⟨r, hr, hrlen⟩ := hall (wrap v n) (by omega)
  have htlt := wrap_lt (-(turns : Int) + v) n hn
  refine ⟨rots, r, hrots, ?_, hr, hrlen, hwlt, wrap_cast v n hn⟩
  apply hget _ r htlt
  rw [hrel, wrap_shift turns v n hn]
  exact hr

end Dsd.ViewsRot
