/-
End-to-end reading of declared systems (C14, "sigma" theorems), part 17: kernel patterns with composite domains —
the fallback loop `expandKernel` of the reader.
-/
import DsdVerif.Lemmas.ReaderSigmaRxnAttr

namespace Dsd.Sig
open Dsd Dsd.PP Dsd.RState

/-! ### refused and repeated requests that leave the world unchanged -/

theorem domainRequest_nameonly_refused (cfg : DomCfg) (r : Reg DKey) (fresh : Nat) (n : String) (hn : n ≠ "")
    (h1 : r.findName n = none) (h2 : r.findName (cnameOf n) = none) :
    domainRequest cfg r fresh { name := some n } = (r, .singletonErr none) := by
  rw [DomL.domainRequest_eq]
  have he : DomL.effName cfg r { name := some n } = n := rfl
  have hlen : DomL.lengthOf cfg { name := some n } = .ok none := rfl
  have hemp : n.isEmpty = false := by simpa using hn
  rw [he, hlen]
  simp only [hemp, Bool.false_eq_true, if_false]
  unfold DomL.domTail
  simp only [h2]
  split <;> simp [Reg.call, Reg.decide, h1]

theorem mkDom_refused_gen (w : World) (cd : Nat) (hcd : cd < 4) (dobjs : List (Obj DKey))
    (hdoms : w.doms = setObjs baseDoms cd dobjs) (n : String) (hn : n ≠ "")
    (h1 : Reg.findName ({ objs := dobjs, autoId := 1 } : Reg DKey) n = none)
    (h2 : Reg.findName ({ objs := dobjs, autoId := 1 } : Reg DKey) (cnameOf n) = none) :
    w.mkDom cd { name := some n } = (w, .singletonErr none) := by
  obtain ⟨cr0, h0, _⟩ := baseDoms_get cd hcd
  have hget := setObjs_get baseDoms cd dobjs cr0 h0
  rw [ReaderL.mkDom_eq, ReaderL.withClass_some _ _ _ _ (by rw [hdoms]; exact hget)]
  simp only [hdoms, effId_doms cd hcd]
  rw [domainRequest_nameonly_refused _ { objs := dobjs, autoId := 1 } _ n hn h1 h2]
  simp only
  rw [setObjs_same cd hcd dobjs _ hget]
  simp only [World.settle, ← hdoms]

theorem domReq_refused (s : RState) (sl : Slots) (q : DomReq) (e : Option Nat)
    (h : s.w.mkDom sl.dom q = (s.w, .singletonErr e)) : s.domReq sl q = (s, .error .singleton) := by
  unfold domReq
  rw [h]
  rfl

theorem mkStrand_refused (w : World) (cs : Nat) (hcs : cs < 4) (sobjs : List (Obj CKey))
    (hstr : w.strands = setObjs baseStrands cs sobjs) (n : String)
    (h1 : Reg.findName ({ objs := sobjs, autoId := 1 } : Reg CKey) n = none) :
    w.mkStrand cs none (some n) = (w, .singletonErr none) := by
  obtain ⟨cr0, h0, _⟩ := baseStrands_get cs hcs
  have hget := setObjs_get baseStrands cs sobjs cr0 h0
  unfold World.mkStrand
  simp only [Option.map_none]
  rw [ReaderL.withClass_some _ _ _ _ (by rw [hstr]; exact hget)]
  simp only [hstr, effId_strands cs hcs, strandRequest]
  have hcall : Reg.call ({ objs := sobjs, autoId := 1 } : Reg CKey) none (some n) w.nextId [] false =
      ({ objs := sobjs, autoId := 1 }, .singletonErr none) := by
    simp [Reg.call, Reg.decide, h1]
  rw [hcall]
  simp only
  rw [setObjs_upd_strands cs hcs sobjs sobjs _ hget]
  simp only [World.settle, ← hstr]

theorem strandDomains_refused (s : RState) (sl : Slots) (n : String) (e : Option Nat)
    (h : s.w.mkStrand sl.strand none (some n) = (s.w, .singletonErr e)) :
    s.strandDomains sl n = (s, .error .singleton) := by
  unfold strandDomains
  rw [h]
  rfl

/-- a request with name and length for a live, held domain leaves the world as it is -/
theorem mkDom_existing_len_gen (w : World) (cd : Nat) (hcd : cd < 4) (dobjs : List (Obj DKey))
    (hdoms : w.doms = setObjs baseDoms cd dobjs) (n : String) (l : Nat) (o : Obj DKey) (hn : n ≠ "")
    (h1 : Reg.findName ({ objs := dobjs, autoId := 1 } : Reg DKey) n = some o)
    (h2 : Reg.findCanon ({ objs := dobjs, autoId := 1 } : Reg DKey) (n, l) = some o)
    (h3 : ∀ b, Reg.findName ({ objs := dobjs, autoId := 1 } : Reg DKey) (cnameOf n) = some b → b.canon.2 = l)
    (hheld : o.id ∈ w.held) :
    w.mkDom cd { name := some n, length := some l } = (w, .ret o.id false) := by
  obtain ⟨cr0, h0, _⟩ := baseDoms_get cd hcd
  have hget := setObjs_get baseDoms cd dobjs cr0 h0
  rw [ReaderL.mkDom_eq, ReaderL.withClass_some _ _ _ _ (by rw [hdoms]; exact hget)]
  simp only [hdoms, effId_doms cd hcd]
  rw [domainRequest_existing _ { objs := dobjs, autoId := 1 } _ n l o hn h1 h2 h3]
  simp only
  rw [setObjs_same cd hcd dobjs _ hget]
  have hc : w.held.contains o.id = true := by simpa using hheld
  simp only [World.settle, hc, if_true, ← hdoms]

theorem invertAll_same (s : RState) (g : Nat → Nat) (ids : List Nat)
    (h : ∀ i ∈ ids, ∃ b, s.w.invert i = (s.w, .ret (g i) b)) : s.invertAll ids = (s, .ok (ids.map g)) := by
  induction ids with
  | nil => rfl
  | cons i rest ih =>
    obtain ⟨b, hb⟩ := h i (by simp)
    unfold invertAll
    rw [hb]
    simp only
    have hs : ({ s with w := s.w } : RState) = s := rfl
    rw [hs, ih (fun x hx => h x (by simp [hx]))]
    rfl

/-! ### the fallback loop -/

/-- what the fallback loop computes for one name: the name is a domain; or a composite domain (strand); or the
    complement of a composite domain — in all cases without changing the state -/
def HereOK (s : RState) (sl : Slots) (n : String) (ds : List Nat) : Prop :=
  (∃ id, s.domReq sl { name := some n } = (s, .ok id) ∧ ds = [id]) ∨
  (s.domReq sl { name := some n } = (s, .error .singleton) ∧ s.strandDomains sl n = (s, .ok ds)) ∨
  (s.domReq sl { name := some n } = (s, .error .singleton) ∧ s.strandDomains sl n = (s, .error .singleton) ∧
    ∃ ds0, s.strandDomains sl (compName n) = (s, .ok ds0) ∧ s.invertAll ds0.reverse = (s, .ok ds))

/-- handles and structure after the expansion: every inserted domain gets a copy of the structure character -/
def expSeq (E : String → List Nat) : List String → List Char → List (Option Nat) × List Char
  | [], _ => ([], [])
  | _ :: _, [] => ([], [])
  | n :: ns, c :: cs =>
    if n == "+" then (none :: (expSeq E ns cs).1, c :: (expSeq E ns cs).2)
    else ((E n).map some ++ (expSeq E ns cs).1, (E n).map (fun _ => c) ++ (expSeq E ns cs).2)

theorem expandKernel_same (s : RState) (sl : Slots) (E : String → List Nat) :
    ∀ (ns : List String) (sst : List Char), ns.length = sst.length →
      (∀ n ∈ ns, n ≠ "+" → HereOK s sl n (E n)) →
      s.expandKernel sl ns sst = (s, .ok (expSeq E ns sst)) := by
  intro ns
  induction ns with
  | nil => intro sst _ _; rfl
  | cons n rest ih =>
    intro sst hlen h
    cases sst with
    | nil => simp at hlen
    | cons c cs =>
      have hlen' : rest.length = cs.length := by simpa using hlen
      have ih' := ih cs hlen' (fun m hm => h m (by simp [hm]))
      unfold expandKernel
      by_cases hp : n = "+"
      · subst hp
        simp only [beq_self_eq_true, if_true, ih', expSeq]
      · have hb : (n == "+") = false := by simpa using hp
        simp only [hb, Bool.false_eq_true, if_false, expSeq]
        rcases h n (by simp) hp with ⟨id, h1, h2⟩ | ⟨h1, h2⟩ | ⟨h1, h2, ds0, h3, h4⟩
        · simp only [h1, ih', h2]
        · simp only [h1, h2, ih']
        · simp only [h1, h2, h3, h4, ih']

theorem domList_fail (s : RState) (sl : Slots) (names : List String)
    (h : ∀ n ∈ names, (∃ id, s.domReq sl { name := some n } = (s, .ok id)) ∨
      s.domReq sl { name := some n } = (s, .error .singleton))
    (hex : ∃ n ∈ names, s.domReq sl { name := some n } = (s, .error .singleton)) :
    s.domList sl names = (s, .error .singleton) := by
  induction names with
  | nil => obtain ⟨n, hn, _⟩ := hex; simp at hn
  | cons n rest ih =>
    unfold domList
    rcases h n (by simp) with ⟨id, hid⟩ | he
    · rw [hid]
      simp only
      obtain ⟨m, hm, hme⟩ := hex
      simp only [List.mem_cons] at hm
      rcases hm with rfl | hm
      · rw [hid] at hme; cases hme
      · rw [ih (fun x hx => h x (by simp [hx])) ⟨m, hm, hme⟩]
    · rw [he]

theorem readLine_xkernel (s : RState) (sl : Slots) (k : KDecl)
    (hres : resolveKernel (treeSize 1000 k.pat + 2) k.pat = .ok (k.ns, k.sst))
    (hdl : s.domList sl (k.ns.filter (· != "+")) = (s, .error .singleton))
    (seq : List (Option Nat)) (sst : List Char) (hex : s.expandKernel sl k.ns k.sst = (s, .ok (seq, sst)))
    (w' : World) (id : Nat) (b : Bool) (x : Option CplxIds)
    (hmk : s.w.mkCplx sl.cplx (some seq) sst (some k.name) none = (w', .ret id b, x)) :
    s.readLine sl k.line =
      ((match k.conc with
        | some t => ({ s with w := w' } : RState).setConc id t
        | none => { s with w := w' }), .ok (.cplx id)) := by
  unfold KDecl.line readLine
  cases hc : k.conc with
  | none => simp only [List.append_nil, hres, hdl, hex, hmk]
  | some t =>
    obtain ⟨m, v, u⟩ := t
    simp only [List.cons_append, List.nil_append, hres, hdl, hex, hmk]

/-! ### composite domains in the explicit state -/

def domNames (ds : List Decl) : List String := (dDict ds).map (·.1)

theorem mem_domNames (ds : List Decl) (n : String) :
    n ∈ domNames ds ↔ ∃ (k : Nat) (d : Decl), ds[k]? = some d ∧ (n = d.name ∨ n = star d.name) := by
  unfold domNames
  rw [List.mem_map]
  constructor
  · rintro ⟨q, hq, rfl⟩
    obtain ⟨k, d, hk, hx⟩ := (mem_perDecl _ _ _).mp hq
    simp only [List.mem_cons, List.not_mem_nil, or_false] at hx
    rcases hx with rfl | rfl
    · exact ⟨k, d, hk, Or.inl rfl⟩
    · exact ⟨k, d, hk, Or.inr rfl⟩
  · rintro ⟨k, d, hk, h | h⟩
    · exact ⟨(d.name, 2 * k), (mem_perDecl _ _ _).mpr ⟨k, d, hk, by simp⟩, h.symm⟩
    · exact ⟨(star d.name, 2 * k + 1), (mem_perDecl _ _ _).mpr ⟨k, d, hk, by simp⟩, h.symm⟩

/-- the names a pattern name stands for: itself (a domain), the domains of the strand it names, or the reversed
    complements of the domains of the strand whose complement it names -/
def xN (ds : List Decl) (ss : List SDecl) (n : String) : List String :=
  if n ∈ domNames ds then [n]
  else if n ∈ ss.map (·.1) then contentOf ss n
  else (contentOf ss (cnameOf n)).reverse.map cnameOf

def xE (ds : List Decl) (ss : List SDecl) (n : String) : List Nat := idsOf ds (xN ds ss n)

/-- the names after the expansion -/
def expNames (N : String → List String) : List String → List Char → List String
  | [], _ => []
  | _ :: _, [] => []
  | n :: ns, _ :: cs => if n == "+" then "+" :: expNames N ns cs else N n ++ expNames N ns cs

/-- how a pattern name may be used -/
def XName (ds : List Decl) (ss : List SDecl) (n : String) : Prop :=
  n ∈ domNames ds ∨
  (n ∉ domNames ds ∧ cnameOf n ∉ domNames ds ∧ n ≠ "" ∧
    (n ∈ ss.map (·.1) ∨ (n ∉ ss.map (·.1) ∧ cnameOf n ∈ ss.map (·.1))))

theorem dObjs_findName_none (ds : List Decl) (n : String) (h : n ∉ domNames ds) :
    Reg.findName ({ objs := dObjs ds, autoId := 1 } : Reg DKey) n = none := by
  apply findName_none_of
  intro o ho e
  obtain ⟨d, hd, hn, _⟩ := dObjs_name ds o ho
  obtain ⟨k, hk⟩ := List.getElem?_of_mem hd
  apply h
  rw [mem_domNames]
  rcases hn with hn | hn
  · exact ⟨k, d, hk, Or.inl (by rw [← e, hn])⟩
  · exact ⟨k, d, hk, Or.inr (by rw [← e, hn])⟩

theorem sObjs_findName_none (ds : List Decl) (ss : List SDecl) (n : String) (h : n ∉ ss.map (·.1)) :
    Reg.findName ({ objs := sObjs ds ss, autoId := 1 } : Reg CKey) n = none := by
  apply findName_none_of
  intro o ho e
  obtain ⟨j, p, hj, rfl⟩ := sObjs_mem ds ss o ho
  apply h
  rw [List.mem_map]
  exact ⟨p, List.mem_of_getElem? hj, e⟩

/-- the complement of a declared name is a declared name, with the neighbouring identity -/
theorem resolve_cname (ds : List Decl) (hsys : Sys ds) (x : String) (hx : x ∈ domNames ds) :
    cnameOf x ∈ domNames ds ∧
    ∃ k d, ds[k]? = some d ∧
      ((x = d.name ∧ resolveId ds x = 2 * k ∧ resolveId ds (cnameOf x) = 2 * k + 1 ∧ cnameOf x = star d.name) ∨
       (x = star d.name ∧ resolveId ds x = 2 * k + 1 ∧ resolveId ds (cnameOf x) = 2 * k ∧ cnameOf x = d.name)) := by
  obtain ⟨k, d, hk, hnd⟩ := (mem_domNames ds x).mp hx
  have hbd := hsys.base d (List.mem_of_getElem? hk)
  obtain ⟨l1, l2⟩ := dDict_lookup ds hsys k d hk
  have r1 : resolveId ds d.name = 2 * k := by unfold resolveId; rw [l1]; rfl
  have r2 : resolveId ds (star d.name) = 2 * k + 1 := by unfold resolveId; rw [l2]; rfl
  rcases hnd with rfl | rfl
  · rw [cnameOf_base _ hbd]
    exact ⟨(mem_domNames ds _).mpr ⟨k, d, hk, Or.inr rfl⟩, k, d, hk, Or.inl ⟨rfl, r1, r2, rfl⟩⟩
  · rw [cnameOf_star _ hbd]
    exact ⟨(mem_domNames ds _).mpr ⟨k, d, hk, Or.inl rfl⟩, k, d, hk, Or.inr ⟨rfl, r2, r1, rfl⟩⟩

/-- `~d` for a declared domain in the state with complexes: the complement, nothing changes -/
theorem invert_S4 (sl : Slots) (hcd : sl.dom < 4) (ds : List Decl) (hsys : Sys ds) (ss : List SDecl) (cs : List CSpec)
    (conc : List (Nat × (String × String × String))) (x : String) (hx : x ∈ domNames ds) :
    (S4 sl.dom sl.strand sl.cplx ds ss cs conc).w.invert (resolveId ds x) =
      ((S4 sl.dom sl.strand sl.cplx ds ss cs conc).w, .ret (resolveId ds (cnameOf x)) false) := by
  obtain ⟨_, k, d, hk, hcase⟩ := resolve_cname ds hsys x hx
  have hlt := getElem?_lt' _ _ _ hk
  have hbd := hsys.base d (List.mem_of_getElem? hk)
  obtain ⟨fn1, fn2⟩ := dObjs_findName ds hsys k d hk
  obtain ⟨fc1, fc2⟩ := dObjs_findCanon ds hsys k d hk
  obtain ⟨fo1, fo2⟩ := dObjs_find ds k d hk
  have hheld : ∀ i, i < 2 * ds.length → i ∈ (S4 sl.dom sl.strand sl.cplx ds ss cs conc).w.held := by
    intro i hi
    show i ∈ List.range (base4 ds ss + cs.length)
    exact List.mem_range.mpr (by unfold base4; omega)
  rcases hcase with ⟨rfl, r1, r2, _⟩ | ⟨rfl, r1, r2, _⟩
  · rw [r1, r2]
    have hobj := domObj_gen (S4 sl.dom sl.strand sl.cplx ds ss cs conc).w sl.dom hcd (dObjs ds) rfl _ _
      (nodes4_dom sl.dom sl.strand sl.cplx ds ss cs _ (by omega)) fo1
    unfold World.invert
    rw [hobj]
    simp only [newDom]
    rw [cnameOf_base _ hbd]
    exact mkDom_existing_len_gen _ sl.dom hcd (dObjs ds) rfl (star d.name) d.len _ (star_ne_empty _) fn2 fc2
      (by
        intro b hb
        rw [cnameOf_star _ hbd, fn1] at hb
        cases hb; rfl)
      (hheld (2 * k + 1) (by omega))
  · rw [r1, r2]
    have hobj := domObj_gen (S4 sl.dom sl.strand sl.cplx ds ss cs conc).w sl.dom hcd (dObjs ds) rfl _ _
      (nodes4_dom sl.dom sl.strand sl.cplx ds ss cs _ (by omega)) fo2
    unfold World.invert
    rw [hobj]
    simp only [newDom]
    rw [cnameOf_star _ hbd]
    exact mkDom_existing_len_gen _ sl.dom hcd (dObjs ds) rfl d.name d.len _ hbd.1 fn1 fc1
      (by
        intro b hb
        rw [cnameOf_base _ hbd, fn2] at hb
        cases hb; rfl)
      (hheld (2 * k) (by omega))

theorem content_domNames (ds : List Decl) (ss : List SDecl) (hss : SSys ds ss) (n : String) (hn : n ∈ ss.map (·.1)) :
    ∀ x ∈ contentOf ss n, x ∈ domNames ds ∧ x ≠ "+" := by
  obtain ⟨p, hp, rfl⟩ := List.mem_map.mp hn
  obtain ⟨j, hj⟩ := List.getElem?_of_mem hp
  rw [contentOf_get ss hss.names j p hj]
  intro x hx
  obtain ⟨h1, h2⟩ := hss.content p hp x hx
  exact ⟨(mem_domNames ds x).mpr h2, h1⟩

/-- every name a pattern name stands for is a declared domain name or complement -/
theorem xN_domNames (ds : List Decl) (hsys : Sys ds) (ss : List SDecl) (hss : SSys ds ss) (n : String)
    (hx : XName ds ss n) : ∀ x ∈ xN ds ss n, x ∈ domNames ds := by
  intro x hxm
  unfold xN at hxm
  rcases hx with hd | ⟨hnd, _, _, hs | ⟨hns, hcs⟩⟩
  · rw [if_pos hd, List.mem_singleton] at hxm; rw [hxm]; exact hd
  · rw [if_neg hnd, if_pos hs] at hxm
    exact (content_domNames ds ss hss n hs x hxm).1
  · rw [if_neg hnd, if_neg hns, List.mem_map] at hxm
    obtain ⟨y, hy, rfl⟩ := hxm
    exact (resolve_cname ds hsys y (content_domNames ds ss hss _ hcs y (List.mem_reverse.mp hy)).1).1

/-- **the fallback loop on one name of the pattern**, in the explicit state -/
theorem hereOK_S4 (sl : Slots) (hcd : sl.dom < 4) (hcs : sl.strand < 4) (ds : List Decl) (hsys : Sys ds)
    (ss : List SDecl) (hss : SSys ds ss) (cs : List CSpec) (conc : List (Nat × (String × String × String)))
    (n : String) (hx : XName ds ss n) :
    HereOK (S4 sl.dom sl.strand sl.cplx ds ss cs conc) sl n (xE ds ss n) := by
  unfold xE xN
  rcases hx with hd | ⟨hnd, hncd, hne, hs | ⟨hns, hcsn⟩⟩
  · left
    rw [if_pos hd]
    exact ⟨_, content_request4 sl hcd ds hsys ss cs conc n ((mem_domNames ds n).mp hd), rfl⟩
  · right; left
    rw [if_neg hnd, if_pos hs]
    refine ⟨domReq_refused _ sl _ none
      (mkDom_refused_gen _ sl.dom hcd (dObjs ds) rfl n hne (dObjs_findName_none ds n hnd)
        (dObjs_findName_none ds _ hncd)), ?_⟩
    exact strandDomains_S4 sl hcs ds ss hss.names cs conc n hs
  · right; right
    rw [if_neg hnd, if_neg hns]
    refine ⟨domReq_refused _ sl _ none
      (mkDom_refused_gen _ sl.dom hcd (dObjs ds) rfl n hne (dObjs_findName_none ds n hnd)
        (dObjs_findName_none ds _ hncd)),
      strandDomains_refused _ sl n none
        (mkStrand_refused _ sl.strand hcs (sObjs ds ss) rfl n (sObjs_findName_none ds ss n hns)),
      idsOf ds (contentOf ss (cnameOf n)), strandDomains_S4 sl hcs ds ss hss.names cs conc _ hcsn, ?_⟩
    have key : ∀ l : List String, (∀ x ∈ l, x ∈ domNames ds) →
        (S4 sl.dom sl.strand sl.cplx ds ss cs conc).invertAll (idsOf ds l) =
          (S4 sl.dom sl.strand sl.cplx ds ss cs conc, .ok (idsOf ds (l.map cnameOf))) := by
      intro l
      induction l with
      | nil => intro _; rfl
      | cons y rest ih =>
        intro hl
        have h1 := invert_S4 sl hcd ds hsys ss cs conc y (hl y (by simp))
        unfold idsOf at ih ⊢
        simp only [List.map_cons]
        unfold invertAll
        rw [h1]
        simp only
        have hs' : ({ S4 sl.dom sl.strand sl.cplx ds ss cs conc with
            w := (S4 sl.dom sl.strand sl.cplx ds ss cs conc).w } : RState) = S4 sl.dom sl.strand sl.cplx ds ss cs conc := rfl
        rw [hs', ih (fun x hx => hl x (by simp [hx]))]
    have := key (contentOf ss (cnameOf n)).reverse
      (fun x hx => (content_domNames ds ss hss _ hcsn x (List.mem_reverse.mp hx)).1)
    have e : idsOf ds (contentOf ss (cnameOf n)).reverse = (idsOf ds (contentOf ss (cnameOf n))).reverse := by
      unfold idsOf; rw [List.map_reverse]
    rw [e] at this
    exact this

end Dsd.Sig
