/-
The Python primitives of Model/PyPreludeIdent.lean against the hand-written model's definitions (Model/Objects.lean,
Model/ComplexFull.lean): Python's tuple / str comparison written from first principles IS the model's `ckeyLt`, the stable
`sorted` IS `sortBy`, the association-list dict with `Py.dictSet` IS the model's dictionary as long as the keys are pairwise
different (which both preserve).
-/
import DsdVerif.Model.PyPreludeIdent
import DsdVerif.Lemmas.ComplexFull

namespace Dsd.PyIdent
open Dsd Dsd.CplxFull

theorem seqLt_eq_lexLt {α} [DecidableEq α] (lt : α → α → Bool) (a b : List α) :
    Py.seqLt lt a b = lexLt lt a b := by
  induction a generalizing b with
  | nil => cases b <;> rfl
  | cons x xs ih =>
    cases b with
    | nil => rfl
    | cons y ys =>
      simp only [Py.seqLt, lexLt, ih]
      by_cases h : x = y <;> simp [h]

theorem strLt_eq : Py.strLt = Dsd.strLt := by
  funext a b
  simp only [Py.strLt, Dsd.strLt, seqLt_eq_lexLt]
  rfl

/-- Python's `<` on (tuple of str, tuple of one-character str), written from first principles, is the model's `ckeyLt` -/
theorem ckeyLt_eq : Py.ckeyLt = Dsd.ckeyLt := by
  funext a b
  simp only [Py.ckeyLt, Dsd.ckeyLt, seqLt_eq_lexLt, strLt_eq]
  by_cases h : a.1 = b.1
  · simp [h]; rfl
  · simp [h]

theorem insertBy_eq {α} (lt : α → α → Bool) (x : α) (l : List α) :
    Py.insertBy lt x l = insertSorted (fun a b => !lt b a) x l := by
  induction l with
  | nil => rfl
  | cons y ys ih =>
    simp only [Py.insertBy, insertSorted, ih]
    by_cases h : lt y x = true <;> simp [h]

/-- Python's stable `sorted` is the model's `sortBy` -/
theorem sortedBy_eq {α} (lt : α → α → Bool) (l : List α) : Py.sortedBy lt l = sortBy lt l := by
  unfold Py.sortedBy sortBy
  induction l with
  | nil => rfl
  | cons x xs ih => simp only [List.foldr_cons, ih, insertBy_eq]

/-- `sorted(cdict, key = lambda x: (x[0], x[1]))` -/
theorem sortedKeys_eq (d : Dict) : Py.sortedBy Py.ckeyLt (Py.dictKeys d) = sortBy Dsd.ckeyLt (dictKeys d) := by
  rw [sortedBy_eq, ckeyLt_eq]; rfl

/-! ### the dictionary -/

theorem dictHas_cons (k' : CKey) (v' : Nat) (d : Dict) (k : CKey) :
    Py.dictHas ((k', v') :: d) k = (k == k' || Py.dictHas d k) := by
  simp only [Py.dictHas, List.lookup_cons]
  cases k == k' <;> simp

theorem dictHas_iff (d : Dict) (k : CKey) : Py.dictHas d k = true ↔ k ∈ dictKeys d := by
  induction d with
  | nil => simp [Py.dictHas, dictKeys]
  | cons p d ih =>
    obtain ⟨k', v'⟩ := p
    rw [dictHas_cons]
    simp only [Bool.or_eq_true, ih, dictKeys, List.map_cons, List.mem_cons, beq_iff_eq]

theorem map_noop (d : Dict) (k : CKey) (v : Nat) (h : k ∉ dictKeys d) :
    d.map (fun p => if p.1 == k then (p.1, v) else p) = d := by
  induction d with
  | nil => rfl
  | cons p d ih =>
    simp only [dictKeys, List.map_cons, List.mem_cons, not_or] at h
    have hne : ¬ p.1 = k := fun e => h.1 e.symm
    have ih := ih (by simpa [dictKeys] using h.2)
    simp only [beq_iff_eq] at ih
    simp only [List.map_cons, beq_iff_eq, hne, if_false, ih]

/-- `cdict[k] = v` on the association list is the model's `dictSet` for a dictionary with pairwise different keys -/
theorem dictSet_eq (d : Dict) (k : CKey) (v : Nat) (hnd : (dictKeys d).Nodup) : Py.dictSet d k v = dictSet d k v := by
  induction d with
  | nil => simp [Py.dictSet, Py.dictHas, dictSet]
  | cons p d ih =>
    obtain ⟨k', v'⟩ := p
    simp only [dictKeys, List.map_cons, List.nodup_cons] at hnd
    have ih := ih hnd.2
    by_cases h : k' = k
    · subst h
      have hh : Py.dictHas ((k', v') :: d) k' = true := by rw [dictHas_cons]; simp
      simp only [Py.dictSet, hh, if_true, dictSet, List.map_cons, beq_self_eq_true]
      rw [map_noop d k' v hnd.1]
    · have hh : Py.dictHas ((k', v') :: d) k = Py.dictHas d k := by
        rw [dictHas_cons]
        have : (k == k') = false := by simp; exact fun e => h e.symm
        simp [this]
      simp only [dictSet, h, if_false]
      rw [← ih]
      simp only [Py.dictSet, hh]
      split
      · simp [h]
      · simp

theorem nodup_dictSet (d : Dict) (k : CKey) (v : Nat) (hnd : (dictKeys d).Nodup) : (dictKeys (dictSet d k v)).Nodup := by
  rw [CplxFullL.keys_dictSet]
  split
  · exact hnd
  · rename_i h
    rw [List.nodup_append]
    refine ⟨hnd, by simp, ?_⟩
    intro a ha b hb
    simp at hb
    subst hb
    exact fun e => h (e ▸ ha)

/-- `cdict[k]`: KeyError exactly when the model's look-up fails -/
theorem dictGet_eq (d : Dict) (k : CKey) :
    Py.dictGet d k = match dictGet d k with | some x => .ok x | none => .error (.fault "KeyError") := by
  induction d with
  | nil => rfl
  | cons p d ih =>
    obtain ⟨k', v'⟩ := p
    simp only [Py.dictGet, List.lookup_cons, dictGet] at ih ⊢
    by_cases h : k' = k
    · subst h; simp; rfl
    · have : (k == k') = false := by simp; exact fun e => h e.symm
      simp only [this, h, if_false]
      exact ih

end Dsd.PyIdent
