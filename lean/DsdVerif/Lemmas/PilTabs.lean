/-
PIL documents whose statements contain TABS (C13, layout clause "arbitrary spaces and tabs"): `parseString` expands
the tabs first; a statement that starts at column 0 — every statement does, it follows a line feed — and is built from
tab-free tokens and blank/tab separators expands to a statement text with blank separators (Lemmas/PPTabs.lean).
-/
import DsdVerif.Lemmas.PilLayout
import DsdVerif.Lemmas.PPTabs

namespace Dsd.Pil
open Dsd.PP Dsd.Gen Dsd.PP.Tabs

/-- `s` — which may contain tabs — is the text of a statement: at column 0 it expands to `s'`, whatever follows,
    and `s'` is a statement text in any line-level layout -/
def StmtTextT (s : List Char) (t : Tree) : Prop :=
  ∃ s', (∀ rest, ∃ col', expandTabs (s ++ rest) 0 = s' ++ expandTabs rest col') ∧ StmtTextL s' t

theorem StmtTextL.toT {s : List Char} {t : Tree} (h : StmtTextL s t) : StmtTextT s t :=
  ⟨s, fun rest => ⟨_, expandTabs_tok s h.notab rest 0⟩, h⟩

theorem colAfter_append (a b : List Char) (col : Nat) : colAfter (a ++ b) col = colAfter b (colAfter a col) := by
  induction a generalizing col with
  | nil => rfl
  | cons c cs ih => exact ih _

theorem colAfter_bline (b : BLine) (col : Nat) : colAfter b.text col = 0 := colAfter_nl b.body col

theorem colAfter_blines (bs : List BLine) : colAfter (blines bs) 0 = 0 := by
  induction bs with
  | nil => rfl
  | cons b bs ih =>
    have : blines (b :: bs) = b.text ++ blines bs := by simp [blines]
    rw [this, colAfter_append, colAfter_bline, ih]

theorem colAfter_sep (sp : LineSep) (col : Nat) : colAfter sp.text col = 0 := by
  rw [LineSep.text, colAfter_append, colAfter_bline, colAfter_blines]

/-- the expansion of the statements of a document: every statement text is replaced by its expansion, the
    (tab-free) separators are copied, and the column is 0 again after every separator -/
theorem expand_items (l : List LItem) (hl : ∀ x ∈ l, StmtTextT x.1 x.2.1 ∧ x.2.2.OK) :
    ∃ l' : List LItem, (∀ x ∈ l', LItemOK x) ∧ l'.map (·.2.1) = l.map (·.2.1) ∧ l'.length = l.length ∧
      ∀ rest, expandTabs (litemsText l ++ rest) 0 = litemsText l' ++ expandTabs rest 0 := by
  induction l with
  | nil => exact ⟨[], by simp, rfl, rfl, fun rest => by simp [litemsText]⟩
  | cons x xs ih =>
    obtain ⟨l', h1, h2, h3, h4⟩ := ih (fun y hy => hl y (List.mem_cons_of_mem _ hy))
    obtain ⟨⟨s', hex, hs'⟩, hsp⟩ := hl x List.mem_cons_self
    refine ⟨(s', x.2.1, x.2.2) :: l', ?_, by simp [h2], by simp [h3], fun rest => ?_⟩
    · intro y hy
      rcases List.mem_cons.mp hy with rfl | hy
      · exact ⟨hs', hsp⟩
      · exact h1 y hy
    · obtain ⟨col', hc⟩ := hex (x.2.2.text ++ (litemsText xs ++ rest))
      rw [litemsText_cons, hc, expandTabs_tok x.2.2.text (notab_sep x.2.2 hsp), colAfter_sep, h4 rest,
        litemsText_cons]

/-- **documents with tabs inside the statements**: statement-free lines `pre`, statements (each starting at
    column 0) with their separators, and an unterminated last line `fin` -/
theorem document_tabs_parse (pre : List BLine) (hpre : ∀ b ∈ pre, b.OK) (stmts : List LItem) (hne : stmts ≠ [])
    (h : ∀ x ∈ stmts, StmtTextT x.1 x.2.1 ∧ x.2.2.OK) (fin : List Char) (hfin : skipIgn fin = [])
    (hft : '\t' ∉ fin) :
    parseDoc pil_env pil_grammar (String.ofList (blines pre ++ (litemsText stmts ++ fin))) =
      some (stmts.map (·.2.1)) := by
  obtain ⟨l', h1, h2, h3, h4⟩ := expand_items stmts h
  have hne' : l' ≠ [] := by
    intro e; rw [e] at h3
    exact hne (List.length_eq_zero_iff.mp h3.symm)
  have hexp : expandTabs (blines pre ++ (litemsText stmts ++ fin)) 0 = blines pre ++ (litemsText l' ++ fin) := by
    rw [expandTabs_tok (blines pre) (notab_blines pre hpre), colAfter_blines, h4 fin,
      Tabs.expandTabs_id fin 0 hft]
  have hnt : '\t' ∉ blines pre ++ (litemsText l' ++ fin) := by
    have a1 := notab_litems l' h1
    have a2 := notab_blines pre hpre
    simp [a1, a2, hft]
  rw [parseDoc_expand pil_env pil_grammar _ _ hexp hnt, ← h2]
  exact document_layout_parse pre hpre l' hne' h1 fin hfin hft

end Dsd.Pil
