/-
Arbitrary gaps at EVERY token boundary of the PIL statements (C13, "arbitrary spaces and tabs"): the list lemmas of
the statement kinds generalised from the single blanks of the round-trip theorems to any amount of blanks (`≥ 1`
where the grammar needs a separator, `≥ 0` elsewhere), and the bridge from layout templates (Lemmas/PPTabs.lean) to
these texts.  Part 1: generic template facts, `strand` / `sup-sequence`, `state` / `macrostate`.
-/
import DsdVerif.Lemmas.PilTabs
import DsdVerif.Lemmas.PilKernelW

namespace Dsd.PP.Tabs

/-! ### more about templates -/

theorem countsOK_append (tm1 tm2 : List Piece) (ks : List Nat) (h : CountsOK (tm1 ++ tm2) ks) :
    ∃ ks1 ks2, ks = ks1 ++ ks2 ∧ CountsOK tm1 ks1 ∧ CountsOK tm2 ks2 ∧
      render (tm1 ++ tm2) ks = render tm1 ks1 ++ render tm2 ks2 := by
  induction tm1 generalizing ks with
  | nil => exact ⟨[], ks, rfl, rfl, h, by simp [render]⟩
  | cons p ps ih =>
    cases p with
    | tok s =>
      obtain ⟨ks1, ks2, e, h1, h2, hr⟩ := ih ks h
      exact ⟨ks1, ks2, e, h1, h2, by simp [render, hr]⟩
    | sep req =>
      cases ks with
      | nil => exact absurd h (by simp [CountsOK])
      | cons k ks =>
        obtain ⟨hk, h'⟩ := h
        obtain ⟨ks1, ks2, e, h1, h2, hr⟩ := ih ks h'
        exact ⟨k :: ks1, ks2, by simp [e], ⟨hk, h1⟩, h2, by simp [render, hr]⟩

theorem notab_render (tm : List Piece) (ks : List Nat) (h : ToksOK tm) : '\t' ∉ render tm ks := by
  induction tm generalizing ks with
  | nil => simp [render]
  | cons p ps ih =>
    cases p with
    | tok s =>
      simp only [render, List.mem_append, not_or]
      exact ⟨h.1, ih ks h.2⟩
    | sep req =>
      cases ks with
      | nil => simpa [render] using ih [] h
      | cons k ks =>
        simp only [render, List.mem_append, not_or]
        refine ⟨?_, ih ks h⟩
        intro hm
        have := List.eq_of_mem_replicate hm
        revert this; decide

/-- the number of token pieces -/
def tokCount : List Piece → Nat
  | [] => 0
  | .tok _ :: ps => tokCount ps + 1
  | .sep _ :: ps => tokCount ps

def ToksNonempty : List Piece → Prop
  | [] => True
  | .tok s :: ps => s ≠ [] ∧ ToksNonempty ps
  | .sep _ :: ps => ToksNonempty ps

theorem tokCount_le (tm : List Piece) (ks : List Nat) (h : ToksNonempty tm) : tokCount tm ≤ (render tm ks).length := by
  induction tm generalizing ks with
  | nil => simp [tokCount]
  | cons p ps ih =>
    cases p with
    | tok s =>
      have := ih ks h.2
      have hs : 0 < s.length := List.length_pos_iff.mpr h.1
      simp only [tokCount, render, List.length_append]; omega
    | sep req =>
      cases ks with
      | nil => simpa [tokCount, render] using ih [] h
      | cons k ks =>
        have := ih ks h
        simp only [tokCount, render, List.length_append]; omega

theorem tokCount_append (a b : List Piece) : tokCount (a ++ b) = tokCount a + tokCount b := by
  induction a with
  | nil => simp [tokCount]
  | cons p ps ih => cases p <;> simp [tokCount, ih] <;> omega

end Dsd.PP.Tabs

namespace Dsd.Pil
open Dsd.PP Dsd.Gen Dsd.PP.Tabs

/-! ### `strand` / `sup-sequence`: any gaps between the domains -/

/-- domain names, each preceded by `k + 1` blanks -/
def spDomsW (L : List (List Char × Nat)) : List Char :=
  (L.map (fun x => List.replicate (x.2 + 1) ' ' ++ x.1)).flatten

theorem spDomsW_cons (x : List Char × Nat) (L : List (List Char × Nat)) :
    spDomsW (x :: L) = List.replicate (x.2 + 1) ' ' ++ (x.1 ++ spDomsW L) := by simp [spDomsW]

theorem OutHd_spDomsW (L : List (List Char × Nat)) (tail : List Char)
    (ht : OutHd (fun x => x ∉ identChars ∧ x ≠ '*') tail) :
    OutHd (fun x => x ∉ identChars ∧ x ≠ '*') (spDomsW L ++ tail) := by
  cases L with
  | nil => simpa [spDomsW] using ht
  | cons d ds =>
    rw [spDomsW_cons, List.replicate_succ]
    exact OutHd_cons _ _ _ ⟨outside_facts ' ' (by decide), by decide⟩

theorem OkMany_domsW (env : Env) (L : List (List Char × Nat)) (tail : List Char) (hd : ∀ x ∈ L, IsDom x.1)
    (ht : OutHd (fun x => x ∉ identChars ∧ x ≠ '*') tail)
    (hstop : No env 5 {} pil_domain { rest := tail, past := false }) :
    OkMany env (L.length + 7) {} pil_domain { rest := spDomsW L ++ tail, past := false }
      ({ rest := tail, past := false }, L.map (fun x => .tok (String.ofList x.1))) := by
  induction L with
  | nil =>
    have := OkMany_stop hstop
    intro reps fuel hr hf
    simpa [spDomsW] using this reps fuel (by simp at hr; omega) (by simp at hf; omega)
  | cons x L ih =>
    obtain ⟨c, m, st, hx, hc, hm⟩ := hd x (by simp)
    have ih' := ih (fun d hd' => hd d (List.mem_cons_of_mem _ hd'))
    have h1 := Ok_domain env (x.2 + 1) c m st (spDomsW L ++ tail) hc hm (OutHd_spDomsW L tail ht)
    have hne : ({ rest := spDomsW L ++ tail, past := false } : Pos) ≠
        { rest := List.replicate (x.2 + 1) ' ' ++ (c :: m ++ (star st ++ (spDomsW L ++ tail))), past := false } :=
      pos_ne_of_length _ _ _ _ (by simp; omega)
    have := OkMany_step h1 hne ih'
    rw [spDomsW_cons, hx]
    simp only [List.cons_append, List.append_assoc, List.map_cons, List.length_cons] at this ⊢
    rw [hx]
    intro reps fuel hr hf
    exact this reps fuel (by omega) (by omega)

/-- the text of a `strand` / `sup-sequence` statement after the keyword, with any gaps, followed by `X` -/
def compTextW (a : Nat) (c : Char) (m : List Char) (b : Nat) (sign : Char) (cc : Nat) (d : List Char)
    (L : List (List Char × Nat)) (X : List Char) : List Char :=
  List.replicate a ' ' ++ (c :: m ++ (List.replicate b ' ' ++ (sign :: (List.replicate cc ' ' ++
    (d ++ (spDomsW L ++ X))))))

theorem Ok_comp_body_tailW (env : Env) (kc : Char) (ks : List Char) (hk : isWs kc = false) (hk' : kc ≠ '#')
    (a : Nat) (ha : 0 < a) (c : Char) (m : List Char) (b : Nat) (sign : Char) (hs : sign = '=' ∨ sign = ':') (cc : Nat)
    (d : List Char) (L : List (List Char × Nat)) (X : List Char) (NE : Nat) (p : Pos)
    (hc : c ∈ identChars) (hm : ∀ x ∈ m, x ∈ identChars) (hd : IsDom d) (hds : ∀ x ∈ L, IsDom x.1) (hX : Tail X)
    (heol : Ok env NE {} eolG { rest := X, past := false } (p, [])) :
    Ok env (max (L.length + 20) (NE + 10)) {} (compBody (kc :: ks))
      { rest := kc :: (ks ++ compTextW a c m b sign cc d L X), past := false }
      (p, [.grp [.tok "composite-domain", .tok (String.ofList (c :: m)),
          .grp ((d :: L.map (·.1)).map (fun d => .tok (String.ofList d)))]]) := by
  unfold compBody compTextW
  obtain ⟨dc, dm, st, rfl, hdc, hdm⟩ := hd
  have h1 := Ok_kw env kc ks (List.replicate a ' ' ++ (c :: m ++ (List.replicate b ' ' ++ (sign ::
    (List.replicate cc ' ' ++ (dc :: dm ++ star st ++ (spDomsW L ++ X))))))) hk hk'
    (OutHd_kw_blanks a ha _)
  have h2 := Ok_ident env a c m (List.replicate b ' ' ++ (sign ::
    (List.replicate cc ' ' ++ (dc :: dm ++ star st ++ (spDomsW L ++ X)))))
    hc hm ((OutHd_sign b sign hs _).imp (fun x hx => hx.1))
  have h3 := Ok_assign env b sign hs
    (List.replicate cc ' ' ++ (dc :: dm ++ star st ++ (spDomsW L ++ X)))
  have h4a := Ok_domain env cc dc dm st (spDomsW L ++ X) hdc hdm (OutHd_spDomsW L _ hX.outDom)
  have h4b := OkMany_domsW env L X hds hX.outDom (No_domain_tail env X hX)
  simp only [List.cons_append, List.append_assoc] at h1 h2 h3 h4a h4b ⊢
  have h4 := Ok_group (Ok_many1 h4a h4b)
  have h5 : Ok env 8 {} (.opt (.seq [.suppress pil_assign, pil_number])) { rest := X, past := false }
      ({ rest := X, past := false }, []) :=
    (Ok_opt_none (No_seq (NoSeq_head (No_assign_tail env X hX)))).mono (by decide)
  have := Ok_group (Ok_tag (t := "composite-domain") (Ok_seq (OkSeq_cons h1 (OkSeq_cons h2 (OkSeq_cons h3
    (OkSeq_cons h4 (OkSeq_cons h5 (OkSeq_cons heol (OkSeq_nil env _ _)))))))))
  simp only [List.nil_append, List.append_nil, List.cons_append, List.map_cons, List.map_map] at this ⊢
  exact this.mono (by omega)

theorem comp_stmt_tailW (kw : List Char)
    (hkw : kw = ['s', 't', 'r', 'a', 'n', 'd'] ∨ kw = ['s', 'u', 'p', '-', 's', 'e', 'q', 'u', 'e', 'n', 'c', 'e'])
    (a : Nat) (ha : 0 < a) (c : Char) (m : List Char) (b : Nat) (sign : Char) (hs : sign = '=' ∨ sign = ':') (cc : Nat)
    (d : List Char) (L : List (List Char × Nat)) (X : List Char) (NE : Nat) (p : Pos)
    (hc : c ∈ identChars) (hm : ∀ x ∈ m, x ∈ identChars) (hd : IsDom d) (hds : ∀ x ∈ L, IsDom x.1) (hX : Tail X)
    (heol : Ok pil_env NE {} eolG { rest := X, past := false } (p, [])) :
    Ok pil_env (max (L.length + 30) (NE + 30)) {} pil_stmt
      { rest := kw ++ compTextW a c m b sign cc d L X, past := false }
      (p, [.grp [.tok "composite-domain", .tok (String.ofList (c :: m)),
          .grp ((d :: L.map (·.1)).map (fun d => .tok (String.ofList d)))]]) := by
  rcases hkw with rfl | rfl
  · have hb := Ok_comp_body_tailW pil_env 's' ['t', 'r', 'a', 'n', 'd'] (by decide) (by decide) a ha c m b sign hs cc
      d L X NE p hc hm hd hds hX heol
    exact (Ok_strand_stmt pil_env _ _ _ hb).mono (by omega)
  · have hb := Ok_comp_body_tailW pil_env 's' ['u', 'p', '-', 's', 'e', 'q', 'u', 'e', 'n', 'c', 'e'] (by decide)
      (by decide) a ha c m b sign hs cc d L X NE p hc hm hd hds hX heol
    exact (Ok_supseq_stmt pil_env _ _ _ hb).mono (by omega)

/-- the template fragment "separator, token" for every element of a list, and its rendering -/
theorem render_sepToks (ds : List (List Char)) (tl : List Piece) (ks : List Nat)
    (h : CountsOK (ds.flatMap (fun d => [Piece.sep true, Piece.tok d]) ++ tl) ks) :
    ∃ (cs : List Nat) (ks' : List Nat), cs.length = ds.length ∧ CountsOK tl ks' ∧
      render (ds.flatMap (fun d => [Piece.sep true, Piece.tok d]) ++ tl) ks =
        spDomsW (ds.zip cs) ++ render tl ks' := by
  induction ds generalizing ks with
  | nil => exact ⟨[], ks, rfl, h, by simp [spDomsW]⟩
  | cons d ds ih =>
    cases ks with
    | nil => exact absurd h (by simp [CountsOK])
    | cons k ks =>
      simp only [List.flatMap_cons, List.cons_append, List.nil_append] at h ⊢
      obtain ⟨hk, h'⟩ := h
      have hk1 := hk rfl
      obtain ⟨c, rfl⟩ : ∃ c, k = c + 1 := ⟨k - 1, by omega⟩
      obtain ⟨cs, ks', hl, ht, hr⟩ := ih ks h'
      refine ⟨c :: cs, ks', by simp [hl], ht, ?_⟩
      simp only [render, List.zip_cons_cons, spDomsW_cons, hr, List.append_assoc]

/-! ### `state` / `macrostate`: any gaps around the commas and brackets -/

/-- the further members of a list: `b1` blanks, a comma, `b2` blanks, the member -/
def csMemsW (L : List (List Char × Nat × Nat)) : List Char :=
  (L.map (fun x => List.replicate x.2.1 ' ' ++ ',' :: (List.replicate x.2.2 ' ' ++ x.1))).flatten

theorem csMemsW_cons (x : List Char × Nat × Nat) (L : List (List Char × Nat × Nat)) :
    csMemsW (x :: L) = List.replicate x.2.1 ' ' ++ ',' :: (List.replicate x.2.2 ' ' ++ (x.1 ++ csMemsW L)) := by
  simp [csMemsW]

theorem OutHd_csMemsW (L : List (List Char × Nat × Nat)) (h : Nat) (tail : List Char) :
    OutHd (fun x => x ∉ identChars) (csMemsW L ++ (List.replicate h ' ' ++ (']' :: tail))) := by
  cases L with
  | nil =>
    simp only [csMemsW, List.map_nil, List.flatten_nil, List.nil_append]
    exact OutHd_blanks _ h _ (outside_facts ' ' (by decide)) (OutHd_cons _ _ _ (punct_facts ']' (by decide)).1)
  | cons x L =>
    rw [csMemsW_cons, List.append_assoc]
    exact OutHd_blanks _ _ _ (outside_facts ' ' (by decide)) (OutHd_cons _ _ _ (punct_facts ',' (by decide)).1)

theorem OkMany_memsW (env : Env) (L : List (List Char × Nat × Nat)) (h : Nat) (tail : List Char)
    (hd : ∀ x ∈ L, IsId x.1) :
    OkMany env (L.length + 6) {} (.seq [.suppress (.lit [',']), pil_identifier])
      { rest := csMemsW L ++ (List.replicate h ' ' ++ (']' :: tail)), past := false }
      ({ rest := List.replicate h ' ' ++ (']' :: tail), past := false }, L.map (fun x => .tok (String.ofList x.1))) := by
  induction L with
  | nil =>
    have h0 : No env 2 {} (.suppress (.lit [','])) { rest := List.replicate h ' ' ++ (']' :: tail), past := false } :=
      No_punct env _ ',' ']' tail (skipIgn_blanks_cons h ']' tail (by decide) (by decide)) (by decide)
    have := OkMany_stop (No_seq (NoSeq_head (gs := [pil_identifier]) h0))
    intro reps fuel hr hf
    simpa [csMemsW] using this reps fuel (by simp at hr; omega) (by simp at hf; omega)
  | cons x L ih =>
    obtain ⟨c, m, hx, hc, hm⟩ := hd x (by simp)
    have ih' := ih (fun d hd' => hd d (List.mem_cons_of_mem _ hd'))
    have h1 := Ok_punct env x.2.1 ',' (List.replicate x.2.2 ' ' ++ (c :: m ++ (csMemsW L ++
      (List.replicate h ' ' ++ (']' :: tail))))) (by decide) (by decide)
    have h2 := Ok_ident env x.2.2 c m _ hc hm (OutHd_csMemsW L h tail)
    have hne : ({ rest := csMemsW L ++ (List.replicate h ' ' ++ (']' :: tail)), past := false } : Pos) ≠
        { rest := List.replicate x.2.1 ' ' ++ (',' :: (List.replicate x.2.2 ' ' ++ (c :: m ++ (csMemsW L ++
          (List.replicate h ' ' ++ (']' :: tail)))))), past := false } :=
      pos_ne_of_length _ _ _ _ (by simp; omega)
    have := OkMany_step (Ok_seq (OkSeq_cons h1 (OkSeq_cons h2 (OkSeq_nil env _ _)))) hne ih'
    rw [csMemsW_cons, hx]
    simp only [List.cons_append, List.append_assoc, List.nil_append, List.append_nil,
      List.map_cons, List.length_cons] at this ⊢
    rw [hx]
    intro reps fuel hr hf
    exact this reps fuel (by omega) (by omega)

def restTextW (a : Nat) (c : Char) (m : List Char) (b cc g : Nat) (mc : Char) (mm : List Char)
    (L : List (List Char × Nat × Nat)) (h : Nat) (X : List Char) : List Char :=
  List.replicate a ' ' ++ (c :: m ++ (List.replicate b ' ' ++ ('=' :: (List.replicate cc ' ' ++ ('[' ::
    (List.replicate g ' ' ++ (mc :: mm ++ (csMemsW L ++ (List.replicate h ' ' ++ (']' :: X))))))))))

theorem Ok_rest_body_tailW (env : Env) (kc : Char) (ks : List Char) (hk : isWs kc = false) (hk' : kc ≠ '#')
    (a : Nat) (ha : 0 < a) (c : Char) (m : List Char) (b cc g : Nat) (mc : Char) (mm : List Char)
    (L : List (List Char × Nat × Nat)) (h : Nat) (X : List Char) (NE : Nat) (p : Pos)
    (hc : c ∈ identChars) (hm : ∀ x ∈ m, x ∈ identChars) (hmc : mc ∈ identChars) (hmm : ∀ x ∈ mm, x ∈ identChars)
    (hms : ∀ x ∈ L, IsId x.1)
    (heol : Ok env NE {} eolG { rest := X, past := false } (p, [])) :
    Ok env (max (L.length + 22) (NE + 11)) {} (restBody (kc :: ks))
      { rest := kc :: (ks ++ restTextW a c m b cc g mc mm L h X), past := false }
      (p, [.grp [.tok "resting-macrostate", .tok (String.ofList (c :: m)),
          .grp (((mc :: mm) :: L.map (·.1)).map (fun d => .tok (String.ofList d)))]]) := by
  unfold restBody restTextW
  have h1 := Ok_kw env kc ks (List.replicate a ' ' ++ (c :: m ++ (List.replicate b ' ' ++ ('=' ::
    (List.replicate cc ' ' ++ ('[' :: (List.replicate g ' ' ++ (mc :: mm ++ (csMemsW L ++
      (List.replicate h ' ' ++ (']' :: X))))))))))) hk hk' (OutHd_kw_blanks a ha _)
  have h2 := Ok_ident env a c m (List.replicate b ' ' ++ ('=' ::
    (List.replicate cc ' ' ++ ('[' :: (List.replicate g ' ' ++ (mc :: mm ++ (csMemsW L ++
      (List.replicate h ' ' ++ (']' :: X)))))))))
    hc hm ((OutHd_sign b '=' (Or.inl rfl) _).imp (fun x hx => hx.1))
  have h3 := Ok_punct env b '=' (List.replicate cc ' ' ++ ('[' :: (List.replicate g ' ' ++ (mc :: mm ++ (csMemsW L ++
    (List.replicate h ' ' ++ (']' :: X))))))) (by decide) (by decide)
  have h4 := Ok_punct env cc '[' (List.replicate g ' ' ++ (mc :: mm ++ (csMemsW L ++
    (List.replicate h ' ' ++ (']' :: X))))) (by decide) (by decide)
  have h5a := Ok_ident env g mc mm (csMemsW L ++ (List.replicate h ' ' ++ (']' :: X))) hmc hmm (OutHd_csMemsW L h X)
  have h5b := Ok_many (OkMany_memsW env L h X hms)
  have h5 := Ok_group (Ok_seq (OkSeq_cons h5a (OkSeq_cons h5b (OkSeq_nil env _ _))))
  have h6 := Ok_punct env h ']' X (by decide) (by decide)
  simp only [List.cons_append, List.nil_append] at h1 h2 h3 h4 h5 h6 ⊢
  have := Ok_group (Ok_tag (t := "resting-macrostate") (Ok_seq (OkSeq_cons h1 (OkSeq_cons h2 (OkSeq_cons h3
    (OkSeq_cons h4 (OkSeq_cons h5 (OkSeq_cons h6 (OkSeq_cons heol (OkSeq_nil env _ _))))))))))
  simp only [List.nil_append, List.append_nil, List.cons_append, List.map_cons, List.map_map] at this ⊢
  exact this.mono (by omega)

theorem rest_stmt_tailW (kw : List Char)
    (hkw : kw = ['s', 't', 'a', 't', 'e'] ∨ kw = ['m', 'a', 'c', 'r', 'o', 's', 't', 'a', 't', 'e'])
    (a : Nat) (c : Char) (m : List Char) (b cc g : Nat) (mc : Char) (mm : List Char)
    (L : List (List Char × Nat × Nat)) (h : Nat) (X : List Char) (NE : Nat) (p : Pos)
    (hc : c ∈ identChars) (hm : ∀ x ∈ m, x ∈ identChars) (hmc : mc ∈ identChars) (hmm : ∀ x ∈ mm, x ∈ identChars)
    (hms : ∀ x ∈ L, IsId x.1)
    (heol : Ok pil_env NE {} eolG { rest := X, past := false } (p, [])) :
    Ok pil_env (max (L.length + 40) (NE + 30)) {} pil_stmt
      { rest := kw ++ restTextW (a + 1) c m b cc g mc mm L h X, past := false }
      (p, [.grp [.tok "resting-macrostate", .tok (String.ofList (c :: m)),
          .grp (((mc :: mm) :: L.map (·.1)).map (fun d => .tok (String.ofList d)))]]) := by
  have hform : restTextW (a + 1) c m b cc g mc mm L h X = List.replicate (a + 1) ' ' ++ (c :: (m ++
      (List.replicate b ' ' ++ ('=' :: (List.replicate cc ' ' ++ ('[' :: (List.replicate g ' ' ++ (mc :: mm ++
        (csMemsW L ++ (List.replicate h ' ' ++ (']' :: X))))))))))) := rfl
  rcases hkw with rfl | rfl
  · have hb := Ok_rest_body_tailW pil_env 's' ['t', 'a', 't', 'e'] (by decide) (by decide) (a + 1) (Nat.succ_pos a)
      c m b cc g mc mm L h X NE p hc hm hmc hmm hms heol
    rw [hform] at hb
    have hstmt := Ok_state_stmt pil_env a c _ hc _ _ hb
    rw [← hform] at hstmt
    exact hstmt.mono (by omega)
  · have hb := Ok_rest_body_tailW pil_env 'm' ['a', 'c', 'r', 'o', 's', 't', 'a', 't', 'e'] (by decide) (by decide)
      (a + 1) (Nat.succ_pos a) c m b cc g mc mm L h X NE p hc hm hmc hmm hms heol
    rw [hform] at hb
    have hstmt := Ok_macrostate_stmt pil_env a c _ hc _ _ hb
    rw [← hform] at hstmt
    exact hstmt.mono (by omega)

/-- the template fragment "separator, comma, separator, token" for every element of a list -/
theorem render_commaToks (ms : List (List Char)) (tl : List Piece) (ks : List Nat)
    (h : CountsOK (ms.flatMap (fun d => [Piece.sep false, Piece.tok [','], Piece.sep false, Piece.tok d]) ++ tl) ks) :
    ∃ (cs : List (Nat × Nat)) (ks' : List Nat), cs.length = ms.length ∧ CountsOK tl ks' ∧
      render (ms.flatMap (fun d => [Piece.sep false, Piece.tok [','], Piece.sep false, Piece.tok d]) ++ tl) ks =
        csMemsW (ms.zip cs) ++ render tl ks' := by
  induction ms generalizing ks with
  | nil => exact ⟨[], ks, rfl, h, by simp [csMemsW]⟩
  | cons d ds ih =>
    rcases ks with _ | ⟨k1, _ | ⟨k2, ks⟩⟩ <;>
      simp only [List.flatMap_cons, List.cons_append, List.nil_append, CountsOK] at h
    · exact absurd h.2 (by simp)
    obtain ⟨_, _, h'⟩ := h
    obtain ⟨cs, ks', hl, ht, hr⟩ := ih ks h'
    refine ⟨(k1, k2) :: cs, ks', by simp [hl], ht, ?_⟩
    simp only [List.flatMap_cons, List.cons_append, List.nil_append, render, List.zip_cons_cons, csMemsW_cons, hr,
      List.append_assoc]

end Dsd.Pil
