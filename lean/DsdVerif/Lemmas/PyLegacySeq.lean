/-
The legacy `SequenceConstraint` as translated from the source (Gen/PyLegacySeq.lean) against the CURRENT sequence functions as translated
from the source (Gen/PyIupac.lean): per nucleotide code by kernel evaluation of both translations, then along the sequence.
-/
import DsdVerif.Gen.PyLegacySeq
import DsdVerif.Gen.PyIupac
import DsdVerif.Lemmas.PyObjBasic

set_option linter.unusedSimpArgs false

namespace Dsd.PyLegacySeq
open Dsd Dsd.Gen Dsd.PyObj.Basic

/-- the IUPAC codes of a molecule -/
def codesOf (mol : String) : List Char :=
  if mol == "DNA" then "ACGTRYSMWKVHDBN".toList else "ACGURYSMWKVHDBN".toList

/-- the object `SequenceConstraint(s, mol)` -/
def mkS (s : List Char) (mol : String) : SequenceConstraint.Self :=
  { ToU := if mol == "DNA" then ['T'] else ['U'], _molecule := mol, _sequence := s.map (fun c => [c]) }

theorem exec_init (s : List Char) (mol : String) (h : mol = "DNA" ∨ mol = "RNA") (st : SequenceConstraint.Self) :
    (py_SequenceConstraint_init s mol).exec st = (.ok (), mkS s mol) := by
  unfold py_SequenceConstraint_init mkS
  rcases h with rfl | rfl <;> rfl

/-- a helper that only reads the object -/
theorem exec_iupac_complement (x : List Char) (st : SequenceConstraint.Self) :
    ∃ r, (py_SequenceConstraint_iupac_complement x).exec st = (r, st) := by
  unfold py_SequenceConstraint_iupac_complement
  simp only [exec_bind, exec_get, exec_pure, exec_lift, exec_monadLift]
  exact ⟨_, rfl⟩

/-- `map(self.m, seq)` for a helper `f` that answers like the table function `g` on every code of the sequence -/
theorem mapM_codes (f : List Char → SequenceConstraint.M (List Char)) (g : Char → Py.M Char) (st : SequenceConstraint.Self) :
    ∀ (s : List Char), (∀ c ∈ s, (f [c]).exec st = ((g c).map (fun x => [x]), st)) →
    (List.mapM f (s.map (fun c => [c]))).exec st = ((List.mapM g s).map (List.map (fun x => [x])), st) := by
  intro s
  induction s with
  | nil => intro _; rfl
  | cons c s ih =>
    intro h
    rw [List.map_cons, List.mapM_cons, List.mapM_cons, exec_bind, h c List.mem_cons_self]
    cases hg : g c with
    | error e => rfl
    | ok y =>
      simp only [Except.map, exec_bind, ih (fun c' hc' => h c' (List.mem_cons_of_mem _ hc'))]
      cases List.mapM g s <;> rfl

/-- the smallest object with a given `ToU` -/
def st0 (T : List Char) : SequenceConstraint.Self := { ToU := T, _molecule := "", _sequence := [] }

/-- `_iupac_complement` reads only `ToU` and changes nothing -/
theorem compl_ToU (x : List Char) (st : SequenceConstraint.Self) :
    (py_SequenceConstraint_iupac_complement x).exec st = (((py_SequenceConstraint_iupac_complement x).exec (st0 st.ToU)).1, st) := by
  unfold py_SequenceConstraint_iupac_complement st0
  simp only [exec_bind, exec_get, exec_pure, exec_lift, exec_monadLift]

theorem wc_ToU (x : List Char) (st : SequenceConstraint.Self) :
    (py_SequenceConstraint_wc_complement1 x).exec st = (((py_SequenceConstraint_wc_complement1 x).exec (st0 st.ToU)).1, st) := by
  unfold py_SequenceConstraint_wc_complement1 st0
  simp only [exec_bind, exec_get, exec_pure, exec_lift, exec_monadLift]

/-- per code, both translations evaluated by the kernel: legacy wobble dictionary = current wobble table (DNA, RNA) -/
theorem compl_codes_dna : ∀ c ∈ codesOf "DNA", ((py_SequenceConstraint_iupac_complement [c]).exec (st0 ['T'])).1 =
    (Py.dictGet wobble_complement_dna c).map (fun x => [x]) := by decide
theorem compl_codes_rna : ∀ c ∈ codesOf "RNA", ((py_SequenceConstraint_iupac_complement [c]).exec (st0 ['U'])).1 =
    (Py.dictGet wobble_complement_rna c).map (fun x => [x]) := by decide

/-- the legacy Watson-Crick dictionary has only A C G T/U N: on these it is the current table -/
def wcCodesOf (mol : String) : List Char := if mol == "DNA" then "ACGTN".toList else "ACGUN".toList
theorem wc_codes_dna : ∀ c ∈ wcCodesOf "DNA", ((py_SequenceConstraint_wc_complement1 [c]).exec (st0 ['T'])).1 =
    (Py.dictGet wc_complement_dna c).map (fun x => [x]) := by decide
theorem wc_codes_rna : ∀ c ∈ wcCodesOf "RNA", ((py_SequenceConstraint_wc_complement1 [c]).exec (st0 ['U'])).1 =
    (Py.dictGet wc_complement_rna c).map (fun x => [x]) := by decide

theorem join_map (r : Except Err (List Char)) (st : SequenceConstraint.Self) :
    (match (r.map (List.map (fun x => [x])), st) with
      | (.ok a, s') => ((Except.ok (Py.strJoin [] a) : Except Err (List Char)), s')
      | (.error e, s') => (.error e, s')) =
    ((do let l ← r; pure (Py.strJoin [] (List.map (fun c => [c]) l)) : Py.M (List Char)), st) := by
  cases r <;> rfl

/-- **`complement` of the legacy class = the current `complement`**, both as written, on IUPAC sequences of either molecule -/
theorem complement_eq (s : List Char) (mol : String) (hm : mol = "DNA" ∨ mol = "RNA") (hs : ∀ c ∈ s, c ∈ codesOf mol) :
    (py_SequenceConstraint_complement).exec (mkS s mol) = (py_complement s mol, mkS s mol) := by
  unfold py_SequenceConstraint_complement py_complement
  simp only [exec_bind, exec_get, exec_pure]
  rcases hm with rfl | rfl
  · rw [show (mkS s "DNA")._sequence = s.map (fun c => [c]) from rfl,
      mapM_codes _ (Py.dictGet wobble_complement_dna) _ s (fun c hc => by rw [compl_ToU, show (mkS s "DNA").ToU = ['T'] from rfl, compl_codes_dna c (hs c hc)])]
    cases List.mapM (Py.dictGet wobble_complement_dna) s <;> rfl
  · rw [show (mkS s "RNA")._sequence = s.map (fun c => [c]) from rfl,
      mapM_codes _ (Py.dictGet wobble_complement_rna) _ s (fun c hc => by rw [compl_ToU, show (mkS s "RNA").ToU = ['U'] from rfl, compl_codes_rna c (hs c hc)])]
    cases List.mapM (Py.dictGet wobble_complement_rna) s <;> rfl

end Dsd.PyLegacySeq
