/-
General lemmas about the re-indexing between linear positions and loci (`toLocus`, `fromLocus`,
`reshape`) and about `splitOn` / `joinWith`.
-/
import DsdVerif.Model.Complex
import DsdVerif.Lemmas.Matcher
import DsdVerif.Lemmas.MatchingUnique

namespace Dsd
open Dsd.Bracket

/-! ### splitOn / joinWith -/

theorem splitOn_ne_nil {α} [DecidableEq α] (sep : α) (l : List α) : splitOn sep l ≠ [] := by
  induction l with
  | nil => simp [splitOn]
  | cons c cs ih =>
    unfold splitOn
    split
    · simp
    · split <;> simp

theorem joinWith_cons_cons {α} (sep : α) (s t : List α) (ss : List (List α)) :
    joinWith sep (s :: t :: ss) = s ++ sep :: joinWith sep (t :: ss) := rfl

theorem joinWith_splitOn {α} [DecidableEq α] (sep : α) (l : List α) :
    joinWith sep (splitOn sep l) = l := by
  induction l with
  | nil => simp [splitOn, joinWith]
  | cons c cs ih =>
    unfold splitOn
    split
    · rename_i hc
      cases h : splitOn sep cs with
      | nil => exact absurd h (splitOn_ne_nil _ _)
      | cons s ss => rw [joinWith_cons_cons, ← h, ih, hc]; rfl
    · cases h : splitOn sep cs with
      | nil => exact absurd h (splitOn_ne_nil _ _)
      | cons s ss =>
        rw [h] at ih
        simp only
        cases ss with
        | nil => simp only [joinWith] at ih ⊢; rw [ih]
        | cons t ts => rw [joinWith_cons_cons] at ih ⊢; rw [List.cons_append, ih]

theorem splitOn_cons_ne {α} [DecidableEq α] (sep c : α) (cs : List α) (h : c ≠ sep) :
    splitOn sep (c :: cs) = match splitOn sep cs with
      | [] => [[c]]
      | s :: ss => (c :: s) :: ss := by
  rw [splitOn, if_neg h]; rfl

theorem splitOn_cons_eq {α} [DecidableEq α] (sep : α) (cs : List α) :
    splitOn sep (sep :: cs) = [] :: splitOn sep cs := by
  rw [splitOn, if_pos rfl]

theorem splitOn_of_not_mem {α} [DecidableEq α] (sep : α) (s : List α) (h : sep ∉ s) :
    splitOn sep s = [s] := by
  induction s with
  | nil => rfl
  | cons c cs ih =>
    simp only [List.mem_cons, not_or] at h
    rw [splitOn_cons_ne _ _ _ (fun e => h.1 e.symm), ih h.2]

theorem splitOn_append_sep {α} [DecidableEq α] (sep : α) (s rest : List α) (h : sep ∉ s) :
    splitOn sep (s ++ sep :: rest) = s :: splitOn sep rest := by
  induction s with
  | nil => simp [splitOn_cons_eq]
  | cons c cs ih =>
    simp only [List.mem_cons, not_or] at h
    rw [List.cons_append, splitOn_cons_ne _ _ _ (fun e => h.1 e.symm), ih h.2]

theorem splitOn_joinWith {α} [DecidableEq α] (sep : α) (st : List (List α)) (hne : st ≠ [])
    (hb : ∀ s ∈ st, sep ∉ s) : splitOn sep (joinWith sep st) = st := by
  induction st with
  | nil => exact absurd rfl hne
  | cons s ss ih =>
    cases ss with
    | nil => simp only [joinWith]; exact splitOn_of_not_mem sep s (hb s (by simp))
    | cons t ts =>
      rw [joinWith_cons_cons, splitOn_append_sep sep s _ (hb s (by simp))]
      rw [ih (by simp) (fun x hx => hb x (List.mem_cons_of_mem _ hx))]

/-- `joinWith` as a flatten -/
theorem joinWith_cons {α} (sep : α) (s : List α) (ss : List (List α)) :
    joinWith sep (s :: ss) = s ++ (ss.map (fun x => sep :: x)).flatten := by
  induction ss generalizing s with
  | nil => simp [joinWith]
  | cons t ts ih => rw [joinWith_cons_cons, ih]; simp

/-! ### loci -/

/-- entry of a list of lists at a locus -/
def getL {α} (xss : List (List α)) (l : Locus) : Option α := (xss[l.1]?).bind (fun s => s[l.2]?)

theorem Locus.lt_irrefl (a : Locus) : Locus.lt a a = false := by
  simp [Locus.lt]

theorem Locus.lt_asymm (a b : Locus) (h : Locus.lt a b = true) : Locus.lt b a = false := by
  simp [Locus.lt] at h ⊢
  omega

theorem toLocus_cons_lt (l : Nat) (ls : List Nat) (i : Nat) (h : i < l) :
    toLocus (l :: ls) i = (0, i) := by
  simp [toLocus, h]

theorem toLocus_cons_ge (l : Nat) (ls : List Nat) (i : Nat) (h : ¬ i < l) :
    toLocus (l :: ls) i = ((toLocus ls (i - l)).1 + 1, (toLocus ls (i - l)).2) := by
  simp [toLocus, h]

theorem toLocus_lt (lens : List Nat) (i j : Nat) :
    Locus.lt (toLocus lens i) (toLocus lens j) = true ↔ i < j := by
  induction lens generalizing i j with
  | nil => simp [toLocus, Locus.lt]; exact decide_eq_true_iff
  | cons l ls ih =>
    have := ih (i - l) (j - l)
    simp only [Locus.lt, Bool.or_eq_true, decide_eq_true_eq, Bool.and_eq_true, beq_iff_eq] at this ⊢
    by_cases hi : i < l <;> by_cases hj : j < l
    · rw [toLocus_cons_lt _ _ _ hi, toLocus_cons_lt _ _ _ hj]; dsimp only; omega
    · rw [toLocus_cons_lt _ _ _ hi, toLocus_cons_ge _ _ _ hj]; dsimp only; omega
    · rw [toLocus_cons_ge _ _ _ hi, toLocus_cons_lt _ _ _ hj]; dsimp only; omega
    · rw [toLocus_cons_ge _ _ _ hi, toLocus_cons_ge _ _ _ hj]; dsimp only; omega

theorem toLocus_inj (lens : List Nat) (i j : Nat) (h : toLocus lens i = toLocus lens j) : i = j := by
  rcases Nat.lt_trichotomy i j with hlt | heq | hgt
  · have := (toLocus_lt lens i j).mpr hlt
    rw [h, Locus.lt_irrefl] at this; simp at this
  · exact heq
  · have := (toLocus_lt lens j i).mpr hgt
    rw [h, Locus.lt_irrefl] at this; simp at this

/-- a locus is valid for a list of strand lengths -/
def ValidL (lens : List Nat) (l : Locus) : Prop := ∃ n, lens[l.1]? = some n ∧ l.2 < n

theorem toLocus_valid (lens : List Nat) (i : Nat) (h : i < lens.sum) : ValidL lens (toLocus lens i) := by
  induction lens generalizing i with
  | nil => simp at h
  | cons l ls ih =>
    unfold toLocus
    split
    · exact ⟨l, by simp, by assumption⟩
    · simp only [List.sum_cons] at h
      obtain ⟨n, h1, h2⟩ := ih (i - l) (by omega)
      exact ⟨n, by simpa using h1, h2⟩

theorem fromLocus_toLocus (lens : List Nat) (i : Nat) (h : i < lens.sum) :
    fromLocus lens (toLocus lens i) = i := by
  induction lens generalizing i with
  | nil => simp at h
  | cons l ls ih =>
    unfold toLocus
    split
    · simp [fromLocus]
    · simp only [List.sum_cons] at h
      have := ih (i - l) (by omega)
      simp only [fromLocus] at this ⊢
      simp only [List.take_succ_cons, List.sum_cons]
      omega

theorem toLocus_fromLocus (lens : List Nat) (l : Locus) (h : ValidL lens l) :
    toLocus lens (fromLocus lens l) = l ∧ fromLocus lens l < lens.sum := by
  obtain ⟨s, k⟩ := l
  induction lens generalizing s with
  | nil => obtain ⟨n, h1, _⟩ := h; simp at h1
  | cons l ls ih =>
    obtain ⟨n, h1, h2⟩ := h
    cases s with
    | zero =>
      simp only [List.getElem?_cons_zero, Option.some.injEq] at h1
      subst h1
      simp only at h2
      simp [fromLocus, toLocus, h2]
      omega
    | succ s =>
      simp only [List.getElem?_cons_succ] at h1
      obtain ⟨e1, e2⟩ := ih s ⟨n, h1, h2⟩
      simp only [fromLocus, List.take_succ_cons, List.sum_cons] at e1 e2 ⊢
      unfold toLocus
      have hnl : ¬ (l + (List.take s ls).sum + k < l) := by omega
      rw [if_neg hnl]
      have : l + (List.take s ls).sum + k - l = (List.take s ls).sum + k := by omega
      rw [this, e1]
      exact ⟨rfl, by omega⟩

/-- reading a list of lists at `toLocus` of a linear position is reading the concatenation -/
theorem getL_toLocus {α} (xss : List (List α)) (i : Nat) :
    getL xss (toLocus (xss.map List.length) i) = xss.flatten[i]? := by
  induction xss generalizing i with
  | nil => simp [getL, toLocus]
  | cons xs xss ih =>
    simp only [List.map_cons, List.flatten_cons]
    unfold toLocus
    split
    · rename_i h
      simp [getL, List.getElem?_append_left h]
    · rename_i h
      have := ih (i - xs.length)
      simp only [getL] at this ⊢
      simp only [List.getElem?_cons_succ]
      rw [this, List.getElem?_append_right (by omega)]

theorem getL_valid {α} (xss : List (List α)) (l : Locus) (c : α) (h : getL xss l = some c) :
    ValidL (xss.map List.length) l := by
  unfold getL at h
  cases hs : xss[l.1]? with
  | none => simp [hs] at h
  | some s =>
    simp [hs] at h
    refine ⟨s.length, by simp [hs], ?_⟩
    exact (List.getElem?_eq_some_iff.mp h).1

theorem getL_of_valid {α} (xss : List (List α)) (l : Locus) (h : ValidL (xss.map List.length) l) :
    ∃ c, getL xss l = some c := by
  obtain ⟨n, h1, h2⟩ := h
  unfold getL
  cases hs : xss[l.1]? with
  | none => simp [hs] at h1
  | some s =>
    simp [hs] at h1
    subst h1
    exact ⟨s[l.2], by simp [h2]⟩

/-- two lists of lists with the same entries at every locus are equal -/
theorem ext_getL {α} (xss yss : List (List α)) (hl : xss.length = yss.length)
    (h : ∀ l, getL xss l = getL yss l) : xss = yss := by
  apply List.ext_getElem?
  intro s
  cases hx : xss[s]? with
  | none =>
    cases hy : yss[s]? with
    | none => rfl
    | some y =>
      have := List.getElem?_eq_none_iff.mp hx
      have := (List.getElem?_eq_some_iff.mp hy).1
      omega
  | some x =>
    cases hy : yss[s]? with
    | none =>
      have := List.getElem?_eq_none_iff.mp hy
      have := (List.getElem?_eq_some_iff.mp hx).1
      omega
    | some y =>
      congr 1
      apply List.ext_getElem?
      intro k
      have := h (s, k)
      simpa [getL, hx, hy] using this

theorem reshape_flatten {α} (lens : List Nat) (xs : List α) (h : xs.length = lens.sum) :
    (reshape lens xs).flatten = xs := by
  induction lens generalizing xs with
  | nil => simp at h; simp [reshape, h]
  | cons l ls ih =>
    simp only [List.sum_cons] at h
    simp only [reshape, List.flatten_cons]
    rw [ih (xs.drop l) (by simp; omega), List.take_append_drop]

theorem reshape_shape {α} (lens : List Nat) (xs : List α) (h : xs.length = lens.sum) :
    (reshape lens xs).map List.length = lens := by
  induction lens generalizing xs with
  | nil => simp [reshape]
  | cons l ls ih =>
    simp only [List.sum_cons] at h
    simp only [reshape, List.map_cons, List.length_take]
    rw [ih (xs.drop l) (by simp; omega)]
    congr 1; omega

theorem reshape_get {α} (lens : List Nat) (xs : List α) (h : xs.length = lens.sum) (i : Nat) :
    getL (reshape lens xs) (toLocus lens i) = xs[i]? := by
  have := getL_toLocus (reshape lens xs) i
  rw [reshape_shape lens xs h, reshape_flatten lens xs h] at this
  exact this

/-! ### mapM in the Option monad -/

theorem mapM_option_map {α β} (f : α → Option β) (l : List α) (l' : List β) (h : l.mapM f = some l') :
    l.map f = l'.map some := by
  induction l generalizing l' with
  | nil => simp at h; subst h; rfl
  | cons a as ih =>
    rw [List.mapM_cons] at h
    cases hfa : f a with
    | none => simp [hfa] at h
    | some b =>
      cases hr : as.mapM f with
      | none => simp [hfa, hr] at h
      | some bs =>
        simp [hfa, hr] at h
        subst h
        simp [hfa, ih bs hr]

theorem mapM_option_of_map {α β} (f : α → Option β) (l : List α) (l' : List β) (h : l.map f = l'.map some) :
    l.mapM f = some l' := by
  induction l generalizing l' with
  | nil => cases l' with
    | nil => rfl
    | cons _ _ => simp at h
  | cons a as ih =>
    cases l' with
    | nil => simp at h
    | cons b bs =>
      simp only [List.map_cons, List.cons.injEq] at h
      rw [List.mapM_cons, h.1, ih bs h.2]; rfl

theorem mapM_mapM_flatten {α β} (f : α → Option β) (xss : List (List α)) (yss : List (List β))
    (h : xss.mapM (fun s => s.mapM f) = some yss) :
    xss.flatten.map f = yss.flatten.map some ∧ yss.map List.length = xss.map List.length := by
  induction xss generalizing yss with
  | nil => simp at h; subst h; simp
  | cons xs xss ih =>
    rw [List.mapM_cons] at h
    cases h1 : xs.mapM f with
    | none => simp [h1] at h
    | some ys =>
      cases h2 : xss.mapM (fun s => s.mapM f) with
      | none => simp [h1, h2] at h
      | some yss' =>
        simp [h1, h2] at h
        subst h
        obtain ⟨e1, e2⟩ := ih yss' h2
        have e3 := mapM_option_map f xs ys h1
        have e4 : ys.length = xs.length := by
          have := congrArg List.length e3; simpa using this.symm
        simp [e1, e2, e3, e4]

/-! ### linear matching facts -/

theorem matchW_length (w : List Sym) (t : List (Option Nat)) (h : matchW w = some t) :
    t.length = w.length := by
  unfold matchW at h
  cases hr : run ⟨[], []⟩ w with
  | none => simp [hr] at h
  | some s =>
    obtain ⟨tb, st⟩ := s
    cases st with
    | cons a b => simp [hr] at h
    | nil =>
      simp [hr] at h; subst h
      have inv := run_inv [] w ⟨[], []⟩ ⟨tb, []⟩ inv_init hr
      simpa using inv.len

theorem _root_.Dsd.Bracket.Matching.pair {w : List Sym} {M : Nat → Option Nat} (hM : Matching w M) (i j : Nat)
    (h : M i = some j) : i < w.length ∧ j < w.length ∧ i ≠ j ∧ M j = some i := by
  have hi : i < w.length := by
    apply Classical.byContradiction; intro hn
    rw [hM.out i (by omega)] at h; simp at h
  have hj : ∀ k, M k = some i → k < w.length := by
    intro k hk
    apply Classical.byContradiction; intro hn
    rw [hM.out k (by omega)] at hk; simp at hk
  rcases sym_cases w i hi with hs | hs | hs
  · obtain ⟨k, h1, h2, h3, _⟩ := hM.op i hs
    rw [h] at h2; have := Option.some.inj h2; subst this
    exact ⟨hi, hj _ h3, by omega, h3⟩
  · obtain ⟨k, h1, h2, h3, _⟩ := hM.cl i hs
    rw [h] at h2; have := Option.some.inj h2; subst this
    exact ⟨hi, hj _ h3, by omega, h3⟩
  · rw [hM.dot i hs] at h; simp at h

end Dsd
