/-
Helper lemmas for the strand rotation `rotateOnce` (C07).
Part 2: what the two scans of `rotate_complex_once` compute.
-/
import DsdVerif.Lemmas.Rotate

namespace Dsd.Rot
open Dsd.Bracket

/-- a structure character as a bracket symbol: everything but `(`/`)` is unpaired -/
def tsym : Char → Sym
  | '(' => .op
  | ')' => .cl
  | _ => .dot

def cword (sst : List Char) : List Sym := sst.map tsym

theorem tsym_op : tsym '(' = .op := rfl
theorem tsym_cl : tsym ')' = .cl := rfl
theorem tsym_dot (c : Char) (h1 : c ≠ '(') (h2 : c ≠ ')') : tsym c = .dot := by
  unfold tsym; split <;> simp_all
theorem tsym_eq_op (c : Char) : tsym c = .op ↔ c = '(' := by
  constructor
  · intro h; unfold tsym at h; split at h <;> simp_all
  · intro h; subst h; rfl
theorem tsym_eq_cl (c : Char) : tsym c = .cl ↔ c = ')' := by
  constructor
  · intro h; unfold tsym at h; split at h <;> simp_all
  · intro h; subst h; rfl

theorem cword_get (sst : List Char) (i : Nat) : (cword sst)[i]? = (sst[i]?).map tsym := by
  simp [cword]

theorem cword_length (sst : List Char) : (cword sst).length = sst.length := by simp [cword]

/-! ### setAll -/

theorem setAll_cons {α} (l : List α) (a : Nat) (idx : List Nat) (v : α) :
    setAll l (a :: idx) v = setAll (l.set a v) idx v := rfl

theorem setAll_length {α} (l : List α) (idx : List Nat) (v : α) :
    (setAll l idx v).length = l.length := by
  induction idx generalizing l with
  | nil => rfl
  | cons a idx ih => rw [setAll_cons, ih]; simp

theorem setAll_get {α} (l : List α) (idx : List Nat) (v : α) (i : Nat) :
    (setAll l idx v)[i]? = if i ∈ idx then (l[i]?).map (fun _ => v) else l[i]? := by
  induction idx generalizing l with
  | nil => simp [setAll]
  | cons a idx ih =>
    rw [setAll_cons, ih, List.getElem?_set]
    by_cases h1 : i ∈ idx <;> by_cases h2 : a = i
    · subst h2; simp [h1]; split <;> simp_all
    · simp [h1, h2]
    · subst h2; simp [h1]
      split
      · rename_i h; simp [List.getElem?_eq_getElem h]
      · rename_i h; simp [List.getElem?_eq_none (by omega : l.length ≤ a)]
    · have : i ≠ a := fun e => h2 e.symm
      simp [h1, h2, this]

theorem setAll_drop {α} (l : List α) (idx : List Nat) (v : α) (k : Nat) (h : ∀ a ∈ idx, a < k) :
    (setAll l idx v).drop k = l.drop k := by
  apply List.ext_getElem?
  intro i
  rw [List.getElem?_drop, List.getElem?_drop, setAll_get]
  have : k + i ∉ idx := fun hm => by have := h _ hm; omega
  simp [this]

/-! ### the forward scan is the stack of the matcher -/

theorem scanFwd_run (cs : List Char) (s : St) :
    scanFwd cs s.tbl.length s.stack = (run s (cword cs)).map (·.stack) := by
  induction cs generalizing s with
  | nil => simp [scanFwd, cword, run]
  | cons c cs ih =>
    by_cases h1 : c = '('
    · subst h1
      have := ih ⟨s.tbl ++ [none], s.tbl.length :: s.stack⟩
      simp only [List.length_append, List.length_singleton] at this
      simp only [scanFwd, if_true, cword, List.map_cons, tsym_op, run, step, Option.bind_some]
      exact this
    · by_cases h2 : c = ')'
      · subst h2
        cases hst : s.stack with
        | nil => simp [scanFwd, cword, tsym_cl, run, step, hst]
        | cons t rest =>
          have := ih ⟨s.tbl.set t (some s.tbl.length) ++ [some t], rest⟩
          simp only [List.length_append, List.length_singleton, List.length_set] at this
          simp [scanFwd, cword, tsym_cl, run, step, hst]
          exact this
      · have := ih ⟨s.tbl ++ [none], s.stack⟩
        simp only [List.length_append, List.length_singleton] at this
        simp only [scanFwd, h1, h2, if_false, cword, List.map_cons, tsym_dot c h1 h2, run, step,
          Option.bind_some]
        exact this

theorem matchW_run (w : List Sym) (t : List (Option Nat)) (h : matchW w = some t) :
    run ⟨[], []⟩ w = some ⟨t, []⟩ := by
  unfold matchW at h
  cases hr : run ⟨[], []⟩ w with
  | none => simp [hr] at h
  | some s =>
    obtain ⟨tb, st⟩ := s
    cases st with
    | cons a b => simp [hr] at h
    | nil => simp [hr] at h; subst h; rfl

/-- the forward scan over the first `p` characters of a balanced structure succeeds and returns
    the opening brackets before `p` whose partner is at or after `p` -/
theorem scanFwd_spec (sst : List Char) (t : List (Option Nat)) (p : Nat) (hpl : p ≤ sst.length)
    (hm : matchW (cword sst) = some t) :
    ∃ st, scanFwd (sst.take p) 0 [] = some st ∧
      ∀ i, i ∈ st ↔ (i < p ∧ (cword sst)[i]? = some .op ∧ ∃ j, p ≤ j ∧ P t i = some j) := by
  have hr := matchW_run _ _ hm
  have hsplit : cword sst = cword (sst.take p) ++ cword (sst.drop p) := by
    simp [cword]
  rw [hsplit, run_append] at hr
  cases hu : run ⟨[], []⟩ (cword (sst.take p)) with
  | none => simp [hu] at hr
  | some su =>
    have hw : run ⟨[], []⟩ (cword (sst.take p) ++ cword (sst.drop p)) = some ⟨t, []⟩ := by
      rw [run_append]; exact hr
    have key := stack_at_prefix _ _ su t hu hw
    have hf := scanFwd_run (sst.take p) ⟨[], []⟩
    simp only [List.length_nil, hu, Option.map_some] at hf
    refine ⟨su.stack, hf, ?_⟩
    intro i
    rw [key i]
    have hlen : (cword (sst.take p)).length = p := by simp [cword]; omega
    rw [hlen]
    constructor
    · rintro ⟨h1, h2⟩
      have hi : i < p := by have := u_lt _ _ _ h1; omega
      refine ⟨hi, ?_, h2⟩
      rw [hsplit, List.getElem?_append_left (by omega)]; exact h1
    · rintro ⟨hi, h1, h2⟩
      refine ⟨?_, h2⟩
      rw [hsplit, List.getElem?_append_left (by omega)] at h1; exact h1

/-! ### the backward scan: mirror image of the matcher's stack invariant -/

/-- invariant of the backward scan relative to a matching `M` of the whole word: positions `≥ n`
    have been visited, the stack holds the closing brackets there whose partner is before `n` -/
structure BRel (w : List Sym) (M : Nat → Option Nat) (n : Nat) (st : List Nat) : Prop where
  sorted : st.Pairwise (· < ·)
  mem : ∀ i, i ∈ st ↔ (n ≤ i ∧ w[i]? = some .cl ∧ ∃ j, j < n ∧ M i = some j)

theorem matching_inv (w : List Sym) (M) (hM : Matching w M) (i j : Nat) (h : M i = some j) :
    M j = some i := (matching_nci w M hM).inv i j h

theorem brel_run (w : List Sym) (M) (hM : Matching w M) :
    ∀ (cs : List Char) (n : Nat) (st : List Nat), cs.length ≤ n →
      (∀ k c, cs[k]? = some c → w[n - 1 - k]? = some (tsym c)) → BRel w M n st →
      ∃ st', scanBwd cs (n - 1) st = some st' ∧ BRel w M (n - cs.length) st' := by
  intro cs
  induction cs with
  | nil => intro n st _ _ h; exact ⟨st, rfl, by simpa using h⟩
  | cons c cs ih =>
    intro n st hlen hw hrel
    simp only [List.length_cons] at hlen
    have hn : n - 1 + 1 = n := by omega
    have hc : w[n - 1]? = some (tsym c) := by simpa using hw 0 c (by simp)
    have hw' : ∀ k c', cs[k]? = some c' → w[n - 1 - 1 - k]? = some (tsym c') := by
      intro k c' h
      have := hw (k + 1) c' (by simpa using h)
      have e : n - 1 - (k + 1) = n - 1 - 1 - k := by omega
      rw [e] at this; exact this
    have hfin : n - (cs.length + 1) = n - 1 - cs.length := by omega
    simp only [List.length_cons]
    rw [hfin]
    obtain ⟨hs, hm⟩ := hrel
    have inv := matching_inv w M hM
    by_cases h1 : c = ')'
    · subst h1
      rw [tsym_cl] at hc
      obtain ⟨j, hj1, hj2, hj3, hj4⟩ := hM.cl _ hc
      have hrel' : BRel w M (n - 1) ((n - 1) :: st) := by
        constructor
        · simp only [List.pairwise_cons]; refine ⟨?_, hs⟩
          intro a ha; have := (hm a).mp ha; omega
        · intro i
          simp only [List.mem_cons]
          constructor
          · rintro (rfl | hi)
            · exact ⟨Nat.le_refl _, hc, j, hj1, hj2⟩
            · obtain ⟨a, b, k, hk, e⟩ := (hm i).mp hi
              refine ⟨by omega, b, k, ?_, e⟩
              by_cases hkm : k = n - 1
              · subst hkm
                have := inv _ _ e
                rw [hj2] at this; have := Option.some.inj this; omega
              · omega
          · rintro ⟨a, b, k, hk, e⟩
            by_cases him : i = n - 1
            · left; exact him
            · right; exact (hm i).mpr ⟨by omega, b, k, by omega, e⟩
      obtain ⟨st', h1, h2⟩ := ih (n - 1) _ (by omega) hw' hrel'
      exact ⟨st', by simp only [scanBwd, if_true]; exact h1, h2⟩
    · by_cases h2 : c = '('
      · subst h2
        rw [tsym_op] at hc
        obtain ⟨j, hj1, hj2, hj3, hj4⟩ := hM.op _ hc
        have hjmem : j ∈ st := (hm j).mpr ⟨by omega, hj4, n - 1, by omega, hj3⟩
        cases hst : st with
        | nil => rw [hst] at hjmem; simp at hjmem
        | cons t rest =>
          rw [hst] at hs hjmem
          simp only [List.pairwise_cons] at hs
          have htmem : t ∈ st := by rw [hst]; simp
          obtain ⟨ht1, ht2, kt, hkt, het⟩ := (hm t).mp htmem
          have htj : t = j := by
            simp only [List.mem_cons] at hjmem
            rcases hjmem with h | h
            · exact h.symm
            · exfalso
              have hlt : t < j := hs.1 j h
              have hktn : kt ≠ n - 1 := by
                intro e; subst e
                have := inv _ _ het
                rw [hj2] at this; have := Option.some.inj this; omega
              exact hM.nocross kt t (n - 1) j (inv _ _ het) hj2 (by omega) (by omega) hlt
          subst htj
          have hrel' : BRel w M (n - 1) rest := by
            constructor
            · exact hs.2
            · intro i
              constructor
              · intro hi
                have hit : t < i := hs.1 i hi
                have : i ∈ st := by rw [hst]; simp [hi]
                obtain ⟨a, b, k, hk, e⟩ := (hm i).mp this
                refine ⟨by omega, b, k, ?_, e⟩
                by_cases hkm : k = n - 1
                · subst hkm
                  have := inv _ _ e
                  rw [hj2] at this; have := Option.some.inj this; omega
                · omega
              · rintro ⟨a, b, k, hk, e⟩
                have him : i ≠ n - 1 := by intro h; subst h; rw [hc] at b; simp at b
                have : i ∈ st := (hm i).mpr ⟨by omega, b, k, by omega, e⟩
                rw [hst] at this
                simp only [List.mem_cons] at this
                rcases this with h | h
                · subst h; rw [hj3] at e; have := Option.some.inj e; omega
                · exact h
          obtain ⟨st', h3, h4⟩ := ih (n - 1) _ (by omega) hw' hrel'
          exact ⟨st', by simp only [scanBwd, h1, if_false, if_true]; exact h3, h4⟩
      · rw [tsym_dot c h2 h1] at hc
        have hd := hM.dot _ hc
        have hrel' : BRel w M (n - 1) st := by
          constructor
          · exact hs
          · intro i; rw [hm i]
            constructor
            · rintro ⟨a, b, k, hk, e⟩
              refine ⟨by omega, b, k, ?_, e⟩
              by_cases hkm : k = n - 1
              · subst hkm
                have := inv _ _ e
                rw [hd] at this; simp at this
              · omega
            · rintro ⟨a, b, k, hk, e⟩
              have him : i ≠ n - 1 := by intro h; subst h; rw [hc] at b; simp at b
              exact ⟨by omega, b, k, by omega, e⟩
        obtain ⟨st', h3, h4⟩ := ih (n - 1) _ (by omega) hw' hrel'
        exact ⟨st', by simp only [scanBwd, h1, h2, if_false]; exact h3, h4⟩

/-- the backward scan over the characters after `p` succeeds and returns the closing brackets
    after `p` whose partner is at or before `p` -/
theorem scanBwd_spec (sst : List Char) (t : List (Option Nat)) (p : Nat) (hpl : p < sst.length)
    (hm : matchW (cword sst) = some t) :
    ∃ st, scanBwd (sst.drop (p + 1)).reverse (sst.length - 1) [] = some st ∧
      ∀ i, i ∈ st ↔ (p + 1 ≤ i ∧ (cword sst)[i]? = some .cl ∧ ∃ j, j < p + 1 ∧ P t i = some j) := by
  have hM := matchW_sound _ _ hm
  have h0 : BRel (cword sst) (P t) sst.length [] := by
    constructor
    · simp
    · intro i
      constructor
      · intro h; simp at h
      · rintro ⟨a, b, _⟩
        have := u_lt _ _ _ b
        rw [cword_length] at this; omega
  have hw : ∀ k c, ((sst.drop (p + 1)).reverse)[k]? = some c →
      (cword sst)[sst.length - 1 - k]? = some (tsym c) := by
    intro k c h
    have hk : k < sst.length - (p + 1) := by
      have := u_lt _ _ _ h; simpa using this
    rw [List.getElem?_reverse (by simpa using hk), List.getElem?_drop] at h
    simp only [List.length_drop] at h
    have e : p + 1 + (sst.length - (p + 1) - 1 - k) = sst.length - 1 - k := by omega
    rw [e] at h
    rw [cword_get, h]; rfl
  obtain ⟨st, h1, h2⟩ := brel_run _ _ hM _ sst.length [] (by simp) hw h0
  refine ⟨st, h1, ?_⟩
  have e : sst.length - ((sst.drop (p + 1)).reverse).length = p + 1 := by simp; omega
  rw [e] at h2
  exact h2.mem

/-- the brackets that the rotation re-orients -/
def Out1 (w : List Sym) (M : Nat → Option Nat) (p i : Nat) : Prop :=
  i < p ∧ w[i]? = some .op ∧ ∃ j, p ≤ j ∧ M i = some j
def Out2 (w : List Sym) (M : Nat → Option Nat) (p i : Nat) : Prop :=
  p + 1 ≤ i ∧ w[i]? = some .cl ∧ ∃ j, j < p + 1 ∧ M i = some j

/-- `rotateOnce` on a balanced structure: success, and the intermediate list `n2`
    (re-oriented brackets, not yet rotated) described position by position -/
theorem rotateOnce_spec (seq : List String) (sst : List Char) (p : Nat) (t : List (Option Nat))
    (hp : seq.idxOf? "+" = some p) (hpl : p < sst.length) (hm : matchW (cword sst) = some t) :
    ∃ n2 : List Char, n2.length = sst.length ∧
      rotateOnce seq sst =
        .ok (seq.drop (p + 1) ++ ["+"] ++ seq.take p, n2.drop (p + 1) ++ ['+'] ++ n2.take p) ∧
      (∀ i, Out1 (cword sst) (P t) p i → n2[i]? = some ')') ∧
      (∀ i, Out2 (cword sst) (P t) p i → n2[i]? = some '(') ∧
      (∀ i, ¬ Out1 (cword sst) (P t) p i → ¬ Out2 (cword sst) (P t) p i → n2[i]? = sst[i]?) := by
  obtain ⟨st1, hf, hst1⟩ := scanFwd_spec sst t p (by omega) hm
  obtain ⟨st2, hb, hst2⟩ := scanBwd_spec sst t p hpl hm
  have hdrop : (setAll sst st1 ')').drop (p + 1) = sst.drop (p + 1) := by
    apply setAll_drop
    intro a ha; have := (hst1 a).mp ha; omega
  refine ⟨setAll (setAll sst st1 ')') st2 '(', ?_, ?_, ?_, ?_, ?_⟩
  · simp [setAll_length]
  · unfold rotateOnce
    simp only [hp, hf, hdrop, setAll_length, hb]
  · intro i hi
    have h1 : i ∈ st1 := (hst1 i).mpr hi
    have h2 : i ∉ st2 := by
      intro h; have := (hst2 i).mp h; have := hi.1; omega
    rw [setAll_get, if_neg h2, setAll_get, if_pos h1]
    have : i < sst.length := by have := hi.1; omega
    simp [List.getElem?_eq_getElem this]
  · intro i hi
    have h2 : i ∈ st2 := (hst2 i).mpr hi
    rw [setAll_get, if_pos h2, setAll_get]
    have : i < sst.length := by
      have := u_lt _ _ _ hi.2.1; rwa [cword_length] at this
    split <;> simp [List.getElem?_eq_getElem this]
  · intro i h1 h2
    have h1' : i ∉ st1 := fun h => h1 ((hst1 i).mp h)
    have h2' : i ∉ st2 := fun h => h2 ((hst2 i).mp h)
    rw [setAll_get, if_neg h2', setAll_get, if_neg h1']

end Dsd.Rot
