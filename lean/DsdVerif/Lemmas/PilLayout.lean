/-
The line-level layout of PIL documents (C13): statements terminated by "\n" or "\r\n", followed on the same line by a
comment, separated by blank / whitespace-only / comment-only lines, with such lines before the first and after the
last statement, and an unterminated last line.

pyparsing's default whitespace (blank, tab, CR) is skipped before every element, and `document.ignore(
pythonStyleComment)` is modelled by `skipIgn`: whitespace, at most ONE comment up to the end of the line, whitespace.
Hence a `LineEnd` matches at `ws ++ '#' :: comment ++ '\n' :: r` and consumes the whole line; successive comment lines
are consumed by successive `LineEnd` matches of the `OneOrMore(LineEnd)` that ends every statement.
-/
import DsdVerif.Lemmas.PilDoc

namespace Dsd.Pil
open Dsd.PP Dsd.Gen

/-! ### lines without a statement -/

/-- whitespace inside a line: blanks and carriage returns (tabs are expanded by `parseString` and are excluded) -/
def WsOK (ws : List Char) : Prop := ∀ c ∈ ws, c = ' ' ∨ c = '\r'

/-- the text of a comment after `#`: it runs to the end of the line (a CR before the line feed is part of it) -/
def CmOK (cm : List Char) : Prop := '\n' ∉ cm ∧ '\t' ∉ cm

/-- a line (or the rest of a line) without a statement: whitespace, optionally a comment -/
structure BLine where
  ws : List Char
  cm : Option (List Char)

def BLine.body (b : BLine) : List Char :=
  b.ws ++ (match b.cm with | none => [] | some c => '#' :: c)

/-- … with its line feed -/
def BLine.text (b : BLine) : List Char := b.body ++ ['\n']

structure BLine.OK (b : BLine) : Prop where
  ws : WsOK b.ws
  cm : ∀ c, b.cm = some c → CmOK c

theorem skipWs_ws (ws r : List Char) (h : WsOK ws) : skipWs (ws ++ r) = skipWs r := by
  induction ws with
  | nil => rfl
  | cons c ws ih =>
    have hc : isWs c = true := by
      rcases h c (by simp) with rfl | rfl <;> decide
    have := ih (fun x hx => h x (List.mem_cons_of_mem _ hx))
    simp only [skipWs, List.cons_append, List.dropWhile_cons, hc, if_true] at this ⊢
    exact this

theorem dropWhile_to_nl (cm r : List Char) (h : '\n' ∉ cm) :
    (cm ++ '\n' :: r).dropWhile (· != '\n') = '\n' :: r := by
  induction cm with
  | nil => simp
  | cons c cm ih =>
    simp only [List.mem_cons, not_or] at h
    have : (c != '\n') = true := by simp; exact fun e => h.1 e.symm
    rw [List.cons_append, List.dropWhile_cons, this]
    exact ih h.2

/-- skipping reaches the line feed of a statement-free line -/
theorem skipIgn_bline (b : BLine) (hb : b.OK) (r : List Char) : skipIgn (b.body ++ '\n' :: r) = '\n' :: r := by
  obtain ⟨ws, cm⟩ := b
  cases cm with
  | none =>
    apply skipIgn_of_skipWs _ '\n' r _ (by decide)
    simp only [BLine.body, List.append_nil]
    rw [skipWs_ws ws _ hb.ws]; exact skipWs_cons '\n' r (by decide)
  | some c =>
    have hc := hb.cm c rfl
    have e : skipWs (ws ++ '#' :: c ++ '\n' :: r) = '#' :: (c ++ '\n' :: r) := by
      rw [List.append_assoc, skipWs_ws ws _ hb.ws]; exact skipWs_cons '#' _ (by decide)
    unfold skipIgn
    simp only [BLine.body, e]
    have : ('#' :: (c ++ '\n' :: r)).dropWhile (· != '\n') = '\n' :: r := by
      rw [List.dropWhile_cons]; simp only [show ('#' != '\n') = true by decide, if_true]
      exact dropWhile_to_nl c r hc.1
    rw [this]; exact skipWs_cons '\n' r (by decide)

/-- … or the end of the text -/
theorem skipIgn_body (b : BLine) (hb : b.OK) : skipIgn b.body = [] := by
  obtain ⟨ws, cm⟩ := b
  cases cm with
  | none =>
    have e : skipWs (ws ++ []) = [] := by rw [skipWs_ws ws _ hb.ws]; rfl
    unfold skipIgn
    simp only [BLine.body, e]
  | some c =>
    have hc := hb.cm c rfl
    have e : skipWs (ws ++ '#' :: c) = '#' :: c := by
      rw [skipWs_ws ws _ hb.ws]; exact skipWs_cons '#' _ (by decide)
    unfold skipIgn
    simp only [BLine.body, e]
    have : ('#' :: c).dropWhile (· != '\n') = [] :=
      dropWhile_no_nl _ (by simp only [List.mem_cons, not_or]; exact ⟨by decide, hc.1⟩)
    rw [this]; rfl

theorem BLine.text_append (b : BLine) (r : List Char) : b.text ++ r = b.body ++ '\n' :: r := by
  simp [BLine.text]

theorem notab_bline (b : BLine) (hb : b.OK) : '\t' ∉ b.body := by
  obtain ⟨ws, cm⟩ := b
  have h1 : '\t' ∉ ws := fun h => by rcases hb.ws _ h with e | e <;> revert e <;> decide
  cases cm with
  | none => simpa [BLine.body] using h1
  | some c =>
    have hc := (hb.cm c rfl).2
    simp only [BLine.body, List.mem_append, List.mem_cons, not_or]
    exact ⟨h1, by decide, hc⟩

theorem body_hd (b : BLine) (hb : b.OK) (r : List Char) :
    OutHd (fun x => x = ' ' ∨ x = '\n' ∨ x = '\r' ∨ x = '#') (b.body ++ '\n' :: r) := by
  obtain ⟨ws, cm⟩ := b
  cases ws with
  | nil =>
    cases cm with
    | none => exact OutHd_cons _ _ _ (Or.inr (Or.inl rfl))
    | some c => exact OutHd_cons _ _ _ (Or.inr (Or.inr (Or.inr rfl)))
  | cons w ws =>
    refine OutHd_cons _ _ _ ?_
    rcases hb.ws w (by simp) with rfl | rfl
    · exact Or.inl rfl
    · exact Or.inr (Or.inr (Or.inl rfl))

/-! ### tails that do not begin with a blank -/

/-- a `Tail` whose first character is not a blank: a carriage return, `#`, a line feed, or the end of the text.
    (Blanks after a statement belong to the statement text; the strand-notation complexes do not allow them, their
    `dotbracket` word would swallow the blanks.) -/
structure NbTail (X : List Char) : Prop where
  tail : Tail X
  nb : OutHd (fun x => x ≠ ' ') X

theorem LineEnd.nbTail {X : List Char} (h : LineEnd X) : NbTail X := by
  refine ⟨h.tail, ?_⟩
  rcases h with rfl | ⟨r, rfl⟩
  · exact OutHd_nil _
  · exact OutHd_cons _ _ _ (by decide)

theorem NbTail.outDb {X : List Char} (h : NbTail X) : OutHd (fun x => x ∉ dbChars) X := by
  intro x hx
  have h1 := h.tail.hd x hx
  have h2 := h.nb x hx
  rcases h1 with rfl | rfl | rfl | rfl
  · exact absurd rfl h2
  · decide
  · decide
  · decide

/-- `s` is the text of one statement in ANY line-level layout: `pil_stmt` parses it to `[t]` in front of every
    continuation that starts with a carriage return, a comment, a line feed, or is empty (and, after whitespace and
    a comment, is empty or a line feed) -/
structure StmtTextL (s : List Char) (t : Tree) : Prop where
  head : ∃ c, s.head? = some c ∧ StartCh c
  notab : '\t' ∉ s
  parses : ∃ N, N ≤ 4 * s.length + 100 ∧ ∀ (X : List Char) (NE : Nat) (p : Pos), NbTail X →
    Ok pil_env NE {} eolG { rest := X, past := false } (p, []) →
    Ok pil_env (max N (NE + 30)) {} pil_stmt { rest := s ++ X, past := false } (p, [t])

theorem StmtTextL.toStmtText {s : List Char} {t : Tree} (h : StmtTextL s t) : StmtText s t := by
  obtain ⟨N, hN, hok⟩ := h.parses
  exact ⟨h.head, h.notab, N, hN, fun X NE p hX heol => hok X NE p hX.nbTail heol⟩

theorem StmtTextL.cons {s : List Char} {t : Tree} (h : StmtTextL s t) : ∃ c r, s = c :: r ∧ StartCh c :=
  h.toStmtText.cons

theorem StmtTextL.of (s : List Char) (t : Tree) (N : Nat) (c : Char) (f : List Char → List Char)
    (hhead : s.head? = some c) (hc : StartCh c) (hnt : '\t' ∉ s) (hN : N ≤ 4 * s.length + 100)
    (hf : ∀ X, s ++ X = f X)
    (hok : ∀ (X : List Char) (NE : Nat) (p : Pos), NbTail X →
      Ok pil_env NE {} eolG { rest := X, past := false } (p, []) →
      Ok pil_env (max N (NE + 30)) {} pil_stmt { rest := f X, past := false } (p, [t])) : StmtTextL s t :=
  ⟨⟨c, hhead, hc⟩, hnt, N, hN, fun X NE p hX heol => by rw [hf X]; exact hok X NE p hX heol⟩

/-! ### the line ends of a statement, in any layout -/

/-- the continuation after the statement-free lines: the end of the text (possibly an unterminated line of
    whitespace / a comment), or the next statement -/
inductive ContL : List Char → Pos → Prop
  | eof (R : List Char) : skipIgn R = [] → ContL R Pend
  | next (c : Char) (r : List Char) : StartCh c → ContL (c :: r) { rest := c :: r, past := false }

def blines (bs : List BLine) : List Char := bs.flatMap BLine.text

theorem blines_cons (b : BLine) (bs : List BLine) (R : List Char) :
    blines (b :: bs) ++ R = b.body ++ '\n' :: (blines bs ++ R) := by
  simp [blines, BLine.text, List.append_assoc]

theorem blines_length (bs : List BLine) : bs.length ≤ (blines bs).length := by
  induction bs with
  | nil => simp [blines]
  | cons b bs ih =>
    have : blines (b :: bs) = b.text ++ blines bs := by simp [blines]
    rw [this]
    simp only [BLine.text, List.length_append, List.length_cons, List.length_nil]
    omega

theorem Ok_lineEnd_bline (env : Env) (b : BLine) (hb : b.OK) (r : List Char) :
    Ok env 2 {} (.suppress .lineEnd) { rest := b.body ++ '\n' :: r, past := false }
      ({ rest := r, past := false }, []) :=
  Ok_suppress (Ok_lineEnd_nl env {} _ r (by rw [pre_skip]; exact skipIgn_bline b hb r))

theorem OkMany_blines (env : Env) (bs : List BLine) (hbs : ∀ b ∈ bs, b.OK) (R : List Char) (p : Pos)
    (hc : ContL R p) :
    OkMany env (bs.length + 4) {} (.suppress .lineEnd) { rest := blines bs ++ R, past := false } (p, []) := by
  induction bs with
  | nil =>
    cases hc with
    | eof R hR =>
      have h2 : Ok env 2 {} (.suppress .lineEnd) { rest := R, past := false } (Pend, []) :=
        Ok_suppress (Ok_lineEnd_eof env {} _ (by rw [pre_skip]; exact hR) rfl)
      have h3 : No env 2 {} (.suppress .lineEnd) Pend := No_suppress (No_lineEnd_past env {} _ rfl rfl)
      have := OkMany_step h2 (by simp) (OkMany_stop h3)
      intro reps fuel hr hf
      simpa [blines] using this reps fuel (by omega) (by omega)
    | next c r hc' =>
      have := OkMany_stop (No_suppress (No_lineEnd_cons env {} { rest := c :: r, past := false } c r
        (by rw [pre_skip]; exact skipIgn_cons c r hc'.1 hc'.2.1) hc'.2.2))
      intro reps fuel hr hf
      simpa [blines] using this reps fuel (by omega) (by omega)
  | cons b bs ih =>
    have ih' := ih (fun x hx => hbs x (List.mem_cons_of_mem _ hx))
    have h1 := Ok_lineEnd_bline env b (hbs b (by simp)) (blines bs ++ R)
    have hne : ({ rest := blines bs ++ R, past := false } : Pos) ≠
        { rest := b.body ++ '\n' :: (blines bs ++ R), past := false } :=
      pos_ne_of_length _ _ _ _ (by simp; omega)
    have := OkMany_step h1 hne ih'
    rw [blines_cons]
    intro reps fuel hr hf
    rw [List.length_cons] at hr hf
    simpa using this reps fuel (by omega) (by omega)

/-- what separates a statement from the next one: the rest of its line (`first`: whitespace not starting with a
    blank, optionally a comment, the line feed), then any number of statement-free lines -/
structure LineSep where
  first : BLine
  more : List BLine

def LineSep.text (sp : LineSep) : List Char := sp.first.text ++ blines sp.more

structure LineSep.OK (sp : LineSep) : Prop where
  first : sp.first.OK
  nb : sp.first.ws.head? ≠ some ' '
  more : ∀ b ∈ sp.more, b.OK

theorem LineSep.text_append (sp : LineSep) (R : List Char) :
    sp.text ++ R = sp.first.body ++ '\n' :: (blines sp.more ++ R) := by
  simp [LineSep.text, BLine.text, List.append_assoc]

theorem LineSep.length_le (sp : LineSep) : sp.more.length + 1 ≤ sp.text.length := by
  have := blines_length sp.more
  simp only [LineSep.text, BLine.text, List.length_append, List.length_cons, List.length_nil]
  omega

theorem LineSep.nbTail (sp : LineSep) (h : sp.OK) (R : List Char) : NbTail (sp.text ++ R) := by
  rw [sp.text_append]
  refine ⟨⟨body_hd sp.first h.first _, Or.inr ⟨_, skipIgn_bline sp.first h.first _⟩⟩, ?_⟩
  obtain ⟨⟨ws, cm⟩, more⟩ := sp
  cases ws with
  | nil =>
    cases cm with
    | none => exact OutHd_cons _ _ _ (by decide)
    | some c => exact OutHd_cons _ _ _ (by decide)
  | cons w ws =>
    refine OutHd_cons _ _ _ ?_
    intro e
    exact h.nb (by simp [e])

theorem Ok_eol_sep (env : Env) (sp : LineSep) (h : sp.OK) (R : List Char) (p : Pos) (hc : ContL R p) :
    Ok env (sp.more.length + 6) {} eolG { rest := sp.text ++ R, past := false } (p, []) := by
  rw [sp.text_append]
  have := Ok_many1 (Ok_lineEnd_bline env sp.first h.first (blines sp.more ++ R))
    (OkMany_blines env sp.more h.more R p hc)
  simp only [List.append_nil] at this
  exact this.mono (by omega)

theorem notab_sep (sp : LineSep) (h : sp.OK) : '\t' ∉ sp.text := by
  have h1 := notab_bline sp.first h.first
  have h2 : '\t' ∉ blines sp.more := by
    intro hm
    simp only [blines, List.mem_flatMap] at hm
    obtain ⟨b, hb, hm⟩ := hm
    simp only [BLine.text, List.mem_append, List.mem_cons, List.not_mem_nil, or_false] at hm
    rcases hm with hm | hm
    · exact notab_bline b (h.more b hb) hm
    · revert hm; decide
  simp only [LineSep.text, BLine.text, List.mem_append, List.mem_cons, List.not_mem_nil, or_false, not_or]
  exact ⟨⟨h1, by decide⟩, h2⟩

/-! ### one statement inside a document -/

theorem stmt_termL (s : List Char) (t : Tree) (h : StmtTextL s t) (sp : LineSep) (hsp : sp.OK) (R : List Char)
    (p : Pos) (hc : ContL R p) :
    Ok pil_env (4 * s.length + sp.more.length + 100) {} pil_stmt
      { rest := s ++ (sp.text ++ R), past := false } (p, [t]) := by
  obtain ⟨N, hN, hok⟩ := h.parses
  exact (hok _ _ p (sp.nbTail hsp R) (Ok_eol_sep pil_env sp hsp R p hc)).mono (by omega)

/-- the last statement of a document when its line is not terminated: followed by whitespace / a comment only -/
theorem stmt_openL (s : List Char) (t : Tree) (h : StmtTextL s t) (fin : List Char) (hfin : NbTail fin)
    (hsk : skipIgn fin = []) :
    Ok pil_env (4 * s.length + 100) {} pil_stmt { rest := s ++ fin, past := false } (Pend, [t]) := by
  obtain ⟨N, hN, hok⟩ := h.parses
  exact (hok fin 5 Pend hfin (Ok_eol_end pil_env fin hsk)).mono (by omega)

/-! ### any number of statements -/

/-- a statement text, its tree, and what follows it up to the next statement -/
abbrev LItem := List Char × Tree × LineSep

def litemText (x : LItem) : List Char := x.1 ++ x.2.2.text
def litemsText (l : List LItem) : List Char := l.flatMap litemText

/-- an item of a document: a statement in any layout, with a legal separator -/
def LItemOK (x : LItem) : Prop := StmtTextL x.1 x.2.1 ∧ x.2.2.OK

theorem litemsText_cons (x : LItem) (xs : List LItem) (T : List Char) :
    litemsText (x :: xs) ++ T = x.1 ++ (x.2.2.text ++ (litemsText xs ++ T)) := by
  simp [litemsText, litemText, List.append_assoc]

theorem litemsText_length_cons (x : LItem) (xs : List LItem) :
    (litemsText (x :: xs)).length = x.1.length + x.2.2.text.length + (litemsText xs).length := by
  simp [litemsText, litemText]; omega

def posOfL (l : List LItem) (T : List Char) (p : Pos) : Pos :=
  match l with
  | [] => p
  | _ :: _ => { rest := litemsText l ++ T, past := false }

theorem cont_itemsL (l : List LItem) (hl : ∀ x ∈ l, LItemOK x) (T : List Char) (p : Pos) (hc : ContL T p) :
    ContL (litemsText l ++ T) (posOfL l T p) := by
  cases l with
  | nil => simpa [litemsText, posOfL] using hc
  | cons x xs =>
    obtain ⟨c, r, hx, hs⟩ := (hl x List.mem_cons_self).1.cons
    simp only [posOfL]
    rw [litemsText_cons, hx]
    exact ContL.next c _ hs

theorem posOfL_ne (x : LItem) (xs : List LItem) (hl : ∀ y ∈ xs, LItemOK y) (T : List Char) (p : Pos)
    (hc : ContL T p) : posOfL xs T p ≠ { rest := litemsText (x :: xs) ++ T, past := false } := by
  have hcont := cont_itemsL xs hl T p hc
  generalize posOfL xs T p = q at hcont
  generalize hR : litemsText xs ++ T = R at hcont
  intro h
  cases hcont with
  | eof _ _ => simp at h
  | next c r hc' =>
    have := congrArg (fun p : Pos => p.rest.length) h
    have hl1 := x.2.2.length_le
    simp only [litemsText_cons, hR, List.length_append, List.length_cons] at this
    omega

/-- **the statements of a document are parsed one after the other**, whatever the line-level layout -/
theorem chainL (l : List LItem) (hl : ∀ x ∈ l, LItemOK x) (T : List Char) (p : Pos) (hc : ContL T p)
    (tt : List Tree) (bt : Nat) (hbt : 100 ≤ bt) (htail : OkMany pil_env bt {} pil_stmt p (Pend, tt)) :
    OkMany pil_env (4 * (litemsText l).length + bt) {} pil_stmt (posOfL l T p) (Pend, l.map (·.2.1) ++ tt) := by
  induction l with
  | nil =>
    intro reps fuel hr hf
    simpa [posOfL] using htail reps fuel (by omega) (by omega)
  | cons x xs ih =>
    have hxs : ∀ y ∈ xs, LItemOK y := fun y hy => hl y (List.mem_cons_of_mem _ hy)
    obtain ⟨hx1, hx2⟩ := hl x List.mem_cons_self
    have h1 := stmt_termL x.1 x.2.1 hx1 x.2.2 hx2 (litemsText xs ++ T) (posOfL xs T p)
      (cont_itemsL xs hxs T p hc)
    rw [← litemsText_cons] at h1
    have hne := posOfL_ne x xs hxs T p hc
    have := OkMany_step h1 hne (ih hxs)
    have hlen := litemsText_length_cons x xs
    have hl1 := x.2.2.length_le
    intro reps fuel hr hf
    simpa [posOfL] using this reps fuel (by omega) (by omega)

/-! ### documents -/

/-- the document frame: statement-free lines before the first statement -/
theorem doc_frameL (pre : List BLine) (hpre : ∀ b ∈ pre, b.OK) (c : Char) (r : List Char) (hc : StartCh c)
    (tt : List Tree) (N : Nat)
    (hm : Ok pil_env N {} (.many1 pil_stmt) { rest := c :: r, past := false } (Pend, tt)) :
    Ok pil_env (max N (pre.length + 5) + 6) {} pil_grammar { rest := blines pre ++ c :: r, past := false }
      (Pend, tt) := by
  unfold pil_grammar pil_document
  have h0 := Ok_stringStart pil_env {} { rest := blines pre ++ c :: r, past := false }
  have h1 := Ok_many (OkMany_blines pil_env pre hpre (c :: r) _ (ContL.next c r hc))
  have h3 : Ok pil_env 1 {} .stringEnd Pend (Pend, []) := Ok_stringEnd pil_env {} _ rfl
  have := Ok_seq (OkSeq_cons h0 (OkSeq_cons h1 (OkSeq_cons hm (OkSeq_cons h3 (OkSeq_nil pil_env _ _)))))
  simp only [List.nil_append, List.append_nil] at this
  exact this.mono (by omega)

theorem notab_litems (l : List LItem) (hl : ∀ x ∈ l, LItemOK x) : '\t' ∉ litemsText l := by
  induction l with
  | nil => simp [litemsText]
  | cons x xs ih =>
    have h1 := (hl x List.mem_cons_self).1.notab
    have h1' := notab_sep x.2.2 (hl x List.mem_cons_self).2
    have h2 := ih (fun y hy => hl y (List.mem_cons_of_mem _ hy))
    simp only [litemsText, List.flatMap_cons] at h2 ⊢
    simp [litemText, h1, h1', h2]

theorem notab_blines (bs : List BLine) (h : ∀ b ∈ bs, b.OK) : '\t' ∉ blines bs := by
  intro hm
  simp only [blines, List.mem_flatMap] at hm
  obtain ⟨b, hb, hm⟩ := hm
  simp only [BLine.text, List.mem_append, List.mem_cons, List.not_mem_nil, or_false] at hm
  rcases hm with hm | hm
  · exact notab_bline b (h b hb) hm
  · revert hm; decide

/-- statement-free lines `pre`, the statements `x :: xs` with their separators, and an unterminated last line `fin`
    of whitespace / a comment -/
theorem document_okL (pre : List BLine) (hpre : ∀ b ∈ pre, b.OK) (x : LItem) (xs : List LItem)
    (hl : ∀ y ∈ x :: xs, LItemOK y) (fin : List Char) (hfin : skipIgn fin = []) :
    Ok pil_env (4 * (litemsText (x :: xs)).length + pre.length + 120) {} pil_grammar
      { rest := blines pre ++ (litemsText (x :: xs) ++ fin), past := false }
      (Pend, (x :: xs).map (·.2.1)) := by
  have hxs : ∀ y ∈ xs, LItemOK y := fun y hy => hl y (List.mem_cons_of_mem _ hy)
  obtain ⟨hx1, hx2⟩ := hl x List.mem_cons_self
  obtain ⟨c, r, hcr, hc⟩ := hx1.cons
  have hce := ContL.eof fin hfin
  have h1 := stmt_termL x.1 x.2.1 hx1 x.2.2 hx2 (litemsText xs ++ fin) (posOfL xs fin Pend)
    (cont_itemsL xs hxs fin Pend hce)
  rw [← litemsText_cons] at h1
  have h2 := chainL xs hxs fin Pend hce [] 100 (Nat.le_refl _)
    ((OkMany_stop (No_stmt_end pil_env)).mono (by decide))
  have hm := Ok_many1 h1 h2
  simp only [List.singleton_append, List.append_nil] at hm
  have htext : litemsText (x :: xs) ++ fin = c :: (r ++ (x.2.2.text ++ (litemsText xs ++ fin))) := by
    rw [litemsText_cons, hcr]; rfl
  have hlen := litemsText_length_cons x xs
  have hl1 := x.2.2.length_le
  rw [htext] at hm
  have hfr := doc_frameL pre hpre c _ hc _ _ hm
  rw [← htext] at hfr
  exact hfr.mono (by rw [hlen]; omega)

/-- … and a last statement whose line is not terminated by a line feed: `fin` is whitespace / a comment, not
    starting with a blank -/
theorem document_open_okL (pre : List BLine) (hpre : ∀ b ∈ pre, b.OK) (l : List LItem) (hl : ∀ y ∈ l, LItemOK y)
    (s : List Char) (t : Tree) (hs : StmtTextL s t) (fin : List Char) (hfin : NbTail fin)
    (hsk : skipIgn fin = []) :
    Ok pil_env (4 * (litemsText l ++ s).length + pre.length + 120) {} pil_grammar
      { rest := blines pre ++ (litemsText l ++ (s ++ fin)), past := false }
      (Pend, l.map (·.2.1) ++ [t]) := by
  obtain ⟨cs, rs, hcs, hsc⟩ := hs.cons
  have hstop := OkMany_stop (No_stmt_end pil_env)
  have hopen := stmt_openL s t hs fin hfin hsk
  have hlast : OkMany pil_env (4 * s.length + 101) {} pil_stmt { rest := s ++ fin, past := false } (Pend, [t]) := by
    have := OkMany_step hopen (by simp) hstop
    simp only [List.append_nil] at this
    exact this.mono (by omega)
  cases l with
  | nil =>
    have hm := Ok_many1 hopen hstop
    simp only [litemsText, List.flatMap_nil, List.nil_append, List.map_nil, List.append_nil] at hm ⊢
    rw [hcs] at hm ⊢
    exact (doc_frameL pre hpre cs _ hsc _ _ hm).mono (by simp only [List.length_cons]; omega)
  | cons x xs =>
    have hxs : ∀ y ∈ xs, LItemOK y := fun y hy => hl y (List.mem_cons_of_mem _ hy)
    obtain ⟨hx1, hx2⟩ := hl x List.mem_cons_self
    obtain ⟨c, r, hcr, hc⟩ := hx1.cons
    have hcont : ContL (s ++ fin) { rest := s ++ fin, past := false } := by
      rw [hcs]; exact ContL.next cs _ hsc
    have h1 := stmt_termL x.1 x.2.1 hx1 x.2.2 hx2 (litemsText xs ++ (s ++ fin)) (posOfL xs (s ++ fin) _)
      (cont_itemsL xs hxs (s ++ fin) _ hcont)
    rw [← litemsText_cons] at h1
    have h2 := chainL xs hxs (s ++ fin) _ hcont [t] _ (by omega) hlast
    have hm := Ok_many1 h1 h2
    simp only [List.singleton_append] at hm
    have htext : litemsText (x :: xs) ++ (s ++ fin) =
        c :: (r ++ (x.2.2.text ++ (litemsText xs ++ (s ++ fin)))) := by
      rw [litemsText_cons, hcr]; rfl
    have hlen := litemsText_length_cons x xs
    have hl1 := x.2.2.length_le
    rw [htext] at hm
    have hfr := doc_frameL pre hpre c _ hc _ _ hm
    rw [← htext] at hfr
    exact hfr.mono (by simp only [List.length_append, hlen]; omega)

/-- **documents in any line-level layout parse as the concatenation of their statements** -/
theorem document_layout_parse (pre : List BLine) (hpre : ∀ b ∈ pre, b.OK) (stmts : List LItem) (hne : stmts ≠ [])
    (h : ∀ x ∈ stmts, LItemOK x) (fin : List Char) (hfin : skipIgn fin = []) (hft : '\t' ∉ fin) :
    parseDoc pil_env pil_grammar (String.ofList (blines pre ++ (litemsText stmts ++ fin))) =
      some (stmts.map (·.2.1)) := by
  cases stmts with
  | nil => exact absurd rfl hne
  | cons x xs =>
    have hok := document_okL pre hpre x xs h fin hfin
    have hnt : '\t' ∉ blines pre ++ (litemsText (x :: xs) ++ fin) := by
      have h1 := notab_litems (x :: xs) h
      have h2 := notab_blines pre hpre
      simp [h1, h2, hft]
    have hl := blines_length pre
    exact parseDoc_ok' pil_env pil_grammar _ _ _ _ hnt hok
      (by simp only [List.length_append]; omega)

/-- the same when the last statement's line is not terminated by a line feed -/
theorem document_layout_parse_open (pre : List BLine) (hpre : ∀ b ∈ pre, b.OK) (stmts : List LItem)
    (h : ∀ x ∈ stmts, LItemOK x) (s : List Char) (t : Tree) (hs : StmtTextL s t) (fin : List Char)
    (hfin : NbTail fin) (hsk : skipIgn fin = []) (hft : '\t' ∉ fin) :
    parseDoc pil_env pil_grammar (String.ofList (blines pre ++ (litemsText stmts ++ (s ++ fin)))) =
      some (stmts.map (·.2.1) ++ [t]) := by
  have hok := document_open_okL pre hpre stmts h s t hs fin hfin hsk
  have hnt : '\t' ∉ blines pre ++ (litemsText stmts ++ (s ++ fin)) := by
    have h1 := notab_litems stmts h
    have h2 := notab_blines pre hpre
    have h3 := hs.notab
    simp [h1, h2, h3, hft]
  have hl := blines_length pre
  exact parseDoc_ok' pil_env pil_grammar _ _ _ _ hnt hok
    (by simp only [List.length_append]; omega)

/-- an unterminated last line of whitespace and possibly a comment is a legal end of the text -/
theorem fin_of_bline (b : BLine) (hb : b.OK) : skipIgn b.body = [] ∧ '\t' ∉ b.body :=
  ⟨skipIgn_body b hb, notab_bline b hb⟩

theorem nbTail_body (b : BLine) (hb : b.OK) (hnb : b.ws.head? ≠ some ' ') : NbTail b.body := by
  have hsk := skipIgn_body b hb
  obtain ⟨ws, cm⟩ := b
  cases ws with
  | nil =>
    cases cm with
    | none => exact ⟨⟨OutHd_nil _, Or.inl hsk⟩, OutHd_nil _⟩
    | some c =>
      exact ⟨⟨OutHd_cons _ _ _ (Or.inr (Or.inr (Or.inr rfl))), Or.inl hsk⟩, OutHd_cons _ _ _ (by decide)⟩
  | cons w ws =>
    refine ⟨⟨OutHd_cons _ _ _ ?_, Or.inl hsk⟩, OutHd_cons _ _ _ ?_⟩
    · rcases hb.ws w (by simp) with rfl | rfl
      · exact Or.inl rfl
      · exact Or.inr (Or.inr (Or.inl rfl))
    · intro e
      exact hnb (by simp [e])

end Dsd.Pil
