/-
C20, task 4: the views of a legacy `DSD_Complex` instance computed from its representation.
-/
import DsdVerif.Model.LegacyFull
import DsdVerif.Lemmas.Views

namespace Dsd.LgL
open Dsd Dsd.Lg

/-! ### the only exception of the utility functions is SecondaryStructureError -/

theorem makePairTable_err (sst : List Char) (e : Err) (h : makePairTable sst = .error e) : e = .secondaryStructure := by
  unfold makePairTable at h
  simp only at h
  split at h
  · cases h; rfl
  · split at h
    · cases h; rfl
    · cases h

theorem loopScan_err (c : Bool) : ∀ (strands : List (List (Option Nat))) (off : Nat) (s : LoopSt) (ext : List Nat)
    (my : List (Nat × Nat)) (e : Err), loopScan c strands off s ext my = .error e → e = .secondaryStructure := by
  intro strands
  induction strands with
  | nil => intro off s ext my e h; simp [loopScan] at h
  | cons strand rest ih =>
    intro off s ext my e h
    unfold loopScan at h
    simp only at h
    split at h
    · split at h
      · exact ih _ _ _ _ _ h
      · cases h; rfl
    · exact ih _ _ _ _ _ h

theorem makeLoopIndex_err (pt : PairTable) (c : Bool) (e : Err) (h : makeLoopIndex pt c = .error e) :
    e = .secondaryStructure := by
  unfold makeLoopIndex at h
  simp only at h
  split at h
  · rename_i e' he
    cases h
    exact loopScan_err c _ _ _ _ _ _ he
  · cases h

/-- translation of the exception classes for the views -/
def errOf : LErr → Err
  | .secondaryStructure => .secondaryStructure
  | .fault k => .fault k
  | .objects _ => .objectInit
  | .duplication _ _ => .singleton none
  | .notImplemented => .notImplemented

theorem pairTableView_eq (o : LObj) :
    o.pairTableView = match makePairTable o.sst with | .ok pt => .ok pt | .error _ => .error .secondaryStructure := by
  unfold LObj.pairTableView
  cases h : makePairTable o.sst with
  | ok pt => rfl
  | error e => rw [makePairTable_err _ _ h]

theorem fillPairTable_none (o : LObj) (h : o.pairTable = none) :
    o.fillPairTable = match makePairTable o.sst with
      | .ok pt => ({ o with pairTable := some pt }, .ok pt)
      | .error _ => (o, .error .secondaryStructure) := by
  unfold LObj.fillPairTable
  rw [h]
  simp only [truthy, Bool.false_eq_true, if_false]
  cases hm : makePairTable o.sst with
  | ok pt => rfl
  | error e => rw [makePairTable_err _ _ hm]

theorem runLoopIndex_eq (pt : PairTable) :
    LObj.runLoopIndex pt = match CplxObj.liOf pt with | .ok l => .ok l | .error _ => .error .secondaryStructure := by
  unfold LObj.runLoopIndex CplxObj.liOf
  cases hm : makeLoopIndex pt false with
  | ok lo => rfl
  | error e => rw [makeLoopIndex_err _ _ _ hm]

theorem liOf_err (pt : PairTable) (e : Err) (h : CplxObj.liOf pt = .error e) : e = .secondaryStructure := by
  unfold CplxObj.liOf at h
  cases hm : makeLoopIndex pt false with
  | ok lo => rw [hm] at h; cases h
  | error e' => rw [hm] at h; cases h; exact makeLoopIndex_err _ _ _ hm

/-! ### `kernel_string` -/

/-- the characters one position contributes -/
def tokC (p : String × Char) : List Char :=
  if p.2 = '+' then ['+'] else if p.2 = ')' then [')'] else if p.2 = '(' then p.1.toList ++ ['('] else p.1.toList

theorem kernelLoop_spec (seq : List String) (sst : List Char) : ∀ (k i : Nat) (knl : String),
    i + k ≤ seq.length → i + k ≤ sst.length →
    ∃ out, kernelLoop seq sst (List.range' i k) knl = .ok out ∧
      out.toList = knl.toList ++ ((((seq.drop i).take k).zip ((sst.drop i).take k)).map (fun p => tokC p ++ [' '])).flatten := by
  intro k
  induction k with
  | zero => intro i knl _ _; exact ⟨knl, rfl, by simp⟩
  | succ k ih =>
    intro i knl h1 h2
    have hi1 : i < seq.length := by omega
    have hi2 : i < sst.length := by omega
    have hg2 : sst[i]? = some sst[i] := List.getElem?_eq_getElem hi2
    have hg1 : seq[i]? = some seq[i] := List.getElem?_eq_getElem hi1
    have hs1 : (seq.drop i).take (k + 1) = seq[i] :: (seq.drop (i + 1)).take k := by
      rw [List.drop_eq_getElem_cons hi1, List.take_succ_cons]
    have hs2 : (sst.drop i).take (k + 1) = sst[i] :: (sst.drop (i + 1)).take k := by
      rw [List.drop_eq_getElem_cons hi2, List.take_succ_cons]
    rw [List.range'_succ, hs1, hs2]
    unfold kernelLoop
    simp only [hg2, hg1, Option.getD_some, List.zip_cons_cons, List.map_cons, List.flatten_cons]
    by_cases c1 : sst[i] = '+'
    · simp only [c1, if_true]
      obtain ⟨out, h3, h4⟩ := ih (i + 1) (knl ++ String.singleton '+' ++ " ") (by omega) (by omega)
      refine ⟨out, h3, ?_⟩
      rw [h4]
      simp [tokC, String.toList_append, List.append_assoc]
    · simp only [c1, if_false]
      by_cases c2 : sst[i] = ')'
      · simp only [c2, if_true]
        obtain ⟨out, h3, h4⟩ := ih (i + 1) (knl ++ String.singleton ')' ++ " ") (by omega) (by omega)
        refine ⟨out, h3, ?_⟩
        rw [h4]
        simp [tokC, String.toList_append, List.append_assoc]
      · simp only [c2, if_false]
        by_cases c3 : sst[i] = '('
        · simp only [c3, if_true]
          obtain ⟨out, h3, h4⟩ := ih (i + 1) (knl ++ seq[i] ++ String.singleton '(' ++ " ") (by omega) (by omega)
          refine ⟨out, h3, ?_⟩
          rw [h4]
          simp [tokC, String.toList_append, List.append_assoc]
        · simp only [c3, if_false]
          obtain ⟨out, h3, h4⟩ := ih (i + 1) (knl ++ seq[i] ++ " ") (by omega) (by omega)
          refine ⟨out, h3, ?_⟩
          rw [h4]
          simp [tokC, c1, c2, c3, String.toList_append, List.append_assoc]

theorem dropLast_flatten_sp : ∀ (ws : List (List Char)),
    ((ws.map (fun w => w ++ [' '])).flatten).dropLast = List.intercalate [' '] ws := by
  intro ws
  induction ws with
  | nil => rfl
  | cons w ws ih =>
    cases ws with
    | nil => simp [List.intercalate]
    | cons w2 ws2 =>
      have hne : (((w2 :: ws2).map (fun w => w ++ [' '])).flatten) ≠ [] := by simp
      rw [List.map_cons, List.flatten_cons, List.dropLast_append_of_ne_nil hne, ih]
      simp [List.intercalate, List.intersperse, List.append_assoc]

theorem kernelString_toList' (seq : List String) (sst : List Char) :
    (Dsd.kernelString seq sst).toList = List.intercalate [' '] ((seq.zip sst).map tokC) := by
  unfold Dsd.kernelString
  rw [String.toList_intercalate, List.map_map]
  congr 1
  apply List.map_congr_left
  intro p _
  simp only [Function.comp, tokC]
  split
  · rfl
  · split
    · rfl
    · split
      · simp
      · rfl

/-- **`kernel_string`** of the legacy instance is the current `kernel_string` whenever sequence and structure have the
    same length (what `__init__` guarantees) -/
theorem kernelString_eq (o : LObj) (h : o.seq.length = o.sst.length) :
    o.kernelString = .ok (Dsd.kernelString o.seq o.sst) := by
  unfold LObj.kernelString
  obtain ⟨out, h1, h2⟩ := kernelLoop_spec o.seq o.sst o.seq.length 0 "" (by omega) (by omega)
  rw [List.range_eq_range', h1]
  simp only
  congr 1
  apply String.toList_inj.mp
  rw [String.toList_ofList, h2, kernelString_toList']
  simp only [List.drop_zero, List.take_length, String.toList_empty, List.nil_append]
  have e : o.sst.take o.seq.length = o.sst := by rw [h]; exact List.take_length
  rw [e]
  have := dropLast_flatten_sp ((o.seq.zip o.sst).map tokC)
  rw [List.map_map] at this
  exact this

end Dsd.LgL
