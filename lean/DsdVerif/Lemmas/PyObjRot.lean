/-
`rotate()`, the `turns` setter and `rotate_pt()` of the translated `ComplexS` object (Gen/PyComplexS.lean) against the model
(Model/CplxObject.lean).

* `view_rotate'`, `view_rotate_of_strands`: `rotate()` of a coherent object is the model's `rotationsFrom` over the number of
  strands whenever there is at least one strand; with no strand (`makeStrandTableList "+" seq = []`, e.g. the empty sequence) the
  translation stops with the fault `translator:negative` (`range(turns - 1)` with `turns = 0`, `Py.sub`), the model answers `[]`.
  The unconditional statement is therefore false: `view_rotate_counterexample`, `view_rotate_false`.
* `pySetTurns_spec`: the translated `turns` setter is the model's setter.
* `exec_rotate_pt`: `rotate_pt()` is `rotate()` mapped through the two table constructors.
-/
import DsdVerif.Lemmas.PyObjDefs
import DsdVerif.Lemmas.RotateScan
import DsdVerif.Lemmas.ViewsRot

namespace Dsd.PyObj.Rot
open Dsd Gen

/-! ### running the monad -/

section Exec
variable {σ α β : Type}

theorem exec_pure (a : α) (s : σ) : (pure a : Py.MS σ α).exec s = (.ok a, s) := rfl

theorem exec_bind (m : Py.MS σ α) (f : α → Py.MS σ β) (s : σ) :
    (m >>= f).exec s = match m.exec s with
      | (.ok a, s') => (f a).exec s'
      | (.error e, s') => (.error e, s') := by
  simp only [Py.MS.exec, ExceptT.run, bind, ExceptT.bind, ExceptT.mk, StateT.bind, StateT.run]
  cases h : m s with
  | mk r s' =>
    cases r with
    | ok a => simp [ExceptT.bindCont]
    | error e => simp [ExceptT.bindCont, pure, StateT.pure]

theorem exec_get (s : σ) : (get : Py.MS σ σ).exec s = (.ok s, s) := rfl

theorem exec_modify (f : σ → σ) (s : σ) : (modify f : Py.MS σ PUnit).exec s = (.ok ⟨⟩, f s) := rfl

theorem exec_throw (e : Err) (s : σ) : (throw e : Py.MS σ α).exec s = (.error e, s) := rfl

theorem exec_lift (x : Except Err α) (s : σ) : (liftM x : Py.MS σ α).exec s = (x, s) := by
  cases x <;> rfl

theorem exec_map (f : α → β) (m : Py.MS σ α) (s : σ) :
    (f <$> m).exec s = match m.exec s with
      | (.ok a, s') => (.ok (f a), s')
      | (.error e, s') => (.error e, s') := by
  rw [← bind_pure_comp, exec_bind]
  rfl

theorem pure_ok (a : α) : (pure a : Except Err α) = .ok a := rfl
theorem throw_error (e : Err) : (throw e : Except Err α) = .error e := rfl

end Exec


/-! ### `size` -/

/-- the object after the strand table has been asked for -/
def fillST (s : ComplexS.Self) : ComplexS.Self :=
  if Py.truthyOL s._strand_table then s
  else { s with _strand_table := some (makeStrandTableList "+" s._sequence) }

theorem exec_p_strand_table (s : ComplexS.Self) :
    py_ComplexS_p_strand_table.exec s = (.ok (fillST s)._strand_table, fillST s) := by
  unfold py_ComplexS_p_strand_table fillST
  simp only [exec_bind, exec_get]
  cases h : Py.truthyOL s._strand_table
  · simp [exec_bind, exec_get, exec_lift, exec_modify, exec_map, PyFuncs.py_make_strand_table_list_default]
  · simp [exec_map, exec_get]

theorem fillST_sameRep (s : ComplexS.Self) : SameRepS s (fillST s) := by
  unfold fillST; split <;> exact ⟨rfl, rfl, rfl, rfl⟩

theorem fillST_pcoh (s : ComplexS.Self) (h : PCoh s) : PCoh (fillST s) := by
  unfold fillST; split
  · exact h
  · refine ⟨h.len, h.nn, ?_, h.pt, h.li, h.ex, h.en⟩
    intro t ht _
    simp only [Option.some.injEq] at ht
    exact ht.symm

theorem fillST_table (s : ComplexS.Self) (h : PCoh s) :
    (fillST s)._strand_table = some (makeStrandTableList "+" s._sequence) := by
  unfold fillST; split
  · rename_i ht
    cases hs : s._strand_table with
    | none => rw [hs] at ht; simp [Py.truthyOL] at ht
    | some t =>
      rw [hs] at ht
      have hne : t ≠ [] := by intro h0; subst h0; simp [Py.truthyOL] at ht
      rw [h.st t hs hne]
  · rfl

theorem exec_size (s : ComplexS.Self) (h : PCoh s) :
    py_ComplexS_size.exec s = (.ok (makeStrandTableList "+" s._sequence).length, fillST s) := by
  unfold py_ComplexS_size
  simp only [exec_bind, exec_p_strand_table, fillST_table s h, exec_lift, Py.unwrap, exec_pure]
  rfl


/-! ### `rotate()` -/

theorem rotateOnce_length (seq : List String) (sst : List Char) (r : List String × List Char)
    (hl : seq.length = sst.length) (h : rotateOnce seq sst = .ok r) : r.1.length = r.2.length := by
  unfold rotateOnce at h
  split at h
  · cases h; exact hl
  · simp only at h
    split at h
    · cases h
    · split at h
      · cases h
      · cases h
        simp only [List.length_append, List.length_drop, List.length_take, List.length_singleton,
          Rot.setAll_length, hl]

/-- the `k` rotations after the current one -/
def rotTail : Nat → List String → List Char → Except Err (List (List String × List Char))
  | 0, _, _ => .ok []
  | k + 1, x, y =>
    match rotateOnce x y with
    | .error e => .error e
    | .ok r => (rotTail k r.1 r.2).map (fun rest => r :: rest)

theorem rotationsFrom_succ (k : Nat) (x : List String) (y : List Char) :
    rotationsFrom (k + 1) x y = (rotTail k x y).map (fun rest => (x, y) :: rest) := by
  induction k generalizing x y with
  | zero => rfl
  | succ k ih =>
    simp only [rotationsFrom, rotTail]
    cases h : rotateOnce x y with
    | error e => rfl
    | ok r =>
      simp only [ih]

theorem exec_rotate_loop1 (turns : Option Nat) (v : ComplexS_rotate.Vars) (i : Nat) (s : ComplexS.Self) :
    (ComplexS_rotate.loop1 turns v i).exec s =
      match py_rotate_complex_once v.x v.y with
      | .error e => (.error e, s)
      | .ok r => (.ok { v with x := r.1, y := r.2, yielded := v.yielded ++ [(r.1, r.2)] }, s) := by
  unfold ComplexS_rotate.loop1
  simp only [exec_bind, exec_lift, exec_pure]
  cases py_rotate_complex_once v.x v.y <;> rfl

theorem exec_rotate_fold (turns : Option Nat) (l : List Nat) (v : ComplexS_rotate.Vars) (s : ComplexS.Self)
    (hl : v.x.length = v.y.length) :
    ∃ r, (List.foldlM (ComplexS_rotate.loop1 turns) v l).exec s = (r, s) ∧
      r.map (·.yielded) = (rotTail l.length v.x v.y).map (fun rest => v.yielded ++ rest) := by
  induction l generalizing v with
  | nil => exact ⟨.ok v, rfl, by simp [rotTail, Except.map]⟩
  | cons a l ih =>
    simp only [List.foldlM_cons, exec_bind, exec_rotate_loop1, List.length_cons, rotTail,
      PyFuncs.py_rotate_complex_once_eq v.x v.y hl]
    cases h : rotateOnce v.x v.y with
    | error e => exact ⟨.error e, rfl, rfl⟩
    | ok r =>
      simp only
      obtain ⟨r', h1, h2⟩ := ih { v with x := r.1, y := r.2, yielded := v.yielded ++ [(r.1, r.2)] }
        (rotateOnce_length _ _ _ hl h)
      refine ⟨r', h1, ?_⟩
      rw [h2]
      simp only
      cases rotTail l.length r.1 r.2 <;> simp [Except.map]


@[simp] theorem fillST_seq (s : ComplexS.Self) : (fillST s)._sequence = s._sequence := (fillST_sameRep s).1
@[simp] theorem fillST_sst (s : ComplexS.Self) : (fillST s)._structure = s._structure := (fillST_sameRep s).2.1
@[simp] theorem fillST_turns (s : ComplexS.Self) : (fillST s)._turns = s._turns := (fillST_sameRep s).2.2.1
@[simp] theorem fillST_name (s : ComplexS.Self) : (fillST s)._name = s._name := (fillST_sameRep s).2.2.2

theorem exec_sequence (s : ComplexS.Self) : py_ComplexS_sequence.exec s = (.ok s._sequence, s) := rfl
theorem exec_structure (s : ComplexS.Self) : py_ComplexS_structure.exec s = (.ok s._structure, s) := rfl

/-- number of strands of the current representation -/
abbrev nS (s : ComplexS.Self) : Nat := (makeStrandTableList "+" s._sequence).length

theorem exec_rotate_none (s : ComplexS.Self) (h : PCoh s) :
    (py_ComplexS_rotate none).exec s =
      (if nS s = 0 then .error (.fault "translator:negative") else rotationsFrom (nS s) s._sequence s._structure,
       fillST s) := by
  unfold py_ComplexS_rotate
  simp only [Option.isNone_none, if_true, exec_bind, exec_size s h, exec_sequence, exec_structure, exec_get,
    exec_lift, Py.unwrap, Py.sub, fillST_seq, fillST_sst]
  rw [pure_ok]
  simp only [nS]
  generalize (makeStrandTableList "+" s._sequence).length = n
  cases n with
  | zero => simp [throw_error]
  | succ k =>
    obtain ⟨r, h1, h2⟩ := exec_rotate_fold none (List.range k)
      { x := s._sequence, y := s._structure, turns := some (k + 1),
        yielded := default ++ [(s._sequence, s._structure)] } (fillST s) h.len
    simp only [Nat.le_add_left, if_true, pure_ok, Nat.add_sub_cancel, h1]
    rw [rotationsFrom_succ]
    simp only [List.length_range] at h2
    cases r with
    | error e =>
      cases h3 : rotTail k s._sequence s._structure with
      | error e' => rw [h3] at h2; simp [Except.map] at h2; subst h2; simp [Except.map]
      | ok l => rw [h3] at h2; simp [Except.map] at h2
    | ok v =>
      cases h3 : rotTail k s._sequence s._structure with
      | error e' => rw [h3] at h2; simp [Except.map] at h2
      | ok l =>
        rw [h3] at h2; simp [Except.map] at h2
        simp [Except.map, exec_pure, h2]
        rfl


theorem pyQuery_rotate (s : ComplexS.Self) (h : PCoh s) :
    pyQuery s .rotate =
      (fillST s, if nS s = 0 then .err (.fault "translator:negative") else
        match rotationsFrom (nS s) s._sequence s._structure with | .ok r => .rots r | .error e => .err e) := by
  simp only [pyQuery, pyAnswer, exec_bind, exec_rotate_none s h]
  by_cases hn : nS s = 0
  · simp only [hn, if_true]
  · simp only [hn, if_false]
    cases rotationsFrom (nS s) s._sequence s._structure <;> rfl

/-- `rotate()` of a coherent object (corrected statement): exactly the model's `rotationsFrom` over the number of strands,
    unless there is no strand at all: then `range(turns - 1)` has a negative bound, which the translation reports as the
    explicit fault `translator:negative` (`Py.sub`) whereas the model answers `[]` -/
theorem view_rotate' (s : Gen.ComplexS.Self) (canon : CKey) (h : PCoh s) :
    ViewOk s .rotate
      (if nS s = 0 then .err (.fault "translator:negative") else C03.qSpec (toObj s canon) .rotate) := by
  unfold ViewOk
  rw [pyQuery_rotate s h]
  exact ⟨fillST_pcoh s h, fillST_sameRep s, rfl⟩

/-- `rotate()` of a coherent object with at least one strand: exactly the model's `rotationsFrom` over the number of strands -/
theorem view_rotate_of_strands (s : Gen.ComplexS.Self) (canon : CKey) (h : PCoh s)
    (hne : makeStrandTableList "+" s._sequence ≠ []) :
    ViewOk s .rotate (C03.qSpec (toObj s canon) .rotate) := by
  have := view_rotate' s canon h
  rwa [if_neg (by simpa [nS] using hne)] at this

/-- the concrete counterexample: the empty complex (as `__init__` leaves it) is coherent; the translated `rotate()` answers the
    fault, the model's specification answers `[]` -/
theorem view_rotate_counterexample :
    PCoh (py_ComplexS_init [] [] "" 0) ∧
    (pyQuery (py_ComplexS_init [] [] "" 0) .rotate).2 = .err (.fault "translator:negative") ∧
    C03.qSpec (toObj (py_ComplexS_init [] [] "" 0) ([], [])) .rotate = .rots [] := by
  have hc : PCoh (py_ComplexS_init [] [] "" 0) := pcoh_init [] [] "" 0 rfl (by decide)
  refine ⟨hc, ?_, by decide⟩
  rw [pyQuery_rotate _ hc]
  decide

/-- the statement `view_rotate` as given (without the hypothesis on the strands) is FALSE: the empty complex is coherent,
    the model answers `[]`, the translated `rotate()` stops with the fault `translator:negative` -/
theorem view_rotate_false :
    ¬ ∀ (s : Gen.ComplexS.Self) (canon : CKey) (_ : PCoh s), ViewOk s .rotate (C03.qSpec (toObj s canon) .rotate) := by
  intro hall
  have hc : PCoh (py_ComplexS_init [] [] "" 0) := pcoh_init [] [] "" 0 rfl (by decide)
  have h1 := (hall _ ([], []) hc).2.2
  rw [pyQuery_rotate _ hc] at h1
  revert h1
  decide


/-! ### the `turns` setter -/

/-- what the selected iteration of the setter's loop assigns -/
def setRep (s : ComplexS.Self) (p : List String × List Char) (w : Int) : ComplexS.Self :=
  { s with _sequence := p.1, _structure := p.2, _turns := w, _strand_table := none, _pair_table := none,
           _loop_index := none, _exterior_domains := none, _enclosed_domains := none, _exterior_loops := none }

theorem exec_set_loop1 (value : Int) (v : ComplexS_set_turns.Vars) (x1 : Nat × (List String × List Char))
    (s : ComplexS.Self) (w : Int) (hw : py_wrap_int value (Int.ofNat v.tot) = .ok w) :
    (ComplexS_set_turns.loop1 value v x1).exec s =
      if v.brk1 then (.ok v, s)
      else if (Int.ofNat x1.1 == v.t) then (.ok { v with brk1 := true }, setRep s x1.2 w)
      else (.ok v, s) := by
  unfold ComplexS_set_turns.loop1
  cases hb : v.brk1
  · by_cases he : (Int.ofNat x1.1 == v.t) = true
    · simp only [hb, he, if_true, Bool.false_eq_true, if_false, exec_bind, exec_lift, exec_pure, exec_modify, hw]
      rfl
    · simp only [hb, he, Bool.false_eq_true, if_false, exec_pure]
  · simp only [hb, if_true, exec_pure]


/-- the `for … else` loop with the `brk1` flag: the first entry whose index is `t` is assigned, later iterations are no-ops -/
theorem exec_set_fold (value : Int) (L : List (Nat × (List String × List Char))) (v : ComplexS_set_turns.Vars)
    (s : ComplexS.Self) (w : Int) (hw : py_wrap_int value (Int.ofNat v.tot) = .ok w) :
    (List.foldlM (ComplexS_set_turns.loop1 value) v L).exec s =
      if v.brk1 then (.ok v, s)
      else match L.find? (fun q => Int.ofNat q.1 == v.t) with
        | none => (.ok v, s)
        | some q => (.ok { v with brk1 := true }, setRep s q.2 w) := by
  induction L generalizing v s with
  | nil => simp [exec_pure]
  | cons a L ih =>
    simp only [List.foldlM_cons, exec_bind, exec_set_loop1 value v a s w hw]
    cases hb : v.brk1
    · by_cases he : (Int.ofNat a.1 == v.t) = true
      · simp only [he, if_true, Bool.false_eq_true, if_false, List.find?_cons_of_pos]
        rw [ih { tot := v.tot, t := v.t, brk1 := true } _ hw]
        rfl
      · simp only [he, Bool.false_eq_true, if_false]
        rw [ih _ _ hw]
        simp only [hb, Bool.false_eq_true, if_false]
        have hf : List.find? (fun (q : Nat × (List String × List Char)) => Int.ofNat q.1 == v.t) (a :: L) =
            List.find? (fun q => Int.ofNat q.1 == v.t) L := List.find?_cons_of_neg he
        rw [hf]
    · simp only [if_true]
      rw [ih _ _ hw]
      simp only [hb, if_true]

theorem find_enumerate_go {α} (l : List α) (k t : Nat) :
    ((l.zipIdx k).map (fun p => (p.2, p.1))).find? (fun q => Int.ofNat q.1 == (Int.ofNat (k + t))) =
      (l[t]?).map (fun x => (k + t, x)) := by
  induction l generalizing k t with
  | nil => simp
  | cons a l ih =>
    simp only [List.zipIdx_cons, List.map_cons]
    cases t with
    | zero => simp
    | succ t =>
      rw [List.find?_cons_of_neg (by simp; omega)]
      have := ih (k + 1) t
      rw [show k + 1 + t = k + (t + 1) by omega] at this
      rw [this]
      simp

theorem find_enumerate {α} (l : List α) (t : Nat) :
    (Py.enumerate l).find? (fun q => Int.ofNat q.1 == (t : Int)) = (l[t]?).map (fun x => (t, x)) := by
  have := find_enumerate_go l 0 t
  simpa [Py.enumerate] using this


theorem py_wrap_int_zero (x : Int) : py_wrap_int x (Int.ofNat 0) = .error (.fault "ZeroDivisionError") := rfl

theorem py_wrap_int_pos (x : Int) (m : Nat) (hm : 0 < m) : py_wrap_int x (Int.ofNat m) = .ok ((wrap x m : Nat) : Int) := by
  have hm' : (Int.ofNat m) ≠ 0 := by simp; omega
  have hnn : (0 : Int) ≤ Int.ofNat m := by simp
  unfold py_wrap_int Py.imod
  simp only [hm', if_false, pure_ok, bind, Except.bind, Int.fmod_eq_emod_of_nonneg _ hnn]
  rw [ViewsRot.wrap_cast x m hm]
  simp [Int.add_emod_right]


theorem exec_set_turns (s : ComplexS.Self) (v : Int) (h : PCoh s) :
    (py_ComplexS_set_turns v).exec s =
      if nS s = 0 then (.error (.fault "ZeroDivisionError"), fillST s) else
      match rotationsFrom (nS s) s._sequence s._structure with
      | .error e => (.error e, fillST (fillST s))
      | .ok rots =>
        match rots[wrap (-s._turns + v) (nS s)]? with
        | none => (.error .objectInit, fillST (fillST s))
        | some p => (.ok (), setRep (fillST (fillST s)) p ((wrap v (nS s) : Nat) : Int)) := by
  unfold py_ComplexS_set_turns
  simp only [exec_bind, exec_size s h, exec_get, exec_lift, fillST_turns]
  by_cases hn : nS s = 0
  · simp only [nS] at hn
    simp only [hn, if_true, nS]
    rfl
  · have hpos : 0 < nS s := Nat.pos_of_ne_zero hn
    have hn1 : nS (fillST s) = nS s := by simp [nS]
    simp only [hn, if_false, py_wrap_int_pos _ _ hpos, exec_rotate_none _ (fillST_pcoh s h), hn1, fillST_seq, fillST_sst]
    cases rotationsFrom (nS s) s._sequence s._structure with
    | error e => rfl
    | ok rots =>
      simp only
      rw [exec_set_fold v _ _ _ _ (py_wrap_int_pos v _ hpos)]
      simp only [Bool.false_eq_true, if_false, find_enumerate]
      cases rots[wrap (-s._turns + v) (nS s)]? with
      | none => simp [exec_throw]
      | some p => simp [exec_pure, nS]


theorem rotTail_len (k : Nat) (x : List String) (y : List Char) (l : List (List String × List Char))
    (hl : x.length = y.length) (h : rotTail k x y = .ok l) : ∀ p ∈ l, p.1.length = p.2.length := by
  induction k generalizing x y l with
  | zero => simp only [rotTail] at h; cases h; simp
  | succ k ih =>
    simp only [rotTail] at h
    cases hr : rotateOnce x y with
    | error e => rw [hr] at h; cases h
    | ok r =>
      rw [hr] at h
      simp only at h
      have hl' := rotateOnce_length x y r hl hr
      cases ht : rotTail k r.1 r.2 with
      | error e => rw [ht] at h; cases h
      | ok l' =>
        rw [ht] at h
        simp only [Except.map] at h
        cases h
        intro p hp
        rcases List.mem_cons.1 hp with hp | hp
        · subst hp; exact hl'
        · exact ih r.1 r.2 l' hl' ht p hp

theorem rotationsFrom_len (n : Nat) (x : List String) (y : List Char) (l : List (List String × List Char))
    (hl : x.length = y.length) (h : rotationsFrom n x y = .ok l) : ∀ p ∈ l, p.1.length = p.2.length := by
  cases n with
  | zero => simp only [rotationsFrom] at h; cases h; simp
  | succ k =>
    rw [rotationsFrom_succ] at h
    cases ht : rotTail k x y with
    | error e => rw [ht] at h; cases h
    | ok l' =>
      rw [ht] at h
      simp only [Except.map] at h
      cases h
      intro p hp
      rcases List.mem_cons.1 hp with hp | hp
      · subst hp; exact hl
      · exact rotTail_len k x y l' hl ht p hp

theorem setRep_pcoh (s : ComplexS.Self) (p : List String × List Char) (w : Int) (hl : p.1.length = p.2.length)
    (hw : 0 ≤ w) : PCoh (setRep s p w) := by
  refine ⟨hl, hw, ?_, ?_, ?_, ?_, ?_⟩ <;> intro _ h' <;> cases h'

/-- the translated `turns` setter is the model's setter: same outcome, same new representation, and the object stays coherent -/
theorem pySetTurns_spec (s : Gen.ComplexS.Self) (canon : CKey) (v : Int) (h : PCoh s) :
    (pySetTurns s v).2 = ((toObj s canon).setTurns v).2 ∧
    PCoh (pySetTurns s v).1 ∧
    CplxObj.SameRep (toObj (pySetTurns s v).1 canon) ((toObj s canon).setTurns v).1 := by
  have hc2 : PCoh (fillST (fillST s)) := fillST_pcoh _ (fillST_pcoh s h)
  have ht : ((s._turns.toNat : Nat) : Int) = s._turns := Int.toNat_of_nonneg h.nn
  rw [CplxObj.setTurns_eq]
  simp only [pySetTurns, exec_set_turns s v h, CplxObj.size, CplxObj.getStrandTable, toObj, ht]
  by_cases hn : nS s = 0
  · simp only [nS] at hn
    simp only [hn, if_true, nS]
    exact ⟨by first | trivial | rfl, fillST_pcoh s h, ⟨by simp, by simp, by simp, rfl, by simp⟩⟩
  · have hn' : ¬ (makeStrandTableList "+" s._sequence).length = 0 := hn
    simp only [hn', if_false, nS]
    cases hr : rotationsFrom (makeStrandTableList "+" s._sequence).length s._sequence s._structure with
    | error e => exact ⟨by first | trivial | rfl, hc2, ⟨by simp, by simp, by simp, rfl, by simp⟩⟩
    | ok rots =>
      simp only
      cases hp : rots[wrap (-s._turns + v) (makeStrandTableList "+" s._sequence).length]? with
      | none => exact ⟨by first | trivial | rfl, hc2, ⟨by simp, by simp, by simp, rfl, by simp⟩⟩
      | some p =>
        simp only
        refine ⟨by first | trivial | rfl, setRep_pcoh _ p _ ?_ (by simp), ⟨rfl, rfl, by simp [setRep], rfl, by simp [setRep]⟩⟩
        exact rotationsFrom_len _ _ _ rots h.len hr p (List.mem_of_getElem? hp)


/-! ### `rotate_pt()` -/

/-- the two table constructors applied to one rotation -/
def ptOf (p : List String × List Char) : Except Err (List (List String) × List (List (Option (Nat × Nat)))) := do
  let a ← Gen.py_make_strand_table_list p.1 "+"
  let b ← Gen.py_make_pair_table p.2 '+' ['.']
  pure (a, b)

theorem exec_rotate_pt_loop1 (turns : Option Nat) (v : ComplexS_rotate_pt.Vars) (x1 : List String × List Char)
    (s : ComplexS.Self) :
    (ComplexS_rotate_pt.loop1 turns v x1).exec s =
      (match ptOf x1 with
        | .ok ab => .ok { yielded := v.yielded ++ [ab] }
        | .error e => .error e, s) := by
  unfold ComplexS_rotate_pt.loop1 ptOf
  simp only [exec_bind, exec_lift, exec_pure]
  cases py_make_strand_table_list x1.1 "+" with
  | error e => rfl
  | ok a =>
    cases py_make_pair_table x1.2 '+' ['.'] with
    | error e => rfl
    | ok b => rfl

theorem exec_rotate_pt_fold (turns : Option Nat) (l : List (List String × List Char)) (v : ComplexS_rotate_pt.Vars)
    (s : ComplexS.Self) :
    (List.foldlM (ComplexS_rotate_pt.loop1 turns) v l).exec s =
      (match l.mapM ptOf with
        | .ok r => .ok { yielded := v.yielded ++ r }
        | .error e => .error e, s) := by
  induction l generalizing v with
  | nil => simp [exec_pure, pure_ok]
  | cons a l ih =>
    simp only [List.foldlM_cons, exec_bind, exec_rotate_pt_loop1, List.mapM_cons]
    cases ptOf a with
    | error e => rfl
    | ok ab =>
      simp only [ih]
      cases l.mapM ptOf with
      | error e => rfl
      | ok r => simp [bind, Except.bind, pure_ok]

/-- `rotate_pt()` is `rotate()` mapped through the two table constructors (the first failing construction raises) -/
theorem exec_rotate_pt (s : Gen.ComplexS.Self) (turns : Option Nat) :
    (Gen.py_ComplexS_rotate_pt turns).exec s =
      match (Gen.py_ComplexS_rotate turns).exec s with
      | (.error e, s') => (.error e, s')
      | (.ok l, s') => (l.mapM (fun (p : List String × List Char) => do
            let a ← Gen.py_make_strand_table_list p.1 "+"
            let b ← Gen.py_make_pair_table p.2 '+' ['.']
            pure (a, b)), s') := by
  unfold py_ComplexS_rotate_pt
  simp only [exec_bind]
  cases (py_ComplexS_rotate turns).exec s with
  | mk r s' =>
    cases r with
    | error e => rfl
    | ok l =>
      simp only [exec_rotate_pt_fold]
      show _ = (l.mapM ptOf, s')
      cases l.mapM ptOf with
      | error e => rfl
      | ok r => simp [exec_pure]; rfl

#print axioms view_rotate'
#print axioms view_rotate_of_strands
#print axioms view_rotate_false
#print axioms view_rotate_counterexample
#print axioms pySetTurns_spec
#print axioms exec_rotate_pt

end Dsd.PyObj.Rot
