/-
(c) the automatic-name case: with `name = None` the method first computes `name = f'{prefix}{cls.ID}'` (prefix defaulting to
`cls.PREFIX`) and then proceeds exactly as for that name - in the code and in the model; so every branch theorem for an explicit name
applies to automatic names.
-/
import DsdVerif.Lemmas.PyDomainEqIdent3b

namespace Dsd.PyDomainEq
open Dsd Dsd.Gen Dsd.PySingletonL

/-- the code: a request without a name is the request with the automatic name -/
theorem identifiers_auto_name_py (request : Py.Dom.Req → Py.Dom.M Nat) (tmp cutoff sh lo : Nat) (pre : String) (l : Option Nat)
    (pfx : Option String) (d : Option String) (s : Py.Dom.Cls) :
    (py_DomainS_identifiers request tmp cutoff sh lo pre none l pfx d).exec s =
      (py_DomainS_identifiers request tmp cutoff sh lo pre (some (pfx.getD pre ++ toString s.ID)) l pfx d).exec s := by
  unfold py_DomainS_identifiers
  cases pfx <;>
    simp only [exec_ite, exec_bind, exec_get, exec_pure, exec_lift, Py.unwrap, pure_ok, Option.isNone_none, Option.isNone_some, if_true,
      if_false, Bool.false_eq_true, Option.getD_none, Option.getD_some]

/-- the model: likewise -/
theorem identifiers_auto_name_model (nested : Reg DKey → DomReq → Reg DKey × Out) (cfg : DomCfg) (r : Reg DKey) (l : Option Nat)
    (pfx : Option String) (d : Option DType) :
    DomFull.identifiers nested cfg r { name := none, length := l, prefix_ := pfx, dtype := d } =
      DomFull.identifiers nested cfg r { name := some (pfx.getD cfg.prefix_ ++ toString r.autoId), length := l, prefix_ := pfx, dtype := d } := rfl

end Dsd.PyDomainEq
