import DsdVerif.Lemmas.PyStrandTable
import DsdVerif.Lemmas.PyMakePairTable
import DsdVerif.Lemmas.PyPtToDb
import DsdVerif.Lemmas.PyRotatePt

/-!
The generators `split_complex_db` and `rotate_complex_db` (`join = False`, a list of names and a structure) as written in the
source are the composition of the model functions: `makeStrandTableList`, `makePairTable`, then `splitPt` / `rotationsPt`,
then `strandTableToSequence` and `ptToDb` on every part.
-/
namespace Dsd.PyEq
open Dsd

/-- what the loop body of the two `_db` generators makes of one part `(st, pt)`: `(strand_table_to_sequence(st),
    pair_table_to_dot_bracket(pt))` -/
def dbPart (p : List (List String) × PairTable) : Except Err (List String × List Char) :=
  (strandTableToSequence "+" p.1).map (fun s => (s, ptToDb p.2 '+'))

abbrev DbOut := List (List String × List Char)

theorem sdb_loop1 (seq sst) (v : Gen.split_complex_db.Vars) (x : List (List String) × PairTable) :
    Gen.split_complex_db.loop1 seq sst v x =
      (dbPart x).map (fun r => { v with nseq := r.1, nsst := r.2, yielded := v.yielded ++ [r] }) := by
  simp only [Gen.split_complex_db.loop1, strand_table_to_sequence_list_eq, pair_table_to_dot_bracket_eq, dbPart,
    bind, Except.bind, pure, Except.pure]
  cases strandTableToSequence "+" x.1 <;> rfl

theorem sdb_fold (seq sst) (parts : List (List (List String) × PairTable)) : ∀ (v : Gen.split_complex_db.Vars),
    (List.foldlM (Gen.split_complex_db.loop1 seq sst) v parts).map (fun v => v.yielded) =
      (parts.mapM dbPart).map (fun l => v.yielded ++ l) := by
  induction parts with
  | nil => intro v; simp [pure, Except.pure, Except.map]
  | cons x xs ih =>
    intro v
    simp only [List.foldlM_cons, List.mapM_cons, sdb_loop1]
    cases dbPart x with
    | error e => rfl
    | ok r =>
      simp only [Except.map, bind, Except.bind]
      have := ih { v with nseq := r.1, nsst := r.2, yielded := v.yielded ++ [r] }
      simp only [Except.map] at this
      rw [this]
      cases List.mapM dbPart xs with
      | error e => rfl
      | ok l => simp [pure, Except.pure]

theorem plus_len : ("+" : String).length = 1 := by decide

/-- **`list(split_complex_db(seq, sst))` (`join = False`) as written in the source is the composition of the model
    functions, for every list of names, every structure and every fuel**: the pair table of the structure (or its error),
    `splitPt` of the strand table of the names and this pair table (or its error), then `strandTableToSequence` and
    `ptToDb` on every part (TypeError for a part without strands) -/
theorem split_complex_db_eq (fuel : Nat) (seq : List String) (sst : List Char) :
    Gen.py_split_complex_db fuel seq sst =
      (makePairTable sst '+' >>= fun pt => splitPt fuel (makeStrandTableList "+" seq) pt >>= fun parts =>
        parts.mapM dbPart) := by
  unfold Gen.py_split_complex_db
  simp only [make_strand_table_list_eq, plus_len, if_true, make_pair_table_eq, bind, Except.bind, pure, Except.pure]
  cases hpt : makePairTable sst '+' with
  | error e => rfl
  | ok pt =>
    obtain ⟨syms, t, L, _⟩ := Split.mpt_linF sst '+' pt hpt
    simp only [split_complex_pt_eq_lm fuel _ pt syms L.lm]
    cases hsp : splitPt fuel (makeStrandTableList "+" seq) pt with
    | error e => rfl
    | ok parts =>
      have := sdb_fold seq sst parts { stab := makeStrandTableList "+" seq, ptab := pt }
      simp only
      revert this
      cases List.foldlM (Gen.split_complex_db.loop1 seq sst) _ parts with
      | error e =>
        cases List.mapM dbPart parts with
        | error e' => simp [Except.map]
        | ok l => simp [Except.map]
      | ok v =>
        cases List.mapM dbPart parts with
        | error e' => simp [Except.map]
        | ok l =>
          simp only [Except.map, Except.ok.injEq]
          intro h; rw [h]; rfl

/-! ### `rotate_complex_db` -/

theorem rdb_loop1 (seq sst turns) (v : Gen.rotate_complex_db.Vars) (x : List (List String) × PairTable) :
    Gen.rotate_complex_db.loop1 seq sst turns v x =
      (dbPart x).map (fun r => { v with nseq := r.1, nsst := r.2, yielded := v.yielded ++ [r] }) := by
  simp only [Gen.rotate_complex_db.loop1, strand_table_to_sequence_list_eq, pair_table_to_dot_bracket_eq, dbPart,
    bind, Except.bind, pure, Except.pure]
  cases strandTableToSequence "+" x.1 <;> rfl

theorem rdb_fold (seq sst turns) (parts : List (List (List String) × PairTable)) : ∀ (v : Gen.rotate_complex_db.Vars),
    (List.foldlM (Gen.rotate_complex_db.loop1 seq sst turns) v parts).map (fun v => v.yielded) =
      (parts.mapM dbPart).map (fun l => v.yielded ++ l) := by
  induction parts with
  | nil => intro v; simp [pure, Except.pure, Except.map]
  | cons x xs ih =>
    intro v
    simp only [List.foldlM_cons, List.mapM_cons, rdb_loop1]
    cases dbPart x with
    | error e => rfl
    | ok r =>
      simp only [Except.map, bind, Except.bind]
      have := ih { v with nseq := r.1, nsst := r.2, yielded := v.yielded ++ [r] }
      simp only [Except.map] at this
      rw [this]
      cases List.mapM dbPart xs with
      | error e => rfl
      | ok l => simp [pure, Except.pure]

/-- the source's `assert all(len(x) == len(y) for x, y in zip(stab, ptab))` -/
def sameLengths (stab : List (List String)) (pt : PairTable) : Bool :=
  (List.zip stab pt).all (fun xy => xy.1.length == xy.2.length)

theorem sameLengths_of_shape (stab : List (List String)) : ∀ (pt : PairTable),
    stab.map List.length = pt.map List.length → sameLengths stab pt = true := by
  unfold sameLengths
  induction stab with
  | nil => intro pt _; simp
  | cons a as ih =>
    intro pt hshape
    cases pt with
    | nil => simp
    | cons b bs =>
      simp only [List.map_cons, List.cons.injEq] at hshape
      simp only [List.zip_cons_cons, List.all_cons, hshape.1, beq_self_eq_true, Bool.true_and]
      exact ih bs hshape.2

/-- **`list(rotate_complex_db(seq, sst, turns))` (`join = False`) as written in the source, for every input**: the pair table
    of the structure (or its error), the assertion that strands and rows are equally long (as far as both tables go), then
    the source's `rotate_complex_pt` on the strand table of the names, then `strandTableToSequence` and `ptToDb` on every
    rotation -/
theorem rotate_complex_db_eq_pt (fuel : Nat) (seq : List String) (sst : List Char) (turns : Option Nat) :
    Gen.py_rotate_complex_db fuel seq sst turns =
      (makePairTable sst '+' >>= fun pt =>
        if sameLengths (makeStrandTableList "+" seq) pt then
          Gen.py_rotate_complex_pt fuel (makeStrandTableList "+" seq) pt turns >>= fun parts => parts.mapM dbPart
        else .error .assertion) := by
  unfold Gen.py_rotate_complex_db
  simp only [make_strand_table_list_eq, plus_len, if_true, make_pair_table_eq, bind, Except.bind, pure, Except.pure]
  cases hpt : makePairTable sst '+' with
  | error e => rfl
  | ok pt =>
    simp only [List.all_map]
    have hsl : (List.zip (makeStrandTableList "+" seq) pt).all
        ((fun b => b) ∘ fun c1 => (c1.1.length == c1.2.length)) = sameLengths (makeStrandTableList "+" seq) pt := rfl
    rw [hsl]
    cases sameLengths (makeStrandTableList "+" seq) pt with
    | false => rfl
    | true =>
      simp only [Bool.not_true, Bool.false_eq_true, if_false, if_true]
      cases hsp : Gen.py_rotate_complex_pt fuel (makeStrandTableList "+" seq) pt turns with
      | error e => rfl
      | ok parts =>
        have := rdb_fold seq sst turns parts { stab := makeStrandTableList "+" seq, ptab := pt }
        simp only
        revert this
        cases List.foldlM (Gen.rotate_complex_db.loop1 seq sst turns) _ parts with
        | error e =>
          cases List.mapM dbPart parts with
          | error e' => simp [Except.map]
          | ok l => simp [Except.map]
        | ok v =>
          cases List.mapM dbPart parts with
          | error e' => simp [Except.map]
          | ok l =>
            simp only [Except.map, Except.ok.injEq]
            intro h; rw [h]; rfl

theorem go_ne (k : Nat) : ∀ (cur : List (List String) × PairTable), cur.1 ≠ [] →
    ∀ p ∈ rotationsPt.go k cur, p.1 ≠ [] := by
  induction k with
  | zero => intro cur _ p hp; simp [rotationsPt.go] at hp
  | succ k ih =>
    intro cur hc p hp
    simp only [rotationsPt.go, List.mem_cons] at hp
    rcases hp with rfl | hp
    · exact rotatePtOnce_ne _ _ hc
    · exact ih _ (rotatePtOnce_ne _ _ hc) p hp

theorem rotationsPt_ne (stab : List (List String)) (pt : PairTable) (hs : stab ≠ []) :
    ∀ p ∈ rotationsPt stab pt, p.1 ≠ [] := by
  intro p hp
  unfold rotationsPt at hp
  split at hp
  · simp at hp
  · simp only [List.mem_cons] at hp
    rcases hp with rfl | hp
    · exact hs
    · exact go_ne _ (stab, pt) hs p hp

/-- a part with at least one strand: the names joined by the break name, and the dot-bracket text -/
def dbPartOk (p : List (List String) × PairTable) : List String × List Char := (joinWith "+" p.1, ptToDb p.2 '+')

theorem dbPart_ok (p : List (List String) × PairTable) (h : p.1 ≠ []) : dbPart p = .ok (dbPartOk p) := by
  unfold dbPart strandTableToSequence dbPartOk
  cases hp : p.1 with
  | nil => exact absurd hp h
  | cons a b => rfl

/-- **`list(rotate_complex_db(seq, sst))` (`turns = None`, `join = False`) as written in the source is the composition of the
    model functions** whenever `seq` has at least one strand and the fuel exceeds the number of strands of the structure:
    the error of `makePairTable`, or AssertionError when a strand and its row differ in length, or all the rotations of
    `rotationsPt`, each as (names joined by "+", dot-bracket text) -/
theorem rotate_complex_db_eq (fuel : Nat) (seq : List String) (sst : List Char)
    (hs : makeStrandTableList "+" seq ≠ []) (hf : ∀ pt, makePairTable sst '+' = .ok pt → pt.length < fuel) :
    Gen.py_rotate_complex_db fuel seq sst none =
      (makePairTable sst '+' >>= fun pt =>
        if sameLengths (makeStrandTableList "+" seq) pt then
          .ok ((rotationsPt (makeStrandTableList "+" seq) pt).map dbPartOk)
        else .error .assertion) := by
  rw [rotate_complex_db_eq_pt]
  cases hpt : makePairTable sst '+' with
  | error e => rfl
  | ok pt =>
    simp only [bind, Except.bind]
    rw [rotate_complex_pt_eq fuel _ pt hs (hf pt hpt)]
    simp only []
    rw [mapM_ok dbPart dbPartOk _ (fun p hp => dbPart_ok p (rotationsPt_ne _ pt hs p hp))]

end Dsd.PyEq

#print axioms Dsd.PyEq.split_complex_db_eq
#print axioms Dsd.PyEq.rotate_complex_db_eq_pt
#print axioms Dsd.PyEq.rotate_complex_db_eq
