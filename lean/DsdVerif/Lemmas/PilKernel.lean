/-
More symbolic execution of the PIL grammar: statements with lists of any length (`strand`, `sup-sequence`,
`state`, `macrostate`) and the recursive kernel pattern.
-/
import DsdVerif.Gen.Grammars
import DsdVerif.Model.Kernel
import DsdVerif.Model.CplxObject
import DsdVerif.Lemmas.PPRun
import DsdVerif.Lemmas.PilRun

namespace Dsd.PP

/-! ### additions to the toolkit -/

theorem Ok_ref {env : Env} {N : Nat} {ctx : Ctx} {n : String} {g : G} {p : Pos} {r : Pos × List Tree}
    (hl : env.lookup n = some g) (h : Ok env N ctx g p r) : Ok env (N + 1) ctx (.ref n) p r := by
  intro fuel hf
  obtain ⟨f, rfl, hf'⟩ := succ_of_le hf
  simp only [run, hl, h f hf']

theorem No_ref {env : Env} {N : Nat} {ctx : Ctx} {n : String} {g : G} {p : Pos}
    (hl : env.lookup n = some g) (h : No env N ctx g p) : No env (N + 1) ctx (.ref n) p := by
  intro fuel hf
  obtain ⟨f, rfl, hf'⟩ := succ_of_le hf
  simp only [run, hl, h f hf']

/-- `White()` on a single blank followed by a non-blank character -/
theorem Ok_white_blank (env : Env) (c : Char) (r : List Char) (past : Bool)
    (hc : isWs c = false) (hc' : c ≠ '#') (hn : c ≠ '\n') :
    Ok env 1 {} .white { rest := ' ' :: c :: r, past := past }
      ({ rest := c :: r, past := past }, [.tok (String.ofList [' '])]) := by
  intro fuel hf
  obtain ⟨f, rfl, _⟩ := succ_of_le hf
  have h1 : skipWs (' ' :: c :: r) = c :: r := by
    have := skipWs_replicate 1 (c :: r)
    rw [skipWs_cons c r hc] at this
    exact this
  have hcc : (isWs c || c == '\n') = false := by simp [hc, hn]
  have h3 : (' ' :: c :: r).takeWhile (fun x => isWs x || x == '\n') = [' '] := by
    simp [hcc, show isWs ' ' = true from by decide]
  simp only [run, h1]
  split
  · split
    · rename_i h2; simp at h2; exact absurd h2.1 hc'
    · simp [h3]
  · rename_i h; exact absurd trivial h

theorem pos_ne_of_length (r1 r2 : List Char) (b1 b2 : Bool) (h : r1.length ≠ r2.length) :
    ({ rest := r1, past := b1 } : Pos) ≠ { rest := r2, past := b2 } := by
  intro e
  have := congrArg (fun p : Pos => p.rest.length) e
  exact h this

end Dsd.PP

namespace Dsd.Pil
open Dsd.PP Dsd.Gen

/-! ### more character facts, generic wrappers -/

theorem punct_facts : ∀ c ∈ [',', ']', '[', '(', ')', '+', '^', '@'],
    c ∉ identChars ∧ isWs c = false ∧ c ≠ '#' ∧ c ≠ '\n' := by decide

theorem parseDoc_ok' (env : Env) (doc : G) (cs : List Char) (N : Nat) (p : Pos) (ts : List Tree)
    (ht : '\t' ∉ cs) (h : Ok env N {} doc { rest := cs, past := false } (p, ts)) (hN : N ≤ 4 * cs.length + 200) :
    parseDoc env doc (String.ofList cs) = some ts := by
  unfold parseDoc
  simp only [String.toList_ofList, expandTabs_id cs 0 ht]
  rw [h _ (by omega)]

theorem parseDoc_no' (env : Env) (doc : G) (cs : List Char) (N : Nat)
    (ht : '\t' ∉ cs) (h : No env N {} doc { rest := cs, past := false }) (hN : N ≤ 4 * cs.length + 200) :
    parseDoc env doc (String.ofList cs) = none := by
  unfold parseDoc
  simp only [String.toList_ofList, expandTabs_id cs 0 ht]
  rw [h _ (by omega)]

/-- a document whose single statement consumes the text (fuel bound relative to the text length) -/
theorem parse_stmt' (cs : List Char) (c : Char) (t : List Char) (N : Nat) (ts : List Tree)
    (hstart : skipIgn cs = c :: t) (hc : c ≠ '\n')
    (hstmt : Ok pil_env N {} pil_stmt { rest := cs, past := false } ({ rest := [], past := true }, ts))
    (hN : N + 30 ≤ 4 * cs.length + 200) (ht : '\t' ∉ cs) :
    parseDoc pil_env pil_grammar (String.ofList cs) = some ts :=
  parseDoc_ok' pil_env pil_grammar cs _ _ ts ht (Ok_document pil_env N cs c t ts hstart hc hstmt) (by omega)

theorem reject_stmt' (cs : List Char) (c : Char) (t : List Char) (N : Nat)
    (hstart : skipIgn cs = c :: t) (hc : c ≠ '\n')
    (hstmt : No pil_env N {} pil_stmt { rest := cs, past := false })
    (hN : N + 10 ≤ 4 * cs.length + 200) (ht : '\t' ∉ cs) :
    parseDoc pil_env pil_grammar (String.ofList cs) = none :=
  parseDoc_no' pil_env pil_grammar cs _ ht (No_document pil_env N cs c t hstart hc hstmt) (by omega)

/-- `pil_identifier` after `n` blanks -/
theorem Ok_ident (env : Env) (n : Nat) (c : Char) (m r : List Char)
    (hc : c ∈ identChars) (hm : ∀ x ∈ m, x ∈ identChars) (hr : OutHd (fun x => x ∉ identChars) r) :
    Ok env 1 {} pil_identifier { rest := List.replicate n ' ' ++ (c :: m ++ r), past := false }
      ({ rest := r, past := false }, [.tok (String.ofList (c :: m))]) :=
  Ok_class env identChars n c m r (fun _ hx => hx) hc hm hr

/-- `pil_domain` fails when the next non-blank character cannot start an identifier -/
theorem No_domain (env : Env) (p : Pos) (c0 : Char) (t : List Char) (h : skipIgn p.rest = c0 :: t)
    (hc0 : c0 ∉ identChars) : No env 5 {} pil_domain p := by
  unfold pil_domain pil_identifier
  have : No env 1 { skip := false } (.word identChars identChars) (pre {} p) :=
    No_word_cons env _ _ _ _ c0 t (by rw [pre_noskip, pre_skip]; exact h) hc0
  exact (No_combine (No_seq (NoSeq_head this))).mono (by decide)

/-- a suppressed one-character literal after `n` blanks -/
theorem Ok_punct (env : Env) (n : Nat) (c : Char) (r : List Char) (hc : isWs c = false) (hc' : c ≠ '#') :
    Ok env 2 {} (.suppress (.lit [c])) { rest := List.replicate n ' ' ++ (c :: r), past := false }
      ({ rest := r, past := false }, []) :=
  Ok_suppress (Ok_lit env {} [c] _ r (by rw [pre_skip]; exact skipIgn_blanks_cons n c r hc hc') rfl)

theorem No_punct (env : Env) (p : Pos) (c c0 : Char) (t : List Char) (h : skipIgn p.rest = c0 :: t)
    (hne : c0 ≠ c) : No env 2 {} (.suppress (.lit [c])) p := by
  apply No_suppress; apply No_lit
  rw [pre_skip, h]; simp [stripPrefix, Ne.symm hne]

/-! ### `strand` / `sup-sequence` -/

/-- a domain name: identifier with optional star -/
def IsDom (d : List Char) : Prop :=
  ∃ c m st, d = c :: m ++ star st ∧ c ∈ identChars ∧ ∀ x ∈ m, x ∈ identChars

/-- `" d1 d2 … dk"`: every name preceded by one blank -/
def spDoms (ds : List (List Char)) : List Char := (ds.map (fun d => ' ' :: d)).flatten

theorem spDoms_cons (d : List Char) (ds : List (List Char)) : spDoms (d :: ds) = ' ' :: (d ++ spDoms ds) := by
  simp [spDoms]

def OutTail (tail : List Char) : Prop :=
  OutHd (fun x => x ∉ identChars ∧ x ≠ '*') tail ∧ ∃ c0 t, skipIgn tail = c0 :: t ∧ c0 ∉ identChars

theorem OutHd_spDoms (ds : List (List Char)) (tail : List Char)
    (ht : OutHd (fun x => x ∉ identChars ∧ x ≠ '*') tail) :
    OutHd (fun x => x ∉ identChars ∧ x ≠ '*') (spDoms ds ++ tail) := by
  cases ds with
  | nil => simpa [spDoms] using ht
  | cons d ds =>
    rw [spDoms_cons]
    exact OutHd_cons _ _ _ ⟨outside_facts ' ' (by decide), by decide⟩

/-- `ZeroOrMore(domain)` over blank-separated names -/
theorem OkMany_doms (env : Env) (ds : List (List Char)) (tail : List Char) (hd : ∀ d ∈ ds, IsDom d)
    (ht : OutTail tail) :
    OkMany env (ds.length + 7) {} pil_domain { rest := spDoms ds ++ tail, past := false }
      ({ rest := tail, past := false }, ds.map (fun d => .tok (String.ofList d))) := by
  induction ds with
  | nil =>
    obtain ⟨_, c0, t, h1, h2⟩ := ht
    have := OkMany_stop (No_domain env { rest := tail, past := false } c0 t h1 h2)
    intro reps fuel hr hf
    simpa [spDoms] using this reps fuel (by omega) (by omega)
  | cons d ds ih =>
    obtain ⟨c, m, st, rfl, hc, hm⟩ := hd d (by simp)
    have ih' := ih (fun d hd' => hd d (List.mem_cons_of_mem _ hd'))
    have h1 := Ok_domain env 1 c m st (spDoms ds ++ tail) hc hm (OutHd_spDoms ds tail ht.1)
    have hne : ({ rest := spDoms ds ++ tail, past := false } : Pos) ≠
        { rest := List.replicate 1 ' ' ++ (c :: m ++ (star st ++ (spDoms ds ++ tail))), past := false } :=
      pos_ne_of_length _ _ _ _ (by simp; omega)
    have := OkMany_step h1 hne ih'
    rw [spDoms_cons]
    simp only [List.replicate_one, List.cons_append, List.append_assoc,
      List.map_cons, List.length_cons] at this ⊢
    intro reps fuel hr hf
    exact this reps fuel (by omega) (by omega)

/-- body of a `strand` / `sup-sequence` statement -/
def compBody (kw : List Char) : G :=
  .group (.tag "composite-domain" (.seq [.suppress (.kw kw identChars), pil_identifier, .suppress pil_assign,
    .group (.many1 pil_domain), .opt (.seq [.suppress pil_assign, pil_number]), .many1 (.suppress .lineEnd)]))

def compText (a : Nat) (c : Char) (m : List Char) (b : Nat) (sign : Char) (cc : Nat) (d : List Char)
    (ds : List (List Char)) (e : Nat) : List Char :=
  List.replicate a ' ' ++ (c :: m ++ (List.replicate b ' ' ++ (sign :: (List.replicate cc ' ' ++
    (d ++ (spDoms ds ++ (List.replicate e ' ' ++ ['\n'])))))))

theorem OutTail_nl (e : Nat) : OutTail (List.replicate e ' ' ++ ['\n']) :=
  ⟨OutHd_blanks _ e _ ⟨outside_facts ' ' (by decide), by decide⟩
      (OutHd_cons _ _ _ ⟨outside_facts '\n' (by decide), by decide⟩),
    '\n', [], skipIgn_blanks_cons e '\n' [] (by decide) (by decide), outside_facts '\n' (by decide)⟩

theorem Ok_comp_body (env : Env) (kc : Char) (ks : List Char) (hk : isWs kc = false) (hk' : kc ≠ '#')
    (a : Nat) (ha : 0 < a) (c : Char) (m : List Char) (b : Nat) (sign : Char) (hs : sign = '=' ∨ sign = ':') (cc : Nat)
    (d : List Char) (ds : List (List Char)) (e : Nat)
    (hc : c ∈ identChars) (hm : ∀ x ∈ m, x ∈ identChars) (hd : IsDom d) (hds : ∀ x ∈ ds, IsDom x) :
    Ok env (ds.length + 20) {} (compBody (kc :: ks))
      { rest := kc :: (ks ++ compText a c m b sign cc d ds e), past := false }
      ({ rest := [], past := true },
        [.grp [.tok "composite-domain", .tok (String.ofList (c :: m)),
          .grp ((d :: ds).map (fun d => .tok (String.ofList d)))]]) := by
  unfold compBody compText
  obtain ⟨dc, dm, st, rfl, hdc, hdm⟩ := hd
  have tl := OutTail_nl e
  have h1 := Ok_kw env kc ks (List.replicate a ' ' ++ (c :: m ++ (List.replicate b ' ' ++ (sign ::
    (List.replicate cc ' ' ++ (dc :: dm ++ star st ++ (spDoms ds ++ (List.replicate e ' ' ++ ['\n'])))))))) hk hk'
    (OutHd_kw_blanks a ha _)
  have h2 := Ok_ident env a c m (List.replicate b ' ' ++ (sign ::
    (List.replicate cc ' ' ++ (dc :: dm ++ star st ++ (spDoms ds ++ (List.replicate e ' ' ++ ['\n']))))))
    hc hm ((OutHd_sign b sign hs _).imp (fun x hx => hx.1))
  have h3 := Ok_assign env b sign hs
    (List.replicate cc ' ' ++ (dc :: dm ++ star st ++ (spDoms ds ++ (List.replicate e ' ' ++ ['\n']))))
  have h4a := Ok_domain env cc dc dm st (spDoms ds ++ (List.replicate e ' ' ++ ['\n'])) hdc hdm
    (OutHd_spDoms ds _ tl.1)
  have h4b := OkMany_doms env ds _ hds tl
  simp only [List.cons_append, List.append_assoc] at h1 h2 h3 h4a h4b ⊢
  have h4 := Ok_group (Ok_many1 h4a h4b)
  have h5 : Ok env 8 {} (.opt (.seq [.suppress pil_assign, pil_number]))
      { rest := List.replicate e ' ' ++ ['\n'], past := false }
      ({ rest := List.replicate e ' ' ++ ['\n'], past := false }, []) :=
    (Ok_opt_none (No_seq (NoSeq_head (No_assign env _ '\n' []
      (skipIgn_blanks_cons e '\n' [] (by decide) (by decide)) (by decide) (by decide))))).mono (by decide)
  have h6 := Ok_eol env _ (EolTail_nl e)
  have := Ok_group (Ok_tag (t := "composite-domain") (Ok_seq (OkSeq_cons h1 (OkSeq_cons h2 (OkSeq_cons h3
    (OkSeq_cons h4 (OkSeq_cons h5 (OkSeq_cons h6 (OkSeq_nil env _ _)))))))))
  simp only [List.nil_append, List.append_nil, List.cons_append, List.map_cons] at this ⊢
  exact this.mono (by omega)

theorem spDoms_length (ds : List (List Char)) : ds.length ≤ (spDoms ds).length := by
  induction ds with
  | nil => simp [spDoms]
  | cons d ds ih => rw [spDoms_cons]; simp; omega

theorem notab_dom (d : List Char) (h : IsDom d) : '\t' ∉ d := by
  obtain ⟨c, m, st, rfl, hc, hm⟩ := h
  have h1 := notab_ident (c :: m) (by intro x hx; rcases List.mem_cons.mp hx with rfl | h; exact hc; exact hm x h)
  have h2 := notab_star st
  simp only [List.mem_append, not_or]
  exact ⟨h1, h2⟩

theorem notab_spDoms (ds : List (List Char)) (h : ∀ d ∈ ds, IsDom d) : '\t' ∉ spDoms ds := by
  induction ds with
  | nil => simp [spDoms]
  | cons d ds ih =>
    rw [spDoms_cons]
    simp only [List.mem_cons, List.mem_append, not_or]
    exact ⟨by decide, notab_dom d (h d (by simp)), ih (fun x hx => h x (List.mem_cons_of_mem _ hx))⟩

/-- failure of a keyword alternative at a text whose beginning is known -/
theorem No_gts_at (env : Env) (t : String) (s : List Char) (gs : List G) (c : Char) (r : List Char)
    (hc : isWs c = false) (hc' : c ≠ '#') (h : stripPrefix s (c :: r) = none) :
    No env 6 {} (.group (.tag t (.seq (.suppress (.kw s identChars) :: gs)))) { rest := c :: r, past := false } :=
  No_gts env t s gs _ (by rw [show ({ rest := c :: r, past := false } : Pos).rest = c :: r from rfl,
    skipIgn_cons c r hc hc']; exact h)

theorem Ok_strand_stmt (env : Env) (T : List Char) (res : Pos × List Tree) (N : Nat)
    (hbody : Ok env N {} (compBody ['s', 't', 'r', 'a', 'n', 'd'])
      { rest := 's' :: (['t', 'r', 'a', 'n', 'd'] ++ T), past := false } res) :
    Ok env (max N 10 + 6) {} pil_stmt { rest := 's' :: (['t', 'r', 'a', 'n', 'd'] ++ T), past := false } res := by
  unfold pil_stmt pil_sl_domain pil_dl_domain pil_comp_domain pil_strand
  unfold compBody at hbody
  have nk : ∀ (t : String) (s : List Char) (gs : List G),
      stripPrefix s ('s' :: (['t', 'r', 'a', 'n', 'd'] ++ T)) = none →
      No env 6 {} (.group (.tag t (.seq (.suppress (.kw s identChars) :: gs))))
        { rest := 's' :: (['t', 'r', 'a', 'n', 'd'] ++ T), past := false } :=
    fun t s gs h => No_gts_at env t s gs 's' _ (by decide) (by decide) h
  exact (Ok_alt (OkAlt_tail (nk _ _ _ (by simp [stripPrefix]))
    (OkAlt_tail (No_alt (NoAlt_cons (nk _ _ _ (by simp [stripPrefix])) (NoAlt_cons (nk _ _ _ (by simp [stripPrefix]))
      (NoAlt_cons (nk _ _ _ (by simp [stripPrefix])) (NoAlt_nil env _ _)))))
    (OkAlt_tail (nk _ _ _ (by simp [stripPrefix])) (OkAlt_head hbody))))).mono (by omega)

theorem Ok_supseq_stmt (env : Env) (T : List Char) (res : Pos × List Tree) (N : Nat)
    (hbody : Ok env N {} (compBody ['s', 'u', 'p', '-', 's', 'e', 'q', 'u', 'e', 'n', 'c', 'e'])
      { rest := 's' :: (['u', 'p', '-', 's', 'e', 'q', 'u', 'e', 'n', 'c', 'e'] ++ T), past := false } res) :
    Ok env (max N 10 + 6) {} pil_stmt
      { rest := 's' :: (['u', 'p', '-', 's', 'e', 'q', 'u', 'e', 'n', 'c', 'e'] ++ T), past := false } res := by
  unfold pil_stmt pil_sl_domain pil_dl_domain pil_comp_domain
  unfold compBody at hbody
  have nk : ∀ (t : String) (s : List Char) (gs : List G),
      stripPrefix s ('s' :: (['u', 'p', '-', 's', 'e', 'q', 'u', 'e', 'n', 'c', 'e'] ++ T)) = none →
      No env 6 {} (.group (.tag t (.seq (.suppress (.kw s identChars) :: gs))))
        { rest := 's' :: (['u', 'p', '-', 's', 'e', 'q', 'u', 'e', 'n', 'c', 'e'] ++ T), past := false } :=
    fun t s gs h => No_gts_at env t s gs 's' _ (by decide) (by decide) h
  exact (Ok_alt (OkAlt_tail (nk _ _ _ (by simp [stripPrefix]))
    (OkAlt_tail (No_alt (NoAlt_cons (nk _ _ _ (by simp [stripPrefix])) (NoAlt_cons (nk _ _ _ (by simp [stripPrefix]))
      (NoAlt_cons (nk _ _ _ (by simp [stripPrefix])) (NoAlt_nil env _ _)))))
    (OkAlt_head hbody)))).mono (by omega)

theorem comp_parse (kw : List Char)
    (hkw : kw = ['s', 't', 'r', 'a', 'n', 'd'] ∨ kw = ['s', 'u', 'p', '-', 's', 'e', 'q', 'u', 'e', 'n', 'c', 'e'])
    (a : Nat) (ha : 0 < a) (c : Char) (m : List Char) (b : Nat) (sign : Char) (hs : sign = '=' ∨ sign = ':') (cc : Nat)
    (d : List Char) (ds : List (List Char)) (e : Nat)
    (hc : c ∈ identChars) (hm : ∀ x ∈ m, x ∈ identChars) (hd : IsDom d) (hds : ∀ x ∈ ds, IsDom x) :
    parseDoc pil_env pil_grammar (String.ofList (kw ++ compText a c m b sign cc d ds e)) =
      some [.grp [.tok "composite-domain", .tok (String.ofList (c :: m)),
        .grp ((d :: ds).map (fun d => .tok (String.ofList d)))]] := by
  have hlen : ds.length ≤ (compText a c m b sign cc d ds e).length := by
    have := spDoms_length ds
    unfold compText
    simp only [List.length_append, List.length_cons]
    omega
  have hnt : '\t' ∉ compText a c m b sign cc d ds e := by
    have h1 := notab_ident (c :: m) (by intro x hx; rcases List.mem_cons.mp hx with rfl | h; exact hc; exact hm x h)
    have hsg : '\t' ≠ sign := by rcases hs with rfl | rfl <;> decide
    unfold compText
    simp only [List.mem_append, List.mem_cons, not_or]
    simp only [List.mem_cons, not_or] at h1
    exact ⟨notab_replicate a, ⟨h1.1, h1.2⟩, notab_replicate b, hsg, notab_replicate cc, notab_dom d hd,
      notab_spDoms ds hds, notab_replicate e, by decide, List.not_mem_nil⟩
  rcases hkw with rfl | rfl
  · have hb := Ok_comp_body pil_env 's' ['t', 'r', 'a', 'n', 'd'] (by decide) (by decide) a ha c m b sign hs cc d ds e
      hc hm hd hds
    have hstmt := Ok_strand_stmt pil_env _ _ _ hb
    refine parse_stmt' _ 's' _ _ _ (skipIgn_cons 's' _ (by decide) (by decide)) (by decide) hstmt ?_ ?_
    · simp only [List.length_append, List.length_cons] at hlen ⊢; omega
    · show '\t' ∉ ['s', 't', 'r', 'a', 'n', 'd'] ++ compText a c m b sign cc d ds e
      intro h
      rcases List.mem_append.mp h with h | h
      · revert h; decide
      · exact hnt h
  · have hb := Ok_comp_body pil_env 's' ['u', 'p', '-', 's', 'e', 'q', 'u', 'e', 'n', 'c', 'e'] (by decide) (by decide)
      a ha c m b sign hs cc d ds e hc hm hd hds
    have hstmt := Ok_supseq_stmt pil_env _ _ _ hb
    refine parse_stmt' _ 's' _ _ _ (skipIgn_cons 's' _ (by decide) (by decide)) (by decide) hstmt ?_ ?_
    · simp only [List.length_append, List.length_cons] at hlen ⊢; omega
    · show '\t' ∉ ['s', 'u', 'p', '-', 's', 'e', 'q', 'u', 'e', 'n', 'c', 'e'] ++ compText a c m b sign cc d ds e
      intro h
      rcases List.mem_append.mp h with h | h
      · revert h; decide
      · exact hnt h


/-! ### `state` / `macrostate` -/

def IsId (d : List Char) : Prop := ∃ c m, d = c :: m ∧ c ∈ identChars ∧ ∀ x ∈ m, x ∈ identChars

/-- `", m1, m2 …"` -/
def csMems (ms : List (List Char)) : List Char := (ms.map (fun x => ',' :: ' ' :: x)).flatten

theorem csMems_cons (x : List Char) (ms : List (List Char)) : csMems (x :: ms) = ',' :: ' ' :: (x ++ csMems ms) := by
  simp [csMems]

theorem csMems_length (ms : List (List Char)) : ms.length ≤ (csMems ms).length := by
  induction ms with
  | nil => simp [csMems]
  | cons d ds ih => rw [csMems_cons]; simp; omega

theorem notab_csMems (ms : List (List Char)) (h : ∀ d ∈ ms, IsId d) : '\t' ∉ csMems ms := by
  induction ms with
  | nil => simp [csMems]
  | cons d ds ih =>
    obtain ⟨c, m, rfl, hc, hm⟩ := h d (by simp)
    have h1 := notab_ident (c :: m) (by intro x hx; rcases List.mem_cons.mp hx with rfl | h; exact hc; exact hm x h)
    rw [csMems_cons]
    simp only [List.mem_cons, List.mem_append, not_or]
    simp only [List.mem_cons, not_or] at h1
    exact ⟨by decide, by decide, ⟨h1.1, h1.2⟩, ih (fun x hx => h x (List.mem_cons_of_mem _ hx))⟩

theorem OutHd_csMems (ms : List (List Char)) (tail : List Char) :
    OutHd (fun x => x ∉ identChars) (csMems ms ++ (']' :: tail)) := by
  cases ms with
  | nil => exact OutHd_cons _ _ _ (punct_facts ']' (by decide)).1
  | cons d ds => rw [csMems_cons]; exact OutHd_cons _ _ _ (punct_facts ',' (by decide)).1

theorem OkMany_mems (env : Env) (ms : List (List Char)) (tail : List Char) (hd : ∀ d ∈ ms, IsId d) :
    OkMany env (ms.length + 6) {} (.seq [.suppress (.lit [',']), pil_identifier])
      { rest := csMems ms ++ (']' :: tail), past := false }
      ({ rest := ']' :: tail, past := false }, ms.map (fun d => .tok (String.ofList d))) := by
  induction ms with
  | nil =>
    have h0 : No env 2 {} (.suppress (.lit [','])) { rest := ']' :: tail, past := false } :=
      No_punct env _ ',' ']' tail (skipIgn_cons ']' tail (by decide) (by decide)) (by decide)
    have := OkMany_stop (No_seq (NoSeq_head (gs := [pil_identifier]) h0))
    intro reps fuel hr hf
    simpa [csMems] using this reps fuel (by omega) (by omega)
  | cons d ds ih =>
    obtain ⟨c, m, rfl, hc, hm⟩ := hd d (by simp)
    have ih' := ih (fun d hd' => hd d (List.mem_cons_of_mem _ hd'))
    have h1 : Ok env 2 {} (.suppress (.lit [','])) { rest := ',' :: ' ' :: (c :: m ++ (csMems ds ++ (']' :: tail))), past := false }
        ({ rest := ' ' :: (c :: m ++ (csMems ds ++ (']' :: tail))), past := false }, []) :=
      Ok_punct env 0 ',' _ (by decide) (by decide)
    have h2 : Ok env 1 {} pil_identifier { rest := ' ' :: (c :: m ++ (csMems ds ++ (']' :: tail))), past := false }
        ({ rest := csMems ds ++ (']' :: tail), past := false }, [.tok (String.ofList (c :: m))]) :=
      Ok_ident env 1 c m _ hc hm (OutHd_csMems ds tail)
    have hne : ({ rest := csMems ds ++ (']' :: tail), past := false } : Pos) ≠
        { rest := ',' :: ' ' :: (c :: m ++ (csMems ds ++ (']' :: tail))), past := false } :=
      pos_ne_of_length _ _ _ _ (by simp; omega)
    have := OkMany_step (Ok_seq (OkSeq_cons h1 (OkSeq_cons h2 (OkSeq_nil env _ _)))) hne ih'
    rw [csMems_cons]
    simp only [List.cons_append, List.append_assoc, List.nil_append, List.append_nil,
      List.map_cons, List.length_cons] at this ⊢
    intro reps fuel hr hf
    exact this reps fuel (by omega) (by omega)

def restBody (kw : List Char) : G :=
  .group (.tag "resting-macrostate" (.seq [.suppress (.kw kw identChars), pil_identifier, .suppress (.lit ['=']),
    .suppress (.lit ['[']), .group (.seq [pil_identifier, .many (.seq [.suppress (.lit [',']), pil_identifier])]),
    .suppress (.lit [']']), .many1 (.suppress .lineEnd)]))

def restText (a : Nat) (c : Char) (m : List Char) (b cc : Nat) (mc : Char) (mm : List Char)
    (ms : List (List Char)) (e : Nat) : List Char :=
  List.replicate a ' ' ++ (c :: m ++ (List.replicate b ' ' ++ ('=' :: (List.replicate cc ' ' ++ ('[' ::
    (mc :: mm ++ (csMems ms ++ (']' :: (List.replicate e ' ' ++ ['\n'])))))))))

theorem Ok_rest_body (env : Env) (kc : Char) (ks : List Char) (hk : isWs kc = false) (hk' : kc ≠ '#')
    (a : Nat) (ha : 0 < a) (c : Char) (m : List Char) (b cc : Nat) (mc : Char) (mm : List Char)
    (ms : List (List Char)) (e : Nat)
    (hc : c ∈ identChars) (hm : ∀ x ∈ m, x ∈ identChars) (hmc : mc ∈ identChars) (hmm : ∀ x ∈ mm, x ∈ identChars)
    (hms : ∀ x ∈ ms, IsId x) :
    Ok env (ms.length + 22) {} (restBody (kc :: ks))
      { rest := kc :: (ks ++ restText a c m b cc mc mm ms e), past := false }
      ({ rest := [], past := true },
        [.grp [.tok "resting-macrostate", .tok (String.ofList (c :: m)),
          .grp (((mc :: mm) :: ms).map (fun d => .tok (String.ofList d)))]]) := by
  unfold restBody restText
  have h1 := Ok_kw env kc ks (List.replicate a ' ' ++ (c :: m ++ (List.replicate b ' ' ++ ('=' ::
    (List.replicate cc ' ' ++ ('[' :: (mc :: mm ++ (csMems ms ++ (']' :: (List.replicate e ' ' ++ ['\n']))))))))))
    hk hk' (OutHd_kw_blanks a ha _)
  have h2 := Ok_ident env a c m (List.replicate b ' ' ++ ('=' ::
    (List.replicate cc ' ' ++ ('[' :: (mc :: mm ++ (csMems ms ++ (']' :: (List.replicate e ' ' ++ ['\n']))))))))
    hc hm ((OutHd_sign b '=' (Or.inl rfl) _).imp (fun x hx => hx.1))
  have h3 := Ok_punct env b '=' (List.replicate cc ' ' ++ ('[' :: (mc :: mm ++ (csMems ms ++
    (']' :: (List.replicate e ' ' ++ ['\n'])))))) (by decide) (by decide)
  have h4 := Ok_punct env cc '[' (mc :: mm ++ (csMems ms ++ (']' :: (List.replicate e ' ' ++ ['\n']))))
    (by decide) (by decide)
  have h5a : Ok env 1 {} pil_identifier
      { rest := mc :: mm ++ (csMems ms ++ (']' :: (List.replicate e ' ' ++ ['\n']))), past := false }
      ({ rest := csMems ms ++ (']' :: (List.replicate e ' ' ++ ['\n'])), past := false },
        [.tok (String.ofList (mc :: mm))]) :=
    Ok_ident env 0 mc mm _ hmc hmm (OutHd_csMems ms _)
  have h5b := Ok_many (OkMany_mems env ms (List.replicate e ' ' ++ ['\n']) hms)
  have h5 := Ok_group (Ok_seq (OkSeq_cons h5a (OkSeq_cons h5b (OkSeq_nil env _ _))))
  have h6 := Ok_punct env 0 ']' (List.replicate e ' ' ++ ['\n']) (by decide) (by decide)
  have h7 := Ok_eol env _ (EolTail_nl e)
  simp only [List.cons_append, List.replicate_zero, List.nil_append] at h1 h2 h3 h4 h5 h6 ⊢
  have := Ok_group (Ok_tag (t := "resting-macrostate") (Ok_seq (OkSeq_cons h1 (OkSeq_cons h2 (OkSeq_cons h3
    (OkSeq_cons h4 (OkSeq_cons h5 (OkSeq_cons h6 (OkSeq_cons h7 (OkSeq_nil env _ _))))))))))
  simp only [List.nil_append, List.append_nil, List.cons_append, List.map_cons] at this ⊢
  exact this.mono (by omega)

/-- `kernel-complex` fails on `<keyword> <name>…`: the identifier (the keyword) is not followed by `=` -/
theorem No_cplx_kw (env : Env) (kc : Char) (ks : List Char) (a : Nat) (c : Char) (r : List Char)
    (hkc : kc ∈ identChars) (hks : ∀ x ∈ ks, x ∈ identChars) (hc : c ∈ identChars) :
    No env 8 {} pil_cplx { rest := kc :: (ks ++ (List.replicate (a + 1) ' ' ++ (c :: r))), past := false } := by
  unfold pil_cplx
  have hcf := ident_facts c hc
  have w := Ok_ident env 0 kc ks (List.replicate (a + 1) ' ' ++ (c :: r)) hkc hks
    (OutHd_cons _ _ _ (outside_facts ' ' (by decide)))
  have l : No env 2 {} (.suppress (.lit ['=']))
      { rest := List.replicate (a + 1) ' ' ++ (c :: r), past := false } :=
    No_punct env _ '=' c r (skipIgn_blanks_cons (a + 1) c r hcf.1 hcf.2.1) hcf.2.2.1
  simp only [List.replicate_zero, List.nil_append, List.cons_append] at w
  have := No_group (No_tag (t := "kernel-complex") (No_seq (NoSeq_tail w (NoSeq_head
    (gs := [.many1 (.group (.ref "pattern")), .opt pil_conc, .many1 (.suppress .lineEnd)]) l))))
  exact this.mono (by decide)

theorem Ok_state_stmt (env : Env) (a : Nat) (c : Char) (r : List Char) (hc : c ∈ identChars)
    (res : Pos × List Tree) (N : Nat)
    (hbody : Ok env N {} (restBody ['s', 't', 'a', 't', 'e'])
      { rest := 's' :: (['t', 'a', 't', 'e'] ++ (List.replicate (a + 1) ' ' ++ (c :: r))), past := false } res) :
    Ok env (max N 10 + 12) {} pil_stmt
      { rest := 's' :: (['t', 'a', 't', 'e'] ++ (List.replicate (a + 1) ' ' ++ (c :: r))), past := false } res := by
  have hcx := No_cplx_kw env 's' ['t', 'a', 't', 'e'] a c r (by decide) (by decide) hc
  unfold pil_stmt pil_sl_domain pil_dl_domain pil_comp_domain pil_strand pil_strandcomplex pil_reaction pil_restingset
  unfold restBody at hbody
  have nk : ∀ (t : String) (s : List Char) (gs : List G),
      stripPrefix s ('s' :: (['t', 'a', 't', 'e'] ++ (List.replicate (a + 1) ' ' ++ (c :: r)))) = none →
      No env 6 {} (.group (.tag t (.seq (.suppress (.kw s identChars) :: gs))))
        { rest := 's' :: (['t', 'a', 't', 'e'] ++ (List.replicate (a + 1) ' ' ++ (c :: r))), past := false } :=
    fun t s gs h => No_gts_at env t s gs 's' _ (by decide) (by decide) h
  exact (Ok_alt (OkAlt_tail (nk _ _ _ (by simp [stripPrefix]))
    (OkAlt_tail (No_alt (NoAlt_cons (nk _ _ _ (by simp [stripPrefix])) (NoAlt_cons (nk _ _ _ (by simp [stripPrefix])) (NoAlt_cons (nk _ _ _ (by simp [stripPrefix])) (NoAlt_nil env _ _)))))
    (OkAlt_tail (nk _ _ _ (by simp [stripPrefix]))
    (OkAlt_tail (nk _ _ _ (by simp [stripPrefix]))
    (OkAlt_tail (No_alt (NoAlt_cons (nk _ _ _ (by simp [stripPrefix])) (NoAlt_cons (nk _ _ _ (by simp [stripPrefix])) (NoAlt_nil env _ _))))
    (OkAlt_tail (No_alt (NoAlt_cons (nk _ _ _ (by simp [stripPrefix])) (NoAlt_cons (nk _ _ _ (by simp [stripPrefix])) (NoAlt_nil env _ _))))
    (OkAlt_tail hcx
    (OkAlt_head (Ok_alt (OkAlt_head hbody))))))))))).mono (by omega)

theorem Ok_macrostate_stmt (env : Env) (a : Nat) (c : Char) (r : List Char) (hc : c ∈ identChars)
    (res : Pos × List Tree) (N : Nat)
    (hbody : Ok env N {} (restBody ['m', 'a', 'c', 'r', 'o', 's', 't', 'a', 't', 'e'])
      { rest := 'm' :: (['a', 'c', 'r', 'o', 's', 't', 'a', 't', 'e'] ++ (List.replicate (a + 1) ' ' ++ (c :: r))),
        past := false } res) :
    Ok env (max N 10 + 13) {} pil_stmt
      { rest := 'm' :: (['a', 'c', 'r', 'o', 's', 't', 'a', 't', 'e'] ++ (List.replicate (a + 1) ' ' ++ (c :: r))),
        past := false } res := by
  have hcx := No_cplx_kw env 'm' ['a', 'c', 'r', 'o', 's', 't', 'a', 't', 'e'] a c r (by decide) (by decide) hc
  unfold pil_stmt pil_sl_domain pil_dl_domain pil_comp_domain pil_strand pil_strandcomplex pil_reaction pil_restingset
  unfold restBody at hbody
  have nk : ∀ (t : String) (s : List Char) (gs : List G),
      stripPrefix s ('m' :: (['a', 'c', 'r', 'o', 's', 't', 'a', 't', 'e'] ++ (List.replicate (a + 1) ' ' ++ (c :: r)))) = none →
      No env 6 {} (.group (.tag t (.seq (.suppress (.kw s identChars) :: gs))))
        { rest := 'm' :: (['a', 'c', 'r', 'o', 's', 't', 'a', 't', 'e'] ++ (List.replicate (a + 1) ' ' ++ (c :: r))),
          past := false } :=
    fun t s gs h => No_gts_at env t s gs 'm' _ (by decide) (by decide) h
  exact (Ok_alt (OkAlt_tail (nk _ _ _ (by simp [stripPrefix]))
    (OkAlt_tail (No_alt (NoAlt_cons (nk _ _ _ (by simp [stripPrefix])) (NoAlt_cons (nk _ _ _ (by simp [stripPrefix])) (NoAlt_cons (nk _ _ _ (by simp [stripPrefix])) (NoAlt_nil env _ _)))))
    (OkAlt_tail (nk _ _ _ (by simp [stripPrefix]))
    (OkAlt_tail (nk _ _ _ (by simp [stripPrefix]))
    (OkAlt_tail (No_alt (NoAlt_cons (nk _ _ _ (by simp [stripPrefix])) (NoAlt_cons (nk _ _ _ (by simp [stripPrefix])) (NoAlt_nil env _ _))))
    (OkAlt_tail (No_alt (NoAlt_cons (nk _ _ _ (by simp [stripPrefix])) (NoAlt_cons (nk _ _ _ (by simp [stripPrefix])) (NoAlt_nil env _ _))))
    (OkAlt_tail hcx
    (OkAlt_head (Ok_alt (OkAlt_tail (nk _ _ _ (by simp [stripPrefix])) (OkAlt_head hbody)))))))))))).mono (by omega)

theorem rest_parse (kw : List Char)
    (hkw : kw = ['s', 't', 'a', 't', 'e'] ∨ kw = ['m', 'a', 'c', 'r', 'o', 's', 't', 'a', 't', 'e'])
    (a : Nat) (c : Char) (m : List Char) (b cc : Nat) (mc : Char) (mm : List Char)
    (ms : List (List Char)) (e : Nat)
    (hc : c ∈ identChars) (hm : ∀ x ∈ m, x ∈ identChars) (hmc : mc ∈ identChars) (hmm : ∀ x ∈ mm, x ∈ identChars)
    (hms : ∀ x ∈ ms, IsId x) :
    parseDoc pil_env pil_grammar (String.ofList (kw ++ restText (a + 1) c m b cc mc mm ms e)) =
      some [.grp [.tok "resting-macrostate", .tok (String.ofList (c :: m)),
        .grp (((mc :: mm) :: ms).map (fun d => .tok (String.ofList d)))]] := by
  have hlen : ms.length ≤ (restText (a + 1) c m b cc mc mm ms e).length := by
    have := csMems_length ms
    unfold restText
    simp only [List.length_append, List.length_cons]
    omega
  have hnt : '\t' ∉ restText (a + 1) c m b cc mc mm ms e := by
    have h1 := notab_ident (c :: m) (by intro x hx; rcases List.mem_cons.mp hx with rfl | h; exact hc; exact hm x h)
    have h2 := notab_ident (mc :: mm) (by intro x hx; rcases List.mem_cons.mp hx with rfl | h; exact hmc; exact hmm x h)
    unfold restText
    simp only [List.mem_append, List.mem_cons, not_or]
    simp only [List.mem_cons, not_or] at h1 h2
    exact ⟨notab_replicate _, ⟨h1.1, h1.2⟩, notab_replicate b, by decide, notab_replicate cc, by decide,
      ⟨h2.1, h2.2⟩, notab_csMems ms hms, by decide, notab_replicate e, by decide, List.not_mem_nil⟩
  have hform : restText (a + 1) c m b cc mc mm ms e = List.replicate (a + 1) ' ' ++ (c :: (m ++ (List.replicate b ' ' ++
      ('=' :: (List.replicate cc ' ' ++ ('[' :: (mc :: mm ++ (csMems ms ++ (']' :: (List.replicate e ' ' ++ ['\n'])))))))))) := rfl
  rcases hkw with rfl | rfl
  · have hb := Ok_rest_body pil_env 's' ['t', 'a', 't', 'e'] (by decide) (by decide) (a + 1) (Nat.succ_pos a) c m b cc mc mm ms e
      hc hm hmc hmm hms
    rw [hform] at hb
    have hstmt := Ok_state_stmt pil_env a c _ hc _ _ hb
    rw [← hform] at hstmt
    refine parse_stmt' _ 's' _ _ _ (skipIgn_cons 's' _ (by decide) (by decide)) (by decide) hstmt ?_ ?_
    · simp only [List.length_append, List.length_cons] at hlen ⊢; omega
    · show '\t' ∉ ['s', 't', 'a', 't', 'e'] ++ restText (a + 1) c m b cc mc mm ms e
      intro h
      rcases List.mem_append.mp h with h | h
      · revert h; decide
      · exact hnt h
  · have hb := Ok_rest_body pil_env 'm' ['a', 'c', 'r', 'o', 's', 't', 'a', 't', 'e'] (by decide) (by decide)
      (a + 1) (Nat.succ_pos a) c m b cc mc mm ms e hc hm hmc hmm hms
    rw [hform] at hb
    have hstmt := Ok_macrostate_stmt pil_env a c _ hc _ _ hb
    rw [← hform] at hstmt
    refine parse_stmt' _ 'm' _ _ _ (skipIgn_cons 'm' _ (by decide) (by decide)) (by decide) hstmt ?_ ?_
    · simp only [List.length_append, List.length_cons] at hlen ⊢; omega
    · show '\t' ∉ ['m', 'a', 'c', 'r', 'o', 's', 't', 'a', 't', 'e'] ++ restText (a + 1) c m b cc mc mm ms e
      intro h
      rcases List.mem_append.mp h with h | h
      · revert h; decide
      · exact hnt h


/-! ### a statement without a name -/

theorem No_stmt_eq (env : Env) (r : List Char) : No env 20 {} pil_stmt { rest := '=' :: r, past := false } := by
  unfold pil_stmt pil_sl_domain pil_dl_domain pil_comp_domain pil_strand pil_strandcomplex pil_reaction
    pil_cplx pil_restingset
  have nk : ∀ (t : String) (s : List Char) (gs : List G), stripPrefix s ('=' :: r) = none →
      No env 6 {} (.group (.tag t (.seq (.suppress (.kw s identChars) :: gs)))) { rest := '=' :: r, past := false } :=
    fun t s gs h => No_gts_at env t s gs '=' r (by decide) (by decide) h
  have hw : No env 1 {} pil_identifier { rest := '=' :: r, past := false } :=
    No_word_cons env {} _ _ _ '=' r (by rw [pre_skip]; exact skipIgn_cons '=' r (by decide) (by decide))
      (outside_facts '=' (by decide))
  refine (No_alt (NoAlt_cons (nk _ _ _ (by simp [stripPrefix]))
    (NoAlt_cons (No_alt (NoAlt_cons (nk _ _ _ (by simp [stripPrefix])) (NoAlt_cons (nk _ _ _ (by simp [stripPrefix]))
      (NoAlt_cons (nk _ _ _ (by simp [stripPrefix])) (NoAlt_nil env _ _)))))
    (NoAlt_cons (nk _ _ _ (by simp [stripPrefix]))
    (NoAlt_cons (nk _ _ _ (by simp [stripPrefix]))
    (NoAlt_cons (No_alt (NoAlt_cons (nk _ _ _ (by simp [stripPrefix])) (NoAlt_cons (nk _ _ _ (by simp [stripPrefix]))
      (NoAlt_nil env _ _))))
    (NoAlt_cons (No_alt (NoAlt_cons (nk _ _ _ (by simp [stripPrefix])) (NoAlt_cons (nk _ _ _ (by simp [stripPrefix]))
      (NoAlt_nil env _ _))))
    (NoAlt_cons (No_group (No_tag (No_seq (NoSeq_head hw))))
    (NoAlt_cons (No_alt (NoAlt_cons (nk _ _ _ (by simp [stripPrefix])) (NoAlt_cons (nk _ _ _ (by simp [stripPrefix]))
      (NoAlt_nil env _ _))))
    (NoAlt_nil env _ _)))))))))).mono (by decide)

theorem missing_name (rest : List Char) :
    parseDoc pil_env pil_grammar (String.ofList ('=' :: ' ' :: rest)) = none := by
  unfold parseDoc
  have e : expandTabs (String.ofList ('=' :: ' ' :: rest)).toList 0 = '=' :: ' ' :: expandTabs rest 2 := by
    rw [String.toList_ofList]
    simp [expandTabs]
  simp only [e]
  have := No_document pil_env 20 ('=' :: ' ' :: expandTabs rest 2) '=' _
    (skipIgn_cons '=' _ (by decide) (by decide)) (by decide) (No_stmt_eq pil_env _)
  rw [this _ (by simp only [List.length_cons]; omega)]


/-! ### kernel patterns: first-return decomposition of the `nestGo` stack machine -/

abbrev Ent := String × Char

mutual
/-- one item (`n`, `+`, or `n( … )`) at the head of the list -/
def pItem : Nat → List Ent → Option (List Tree × List Ent)
  | 0, _ => none
  | _ + 1, [] => none
  | f + 1, (n, c) :: R =>
    if c = '(' then
      match pItems f R with
      | some (inner, (_, c') :: R') => if c' = ')' then some ([.tok n, .grp inner], R') else none
      | _ => none
    else if c = ')' then none
    else if c = '+' then some ([.tok "+"], R)
    else some ([.tok n], R)
/-- items up to the next unmatched `)` or the end of the list -/
def pItems : Nat → List Ent → Option (List Tree × List Ent)
  | 0, _ => none
  | _ + 1, [] => some ([], [])
  | f + 1, (n, c) :: R =>
    if c = ')' then some ([], (n, c) :: R)
    else match pItem f ((n, c) :: R) with
      | some (t1, L1) =>
        (match pItems f L1 with
         | some (ts, R') => some (t1 ++ ts, R')
         | none => none)
      | none => none
end

theorem nestGo_cons (n : String) (c : Char) (rest : List Ent) (cur : List Tree) (stack : List (List Tree)) :
    nestGo ((n, c) :: rest) cur stack =
      if c = '(' then nestGo rest [] ((cur ++ [.tok n]) :: stack)
      else if c = ')' then
        match stack with
        | [] => none
        | outer :: stack' => nestGo rest (outer ++ [.grp cur]) stack'
      else if c = '+' then nestGo rest (cur ++ [.tok "+"]) stack
      else nestGo rest (cur ++ [.tok n]) stack := by
  conv => lhs; rw [nestGo.eq_def]
  rfl

/-- `pItem` / `pItems` consume a prefix on which `nestGo` just extends the current list -/
theorem pItem_nestGo : ∀ f : Nat,
    (∀ L t1 L1, pItem f L = some (t1, L1) → L1.length < L.length ∧
      ∀ cur stack, nestGo L cur stack = nestGo L1 (cur ++ t1) stack) ∧
    (∀ L ts R, pItems f L = some (ts, R) → R.length ≤ L.length ∧ (R = [] ∨ ∃ n R', R = (n, ')') :: R') ∧
      ∀ cur stack, nestGo L cur stack = nestGo R (cur ++ ts) stack) := by
  intro f
  induction f with
  | zero => exact ⟨fun L t1 L1 h => by simp [pItem] at h, fun L ts R h => by simp [pItems] at h⟩
  | succ f ih =>
    obtain ⟨ih1, ih2⟩ := ih
    constructor
    · intro L t1 L1 h
      cases L with
      | nil => simp [pItem] at h
      | cons e R =>
        obtain ⟨n, c⟩ := e
        rw [pItem] at h
        by_cases h1 : c = '('
        · subst h1
          simp only [if_true] at h
          cases hp : pItems f R with
          | none => simp [hp] at h
          | some q =>
            obtain ⟨inner, R1⟩ := q
            cases R1 with
            | nil => simp [hp] at h
            | cons e' R' =>
              obtain ⟨m, c'⟩ := e'
              simp only [hp] at h
              by_cases h2 : c' = ')'
              · subst h2
                simp only [if_true, Option.some.injEq, Prod.mk.injEq] at h
                obtain ⟨rfl, rfl⟩ := h
                obtain ⟨l1, _, g1⟩ := ih2 R inner _ hp
                refine ⟨by simp at l1 ⊢; omega, ?_⟩
                intro cur stack
                rw [nestGo_cons, if_pos rfl, g1, nestGo_cons, if_neg (by decide), if_pos rfl]
                simp
              · simp [h2] at h
        · simp only [h1, if_false] at h
          by_cases h2 : c = ')'
          · simp [h2] at h
          · simp only [h2, if_false] at h
            by_cases h3 : c = '+'
            · simp only [h3, if_true, Option.some.injEq, Prod.mk.injEq] at h
              obtain ⟨rfl, rfl⟩ := h
              refine ⟨by simp, ?_⟩
              intro cur stack
              rw [nestGo_cons, if_neg h1, if_neg h2, if_pos h3]
            · simp only [h3, if_false, Option.some.injEq, Prod.mk.injEq] at h
              obtain ⟨rfl, rfl⟩ := h
              refine ⟨by simp, ?_⟩
              intro cur stack
              rw [nestGo_cons, if_neg h1, if_neg h2, if_neg h3]
    · intro L ts R h
      cases L with
      | nil =>
        simp only [pItems, Option.some.injEq, Prod.mk.injEq] at h
        obtain ⟨rfl, rfl⟩ := h
        exact ⟨Nat.le_refl _, Or.inl rfl, fun cur stack => by simp⟩
      | cons e R0 =>
        obtain ⟨n, c⟩ := e
        rw [pItems] at h
        by_cases h2 : c = ')'
        · subst h2
          simp only [if_true, Option.some.injEq, Prod.mk.injEq] at h
          obtain ⟨rfl, rfl⟩ := h
          exact ⟨Nat.le_refl _, Or.inr ⟨n, R0, rfl⟩, fun cur stack => by simp⟩
        · simp only [h2, if_false] at h
          cases hp : pItem f ((n, c) :: R0) with
          | none => simp [hp] at h
          | some q =>
            obtain ⟨t1, L1⟩ := q
            simp only [hp] at h
            cases hp2 : pItems f L1 with
            | none => simp [hp2] at h
            | some q2 =>
              obtain ⟨ts', R'⟩ := q2
              simp only [hp2, Option.some.injEq, Prod.mk.injEq] at h
              obtain ⟨rfl, rfl⟩ := h
              obtain ⟨l1, g1⟩ := ih1 _ _ _ hp
              obtain ⟨l2, s2, g2⟩ := ih2 _ _ _ hp2
              refine ⟨by omega, s2, ?_⟩
              intro cur stack
              rw [g1, g2, List.append_assoc]

/-- with enough fuel `pItem` / `pItems` fail only where `nestGo` fails -/
theorem pItem_total : ∀ f : Nat,
    (∀ (n : String) (c : Char) (R : List Ent), 2 * (R.length + 1) ≤ f → c ≠ ')' → pItem f ((n, c) :: R) = none →
      ∀ cur stack, nestGo ((n, c) :: R) cur stack = none) ∧
    (∀ L : List Ent, 2 * L.length + 1 ≤ f → pItems f L = none → ∀ cur stack, nestGo L cur stack = none) := by
  intro f
  induction f using Nat.strongRecOn with
  | _ f ih =>
    constructor
    · intro n c R hf hc h cur stack
      obtain ⟨f', rfl⟩ : ∃ f', f = f' + 1 := ⟨f - 1, by omega⟩
      rw [pItem] at h
      by_cases h1 : c = '('
      · subst h1
        simp only [if_true] at h
        rw [nestGo_cons, if_pos rfl]
        cases hp : pItems f' R with
        | none => exact (ih f' (by omega)).2 R (by omega) hp _ _
        | some q =>
          obtain ⟨inner, R1⟩ := q
          obtain ⟨_, s1, g1⟩ := (pItem_nestGo f').2 R inner R1 hp
          rw [g1]
          rcases s1 with rfl | ⟨m, R', rfl⟩
          · rfl
          · simp [hp] at h
      · simp only [h1, if_false, hc] at h
        by_cases h3 : c = '+' <;> simp [h3] at h
    · intro L hf h cur stack
      obtain ⟨f', rfl⟩ : ∃ f', f = f' + 1 := ⟨f - 1, by omega⟩
      cases L with
      | nil => simp [pItems] at h
      | cons e R0 =>
        obtain ⟨n, c⟩ := e
        rw [pItems] at h
        by_cases h2 : c = ')'
        · simp [h2] at h
        · simp only [h2, if_false] at h
          simp only [List.length_cons] at hf
          cases hp : pItem f' ((n, c) :: R0) with
          | none => exact (ih f' (by omega)).1 n c R0 (by omega) h2 hp cur stack
          | some q =>
            obtain ⟨t1, L1⟩ := q
            simp only [hp] at h
            obtain ⟨l1, g1⟩ := (pItem_nestGo f').1 _ _ _ hp
            simp only [List.length_cons] at l1
            cases hp2 : pItems f' L1 with
            | none => rw [g1]; exact (ih f' (by omega)).2 L1 (by omega) hp2 _ _
            | some q2 => simp [hp2] at h

/-- `kernelTokens` is the first-return decomposition -/
theorem pItems_of_nestGo (L : List Ent) (toks : List Tree) (h : nestGo L [] [] = some toks) :
    pItems (2 * L.length + 1) L = some (toks, []) := by
  cases hp : pItems (2 * L.length + 1) L with
  | none =>
    have := (pItem_total _).2 L (Nat.le_refl _) hp [] []
    rw [this] at h; simp at h
  | some q =>
    obtain ⟨ts, R⟩ := q
    obtain ⟨_, s1, g1⟩ := (pItem_nestGo _).2 L ts R hp
    rw [g1] at h
    rcases s1 with rfl | ⟨m, R', rfl⟩
    · simp only [List.nil_append, nestGo, Option.some.injEq] at h
      rw [h]
    · rw [nestGo_cons, if_neg (by decide), if_pos rfl] at h
      simp at h


/-! ### kernel patterns: the grammar elements -/

/-- what may follow a name: not an identifier character, not `*`, `^`, `(` -/
def NameEnd (x : Char) : Prop := x ∉ identChars ∧ x ≠ '*' ∧ x ≠ '^' ∧ x ≠ '('

theorem pos_eta (p : Pos) : p = { rest := p.rest, past := p.past } := rfl

/-- `pil_sense`: identifier, no `^`, optional `*` (any context; `pre ctx p` is the position after skipping) -/
theorem Ok_sense (env : Env) (ctx : Ctx) (p : Pos) (c : Char) (m : List Char) (st : Bool) (r : List Char)
    (h : pre ctx p = { rest := c :: m ++ (star st ++ r), past := false })
    (hc : c ∈ identChars) (hm : ∀ x ∈ m, x ∈ identChars)
    (hr : OutHd (fun x => x ∉ identChars ∧ x ≠ '*' ∧ x ≠ '^') r) :
    Ok env 8 ctx pil_sense p ({ rest := r, past := false }, [.tok (String.ofList (c :: m ++ star st))]) := by
  unfold pil_sense
  have hword : Ok env 1 { skip := false } pil_identifier { rest := c :: m ++ (star st ++ r), past := false }
      ({ rest := star st ++ r, past := false }, [.tok (String.ofList (c :: m))]) := by
    apply Ok_word env { skip := false } _ _ _ c m (star st ++ r) rfl hc hm
    cases st with
    | true => exact OutHd_cons _ _ _ (outside_facts '*' (by decide))
    | false => exact fun x hx => (hr x hx).1
  have hhat : No env 1 { skip := false } (.lit ['^']) { rest := star st ++ r, past := false } := by
    apply No_lit
    show stripPrefix ['^'] (star st ++ r) = none
    cases st with
    | true => simp [star, stripPrefix]
    | false =>
      show stripPrefix ['^'] r = none
      cases r with
      | nil => rfl
      | cons x t => have := (hr x rfl).2.2; simp [stripPrefix, Ne.symm this]
  cases st with
  | true =>
    have hstar : Ok env 1 { skip := false } (.lit ['*']) { rest := star true ++ r, past := false }
        ({ rest := r, past := false }, [.tok (String.ofList ['*'])]) :=
      Ok_lit env _ ['*'] _ r rfl rfl
    have := Ok_combine (ctx := ctx) (p := p) (toks := [String.ofList (c :: m), String.ofList ['*']]) (N' := 3)
      (h ▸ Ok_seq (OkSeq_cons hword (OkSeq_cons (Ok_opt_none hhat) (OkSeq_cons (Ok_opt_some hstar)
        (OkSeq_nil env _ _)))))
      (by intro f hf; obtain ⟨k, rfl⟩ : ∃ k, f = k + 3 := ⟨f - 3, by omega⟩; simp [flatToks])
    rw [join2] at this
    exact this.mono (by decide)
  | false =>
    have hno : No env 1 { skip := false } (.lit ['*']) { rest := star false ++ r, past := false } := by
      apply No_lit
      show stripPrefix ['*'] r = none
      cases r with
      | nil => rfl
      | cons x t => have := (hr x rfl).2.1; simp [stripPrefix, Ne.symm this]
    have := Ok_combine (ctx := ctx) (p := p) (toks := [String.ofList (c :: m)]) (N' := 2)
      (h ▸ Ok_seq (OkSeq_cons hword (OkSeq_cons (Ok_opt_none hhat) (OkSeq_cons (Ok_opt_none hno)
        (OkSeq_nil env _ _)))))
      (by intro f hf; obtain ⟨k, rfl⟩ : ∃ k, f = k + 2 := ⟨f - 2, by omega⟩; simp [flatToks])
    rw [join1] at this
    simpa [star] using this.mono (by decide)

theorem No_sense (env : Env) (ctx : Ctx) (p : Pos) (c0 : Char) (t : List Char) (h : (pre ctx p).rest = c0 :: t)
    (hc0 : c0 ∉ identChars) : No env 4 ctx pil_sense p := by
  unfold pil_sense pil_identifier
  have : No env 1 { skip := false } (.word identChars identChars) (pre ctx p) :=
    No_word_cons env _ _ _ _ c0 t (by rw [pre_noskip]; exact h) hc0
  exact (No_combine (No_seq (NoSeq_head this))).mono (by decide)

/-- the head of a loop, `Combine(sense + Suppress("("))` -/
def loopHead : G := .combine (.seq [pil_sense, .suppress (.lit ['('])])

theorem Ok_loopHead (env : Env) (c : Char) (m : List Char) (st : Bool) (r : List Char)
    (hc : c ∈ identChars) (hm : ∀ x ∈ m, x ∈ identChars) :
    Ok env 14 {} loopHead { rest := ' ' :: (c :: m ++ (star st ++ ('(' :: r))), past := false }
      ({ rest := r, past := false }, [.tok (String.ofList (c :: m ++ star st))]) := by
  unfold loopHead
  have hcf := ident_facts c hc
  have hpre : pre {} { rest := ' ' :: (c :: m ++ (star st ++ ('(' :: r))), past := false } =
      { rest := c :: m ++ (star st ++ ('(' :: r)), past := false } := by
    show (⟨skipIgn _, false⟩ : Pos) = _
    have := skipIgn_blanks_cons 1 c (m ++ (star st ++ ('(' :: r))) hcf.1 hcf.2.1
    simp only [List.replicate_one, List.singleton_append] at this
    rw [List.cons_append, this]
  have h1 := Ok_sense env { skip := false } { rest := c :: m ++ (star st ++ ('(' :: r)), past := false } c m st
    ('(' :: r) rfl hc hm (OutHd_cons _ _ _ ⟨(punct_facts '(' (by decide)).1, by decide, by decide⟩)
  have h2 : Ok env 2 { skip := false } (.suppress (.lit ['('])) { rest := '(' :: r, past := false }
      ({ rest := r, past := false }, []) := Ok_suppress (Ok_lit env _ ['('] _ r rfl rfl)
  have := Ok_combine (ctx := {}) (toks := [String.ofList (c :: m ++ star st)]) (N' := 2)
    (hpre ▸ Ok_seq (OkSeq_cons h1 (OkSeq_cons h2 (OkSeq_nil env _ _))))
    (by intro f hf; obtain ⟨k, rfl⟩ : ∃ k, f = k + 2 := ⟨f - 2, by omega⟩; simp [flatToks])
  rw [join1] at this
  exact this.mono (by decide)

/-- the loop head fails on a name that is not followed by `(` -/
theorem No_loopHead_plain (env : Env) (c : Char) (m : List Char) (st : Bool) (r : List Char)
    (hc : c ∈ identChars) (hm : ∀ x ∈ m, x ∈ identChars) (hr : OutHd NameEnd r) :
    No env 14 {} loopHead { rest := ' ' :: (c :: m ++ (star st ++ r)), past := false } := by
  unfold loopHead
  have hcf := ident_facts c hc
  have hpre : pre {} { rest := ' ' :: (c :: m ++ (star st ++ r)), past := false } =
      { rest := c :: m ++ (star st ++ r), past := false } := by
    show (⟨skipIgn _, false⟩ : Pos) = _
    have := skipIgn_blanks_cons 1 c (m ++ (star st ++ r)) hcf.1 hcf.2.1
    simp only [List.replicate_one, List.singleton_append] at this
    rw [List.cons_append, this]
  have h1 := Ok_sense env { skip := false } { rest := c :: m ++ (star st ++ r), past := false } c m st
    r rfl hc hm (hr.imp (fun x hx => ⟨hx.1, hx.2.1, hx.2.2.1⟩))
  have h2 : No env 2 { skip := false } (.suppress (.lit ['('])) { rest := r, past := false } := by
    apply No_suppress; apply No_lit
    show stripPrefix ['('] r = none
    cases r with
    | nil => rfl
    | cons x t => have := (hr x rfl).2.2.2; simp [stripPrefix, Ne.symm this]
  exact (No_combine (hpre ▸ No_seq (NoSeq_tail h1 (NoSeq_head h2)))).mono (by decide)

theorem No_loopHead_at (env : Env) (p : Pos) (c0 : Char) (t : List Char) (h : skipIgn p.rest = c0 :: t)
    (hc0 : c0 ∉ identChars) : No env 7 {} loopHead p := by
  unfold loopHead
  have : No env 4 { skip := false } pil_sense (pre {} p) :=
    No_sense env _ _ c0 t (by rw [pre_noskip, pre_skip]; exact h) hc0
  exact (No_combine (No_seq (NoSeq_head this))).mono (by decide)

/-- one item of a pattern -/
def itemG : G := .alt [pil_loop, .lit ['+'], pil_sense]

theorem pattern_lookup : pil_env.lookup "pattern" = some (.many1 itemG) := by rfl

theorem No_item_at (env : Env) (p : Pos) (c0 : Char) (t : List Char) (h : skipIgn p.rest = c0 :: t)
    (hc0 : c0 ∉ identChars) (hplus : c0 ≠ '+') : No env 12 {} itemG p := by
  unfold itemG pil_loop
  have h1 := No_seq (NoSeq_head (gs := [.group (.opt pil_innerloop), .suppress (.lit [')'])])
    (No_loopHead_at env p c0 t h hc0))
  have h2 : No env 1 {} (.lit ['+']) p := by
    apply No_lit; rw [pre_skip, h]; simp [stripPrefix, Ne.symm hplus]
  have h3 := No_sense env {} p c0 t (by rw [pre_skip]; exact h) hc0
  exact (No_alt (NoAlt_cons h1 (NoAlt_cons h2 (NoAlt_cons h3 (NoAlt_nil env _ _))))).mono (by decide)

theorem Ok_item_plus (env : Env) (r : List Char) :
    Ok env 12 {} itemG { rest := ' ' :: '+' :: r, past := false }
      ({ rest := r, past := false }, [.tok "+"]) := by
  unfold itemG pil_loop
  have hsk : skipIgn (' ' :: '+' :: r) = '+' :: r := by
    have := skipIgn_blanks_cons 1 '+' r (by decide) (by decide)
    simpa using this
  have h1 := No_seq (NoSeq_head (gs := [.group (.opt pil_innerloop), .suppress (.lit [')'])])
    (No_loopHead_at env { rest := ' ' :: '+' :: r, past := false } '+' r hsk (punct_facts '+' (by decide)).1))
  have h2 : Ok env 1 {} (.lit ['+']) { rest := ' ' :: '+' :: r, past := false }
      ({ rest := r, past := false }, [.tok (String.ofList ['+'])]) :=
    Ok_lit env {} ['+'] _ r (by rw [pre_skip]; exact hsk) rfl
  exact (Ok_alt (OkAlt_tail h1 (OkAlt_head h2))).mono (by decide)

theorem Ok_item_leaf (env : Env) (c : Char) (m : List Char) (st : Bool) (r : List Char)
    (hc : c ∈ identChars) (hm : ∀ x ∈ m, x ∈ identChars) (hr : OutHd NameEnd r) :
    Ok env 20 {} itemG { rest := ' ' :: (c :: m ++ (star st ++ r)), past := false }
      ({ rest := r, past := false }, [.tok (String.ofList (c :: m ++ star st))]) := by
  unfold itemG pil_loop
  have hcf := ident_facts c hc
  have hsk : skipIgn (' ' :: (c :: m ++ (star st ++ r))) = c :: (m ++ (star st ++ r)) := by
    have := skipIgn_blanks_cons 1 c (m ++ (star st ++ r)) hcf.1 hcf.2.1
    simpa using this
  have h1 := No_seq (NoSeq_head (gs := [.group (.opt pil_innerloop), .suppress (.lit [')'])])
    (No_loopHead_plain env c m st r hc hm hr))
  have hplus : c ≠ '+' := fun e => (punct_facts '+' (by decide)).1 (e ▸ hc)
  have h2 : No env 1 {} (.lit ['+']) { rest := ' ' :: (c :: m ++ (star st ++ r)), past := false } := by
    apply No_lit; rw [pre_skip, hsk]; simp [stripPrefix, Ne.symm hplus]
  have h3 := Ok_sense env {} { rest := ' ' :: (c :: m ++ (star st ++ r)), past := false } c m st r
    (by show (⟨skipIgn _, false⟩ : Pos) = _; rw [hsk]; rfl) hc hm
    (hr.imp (fun x hx => ⟨hx.1, hx.2.1, hx.2.2.1⟩))
  exact (Ok_alt (OkAlt_tail h1 (OkAlt_tail h2 (OkAlt_head h3)))).mono (by decide)

/-- a loop whose inner group has been parsed (`k` blanks before the closing bracket) -/
theorem Ok_item_loop (env : Env) (N : Nat) (c : Char) (m : List Char) (st : Bool) (r0 r1 : List Char) (k : Nat)
    (inner : List Tree) (hc : c ∈ identChars) (hm : ∀ x ∈ m, x ∈ identChars)
    (hin : Ok env N {} (.group (.opt pil_innerloop)) { rest := r0, past := false }
      ({ rest := List.replicate k ' ' ++ (')' :: r1), past := false }, [.grp inner])) :
    Ok env (max N 14 + 5) {} itemG { rest := ' ' :: (c :: m ++ (star st ++ ('(' :: r0))), past := false }
      ({ rest := r1, past := false }, [.tok (String.ofList (c :: m ++ star st)), .grp inner]) := by
  unfold itemG pil_loop
  have h1 := Ok_loopHead env c m st r0 hc hm
  have h3 := Ok_punct env k ')' r1 (by decide) (by decide)
  unfold loopHead at h1
  have := Ok_alt (OkAlt_head (gs := [.lit ['+'], pil_sense])
    (Ok_seq (OkSeq_cons h1 (OkSeq_cons hin (OkSeq_cons h3 (OkSeq_nil env _ _))))))
  simp only [List.nil_append, List.append_nil, List.cons_append] at this
  exact this.mono (by omega)

/-- the inner group of an empty loop: `" )"` -/
theorem Ok_inner_empty (r : List Char) :
    Ok pil_env 20 {} (.group (.opt pil_innerloop)) { rest := ' ' :: ')' :: r, past := false }
      ({ rest := List.replicate 0 ' ' ++ (')' :: r), past := false }, [.grp []]) := by
  unfold pil_innerloop
  have hsk : skipIgn (' ' :: ')' :: r) = ')' :: r := by
    have := skipIgn_blanks_cons 1 ')' r (by decide) (by decide)
    simpa using this
  have h1 := No_ref pattern_lookup (No_many1 (No_item_at pil_env { rest := ' ' :: ')' :: r, past := false } ')' r hsk
    (punct_facts ')' (by decide)).1 (by decide)))
  have h2 := Ok_suppress (Ok_white_blank pil_env ')' r false (by decide) (by decide) (by decide))
  exact (Ok_group (Ok_opt_some (Ok_alt (OkAlt_tail h1 (OkAlt_head h2))))).mono (by decide)

/-- the inner group of a non-empty loop -/
theorem Ok_inner_nonempty (N : Nat) (r0 r1 : List Char) (inner : List Tree)
    (h : Ok pil_env N {} (.many1 itemG) { rest := r0, past := false } ({ rest := ' ' :: ')' :: r1, past := false }, inner)) :
    Ok pil_env (N + 5) {} (.group (.opt pil_innerloop)) { rest := r0, past := false }
      ({ rest := List.replicate 1 ' ' ++ (')' :: r1), past := false }, [.grp inner]) := by
  unfold pil_innerloop
  exact Ok_group (Ok_opt_some (Ok_alt (OkAlt_head (gs := [.suppress .white]) (Ok_ref pattern_lookup h))))


/-! ### kernel patterns: the simulation -/

/-- the word `kernel_string` writes for an entry -/
def word (e : Ent) : List Char :=
  if e.2 = '+' then ['+'] else if e.2 = ')' then [')'] else if e.2 = '(' then e.1.toList ++ ['('] else e.1.toList

/-- every word preceded by one blank -/
def sp (L : List Ent) : List Char := (L.map (fun e => ' ' :: word e)).flatten

theorem sp_cons (e : Ent) (R : List Ent) : sp (e :: R) = ' ' :: (word e ++ sp R) := by simp [sp]
theorem sp_append (P R : List Ent) : sp (P ++ R) = sp P ++ sp R := by simp [sp]

def LegalEnt (e : Ent) : Prop :=
  (e.2 = '+' → e.1 = "+") ∧ (e.2 ≠ '+' → IsDom e.1.toList) ∧ (e.2 = '(' ∨ e.2 = ')' ∨ e.2 = '.' ∨ e.2 = '+')

/-- what may follow a kernel pattern: not a character that continues a name, and no further item of a pattern
    (in particular: the end of the text, or a character that is neither an identifier character nor `+`) -/
def TailOK (X : List Char) : Prop :=
  OutHd NameEnd X ∧ No pil_env 12 {} itemG { rest := X, past := false }

theorem TailOK.of_cons (X : List Char) (h : OutHd NameEnd X) (c0 : Char) (t : List Char) (e1 : skipIgn X = c0 :: t)
    (e2 : c0 ∉ identChars) (e3 : c0 ≠ '+') : TailOK X :=
  ⟨h, No_item_at pil_env { rest := X, past := false } c0 t e1 e2 e3⟩

theorem OutHd_sp (R : List Ent) (X : List Char) (h : OutHd NameEnd X) : OutHd NameEnd (sp R ++ X) := by
  cases R with
  | nil => simpa [sp] using h
  | cons e R =>
    rw [sp_cons]
    exact OutHd_cons _ _ _ ⟨outside_facts ' ' (by decide), by decide, by decide, by decide⟩

theorem pItem_suffix : ∀ f : Nat,
    (∀ L t1 L1, pItem f L = some (t1, L1) → ∃ P, P ≠ [] ∧ L = P ++ L1) ∧
    (∀ L ts R, pItems f L = some (ts, R) → ∃ P, L = P ++ R) := by
  intro f
  induction f with
  | zero => exact ⟨fun L t1 L1 h => by simp [pItem] at h, fun L ts R h => by simp [pItems] at h⟩
  | succ f ih =>
    obtain ⟨ih1, ih2⟩ := ih
    constructor
    · intro L t1 L1 h
      cases L with
      | nil => simp [pItem] at h
      | cons e R =>
        obtain ⟨n, c⟩ := e
        rw [pItem] at h
        by_cases h1 : c = '('
        · simp only [h1, if_true] at h
          cases hp : pItems f R with
          | none => simp [hp] at h
          | some q =>
            obtain ⟨inner, R1⟩ := q
            cases R1 with
            | nil => simp [hp] at h
            | cons e' R' =>
              obtain ⟨m, c'⟩ := e'
              simp only [hp] at h
              by_cases h2 : c' = ')'
              · simp only [h2, if_true, Option.some.injEq, Prod.mk.injEq] at h
                obtain ⟨P, hP⟩ := ih2 R inner _ hp
                exact ⟨(n, c) :: (P ++ [(m, c')]), by simp, by rw [hP, ← h.2]; simp⟩
              · simp [h2] at h
        · simp only [h1, if_false] at h
          by_cases h2 : c = ')'
          · simp [h2] at h
          · simp only [h2, if_false] at h
            by_cases h3 : c = '+'
            · simp only [h3, if_true, Option.some.injEq, Prod.mk.injEq] at h
              exact ⟨[(n, c)], by simp, by rw [← h.2]; simp⟩
            · simp only [h3, if_false, Option.some.injEq, Prod.mk.injEq] at h
              exact ⟨[(n, c)], by simp, by rw [← h.2]; simp⟩
    · intro L ts R h
      cases L with
      | nil =>
        simp only [pItems, Option.some.injEq, Prod.mk.injEq] at h
        exact ⟨[], by rw [← h.2]; rfl⟩
      | cons e R0 =>
        obtain ⟨n, c⟩ := e
        rw [pItems] at h
        by_cases h2 : c = ')'
        · simp only [h2, if_true, Option.some.injEq, Prod.mk.injEq] at h
          exact ⟨[], by rw [← h.2, h2]; rfl⟩
        · simp only [h2, if_false] at h
          cases hp : pItem f ((n, c) :: R0) with
          | none => simp [hp] at h
          | some q =>
            obtain ⟨t1, L1⟩ := q
            simp only [hp] at h
            cases hp2 : pItems f L1 with
            | none => simp [hp2] at h
            | some q2 =>
              obtain ⟨ts', R'⟩ := q2
              simp only [hp2, Option.some.injEq, Prod.mk.injEq] at h
              obtain ⟨P1, _, e1⟩ := ih1 _ _ _ hp
              obtain ⟨P2, e2⟩ := ih2 _ _ _ hp2
              exact ⟨P1 ++ P2, by rw [e1, e2, ← h.2]; simp⟩

theorem sp_length_pos (P : List Ent) (h : P ≠ []) : 0 < (sp P).length := by
  cases P with
  | nil => exact absurd rfl h
  | cons e R => rw [sp_cons]; simp

theorem ofList_dom (n : String) (l : List Char) (h : n.toList = l) : String.ofList l = n := by
  rw [← h, String.ofList_toList]

theorem kernel_sim : ∀ f : Nat,
    (∀ L t1 L1, pItem f L = some (t1, L1) → (∀ e ∈ L, LegalEnt e) → ∀ X, TailOK X →
      Ok pil_env (8 * (L.length - L1.length) + 40) {} itemG { rest := sp L ++ X, past := false }
        ({ rest := sp L1 ++ X, past := false }, t1)) ∧
    (∀ L ts R, pItems f L = some (ts, R) → (∀ e ∈ L, LegalEnt e) → ∀ X, TailOK X →
      OkMany pil_env (8 * (L.length - R.length) + 41) {} itemG { rest := sp L ++ X, past := false }
        ({ rest := sp R ++ X, past := false }, ts)) := by
  intro f
  induction f using Nat.strongRecOn with
  | _ f ih =>
    constructor
    · -- one item
      intro L t1 L1 h hleg X hX
      obtain ⟨f', rfl⟩ : ∃ f', f = f' + 1 := by
        cases f with
        | zero => simp [pItem] at h
        | succ k => exact ⟨k, rfl⟩
      cases L with
      | nil => simp [pItem] at h
      | cons e R =>
        obtain ⟨n, c⟩ := e
        obtain ⟨l1, l2, l3⟩ := hleg (n, c) (by simp)
        have hlegR : ∀ e ∈ R, LegalEnt e := fun e he => hleg e (List.mem_cons_of_mem _ he)
        rw [pItem] at h
        by_cases h1 : c = '('
        · -- a loop
          subst h1
          simp only [if_true] at h
          obtain ⟨cc, m, st, hn, hcc, hm⟩ := l2 (show ('(' : Char) ≠ '+' by decide)
          simp only at hn
          have hw : sp ((n, '(') :: R) ++ X = ' ' :: (cc :: m ++ (star st ++ ('(' :: (sp R ++ X)))) := by
            rw [sp_cons]; simp [word, hn, List.append_assoc]
          rw [hw]
          have htok : String.ofList (cc :: m ++ star st) = n := ofList_dom n _ hn
          cases hp : pItems f' R with
          | none => simp [hp] at h
          | some q =>
            obtain ⟨inner, R1⟩ := q
            cases R1 with
            | nil => simp [hp] at h
            | cons e' R' =>
              obtain ⟨mm, c'⟩ := e'
              simp only [hp] at h
              by_cases h2 : c' = ')'
              · subst h2
                simp only [if_true, Option.some.injEq, Prod.mk.injEq] at h
                obtain ⟨rfl, rfl⟩ := h
                obtain ⟨lR, _, _⟩ := (pItem_nestGo f').2 R inner _ hp
                simp only [List.length_cons] at lR ⊢
                -- the inner part
                cases R with
                | nil => simp at lR
                | cons e2 R2 =>
                  obtain ⟨n2, c2⟩ := e2
                  obtain ⟨f'', rfl⟩ : ∃ f'', f' = f'' + 1 := by
                    cases f' with
                    | zero => simp [pItems] at hp
                    | succ k => exact ⟨k, rfl⟩
                  rw [pItems] at hp
                  by_cases h3 : c2 = ')'
                  · -- empty loop
                    subst h3
                    simp only [if_true, Option.some.injEq, Prod.mk.injEq, List.cons.injEq] at hp
                    obtain ⟨rfl, ⟨_, rfl⟩⟩ := hp
                    have hin := Ok_inner_empty (sp R2 ++ X)
                    have hw2 : sp ((n2, ')') :: R2) ++ X = ' ' :: ')' :: (sp R2 ++ X) := by
                      rw [sp_cons]; simp [word]
                    rw [hw2]
                    have := Ok_item_loop pil_env _ cc m st _ (sp R2 ++ X) 0 [] hcc hm hin
                    rw [htok] at this
                    exact this.mono (by simp only [List.length_cons]; omega)
                  · -- non-empty loop
                    simp only [h3, if_false] at hp
                    cases hpa : pItem f'' ((n2, c2) :: R2) with
                    | none => simp [hpa] at hp
                    | some qa =>
                      obtain ⟨ta, La⟩ := qa
                      simp only [hpa] at hp
                      cases hpb : pItems f'' La with
                      | none => simp [hpb] at hp
                      | some qb =>
                        obtain ⟨tb, Rb⟩ := qb
                        simp only [hpb, Option.some.injEq, Prod.mk.injEq] at hp
                        obtain ⟨rfl, rfl⟩ := hp
                        obtain ⟨la, _⟩ := (pItem_nestGo f'').1 _ _ _ hpa
                        obtain ⟨lb, _, _⟩ := (pItem_nestGo f'').2 _ _ _ hpb
                        have hlegLa : ∀ e ∈ La, LegalEnt e := by
                          obtain ⟨P, _, eP⟩ := (pItem_suffix f'').1 _ _ _ hpa
                          intro e he
                          exact hlegR e (by rw [eP]; exact List.mem_append_right _ he)
                        have A := (ih f'' (by omega)).1 _ _ _ hpa hlegR X hX
                        have B := (ih f'' (by omega)).2 _ _ _ hpb hlegLa X hX
                        have hw2 : sp ((mm, ')') :: R') ++ X = ' ' :: ')' :: (sp R' ++ X) := by
                          rw [sp_cons]; simp [word]
                        rw [hw2] at B
                        have hin := Ok_inner_nonempty _ _ _ _ (Ok_many1 A B)
                        have := Ok_item_loop pil_env _ cc m st _ (sp R' ++ X) 1 (ta ++ tb) hcc hm hin
                        rw [htok] at this
                        simp only [List.length_cons] at la lb
                        exact this.mono (by simp only [List.length_cons]; omega)
              · simp [h2] at h
        · simp only [h1, if_false] at h
          by_cases h2 : c = ')'
          · simp [h2] at h
          · simp only [h2, if_false] at h
            by_cases h3 : c = '+'
            · subst h3
              simp only [if_true, Option.some.injEq, Prod.mk.injEq] at h
              obtain ⟨rfl, rfl⟩ := h
              have hw : sp ((n, '+') :: R) ++ X = ' ' :: '+' :: (sp R ++ X) := by
                rw [sp_cons]; simp [word]
              rw [hw]
              exact (Ok_item_plus pil_env (sp R ++ X)).mono (by simp only [List.length_cons]; omega)
            · simp only [h3, if_false, Option.some.injEq, Prod.mk.injEq] at h
              obtain ⟨rfl, rfl⟩ := h
              obtain ⟨cc, m, st, hn, hcc, hm⟩ := l2 h3
              simp only at hn
              have hw : sp ((n, c) :: R) ++ X = ' ' :: (cc :: m ++ (star st ++ (sp R ++ X))) := by
                rw [sp_cons]; simp [word, h1, h2, h3, hn, List.append_assoc]
              rw [hw]
              have := Ok_item_leaf pil_env cc m st (sp R ++ X) hcc hm (OutHd_sp R X hX.1)
              rw [ofList_dom n _ hn] at this
              exact this.mono (by simp only [List.length_cons]; omega)
    · -- zero or more items
      intro L ts R h hleg X hX
      obtain ⟨f', rfl⟩ : ∃ f', f = f' + 1 := by
        cases f with
        | zero => simp [pItems] at h
        | succ k => exact ⟨k, rfl⟩
      cases L with
      | nil =>
        simp only [pItems, Option.some.injEq, Prod.mk.injEq] at h
        obtain ⟨rfl, rfl⟩ := h
        have := OkMany_stop (show No pil_env 12 {} itemG { rest := sp [] ++ X, past := false } by
          simpa [sp] using hX.2)
        intro reps fuel hr hf
        exact this reps fuel (by omega) (by omega)
      | cons e R0 =>
        obtain ⟨n, c⟩ := e
        rw [pItems] at h
        by_cases h2 : c = ')'
        · subst h2
          simp only [if_true, Option.some.injEq, Prod.mk.injEq] at h
          obtain ⟨rfl, rfl⟩ := h
          have hw : sp ((n, ')') :: R0) ++ X = ' ' :: ')' :: (sp R0 ++ X) := by
            rw [sp_cons]; simp [word]
          have hsk : skipIgn (sp ((n, ')') :: R0) ++ X) = ')' :: (sp R0 ++ X) := by
            rw [hw]
            have := skipIgn_blanks_cons 1 ')' (sp R0 ++ X) (by decide) (by decide)
            simpa using this
          have := OkMany_stop (No_item_at pil_env { rest := sp ((n, ')') :: R0) ++ X, past := false } ')' _
            hsk (punct_facts ')' (by decide)).1 (by decide))
          intro reps fuel hr hf
          exact this reps fuel (by omega) (by omega)
        · simp only [h2, if_false] at h
          cases hp : pItem f' ((n, c) :: R0) with
          | none => simp [hp] at h
          | some q =>
            obtain ⟨t1, L1⟩ := q
            simp only [hp] at h
            cases hp2 : pItems f' L1 with
            | none => simp [hp2] at h
            | some q2 =>
              obtain ⟨ts', R'⟩ := q2
              simp only [hp2, Option.some.injEq, Prod.mk.injEq] at h
              obtain ⟨rfl, rfl⟩ := h
              obtain ⟨la, _⟩ := (pItem_nestGo f').1 _ _ _ hp
              obtain ⟨lb, _, _⟩ := (pItem_nestGo f').2 _ _ _ hp2
              obtain ⟨P, hP, eP⟩ := (pItem_suffix f').1 _ _ _ hp
              have hlegL1 : ∀ e ∈ L1, LegalEnt e := by
                intro e he
                exact hleg e (by rw [eP]; exact List.mem_append_right _ he)
              have A := (ih f' (by omega)).1 _ _ _ hp hleg X hX
              have B := (ih f' (by omega)).2 _ _ _ hp2 hlegL1 X hX
              have hne : ({ rest := sp L1 ++ X, past := false } : Pos) ≠
                  { rest := sp ((n, c) :: R0) ++ X, past := false } := by
                apply pos_ne_of_length
                rw [eP, sp_append]
                have := sp_length_pos P hP
                simp only [List.length_append]
                omega
              have := OkMany_step A hne B
              intro reps fuel hr hf
              exact this reps fuel (by omega) (by omega)


/-! ### kernel patterns: the statement -/

theorem intercalate_sp (w : List Char) (ws : List (List Char)) :
    ' ' :: List.intercalate [' '] (w :: ws) = ((w :: ws).map (fun x => ' ' :: x)).flatten := by
  induction ws generalizing w with
  | nil => simp [List.intercalate]
  | cons x xs ih =>
    have := ih x
    simp [List.intercalate, List.intersperse] at this ⊢
    rw [← this]

theorem kernelString_toList (seq : List String) (sst : List Char) :
    (kernelString seq sst).toList = List.intercalate [' '] ((seq.zip sst).map word) := by
  unfold kernelString
  rw [String.toList_intercalate, List.map_map]
  congr 1
  apply List.map_congr_left
  intro p _
  simp only [Function.comp, word]
  split
  · rfl
  · split
    · rfl
    · split
      · simp
      · rfl

theorem kernelString_sp (seq : List String) (sst : List Char) (h : seq.zip sst ≠ []) :
    ' ' :: (kernelString seq sst).toList = sp (seq.zip sst) := by
  rw [kernelString_toList]
  cases hz : seq.zip sst with
  | nil => exact absurd hz h
  | cons e R =>
    rw [List.map_cons, intercalate_sp]
    simp [sp, Function.comp_def]

theorem word_facts (e : Ent) (h : LegalEnt e) : word e ≠ [] ∧ '\t' ∉ word e := by
  obtain ⟨n, c⟩ := e
  obtain ⟨_, l2, _⟩ := h
  unfold word
  by_cases h1 : c = '+'
  · simp only [h1, if_true]; exact ⟨by simp, by decide⟩
  · obtain ⟨cc, m, st, hn, hcc, hm⟩ := l2 h1
    simp only at hn
    have hd := notab_dom _ ⟨cc, m, st, rfl, hcc, hm⟩
    simp only [h1, if_false]
    by_cases h2 : c = ')'
    · simp only [h2, if_true]; exact ⟨by simp, by decide⟩
    · simp only [h2, if_false]
      by_cases h3 : c = '('
      · simp only [h3, if_true, hn]
        refine ⟨by simp, ?_⟩
        simp only [List.mem_append, not_or] at hd ⊢
        exact ⟨⟨hd.1, hd.2⟩, by decide⟩
      · simp only [h3, if_false, hn]
        exact ⟨by simp, hd⟩

theorem sp_facts (L : List Ent) (h : ∀ e ∈ L, LegalEnt e) : 2 * L.length ≤ (sp L).length ∧ '\t' ∉ sp L := by
  induction L with
  | nil => simp [sp]
  | cons e R ih =>
    obtain ⟨i1, i2⟩ := ih (fun x hx => h x (List.mem_cons_of_mem _ hx))
    obtain ⟨w1, w2⟩ := word_facts e (h e (by simp))
    rw [sp_cons]
    constructor
    · have : 0 < (word e).length := List.length_pos_iff.mpr w1
      simp only [List.length_cons, List.length_append]; omega
    · simp only [List.mem_cons, List.mem_append, not_or]
      exact ⟨by decide, w2, i2⟩

theorem stripPrefix_none_of_not_prefix (s t : List Char) (h : ¬ s <+: t) : stripPrefix s t = none := by
  induction s generalizing t with
  | nil => exact absurd (List.nil_prefix) h
  | cons a s ih =>
    cases t with
    | nil => rfl
    | cons b t =>
      by_cases hab : a = b
      · subst hab
        simp only [stripPrefix, if_true]
        exact ih t (fun hp => h ((List.cons_prefix_cons).mpr ⟨rfl, hp⟩))
      · simp [stripPrefix, hab]

/-- `s` does not contain a blank and is a prefix of `name ++ " " ++ r`: it is a prefix of `name` -/
theorem prefix_of_name (s name r : List Char) (hs : ' ' ∉ s) (h : s <+: name ++ ' ' :: r) : s <+: name := by
  induction name generalizing s with
  | nil =>
    cases s with
    | nil => exact List.nil_prefix
    | cons a s =>
      simp only [List.nil_append, List.cons_prefix_cons] at h
      exact absurd (h.1 ▸ List.mem_cons_self) hs
  | cons c name ih =>
    cases s with
    | nil => exact List.nil_prefix
    | cons a s =>
      simp only [List.cons_append, List.cons_prefix_cons] at h ⊢
      exact ⟨h.1, ih s (fun hm => hs (List.mem_cons_of_mem _ hm)) h.2⟩

/-- A statement keyword `s` at the text `name …` (a blank after the name), for ANY identifier `name`.  The keyword fails
    when it is not a prefix of the text, and also when it is a proper prefix of the name — then the next character is an
    identifier character (with `Literal` instead of `Keyword` this case matched: the former known finding).  When the
    name IS the keyword, the keyword matches and leaves the text after the name. -/
theorem kw_at_name (env : Env) (s : List Char) (nc : Char) (m r : List Char) (hnc : nc ∈ identChars)
    (hm : ∀ x ∈ m, x ∈ identChars) (hs : ' ' ∉ s) :
    No env 2 {} (.suppress (.kw s identChars)) { rest := nc :: (m ++ (' ' :: r)), past := false } ∨
    Ok env 2 {} (.suppress (.kw s identChars)) { rest := nc :: (m ++ (' ' :: r)), past := false }
      ({ rest := ' ' :: r, past := false }, []) := by
  have hcf := ident_facts nc hnc
  have hsk : skipIgn (nc :: (m ++ (' ' :: r))) = nc :: (m ++ (' ' :: r)) := skipIgn_cons nc _ hcf.1 hcf.2.1
  by_cases hp : s <+: (nc :: m) ++ ' ' :: r
  · obtain ⟨rest, hrest⟩ := prefix_of_name s (nc :: m) r hs hp
    cases rest with
    | nil =>
      right
      rw [List.append_nil] at hrest
      refine Ok_suppress (Ok_keyword env {} s identChars _ (' ' :: r) ?_ rfl
        (OutHd_cons _ _ _ (outside_facts ' ' (by decide))))
      rw [pre_skip, hsk, hrest]; rfl
    | cons x rest =>
      left
      have hx : x ∈ identChars := by
        have : x ∈ nc :: m := by rw [← hrest]; simp
        rcases List.mem_cons.mp this with rfl | h
        · exact hnc
        · exact hm x h
      refine No_suppress (No_keyword_ident env {} s identChars _ x (rest ++ ' ' :: r) ?_ hx)
      rw [pre_skip, hsk, ← List.cons_append, ← hrest]; simp
  · left
    exact No_kw env s _ (by rw [hsk]; exact stripPrefix_none_of_not_prefix _ _ hp)

/-- a keyword alternative `Group(tag(Suppress(Keyword s) + gs))` fails on `name = …` for every identifier `name`, as
    soon as the elements `gs` after the keyword fail on ` = …` (needed only when the name is the keyword itself) -/
theorem No_gts_name (env : Env) (t : String) (s : List Char) (gs : List G) (nc : Char) (m r : List Char)
    (hnc : nc ∈ identChars) (hm : ∀ x ∈ m, x ∈ identChars) (hs : ' ' ∉ s)
    (hnext : NoSeq env 8 {} gs { rest := ' ' :: r, past := false }) :
    No env 12 {} (.group (.tag t (.seq (.suppress (.kw s identChars) :: gs))))
      { rest := nc :: (m ++ (' ' :: r)), past := false } := by
  rcases kw_at_name env s nc m r hnc hm hs with h | h
  · exact (No_group (No_tag (No_seq (NoSeq_head h)))).mono (by decide)
  · exact (No_group (No_tag (No_seq (NoSeq_tail h hnext)))).mono (by decide)

theorem skipIgn_blank_eq (r : List Char) : skipIgn (' ' :: '=' :: r) = '=' :: r := by
  have := skipIgn_blanks_cons 1 '=' r (by decide) (by decide)
  simpa using this

/-- what follows the keyword in the statement alternatives fails on ` = …`: a domain name, … -/
theorem NoSeq_domain_eq (env : Env) (gs : List G) (r : List Char) :
    NoSeq env 8 {} (pil_domain :: gs) { rest := ' ' :: '=' :: r, past := false } :=
  (NoSeq_head (No_domain env { rest := ' ' :: '=' :: r, past := false } '=' r (skipIgn_blank_eq r)
    (outside_facts '=' (by decide)))).mono (by decide)

/-- … an identifier, … -/
theorem NoSeq_ident_eq (env : Env) (gs : List G) (r : List Char) :
    NoSeq env 8 {} (pil_identifier :: gs) { rest := ' ' :: '=' :: r, past := false } := by
  have hw : No env 1 {} pil_identifier { rest := ' ' :: '=' :: r, past := false } :=
    No_word_cons env {} _ _ _ '=' r (by rw [pre_skip]; exact skipIgn_blank_eq r) (outside_facts '=' (by decide))
  exact (NoSeq_head hw).mono (by decide)

/-- … or (reactions) the optional information box, which matches the empty text, and then the reactants -/
theorem NoSeq_rx_eq (env : Env) (gs : List G) (r : List Char) :
    NoSeq env 8 {} (.group (.opt pil_infobox) :: .group pil_species :: gs)
      { rest := ' ' :: '=' :: r, past := false } := by
  have hinfo : Ok env 6 {} (.group (.opt pil_infobox)) { rest := ' ' :: '=' :: r, past := false }
      ({ rest := ' ' :: '=' :: r, past := false }, [.grp []]) := by
    unfold pil_infobox
    have := No_punct env { rest := ' ' :: '=' :: r, past := false } '[' '=' r (skipIgn_blank_eq r) (by decide)
    exact (Ok_group (Ok_opt_none (No_seq (NoSeq_head this)))).mono (by decide)
  have hw : No env 1 {} pil_identifier { rest := ' ' :: '=' :: r, past := false } :=
    No_word_cons env {} _ _ _ '=' r (by rw [pre_skip]; exact skipIgn_blank_eq r) (outside_facts '=' (by decide))
  have hsp : No env 4 {} (.group pil_species) { rest := ' ' :: '=' :: r, past := false } := by
    unfold pil_species
    exact No_group (No_seq (NoSeq_head hw))
  exact (NoSeq_tail hinfo (NoSeq_head hsp)).mono (by decide)

/-- the statement `name = <pattern> X`: the elements of `pil_cplx` up to the line end -/
theorem cplx_parts (nc : Char) (m : List Char) (L : List Ent) (toks : List Tree) (X : List Char)
    (hnc : nc ∈ identChars) (hm : ∀ x ∈ m, x ∈ identChars) (hL : L ≠ []) (hleg : ∀ e ∈ L, LegalEnt e)
    (hp : pItems (2 * L.length + 1) L = some (toks, [])) (hX : TailOK X)
    (hat : ∀ c0 t, skipIgn X = c0 :: t → c0 ≠ '@') :
    Ok pil_env 1 {} pil_identifier { rest := nc :: (m ++ (' ' :: '=' :: (sp L ++ X))), past := false }
      ({ rest := ' ' :: '=' :: (sp L ++ X), past := false }, [.tok (String.ofList (nc :: m))]) ∧
    Ok pil_env 2 {} (.suppress (.lit ['='])) { rest := ' ' :: '=' :: (sp L ++ X), past := false }
      ({ rest := sp L ++ X, past := false }, []) ∧
    Ok pil_env (8 * L.length + 46) {} (.many1 (.group (.ref "pattern"))) { rest := sp L ++ X, past := false }
      ({ rest := X, past := false }, [.grp toks]) ∧
    Ok pil_env 9 {} (.opt pil_conc) { rest := X, past := false } ({ rest := X, past := false }, []) := by
  -- the pattern
  have hpat : Ok pil_env (8 * L.length + 42) {} (.many1 itemG) { rest := sp L ++ X, past := false }
      ({ rest := X, past := false }, toks) := by
    cases L with
    | nil => exact absurd rfl hL
    | cons e R0 =>
      obtain ⟨n, c⟩ := e
      rw [show 2 * ((n, c) :: R0).length + 1 = (2 * R0.length + 2) + 1 by simp only [List.length_cons]; omega,
        pItems] at hp
      by_cases h2 : c = ')'
      · simp [h2] at hp
      · simp only [h2, if_false] at hp
        cases hpa : pItem (2 * R0.length + 2) ((n, c) :: R0) with
        | none => simp [hpa] at hp
        | some qa =>
          obtain ⟨ta, La⟩ := qa
          simp only [hpa] at hp
          cases hpb : pItems (2 * R0.length + 2) La with
          | none => simp [hpb] at hp
          | some qb =>
            obtain ⟨tb, Rb⟩ := qb
            simp only [hpb, Option.some.injEq, Prod.mk.injEq] at hp
            obtain ⟨rfl, rfl⟩ := hp
            obtain ⟨la, _⟩ := (pItem_nestGo _).1 _ _ _ hpa
            obtain ⟨P, _, eP⟩ := (pItem_suffix _).1 _ _ _ hpa
            have hlegLa : ∀ e ∈ La, LegalEnt e := by
              intro e he
              exact hleg e (by rw [eP]; exact List.mem_append_right _ he)
            have A := (kernel_sim _).1 _ _ _ hpa hleg X hX
            have B := (kernel_sim _).2 _ _ _ hpb hlegLa X hX
            have := Ok_many1 A B
            simp only [sp, List.map_nil, List.flatten_nil, List.nil_append] at this
            simp only [List.length_cons, List.length_nil] at la this ⊢
            exact this.mono (by omega)
  obtain ⟨hX1, hX2⟩ := hX
  have h1 := Ok_ident pil_env 0 nc m (' ' :: '=' :: (sp L ++ X)) hnc hm
    (OutHd_cons _ _ _ (outside_facts ' ' (by decide)))
  have h2 := Ok_punct pil_env 1 '=' (sp L ++ X) (by decide) (by decide)
  have hstop : No pil_env 15 {} (.group (.ref "pattern")) { rest := X, past := false } :=
    No_group (No_ref pattern_lookup (No_many1 hX2))
  have h3 := Ok_many1 (Ok_group (Ok_ref pattern_lookup hpat)) (OkMany_stop hstop)
  have hconc : No pil_env 8 {} pil_conc { rest := X, past := false } := by
    unfold pil_conc
    have hp1 : No pil_env 2 {} (.suppress (.lit ['@'])) { rest := X, past := false } := by
      cases hsk : skipIgn X with
      | nil => exact No_suppress (No_lit pil_env {} ['@'] _ (by rw [pre_skip, hsk]; rfl))
      | cons c0 t => exact No_punct pil_env { rest := X, past := false } '@' c0 t hsk (hat c0 t hsk)
    exact (No_alt (NoAlt_cons (No_group (No_seq (NoSeq_head hp1)))
      (NoAlt_cons (No_group (No_seq (NoSeq_head hp1))) (NoAlt_nil pil_env _ _)))).mono (by decide)
  have h4 := Ok_opt_none hconc
  simp only [List.replicate_zero, List.nil_append, List.replicate_one,
    List.cons_append] at h1 h2
  have h3' := h3.mono (N' := 8 * L.length + 46) (by omega)
  simp only [List.append_nil] at h3'
  exact ⟨h1, h2, h3', h4⟩

theorem TailOK_nl : TailOK ['\n'] :=
  TailOK.of_cons _ (OutHd_cons _ _ _ ⟨outside_facts '\n' (by decide), by decide, by decide, by decide⟩)
    '\n' [] (skipIgn_cons '\n' [] (by decide) (by decide)) (outside_facts '\n' (by decide)) (by decide)

theorem TailOK_close : TailOK [' ', ')', '\n'] :=
  TailOK.of_cons _ (OutHd_cons _ _ _ ⟨outside_facts ' ' (by decide), by decide, by decide, by decide⟩)
    ')' ['\n'] (by have := skipIgn_blanks_cons 1 ')' ['\n'] (by decide) (by decide); simpa using this)
    (punct_facts ')' (by decide)).1 (by decide)

/-- the alternatives of `pil_stmt` before `pil_cplx` fail on `name = …`, for EVERY identifier `name` (also for a
    name that starts with a statement keyword, and for a name that is a statement keyword) -/
theorem stmt_before_cplx (nc : Char) (m r : List Char) (hnc : nc ∈ identChars) (hm : ∀ x ∈ m, x ∈ identChars)
    (N : Nat) (res : Pos × List Tree)
    (h : OkAlt pil_env N {} [pil_cplx, pil_restingset] { rest := nc :: (m ++ (' ' :: '=' :: r)), past := false } res) :
    Ok pil_env (max N 16 + 8) {} pil_stmt { rest := nc :: (m ++ (' ' :: '=' :: r)), past := false } res := by
  unfold pil_stmt pil_sl_domain pil_dl_domain pil_comp_domain pil_strand pil_strandcomplex pil_reaction
  have nd : ∀ (t : String) (s : List Char) (gs : List G), ' ' ∉ s →
      No pil_env 12 {} (.group (.tag t (.seq (.suppress (.kw s identChars) :: pil_domain :: gs))))
        { rest := nc :: (m ++ (' ' :: '=' :: r)), past := false } :=
    fun t s gs hs => No_gts_name pil_env t s _ nc m _ hnc hm hs (NoSeq_domain_eq pil_env gs r)
  have ni : ∀ (t : String) (s : List Char) (gs : List G), ' ' ∉ s →
      No pil_env 12 {} (.group (.tag t (.seq (.suppress (.kw s identChars) :: pil_identifier :: gs))))
        { rest := nc :: (m ++ (' ' :: '=' :: r)), past := false } :=
    fun t s gs hs => No_gts_name pil_env t s _ nc m _ hnc hm hs (NoSeq_ident_eq pil_env gs r)
  have nr : ∀ (t : String) (s : List Char) (gs : List G), ' ' ∉ s →
      No pil_env 12 {} (.group (.tag t (.seq (.suppress (.kw s identChars) :: .group (.opt pil_infobox) ::
        .group pil_species :: gs)))) { rest := nc :: (m ++ (' ' :: '=' :: r)), past := false } :=
    fun t s gs hs => No_gts_name pil_env t s _ nc m _ hnc hm hs (NoSeq_rx_eq pil_env gs r)
  exact (Ok_alt (OkAlt_tail (nd _ _ _ (by decide))
    (OkAlt_tail (No_alt (NoAlt_cons (nd _ _ _ (by decide)) (NoAlt_cons (nd _ _ _ (by decide))
      (NoAlt_cons (nd _ _ _ (by decide)) (NoAlt_nil pil_env _ _)))))
    (OkAlt_tail (ni _ _ _ (by decide))
    (OkAlt_tail (ni _ _ _ (by decide))
    (OkAlt_tail (No_alt (NoAlt_cons (ni _ _ _ (by decide)) (NoAlt_cons (ni _ _ _ (by decide)) (NoAlt_nil pil_env _ _))))
    (OkAlt_tail (No_alt (NoAlt_cons (nr _ _ _ (by decide)) (NoAlt_cons (nr _ _ _ (by decide)) (NoAlt_nil pil_env _ _))))
    h))))))).mono (by omega)

theorem stmt_all_fail (nc : Char) (m r : List Char) (hnc : nc ∈ identChars) (hm : ∀ x ∈ m, x ∈ identChars)
    (N : Nat) (h : No pil_env N {} pil_cplx { rest := nc :: (m ++ (' ' :: '=' :: r)), past := false }) :
    No pil_env (max N 16 + 10) {} pil_stmt { rest := nc :: (m ++ (' ' :: '=' :: r)), past := false } := by
  unfold pil_stmt pil_sl_domain pil_dl_domain pil_comp_domain pil_strand pil_strandcomplex pil_reaction
    pil_restingset
  have nd : ∀ (t : String) (s : List Char) (gs : List G), ' ' ∉ s →
      No pil_env 12 {} (.group (.tag t (.seq (.suppress (.kw s identChars) :: pil_domain :: gs))))
        { rest := nc :: (m ++ (' ' :: '=' :: r)), past := false } :=
    fun t s gs hs => No_gts_name pil_env t s _ nc m _ hnc hm hs (NoSeq_domain_eq pil_env gs r)
  have ni : ∀ (t : String) (s : List Char) (gs : List G), ' ' ∉ s →
      No pil_env 12 {} (.group (.tag t (.seq (.suppress (.kw s identChars) :: pil_identifier :: gs))))
        { rest := nc :: (m ++ (' ' :: '=' :: r)), past := false } :=
    fun t s gs hs => No_gts_name pil_env t s _ nc m _ hnc hm hs (NoSeq_ident_eq pil_env gs r)
  have nr : ∀ (t : String) (s : List Char) (gs : List G), ' ' ∉ s →
      No pil_env 12 {} (.group (.tag t (.seq (.suppress (.kw s identChars) :: .group (.opt pil_infobox) ::
        .group pil_species :: gs)))) { rest := nc :: (m ++ (' ' :: '=' :: r)), past := false } :=
    fun t s gs hs => No_gts_name pil_env t s _ nc m _ hnc hm hs (NoSeq_rx_eq pil_env gs r)
  exact (No_alt (NoAlt_cons (nd _ _ _ (by decide))
    (NoAlt_cons (No_alt (NoAlt_cons (nd _ _ _ (by decide)) (NoAlt_cons (nd _ _ _ (by decide))
      (NoAlt_cons (nd _ _ _ (by decide)) (NoAlt_nil pil_env _ _)))))
    (NoAlt_cons (ni _ _ _ (by decide))
    (NoAlt_cons (ni _ _ _ (by decide))
    (NoAlt_cons (No_alt (NoAlt_cons (ni _ _ _ (by decide)) (NoAlt_cons (ni _ _ _ (by decide)) (NoAlt_nil pil_env _ _))))
    (NoAlt_cons (No_alt (NoAlt_cons (nr _ _ _ (by decide)) (NoAlt_cons (nr _ _ _ (by decide)) (NoAlt_nil pil_env _ _))))
    (NoAlt_cons h
    (NoAlt_cons (No_alt (NoAlt_cons (ni _ _ _ (by decide)) (NoAlt_cons (ni _ _ _ (by decide)) (NoAlt_nil pil_env _ _))))
    (NoAlt_nil pil_env _ _)))))))))).mono (by omega)

def kernelText (nc : Char) (m : List Char) (L : List Ent) (X : List Char) : List Char :=
  nc :: (m ++ (' ' :: '=' :: (sp L ++ X)))

theorem kernelText_facts (nc : Char) (m : List Char) (L : List Ent) (X : List Char)
    (hnc : nc ∈ identChars) (hm : ∀ x ∈ m, x ∈ identChars) (hleg : ∀ e ∈ L, LegalEnt e) (hX : '\t' ∉ X) :
    8 * L.length ≤ 4 * (kernelText nc m L X).length ∧ '\t' ∉ kernelText nc m L X := by
  obtain ⟨s1, s2⟩ := sp_facts L hleg
  have h1 := notab_ident (nc :: m) (by intro x hx; rcases List.mem_cons.mp hx with rfl | h; exact hnc; exact hm x h)
  unfold kernelText
  constructor
  · simp only [List.length_cons, List.length_append]; omega
  · simp only [List.mem_cons, List.mem_append, not_or]
    simp only [List.mem_cons, not_or] at h1
    exact ⟨h1.1, h1.2, by decide, by decide, s2, hX⟩

theorem kernel_parse (nc : Char) (m : List Char) (L : List Ent) (toks : List Tree)
    (hnc : nc ∈ identChars) (hm : ∀ x ∈ m, x ∈ identChars) (hL : L ≠ [])
    (hleg : ∀ e ∈ L, LegalEnt e) (hp : pItems (2 * L.length + 1) L = some (toks, [])) :
    parseDoc pil_env pil_grammar (String.ofList (kernelText nc m L ['\n'])) =
      some [.grp [.tok "kernel-complex", .tok (String.ofList (nc :: m)), .grp toks]] := by
  obtain ⟨h1, h2, h3, h4⟩ := cplx_parts nc m L toks ['\n'] hnc hm hL hleg hp TailOK_nl
    (by intro c0 t e; rw [skipIgn_cons '\n' [] (by decide) (by decide)] at e
        simp only [List.cons.injEq] at e; rw [← e.1]; decide)
  have h5 := Ok_eol_nl pil_env ['\n'] (skipIgn_cons '\n' [] (by decide) (by decide))
  have hc : Ok pil_env (8 * L.length + 60) {} pil_cplx
      { rest := nc :: (m ++ (' ' :: '=' :: (sp L ++ ['\n']))), past := false }
      ({ rest := [], past := true }, [.grp [.tok "kernel-complex", .tok (String.ofList (nc :: m)), .grp toks]]) := by
    unfold pil_cplx
    have := Ok_group (Ok_tag (t := "kernel-complex") (Ok_seq (OkSeq_cons h1 (OkSeq_cons h2 (OkSeq_cons h3
      (OkSeq_cons h4 (OkSeq_cons h5 (OkSeq_nil pil_env _ _))))))))
    simp only [List.nil_append, List.append_nil, List.cons_append] at this
    exact this.mono (by omega)
  have hstmt := stmt_before_cplx nc m _ hnc hm _ _ (OkAlt_head (gs := [pil_restingset]) hc)
  obtain ⟨f1, f2⟩ := kernelText_facts nc m L ['\n'] hnc hm hleg (by decide)
  have hcf := ident_facts nc hnc
  refine parse_stmt' (kernelText nc m L ['\n']) nc _ _ _ (skipIgn_cons nc _ hcf.1 hcf.2.1) hcf.2.2.2.2.2.1
    hstmt ?_ f2
  omega

theorem kernel_reject (nc : Char) (m : List Char) (L : List Ent) (toks : List Tree)
    (hnc : nc ∈ identChars) (hm : ∀ x ∈ m, x ∈ identChars) (hL : L ≠ [])
    (hleg : ∀ e ∈ L, LegalEnt e) (hp : pItems (2 * L.length + 1) L = some (toks, [])) :
    parseDoc pil_env pil_grammar (String.ofList (kernelText nc m L [' ', ')', '\n'])) = none := by
  have hsk : skipIgn [' ', ')', '\n'] = [')', '\n'] := by
    have := skipIgn_blanks_cons 1 ')' ['\n'] (by decide) (by decide); simpa using this
  obtain ⟨h1, h2, h3, h4⟩ := cplx_parts nc m L toks [' ', ')', '\n'] hnc hm hL hleg hp TailOK_close
    (by intro c0 t e; rw [hsk] at e
        simp only [List.cons.injEq] at e; rw [← e.1]; decide)
  have h5 : No pil_env 3 {} (.many1 (.suppress .lineEnd)) { rest := [' ', ')', '\n'], past := false } :=
    No_many1 (No_suppress (No_lineEnd_cons pil_env {} { rest := [' ', ')', '\n'], past := false } ')' ['\n']
      (by rw [pre_skip]; exact hsk) (by decide)))
  have hc : No pil_env (8 * L.length + 60) {} pil_cplx
      { rest := nc :: (m ++ (' ' :: '=' :: (sp L ++ [' ', ')', '\n']))), past := false } := by
    unfold pil_cplx
    have := No_group (No_tag (t := "kernel-complex") (No_seq (NoSeq_tail h1 (NoSeq_tail h2 (NoSeq_tail h3
      (NoSeq_tail h4 (NoSeq_head (gs := []) h5)))))))
    exact this.mono (by omega)
  have hstmt := stmt_all_fail nc m _ hnc hm _ hc
  obtain ⟨f1, f2⟩ := kernelText_facts nc m L [' ', ')', '\n'] hnc hm hleg (by decide)
  have hcf := ident_facts nc hnc
  refine reject_stmt' (kernelText nc m L [' ', ')', '\n']) nc _ _ (skipIgn_cons nc _ hcf.1 hcf.2.1)
    hcf.2.2.2.2.2.1 hstmt ?_ f2
  omega

end Dsd.Pil
