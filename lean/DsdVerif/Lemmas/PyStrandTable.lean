import DsdVerif.Gen.PyFuncs

/-!
`make_strand_table` (both typed instances) and `strand_table_to_sequence` (both typed instances) as written in the source
(`Gen/PyFuncs.lean`) are the model's `makeStrandTableList` / `makeStrandTableStr` / `strandTableToSequence` /
`strandTableToSequenceStr`; the prelude primitives `Py.split`, `Py.groupby`, `Py.strJoin`, `Py.reduce` are related to the
model's `splitOn` / `joinWith` on the way.
-/
namespace Dsd.PyEq
open Dsd

/-- put `p` in front of the first piece -/
def consHead {α} (p : List α) : List (List α) → List (List α)
  | [] => [p]
  | h :: t => (p ++ h) :: t

theorem splitOn_ne_nil {α} [DecidableEq α] (sep : α) (l : List α) : splitOn sep l ≠ [] := by
  induction l with
  | nil => simp [splitOn]
  | cons c cs ih =>
    unfold splitOn
    split
    · simp
    · split <;> simp

theorem consHead_nil {α} (X : List (List α)) (h : X ≠ []) : consHead [] X = X := by
  cases X with
  | nil => exact absurd rfl h
  | cons a b => rfl

theorem splitOn_cons_eq {α} [DecidableEq α] (sep c : α) (cs : List α) (h : c = sep) :
    splitOn sep (c :: cs) = [] :: splitOn sep cs := by
  rw [splitOn]; simp [h]

theorem splitOn_cons_ne {α} [DecidableEq α] (sep c : α) (cs : List α) (h : c ≠ sep) :
    splitOn sep (c :: cs) = consHead [c] (splitOn sep cs) := by
  rw [splitOn]
  simp only [h, if_false]
  cases splitOn sep cs <;> rfl

theorem consHead_consHead {α} (p q : List α) (X : List (List α)) (h : X ≠ []) :
    consHead p (consHead q X) = consHead (p ++ q) X := by
  cases X with
  | nil => exact absurd rfl h
  | cons a b => simp [consHead]

/-! ### `str.split` -/

theorem splitGo_eq (sep : Char) (s : List Char) : ∀ cur, Py.splitGo sep cur s = consHead cur.reverse (splitOn sep s) := by
  induction s with
  | nil => intro cur; simp [Py.splitGo, splitOn, consHead]
  | cons c cs ih =>
    intro cur
    by_cases h : c = sep
    · subst h
      rw [splitOn_cons_eq c c cs rfl, Py.splitGo]
      simp only [beq_self_eq_true, if_true]
      rw [ih, List.reverse_nil, consHead_nil _ (splitOn_ne_nil c cs)]
      simp [consHead]
    · rw [splitOn_cons_ne sep c cs h, consHead_consHead _ _ _ (splitOn_ne_nil sep cs), Py.splitGo]
      have hb : (c == sep) = false := by simp [h]
      simp only [hb, Bool.false_eq_true, if_false]
      rw [ih]
      simp

/-- `s.split(sep)` (the prelude primitive) is the model's `splitOn` -/
theorem split_eq (s : List Char) (sep : Char) : Py.split s sep = splitOn sep s := by
  rw [Py.split, splitGo_eq]
  exact consHead_nil _ (splitOn_ne_nil sep s)

/-- **`make_strand_table` on a `str` as written in the source is the model's `makeStrandTableStr`**, for every text and
    every break character; it never raises -/
theorem make_strand_table_str_eq (seq : List Char) (brk : Char) :
    Gen.py_make_strand_table_str seq brk = .ok (makeStrandTableStr brk seq) := by
  simp [Gen.py_make_strand_table_str, split_eq, makeStrandTableStr, pure, Except.pure]

/-! ### `itertools.groupby` with the key `x != strand_break` -/

def nonEmpty {α} (s : List α) : Bool := !s.isEmpty

theorem groupbyGo_eq (brk : String) (rest : List String) : ∀ (k : Bool) (cur : List String), (k = true → cur ≠ []) →
    ((Py.groupbyGo (fun x => x != brk) k cur rest).filter (fun kg => kg.1)).map (fun kg => kg.2) =
      if k then (consHead cur.reverse (splitOn brk rest)).filter nonEmpty else (splitOn brk rest).filter nonEmpty := by
  induction rest with
  | nil =>
    intro k cur hk
    cases k with
    | false => simp [Py.groupbyGo, splitOn, nonEmpty]
    | true =>
      have := hk rfl
      simp [Py.groupbyGo, splitOn, consHead, nonEmpty, this]
  | cons y ys ih =>
    intro k cur hk
    by_cases h : y = brk
    · subst h
      rw [splitOn_cons_eq y y ys rfl, Py.groupbyGo]
      have hb : (y != y) = false := by simp
      cases k with
      | false =>
        have := ih false (y :: cur) (by simp)
        simp only [Bool.false_eq_true, if_false] at this
        simp only [hb, beq_self_eq_true, if_true, this, Bool.false_eq_true, if_false]
        simp [nonEmpty]
      | true =>
        have hc := hk rfl
        have := ih false [y] (by simp)
        simp only [Bool.false_eq_true, if_false] at this
        have hne : (true == false) = false := rfl
        simp only [hb, hne, Bool.false_eq_true, if_false, List.filter_cons, if_true, List.map_cons, this]
        simp [consHead, nonEmpty, hc]
    · rw [splitOn_cons_ne brk y ys h, Py.groupbyGo]
      have hb : (y != brk) = true := by simp [h]
      cases k with
      | false =>
        have := ih true [y] (by simp)
        simp only [if_true] at this
        have hne : (false == true) = false := rfl
        simp only [hb, hne, Bool.false_eq_true, if_false, List.filter_cons, this]
        simp
      | true =>
        have := ih true (y :: cur) (by simp)
        simp only [if_true] at this
        rw [consHead_consHead _ _ _ (splitOn_ne_nil brk ys)]
        simp only [hb, beq_self_eq_true, if_true, this]
        simp

/-- the groups of `groupby(seq, key=lambda x: x != brk)` whose key is true are the non-empty pieces of `seq` between breaks -/
theorem groupby_eq (brk : String) (seq : List String) :
    ((Py.groupby (fun x => x != brk) seq).filter (fun kg => kg.1)).map (fun kg => kg.2) =
      (splitOn brk seq).filter nonEmpty := by
  cases seq with
  | nil => simp [Py.groupby, splitOn, nonEmpty]
  | cons y ys =>
    rw [Py.groupby, groupbyGo_eq brk ys _ [y] (by simp)]
    by_cases h : y = brk
    · simp [h, splitOn_cons_eq, nonEmpty]
    · simp [h, splitOn_cons_ne]

/-- **`make_strand_table` on a `list` as written in the source is the model's `makeStrandTableList`** for every list of
    names and every one-character break name; a break name of another length fails the source's assertion -/
theorem make_strand_table_list_eq (seq : List String) (brk : String) :
    Gen.py_make_strand_table_list seq brk =
      if brk.length = 1 then .ok (makeStrandTableList brk seq) else .error .assertion := by
  have hg := groupby_eq brk seq
  unfold Gen.py_make_strand_table_list
  by_cases h : brk.length = 1
  · simp only [h, if_true]
    simp only [makeStrandTableList]
    show _ = Except.ok (List.filter nonEmpty (splitOn brk seq))
    rw [← hg]
    simp [pure, Except.pure]
  · simp [h, bind, Except.bind, throw, throwThe, MonadExceptOf.throw]

/-! ### `functools.reduce`, `str.join` -/

theorem joinWith_cons {α} (sep : α) (s : List α) (ss : List (List α)) :
    joinWith sep (s :: ss) = s ++ (ss.map (fun x => sep :: x)).flatten := by
  induction ss generalizing s with
  | nil => simp [joinWith]
  | cons t ts ih =>
    show s ++ sep :: joinWith sep (t :: ts) = _
    rw [ih]; simp

theorem foldl_join {α} (sep : α) (ss : List (List α)) : ∀ acc : List α,
    ss.foldl (fun a b => (a ++ [sep]) ++ b) acc = acc ++ (ss.map (fun x => sep :: x)).flatten := by
  induction ss with
  | nil => simp
  | cons t ts ih => intro acc; simp

/-- **`strand_table_to_sequence(st, brk, join=False)` as written in the source is the model's `strandTableToSequence`**:
    the names of the strands with the break name between them, TypeError for an empty table -/
theorem strand_table_to_sequence_list_eq (st : List (List String)) (brk : String) :
    Gen.py_strand_table_to_sequence_list st brk = strandTableToSequence brk st := by
  cases st with
  | nil => rfl
  | cons s ss =>
    simp only [Gen.py_strand_table_to_sequence_list, Py.reduce, strandTableToSequence, pure, Except.pure,
      foldl_join, joinWith_cons]

theorem strJoin_one (b : Char) (parts : List (List Char)) : Py.strJoin [b] parts = joinWith b parts := by
  induction parts with
  | nil => rfl
  | cons s rest ih =>
    cases rest with
    | nil => rfl
    | cons t rest' =>
      show s ++ [b] ++ Py.strJoin [b] (t :: rest') = s ++ b :: joinWith b (t :: rest')
      rw [ih]; simp

theorem strJoin_empty (parts : List (List Char)) : Py.strJoin [] parts = parts.flatten := by
  induction parts with
  | nil => rfl
  | cons s rest ih =>
    cases rest with
    | nil => simp [Py.strJoin]
    | cons t rest' => rw [Py.strJoin, ih]; simp

theorem strJoin_chars (s : List Char) : Py.strJoin [] (s.map (fun c => [c])) = s := by
  rw [strJoin_empty]
  induction s with
  | nil => rfl
  | cons c cs ih => simp [ih]

/-- **`strand_table_to_sequence(st, brk, join=True)` as written in the source, on a table of one-character names, is the
    model's `strandTableToSequenceStr`**; it never raises (an empty table gives the empty str) -/
theorem strand_table_to_sequence_str_eq (st : List (List Char)) (brk : Char) :
    Gen.py_strand_table_to_sequence_str st brk = .ok (strandTableToSequenceStr brk st) := by
  simp [Gen.py_strand_table_to_sequence_str, strJoin_one, strJoin_chars, strandTableToSequenceStr, pure, Except.pure]

end Dsd.PyEq

#print axioms Dsd.PyEq.make_strand_table_str_eq
#print axioms Dsd.PyEq.make_strand_table_list_eq
#print axioms Dsd.PyEq.strand_table_to_sequence_list_eq
#print axioms Dsd.PyEq.strand_table_to_sequence_str_eq
