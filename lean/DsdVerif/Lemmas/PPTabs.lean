/-
Tabs (C13 / C19, layout clause "arbitrary spaces and tabs").  `parseString` expands tabs before parsing
(`Model/Pyparsing.lean`, `expandTabs` = Python's `str.expandtabs()`: a tab becomes 1–8 blanks up to the next multiple
of 8; the column restarts after LF and CR).  A separator made of blanks and tabs therefore expands to blanks — at
least as many as it has characters — and a tab-free token is copied.  Layout templates: a text built from tab-free
tokens and blank/tab separators expands to the same tokens with blank separators of some counts (`≥ 1` where the
separator is non-empty), so every theorem that quantifies over arbitrary blank counts covers it.

This file depends on the model only and is shared by the PIL and the seesaw stack.
-/
import DsdVerif.Model.Pyparsing

namespace Dsd.PP.Tabs
open Dsd.PP

/-- a separator: blanks and tabs -/
def IsSep (ws : List Char) : Prop := ∀ c ∈ ws, c = ' ' ∨ c = '\t'

/-- the column after a tab-free text -/
def colAfter : List Char → Nat → Nat
  | [], col => col
  | c :: cs, col => colAfter cs (if c == '\n' || c == '\r' then 0 else (col + 1) % 8)

/-- a tab-free text is copied -/
theorem expandTabs_tok (tok : List Char) (h : '\t' ∉ tok) (rest : List Char) (col : Nat) :
    expandTabs (tok ++ rest) col = tok ++ expandTabs rest (colAfter tok col) := by
  induction tok generalizing col with
  | nil => rfl
  | cons c cs ih =>
    simp only [List.mem_cons, not_or] at h
    have hc : c ≠ '\t' := fun e => h.1 e.symm
    rw [List.cons_append, expandTabs]
    · rw [ih h.2]; rfl
    · intro e; exact hc e

theorem expandTabs_id (cs : List Char) (col : Nat) (h : '\t' ∉ cs) : expandTabs cs col = cs := by
  have := expandTabs_tok cs h [] col
  simpa [expandTabs] using this

theorem colAfter_nl (seg : List Char) (col : Nat) : colAfter (seg ++ ['\n']) col = 0 := by
  induction seg generalizing col with
  | nil => rfl
  | cons c cs ih => exact ih _

theorem colAfter_lt (tok : List Char) (col : Nat) (h : col < 8) : colAfter tok col < 8 := by
  induction tok generalizing col with
  | nil => exact h
  | cons c cs ih =>
    apply ih
    split
    · omega
    · exact Nat.mod_lt _ (by omega)

/-- **a blank/tab separator expands to blanks**: at least as many as the separator has characters (a tab yields
    1–8 blanks), whatever the column and whatever follows -/
theorem expandTabs_sep (ws : List Char) (h : IsSep ws) (col : Nat) :
    ∃ n col', ws.length ≤ n ∧ ∀ rest, expandTabs (ws ++ rest) col = List.replicate n ' ' ++ expandTabs rest col' := by
  induction ws generalizing col with
  | nil => exact ⟨0, col, Nat.le_refl _, fun rest => rfl⟩
  | cons c cs ih =>
    have hcs : IsSep cs := fun x hx => h x (List.mem_cons_of_mem _ hx)
    rcases h c (by simp) with rfl | rfl
    · obtain ⟨n, col', hn, hex⟩ := ih hcs ((col + 1) % 8)
      refine ⟨n + 1, col', by simp only [List.length_cons]; omega, fun rest => ?_⟩
      rw [List.cons_append, expandTabs]
      · have : ((' ' : Char) == '\n' || (' ' : Char) == '\r') = false := by decide
        simp only [this, Bool.false_eq_true, if_false]
        rw [hex rest, List.replicate_succ]; rfl
      · intro e; exact absurd e (by decide)
    · obtain ⟨n, col', hn, hex⟩ := ih hcs 0
      refine ⟨(8 - col % 8) + n, col', ?_, fun rest => ?_⟩
      · have : col % 8 < 8 := Nat.mod_lt _ (by omega)
        simp only [List.length_cons]; omega
      · rw [List.cons_append, expandTabs, hex rest, ← List.replicate_append_replicate, List.append_assoc]

/-! ### layout templates -/

/-- a piece of a layout template: a fixed (tab-free) token, or a separator (`req`: at least one character) -/
inductive Piece
  | tok (s : List Char)
  | sep (req : Bool)

/-- the template with blank separators of the given counts -/
def render : List Piece → List Nat → List Char
  | [], _ => []
  | .tok s :: ps, ks => s ++ render ps ks
  | .sep _ :: ps, k :: ks => List.replicate k ' ' ++ render ps ks
  | .sep _ :: ps, [] => render ps []

/-- the template with the given separators -/
def renderW : List Piece → List (List Char) → List Char
  | [], _ => []
  | .tok s :: ps, ws => s ++ renderW ps ws
  | .sep _ :: ps, w :: ws => w ++ renderW ps ws
  | .sep _ :: ps, [] => renderW ps []

/-- one count per separator, `≥ 1` where required -/
def CountsOK : List Piece → List Nat → Prop
  | [], ks => ks = []
  | .tok _ :: ps, ks => CountsOK ps ks
  | .sep req :: ps, k :: ks => (req = true → 1 ≤ k) ∧ CountsOK ps ks
  | .sep _ :: _, [] => False

/-- one blank/tab separator per separator piece, non-empty where required -/
def SepsOK : List Piece → List (List Char) → Prop
  | [], ws => ws = []
  | .tok _ :: ps, ws => SepsOK ps ws
  | .sep req :: ps, w :: ws => IsSep w ∧ (req = true → w ≠ []) ∧ SepsOK ps ws
  | .sep _ :: _, [] => False

def ToksOK : List Piece → Prop
  | [] => True
  | .tok s :: ps => '\t' ∉ s ∧ ToksOK ps
  | .sep _ :: ps => ToksOK ps

/-- **tab expansion of a layout template**: tokens are copied, every separator becomes blanks, `≥ 1` where the
    separator is required to be non-empty -/
theorem expand_template (tm : List Piece) (htok : ToksOK tm) (ws : List (List Char)) (hws : SepsOK tm ws)
    (col : Nat) :
    ∃ ks col', CountsOK tm ks ∧
      ∀ rest, expandTabs (renderW tm ws ++ rest) col = render tm ks ++ expandTabs rest col' := by
  induction tm generalizing ws col with
  | nil =>
    have : ws = [] := hws
    exact ⟨[], col, rfl, fun rest => rfl⟩
  | cons p ps ih =>
    cases p with
    | tok s =>
      obtain ⟨ks, col', hk, hex⟩ := ih htok.2 ws hws (colAfter s col)
      refine ⟨ks, col', hk, fun rest => ?_⟩
      simp only [renderW, render, List.append_assoc]
      rw [expandTabs_tok s htok.1, hex rest]
    | sep req =>
      cases ws with
      | nil => exact absurd hws (by simp [SepsOK])
      | cons w ws =>
        obtain ⟨hw1, hw2, hw3⟩ := hws
        obtain ⟨n, col1, hn, hex1⟩ := expandTabs_sep w hw1 col
        obtain ⟨ks, col', hk, hex⟩ := ih htok ws hw3 col1
        refine ⟨n :: ks, col', ⟨fun hr => ?_, hk⟩, fun rest => ?_⟩
        · have := hw2 hr
          have : 0 < w.length := List.length_pos_iff.mpr this
          omega
        · simp only [renderW, render, List.append_assoc]
          rw [hex1, hex rest]

/-- `parseDoc` sees the expanded text only -/
theorem parseDoc_expand (env : Env) (g : G) (T T' : List Char) (h : expandTabs T 0 = T') (hnt : '\t' ∉ T') :
    parseDoc env g (String.ofList T) = parseDoc env g (String.ofList T') := by
  unfold parseDoc
  simp only [String.toList_ofList, h, expandTabs_id T' 0 hnt]

end Dsd.PP.Tabs
