/-
`add_constraint` of the legacy `SequenceConstraint` computes, position by position, what the current `add_constraints` computes.
-/
import DsdVerif.Lemmas.PyLegacySeq3b

set_option linter.unusedSimpArgs false

namespace Dsd.PyLegacySeq
open Dsd Dsd.Gen Dsd.PyObj.Basic

theorem mapM_pairs (f : List Char × List Char → SequenceConstraint.M (List Char)) (g : Char × Char → Py.M String)
    (st : SequenceConstraint.Self) : ∀ (l : List (Char × Char)),
    (∀ p ∈ l, (f ([p.1], [p.2])).exec st = ((g p).map String.toList, st)) →
    (List.mapM f (l.map (fun p => ([p.1], [p.2])))).exec st = ((List.mapM g l).map (List.map String.toList), st) := by
  intro l
  induction l with
  | nil => intro _; rfl
  | cons p l ih =>
    intro h
    rw [List.map_cons, List.mapM_cons, List.mapM_cons, exec_bind, h p List.mem_cons_self]
    cases hg : g p with
    | error e => rfl
    | ok y =>
      simp only [Except.map, exec_bind, ih (fun q hq => h q (List.mem_cons_of_mem _ hq))]
      cases List.mapM g l <;> rfl

theorem mem_pairs (mol : String) (s c : List Char) (hs : ∀ x ∈ s, x ∈ codesOf mol) (hc : ∀ x ∈ c, x ∈ codesOf mol) :
    ∀ p ∈ List.zip s c, p ∈ pairsOf mol := by
  intro p hp
  have h1 := hs p.1 (List.of_mem_zip hp).1
  have h2 := hc p.2 (List.of_mem_zip hp).2
  unfold pairsOf
  rw [List.mem_flatMap]
  exact ⟨p.1, h1, List.mem_map.mpr ⟨p.2, h2, rfl⟩⟩

/-- the table of the current function for a molecule -/
def tblOf (mol : String) : List String := if mol == "DNA" then bin_iupac_dna else bin_iupac_rna

/-- **`_merge_constraints` as written = the per-position results of the current `add_constraints`** (IUPAC sequences, both molecules) -/
theorem merge_eq (s c : List Char) (mol : String) (hm : mol = "DNA" ∨ mol = "RNA") (hs : ∀ x ∈ s, x ∈ codesOf mol)
    (hc : ∀ x ∈ c, x ∈ codesOf mol) :
    (py_SequenceConstraint_merge_constraints (s.map (fun x => [x])) (c.map (fun x => [x]))).exec (mkS s mol) =
      ((List.mapM (curUnion (tblOf mol)) (List.zip s c)).map (List.map String.toList), mkS s mol) := by
  unfold py_SequenceConstraint_merge_constraints
  simp only [exec_bind, exec_pure]
  have hz : List.zip (s.map (fun x => [x])) (c.map (fun x => [x])) = (List.zip s c).map (fun p => ([p.1], [p.2])) := by
    rw [List.zip_map]; rfl
  rw [hz]
  have hp := mem_pairs mol s c hs hc
  rcases hm with rfl | rfl
  · rw [mapM_pairs _ (curUnion (tblOf "DNA")) _ (List.zip s c)
      (fun p hpz => by rw [union_reads ([p.1], [p.2]) (mkS s "DNA"), show (mkS s "DNA").ToU = ['T'] from rfl, union_pairs_dna p (hp p hpz)]; rfl)]
  · rw [mapM_pairs _ (curUnion (tblOf "RNA")) _ (List.zip s c)
      (fun p hpz => by rw [union_reads ([p.1], [p.2]) (mkS s "RNA"), show (mkS s "RNA").ToU = ['U'] from rfl, union_pairs_rna p (hp p hpz)]; rfl)]

end Dsd.PyLegacySeq
