import DsdVerif.Gen.PyFuncs
import DsdVerif.Lemmas.PyMakeLoopIndex
import DsdVerif.Lemmas.Split

/-!
`split_complex_pt` as written in the source (`Gen.py_split_complex_pt`, the list of the values the generator yields, recursion
bounded by `fuel`) is the model's `splitPt` on every pair table that is a non-crossing perfect matching of the brackets of some
list of strands (`Split.LM`), in particular on every table `make_pair_table` returns.
-/
namespace Dsd.PyEq
open Dsd Dsd.Bracket Dsd.Loop Dsd.Split Dsd.C06

/-! ### `make_loop_index` on a table in linear form -/

/-- `make_loop_index_eq` under the invariant that is stable under splicing -/
theorem make_loop_index_eq_linF {syms pt t} (L : LinF syms pt t) (components : Bool) :
    Gen.py_make_loop_index pt components = (makeLoopIndex pt components).map loopOutPy := by
  have ht := L.hm
  have hpt := L.hpt
  have hM := matchW_sound _ t ht
  have htl := matchW_length _ t ht
  have hsum : (syms.map List.length).sum = syms.flatten.length := by rw [List.length_flatten]
  have hmodel : (makeLoopIndex pt components).map loopOutPy =
      Except.map (outM (syms.map List.length)) (loopScan components (reshape (syms.map List.length) t) 0 {} [] []) := by
    rw [L.makeLoopIndex_eq]
    cases loopScan components (reshape (syms.map List.length) t) 0 {} [] [] with
    | error e => rfl
    | ok r => rfl
  have hpy := outer_corr syms.flatten t (syms.map List.length) hM htl pt components (syms.map List.length) []
    { loop_index := [], exterior := [], myext := [], stack := [], cl := 0, nl := 0 } {} [] [] []
    (by simp) (by simp; omega) rfl (linv_init _ _) ⟨rfl, rfl, rfl, rfl, rfl, rfl, rfl⟩
  simp only [List.sum_nil, List.drop_zero, List.length_nil] at hpy
  rw [hmodel, ← hpy, py_make_loop_index_unfold]
  congr 2
  rw [hpt, ← reshape_map]

/-! ### one iteration of the scan over `ext` -/

abbrev SVars := Gen.split_complex_pt.Vars
abbrev Parts := List (List (List String) × PairTable)

theorem sloop1_brk (recur stab ptab) (v : SVars) (x) (h : v.brk1 = true) :
    Gen.split_complex_pt.loop1 recur stab ptab v x = .ok v := by
  simp [Gen.split_complex_pt.loop1, h, pure, Except.pure]

theorem sloop1_a1 (recur stab ptab) (v : SVars) (j fr to : Nat) (h : v.brk1 = false)
    (h1 : v.seen.lookup (some fr) = none) :
    Gen.split_complex_pt.loop1 recur stab ptab v (j, [some fr, some to]) = .error .assertion := by
  simp [Gen.split_complex_pt.loop1, h, pure, Except.pure, Py.unpack2, bind, Except.bind, Py.dictHas, h1,
    throw, throwThe, MonadExceptOf.throw]

theorem sloop1_a2 (recur stab ptab) (v : SVars) (j fr to val : Nat) (h : v.brk1 = false)
    (h1 : v.seen.lookup (some fr) = some val) (h2 : val ≠ j) :
    Gen.split_complex_pt.loop1 recur stab ptab v (j, [some fr, some to]) = .error .assertion := by
  simp [Gen.split_complex_pt.loop1, h, pure, Except.pure, Py.unpack2, bind, Except.bind, Py.dictHas, Py.dictGet, h1, h2,
    throw, throwThe, MonadExceptOf.throw]

theorem sloop1_last_bad (recur stab ptab) (v : SVars) (j fr to : Nat) (h : v.brk1 = false)
    (h1 : v.seen.lookup (some fr) = some j) (hj : j + 1 = v.ext.length)
    (h3 : v.seen.lookup (some to) = none) :
    Gen.split_complex_pt.loop1 recur stab ptab v (j, [some fr, some to]) = .error .assertion := by
  have e : Py.sub v.ext.length 1 = .ok j := by simp [Py.sub, ← hj]; rfl
  simp [Gen.split_complex_pt.loop1, h, pure, Except.pure, Py.unpack2, bind, Except.bind, Py.dictHas, Py.dictGet, h1, e, h3,
    throw, throwThe, MonadExceptOf.throw]

theorem sloop1_last (recur stab ptab) (v : SVars) (j fr to x : Nat) (h : v.brk1 = false)
    (h1 : v.seen.lookup (some fr) = some j) (hj : j + 1 = v.ext.length)
    (h3 : v.seen.lookup (some to) = some x) :
    Gen.split_complex_pt.loop1 recur stab ptab v (j, [some fr, some to]) =
      .ok { v with yielded := v.yielded ++ [(stab, ptab)], brk1 := true } := by
  have e : Py.sub v.ext.length 1 = .ok j := by simp [Py.sub, ← hj]; rfl
  simp [Gen.split_complex_pt.loop1, h, pure, Except.pure, Py.unpack2, bind, Except.bind, Py.dictHas, Py.dictGet, h1, e, h3]

theorem sloop1_cont (recur stab ptab) (v : SVars) (j fr to : Nat) (h : v.brk1 = false)
    (h1 : v.seen.lookup (some fr) = some j) (hj : j + 1 < v.ext.length)
    (h3 : v.seen.lookup (some to) = none) :
    Gen.split_complex_pt.loop1 recur stab ptab v (j, [some fr, some to]) =
      .ok { v with seen := v.seen ++ [(some to, j + 1)] } := by
  have e : Py.sub v.ext.length 1 = .ok (v.ext.length - 1) := by
    have : 1 ≤ v.ext.length := by omega
    simp [Py.sub, this]; rfl
  have hne : ¬ (j = v.ext.length - 1) := by omega
  simp [Gen.split_complex_pt.loop1, h, pure, Except.pure, Py.unpack2, bind, Except.bind, Py.dictHas, Py.dictGet, Py.dictSet,
    h1, e, h3, hne]

theorem sloop2_fold (recur stab ptab j fr to) (v : SVars) (xs : Parts) :
    List.foldlM (Gen.split_complex_pt.loop2 recur stab ptab j fr to) v xs = .ok { v with yielded := v.yielded ++ xs } := by
  induction xs generalizing v with
  | nil => simp [pure, Except.pure]
  | cons x xs ih =>
    simp only [List.foldlM_cons]
    have : Gen.split_complex_pt.loop2 recur stab ptab j fr to v x = .ok { v with yielded := v.yielded ++ [x] } := by
      simp [Gen.split_complex_pt.loop2, pure, Except.pure]
    rw [this]
    simp only [bind, Except.bind]
    rw [ih]
    simp

theorem sloop1_splice (recur stab ptab) (v : SVars) (j fr to i : Nat) (h : v.brk1 = false)
    (h1 : v.seen.lookup (some fr) = some j) (hj : j + 1 < v.ext.length)
    (h3 : v.seen.lookup (some to) = some i) :
    (Gen.split_complex_pt.loop1 recur stab ptab v (j, [some fr, some to])) =
      (do let sp ← Gen.split_complex_pt.splice stab ptab i j
          let a ← recur sp.1.1 sp.1.2
          let b ← recur sp.2.1 sp.2.2
          pure { v with i := i, iss := sp.1.1, ipt := sp.1.2, oss := sp.2.1, opt := sp.2.2,
                        yielded := v.yielded ++ (a ++ b), brk1 := true }) := by
  have e : Py.sub v.ext.length 1 = .ok (v.ext.length - 1) := by
    have : 1 ≤ v.ext.length := by omega
    simp [Py.sub, this]; rfl
  have hne : ¬ (j = v.ext.length - 1) := by omega
  cases hs : Gen.split_complex_pt.splice stab ptab i j with
  | error e' =>
    simp [Gen.split_complex_pt.loop1, h, pure, Except.pure, Py.unpack2, bind, Except.bind, Py.dictHas, Py.dictGet,
      h1, e, h3, hne, hs]
  | ok sp =>
    cases ha : recur sp.1.1 sp.1.2 with
    | error e' =>
      simp [Gen.split_complex_pt.loop1, h, pure, Except.pure, Py.unpack2, bind, Except.bind, Py.dictHas, Py.dictGet,
        h1, e, h3, hne, hs, ha]
    | ok a =>
      cases hb : recur sp.2.1 sp.2.2 with
      | error e' =>
        simp [Gen.split_complex_pt.loop1, h, pure, Except.pure, Py.unpack2, bind, Except.bind, Py.dictHas, Py.dictGet,
          h1, e, h3, hne, hs, ha, hb]
      | ok b =>
        simp [Gen.split_complex_pt.loop1, h, pure, Except.pure, Py.unpack2, bind, Except.bind, Py.dictHas, Py.dictGet,
          h1, e, h3, hne, hs, ha, hb, sloop2_fold]


/-! ### the nested `splice` -/

theorem mapM_ok {α β} (f : α → Py.M β) (g : α → β) (l : List α) (h : ∀ x ∈ l, f x = .ok (g x)) :
    List.mapM f l = .ok (l.map g) := by
  induction l with
  | nil => rfl
  | cons a as ih =>
    rw [List.mapM_cons, h a (by simp), ih (fun x hx => h x (by simp [hx]))]
    rfl

theorem py_splice_eq (stab : List (List String)) (ptab : PairTable) (i j : Nat) (hij : i ≤ j)
    (hin : ∀ row ∈ (ptab.take (j + 1)).drop i, ∀ a b, some (a, b) ∈ row → i ≤ a)
    (hout : ∀ row ∈ ptab.take i ++ ptab.drop (j + 1), ∀ a b, some (a, b) ∈ row → a < i ∨ j + 1 - i ≤ a) :
    Gen.split_complex_pt.splice stab ptab i j = .ok (splice stab ptab i j) := by
  unfold Gen.split_complex_pt.splice
  rw [mapM_ok _ (fun st => st.map (shiftLocus (fun s => s - i))) _ ?_]
  · simp only [bind, Except.bind]
    rw [mapM_ok _ (fun st => st.map (shiftLocus (fun s => if s < i then s else s - (j + 1 - i)))) _ ?_]
    · simp only [pure, Except.pure, List.drop_zero]
      rfl
    · intro row hrow
      simp only [List.drop_zero] at hrow
      apply mapM_ok
      intro x hx
      cases x with
      | none => rfl
      | some p =>
        obtain ⟨a, b⟩ := p
        have := hout row hrow a b hx
        by_cases ha : a < i
        · simp [Py.unwrap, shiftLocus, ha, pure, Except.pure]
        · have h1 : j + 1 - i ≤ a := by omega
          have h2 : i ≤ j + 1 := by omega
          simp [Py.unwrap, Py.sub, shiftLocus, ha, h1, h2, pure, Except.pure]
  · intro row hrow
    apply mapM_ok
    intro x hx
    cases x with
    | none => rfl
    | some p =>
      obtain ⟨a, b⟩ := p
      have := hin row hrow a b hx
      simp [Py.unwrap, Py.sub, shiftLocus, this, bind, Except.bind, pure, Except.pure]


/-! ### the scan over `ext` -/

def encExt (my : List (Nat × Nat)) : List (List (Option Nat)) := my.map (fun p => [some p.1, some p.2])

/-- the Python dict `seen` (keys typed `Option Nat`) and the model's association list agree on every int key -/
def SeenR (sp : List (Option Nat × Nat)) (sm : List (Nat × Nat)) : Prop := ∀ k, sp.lookup (some k) = sm.lookup k

/-- what `split_complex_pt` does with the outcome of the scan: `y` is what was yielded before -/
def afterScan (recur : List (List String) → PairTable → Py.M Parts) (stab : List (List String)) (ptab : PairTable)
    (y : Parts) : Option (Nat × Nat) → Py.M Parts
  | none => .ok (y ++ [(stab, ptab)])
  | some (i, j) => do
    let sp ← Gen.split_complex_pt.splice stab ptab i j
    let a ← recur sp.1.1 sp.1.2
    let b ← recur sp.2.1 sp.2.2
    pure (y ++ (a ++ b))

theorem sfold_brk (recur stab ptab) (v : SVars) (xs) (h : v.brk1 = true) :
    List.foldlM (Gen.split_complex_pt.loop1 recur stab ptab) v xs = .ok v := by
  induction xs with
  | nil => rfl
  | cons x xs ih =>
    rw [List.foldlM_cons, sloop1_brk _ _ _ _ _ h]
    exact ih

theorem seenR_cons (sp sm) (h : SeenR sp sm) (to v : Nat) (hn : sp.lookup (some to) = none) :
    SeenR (sp ++ [(some to, v)]) ((to, v) :: sm) := by
  intro k
  rw [List.lookup_append]
  by_cases hk : k = to
  · subst hk; simp [hn]
  · have e1 : (k == to) = false := by simp [hk]
    have e2 : (some k == some to) = false := by simp [hk]
    simp only [List.lookup_cons, List.lookup_nil, e1, e2, h k]
    cases sm.lookup k <;> rfl

theorem scan_corr (recur stab ptab) (n : Nat) : ∀ (rest : List (Nat × Nat)) (j : Nat) (v : SVars) (sm : List (Nat × Nat)),
    rest ≠ [] → v.brk1 = false → SeenR v.seen sm → v.ext.length = n → j + rest.length = n →
    (List.foldlM (Gen.split_complex_pt.loop1 recur stab ptab) v (enumFrom j (encExt rest))).map (·.yielded) =
      (splitScan rest j n sm >>= afterScan recur stab ptab v.yielded) := by
  intro rest
  induction rest with
  | nil => intro j v sm h; exact absurd rfl h
  | cons x rest ih =>
    intro j v sm _ hb hR hn hlen
    obtain ⟨fr, to⟩ := x
    simp only [List.length_cons] at hlen
    simp only [encExt, List.map_cons, enumFrom_cons, List.foldlM_cons]
    rw [splitScan]
    have hfr := hR fr
    have hto := hR to
    cases h1 : sm.lookup fr with
    | none =>
      rw [h1] at hfr
      rw [sloop1_a1 _ _ _ _ _ _ _ hb hfr]; rfl
    | some val =>
      rw [h1] at hfr
      by_cases hv : val = j
      · subst hv
        simp only [ne_eq, not_true_eq_false, if_false]
        by_cases hlast : val = n - 1
        · have hr : rest = [] := List.eq_nil_of_length_eq_zero (by omega)
          subst hr
          rw [if_pos hlast]
          cases h3 : sm.lookup to with
          | none =>
            rw [h3] at hto
            rw [sloop1_last_bad _ _ _ _ _ _ _ hb hfr (by omega) hto]; rfl
          | some x =>
            rw [h3] at hto
            rw [sloop1_last _ _ _ _ _ _ _ _ hb hfr (by omega) hto]
            rfl
        · rw [if_neg hlast]
          cases h3 : sm.lookup to with
          | some i =>
            rw [h3] at hto
            rw [sloop1_splice _ _ _ _ _ _ _ _ hb hfr (by omega) hto]
            show _ = afterScan recur stab ptab v.yielded (some (i, val))
            simp only [afterScan]
            cases hs : Gen.split_complex_pt.splice stab ptab i val with
            | error e => rfl
            | ok sp =>
              cases ha : recur sp.1.1 sp.1.2 with
              | error e => simp [bind, Except.bind, ha, Except.map]
              | ok a =>
                cases hb' : recur sp.2.1 sp.2.2 with
                | error e => simp [bind, Except.bind, ha, hb', Except.map]
                | ok b =>
                  simp only [bind, Except.bind, ha, hb', pure, Except.pure]
                  rw [sfold_brk _ _ _ _ _ rfl]
                  rfl
          | none =>
            rw [h3] at hto
            rw [sloop1_cont _ _ _ _ _ _ _ hb hfr (by omega) hto]
            have := ih (val + 1) { v with seen := v.seen ++ [(some to, val + 1)] } ((to, val + 1) :: sm)
              (by intro e; subst e; simp at hlen; omega) hb (seenR_cons _ _ hR _ _ hto) hn (by omega)
            simp only [bind, Except.bind]
            exact this
      · simp only [ne_eq, hv, not_false_eq_true, if_true]
        rw [sloop1_a2 _ _ _ _ _ _ _ _ hb hfr hv]; rfl

/-! ### the splice points found by the scan: the partner strands stay on their side -/

theorem mem_slice {α} (l : List α) (i j : Nat) (row : α) (h : row ∈ (l.take (j + 1)).drop i) :
    ∃ k, i ≤ k ∧ k ≤ j ∧ l[k]? = some row := by
  obtain ⟨n, hn⟩ := List.mem_iff_getElem?.mp h
  rw [List.getElem?_drop, List.getElem?_take] at hn
  by_cases hlt : i + n < j + 1
  · rw [if_pos hlt] at hn
    exact ⟨i + n, by omega, by omega, hn⟩
  · rw [if_neg hlt] at hn; simp at hn

theorem mem_outer {α} (l : List α) (i j : Nat) (row : α) (h : row ∈ l.take i ++ l.drop (j + 1)) :
    ∃ k, (k < i ∨ j < k) ∧ l[k]? = some row := by
  rcases List.mem_append.mp h with h | h
  · obtain ⟨n, hn⟩ := List.mem_iff_getElem?.mp h
    rw [List.getElem?_take] at hn
    by_cases hlt : n < i
    · rw [if_pos hlt] at hn; exact ⟨n, Or.inl hlt, hn⟩
    · rw [if_neg hlt] at hn; simp at hn
  · obtain ⟨n, hn⟩ := List.mem_iff_getElem?.mp h
    rw [List.getElem?_drop] at hn
    exact ⟨j + 1 + n, Or.inr (by omega), hn⟩

theorem ptGet_of_mem (pt : PairTable) (k : Nat) (row : List (Option Locus)) (l : Locus) (hk : pt[k]? = some row)
    (hl : some l ∈ row) : ∃ d, ptGet pt (k, d) = some l := by
  obtain ⟨d, hd⟩ := List.mem_iff_getElem?.mp hl
  exact ⟨d, by simp [ptGet, hk, hd]⟩

/-! ### the statement -/

theorem py_split_unfold (f : Nat) (stab : List (List String)) (pt : PairTable) (r)
    (h : Gen.py_make_loop_index pt true = .ok r) :
    Gen.py_split_complex_pt (f + 1) stab pt =
      (List.foldlM (Gen.split_complex_pt.loop1 (Gen.py_split_complex_pt f) stab pt)
        { li := r.1, ext := r.2.2, seen := [(some 0, 0)], brk1 := false } (enumFrom 0 r.2.2)).map (·.yielded) := by
  rw [Gen.py_split_complex_pt]
  simp only [h, bind, Except.bind, enumerate_eq]
  cases List.foldlM (Gen.split_complex_pt.loop1 (Gen.py_split_complex_pt f) stab pt) _ (enumFrom 0 r.2.2) <;> rfl

/-- **`split_complex_pt` as written in the source is the model's `splitPt`** on every pair table that is a non-crossing
    perfect matching of the brackets of some list of strands — the invariant that the two halves of a splice inherit —
    for every strand table and every amount of fuel (results, their order, and error kinds, `RecursionError` included) -/
theorem split_complex_pt_eq_lm (fuel : Nat) : ∀ (stab : List (List String)) (pt : PairTable) (syms : List (List Sym)),
    LM syms pt → Gen.py_split_complex_pt fuel stab pt = splitPt fuel stab pt := by
  induction fuel with
  | zero => intro stab pt syms _; rfl
  | succ f ih =>
    intro stab pt syms hlm
    obtain ⟨t, L⟩ := hlm.linF
    obtain ⟨lo, m1, m2⟩ := L.myext
    have hpy := make_loop_index_eq_linF L true
    rw [m1] at hpy
    rw [py_split_unfold f stab pt _ hpy, splitPt]
    simp only [m1]
    show Except.map _ (List.foldlM _ _ (enumFrom 0 (encExt lo.myext))) = _
    cases hmy : lo.myext with
    | nil => rfl
    | cons x0 rest0 =>
      rw [← hmy]
      have hne : lo.myext ≠ [] := by rw [hmy]; simp
      have hsc := scan_corr (Gen.py_split_complex_pt f) stab pt lo.myext.length lo.myext 0
        { li := lo.loopIndex, ext := encExt lo.myext, seen := [(some 0, 0)], brk1 := false } [(0, 0)] hne rfl
        (by intro k; simp [List.lookup]) (by simp [encExt]) (by simp)
      refine hsc.trans ?_
      show splitScan lo.myext 0 lo.myext.length [(0, 0)] >>= afterScan (Gen.py_split_complex_pt f) stab pt [] = _
      have hlens : 1 ≤ (syms.map List.length).length := by
        have := ends_length t 0 (syms.map List.length)
        rw [← m2, hmy] at this
        simp only [List.length_cons] at this
        omega
      have hemp : lo.myext.isEmpty = false := by rw [hmy]; rfl
      rw [m2]
      rcases L.scan_outcome hlens with ⟨e, _⟩ | ⟨i, j, e, hij, hj, heq⟩
      · rw [e]
        simp only [← m2, hemp]
        rfl
      · rw [e]
        have hjl : j < pt.length := by
          have := congrArg List.length L.shape
          simp only [List.length_map] at this hj
          omega
        have hin : ∀ row ∈ (pt.take (j + 1)).drop i, ∀ a b, some (a, b) ∈ row → i ≤ a := by
          intro row hrow a b hab
          obtain ⟨k, h1, h2, hk⟩ := mem_slice pt i j row hrow
          obtain ⟨d, hd⟩ := ptGet_of_mem pt k row (a, b) hk hab
          exact ((L.block_closed i j heq k d (a, b) hd).mp ⟨h1, h2⟩).1
        have hout : ∀ row ∈ pt.take i ++ pt.drop (j + 1), ∀ a b, some (a, b) ∈ row → a < i ∨ j + 1 - i ≤ a := by
          intro row hrow a b hab
          obtain ⟨k, h1, hk⟩ := mem_outer pt i j row hrow
          obtain ⟨d, hd⟩ := ptGet_of_mem pt k row (a, b) hk hab
          have := L.block_closed i j heq k d (a, b) hd
          simp only at this
          omega
        have Pin := L.part_inner i j hij hjl heq
        have Pout := L.part_outer i j hij hjl heq
        rw [sel_Jin pt i j hij hjl] at Pin
        rw [sel_Jout pt i j hij hjl] at Pout
        have ia := ih (splice stab pt i j).1.1 (splice stab pt i j).1.2 _ (hlm.restrict Pin)
        have ib := ih (splice stab pt i j).2.1 (splice stab pt i j).2.2 _ (hlm.restrict Pout)
        show afterScan _ stab pt [] (some (i, j)) = _
        simp only [afterScan, py_splice_eq stab pt i j hij hin hout, bind, Except.bind, ia, ib]
        cases splitPt f (splice stab pt i j).1.1 (splice stab pt i j).1.2 with
        | error e1 => rfl
        | ok a =>
          cases splitPt f (splice stab pt i j).2.1 (splice stab pt i j).2.2 with
          | error e2 => rfl
          | ok b => rfl

/-- the statement for the tables `make_pair_table` returns (the hypothesis on the strand table is not needed) -/
theorem split_complex_pt_eq (fuel : Nat) (stab : List (List String)) (ss : List Char) (brk : Char) (pt : PairTable)
    (h : makePairTable ss brk = .ok pt) (_hs : stab.map List.length = pt.map List.length) :
    Gen.py_split_complex_pt fuel stab pt = splitPt fuel stab pt := by
  obtain ⟨syms, t, L, _⟩ := mpt_linF ss brk pt h
  exact split_complex_pt_eq_lm fuel stab pt syms L.lm

end Dsd.PyEq

#print axioms Dsd.PyEq.split_complex_pt_eq_lm
#print axioms Dsd.PyEq.split_complex_pt_eq
