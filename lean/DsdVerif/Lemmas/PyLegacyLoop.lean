/-
The loop-index views of the translated legacy `DSD_Complex`: `loop_index`, `get_loop_index`, `is_connected` are the model's
functions on every object whose cached pair table (if it is truthy) is a table that `make_pair_table` returns (`PtOk`: what
every method preserves - `rotate_once` resets the cache, the views fill it from the current structure).
-/
import DsdVerif.Lemmas.PyLegacyBasic

set_option linter.unusedSimpArgs false

namespace Dsd.PyLegacy
open Dsd Dsd.Gen Dsd.Lg Dsd.PyObj.Basic

/-- a pair table that `make_pair_table` returns for some text -/
def IsPt (pt : PairTable) : Prop := ∃ ss, makePairTable ss = .ok pt

/-- the cached pair table, when it is used (truthy), is a table of `make_pair_table` -/
def PtOk (o : LObj) : Prop := ∀ t, o.pairTable = some t → t ≠ [] → IsPt t

theorem li_ok (pt : PairTable) (h : IsPt pt) (r : List (List Nat) × List Nat × List (List (Option Nat)))
    (hr : py_make_loop_index pt false = .ok r) : LObj.runLoopIndex pt = .ok (r.1, r.2.1) := by
  obtain ⟨ss, hss⟩ := h
  rw [PyFuncs.py_make_loop_index_eq ss '+' pt hss false] at hr
  unfold LObj.runLoopIndex
  cases hm : makeLoopIndex pt false with
  | error e => rw [hm] at hr; cases hr
  | ok lo => rw [hm] at hr; cases hr; rfl

theorem li_err (pt : PairTable) (h : IsPt pt) (e : Err) (hr : py_make_loop_index pt false = .error e) :
    LObj.runLoopIndex pt = .error .secondaryStructure ∧ e = .secondaryStructure := by
  obtain ⟨ss, hss⟩ := h
  rw [PyFuncs.py_make_loop_index_eq ss '+' pt hss false] at hr
  unfold LObj.runLoopIndex
  cases hm : makeLoopIndex pt false with
  | ok lo => rw [hm] at hr; cases hr
  | error e' =>
    rw [hm] at hr
    have := LgL.makeLoopIndex_err _ _ _ hm
    subst this
    cases hr
    exact ⟨rfl, rfl⟩

theorem exec_loop_index (o : LObj) (h : PtOk o) :
    (py_DSD_Complex_loop_index).exec (ofL o) = exAns o.loopIndexView := by
  unfold py_DSD_Complex_loop_index LObj.loopIndexView LObj.fillPairTable exAns
  simp only [exec_ite, exec_bind, exec_get, exec_pure, exec_lift, exec_monadLift, exec_modify, exec_structure', PyFuncs.py_make_pair_table_eq, truthy_eq]
  obtain ⟨id, name, seq, sst, canon, rot, sl, pt, li, el, lol, exd, end_, mc⟩ := o
  rcases pt with _ | _ | ⟨r0, rs⟩ <;>
    simp only [truthy, ofL, Py.unwrap, Bool.not_true, Bool.not_false, if_true, if_false, Option.getD, pure, Except.pure, Bool.false_eq_true]
  · cases hm : makePairTable sst with
    | error e => rw [LgL.makePairTable_err _ _ hm]; rfl
    | ok pt =>
      simp only []
      cases hli : py_make_loop_index pt false with
      | ok r => rw [li_ok pt ⟨sst, hm⟩ r hli]
      | error e => obtain ⟨h1, h2⟩ := li_err pt ⟨sst, hm⟩ e hli; rw [h1, h2]; rfl
  · cases hm : makePairTable sst with
    | error e => rw [LgL.makePairTable_err _ _ hm]; rfl
    | ok pt =>
      simp only []
      cases hli : py_make_loop_index pt false with
      | ok r => rw [li_ok pt ⟨sst, hm⟩ r hli]
      | error e => obtain ⟨h1, h2⟩ := li_err pt ⟨sst, hm⟩ e hli; rw [h1, h2]; rfl
  · have hp : IsPt (r0 :: rs) := h _ rfl (by simp)
    cases hli : py_make_loop_index (r0 :: rs) false with
    | ok r => rw [li_ok _ hp r hli]
    | error e => obtain ⟨h1, h2⟩ := li_err _ hp e hli; rw [h1, h2]; rfl

theorem exec_tryCatch {σ α : Type} (m : Py.MS σ α) (hd : Err → Py.MS σ α) (s : σ) :
    (tryCatch m hd).exec s = match m.exec s with
      | (.ok a, s') => (.ok a, s')
      | (.error e, s') => (hd e).exec s' := by
  simp only [Py.MS.exec, ExceptT.run, tryCatch, tryCatchThe, MonadExceptOf.tryCatch, ExceptT.tryCatch, ExceptT.mk, bind, StateT.bind, StateT.run]
  cases h : m s with
  | mk r s' => cases r <;> rfl

theorem exec_is_connected (o : LObj) (h : PtOk o) :
    (py_DSD_Complex_is_connected).exec (ofL o) = exAns o.isConnected := by
  unfold py_DSD_Complex_is_connected LObj.isConnected LObj.fillPairTable exAns
  simp only [exec_ite, exec_bind, exec_get, exec_pure, exec_lift, exec_monadLift, exec_modify, exec_structure', PyFuncs.py_make_pair_table_eq, truthy_eq,
    exec_tryCatch]
  obtain ⟨id, name, seq, sst, canon, rot, sl, pt, li, el, lol, exd, end_, mc⟩ := o
  rcases pt with _ | _ | ⟨r0, rs⟩ <;>
    simp only [truthy, ofL, Py.unwrap, Bool.not_true, Bool.not_false, if_true, if_false, Option.getD, pure, Except.pure, Bool.false_eq_true]
  · cases hm : makePairTable sst with
    | error e => rw [LgL.makePairTable_err _ _ hm]; rfl
    | ok pt =>
      simp only []
      rcases li with _ | _ | ⟨l0, ls⟩ <;>
        simp only [truthy, Bool.not_true, Bool.not_false, if_true, if_false, Bool.false_eq_true] <;>
        first
          | rfl
          | (cases hli : py_make_loop_index pt false with
             | ok r => rw [li_ok pt ⟨sst, hm⟩ r hli]; rfl
             | error e => obtain ⟨h1, h2⟩ := li_err pt ⟨sst, hm⟩ e hli; rw [h1, h2]; rfl)
  · cases hm : makePairTable sst with
    | error e => rw [LgL.makePairTable_err _ _ hm]; rfl
    | ok pt =>
      simp only []
      rcases li with _ | _ | ⟨l0, ls⟩ <;>
        simp only [truthy, Bool.not_true, Bool.not_false, if_true, if_false, Bool.false_eq_true] <;>
        first
          | rfl
          | (cases hli : py_make_loop_index pt false with
             | ok r => rw [li_ok pt ⟨sst, hm⟩ r hli]; rfl
             | error e => obtain ⟨h1, h2⟩ := li_err pt ⟨sst, hm⟩ e hli; rw [h1, h2]; rfl)
  · have hp : IsPt (r0 :: rs) := h _ rfl (by simp)
    rcases li with _ | _ | ⟨l0, ls⟩ <;>
      simp only [truthy, Bool.not_true, Bool.not_false, if_true, if_false, Bool.false_eq_true] <;>
      first
        | rfl
        | (cases hli : py_make_loop_index (r0 :: rs) false with
           | ok r => rw [li_ok _ hp r hli]; rfl
           | error e => obtain ⟨h1, h2⟩ := li_err _ hp e hli; rw [h1, h2]; rfl)

theorem exec_get_loop_index (o : LObj) (h : PtOk o) (loc : Locus) :
    (py_DSD_Complex_get_loop_index loc).exec (ofL o) = exAns (o.getLoopIndex loc) := by
  unfold py_DSD_Complex_get_loop_index LObj.getLoopIndex LObj.fillPairTable exAns
  simp only [exec_ite, exec_bind, exec_get, exec_pure, exec_lift, exec_monadLift, exec_modify, exec_structure', PyFuncs.py_make_pair_table_eq, truthy_eq]
  obtain ⟨id, name, seq, sst, canon, rot, sl, pt, li, el, lol, exd, end_, mc⟩ := o
  rcases pt with _ | _ | ⟨r0, rs⟩ <;>
    simp only [truthy, ofL, Py.unwrap, Bool.not_true, Bool.not_false, if_true, if_false, Option.getD, pure, Except.pure, Bool.false_eq_true]
  · cases hm : makePairTable sst with
    | error e => rw [LgL.makePairTable_err _ _ hm]; rfl
    | ok pt =>
      simp only []
      rcases li with _ | _ | ⟨l0, ls⟩ <;>
        simp only [truthy, Bool.not_true, Bool.not_false, if_true, if_false, Bool.false_eq_true, Option.getD]
      · cases hli : py_make_loop_index pt false with
        | ok r => rw [li_ok _ ⟨sst, hm⟩ r hli]; simp only []; idx2 r.1, loc.1, loc.2
        | error e => obtain ⟨h1, h2⟩ := li_err _ ⟨sst, hm⟩ e hli; rw [h1, h2]; rfl
      · cases hli : py_make_loop_index pt false with
        | ok r => rw [li_ok _ ⟨sst, hm⟩ r hli]; simp only []; idx2 r.1, loc.1, loc.2
        | error e => obtain ⟨h1, h2⟩ := li_err _ ⟨sst, hm⟩ e hli; rw [h1, h2]; rfl
      · idx2 (l0 :: ls), loc.1, loc.2
  · cases hm : makePairTable sst with
    | error e => rw [LgL.makePairTable_err _ _ hm]; rfl
    | ok pt =>
      simp only []
      rcases li with _ | _ | ⟨l0, ls⟩ <;>
        simp only [truthy, Bool.not_true, Bool.not_false, if_true, if_false, Bool.false_eq_true, Option.getD]
      · cases hli : py_make_loop_index pt false with
        | ok r => rw [li_ok _ ⟨sst, hm⟩ r hli]; simp only []; idx2 r.1, loc.1, loc.2
        | error e => obtain ⟨h1, h2⟩ := li_err _ ⟨sst, hm⟩ e hli; rw [h1, h2]; rfl
      · cases hli : py_make_loop_index pt false with
        | ok r => rw [li_ok _ ⟨sst, hm⟩ r hli]; simp only []; idx2 r.1, loc.1, loc.2
        | error e => obtain ⟨h1, h2⟩ := li_err _ ⟨sst, hm⟩ e hli; rw [h1, h2]; rfl
      · idx2 (l0 :: ls), loc.1, loc.2
  · have hp : IsPt (r0 :: rs) := h _ rfl (by simp)
    rcases li with _ | _ | ⟨l0, ls⟩ <;>
      simp only [truthy, Bool.not_true, Bool.not_false, if_true, if_false, Bool.false_eq_true, Option.getD]
    · cases hli : py_make_loop_index (r0 :: rs) false with
      | ok r => rw [li_ok _ hp r hli]; simp only []; idx2 r.1, loc.1, loc.2
      | error e => obtain ⟨h1, h2⟩ := li_err _ hp e hli; rw [h1, h2]; rfl
    · cases hli : py_make_loop_index (r0 :: rs) false with
      | ok r => rw [li_ok _ hp r hli]; simp only []; idx2 r.1, loc.1, loc.2
      | error e => obtain ⟨h1, h2⟩ := li_err _ hp e hli; rw [h1, h2]; rfl
    · idx2 (l0 :: ls), loc.1, loc.2

/-! ### `PtOk` is an invariant: new objects have it, every modelled method keeps it -/

theorem ptOk_of_eq (o o' : LObj) (h : PtOk o) (he : o'.pairTable = o.pairTable) : PtOk o' := by
  intro t ht hne; rw [he] at ht; exact h t ht hne

theorem ptOk_new (id : Nat) (name : String) (seq : List String) (sst : List Char) (mc : Bool) :
    PtOk { id := id, name := name, seq := seq, sst := sst, memorycheck := mc } := by
  intro t ht; cases ht

theorem ptOk_fill (o : LObj) (h : PtOk o) : PtOk o.fillPairTable.1 := by
  unfold LObj.fillPairTable
  split
  · exact h
  · split
    · rename_i pt hm
      intro t ht _
      simp only [Option.some.injEq] at ht
      subst ht
      exact ⟨o.sst, hm⟩
    · exact h
    · exact h

theorem ptOk_rotateOnce (o : LObj) (h : PtOk o) : PtOk o.rotateOnce.1 := by
  unfold LObj.rotateOnce
  split
  · exact ptOk_of_eq o _ h rfl
  · intro t ht; cases ht

theorem ptOk_size (o : LObj) (h : PtOk o) : PtOk o.size.1 := by
  refine ptOk_of_eq o _ h ?_
  unfold LObj.size LObj.fillStrandLengths
  simp only []
  split
  · rfl
  · split <;> rfl

theorem ptOk_strandLength (o : LObj) (h : PtOk o) (k : Nat) : PtOk (o.strandLength k).1 := by
  refine ptOk_of_eq o _ h ?_
  unfold LObj.strandLength LObj.fillStrandLengths
  simp only []
  split
  · rfl
  · split <;> rfl

theorem ptOk_getDomain (o : LObj) (h : PtOk o) (l : Locus) : PtOk (o.getDomain l).1 := by
  refine ptOk_of_eq o _ h ?_
  unfold LObj.getDomain
  simp only []
  split <;> rfl

theorem ptOk_getPairedLoc (o : LObj) (h : PtOk o) (l : Int × Int) : PtOk (o.getPairedLoc l).1 := by
  unfold LObj.getPairedLoc
  split
  · exact h
  · have := ptOk_fill o h
    rcases hf : o.fillPairTable with ⟨o1, r⟩
    rw [hf] at this
    cases r <;> exact this

theorem ptOk_loopIndexView (o : LObj) (h : PtOk o) : PtOk o.loopIndexView.1 := by
  unfold LObj.loopIndexView
  have := ptOk_fill o h
  rcases hf : o.fillPairTable with ⟨o1, r⟩
  rw [hf] at this
  cases r <;> exact this

theorem ptOk_isConnected (o : LObj) (h : PtOk o) : PtOk o.isConnected.1 := by
  unfold LObj.isConnected
  have := ptOk_fill o h
  rcases hf : o.fillPairTable with ⟨o1, r⟩
  rw [hf] at this
  cases r with
  | error e => exact this
  | ok pt =>
    simp only []
    split
    · exact this
    · split
      · exact this
      · exact this
      · exact ptOk_of_eq o1 _ this rfl

theorem ptOk_getLoopIndex (o : LObj) (h : PtOk o) (l : Locus) : PtOk (o.getLoopIndex l).1 := by
  unfold LObj.getLoopIndex
  have := ptOk_fill o h
  rcases hf : o.fillPairTable with ⟨o1, r⟩
  rw [hf] at this
  cases r with
  | error e => exact this
  | ok pt =>
    simp only []
    split
    · rename_i hs; split at hs
      · cases hs <;> exact this
      · split at hs <;> cases hs <;> first | exact this | exact ptOk_of_eq o1 _ this rfl
    · rename_i hs; split at hs
      · cases hs <;> exact this
      · split at hs <;> cases hs <;> first | exact this | exact ptOk_of_eq o1 _ this rfl

end Dsd.PyLegacy
