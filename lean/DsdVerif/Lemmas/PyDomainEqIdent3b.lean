/-
(c) `py_DomainS_identifiers = DomFull.identifiers`, branch "starred name without a length" (the complement inherits the length).
-/
import DsdVerif.Lemmas.PyDomainEqIdent3

namespace Dsd.PyDomainEq
open Dsd Dsd.Gen Dsd.PySingletonL

theorem exec_map {σ α β : Type} (f : α → β) (m : Py.MS σ α) (s : σ) :
    (f <$> m).exec s = match m.exec s with
      | (.ok a, s') => (.ok (f a), s')
      | (.error e, s') => (.error e, s') := by
  simp only [Py.MS.exec, ExceptT.run, Functor.map, ExceptT.map, ExceptT.mk, bind, StateT.bind, StateT.run, pure, StateT.pure]
  cases h : m s with
  | mk r s' => cases r <;> rfl

set_option maxHeartbeats 4000000 in
/-- branch `if length is None and name[-1] == '*'` (no dtype): `length = len(cls(cname, length = None)); newargs = {'length': length}` -/
theorem identifiers_starred_nolength (request : Py.Dom.Req → Py.Dom.M Nat) (nested : Reg DKey → DomReq → Reg DKey × Out) (tmp : Nat)
    (hrel : Related request nested tmp) (s : Py.Dom.Cls) (r : Reg DKey) (h : RepX s r) (cfg : DomCfg)
    (n : String) (hne : n ≠ "") (hst : isStarred n = true) (pfx : Option String) :
    ∃ s', RepX s' (DomFull.identifiers nested cfg r { name := some n, prefix_ := pfx }).1 ∧
      (py_DomainS_identifiers request tmp cfg.cutoff cfg.shortLen cfg.longLen cfg.prefix_ (some n) none pfx none).exec s =
        (toIdents (DomFull.identifiers nested cfg r { name := some n, prefix_ := pfx }).2, s') := by
  obtain ⟨c, hc1, hc2⟩ := strLast_starred n hne
  have hcs : (c == '*') = true := by rw [hc2, hst]
  have hcn : (c != '*') = false := by simp [bne, hcs]
  have hemp : n.isEmpty = false := by simpa using hne
  have hdl : Py.strDropLast n = cnameOf n := by rw [← cname_eq n, if_pos hst]
  obtain ⟨s1, hR1, he1, hcr1, hoth1⟩ := hrel s r (cnameOf n) none h
  have hd1 : ((none : Option String) == some "short") = false := rfl
  have hd2 : ((none : Option String) == some "long") = false := rfl
  unfold py_DomainS_identifiers DomFull.identifiers DomFull.identTail DomFull.lengthArg
  simp only [exec_ite, exec_bind, exec_get, exec_pure, exec_throw, exec_lift, exec_monadLift, exec_tryS, exec_map, Py.unwrap, Py.Dom.truthyOS,
    Option.isNone_none, Option.isNone_some, Option.isSome_some, Option.isSome_none, if_true, if_false, Bool.false_eq_true, hc1, hcs, hcn,
    hemp, hst, Bool.not_true, Bool.not_false, hdl, pure_ok, hd1, hd2, he1]
  cases hn : (nested r { name := some (cnameOf n) }) with
  | mk r1 o =>
    rw [hn] at hR1 hcr1 hoth1
    simp only at hR1 hcr1 hoth1
    cases o with
    | ret id cr =>
      obtain ⟨s2, hR2, hl2⟩ := lenTemp_eq s1 r1 hR1 tmp id cr (hcr1 id cr rfl)
      simp only [toRes, hl2]
      cases hlr : DomFull.lenAndRelease r1 id cr with
      | mk lo r2 =>
        rw [hlr] at hR2
        simp only at hR2
        cases lo with
        | none => exact ⟨s2, hR2, by simp [toIdents, toErr]⟩
        | some cl =>
          refine ⟨s2, hR2, ?_⟩
          simp [toIdents, exec_ite, exec_bind, exec_pure, exec_throw, exec_lift, exec_tryS, exec_map, pure_ok] <;> rfl
    | singletonErr e =>
      refine ⟨s1, hR1, ?_⟩
      simp [toRes, toErr, toIdents, exec_ite, exec_bind, exec_pure, exec_throw, exec_lift, exec_map] <;> rfl
    | _ =>
      refine ⟨s1, hR1, ?_⟩
      simp [toRes, toErr, toIdents, exec_ite, exec_bind, exec_pure, exec_throw, exec_lift, exec_map] <;> rfl

end Dsd.PyDomainEq
