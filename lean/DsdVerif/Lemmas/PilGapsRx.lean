/-
Arbitrary gaps at every token boundary, part 2: numbers in integer / decimal / scientific form, the information box
of a reaction with the optional error term and any number of concentration units, species lists, reactions.
-/
import DsdVerif.Lemmas.PilGaps

namespace Dsd.Pil
open Dsd.PP Dsd.Gen Dsd.PP.Tabs

/-! ### numbers -/

/-- non-empty digit strings -/
def Dig (s : List Char) : Prop := s ≠ [] ∧ ∀ c ∈ s, c ∈ pp_nums

/-- a number as the grammar's `gorf` reads it: digits, optionally `.` digits, optionally `e`, an optional sign, digits -/
structure Num where
  ip : List Char
  fp : Option (List Char)
  ex : Option (Option Char × List Char)

def fracWords : Option (List Char) → List (List Char)
  | none => []
  | some f => [['.'], f]

def signWords : Option Char → List (List Char)
  | none => []
  | some c => [[c]]

def expWords : Option (Option Char × List Char) → List (List Char)
  | none => []
  | some (sg, d) => ['e'] :: (signWords sg ++ [d])

/-- the words the parser sees, and the text: their concatenation (one combined token) -/
def Num.words (n : Num) : List (List Char) := [n.ip] ++ fracWords n.fp ++ expWords n.ex
def Num.text (n : Num) : List Char := n.words.flatten

structure Num.OK (n : Num) : Prop where
  ip : Dig n.ip
  fp : ∀ f, n.fp = some f → Dig f
  ex : ∀ sg d, n.ex = some (sg, d) → Dig d ∧ ∀ c, sg = some c → c = '-' ∨ c = '+'

/-- what may follow a number: not a digit, not `.`, not `e` (the end of the text, a blank, `/`, `+`, a unit …) -/
def NumEnd (x : Char) : Prop := x ∉ pp_nums ∧ x ≠ '.' ∧ x ≠ 'e'

theorem Ok_digits_nsk (env : Env) (d r : List Char) (hd : Dig d) (hr : OutHd (fun x => x ∉ pp_nums) r) :
    Ok env 1 { skip := false } pil_number { rest := d ++ r, past := false }
      ({ rest := r, past := false }, [.tok (String.ofList d)]) := by
  obtain ⟨dc, dm, rfl, h1, h2⟩ := cons_of_class d _ hd
  exact Ok_word env { skip := false } _ _ _ dc dm r rfl h1 h2 hr

/-- the optional fraction -/
theorem Ok_frac_nsk (env : Env) (fp : Option (List Char)) (r : List Char) (hf : ∀ f, fp = some f → Dig f)
    (hr : OutHd (fun x => x ∉ pp_nums ∧ x ≠ '.') r) :
    Ok env 6 { skip := false } (.opt (.seq [.lit ['.'], pil_number]))
      { rest := (fracWords fp).flatten ++ r, past := false }
      ({ rest := r, past := false }, (fracWords fp).map (fun w => .tok (String.ofList w))) := by
  cases fp with
  | none =>
    have hno : No env 1 { skip := false } (.lit ['.']) { rest := r, past := false } := by
      apply No_lit
      show stripPrefix ['.'] r = none
      cases r with
      | nil => rfl
      | cons x t => have := (hr x rfl).2; simp [stripPrefix, Ne.symm this]
    have := Ok_opt_none (No_seq (NoSeq_head (gs := [pil_number]) hno))
    simpa [fracWords] using this.mono (by decide)
  | some f =>
    have h1 : Ok env 1 { skip := false } (.lit ['.']) { rest := '.' :: (f ++ r), past := false }
        ({ rest := f ++ r, past := false }, [.tok (String.ofList ['.'])]) :=
      Ok_lit env _ ['.'] _ _ rfl rfl
    have h2 := Ok_digits_nsk env f r (hf f rfl) (hr.imp (fun x hx => hx.1))
    have := Ok_opt_some (Ok_seq (OkSeq_cons h1 (OkSeq_cons h2 (OkSeq_nil env _ _))))
    simpa [fracWords] using this.mono (by decide)

theorem nums_not : '.' ∉ pp_nums ∧ 'e' ∉ pp_nums ∧ '-' ∉ pp_nums ∧ '+' ∉ pp_nums := by decide

theorem OutHd_append_of_ne {P : Char → Prop} (a b : List Char) (ha : a ≠ []) (h : OutHd P a) : OutHd P (a ++ b) := by
  cases a with
  | nil => exact absurd rfl ha
  | cons c cs => intro x hx; exact h x (by simpa using hx)

theorem expWords_head (ex : Option (Option Char × List Char)) (r : List Char) (P : Char → Prop) (he : P 'e')
    (hr : OutHd P r) : OutHd P ((expWords ex).flatten ++ r) := by
  cases ex with
  | none => simpa [expWords] using hr
  | some q =>
    obtain ⟨sg, d⟩ := q
    simp only [expWords, List.flatten_cons, List.cons_append, List.nil_append]
    exact OutHd_cons _ _ _ he

theorem flatten_map_ofList (ws : List (List Char)) :
    String.join (ws.map String.ofList) = String.ofList ws.flatten := join_ofList ws

theorem flatToks_words (ws : List (List Char)) (f : Nat) (h : ws.length < f) :
    flatToks f (ws.map (fun w => Tree.tok (String.ofList w))) = ws.map String.ofList := by
  have := flatToks_toks (ws.map String.ofList) f (by simpa using h)
  rw [List.map_map] at this
  exact this

/-- **`gorf` on a number in any of the three forms**, after `k` blanks -/
theorem Ok_gorf (env : Env) (k : Nat) (n : Num) (hn : n.OK) (r : List Char) (hr : OutHd NumEnd r) :
    Ok env 20 {} pil_gorf { rest := List.replicate k ' ' ++ (n.text ++ r), past := false }
      ({ rest := r, past := false }, [.tok (String.ofList n.text)]) := by
  obtain ⟨ip, fp, ex⟩ := n
  obtain ⟨ic, im, rfl, hic, him⟩ := cons_of_class ip _ hn.ip
  have hicf := ident_facts ic (nums_facts ic hic).1
  unfold pil_gorf pil_num_sci pil_num_flt
  -- the text
  have htext : (Num.mk (ic :: im) fp ex).text = (ic :: im) ++ ((fracWords fp).flatten ++ (expWords ex).flatten) := by
    simp [Num.text, Num.words]
  have hpre : pre {} { rest := List.replicate k ' ' ++ ((Num.mk (ic :: im) fp ex).text ++ r), past := false } =
      { rest := (ic :: im) ++ ((fracWords fp).flatten ++ ((expWords ex).flatten ++ r)), past := false } := by
    show (⟨skipIgn _, false⟩ : Pos) = _
    rw [htext]
    simp only [List.cons_append, List.append_assoc]
    rw [skipIgn_blanks_cons k ic _ hicf.1 hicf.2.1]
  -- integer part and fraction
  have hA : OutHd (fun x => x ∉ pp_nums) ((fracWords fp).flatten ++ ((expWords ex).flatten ++ r)) := by
    cases fp with
    | none =>
      simp only [fracWords, List.flatten_nil, List.nil_append]
      exact expWords_head ex r _ nums_not.2.1 (hr.imp (fun x hx => hx.1))
    | some f => exact OutHd_cons _ _ _ nums_not.1
  have hB : OutHd (fun x => x ∉ pp_nums ∧ x ≠ '.') ((expWords ex).flatten ++ r) :=
    expWords_head ex r _ ⟨nums_not.2.1, by decide⟩ (hr.imp (fun x hx => ⟨hx.1, hx.2.1⟩))
  have h1 := Ok_digits_nsk env (ic :: im) _ hn.ip hA
  have h2 := Ok_frac_nsk env fp ((expWords ex).flatten ++ r) hn.fp hB
  cases ex with
  | some q =>
    obtain ⟨sg, d⟩ := q
    obtain ⟨hd, hsg⟩ := hn.ex sg d rfl
    -- the exponent
    have he : Ok env 1 { skip := false } (.lit ['e'])
        { rest := (expWords (some (sg, d))).flatten ++ r, past := false }
        ({ rest := (signWords sg).flatten ++ (d ++ r), past := false }, [.tok (String.ofList ['e'])]) := by
      refine Ok_lit env _ ['e'] _ _ ?_ rfl
      simp [expWords, pre]
    have hs : Ok env 6 { skip := false } (.opt (.alt [.lit ['-'], .lit ['+']]))
        { rest := (signWords sg).flatten ++ (d ++ r), past := false }
        ({ rest := d ++ r, past := false }, (signWords sg).map (fun w => .tok (String.ofList w))) := by
      obtain ⟨dc, dm, rfl, hdc, _⟩ := cons_of_class d _ hd
      cases sg with
      | none =>
        have n1 : No env 1 { skip := false } (.lit ['-']) { rest := dc :: dm ++ r, past := false } := by
          apply No_lit
          have : dc ≠ '-' := fun e => nums_not.2.2.1 (e ▸ hdc)
          simp [pre, stripPrefix, Ne.symm this]
        have n2 : No env 1 { skip := false } (.lit ['+']) { rest := dc :: dm ++ r, past := false } := by
          apply No_lit
          have : dc ≠ '+' := fun e => nums_not.2.2.2 (e ▸ hdc)
          simp [pre, stripPrefix, Ne.symm this]
        have := Ok_opt_none (No_alt (NoAlt_cons n1 (NoAlt_cons n2 (NoAlt_nil env _ _))))
        simpa [signWords] using this.mono (by decide)
      | some c =>
        rcases hsg c rfl with rfl | rfl
        · have o1 : Ok env 1 { skip := false } (.lit ['-']) { rest := '-' :: (dc :: dm ++ r), past := false }
              ({ rest := dc :: dm ++ r, past := false }, [.tok (String.ofList ['-'])]) :=
            Ok_lit env _ ['-'] _ _ rfl rfl
          have := Ok_opt_some (Ok_alt (OkAlt_head (gs := [.lit ['+']]) o1))
          simpa [signWords] using this.mono (by decide)
        · have n1 : No env 1 { skip := false } (.lit ['-']) { rest := '+' :: (dc :: dm ++ r), past := false } := by
            apply No_lit; simp [pre, stripPrefix]
          have o1 : Ok env 1 { skip := false } (.lit ['+']) { rest := '+' :: (dc :: dm ++ r), past := false }
              ({ rest := dc :: dm ++ r, past := false }, [.tok (String.ofList ['+'])]) :=
            Ok_lit env _ ['+'] _ _ rfl rfl
          have := Ok_opt_some (Ok_alt (OkAlt_tail n1 (OkAlt_head (gs := []) o1)))
          simpa [signWords] using this.mono (by decide)
    have hd' := Ok_digits_nsk env d r hd (hr.imp (fun x hx => hx.1))
    have hseq := Ok_seq (OkSeq_cons h1 (OkSeq_cons h2 (OkSeq_cons he (OkSeq_cons hs (OkSeq_cons hd'
      (OkSeq_nil env _ _))))))
    have hts : [Tree.tok (String.ofList (ic :: im))] ++
        ((fracWords fp).map (fun w => Tree.tok (String.ofList w)) ++ ([Tree.tok (String.ofList ['e'])] ++
          ((signWords sg).map (fun w => Tree.tok (String.ofList w)) ++ ([Tree.tok (String.ofList d)] ++ [])))) =
        ((Num.mk (ic :: im) fp (some (sg, d))).words).map (fun w => Tree.tok (String.ofList w)) := by
      simp [Num.words, expWords]
    rw [hts] at hseq
    have hsci := Ok_combine (ctx := {})
      (p := { rest := List.replicate k ' ' ++ ((Num.mk (ic :: im) fp (some (sg, d))).text ++ r), past := false })
      (toks := ((Num.mk (ic :: im) fp (some (sg, d))).words).map String.ofList) (N' := 8)
      (hpre ▸ hseq)
      (by
        intro f hf
        apply flatToks_words
        have : (fracWords fp).length ≤ 2 := by cases fp <;> simp [fracWords]
        have : (signWords sg).length ≤ 1 := by cases sg <;> simp [signWords]
        simp only [Num.words, expWords, List.length_append, List.length_cons, List.length_nil]
        omega)
    rw [flatten_map_ofList] at hsci
    exact (Ok_alt (OkAlt_head hsci)).mono (by omega)
  | none =>
    -- `num_sci` fails at the missing `e`
    have hnoe : No env 1 { skip := false } (.lit ['e']) { rest := (expWords none).flatten ++ r, past := false } := by
      apply No_lit
      show stripPrefix ['e'] r = none
      cases r with
      | nil => rfl
      | cons x t => have := (hr x rfl).2.2; simp [stripPrefix, Ne.symm this]
    have hsci := No_combine (ctx := {})
      (p := { rest := List.replicate k ' ' ++ ((Num.mk (ic :: im) fp none).text ++ r), past := false })
      (hpre ▸ No_seq (NoSeq_tail h1 (NoSeq_tail h2 (NoSeq_head
        (gs := [.opt (.alt [.lit ['-'], .lit ['+']]), .word pp_nums pp_nums]) hnoe))))
    have hseq := Ok_seq (OkSeq_cons h1 (OkSeq_cons h2 (OkSeq_nil env _ _)))
    have hts : [Tree.tok (String.ofList (ic :: im))] ++
        ((fracWords fp).map (fun w => Tree.tok (String.ofList w)) ++ []) =
        ((Num.mk (ic :: im) fp none).words).map (fun w => Tree.tok (String.ofList w)) := by
      simp [Num.words, expWords]
    rw [hts] at hseq
    have hflt := Ok_combine (ctx := {})
      (p := { rest := List.replicate k ' ' ++ ((Num.mk (ic :: im) fp none).text ++ r), past := false })
      (toks := ((Num.mk (ic :: im) fp none).words).map String.ofList) (N' := 8)
      (by
        have := hpre ▸ hseq
        simpa [expWords] using this)
      (by
        intro f hf
        apply flatToks_words
        have : (fracWords fp).length ≤ 2 := by cases fp <;> simp [fracWords]
        simp only [Num.words, expWords, List.length_append, List.length_cons, List.length_nil]
        omega)
    rw [flatten_map_ofList] at hflt
    exact (Ok_alt (OkAlt_tail hsci (OkAlt_head hflt))).mono (by omega)

/-! ### error value, rate unit -/

/-- the value of the error term (after the plus-slash-minus literal): a number or `inf` -/
inductive ErrVal
  | num (n : Num)
  | inf

def ErrVal.text : ErrVal → List Char
  | .num n => n.text
  | .inf => ['i', 'n', 'f']

def ErrVal.OK : ErrVal → Prop
  | .num n => n.OK
  | .inf => True

theorem Ok_ginf (env : Env) (k : Nat) (e : ErrVal) (he : e.OK) (r : List Char) (hr : OutHd NumEnd r) :
    Ok env 24 {} pil_ginf { rest := List.replicate k ' ' ++ (e.text ++ r), past := false }
      ({ rest := r, past := false }, [.tok (String.ofList e.text)]) := by
  unfold pil_ginf
  cases e with
  | num n => exact (Ok_alt (OkAlt_head (Ok_gorf env k n he r hr))).mono (by decide)
  | inf =>
    have hsk : skipIgn (List.replicate k ' ' ++ (['i', 'n', 'f'] ++ r)) = 'i' :: ('n' :: 'f' :: r) :=
      skipIgn_blanks_cons k 'i' _ (by decide) (by decide)
    have hw : No env 1 { skip := false } (.word pp_nums pp_nums)
        (pre {} { rest := List.replicate k ' ' ++ (['i', 'n', 'f'] ++ r), past := false }) :=
      No_word_cons env _ _ _ _ 'i' ('n' :: 'f' :: r) (by rw [pre_noskip, pre_skip]; exact hsk) (by decide)
    have hg : No env 8 {} pil_gorf { rest := List.replicate k ' ' ++ (['i', 'n', 'f'] ++ r), past := false } := by
      unfold pil_gorf pil_num_sci pil_num_flt pil_number
      exact (No_alt (NoAlt_cons (No_combine (No_seq (NoSeq_head hw)))
        (NoAlt_cons (No_combine (No_seq (NoSeq_head hw))) (NoAlt_nil env _ _)))).mono (by decide)
    have hl : Ok env 1 {} (.lit ['i', 'n', 'f']) { rest := List.replicate k ' ' ++ (['i', 'n', 'f'] ++ r), past := false }
        ({ rest := r, past := false }, [.tok (String.ofList ['i', 'n', 'f'])]) :=
      Ok_lit env {} _ _ r (by rw [pre_skip]; exact hsk) rfl
    exact (Ok_alt (OkAlt_tail hg (OkAlt_head hl))).mono (by decide)

/-- no concentration unit at a time unit that is not followed by `M` -/
theorem No_cunit_tuW (env : Env) (ctx : Ctx) (p : Pos) (tu rr : List Char) (htu : IsTunit tu)
    (hrr : OutHd (fun x => x ≠ 'M') rr) (h : (pre ctx p).rest = tu ++ rr) : No env 7 ctx pil_cunit p := by
  unfold pil_cunit
  have no : ∀ s, stripPrefix s (tu ++ rr) = none → No env 1 ctx (.lit s) p :=
    fun s hs => No_lit env ctx s p (by rw [h]; exact hs)
  have hM : stripPrefix ['M'] rr = none := by
    cases rr with
    | nil => rfl
    | cons x t => have := hrr x rfl; simp [stripPrefix, Ne.symm this]
  rcases htu with rfl | rfl | rfl <;>
  exact (No_alt (NoAlt_cons (no _ (by simp [stripPrefix])) (NoAlt_cons (no _ (by simp [stripPrefix, hM]))
    (NoAlt_cons (no _ (by simp [stripPrefix])) (NoAlt_cons (no _ (by simp [stripPrefix]))
    (NoAlt_cons (no _ (by simp [stripPrefix])) (NoAlt_nil env _ _))))))).mono (by decide)

theorem OkMany_cunitsW (env : Env) (cus : List (List Char)) (tu rr : List Char) (hcu : ∀ u ∈ cus, IsCunit u)
    (htu : IsTunit tu) (hrr : OutHd (fun x => x ≠ 'M') rr) :
    OkMany env (cus.length + 12) { skip := false } (.seq [.lit ['/'], pil_cunit])
      { rest := cuText cus ++ ('/' :: (tu ++ rr)), past := false }
      ({ rest := '/' :: (tu ++ rr), past := false },
        (cuWords cus).map (fun w => .tok (String.ofList w))) := by
  induction cus with
  | nil =>
    have h1 : Ok env 1 { skip := false } (.lit ['/']) { rest := '/' :: (tu ++ rr), past := false }
        ({ rest := tu ++ rr, past := false }, [.tok (String.ofList ['/'])]) :=
      Ok_lit env _ ['/'] _ _ rfl rfl
    have h2 := No_cunit_tuW env { skip := false } { rest := tu ++ rr, past := false } tu rr htu hrr rfl
    have := OkMany_stop (No_seq (NoSeq_tail h1 (NoSeq_head (gs := []) h2)))
    intro reps fuel hr hf
    simpa [cuText, cuWords] using this reps fuel (by simp at hr; omega) (by simp at hf; omega)
  | cons u cus ih =>
    have ih' := ih (fun x hx => hcu x (List.mem_cons_of_mem _ hx))
    have h1 : Ok env 1 { skip := false } (.lit ['/'])
        { rest := '/' :: (u ++ (cuText cus ++ ('/' :: (tu ++ rr)))), past := false }
        ({ rest := u ++ (cuText cus ++ ('/' :: (tu ++ rr))), past := false }, [.tok (String.ofList ['/'])]) :=
      Ok_lit env _ ['/'] _ _ rfl rfl
    have h2 := Ok_cunit env { skip := false } { rest := u ++ (cuText cus ++ ('/' :: (tu ++ rr))), past := false }
      u _ (hcu u (by simp)) rfl rfl
    have hne : ({ rest := cuText cus ++ ('/' :: (tu ++ rr)), past := false } : Pos) ≠
        { rest := '/' :: (u ++ (cuText cus ++ ('/' :: (tu ++ rr)))), past := false } :=
      pos_ne_of_length _ _ _ _ (by simp; omega)
    have := OkMany_step (Ok_seq (OkSeq_cons h1 (OkSeq_cons h2 (OkSeq_nil env _ _)))) hne ih'
    rw [cuText_cons, cuWords_cons]
    simp only [List.cons_append, List.append_assoc, List.nil_append, List.append_nil, List.map_cons,
      List.length_cons] at this ⊢
    intro reps fuel hr hf
    exact this reps fuel (by omega) (by omega)

/-- the rate unit `Combine(ZeroOrMore('/' cunit) '/' tunit)` after `n` blanks; what follows is not `M` -/
theorem Ok_runitW (env : Env) (n : Nat) (cus : List (List Char)) (tu rr : List Char) (hcu : ∀ u ∈ cus, IsCunit u)
    (htu : IsTunit tu) (hrr : OutHd (fun x => x ≠ 'M') rr) :
    Ok env (2 * cus.length + 20) {} pil_runit
      { rest := List.replicate n ' ' ++ (cuText cus ++ ('/' :: (tu ++ rr))), past := false }
      ({ rest := rr, past := false }, [.tok (String.ofList (cuText cus ++ ('/' :: tu)))]) := by
  unfold pil_runit
  obtain ⟨t, ht⟩ := cuText_head cus (tu ++ rr)
  have hpre : pre {} { rest := List.replicate n ' ' ++ (cuText cus ++ ('/' :: (tu ++ rr))), past := false } =
      { rest := cuText cus ++ ('/' :: (tu ++ rr)), past := false } := by
    show (⟨skipIgn _, false⟩ : Pos) = _
    rw [ht, skipIgn_blanks_cons n '/' t (by decide) (by decide)]
  have h1 := Ok_many (OkMany_cunitsW env cus tu rr hcu htu hrr)
  have h2 : Ok env 1 { skip := false } (.lit ['/']) { rest := '/' :: (tu ++ rr), past := false }
      ({ rest := tu ++ rr, past := false }, [.tok (String.ofList ['/'])]) :=
    Ok_lit env _ ['/'] _ _ rfl rfl
  have h3 := Ok_tunit env { skip := false } { rest := tu ++ rr, past := false } tu rr htu rfl rfl
  have hseq := Ok_seq (OkSeq_cons h1 (OkSeq_cons h2 (OkSeq_cons h3 (OkSeq_nil env _ _))))
  have hts : (cuWords cus).map (fun w => Tree.tok (String.ofList w)) ++
      ([Tree.tok (String.ofList ['/'])] ++ ([Tree.tok (String.ofList tu)] ++ [])) =
      (((cuWords cus) ++ [['/'], tu]).map String.ofList).map Tree.tok := by simp
  rw [hts] at hseq
  have := Ok_combine (ctx := {})
    (p := { rest := List.replicate n ' ' ++ (cuText cus ++ ('/' :: (tu ++ rr))), past := false })
    (toks := ((cuWords cus) ++ [['/'], tu]).map String.ofList) (N' := 2 * cus.length + 3)
    (hpre ▸ hseq)
    (by intro f hf
        apply flatToks_toks
        simp only [List.length_map, List.length_append, cuWords_length, List.length_cons, List.length_nil]
        omega)
  rw [join_ofList] at this
  have hfl : ((cuWords cus) ++ [['/'], tu]).flatten = cuText cus ++ ('/' :: tu) := by
    simp [cuWords_flatten]
  rw [hfl] at this
  exact this.mono (by omega)

/-! ### the information box, with any gaps -/

/-- the optional error term: blanks, the plus-slash-minus literal, blanks, the value -/
def errTextW : Option (Nat × Nat × ErrVal) → List Char
  | none => []
  | some (a, b, e) => List.replicate a ' ' ++ (['+', '/', '-'] ++ (List.replicate b ' ' ++ e.text))

def errToks : Option (Nat × Nat × ErrVal) → List Tree
  | none => []
  | some (_, _, e) => [.tok (String.ofList e.text)]

def errOK : Option (Nat × Nat × ErrVal) → Prop
  | none => True
  | some (_, _, e) => e.OK

/-- `[ type = rate (± err, written with the plus-slash-minus literal) /units ]` with any amount of blanks at every boundary, followed by `rest` -/
def infoTextW (g0 : Nat) (tc : Char) (tm : List Char) (g1 : Nat) (sign : Char) (g2 : Nat) (rate : Num)
    (err : Option (Nat × Nat × ErrVal)) (g3 : Nat) (cus : List (List Char)) (tu : List Char) (g4 : Nat)
    (rest : List Char) : List Char :=
  '[' :: (List.replicate g0 ' ' ++ (tc :: tm ++ (List.replicate g1 ' ' ++ (sign :: (List.replicate g2 ' ' ++
    (rate.text ++ (errTextW err ++ (List.replicate g3 ' ' ++ (cuText cus ++ ('/' :: (tu ++
      (List.replicate g4 ' ' ++ (']' :: rest)))))))))))))

theorem numEnd_facts : NumEnd ' ' ∧ NumEnd '/' ∧ NumEnd '+' ∧ NumEnd ']' := by
  refine ⟨⟨by decide, by decide, by decide⟩, ⟨by decide, by decide, by decide⟩, ⟨by decide, by decide, by decide⟩,
    ⟨by decide, by decide, by decide⟩⟩

theorem OutHd_units (P : Char → Prop) (h1 : P ' ') (h2 : P '/') (g : Nat) (cus : List (List Char)) (r : List Char) :
    OutHd P (List.replicate g ' ' ++ (cuText cus ++ ('/' :: r))) := by
  obtain ⟨t, ht⟩ := cuText_head cus r
  rw [ht]
  exact OutHd_blanks P g _ h1 (OutHd_cons P '/' t h2)

theorem Ok_infoboxW (env : Env) (n g0 : Nat) (tc : Char) (tm : List Char) (g1 : Nat) (sign : Char)
    (hs : sign = '=' ∨ sign = ':') (g2 : Nat) (rate : Num)
    (err : Option (Nat × Nat × ErrVal)) (g3 : Nat) (cus : List (List Char)) (tu : List Char) (g4 : Nat)
    (rest : List Char)
    (htc : tc ∈ identChars) (htm : ∀ x ∈ tm, x ∈ identChars) (hrate : rate.OK) (herr : errOK err)
    (hcu : ∀ u ∈ cus, IsCunit u) (htu : IsTunit tu) :
    Ok env (2 * cus.length + 50) {} (.group (.opt pil_infobox))
      { rest := List.replicate n ' ' ++ infoTextW g0 tc tm g1 sign g2 rate err g3 cus tu g4 rest, past := false }
      ({ rest := rest, past := false },
        [.grp [.grp [.tok (String.ofList (tc :: tm))], .grp (.tok (String.ofList rate.text) :: errToks err),
          .grp [.tok (String.ofList (cuText cus ++ ('/' :: tu)))]]]) := by
  unfold pil_infobox infoTextW
  -- positions
  generalize hP6 : List.replicate g4 ' ' ++ (']' :: rest) = P6
  generalize hP5 : List.replicate g3 ' ' ++ (cuText cus ++ ('/' :: (tu ++ P6))) = P5
  have hP5num : OutHd NumEnd P5 := by
    rw [← hP5]; exact OutHd_units NumEnd numEnd_facts.1 numEnd_facts.2.1 g3 cus _
  have hP6M : OutHd (fun x => x ≠ 'M') P6 := by
    rw [← hP6]
    exact OutHd_blanks _ g4 _ (by decide) (OutHd_cons _ _ _ (by decide))
  have hP4num : OutHd NumEnd (errTextW err ++ P5) := by
    cases err with
    | none => simpa [errTextW] using hP5num
    | some q =>
      obtain ⟨a, b, e⟩ := q
      simp only [errTextW, List.append_assoc]
      exact OutHd_blanks NumEnd a _ numEnd_facts.1 (OutHd_cons _ _ _ numEnd_facts.2.2.1)
  have i1 := Ok_punct env n '[' (List.replicate g0 ' ' ++ (tc :: tm ++ (List.replicate g1 ' ' ++ (sign ::
    (List.replicate g2 ' ' ++ (rate.text ++ (errTextW err ++ P5))))))) (by decide) (by decide)
  have i2a := Ok_ident env g0 tc tm (List.replicate g1 ' ' ++ (sign ::
    (List.replicate g2 ' ' ++ (rate.text ++ (errTextW err ++ P5))))) htc htm
    ((OutHd_sign g1 sign hs _).imp (fun x hx => hx.1))
  have i2b := Ok_assign env g1 sign hs (List.replicate g2 ' ' ++ (rate.text ++ (errTextW err ++ P5)))
  have i3a := Ok_gorf env g2 rate hrate (errTextW err ++ P5) hP4num
  have i3b : Ok env 30 {} (.opt (.seq [.suppress (.lit ['+', '/', '-']), pil_ginf]))
      { rest := errTextW err ++ P5, past := false } ({ rest := P5, past := false }, errToks err) := by
    cases err with
    | none =>
      have hno : No env 2 {} (.suppress (.lit ['+', '/', '-'])) { rest := P5, past := false } := by
        apply No_suppress; apply No_lit
        obtain ⟨t, ht⟩ := cuText_head cus (tu ++ P6)
        rw [pre_skip, ← hP5, ht, skipIgn_blanks_cons g3 '/' t (by decide) (by decide)]
        simp [stripPrefix]
      have := Ok_opt_none (No_seq (NoSeq_head (gs := [pil_ginf]) hno))
      simpa [errTextW, errToks] using this.mono (by decide)
    | some q =>
      obtain ⟨a, b, e⟩ := q
      have o1 : Ok env 2 {} (.suppress (.lit ['+', '/', '-']))
          { rest := List.replicate a ' ' ++ (['+', '/', '-'] ++ (List.replicate b ' ' ++ (e.text ++ P5))), past := false }
          ({ rest := List.replicate b ' ' ++ (e.text ++ P5), past := false }, []) :=
        Ok_suppress (Ok_lit env {} _ _ _ (by rw [pre_skip]; exact skipIgn_blanks_cons a '+' _ (by decide) (by decide)) rfl)
      have o2 := Ok_ginf env b e herr P5 hP5num
      have := Ok_opt_some (Ok_seq (OkSeq_cons o1 (OkSeq_cons o2 (OkSeq_nil env _ _))))
      simp only [errTextW, errToks, List.append_assoc, List.nil_append, List.append_nil] at this ⊢
      exact this.mono (by decide)
  have i3 := Ok_group (Ok_seq (OkSeq_cons i3a (OkSeq_cons i3b (OkSeq_nil env _ _))))
  have i4 : Ok env (2 * cus.length + 21) {} (.group pil_runit) { rest := P5, past := false }
      ({ rest := P6, past := false }, [.grp [.tok (String.ofList (cuText cus ++ ('/' :: tu)))]]) := by
    rw [← hP5]
    exact Ok_group (Ok_runitW env g3 cus tu P6 hcu htu hP6M)
  have i5 : Ok env 2 {} (.suppress (.lit [']'])) { rest := P6, past := false } ({ rest := rest, past := false }, []) := by
    rw [← hP6]; exact Ok_punct env g4 ']' rest (by decide) (by decide)
  have i2 := Ok_group (Ok_opt_some (Ok_seq (OkSeq_cons i2a (OkSeq_cons i2b (OkSeq_nil env _ _)))))
  have := Ok_group (Ok_opt_some (Ok_seq (OkSeq_cons i1 (OkSeq_cons i2 (OkSeq_cons i3 (OkSeq_cons i4
    (OkSeq_cons i5 (OkSeq_nil env _ _))))))))
  simp only [List.nil_append, List.append_nil, List.cons_append] at this ⊢
  exact this.mono (by omega)

/-! ### species lists and reactions, with any gaps -/

/-- the further species of a list: `b1` blanks, `+`, `b2` blanks, the name -/
def psMemsW (L : List (List Char × Nat × Nat)) : List Char :=
  (L.map (fun x => List.replicate x.2.1 ' ' ++ '+' :: (List.replicate x.2.2 ' ' ++ x.1))).flatten

theorem psMemsW_cons (x : List Char × Nat × Nat) (L : List (List Char × Nat × Nat)) :
    psMemsW (x :: L) = List.replicate x.2.1 ' ' ++ '+' :: (List.replicate x.2.2 ' ' ++ (x.1 ++ psMemsW L)) := by
  simp [psMemsW]

theorem OutHd_psMemsW (L : List (List Char × Nat × Nat)) (tail : List Char)
    (ht : OutHd (fun x => x ∉ identChars) tail) : OutHd (fun x => x ∉ identChars) (psMemsW L ++ tail) := by
  cases L with
  | nil => simpa [psMemsW] using ht
  | cons x L =>
    rw [psMemsW_cons, List.append_assoc]
    exact OutHd_blanks _ _ _ (outside_facts ' ' (by decide)) (OutHd_cons _ _ _ (punct_facts '+' (by decide)).1)

theorem OkMany_idsW (env : Env) (L : List (List Char × Nat × Nat)) (tail : List Char)
    (hd : ∀ x ∈ L, IsId x.1) (ht : OutHd (fun x => x ∉ identChars) tail)
    (hstop : No env 2 {} (.suppress (.lit ['+'])) { rest := tail, past := false }) :
    OkMany env (L.length + 6) {} (.seq [.suppress (.lit ['+']), pil_identifier])
      { rest := psMemsW L ++ tail, past := false }
      ({ rest := tail, past := false }, L.map (fun x => .tok (String.ofList x.1))) := by
  induction L with
  | nil =>
    have := OkMany_stop (No_seq (NoSeq_head (gs := [pil_identifier]) hstop))
    intro reps fuel hr hf
    simpa [psMemsW] using this reps fuel (by simp at hr; omega) (by simp at hf; omega)
  | cons x L ih =>
    obtain ⟨c, m, hx, hc, hm⟩ := hd x (by simp)
    have ih' := ih (fun d hd' => hd d (List.mem_cons_of_mem _ hd'))
    have h1 := Ok_punct env x.2.1 '+' (List.replicate x.2.2 ' ' ++ (c :: m ++ (psMemsW L ++ tail)))
      (by decide) (by decide)
    have h2 := Ok_ident env x.2.2 c m _ hc hm (OutHd_psMemsW L tail ht)
    have hne : ({ rest := psMemsW L ++ tail, past := false } : Pos) ≠
        { rest := List.replicate x.2.1 ' ' ++ ('+' :: (List.replicate x.2.2 ' ' ++ (c :: m ++ (psMemsW L ++ tail)))),
          past := false } :=
      pos_ne_of_length _ _ _ _ (by simp; omega)
    have := OkMany_step (Ok_seq (OkSeq_cons h1 (OkSeq_cons h2 (OkSeq_nil env _ _)))) hne ih'
    rw [psMemsW_cons, hx]
    simp only [List.cons_append, List.append_assoc, List.nil_append, List.append_nil,
      List.map_cons, List.length_cons] at this ⊢
    rw [hx]
    intro reps fuel hr hf
    exact this reps fuel (by omega) (by omega)

theorem Ok_speciesW (env : Env) (n : Nat) (c : Char) (m : List Char) (L : List (List Char × Nat × Nat))
    (tail : List Char) (hc : c ∈ identChars) (hm : ∀ x ∈ m, x ∈ identChars)
    (hx : ∀ x ∈ L, IsId x.1) (ht : OutHd (fun x => x ∉ identChars) tail)
    (hstop : No env 2 {} (.suppress (.lit ['+'])) { rest := tail, past := false }) :
    Ok env (L.length + 12) {} (.group pil_species)
      { rest := List.replicate n ' ' ++ (c :: m ++ (psMemsW L ++ tail)), past := false }
      ({ rest := tail, past := false },
        [.grp (((c :: m) :: L.map (·.1)).map (fun d => .tok (String.ofList d)))]) := by
  unfold pil_species
  have h1 := Ok_ident env n c m (psMemsW L ++ tail) hc hm (OutHd_psMemsW L tail ht)
  have h2 := Ok_many (OkMany_idsW env L tail hx ht hstop)
  have := Ok_group (Ok_seq (OkSeq_cons h1 (OkSeq_cons h2 (OkSeq_nil env _ _))))
  simp only [List.append_nil, List.singleton_append, List.map_cons, List.map_map] at this ⊢
  exact this.mono (by omega)

/-- reactants, `c + 1` blanks, the arrow, `d` blanks, products; preceded by `n` blanks and followed by `X` -/
def rxTextW (n : Nat) (rc : Char) (rm : List Char) (RL : List (List Char × Nat × Nat)) (c d : Nat) (pc : Char)
    (pm : List Char) (PL : List (List Char × Nat × Nat)) (X : List Char) : List Char :=
  List.replicate n ' ' ++ (rc :: rm ++ (psMemsW RL ++ (List.replicate (c + 1) ' ' ++ ('-' :: '>' ::
    (List.replicate d ' ' ++ (pc :: pm ++ (psMemsW PL ++ X)))))))

theorem rx_stmt_tailW (kw : List Char)
    (hkw : kw = ['r', 'e', 'a', 'c', 't', 'i', 'o', 'n'] ∨ kw = ['k', 'i', 'n', 'e', 't', 'i', 'c'])
    (T0 : List Char) (hT0 : OutHd (fun x => x ∉ identChars) T0) (NI : Nat) (itoks : List Tree)
    (n : Nat) (rc : Char) (rm : List Char) (RL : List (List Char × Nat × Nat)) (c d : Nat) (pc : Char)
    (pm : List Char) (PL : List (List Char × Nat × Nat)) (X : List Char) (NE : Nat) (p : Pos)
    (hrc : rc ∈ identChars) (hrm : ∀ x ∈ rm, x ∈ identChars) (hrs : ∀ x ∈ RL, IsId x.1)
    (hpc : pc ∈ identChars) (hpm : ∀ x ∈ pm, x ∈ identChars) (hps : ∀ x ∈ PL, IsId x.1)
    (hinfo : Ok pil_env NI {} (.group (.opt pil_infobox)) { rest := T0, past := false }
      ({ rest := rxTextW n rc rm RL c d pc pm PL X, past := false }, [.grp itoks]))
    (hX : Tail X) (heol : Ok pil_env NE {} eolG { rest := X, past := false } (p, [])) :
    Ok pil_env (max (max NI (RL.length + PL.length) + 40) (NE + 30)) {} pil_stmt { rest := kw ++ T0, past := false }
      (p, [.grp [.tok "reaction", .grp itoks,
          .grp (((rc :: rm) :: RL.map (·.1)).map (fun d => .tok (String.ofList d))),
          .grp (((pc :: pm) :: PL.map (·.1)).map (fun d => .tok (String.ofList d)))]]) := by
  have hbody : ∀ (kc : Char) (ks : List Char), isWs kc = false → kc ≠ '#' →
      Ok pil_env (max (max NI (RL.length + PL.length) + 24) (NE + 12)) {} (rxBody (kc :: ks))
        { rest := kc :: (ks ++ T0), past := false }
        (p, [.grp [.tok "reaction", .grp itoks,
          .grp (((rc :: rm) :: RL.map (·.1)).map (fun d => .tok (String.ofList d))),
          .grp (((pc :: pm) :: PL.map (·.1)).map (fun d => .tok (String.ofList d)))]]) := by
    intro kc ks hk hk'
    unfold rxBody
    unfold rxTextW at hinfo
    have h1 := Ok_kw pil_env kc ks T0 hk hk' hT0
    have hsk1 : skipIgn (List.replicate (c + 1) ' ' ++ ('-' :: '>' :: (List.replicate d ' ' ++
        (pc :: pm ++ (psMemsW PL ++ X))))) = '-' :: '>' :: (List.replicate d ' ' ++ (pc :: pm ++ (psMemsW PL ++ X))) :=
      skipIgn_blanks_cons (c + 1) '-' _ (by decide) (by decide)
    have h3 := Ok_speciesW pil_env n rc rm RL
      (List.replicate (c + 1) ' ' ++ ('-' :: '>' :: (List.replicate d ' ' ++ (pc :: pm ++ (psMemsW PL ++ X)))))
      hrc hrm hrs (by rw [List.replicate_succ]; exact OutHd_cons _ _ _ (outside_facts ' ' (by decide)))
      (No_punct pil_env _ '+' '-' _ hsk1 (by decide))
    have h4 : Ok pil_env 2 {} (.suppress (.lit ['-', '>']))
        { rest := List.replicate (c + 1) ' ' ++ ('-' :: '>' :: (List.replicate d ' ' ++
            (pc :: pm ++ (psMemsW PL ++ X)))), past := false }
        ({ rest := List.replicate d ' ' ++ (pc :: pm ++ (psMemsW PL ++ X)), past := false }, []) :=
      Ok_suppress (Ok_lit pil_env {} ['-', '>'] _ _ (by rw [pre_skip]; exact hsk1) rfl)
    have h5 := Ok_speciesW pil_env d pc pm PL X hpc hpm hps hX.outId (No_punct_tail pil_env X hX '+' (by decide))
    have := Ok_group (Ok_tag (t := "reaction") (Ok_seq (OkSeq_cons h1 (OkSeq_cons hinfo (OkSeq_cons h3
      (OkSeq_cons h4 (OkSeq_cons h5 (OkSeq_cons heol (OkSeq_nil pil_env _ _)))))))))
    simp only [List.nil_append, List.append_nil, List.cons_append] at this ⊢
    exact this.mono (by omega)
  rcases hkw with rfl | rfl
  · exact (Ok_rx_stmt pil_env _ (Or.inl rfl) _ _ _ (hbody 'r' _ (by decide) (by decide))).mono (by omega)
  · exact (Ok_rx_stmt pil_env _ (Or.inr rfl) _ _ _ (hbody 'k' _ (by decide) (by decide))).mono (by omega)

/-- without an information box: the group is empty in front of the first reactant -/
theorem Ok_noinfoW (a : Nat) (rc : Char) (rm : List Char) (RL : List (List Char × Nat × Nat)) (c d : Nat) (pc : Char)
    (pm : List Char) (PL : List (List Char × Nat × Nat)) (X : List Char) (hrc : rc ∈ identChars) :
    Ok pil_env 6 {} (.group (.opt pil_infobox)) { rest := rxTextW a rc rm RL c d pc pm PL X, past := false }
      ({ rest := rxTextW a rc rm RL c d pc pm PL X, past := false }, [.grp []]) := by
  have hrcf := ident_facts rc hrc
  have hbr : rc ≠ '[' := fun e => (punct_facts '[' (by decide)).1 (e ▸ hrc)
  unfold pil_infobox
  have hsk : skipIgn (rxTextW a rc rm RL c d pc pm PL X) = rc :: (rm ++ (psMemsW RL ++
      (List.replicate (c + 1) ' ' ++ ('-' :: '>' :: (List.replicate d ' ' ++ (pc :: pm ++ (psMemsW PL ++ X))))))) := by
    unfold rxTextW
    rw [List.cons_append]
    exact skipIgn_blanks_cons a rc _ hrcf.1 hrcf.2.1
  have := No_punct pil_env { rest := rxTextW a rc rm RL c d pc pm PL X, past := false } '[' rc _ hsk hbr
  exact (Ok_group (Ok_opt_none (No_seq (NoSeq_head this)))).mono (by decide)

/-- the template fragment "separator, `+`, separator, token" for every further species -/
theorem render_plusToks (ms : List (List Char)) (tl : List Piece) (ks : List Nat)
    (h : CountsOK (ms.flatMap (fun d => [Piece.sep false, Piece.tok ['+'], Piece.sep false, Piece.tok d]) ++ tl) ks) :
    ∃ (cs : List (Nat × Nat)) (ks' : List Nat), cs.length = ms.length ∧ CountsOK tl ks' ∧
      render (ms.flatMap (fun d => [Piece.sep false, Piece.tok ['+'], Piece.sep false, Piece.tok d]) ++ tl) ks =
        psMemsW (ms.zip cs) ++ render tl ks' := by
  induction ms generalizing ks with
  | nil => exact ⟨[], ks, rfl, h, by simp [psMemsW]⟩
  | cons d ds ih =>
    rcases ks with _ | ⟨k1, _ | ⟨k2, ks⟩⟩ <;>
      simp only [List.flatMap_cons, List.cons_append, List.nil_append, CountsOK] at h
    · exact absurd h.2 (by simp)
    obtain ⟨_, _, h'⟩ := h
    obtain ⟨cs, ks', hl, ht, hr⟩ := ih ks h'
    refine ⟨(k1, k2) :: cs, ks', by simp [hl], ht, ?_⟩
    simp only [List.flatMap_cons, List.cons_append, List.nil_append, render, List.zip_cons_cons, psMemsW_cons, hr,
      List.append_assoc]

end Dsd.Pil
