/-
The machine-generated statement-level translation of `Singleton.__call__` (Gen/PySingleton.lean, from dsdobjects/singleton.py) against
the hand-written statement-level model `Reg.callFull` (Model/SingletonFull.lean) over the registry `Reg κ` of live objects.

Representation (`Rep`): the two association lists of the class answer every look-up like the registry - `_instanceNames[n]` is the
identity of the live object named `n`, `_instanceCanon[k]` the identity of the live object that holds the key `k`.
-/
import DsdVerif.Gen.PySingleton
import DsdVerif.Model.SingletonFull

namespace Dsd.PySingletonL
open Dsd Dsd.Gen
variable {κ : Type} [DecidableEq κ]

section exec
variable {σ α β : Type}
theorem exec_pure (a : α) (s : σ) : (pure a : Py.MS σ α).exec s = (.ok a, s) := rfl
theorem exec_bind (m : Py.MS σ α) (f : α → Py.MS σ β) (s : σ) :
    (m >>= f).exec s = match m.exec s with
      | (.ok a, s') => (f a).exec s'
      | (.error e, s') => (.error e, s') := by
  simp only [Py.MS.exec, ExceptT.run, bind, ExceptT.bind, ExceptT.mk, StateT.bind, StateT.run]
  cases h : m s with
  | mk r s' => cases r <;> rfl
theorem exec_get (s : σ) : (get : Py.MS σ σ).exec s = (.ok s, s) := rfl
theorem exec_modify (f : σ → σ) (s : σ) : (modify f : Py.MS σ Unit).exec s = (.ok (), f s) := rfl
theorem exec_throw (e : Err) (s : σ) : (throw e : Py.MS σ α).exec s = (.error e, s) := rfl
theorem exec_lift (x : Except Err α) (s : σ) : (liftM x : Py.MS σ α).exec s = (x, s) := by
  cases x <;> rfl
theorem exec_monadLift (x : Except Err α) (s : σ) : (monadLift x : Py.MS σ α).exec s = (x, s) := by
  cases x <;> rfl
theorem exec_ite (c : Prop) [Decidable c] (a b : Py.MS σ α) (s : σ) :
    (if c then a else b).exec s = if c then a.exec s else b.exec s := by
  split <;> rfl
end exec

theorem exec_construct (fresh : Nat) (initKeys : List κ) (s : Py.SingletonCls κ) :
    (Py.construct fresh initKeys).exec s =
      (.ok fresh, { s with _instanceCanon := initKeys.foldl (fun d k => Py.dictSet d k fresh) s._instanceCanon }) := rfl

/-! ### dictionaries -/

theorem lookup_cons' {β} (a : κ) (b : β) (d : List (κ × β)) (k' : κ) :
    List.lookup k' ((a, b) :: d) = if k' = a then some b else List.lookup k' d := by
  by_cases h : k' = a
  · subst h; simp [List.lookup]
  · have h' : (k' == a) = false := by simpa using h
    simp [List.lookup, h', h]

theorem lookup_map_replace {β} (k : κ) (x : β) : ∀ (d : List (κ × β)) (k' : κ),
    (d.map (fun p => if p.1 == k then (p.1, x) else p)).lookup k' =
      if k' = k then (d.lookup k).map (fun _ => x) else d.lookup k' := by
  intro d
  induction d with
  | nil => intro k'; by_cases h : k' = k <;> simp [h]
  | cons p d ih =>
    intro k'
    obtain ⟨a, b⟩ := p
    by_cases hak : a = k
    · subst hak
      simp only [List.map_cons, beq_self_eq_true, if_true, lookup_cons', ih]
      by_cases h : k' = a <;> simp [h]
    · have hak' : (a == k) = false := by simpa using hak
      simp only [List.map_cons, hak', Bool.false_eq_true, if_false, lookup_cons', ih]
      by_cases h : k' = a
      · subst h
        simp [hak]
      · by_cases h2 : k' = k
        · subst h2
          have : ¬ k' = a := h
          simp [this]
        · simp [h, h2]

theorem lookup_snoc {β} (k : κ) (x : β) : ∀ (d : List (κ × β)) (k' : κ),
    (d ++ [(k, x)]).lookup k' = match d.lookup k' with
      | some y => some y
      | none => if k' = k then some x else none := by
  intro d
  induction d with
  | nil => intro k'; simp [lookup_cons']
  | cons p d ih =>
    intro k'
    obtain ⟨a, b⟩ := p
    simp only [List.cons_append, lookup_cons', ih]
    by_cases h : k' = a <;> simp [h]

theorem lookup_dictSet {β} (d : List (κ × β)) (k k' : κ) (x : β) :
    (Py.dictSet d k x).lookup k' = if k' = k then some x else d.lookup k' := by
  unfold Py.dictSet Py.dictHas
  cases hd : List.lookup k d with
  | none =>
    simp only [Option.isSome_none, Bool.false_eq_true, if_false, lookup_snoc]
    by_cases h : k' = k
    · subst h; simp [hd]
    · simp only [h, if_false]; cases List.lookup k' d <;> rfl
  | some y =>
    simp only [Option.isSome_some, if_true, lookup_map_replace, hd, Option.map_some]

theorem lookup_foldl_dictSet {β} (ks : List κ) (x : β) : ∀ (d : List (κ × β)) (k' : κ),
    (ks.foldl (fun d k => Py.dictSet d k x) d).lookup k' = if k' ∈ ks then some x else d.lookup k' := by
  induction ks with
  | nil => intro d k'; simp
  | cons k ks ih =>
    intro d k'
    rw [List.foldl_cons, ih, lookup_dictSet]
    by_cases h1 : k' ∈ ks
    · simp [h1]
    · by_cases h2 : k' = k
      · simp [h2]
      · simp [h1, h2]

/-! ### representation -/

/-- the class answers every look-up like the registry of live objects -/
structure Rep (s : Py.SingletonCls κ) (r : Reg κ) : Prop where
  names : ∀ n, s._instanceNames.lookup n = (r.findName n).map (·.id)
  canon : ∀ k, s._instanceCanon.lookup k = (r.findCanon k).map (·.id)

/-- what the code returns / raises for an outcome of the model (`created` is not observable in the code's result) -/
def toPy : Out → Except Err (Option Nat)
  | .ret id _ => .ok (some id)
  | .singletonErr e => .error (.singleton e)
  | .fault k => .error (.fault k)
  | _ => .error (.fault "model")

theorem findName_register (r : Reg κ) (o : Obj κ) (auto : Bool) (n : String) :
    (r.register o auto).findName n = match r.findName n with
      | some a => some a
      | none => if o.name = n then some o else none := by
  unfold Reg.findName Reg.register
  simp only [List.find?_append]
  cases r.objs.find? (fun o => o.name == n) with
  | some a => rfl
  | none => by_cases h : o.name = n <;> simp [h]

theorem findCanon_register (r : Reg κ) (o : Obj κ) (auto : Bool) (k : κ) :
    (r.register o auto).findCanon k = match r.findCanon k with
      | some a => some a
      | none => if k ∈ o.keys then some o else none := by
  unfold Reg.findCanon Reg.register
  simp only [List.find?_append]
  cases r.objs.find? (fun o => o.keys.contains k) with
  | some a => rfl
  | none => by_cases h : k ∈ o.keys <;> simp [h]

set_option maxHeartbeats 1000000 in
/-- **the translated `Singleton.__call__` is `Reg.callFull`**: same result / exception, and the class afterwards represents the
    registry afterwards - provided that, when an object is created, the keys its `__init__` registers are not held by a live object
    (the side condition of `C01.wf_call`; without it the code lets the new object take the key over, the model keeps the old one) -/
theorem call_eq (s : Py.SingletonCls κ) (r : Reg κ) (h : Rep s r) (canon : Option κ) (name : String) (fresh : Nat)
    (initKeys : List κ) (auto : Bool) :
    ((py_Singleton_call canon name fresh initKeys).exec s).1 = toPy (r.callFull canon name fresh initKeys auto).2 ∧
    (((∃ id, (r.callFull canon name fresh initKeys auto).2 = .ret id true) → ∀ k ∈ initKeys, r.findCanon k = none) →
      Rep ((py_Singleton_call canon name fresh initKeys).exec s).2 (r.callFull canon name fresh initKeys auto).1) := by
  unfold py_Singleton_call
  simp only [exec_ite, exec_bind, exec_get, exec_pure, exec_throw, exec_lift, exec_modify, exec_construct]
  simp only [Py.dictHas, Py.dictHasO, Py.dictGetOpt, Py.dictGetOptO, Py.dictGet, Py.dictGetKO, Py.unwrap, Py.keyOf, Py.attrOf]
  cases canon with
  | none =>
    cases hne : name.isEmpty <;> unfold Reg.callFull
    <;> simp only [hne, Bool.not_false, Bool.not_true, Option.isSome_none, Bool.and_false, Bool.false_eq_true, if_false, if_true,
      h.names name]
    <;> first
      | (cases hn : r.findName name <;>
          simp [toPy, pure, Except.pure, throw, throwThe, MonadExceptOf.throw] <;> (first | exact h | exact fun _ => h | (intros; exact h) | exact ⟨rfl, fun _ => h⟩))
      | (simp [toPy]; (first | exact h | exact fun _ => h | (intros; exact h) | exact ⟨rfl, fun _ => h⟩))
  | some k =>
    cases hne : name.isEmpty <;> cases hn : r.findName name <;> cases hc : r.findCanon k
    case false.none.none =>
      have hcall : r.callFull (some k) name fresh initKeys auto =
          (r.register ⟨fresh, name, k, if initKeys.contains k then initKeys else initKeys ++ [k]⟩ auto, .ret fresh true) := by
        simp [Reg.callFull, hne, hn, hc]
      rw [hcall]
      simp only [hne, Bool.not_false, Option.isSome_some, Bool.and_self, if_true, h.names name, h.canon k, hn, hc, Option.map_none,
        Option.isSome_none, Bool.or_self, Bool.false_eq_true, if_false, Option.isNone_none, pure, Except.pure]
      refine ⟨rfl, fun hnew => ?_⟩
      have hfree := hnew ⟨fresh, rfl⟩
      refine ⟨?_, ?_⟩
      · intro n
        show List.lookup n (Py.dictSet s._instanceNames name fresh) = _
        rw [lookup_dictSet, findName_register, h.names n]
        by_cases hnn : n = name
        · subst hnn; simp [hn]
        · have : ¬ name = n := fun e => hnn e.symm
          simp only [hnn, if_false, this]
          cases r.findName n <;> rfl
      · intro k'
        show List.lookup k' (Py.dictSet (List.foldl (fun d k => Py.dictSet d k fresh) s._instanceCanon initKeys) k fresh) = _
        rw [lookup_dictSet, lookup_foldl_dictSet, findCanon_register, h.canon k']
        by_cases hk : k' = k
        · subst hk
          simp only [if_true, hc]
          by_cases hin : k' ∈ initKeys <;> simp [hin]
        · simp only [hk, if_false]
          by_cases hin : k' ∈ initKeys
          · have := hfree k' hin
            simp only [hin, if_true, this, Option.map_none]
            by_cases hin2 : k ∈ initKeys <;> simp [hin, hin2]
          · simp only [hin, if_false]
            cases r.findCanon k' with
            | some a => rfl
            | none => by_cases hin2 : k ∈ initKeys <;> simp [hin, hin2, hk]
    all_goals
      unfold Reg.callFull
      simp only [hne, hn, hc, Bool.not_false, Bool.not_true, Option.isSome_some, Option.isSome_none, Bool.and_true, Bool.and_self,
        Bool.and_false, Bool.false_eq_true, if_false, if_true, h.names name, h.canon k]
      simp [toPy, pure, Except.pure, throw, throwThe, MonadExceptOf.throw]
      try (first | (first | exact h | exact fun _ => h | (intros; exact h) | exact ⟨rfl, fun _ => h⟩) | (split <;> simp_all [toPy] <;> (first | exact h | exact fun _ => h | (intros; exact h) | exact ⟨rfl, fun _ => h⟩)))

end Dsd.PySingletonL
