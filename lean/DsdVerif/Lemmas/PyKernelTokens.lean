/-
The token forest of a kernel string (`kernelTokens`, Model/Kernel.lean) consists of good names whenever the sequence does; PIL-legal
names (`C13.LegalNames`) are good names.  With Lemmas/PyKernel.lean this carries the theorems about the model `resolveKernel` on
kernel token forests over to the translated `py_resolve_kernel_loops`.
-/
import DsdVerif.Lemmas.PyKernel
import DsdVerif.Props.C13Kernel

namespace Dsd.PyKernelL
open Dsd Dsd.PP Dsd.Gen

theorem forestOk_append (a b : List Tree) : forestOk (a ++ b) = (forestOk a && forestOk b) := by
  induction a with
  | nil => simp [forestOk]
  | cons t a ih => rw [List.cons_append, forestOk_cons, forestOk_cons, ih, Bool.and_assoc]

theorem forestOk_snoc_tok (a : List Tree) (n : String) (ha : forestOk a = true) (hn : GoodName n = true) :
    forestOk (a ++ [.tok n]) = true := by
  rw [forestOk_append, ha, forestOk_cons, treeOk_tok, hn]; rfl

theorem forestOk_snoc_grp (a g : List Tree) (ha : forestOk a = true) (hg : forestOk g = true) :
    forestOk (a ++ [.grp g]) = true := by
  rw [forestOk_append, ha, forestOk_cons, treeOk_grp, hg]; rfl

theorem nestGo_ok : ∀ (l : List (String × Char)) (cur : List Tree) (stack : List (List Tree)) (toks : List Tree),
    (∀ e ∈ l, GoodName e.1 = true) → forestOk cur = true → (∀ s ∈ stack, forestOk s = true) →
    nestGo l cur stack = some toks → forestOk toks = true := by
  intro l
  induction l with
  | nil =>
    intro cur stack toks _ hc _ h
    cases stack with
    | nil => simp [nestGo] at h; rw [← h]; exact hc
    | cons s st => simp [nestGo] at h
  | cons e rest ih =>
    intro cur stack toks hl hc hs h
    obtain ⟨n, c⟩ := e
    have hn : GoodName n = true := hl (n, c) (by simp)
    have hrest : ∀ e ∈ rest, GoodName e.1 = true := fun e he => hl e (List.mem_cons_of_mem _ he)
    rw [nestGo.eq_def] at h
    simp only at h
    split at h
    · refine ih [] _ toks hrest (by simp [forestOk]) ?_ h
      intro s hs'
      rcases List.mem_cons.mp hs' with rfl | hs'
      · exact forestOk_snoc_tok cur n hc hn
      · exact hs s hs'
    · split at h
      · cases stack with
        | nil => simp at h
        | cons outer st =>
          simp only at h
          exact ih _ st toks hrest (forestOk_snoc_grp outer cur (hs outer (by simp)) hc)
            (fun s hs' => hs s (List.mem_cons_of_mem _ hs')) h
      · split at h
        · exact ih _ stack toks hrest (forestOk_snoc_tok cur "+" hc (by decide)) hs h
        · exact ih _ stack toks hrest (forestOk_snoc_tok cur n hc hn) hs h

/-- the token forest of the kernel string of a sequence of good names consists of good names -/
theorem kernelTokens_ok (seq : List String) (sst : List Char) (toks : List Tree)
    (hn : ∀ n ∈ seq, GoodName n = true) (h : kernelTokens seq sst = some toks) : forestOk toks = true := by
  unfold kernelTokens at h
  refine nestGo_ok (seq.zip sst) [] [] toks ?_ (by simp [forestOk]) (by simp) h
  intro e he
  obtain ⟨n, c⟩ := e
  exact hn n (List.of_mem_zip he).1

/-- a PIL domain name (identifier, optionally starred) is a good name -/
theorem goodName_of_domName (n : String) (h : C13.DomName n.toList) : GoodName n = true := by
  obtain ⟨base, st, e, hne, hall⟩ := h
  unfold GoodName
  rw [e]
  cases base with
  | nil => exact absurd rfl hne
  | cons c cs =>
    have : ∀ x ∈ pp_alphanums ++ ['_', '-'], x ≠ '*' := by decide
    simpa using this c (hall c (by simp))

/-- PIL-legal names of a kernel description are good names -/
theorem goodNames_of_legal (seq : List String) (sst : List Char) (hl : C13.LegalNames seq sst) :
    ∀ n ∈ seq, GoodName n = true := by
  intro n hn
  obtain ⟨i, hi, rfl⟩ := List.getElem_of_mem hn
  have h1 : seq[i]? = some seq[i] := List.getElem?_eq_getElem hi
  have hi2 : i < sst.length := by rw [← hl.1]; exact hi
  have h2 : sst[i]? = some sst[i] := List.getElem?_eq_getElem hi2
  obtain ⟨ha, hb, _⟩ := hl.2 i _ _ h1 h2
  by_cases hp : sst[i] = '+'
  · rw [ha hp]; decide
  · exact goodName_of_domName _ (hb hp)

end Dsd.PyKernelL
