/-
Error-kind bridging: the views of the legacy model raise only `SecondaryStructureError` or interpreter faults (`Plain`), and on
these the two namings of the model's exception classes - `PyLegacy.errOf` (as the translator names them) and `LgL.errOf` (as the
C20 theorems compare them with the current API) - agree.
-/
import DsdVerif.Lemmas.PyLegacyInv

set_option linter.unusedSimpArgs false
set_option linter.unusedVariables false

namespace Dsd.PyLegacy
open Dsd Dsd.Gen Dsd.Lg

/-- SecondaryStructureError or an interpreter-level fault -/
def Plain : LErr → Prop
  | .fault _ => True
  | .secondaryStructure => True
  | _ => False

theorem errOf_plain (e : LErr) (h : Plain e) : errOf e = LgL.errOf e := by
  cases e <;> first | rfl | cases h

theorem fill_plain (o o1 : LObj) (e : LErr) (h : o.fillPairTable = (o1, .error e)) : Plain e := by
  unfold LObj.fillPairTable at h
  split at h
  · cases h
  · split at h <;> cases h <;> trivial

theorem rli_plain (pt : PairTable) (e : LErr) (h : LObj.runLoopIndex pt = .error e) : Plain e := by
  unfold LObj.runLoopIndex at h
  split at h <;> cases h <;> trivial

theorem strandLength_plain (o : LObj) (k : Nat) (e : LErr) (h : (o.strandLength k).2 = .error e) : Plain e := by
  unfold LObj.strandLength at h
  simp only at h
  split at h <;> cases h
  trivial

theorem getDomain_plain (o : LObj) (l : Locus) (e : LErr) (h : (o.getDomain l).2 = .error e) : Plain e := by
  unfold LObj.getDomain at h
  simp only at h
  split at h <;> cases h
  trivial

theorem getPairedLoc_plain (o : LObj) (l : Int × Int) (e : LErr) (h : (o.getPairedLoc l).2 = .error e) : Plain e := by
  unfold LObj.getPairedLoc at h
  split at h
  · cases h; trivial
  · rcases hf : o.fillPairTable with ⟨o1, r⟩
    rw [hf] at h
    cases r with
    | error e' => simp only at h; cases h; exact fill_plain o o1 _ hf
    | ok pt =>
      simp only at h
      split at h <;> cases h
      trivial

theorem getLoopIndex_plain (o : LObj) (l : Locus) (e : LErr) (h : (o.getLoopIndex l).2 = .error e) : Plain e := by
  unfold LObj.getLoopIndex at h
  rcases hf : o.fillPairTable with ⟨o1, r⟩
  rw [hf] at h
  cases r with
  | error e' => simp only at h; cases h; exact fill_plain o o1 _ hf
  | ok pt =>
    simp only at h
    by_cases hc : truthy o1.loopIndex = true
    · simp only [hc, if_true] at h
      split at h <;> cases h
      trivial
    · simp only [hc, if_false, Bool.false_eq_true] at h
      cases hr : LObj.runLoopIndex pt with
      | error e' => rw [hr] at h; simp only at h; cases h; exact rli_plain pt _ hr
      | ok li =>
        rw [hr] at h
        simp only at h
        split at h <;> cases h
        trivial

theorem exterior_plain (o : LObj) (e : LErr) (h : o.exteriorDomainsView.2 = .error e) : Plain e := by
  rw [extView_eq] at h
  split at h
  · cases h
  · rcases hf : o.fillPairTable with ⟨o1, r⟩
    rw [hf] at h
    cases r with
    | error e' => simp only at h; cases h; exact fill_plain o o1 _ hf
    | ok pt =>
      simp only at h
      rcases hs : stepLI o1 pt with ⟨o2, r2⟩
      rw [hs] at h
      cases r2 with
      | ok l => simp only at h; cases h
      | error e' =>
        simp only at h; cases h
        unfold stepLI at hs
        split at hs
        · cases hr : LObj.runLoopIndex pt with
          | error e'' => rw [hr] at hs; simp only at hs; cases hs; exact rli_plain pt _ hr
          | ok li => rw [hr] at hs; simp only at hs; cases hs
        · cases hs

theorem enclosed_plain (o : LObj) (e : LErr) (h : o.enclosedDomainsView.2 = .error e) : Plain e := by
  unfold LObj.enclosedDomainsView at h
  split at h
  · cases h
  · rcases hv : o.exteriorDomainsView with ⟨o1, r⟩
    rw [hv] at h
    cases r with
    | ok d => simp only at h; cases h
    | error e' =>
      simp only at h; cases h
      exact exterior_plain o _ (by rw [hv])

end Dsd.PyLegacy
