/-
(c) `dtype` without a length: the method first sets `length` to the class default of the dtype and then proceeds exactly as for that
length without dtype - in the code and in the model (`dtype_default_lengths` at the level of `identifiers`).
-/
import DsdVerif.Lemmas.PyDomainEqIdent3c

namespace Dsd.PyDomainEq
open Dsd Dsd.Gen Dsd.PySingletonL

theorem identifiers_dtype_short_py (request : Py.Dom.Req → Py.Dom.M Nat) (tmp cutoff sh lo : Nat) (pre : String) (name : Option String)
    (pfx : Option String) (s : Py.Dom.Cls) :
    (py_DomainS_identifiers request tmp cutoff sh lo pre name none pfx (some "short")).exec s =
      (py_DomainS_identifiers request tmp cutoff sh lo pre name (some sh) pfx none).exec s := by
  have h1 : ((some "short" : Option String) == some "short") = true := rfl
  unfold py_DomainS_identifiers
  simp only [exec_ite, exec_bind, exec_get, exec_pure, exec_lift, Py.unwrap, pure_ok, Option.isNone_none, Option.isNone_some, if_true,
    if_false, Bool.false_eq_true, h1, Py.Dom.truthyOS]

theorem identifiers_dtype_long_py (request : Py.Dom.Req → Py.Dom.M Nat) (tmp cutoff sh lo : Nat) (pre : String) (name : Option String)
    (pfx : Option String) (s : Py.Dom.Cls) :
    (py_DomainS_identifiers request tmp cutoff sh lo pre name none pfx (some "long")).exec s =
      (py_DomainS_identifiers request tmp cutoff sh lo pre name (some lo) pfx none).exec s := by
  have h1 : ((some "long" : Option String) == some "short") = false := by decide
  have h2 : ((some "long" : Option String) == some "long") = true := rfl
  unfold py_DomainS_identifiers
  simp only [exec_ite, exec_bind, exec_get, exec_pure, exec_lift, Py.unwrap, pure_ok, Option.isNone_none, Option.isNone_some, if_true,
    if_false, Bool.false_eq_true, h1, h2, Py.Dom.truthyOS]

theorem identifiers_dtype_model (nested : Reg DKey → DomReq → Reg DKey × Out) (cfg : DomCfg) (r : Reg DKey) (name : Option String)
    (pfx : Option String) :
    DomFull.identifiers nested cfg r { name := name, prefix_ := pfx, dtype := some .short } =
      DomFull.identifiers nested cfg r { name := name, length := some cfg.shortLen, prefix_ := pfx } ∧
    DomFull.identifiers nested cfg r { name := name, prefix_ := pfx, dtype := some .long } =
      DomFull.identifiers nested cfg r { name := name, length := some cfg.longLen, prefix_ := pfx } := ⟨rfl, rfl⟩

end Dsd.PyDomainEq
