/-
Arbitrary gaps at every token boundary, part 3: strand-notation complexes (`structure` and `complex` form) and the
concentration of a kernel complex.
-/
import DsdVerif.Lemmas.PilGapsRx

namespace Dsd.Pil
open Dsd.PP Dsd.Gen Dsd.PP.Tabs

/-! ### `structure`: domains and `+` in any order, any gaps -/

/-- an element of the strand list of a `structure` statement: a domain, or `+` (`none`) -/
abbrev SItem := Option (List Char)

def sitemTok : SItem → List Char
  | some d => d
  | none => ['+']

/-- the elements, each preceded by its number of blanks -/
def itemsTextW (L : List (SItem × Nat)) : List Char :=
  (L.map (fun x => List.replicate x.2 ' ' ++ sitemTok x.1)).flatten

theorem itemsTextW_cons (x : SItem × Nat) (L : List (SItem × Nat)) :
    itemsTextW (x :: L) = List.replicate x.2 ' ' ++ (sitemTok x.1 ++ itemsTextW L) := by simp [itemsTextW]

/-- domains are domain names; a domain that follows a domain is preceded by at least one blank -/
def ItemsOK : Bool → List (SItem × Nat) → Prop
  | _, [] => True
  | prev, x :: L => (prev = true → x.1.isSome = true → 1 ≤ x.2) ∧ (∀ d, x.1 = some d → IsDom d) ∧ ItemsOK x.1.isSome L

def itemToks (L : List (SItem × Nat)) : List Tree :=
  L.filterMap (fun x => x.1.map (fun d => Tree.tok (String.ofList d)))

theorem OutHd_items (L : List (SItem × Nat)) (tail : List Char) (hL : ItemsOK true L)
    (ht : OutHd (fun x => x ∉ identChars ∧ x ≠ '*') tail) :
    OutHd (fun x => x ∉ identChars ∧ x ≠ '*') (itemsTextW L ++ tail) := by
  cases L with
  | nil => simpa [itemsTextW] using ht
  | cons x L =>
    obtain ⟨it, k⟩ := x
    rw [itemsTextW_cons, List.append_assoc]
    cases k with
    | zero =>
      cases it with
      | some d => have := hL.1 rfl rfl; simp at this
      | none => exact OutHd_cons _ _ _ ⟨(punct_facts '+' (by decide)).1, by decide⟩
    | succ k =>
      rw [List.replicate_succ]
      exact OutHd_cons _ _ _ ⟨outside_facts ' ' (by decide), by decide⟩

theorem itemsTextW_length (L : List (SItem × Nat)) (prev : Bool) (hL : ItemsOK prev L) :
    L.length ≤ (itemsTextW L).length := by
  induction L generalizing prev with
  | nil => simp [itemsTextW]
  | cons x L ih =>
    obtain ⟨it, k⟩ := x
    have := ih _ hL.2.2
    have ht : 0 < (sitemTok it).length := by
      cases it with
      | none => simp [sitemTok]
      | some d =>
        obtain ⟨c, m, st, rfl, _, _⟩ := hL.2.1 d rfl
        simp [sitemTok]
    rw [itemsTextW_cons]
    simp only [List.length_cons, List.length_append, List.length_replicate]
    omega

/-- one element: a domain, or a suppressed `+` -/
theorem Ok_sitem (env : Env) (x : SItem × Nat) (r : List Char) (hd : ∀ d, x.1 = some d → IsDom d)
    (hr : x.1.isSome = true → OutHd (fun y => y ∉ identChars ∧ y ≠ '*') r) :
    Ok env 10 {} domOrPlus { rest := List.replicate x.2 ' ' ++ (sitemTok x.1 ++ r), past := false }
      ({ rest := r, past := false }, (x.1.map (fun d => Tree.tok (String.ofList d))).toList) := by
  obtain ⟨it, k⟩ := x
  unfold domOrPlus
  cases it with
  | some d =>
    obtain ⟨c, m, st, rfl, hc, hm⟩ := hd d rfl
    have o1 := Ok_domain env k c m st r hc hm (hr rfl)
    simp only [sitemTok, List.append_assoc, Option.map_some, Option.toList_some]
    exact (Ok_alt (OkAlt_head o1)).mono (by decide)
  | none =>
    have hsk : skipIgn (List.replicate k ' ' ++ ('+' :: r)) = '+' :: r :=
      skipIgn_blanks_cons k '+' r (by decide) (by decide)
    have n1 : No env 5 {} pil_domain { rest := List.replicate k ' ' ++ ('+' :: r), past := false } :=
      No_domain env _ '+' r hsk (punct_facts '+' (by decide)).1
    have o1 := Ok_punct env k '+' r (by decide) (by decide)
    simp only [sitemTok, List.singleton_append, Option.map_none, Option.toList_none]
    exact (Ok_alt (OkAlt_tail n1 (OkAlt_head o1))).mono (by decide)

theorem OkMany_sitems (env : Env) (L : List (SItem × Nat)) (tail : List Char) (prev : Bool)
    (hL : ItemsOK prev L) (ht : OutHd (fun x => x ∉ identChars ∧ x ≠ '*') tail)
    (hstop : No env 8 {} domOrPlus { rest := tail, past := false }) :
    OkMany env (L.length + 11) {} domOrPlus { rest := itemsTextW L ++ tail, past := false }
      ({ rest := tail, past := false }, itemToks L) := by
  induction L generalizing prev with
  | nil =>
    have := OkMany_stop hstop
    intro reps fuel hr hf
    simpa [itemsTextW, itemToks] using this reps fuel (by simp at hr; omega) (by simp at hf; omega)
  | cons x L ih =>
    have ih' := ih _ hL.2.2
    have h1 := Ok_sitem env x (itemsTextW L ++ tail) hL.2.1 (by
      intro hs
      have hL' : ItemsOK true L := by rw [← hs]; exact hL.2.2
      exact OutHd_items L tail hL' ht)
    have htl : 0 < (sitemTok x.1).length := by
      obtain ⟨it, k⟩ := x
      cases it with
      | none => simp [sitemTok]
      | some d =>
        obtain ⟨c, m, st, rfl, _, _⟩ := hL.2.1 d rfl
        simp [sitemTok]
    have hne : ({ rest := itemsTextW L ++ tail, past := false } : Pos) ≠
        { rest := List.replicate x.2 ' ' ++ (sitemTok x.1 ++ (itemsTextW L ++ tail)), past := false } :=
      pos_ne_of_length _ _ _ _ (by simp only [List.length_append, List.length_replicate]; omega)
    have := OkMany_step h1 hne ih'
    rw [itemsTextW_cons, List.append_assoc, List.append_assoc]
    have htoks : itemToks (x :: L) = (x.1.map (fun d => Tree.tok (String.ofList d))).toList ++ itemToks L := by
      obtain ⟨it, k⟩ := x
      cases it <;> simp [itemToks]
    rw [htoks]
    intro reps fuel hr hf
    simp only [List.length_cons] at hr hf
    exact this reps fuel (by omega) (by omega)

def structTextW (a : Nat) (c : Char) (m : List Char) (b : Nat) (s1 : Char) (L : List (SItem × Nat)) (g : Nat)
    (s2 : Char) (h : Nat) (dbc : Char) (dbm X : List Char) : List Char :=
  List.replicate a ' ' ++ (c :: m ++ (List.replicate b ' ' ++ (s1 :: (itemsTextW L ++ (List.replicate g ' ' ++
    (s2 :: (List.replicate h ' ' ++ (dbc :: dbm ++ X))))))))

/-- the `structure` form with any gaps, in front of a continuation that does not start with a dot-bracket
    character -/
theorem struct_stmt_tailW (a : Nat) (ha : 0 < a) (c : Char) (m : List Char) (b : Nat) (s1 s2 : Char)
    (hs1 : s1 = '=' ∨ s1 = ':') (hs2 : s2 = '=' ∨ s2 = ':') (x : SItem × Nat) (L : List (SItem × Nat)) (g h : Nat)
    (dbc : Char) (dbm X : List Char) (NE : Nat) (p : Pos)
    (hc : c ∈ identChars) (hm : ∀ y ∈ m, y ∈ identChars) (hL : ItemsOK false (x :: L))
    (hdbc : dbc ∈ dbCore) (hdbm : ∀ y ∈ dbm, y ∈ dbCore) (hX : OutHd (fun y => y ∉ dbChars) X)
    (heol : Ok pil_env NE {} eolG { rest := X, past := false } (p, [])) :
    Ok pil_env (max (L.length + 50) (NE + 30)) {} pil_stmt
      { rest := 's' :: (['t', 'r', 'u', 'c', 't', 'u', 'r', 'e'] ++ structTextW a c m b s1 (x :: L) g s2 h dbc dbm X),
        past := false }
      (p, [.grp [.tok "strand-complex", .tok (String.ofList (c :: m)), .grp (itemToks (x :: L)),
          .tok (String.ofList (dbc :: dbm))]]) := by
  have hs2f : s2 ∉ identChars ∧ s2 ≠ '+' ∧ isWs s2 = false ∧ s2 ≠ '#' := by
    rcases hs2 with rfl | rfl
    · exact ⟨outside_facts '=' (by decide), by decide, by decide, by decide⟩
    · exact ⟨outside_facts ':' (by decide), by decide, by decide, by decide⟩
  generalize hT : List.replicate g ' ' ++ (s2 :: (List.replicate h ' ' ++ (dbc :: dbm ++ X))) = T
  have hTout : OutHd (fun y => y ∉ identChars ∧ y ≠ '*') T := by
    rw [← hT]; exact OutHd_sign g s2 hs2 _
  have hTsk : skipIgn T = s2 :: (List.replicate h ' ' ++ (dbc :: dbm ++ X)) := by
    rw [← hT]; exact skipIgn_blanks_cons g s2 _ hs2f.2.2.1 hs2f.2.2.2
  have hstop : No pil_env 8 {} domOrPlus { rest := T, past := false } := by
    unfold domOrPlus
    have n1 := No_domain pil_env { rest := T, past := false } s2 _ hTsk hs2f.1
    have n2 := No_punct pil_env { rest := T, past := false } '+' s2 _ hTsk hs2f.2.1
    exact (No_alt (NoAlt_cons n1 (NoAlt_cons n2 (NoAlt_nil pil_env _ _)))).mono (by decide)
  have hbody : Ok pil_env (max (L.length + 30) (NE + 12)) {} structBody
      { rest := 's' :: (['t', 'r', 'u', 'c', 't', 'u', 'r', 'e'] ++ structTextW a c m b s1 (x :: L) g s2 h dbc dbm X),
        past := false }
      (p, [.grp [.tok "strand-complex", .tok (String.ofList (c :: m)), .grp (itemToks (x :: L)),
          .tok (String.ofList (dbc :: dbm))]]) := by
    unfold structBody structTextW
    rw [hT]
    have h1 := Ok_kw pil_env 's' ['t', 'r', 'u', 'c', 't', 'u', 'r', 'e'] (List.replicate a ' ' ++ (c :: m ++
      (List.replicate b ' ' ++ (s1 :: (itemsTextW (x :: L) ++ T))))) (by decide) (by decide) (OutHd_kw_blanks a ha _)
    have h2 := Ok_ident pil_env a c m (List.replicate b ' ' ++ (s1 :: (itemsTextW (x :: L) ++ T))) hc hm
      ((OutHd_sign b s1 hs1 _).imp (fun y hy => hy.1))
    have h3 := Ok_assign pil_env b s1 hs1 (itemsTextW (x :: L) ++ T)
    have h4a := Ok_sitem pil_env x (itemsTextW L ++ T) hL.2.1 (by
      intro hs
      have hL' : ItemsOK true L := by rw [← hs]; exact hL.2.2
      exact OutHd_items L T hL' hTout)
    have h4b := OkMany_sitems pil_env L T _ hL.2.2 hTout hstop
    have h4 := Ok_group (Ok_many1 h4a h4b)
    have htoks : (x.1.map (fun d => Tree.tok (String.ofList d))).toList ++ itemToks L = itemToks (x :: L) := by
      obtain ⟨it, k⟩ := x
      cases it <;> simp [itemToks]
    rw [htoks] at h4
    have h5 : Ok pil_env 5 {} (.suppress pil_assign) { rest := T, past := false }
        ({ rest := List.replicate h ' ' ++ (dbc :: dbm ++ X), past := false }, []) := by
      rw [← hT]; exact Ok_assign pil_env g s2 hs2 _
    have h6 := Ok_db pil_env h dbc dbm X hdbc hdbm hX
    unfold domOrPlus at h4
    rw [itemsTextW_cons, List.append_assoc, List.append_assoc] at h1 h2 h3
    rw [itemsTextW_cons, List.append_assoc, List.append_assoc]
    have := Ok_group (Ok_tag (t := "strand-complex") (Ok_seq (OkSeq_cons h1 (OkSeq_cons h2 (OkSeq_cons h3
      (OkSeq_cons h4 (OkSeq_cons h5 (OkSeq_cons h6 (OkSeq_cons heol (OkSeq_nil pil_env _ _))))))))))
    simp only [List.nil_append, List.append_nil, List.cons_append] at this ⊢
    exact this.mono (by omega)
  exact (Ok_struct_stmt pil_env _ _ _ hbody).mono (by omega)

/-- the template pieces of the strand list: before a domain that follows a domain the separator is mandatory -/
def sitemPieces : Bool → List SItem → List Piece
  | _, [] => []
  | prev, it :: its => Piece.sep (prev && it.isSome) :: Piece.tok (sitemTok it) :: sitemPieces it.isSome its

theorem render_sitems (items : List SItem) (prev : Bool) (tl : List Piece) (ks : List Nat)
    (hd : ∀ d, some d ∈ items → IsDom d) (h : CountsOK (sitemPieces prev items ++ tl) ks) :
    ∃ (cs : List Nat) (ks' : List Nat), cs.length = items.length ∧ ItemsOK prev (items.zip cs) ∧ CountsOK tl ks' ∧
      render (sitemPieces prev items ++ tl) ks = itemsTextW (items.zip cs) ++ render tl ks' := by
  induction items generalizing prev ks with
  | nil => exact ⟨[], ks, rfl, trivial, h, by simp [sitemPieces, itemsTextW]⟩
  | cons it its ih =>
    cases ks with
    | nil => exact absurd h (by simp [sitemPieces, CountsOK])
    | cons k ks =>
      simp only [sitemPieces, List.cons_append, CountsOK] at h
      obtain ⟨hk, h'⟩ := h
      obtain ⟨cs, ks', hl, hok, ht, hr⟩ := ih it.isSome ks (fun d hd' => hd d (List.mem_cons_of_mem _ hd')) h'
      refine ⟨k :: cs, ks', by simp [hl], ⟨?_, ?_, hok⟩, ht, ?_⟩
      · intro hp hs
        exact hk (by simp [hp, hs])
      · intro d he
        have he' : it = some d := he
        exact hd d (by rw [he']; exact List.mem_cons_self)
      · simp only [sitemPieces, List.cons_append, render, List.zip_cons_cons, itemsTextW_cons, hr, List.append_assoc]

/-! ### the `complex` form, with any gaps -/

theorem Ok_nl_blanks (env : Env) (n : Nat) (r : List Char) :
    Ok env 2 {} (.suppress .lineEnd) { rest := List.replicate n ' ' ++ ('\n' :: r), past := false }
      ({ rest := r, past := false }, []) :=
  Ok_suppress (Ok_lineEnd_nl env {} _ r (by rw [pre_skip]; exact skipIgn_blanks_cons n '\n' r (by decide) (by decide)))

def complexTextW (a : Nat) (c : Char) (m : List Char) (b : Nat) (sign : Char) (g3 g4 : Nat) (d : List Char)
    (L : List (List Char × Nat)) (g5 g6 : Nat) (dbc : Char) (dbm X : List Char) : List Char :=
  List.replicate a ' ' ++ (c :: m ++ (List.replicate b ' ' ++ (sign :: (List.replicate g3 ' ' ++ ('\n' ::
    (List.replicate g4 ' ' ++ (d ++ (spDomsW L ++ (List.replicate g5 ' ' ++ ('\n' ::
      (List.replicate g6 ' ' ++ (dbc :: dbm ++ X))))))))))))

theorem complex_stmt_tailW (a : Nat) (ha : 0 < a) (c : Char) (m : List Char) (b : Nat) (sign : Char)
    (hs : sign = '=' ∨ sign = ':') (g3 g4 : Nat) (d : List Char) (L : List (List Char × Nat)) (g5 g6 : Nat)
    (dbc : Char) (dbm X : List Char) (NE : Nat) (p : Pos)
    (hc : c ∈ identChars) (hm : ∀ x ∈ m, x ∈ identChars) (hd : IsDom d) (hds : ∀ x ∈ L, IsDom x.1)
    (hdbc : dbc ∈ dbCore) (hdbm : ∀ x ∈ dbm, x ∈ dbCore) (hX : OutHd (fun x => x ∉ dbChars) X)
    (heol : Ok pil_env NE {} eolG { rest := X, past := false } (p, [])) :
    Ok pil_env (max (L.length + 40) (NE + 30)) {} pil_stmt
      { rest := 'c' :: (['o', 'm', 'p', 'l', 'e', 'x'] ++ complexTextW a c m b sign g3 g4 d L g5 g6 dbc dbm X),
        past := false }
      (p, [.grp [.tok "strand-complex", .tok (String.ofList (c :: m)),
          .grp ((d :: L.map (·.1)).map (fun d => .tok (String.ofList d))), .tok (String.ofList (dbc :: dbm))]]) := by
  generalize hT : List.replicate g5 ' ' ++ ('\n' :: (List.replicate g6 ' ' ++ (dbc :: dbm ++ X))) = T
  have hTout : OutHd (fun y => y ∉ identChars ∧ y ≠ '*') T := by
    rw [← hT]
    exact OutHd_blanks _ g5 _ ⟨outside_facts ' ' (by decide), by decide⟩
      (OutHd_cons _ _ _ ⟨outside_facts '\n' (by decide), by decide⟩)
  have hTstop : No pil_env 5 {} pil_domain { rest := T, past := false } := by
    rw [← hT]
    exact No_domain pil_env _ '\n' _ (skipIgn_blanks_cons g5 '\n' _ (by decide) (by decide))
      (outside_facts '\n' (by decide))
  have hbody : Ok pil_env (max (L.length + 24) (NE + 12)) {} complexBody
      { rest := 'c' :: (['o', 'm', 'p', 'l', 'e', 'x'] ++ complexTextW a c m b sign g3 g4 d L g5 g6 dbc dbm X),
        past := false }
      (p, [.grp [.tok "strand-complex", .tok (String.ofList (c :: m)),
          .grp ((d :: L.map (·.1)).map (fun d => .tok (String.ofList d))), .tok (String.ofList (dbc :: dbm))]]) := by
    unfold complexBody complexTextW
    rw [hT]
    obtain ⟨dc, dm, st, rfl, hdc, hdm⟩ := hd
    have h1 := Ok_kw pil_env 'c' ['o', 'm', 'p', 'l', 'e', 'x'] (List.replicate a ' ' ++ (c :: m ++
      (List.replicate b ' ' ++ (sign :: (List.replicate g3 ' ' ++ ('\n' :: (List.replicate g4 ' ' ++
        (dc :: dm ++ star st ++ (spDomsW L ++ T))))))))) (by decide) (by decide) (OutHd_kw_blanks a ha _)
    have h2 := Ok_ident pil_env a c m (List.replicate b ' ' ++ (sign :: (List.replicate g3 ' ' ++ ('\n' ::
      (List.replicate g4 ' ' ++ (dc :: dm ++ star st ++ (spDomsW L ++ T)))))))
      hc hm ((OutHd_sign b sign hs _).imp (fun x hx => hx.1))
    have h3 := Ok_assign pil_env b sign hs (List.replicate g3 ' ' ++ ('\n' ::
      (List.replicate g4 ' ' ++ (dc :: dm ++ star st ++ (spDomsW L ++ T)))))
    have h4 := Ok_opt_some (Ok_nl_blanks pil_env g3 (List.replicate g4 ' ' ++ (dc :: dm ++ star st ++ (spDomsW L ++ T))))
    have h5a := Ok_domain pil_env g4 dc dm st (spDomsW L ++ T) hdc hdm (OutHd_spDomsW L _ hTout)
    have h5b := OkMany_domsW pil_env L T hds hTout hTstop
    have h6 : Ok pil_env 3 {} (.opt (.suppress .lineEnd)) { rest := T, past := false }
        ({ rest := List.replicate g6 ' ' ++ (dbc :: dbm ++ X), past := false }, []) := by
      rw [← hT]; exact Ok_opt_some (Ok_nl_blanks pil_env g5 _)
    have h7 := Ok_db pil_env g6 dbc dbm X hdbc hdbm hX
    simp only [List.cons_append, List.append_assoc] at h1 h2 h3 h4 h5a h5b h7 ⊢
    have h5 := Ok_group (Ok_many1 h5a h5b)
    have := Ok_group (Ok_tag (t := "strand-complex") (Ok_seq (OkSeq_cons h1 (OkSeq_cons h2 (OkSeq_cons h3
      (OkSeq_cons h4 (OkSeq_cons h5 (OkSeq_cons h6 (OkSeq_cons h7 (OkSeq_cons heol (OkSeq_nil pil_env _ _)))))))))))
    simp only [List.nil_append, List.append_nil, List.cons_append, List.map_cons, List.map_map] at this ⊢
    exact this.mono (by omega)
  exact (Ok_complex_stmt pil_env _ _ _ hbody).mono (by omega)

/-! ### the concentration of a kernel complex, with any gaps and any number form -/

/-- `@ mode value unit` with any amount of blanks at every boundary -/
def concTextW (g0 : Nat) (mode : List Char) (g1 g2 : Nat) (value : Num) (g3 : Nat) (unit X : List Char) : List Char :=
  List.replicate g0 ' ' ++ ('@' :: (List.replicate g1 ' ' ++ (mode ++ (List.replicate g2 ' ' ++ (value.text ++
    (List.replicate g3 ' ' ++ (unit ++ X)))))))

theorem cunit_head (unit : List Char) (hu : IsCunit unit) :
    ∃ uc ut, unit = uc :: ut ∧ isWs uc = false ∧ uc ≠ '#' ∧ NumEnd uc := by
  rcases hu with rfl | rfl | rfl | rfl | rfl <;>
    exact ⟨_, _, rfl, by decide, by decide, by decide, by decide, by decide⟩

theorem Ok_concW (g0 : Nat) (mode : List Char) (g1 g2 : Nat) (value : Num) (g3 : Nat) (unit X : List Char)
    (hmode : IsMode mode) (hv : value.OK) (hu : IsCunit unit) :
    Ok pil_env 40 {} pil_conc { rest := concTextW g0 mode g1 g2 value g3 unit X, past := false }
      ({ rest := X, past := false },
        [.grp [.tok (String.ofList mode), .tok (String.ofList value.text), .tok (String.ofList unit)]]) := by
  unfold pil_conc concTextW
  obtain ⟨uc, ut, rfl, huc1, huc2, huc3⟩ := cunit_head unit hu
  obtain ⟨ic, im, hip, hic, _⟩ := cons_of_class value.ip _ hv.ip
  -- what follows the mode: blanks or the first digit
  generalize hR : List.replicate g2 ' ' ++ (value.text ++ (List.replicate g3 ' ' ++ (uc :: ut ++ X))) = R
  have hRhd : OutHd (fun x => x ≠ 'n' ∧ x ≠ 'o') R := by
    rw [← hR]
    have hvt : ∃ t, value.text = ic :: t := by
      obtain ⟨ip, fp, ex⟩ := value
      simp only at hip
      subst hip
      exact ⟨im ++ ((fracWords fp).flatten ++ (expWords ex).flatten), by simp [Num.text, Num.words]⟩
    obtain ⟨t, ht⟩ := hvt
    rw [ht]
    refine OutHd_blanks _ g2 _ ⟨by decide, by decide⟩ (OutHd_cons _ _ _ ?_)
    have h1 : ic ≠ 'n' := fun e => (nums_facts ic hic).2 (e ▸ (by decide : 'n' ∈ pp_alphas))
    have h2 : ic ≠ 'o' := fun e => (nums_facts ic hic).2 (e ▸ (by decide : 'o' ∈ pp_alphas))
    exact ⟨h1, h2⟩
  have hg := Ok_gorf pil_env g2 value hv (List.replicate g3 ' ' ++ (uc :: ut ++ X))
    (OutHd_blanks _ g3 _ numEnd_facts.1 (OutHd_cons _ _ _ huc3))
  rw [hR] at hg
  have hcu : Ok pil_env 7 {} pil_cunit { rest := List.replicate g3 ' ' ++ (uc :: ut ++ X), past := false }
      ({ rest := X, past := false }, [.tok (String.ofList (uc :: ut))]) := by
    apply Ok_cunit pil_env {} _ (uc :: ut) X hu _ rfl
    rw [pre_skip]
    exact skipIgn_blanks_cons g3 uc _ huc1 huc2
  have hat := Ok_punct pil_env g0 '@' (List.replicate g1 ' ' ++ (mode ++ R)) (by decide) (by decide)
  have asm : ∀ (l1 l2 : List Char) (N : Nat),
      Ok pil_env N {} (.alt [.lit l1, .lit l2]) { rest := List.replicate g1 ' ' ++ (mode ++ R), past := false }
        ({ rest := R, past := false }, [.tok (String.ofList mode)]) →
      Ok pil_env (max N 20 + 6) {} (.group (.seq [.suppress (.lit ['@']), .alt [.lit l1, .lit l2], pil_gorf, pil_cunit]))
        { rest := List.replicate g0 ' ' ++ ('@' :: (List.replicate g1 ' ' ++ (mode ++ R))), past := false }
        ({ rest := X, past := false },
          [.grp [.tok (String.ofList mode), .tok (String.ofList value.text), .tok (String.ofList (uc :: ut))]]) := by
    intro l1 l2 N hmd
    have := Ok_group (Ok_seq (OkSeq_cons hat (OkSeq_cons hmd (OkSeq_cons hg (OkSeq_cons hcu (OkSeq_nil pil_env _ _))))))
    simp only [List.nil_append, List.append_nil, List.cons_append] at this
    exact this.mono (by omega)
  have lit_ok : ∀ (s : List Char) (c : Char) (s' : List Char), s = c :: s' → isWs c = false → c ≠ '#' →
      Ok pil_env 1 {} (.lit s) { rest := List.replicate g1 ' ' ++ (s ++ R), past := false }
        ({ rest := R, past := false }, [.tok (String.ofList s)]) := by
    intro s c s' hs h1 h2
    subst hs
    exact Ok_lit pil_env {} _ _ R (by rw [pre_skip]; exact skipIgn_blanks_cons g1 c _ h1 h2) rfl
  have lit_no : ∀ (s : List Char) (c : Char) (t' : List Char), isWs c = false → c ≠ '#' →
      stripPrefix s (c :: t') = none →
      No pil_env 1 {} (.lit s) { rest := List.replicate g1 ' ' ++ (c :: t'), past := false } := by
    intro s c t' h1 h2 h3
    exact No_lit pil_env {} s _ (by rw [pre_skip, skipIgn_blanks_cons g1 c t' h1 h2]; exact h3)
  have hRn : stripPrefix ['n', 'i', 't', 'i', 'a', 'l'] R = none := by
    cases R with
    | nil => rfl
    | cons x t => have := (hRhd x rfl).1; simp [stripPrefix, Ne.symm this]
  have hRo : stripPrefix ['o', 'n', 's', 't', 'a', 'n', 't'] R = none := by
    cases R with
    | nil => rfl
    | cons x t => have := (hRhd x rfl).2; simp [stripPrefix, Ne.symm this]
  rcases hmode with rfl | rfl | rfl | rfl
  · have hmd := Ok_alt (OkAlt_head (gs := [.lit ['i']])
      (lit_ok ['i', 'n', 'i', 't', 'i', 'a', 'l'] 'i' _ rfl (by decide) (by decide)))
    exact (Ok_alt (OkAlt_head (asm _ _ _ hmd))).mono (by decide)
  · have n1 := lit_no ['i', 'n', 'i', 't', 'i', 'a', 'l'] 'i' R (by decide) (by decide) (by simp [stripPrefix, hRn])
    have o1 := lit_ok ['i'] 'i' _ rfl (by decide) (by decide)
    have hmd := Ok_alt (OkAlt_tail n1 (OkAlt_head (gs := []) o1))
    exact (Ok_alt (OkAlt_head (asm _ _ _ hmd))).mono (by decide)
  · have n1 := lit_no ['i', 'n', 'i', 't', 'i', 'a', 'l'] 'c' (['o', 'n', 's', 't', 'a', 'n', 't'] ++ R)
      (by decide) (by decide) (by simp [stripPrefix])
    have n2 := lit_no ['i'] 'c' (['o', 'n', 's', 't', 'a', 'n', 't'] ++ R) (by decide) (by decide)
      (by simp [stripPrefix])
    have g1' := No_group (No_seq (NoSeq_tail hat (NoSeq_head (gs := [pil_gorf, pil_cunit])
      (No_alt (NoAlt_cons n1 (NoAlt_cons n2 (NoAlt_nil pil_env _ _)))))))
    have hmd := Ok_alt (OkAlt_head (gs := [.lit ['c']])
      (lit_ok ['c', 'o', 'n', 's', 't', 'a', 'n', 't'] 'c' _ rfl (by decide) (by decide)))
    exact (Ok_alt (OkAlt_tail g1' (OkAlt_head (asm _ _ _ hmd)))).mono (by decide)
  · have n1 := lit_no ['i', 'n', 'i', 't', 'i', 'a', 'l'] 'c' R (by decide) (by decide) (by simp [stripPrefix])
    have n2 := lit_no ['i'] 'c' R (by decide) (by decide) (by simp [stripPrefix])
    have g1' := No_group (No_seq (NoSeq_tail hat (NoSeq_head (gs := [pil_gorf, pil_cunit])
      (No_alt (NoAlt_cons n1 (NoAlt_cons n2 (NoAlt_nil pil_env _ _)))))))
    have n3 := lit_no ['c', 'o', 'n', 's', 't', 'a', 'n', 't'] 'c' R (by decide) (by decide)
      (by simp [stripPrefix, hRo])
    have o1 := lit_ok ['c'] 'c' _ rfl (by decide) (by decide)
    have hmd := Ok_alt (OkAlt_tail n3 (OkAlt_head (gs := []) o1))
    exact (Ok_alt (OkAlt_tail g1' (OkAlt_head (asm _ _ _ hmd)))).mono (by decide)

theorem TailOK_concW (g0 : Nat) (mode : List Char) (g1 g2 : Nat) (value : Num) (g3 : Nat) (unit X : List Char) :
    TailOK (concTextW g0 mode g1 g2 value g3 unit X) := by
  unfold concTextW
  refine TailOK.of_cons _ ?_ '@' _ (skipIgn_blanks_cons g0 '@' _ (by decide) (by decide))
    (punct_facts '@' (by decide)).1 (by decide)
  exact OutHd_blanks _ g0 _ ⟨outside_facts ' ' (by decide), by decide, by decide, by decide⟩
    (OutHd_cons _ _ _ ⟨(punct_facts '@' (by decide)).1, by decide, by decide, by decide⟩)

/-- `name = <pattern> @ mode value unit` with any gaps, in front of a tail -/
theorem kernel_concW_stmt_tail (nc : Char) (m : List Char) (a : Nat) (LW : List EntW) (toks : List Tree)
    (g0 : Nat) (mode : List Char) (g1 g2 : Nat) (value : Num) (g3 : Nat) (unit X : List Char) (NE : Nat) (p : Pos)
    (hnc : nc ∈ identChars) (hm : ∀ x ∈ m, x ∈ identChars) (hL : LW ≠ [])
    (hleg : ∀ e ∈ LW, LegalEnt e.1) (hp : pItems (2 * LW.length + 1) (LW.map (·.1)) = some (toks, []))
    (hmode : IsMode mode) (hv : value.OK) (hu : IsCunit unit)
    (heol : Ok pil_env NE {} eolG { rest := X, past := false } (p, [])) :
    Ok pil_env (max (8 * LW.length + 80) (NE + 30)) {} pil_stmt
      { rest := kernelTextW nc m a LW (concTextW g0 mode g1 g2 value g3 unit X), past := false }
      (p, [.grp [.tok "kernel-complex", .tok (String.ofList (nc :: m)), .grp toks,
        .grp [.tok (String.ofList mode), .tok (String.ofList value.text), .tok (String.ofList unit)]]]) := by
  obtain ⟨h1, h2, h3⟩ := cplx_headW nc m a LW toks _ hnc hm hL hleg hp (TailOK_concW g0 mode g1 g2 value g3 unit X)
  have h4 := Ok_opt_some (Ok_concW g0 mode g1 g2 value g3 unit X hmode hv hu)
  have hc : Ok pil_env (max (8 * LW.length + 70) (NE + 10)) {} pil_cplx
      { rest := kernelTextW nc m a LW (concTextW g0 mode g1 g2 value g3 unit X), past := false }
      (p, [.grp [.tok "kernel-complex", .tok (String.ofList (nc :: m)), .grp toks,
        .grp [.tok (String.ofList mode), .tok (String.ofList value.text), .tok (String.ofList unit)]]]) := by
    unfold pil_cplx
    have := Ok_group (Ok_tag (t := "kernel-complex") (Ok_seq (OkSeq_cons h1 (OkSeq_cons h2 (OkSeq_cons h3
      (OkSeq_cons h4 (OkSeq_cons heol (OkSeq_nil pil_env _ _))))))))
    simp only [List.nil_append, List.append_nil, List.cons_append] at this
    exact this.mono (by omega)
  have hform : kernelTextW nc m a LW (concTextW g0 mode g1 g2 value g3 unit X) =
      nc :: (m ++ (' ' :: (List.replicate a ' ' ++ '=' :: (spW LW ++ concTextW g0 mode g1 g2 value g3 unit X)))) := by
    simp [kernelTextW, List.replicate_succ]
  rw [hform] at hc ⊢
  exact (stmt_before_cplxW nc m _ _ hnc hm (skipIgn_eqW a _) _ _
    (OkAlt_head (gs := [pil_restingset]) hc)).mono (by omega)

end Dsd.Pil
