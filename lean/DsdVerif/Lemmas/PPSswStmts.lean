/-
The seesaw statement kinds in front of an arbitrary continuation (C19): the `*_rest` forms of the statement-level
lemmas of PPSsw / PPSswMore, as needed for documents of several statements.
-/
import DsdVerif.Lemmas.PPSswMore

namespace Dsd.PP.Ssw
open Dsd.PP Dsd.Gen

variable {env : Env}

/-- INPUT with any name form and any wire form -/
theorem inp_rest (n : List Char)
    (hname : ∀ r, Ev env sk nameG (P (n ++ ')' :: r)) (some (P (')' :: r), [.grp [numT n]])) 5)
    (k1 : Nat) (T rest : List Char) (wt : Tree) (hwire : Ev env sk ssw_wire (P T) (some (P rest, [wt])) 14) :
    Ev env sk (.alt bodyAlts)
      (P ('I' :: 'N' :: 'P' :: 'U' :: 'T' :: '(' :: (n ++ ')' :: (bl k1 ++ '=' :: T))))
      (some (P rest, [.tok "INPUT", .grp [numT n], wt])) 30 := by
  unfold bodyAlts
  apply Ev.cast
  · apply ev_alt; apply eva_ok
    unfold ssw_inp
    apply ev_seq
    apply evs_cons (ev_lit0 'I' ['N', 'P', 'U', 'T'] _ (by decide) (by decide))
    apply evs_cons (ev_suppress (ev_lit0 '(' [] _ (by decide) (by decide)))
    apply evs_cons (hname _)
    apply evs_cons (ev_suppress (ev_lit0 ')' [] _ (by decide) (by decide)))
    apply evs_cons (ev_suppress (ev_lit k1 '=' [] _ (by decide) (by decide)))
    apply evs_cons hwire
    exact evs_nil
  · rfl
  · decide

/-- OUTPUT with any name form and any value form -/
theorem out_rest (n : List Char)
    (hname : ∀ r, Ev env sk nameG (P (n ++ ')' :: r)) (some (P (')' :: r), [.grp [numT n]])) 5)
    (k1 : Nat) (T rest : List Char) (vt : Tree)
    (hval : Ev env sk (.alt [ssw_fluor, ssw_wire]) (P T) (some (P rest, [vt])) 20) :
    Ev env sk (.alt bodyAlts)
      (P ('O' :: 'U' :: 'T' :: 'P' :: 'U' :: 'T' :: '(' :: (n ++ ')' :: (bl k1 ++ '=' :: T))))
      (some (P rest, [.tok "OUTPUT", .grp [numT n], vt])) 40 := by
  unfold bodyAlts
  apply Ev.cast
  · apply ev_alt
    apply eva_skip (g := ssw_inp) (by fh)
    apply eva_ok
    unfold ssw_out
    apply ev_seq
    apply evs_cons (ev_lit0 'O' ['U', 'T', 'P', 'U', 'T'] _ (by decide) (by decide))
    apply evs_cons (ev_suppress (ev_lit0 '(' [] _ (by decide) (by decide)))
    apply evs_cons (hname _)
    apply evs_cons (ev_suppress (ev_lit0 ')' [] _ (by decide) (by decide)))
    apply evs_cons (ev_suppress (ev_lit k1 '=' [] _ (by decide) (by decide)))
    apply evs_cons hval
    exact evs_nil
  · rfl
  · decide

/-- the value of an OUTPUT: a fluorophore -/
theorem ev_outval_fluor (k : Nat) (f : List Char) (hf : Dig f) (rest : List Char) :
    Ev env sk (.alt [ssw_fluor, ssw_wire]) (P (bl k ++ ('F' :: 'l' :: 'u' :: 'o' :: 'r' :: '[' :: (f ++ ']' :: rest))))
      (some (P rest, [.grp [.tok "Fluor", numT f]])) 20 :=
  (ev_alt (eva_ok (ev_fluor k f hf rest))).cast rfl (by decide)

theorem seesaw_rest (n i0 o0 : List Char) (is os : List (List Char)) (hn : Dig n) (hi0 : Dig i0) (ho0 : Dig o0)
    (his : ∀ y ∈ is, Dig y) (hos : ∀ y ∈ os, Dig y) (k1 k2 : Nat) (rest : List Char) :
    Ev env sk (.alt bodyAlts)
      (P ('s' :: 'e' :: 'e' :: 's' :: 'a' :: 'w' :: '[' ::
        (n ++ ',' :: (bl k1 ++ '{' :: (i0 ++ (tailR is ++ '}' :: ',' :: (bl k2 ++ '{' :: (o0 ++ (tailR os ++
          '}' :: ']' :: rest)))))))))
      (some (P rest, [.tok "seesaw", .grp [numT n, .grp ((i0 :: is).map numT), .grp ((o0 :: os).map numT)]]))
      (is.length + os.length + 40) := by
  unfold bodyAlts
  apply Ev.cast
  · apply ev_alt
    apply eva_skip (g := ssw_inp) (by fh)
    apply eva_skip (g := ssw_out) (by fh)
    apply eva_ok
    unfold ssw_seesaw
    apply ev_seq
    apply evs_cons (ev_lit0 's' ['e', 'e', 's', 'a', 'w'] _ (by decide) (by decide))
    apply evs_cons (ev_suppress (ev_lit0 '[' [] _ (by decide) (by decide)))
    apply evs_cons
    · apply ev_group; apply ev_seq
      apply evs_cons (ev_number0 n hn ',' _ (by decide))
      apply evs_cons (ev_suppress (ev_lit0 ',' [] _ (by decide) (by decide)))
      apply evs_cons (ev_inputs k1 i0 is hi0 his _)
      apply evs_cons (ev_suppress (ev_lit0 ',' [] _ (by decide) (by decide)))
      apply evs_cons (ev_outputs k2 o0 os ho0 hos _)
      exact evs_nil
    apply evs_cons (ev_suppress (ev_lit0 ']' [] _ (by decide) (by decide)))
    exact evs_nil
  · rfl
  · omega

theorem inputfanout_rest (a b x0 : List Char) (xs : List (List Char)) (ha : Dig a) (hb : Dig b) (h0 : Dig x0)
    (hxs : ∀ y ∈ xs, Dig y) (k1 k2 : Nat) (rest : List Char) :
    Ev env sk (.alt bodyAlts)
      (P ('i' :: 'n' :: 'p' :: 'u' :: 't' :: 'f' :: 'a' :: 'n' :: 'o' :: 'u' :: 't' :: '[' ::
        (a ++ ',' :: (bl k1 ++ (b ++ ',' :: (bl k2 ++ '{' :: (x0 ++ (tailR xs ++ '}' :: ']' :: rest))))))))
      (some (P rest, [.tok "inputfanout", .grp [numT a, numT b, .grp ((x0 :: xs).map numT)]]))
      (xs.length + 40) := by
  unfold bodyAlts
  apply Ev.cast
  · apply ev_alt
    apply eva_skip (g := ssw_inp) (by fh)
    apply eva_skip (g := ssw_out) (by fh)
    apply eva_skip (g := ssw_seesaw) (by fh)
    apply eva_skip (g := ssw_wireconc) (by fh)
    apply eva_skip (g := ssw_outpconc) (by fh)
    apply eva_skip (g := ssw_thshconc) (by fh)
    apply eva_ok
    unfold ssw_macros
    apply ev_alt
    apply eva_skip (g := ssw_reporter) (by fh)
    apply eva_ok
    unfold ssw_inputfanout
    apply ev_seq
    apply evs_cons (ev_lit0 'i' ['n', 'p', 'u', 't', 'f', 'a', 'n', 'o', 'u', 't'] _ (by decide) (by decide))
    apply evs_cons (ev_suppress (ev_lit0 '[' [] _ (by decide) (by decide)))
    apply evs_cons
    · apply ev_group; apply ev_seq
      apply evs_cons (ev_number0 a ha ',' _ (by decide))
      apply evs_cons (ev_suppress (ev_lit0 ',' [] _ (by decide) (by decide)))
      apply evs_cons (ev_number k1 b hb ',' _ (by decide))
      apply evs_cons (ev_suppress (ev_lit0 ',' [] _ (by decide) (by decide)))
      apply evs_cons (ev_inputs k2 x0 xs h0 hxs _)
      exact evs_nil
    apply evs_cons (ev_suppress (ev_lit0 ']' [] _ (by decide) (by decide)))
    exact evs_nil
  · rfl
  · omega

/-! ### concentration statements -/

/-- `conc[wire, …]`: the first of the three `conc[` alternatives -/
theorem wireconc_body (T C rest : List Char) (tx tc : List Tree) (bx bc : Nat)
    (hX : Ev env sk ssw_wire (P T) (some (P (',' :: C), tx)) bx)
    (hconc : Ev env sk ssw_conc (P C) (some (P (']' :: rest), tc)) bc) :
    Ev env sk (.alt bodyAlts) (P ('c' :: 'o' :: 'n' :: 'c' :: '[' :: T)) (some (P rest, .tok "conc" :: (tx ++ tc)))
      (bx + bc + 20) := by
  have hok : Ev env sk ssw_wireconc _ _ _ := concG_ok ssw_wire T C rest tx tc bx bc hX hconc
  unfold bodyAlts
  apply Ev.cast
  · apply ev_alt
    apply eva_skip (g := ssw_inp) (by fh)
    apply eva_skip (g := ssw_out) (by fh)
    apply eva_skip (g := ssw_seesaw) (by fh)
    apply eva_ok
    exact hok
  · rfl
  · omega

/-- `conc[gate, …]`: the wire alternative fails first -/
theorem outpconc_body (T C rest : List Char) (tx tc : List Tree) (bx bc bw : Nat)
    (hwf : Ev env sk ssw_wire (P T) none bw)
    (hX : Ev env sk (.alt [ssw_gateO, ssw_gateI]) (P T) (some (P (',' :: C), tx)) bx)
    (hconc : Ev env sk ssw_conc (P C) (some (P (']' :: rest), tc)) bc) :
    Ev env sk (.alt bodyAlts) (P ('c' :: 'o' :: 'n' :: 'c' :: '[' :: T)) (some (P rest, .tok "conc" :: (tx ++ tc)))
      (bx + bc + bw + 20) := by
  have hok : Ev env sk ssw_outpconc _ _ _ := concG_ok _ T C rest tx tc bx bc hX hconc
  have hwf' : Ev env sk ssw_wireconc _ none _ := concG_fail ssw_wire T bw hwf
  unfold bodyAlts
  apply Ev.cast
  · apply ev_alt
    apply eva_skip (g := ssw_inp) (by fh)
    apply eva_skip (g := ssw_out) (by fh)
    apply eva_skip (g := ssw_seesaw) (by fh)
    apply eva_skip hwf'
    apply eva_ok
    exact hok
  · rfl
  · omega

/-- `conc[threshold, …]`: the wire and gate alternatives fail first -/
theorem thshconc_body (T C rest : List Char) (tx tc : List Tree) (bx bc bw bg : Nat)
    (hwf : Ev env sk ssw_wire (P T) none bw)
    (hgf : Ev env sk (.alt [ssw_gateO, ssw_gateI]) (P T) none bg)
    (hX : Ev env sk (.alt [ssw_thshO, ssw_thshI]) (P T) (some (P (',' :: C), tx)) bx)
    (hconc : Ev env sk ssw_conc (P C) (some (P (']' :: rest), tc)) bc) :
    Ev env sk (.alt bodyAlts) (P ('c' :: 'o' :: 'n' :: 'c' :: '[' :: T)) (some (P rest, .tok "conc" :: (tx ++ tc)))
      (bx + bc + bw + bg + 20) := by
  have hok : Ev env sk ssw_thshconc _ _ _ := concG_ok _ T C rest tx tc bx bc hX hconc
  have hwf' : Ev env sk ssw_wireconc _ none _ := concG_fail ssw_wire T bw hwf
  have hgf' : Ev env sk ssw_outpconc _ none _ := concG_fail _ T bg hgf
  unfold bodyAlts
  apply Ev.cast
  · apply ev_alt
    apply eva_skip (g := ssw_inp) (by fh)
    apply eva_skip (g := ssw_out) (by fh)
    apply eva_skip (g := ssw_seesaw) (by fh)
    apply eva_skip hwf'
    apply eva_skip hgf'
    apply eva_ok
    exact hok
  · rfl
  · omega

theorem wireconc_rest (a b v : List Char) (ha : Dig a) (hb : Dig b) (hv : Dig v) (k3 k : Nat) (rest : List Char) :
    Ev env sk (.alt bodyAlts)
      (P ('c' :: 'o' :: 'n' :: 'c' :: '[' :: 'w' :: '[' :: (a ++ ',' :: (bl k3 ++ (b ++ ']' :: ',' ::
        (bl k ++ (v ++ '*' :: 'c' :: ']' :: rest)))))))
      (some (P rest, [.tok "conc", wireT a b, numT v])) 60 :=
  (wireconc_body _ _ rest _ _ _ _
    (ev_wire 0 k3 a b ha hb (',' :: (bl k ++ (v ++ '*' :: 'c' :: ']' :: rest))))
    (ev_conc k v hv (']' :: rest))).cast rfl (by decide)

theorem wireconc_dec_rest (a b v w : List Char) (ha : Dig a) (hb : Dig b) (hv : Dig v) (hw : Dig w) (k3 k : Nat)
    (rest : List Char) :
    Ev env sk (.alt bodyAlts)
      (P ('c' :: 'o' :: 'n' :: 'c' :: '[' :: 'w' :: '[' :: (a ++ ',' :: (bl k3 ++ (b ++ ']' :: ',' ::
        (bl k ++ (v ++ '.' :: (w ++ '*' :: 'c' :: ']' :: rest))))))))
      (some (P rest, [.tok "conc", wireT a b, numT (v ++ '.' :: w)])) 60 :=
  (wireconc_body _ _ rest _ _ _ _
    (ev_wire 0 k3 a b ha hb (',' :: (bl k ++ (v ++ '.' :: (w ++ '*' :: 'c' :: ']' :: rest)))))
    (ev_conc_of_gorf _ (']' :: rest) _ _
      (ev_gorf_dec k v w hv hw '*' ('c' :: ']' :: rest) (by decide) (by decide)))).cast rfl (by decide)

theorem gateO_conc_rest (a b n v : List Char) (ha : Dig a) (hb : Dig b) (hn : Dig n) (hv : Dig v) (k3 k4 k5 : Nat)
    (rest : List Char) :
    Ev env sk (.alt bodyAlts)
      (P ('c' :: 'o' :: 'n' :: 'c' :: '[' :: 'g' :: '[' :: 'w' :: '[' :: (a ++ ',' :: (bl k3 ++ (b ++ ']' :: ',' ::
        (bl k4 ++ (n ++ ']' :: ',' :: (bl k5 ++ (v ++ '*' :: 'c' :: ']' :: rest)))))))))
      (some (P rest, [.tok "conc", .grp [.tok "g", .grp [wireT a b, numT n]], numT v])) 80 := by
  have hgate := gateG_ok (env := env) 'g' [] (by decide) (by decide) ssw_wire ssw_number _ _ _ _ _ _ _
    (ev_wire 0 k3 a b ha hb (',' :: (bl k4 ++ (n ++ ']' :: ',' :: (bl k5 ++ (v ++ '*' :: 'c' :: ']' :: rest))))))
    (ev_number k4 n hn ']' _ (by decide))
  have hX : Ev env sk (.alt [ssw_gateO, ssw_gateI]) _ _ _ := ev_alt (eva_ok (g := ssw_gateO) hgate)
  exact (outpconc_body _ _ rest _ _ _ _ _ (ev_wire_fail0 'g' _ (by decide) (by decide) (by decide)) hX
    (ev_conc k5 v hv (']' :: rest))).cast rfl (by decide)

theorem gateI_conc_rest (a b n v : List Char) (ha : Dig a) (hb : Dig b) (hn : Dig n) (hv : Dig v) (k3 k4 k5 : Nat)
    (rest : List Char) :
    Ev env sk (.alt bodyAlts)
      (P ('c' :: 'o' :: 'n' :: 'c' :: '[' :: 'g' :: '[' :: (n ++ ',' :: (bl k4 ++ ('w' :: '[' :: (a ++ ',' ::
        (bl k3 ++ (b ++ ']' :: ']' :: ',' :: (bl k5 ++ (v ++ '*' :: 'c' :: ']' :: rest))))))))))
      (some (P rest, [.tok "conc", .grp [.tok "g", .grp [numT n, wireT a b]], numT v])) 80 := by
  have hO := gateG_fail_A (env := env) 'g' [] (by decide) (by decide) ssw_wire ssw_number _ _
    (ev_wire_fail_dig n hn (',' :: (bl k4 ++ ('w' :: '[' :: (a ++ ',' ::
        (bl k3 ++ (b ++ ']' :: ']' :: ',' :: (bl k5 ++ (v ++ '*' :: 'c' :: ']' :: rest)))))))))
  have hI := gateG_ok (env := env) 'g' [] (by decide) (by decide) ssw_number ssw_wire _ _ _ _ _ _ _
    (ev_number0 n hn ',' _ (by decide))
    (ev_wire k4 k3 a b ha hb (']' :: ',' :: (bl k5 ++ (v ++ '*' :: 'c' :: ']' :: rest))))
  have hX : Ev env sk (.alt [ssw_gateO, ssw_gateI]) _ _ _ :=
    ev_alt (eva_skip (g := ssw_gateO) hO (eva_ok (g := ssw_gateI) hI))
  exact (outpconc_body _ _ rest _ _ _ _ _ (ev_wire_fail0 'g' _ (by decide) (by decide) (by decide)) hX
    (ev_conc k5 v hv (']' :: rest))).cast rfl (by decide)

theorem thO_conc_rest (a b n v : List Char) (ha : Dig a) (hb : Dig b) (hn : Dig n) (hv : Dig v) (k3 k4 k5 : Nat)
    (rest : List Char) :
    Ev env sk (.alt bodyAlts)
      (P ('c' :: 'o' :: 'n' :: 'c' :: '[' :: 't' :: 'h' :: '[' :: 'w' :: '[' :: (a ++ ',' :: (bl k3 ++ (b ++ ']' ::
        ',' :: (bl k4 ++ (n ++ ']' :: ',' :: (bl k5 ++ (v ++ '*' :: 'c' :: ']' :: rest)))))))))
      (some (P rest, [.tok "conc", .grp [.tok "th", .grp [wireT a b, numT n]], numT v])) 80 := by
  have hgate := gateG_ok (env := env) 't' ['h'] (by decide) (by decide) ssw_wire ssw_number _ _ _ _ _ _ _
    (ev_wire 0 k3 a b ha hb (',' :: (bl k4 ++ (n ++ ']' :: ',' :: (bl k5 ++ (v ++ '*' :: 'c' :: ']' :: rest))))))
    (ev_number k4 n hn ']' _ (by decide))
  have hX : Ev env sk (.alt [ssw_thshO, ssw_thshI]) _ _ _ := ev_alt (eva_ok (g := ssw_thshO) hgate)
  exact (thshconc_body _ _ rest _ _ _ _ _ _ (ev_wire_fail0 't' _ (by decide) (by decide) (by decide))
    (ev_alt (eva_skip (g := ssw_gateO)
      (gateG_fail_head 'g' 't' [] ssw_wire ssw_number _ (by decide) (by decide) (by decide))
      (eva_skip (g := ssw_gateI)
        (gateG_fail_head 'g' 't' [] ssw_number ssw_wire _ (by decide) (by decide) (by decide)) eva_nil)))
    hX (ev_conc k5 v hv (']' :: rest))).cast rfl (by decide)

/-! ### the two-list macros -/

theorem seesawOR_rest (a b x0 y0 : List Char) (xs ys : List (List Char)) (ha : Dig a) (hb : Dig b) (hx0 : Dig x0)
    (hy0 : Dig y0) (hxs : ∀ y ∈ xs, Dig y) (hys : ∀ y ∈ ys, Dig y) (k1 k2 k3 : Nat) (rest : List Char) :
    Ev env sk (.alt bodyAlts)
      (P ('s' :: 'e' :: 'e' :: 's' :: 'a' :: 'w' :: 'O' :: 'R' :: '[' :: (a ++ ',' :: (bl k1 ++ (b ++ ',' ::
        (bl k2 ++ '{' :: (x0 ++ (tailR xs ++ '}' :: ',' :: (bl k3 ++ '{' :: (y0 ++ (tailR ys ++
          '}' :: ']' :: rest)))))))))))
      (some (P rest, [.tok "seesawOR",
        .grp [numT a, numT b, .grp ((x0 :: xs).map numT), .grp ((y0 :: ys).map numT)]]))
      (xs.length + ys.length + 60) := by
  have hok := twoList_ok (env := env) 's' ['e', 'e', 's', 'a', 'w', 'O', 'R'] (by decide) (by decide)
    a b x0 y0 xs ys ha hb hx0 hy0 hxs hys k1 k2 k3 rest
  unfold bodyAlts
  apply Ev.cast
  · apply ev_alt
    apply eva_skip (g := ssw_inp) (by fh)
    apply eva_skip (g := ssw_out) (by fh)
    apply eva_skip (seesaw_fail_suffix 'O' _ (by decide) (by decide) (by decide))
    apply eva_skip (g := ssw_wireconc) (by fh)
    apply eva_skip (g := ssw_outpconc) (by fh)
    apply eva_skip (g := ssw_thshconc) (by fh)
    apply eva_ok
    unfold ssw_macros
    apply ev_alt
    apply eva_skip (g := ssw_reporter) (by fh)
    apply eva_skip (g := ssw_inputfanout) (by fh)
    apply eva_ok (g := ssw_seesawOR)
    exact hok
  · rfl
  · omega

theorem seesawAND_rest (a b x0 y0 : List Char) (xs ys : List (List Char)) (ha : Dig a) (hb : Dig b) (hx0 : Dig x0)
    (hy0 : Dig y0) (hxs : ∀ y ∈ xs, Dig y) (hys : ∀ y ∈ ys, Dig y) (k1 k2 k3 : Nat) (rest : List Char) :
    Ev env sk (.alt bodyAlts)
      (P ('s' :: 'e' :: 'e' :: 's' :: 'a' :: 'w' :: 'A' :: 'N' :: 'D' :: '[' :: (a ++ ',' :: (bl k1 ++ (b ++ ',' ::
        (bl k2 ++ '{' :: (x0 ++ (tailR xs ++ '}' :: ',' :: (bl k3 ++ '{' :: (y0 ++ (tailR ys ++
          '}' :: ']' :: rest)))))))))))
      (some (P rest, [.tok "seesawAND",
        .grp [numT a, numT b, .grp ((x0 :: xs).map numT), .grp ((y0 :: ys).map numT)]]))
      (xs.length + ys.length + 60) := by
  have hok := twoList_ok (env := env) 's' ['e', 'e', 's', 'a', 'w', 'A', 'N', 'D'] (by decide) (by decide)
    a b x0 y0 xs ys ha hb hx0 hy0 hxs hys k1 k2 k3 rest
  unfold bodyAlts
  apply Ev.cast
  · apply ev_alt
    apply eva_skip (g := ssw_inp) (by fh)
    apply eva_skip (g := ssw_out) (by fh)
    apply eva_skip (seesaw_fail_suffix 'A' _ (by decide) (by decide) (by decide))
    apply eva_skip (g := ssw_wireconc) (by fh)
    apply eva_skip (g := ssw_outpconc) (by fh)
    apply eva_skip (g := ssw_thshconc) (by fh)
    apply eva_ok
    unfold ssw_macros
    apply ev_alt
    apply eva_skip (g := ssw_reporter) (by fh)
    apply eva_skip (g := ssw_inputfanout) (by fh)
    apply eva_skip (g := ssw_seesawOR) (fail_strip _ _ 's' _ (by decide) (by decide) rfl)
    apply eva_ok (g := ssw_seesawAND)
    exact hok
  · rfl
  · omega

end Dsd.PP.Ssw
