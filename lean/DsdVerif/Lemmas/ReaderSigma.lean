/-
End-to-end reading of declared systems (C14, "sigma" theorems), part 1: explicit worlds.

A world that contains only domains (class `cd`) and strands (class `cs`) is described by its parameters; domain
requests, inversions and collections on such worlds are computed explicitly.
-/
import DsdVerif.Lemmas.Reader
import DsdVerif.Lemmas.DomainNames

namespace Dsd.Sig
open Dsd Dsd.PP Dsd.RState

/-- parameters of a world holding only domains of class `cd` and strands of class `cs` -/
structure DW where
  cd : Nat
  cs : Nat
  dobjs : List (Obj DKey) := []
  sobjs : List (Obj CKey) := []
  nodes : List Node := []
  held : List Nat := []
  next : Nat := 0

def baseDoms : List (ClassReg DKey) := ({} : World).doms
def baseStrands : List (ClassReg CKey) := ({} : World).strands

def setObjs {κ} (cs : List (ClassReg κ)) (c : Nat) (objs : List (Obj κ)) : List (ClassReg κ) :=
  match cs[c]? with
  | some cr => cs.set c { cr with reg := { objs := objs, autoId := 1 } }
  | none => cs

def DW.world (p : DW) : World :=
  { ({} : World) with
    doms := setObjs baseDoms p.cd p.dobjs, strands := setObjs baseStrands p.cs p.sobjs,
    nodes := p.nodes, held := p.held, nextId := p.next }

theorem world_empty (cd cs : Nat) (h1 : cd < 4) (h2 : cs < 4) : ({ cd := cd, cs := cs } : DW).world = {} := by
  have h : ∀ c, c < 4 → setObjs baseDoms c [] = baseDoms ∧ setObjs baseStrands c [] = baseStrands := by
    intro c hc
    have : c = 0 ∨ c = 1 ∨ c = 2 ∨ c = 3 := by omega
    rcases this with rfl | rfl | rfl | rfl <;> exact ⟨rfl, rfl⟩
  unfold DW.world
  simp only [(h cd h1).1, (h cs h2).2]
  rfl

theorem setObjs_get {κ} (cs : List (ClassReg κ)) (c : Nat) (objs : List (Obj κ)) (cr : ClassReg κ)
    (h : cs[c]? = some cr) : (setObjs cs c objs)[c]? = some { cr with reg := { objs := objs, autoId := 1 } } := by
  have hlt : c < cs.length := (List.getElem?_eq_some_iff.mp h).1
  unfold setObjs
  rw [h]
  simp only
  rw [List.getElem?_set_self hlt]

theorem baseDoms_get (c : Nat) (hc : c < 4) : ∃ cr, baseDoms[c]? = some cr ∧ cr.reg = {} := by
  have : c = 0 ∨ c = 1 ∨ c = 2 ∨ c = 3 := by omega
  rcases this with rfl | rfl | rfl | rfl <;> exact ⟨_, rfl, rfl⟩

theorem baseStrands_get (c : Nat) (hc : c < 4) : ∃ cr, baseStrands[c]? = some cr ∧ cr.reg = {} := by
  have : c = 0 ∨ c = 1 ∨ c = 2 ∨ c = 3 := by omega
  rcases this with rfl | rfl | rfl | rfl <;> exact ⟨_, rfl, rfl⟩

/-- the inherited `ID` counter is 1 in every class of such a world -/
theorem effId_doms (c : Nat) (hc : c < 4) (objs : List (Obj DKey)) :
    World.effId (setObjs baseDoms c objs) 5 c = 1 := by
  have : c = 0 ∨ c = 1 ∨ c = 2 ∨ c = 3 := by omega
  rcases this with rfl | rfl | rfl | rfl <;> rfl

theorem effId_strands (c : Nat) (hc : c < 4) (objs : List (Obj CKey)) :
    World.effId (setObjs baseStrands c objs) 5 c = 1 := by
  have : c = 0 ∨ c = 1 ∨ c = 2 ∨ c = 3 := by omega
  rcases this with rfl | rfl | rfl | rfl <;> rfl

/-! ### requests on explicit worlds -/

/-- a request for an unbound name whose complement (if live) has the same length creates the object -/
theorem domainRequest_create (cfg : DomCfg) (r : Reg DKey) (fresh : Nat) (n : String) (l : Nat) (hn : n ≠ "")
    (h1 : r.findName n = none) (h2 : r.findCanon (n, l) = none)
    (h3 : ∀ o, r.findName (cnameOf n) = some o → o.canon.2 = l) :
    domainRequest cfg r fresh { name := some n, length := some l } =
      (r.register { id := fresh, name := n, canon := (n, l), keys := [(n, l)] } false, .ret fresh true) := by
  rw [DomL.domainRequest_eq]
  have he : DomL.effName cfg r { name := some n, length := some l } = n := rfl
  have hlen : DomL.lengthOf cfg { name := some n, length := some l } = .ok (some l) := rfl
  have hemp : n.isEmpty = false := by simpa using hn
  rw [he, hlen]
  simp only [hemp, Bool.false_eq_true, if_false]
  unfold DomL.domTail
  simp only
  cases hp : r.findName (cnameOf n) with
  | none => simp [Reg.call, Reg.decide, h1, h2]
  | some o =>
    simp only [ne_eq, h3 o hp, not_true_eq_false, if_false]
    simp [Reg.call, Reg.decide, h1, h2]

theorem findName_none_of {κ} (r : Reg κ) (n : String) (h : ∀ o ∈ r.objs, o.name ≠ n) : r.findName n = none := by
  unfold Reg.findName
  rw [List.find?_eq_none]
  intro o ho; simpa using h o ho

theorem findCanon_none_of {κ} [DecidableEq κ] (r : Reg κ) (k : κ) (h : ∀ o ∈ r.objs, k ∉ o.keys) :
    r.findCanon k = none := by
  unfold Reg.findCanon
  rw [List.find?_eq_none]
  intro o ho; simpa using h o ho

/-- a new domain -/
def newDom (id : Nat) (n : String) (l : Nat) : Obj DKey := { id := id, name := n, canon := (n, l), keys := [(n, l)] }

def domNode (id c : Nat) : Node := { id := id, kind := .dom, cls := c, children := [] }

def DW.addDom (p : DW) (n : String) (l : Nat) : DW :=
  { p with dobjs := p.dobjs ++ [newDom p.next n l], nodes := p.nodes ++ [domNode p.next p.cd],
           held := if p.held.contains p.next then p.held else p.held ++ [p.next], next := p.next + 1 }

theorem setObjs_upd (c : Nat) (hc : c < 4) (objs objs' : List (Obj DKey)) (cr : ClassReg DKey)
    (hcr : (setObjs baseDoms c objs)[c]? = some cr) :
    ReaderL.updCls (setObjs baseDoms c objs) c cr 1 { objs := objs', autoId := 1 } = setObjs baseDoms c objs' := by
  obtain ⟨cr0, h0, _⟩ := baseDoms_get c hc
  rw [setObjs_get baseDoms c objs cr0 h0] at hcr
  cases hcr
  unfold ReaderL.updCls setObjs
  rw [h0]
  simp only [List.set_set, bne_self_eq_false, Bool.or_false]

/-- **creating a domain in an explicit world** -/
theorem mkDom_DW (p : DW) (hcd : p.cd < 4) (n : String) (l : Nat) (hn : n ≠ "")
    (h1 : ∀ o ∈ p.dobjs, o.name ≠ n) (h2 : ∀ o ∈ p.dobjs, (n, l) ∉ o.keys)
    (h3 : ∀ o ∈ p.dobjs, o.name = cnameOf n → o.canon.2 = l) :
    p.world.mkDom p.cd { name := some n, length := some l } = ((p.addDom n l).world, .ret p.next true) := by
  obtain ⟨cr0, h0, _⟩ := baseDoms_get p.cd hcd
  have hget := setObjs_get baseDoms p.cd p.dobjs cr0 h0
  have hdoms : p.world.doms = setObjs baseDoms p.cd p.dobjs := rfl
  rw [ReaderL.mkDom_eq, ReaderL.withClass_some _ _ _ _ (by rw [hdoms]; exact hget)]
  simp only [hdoms, effId_doms p.cd hcd]
  have hreq := domainRequest_create
    { ((p.world.cfg[p.cd]?).getD {}) with prefix_ := World.effPrefix (setObjs baseDoms p.cd p.dobjs) 5 p.cd }
    { objs := p.dobjs, autoId := 1 } p.world.nextId n l hn
    (findName_none_of _ n h1) (findCanon_none_of _ _ h2)
    (by
      intro o ho
      obtain ⟨hm, hnm⟩ := Reg.findName_some _ _ o ho
      exact h3 o hm hnm)
  rw [hreq]
  simp only [Reg.register, Bool.false_eq_true, if_false]
  rw [setObjs_upd p.cd hcd p.dobjs _ _ hget]
  rfl

theorem domObj_DW (p : DW) (hcd : p.cd < 4) (id : Nat) (o : Obj DKey)
    (hn : p.nodes.find? (fun n => n.id == id) = some (domNode id p.cd))
    (ho : p.dobjs.find? (fun x => x.id == id) = some o) : p.world.domObj id = some (p.cd, o) := by
  obtain ⟨cr0, h0, _⟩ := baseDoms_get p.cd hcd
  have hget := setObjs_get baseDoms p.cd p.dobjs cr0 h0
  have hdoms : p.world.doms = setObjs baseDoms p.cd p.dobjs := rfl
  have hnode : p.world.node id = some (domNode id p.cd) := hn
  unfold World.domObj
  rw [hnode]
  simp only [domNode, if_true, hdoms, hget, Option.bind_some, Reg.findId, ho, Option.map_some]

/-- `~d` on an explicit world, when the complement is not live yet -/
theorem invert_DW (p : DW) (hcd : p.cd < 4) (id : Nat) (o : Obj DKey)
    (hn : p.nodes.find? (fun n => n.id == id) = some (domNode id p.cd))
    (ho : p.dobjs.find? (fun x => x.id == id) = some o) (hne : cnameOf o.name ≠ "")
    (h1 : ∀ x ∈ p.dobjs, x.name ≠ cnameOf o.name) (h2 : ∀ x ∈ p.dobjs, (cnameOf o.name, o.canon.2) ∉ x.keys)
    (h3 : ∀ x ∈ p.dobjs, x.name = cnameOf (cnameOf o.name) → x.canon.2 = o.canon.2) :
    p.world.invert id = ((p.addDom (cnameOf o.name) o.canon.2).world, .ret p.next true) := by
  unfold World.invert
  rw [domObj_DW p hcd id o hn ho]
  exact mkDom_DW p hcd _ _ hne h1 h2 h3

/-! ### collection -/

theorem dropDead_setObjs_doms (c : Nat) (hc : c < 4) (objs : List (Obj DKey)) (alive : List Nat) :
    World.dropDead (setObjs baseDoms c objs) alive = setObjs baseDoms c (objs.filter (fun o => alive.contains o.id)) := by
  have : c = 0 ∨ c = 1 ∨ c = 2 ∨ c = 3 := by omega
  rcases this with rfl | rfl | rfl | rfl <;> rfl

theorem dropDead_setObjs_strands (c : Nat) (hc : c < 4) (objs : List (Obj CKey)) (alive : List Nat) :
    World.dropDead (setObjs baseStrands c objs) alive =
      setObjs baseStrands c (objs.filter (fun o => alive.contains o.id)) := by
  have : c = 0 ∨ c = 1 ∨ c = 2 ∨ c = 3 := by omega
  rcases this with rfl | rfl | rfl | rfl <;> rfl

/-- nothing is collected when every object and node is held -/
theorem collect_DW (p : DW) (hcd : p.cd < 4) (hcs : p.cs < 4) (hd : ∀ o ∈ p.dobjs, o.id ∈ p.held)
    (hs : ∀ o ∈ p.sobjs, o.id ∈ p.held) (hn : ∀ n ∈ p.nodes, n.id ∈ p.held) : p.world.collect = p.world := by
  have hr : ∀ x ∈ p.held, p.world.reachable.contains x = true := by
    intro x hx
    simp only [List.contains_eq_mem, decide_eq_true_eq]
    exact WorldL.held_sub_reachable p.world x hx
  unfold World.collect
  have e1 : p.world.doms = setObjs baseDoms p.cd p.dobjs := rfl
  have e2 : p.world.strands = setObjs baseStrands p.cs p.sobjs := rfl
  have e3 : p.world.nodes = p.nodes := rfl
  have e4 : p.world.cstate = [] := rfl
  simp only [e1, e2, e3, e4, dropDead_setObjs_doms p.cd hcd, dropDead_setObjs_strands p.cs hcs, List.filter_nil]
  rw [List.filter_eq_self.mpr (fun o ho => hr _ (hd o ho)), List.filter_eq_self.mpr (fun o ho => hr _ (hs o ho)),
    List.filter_eq_self.mpr (fun n hn' => hr _ (hn n hn'))]
  rfl

/-! ### one document line that yields a domain -/

/-- the dictionary after filing a domain and its complement -/
def putDoms (d : RDict) (nm : String) (id : Nat) (cnm : String) (cid : Nat) : RDict :=
  { d with domains := dictPut (dictPut d.domains nm id) cnm cid }

theorem kind_not_ignored (line : List Tree) : ([] : List String).contains ((line.head?.bind tokStr).getD "") = false := rfl

/-- a line yielding a domain whose complement needs no sequence -/
theorem readDoc_dom_plain (s : RState) (sl : Slots) (before : List Nat) (line rest : List Tree) (d : RDict)
    (s1 : RState) (id : Nat) (w2 : World) (cid : Nat) (b : Bool) (nm cnm : String)
    (hrl : s.readLine sl line = (s1, .ok (.dom id)))
    (hn1 : objName s1.w.doms sl.dom id = some nm)
    (hinv : s1.w.invert id = (w2, .ret cid b))
    (hn2 : objName w2.doms sl.dom cid = some cnm)
    (hneeds : ((s1.dseq.lookup id).isSome && (s1.dseq.lookup cid).isNone) = false) :
    s.readDoc sl [] before (.grp line :: rest) d =
      (({ s1 with w := w2 } : RState).keepOnly before (putDoms d nm id cnm cid)).readDoc sl [] before rest
        (putDoms d nm id cnm cid) := by
  conv => lhs; unfold readDoc
  simp only [kind_not_ignored, Bool.false_eq_true, if_false, hrl, hinv, hn1, hn2, Option.getD_some, hneeds]
  rfl

/-- a line yielding a sequenced domain whose complement receives the reverse Watson–Crick complement -/
theorem readDoc_dom_seq (s : RState) (sl : Slots) (before : List Nat) (line rest : List Tree) (d : RDict)
    (s1 : RState) (id : Nat) (w2 : World) (cid : Nat) (b : Bool) (nm cnm : String) (con : String) (rc : List Char)
    (hrl : s.readLine sl line = (s1, .ok (.dom id)))
    (hn1 : objName s1.w.doms sl.dom id = some nm)
    (hinv : s1.w.invert id = (w2, .ret cid b))
    (hn2 : objName w2.doms sl.dom cid = some cnm)
    (hid : s1.dseq.lookup id = some con) (hcid : s1.dseq.lookup cid = none)
    (hrc : Iupac.reverseWcComplement .dna con.toList = some rc) :
    s.readDoc sl [] before (.grp line :: rest) d =
      (({ s1 with w := w2, dseq := s1.dseq ++ [(cid, String.ofList rc)] } : RState).keepOnly before
          (putDoms d nm id cnm cid)).readDoc sl [] before rest (putDoms d nm id cnm cid) := by
  conv => lhs; unfold readDoc
  simp only [kind_not_ignored, Bool.false_eq_true, if_false, hrl, hinv, hn1, hn2, Option.getD_some, hid, hcid,
    Option.isSome_some, Option.isNone_none, Bool.and_self, if_true, hrc]
  rfl

end Dsd.Sig
