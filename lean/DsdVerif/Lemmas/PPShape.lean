/-
Shape soundness of the pyparsing model (C16, text level): which token trees a grammar term can return, independent
of the input.  `Shape env g ts` is defined by the structure of `g` (with `Forward` references unfolded through
`env`); `run_shape` shows that every successful run returns such a list.
-/
import DsdVerif.Model.Pyparsing

namespace Dsd.PP

mutual
/-- the tree lists `g` can return -/
inductive Shape (env : Env) : G → List Tree → Prop
  | lit (s : List Char) : Shape env (.lit s) [.tok (String.ofList s)]
  | kw (s ident : List Char) : Shape env (.kw s ident) [.tok (String.ofList s)]
  | word (init body : List Char) (c : Char) (m : List Char) : init.contains c = true →
      (∀ x ∈ m, body.contains x = true) → Shape env (.word init body) [.tok (String.ofList (c :: m))]
  | white (m : List Char) : m ≠ [] → Shape env .white [.tok (String.ofList m)]
  | lineEndNl : Shape env .lineEnd [.tok "\n"]
  | lineEndEof : Shape env .lineEnd []
  | stringStart : Shape env .stringStart []
  | stringEnd : Shape env .stringEnd []
  | seq (gs : List G) (ts : List Tree) : ShapeSeq env gs ts → Shape env (.seq gs) ts
  | alt (gs : List G) (g : G) (ts : List Tree) : g ∈ gs → Shape env g ts → Shape env (.alt gs) ts
  | optNone (g : G) : Shape env (.opt g) []
  | optSome (g : G) (ts : List Tree) : Shape env g ts → Shape env (.opt g) ts
  | many (g : G) (ts : List Tree) : ShapeMany env g ts → Shape env (.many g) ts
  | many1 (g : G) (t1 t2 : List Tree) : Shape env g t1 → ShapeMany env g t2 → Shape env (.many1 g) (t1 ++ t2)
  | combine (g : G) (ts : List Tree) (f : Nat) : Shape env g ts →
      Shape env (.combine g) [.tok (String.join (flatToks (f + 1) ts))]
  | group (g : G) (ts : List Tree) : Shape env g ts → Shape env (.group g) [.grp ts]
  | suppress (g : G) (ts : List Tree) : Shape env g ts → Shape env (.suppress g) []
  | tag (t : String) (g : G) (ts : List Tree) : Shape env g ts → Shape env (.tag t g) (.tok t :: ts)
  | ref (n : String) (g : G) (ts : List Tree) : env.lookup n = some g → Shape env g ts → Shape env (.ref n) ts
/-- concatenation of the shapes of a sequence -/
inductive ShapeSeq (env : Env) : List G → List Tree → Prop
  | nil : ShapeSeq env [] []
  | cons (g : G) (gs : List G) (t1 t2 : List Tree) : Shape env g t1 → ShapeSeq env gs t2 →
      ShapeSeq env (g :: gs) (t1 ++ t2)
/-- concatenation of any number of shapes of the repeated element -/
inductive ShapeMany (env : Env) : G → List Tree → Prop
  | nil (g : G) : ShapeMany env g []
  | cons (g : G) (t1 t2 : List Tree) : Shape env g t1 → ShapeMany env g t2 → ShapeMany env g (t1 ++ t2)
end

theorem ShapeMany.single {env : Env} {g : G} {ts : List Tree} (h : Shape env g ts) : ShapeMany env g ts := by
  have := ShapeMany.cons g ts [] h (ShapeMany.nil g)
  simpa using this

theorem mem_takeWhile_true {α} (q : α → Bool) (l : List α) (x : α) (h : x ∈ l.takeWhile q) : q x = true := by
  induction l with
  | nil => simp at h
  | cons a as ih =>
    rw [List.takeWhile_cons] at h
    split at h
    · rcases List.mem_cons.mp h with rfl | h
      · assumption
      · exact ih h
    · simp at h

/-- **shape soundness**: whatever a run returns has the shape of its grammar term -/
theorem run_shape_aux (env : Env) : ∀ fuel : Nat,
    (∀ ctx g p p' ts, run env fuel ctx g p = some (p', ts) → Shape env g ts) ∧
    (∀ ctx gs p p' ts, runSeq env fuel ctx gs p = some (p', ts) → ShapeSeq env gs ts) ∧
    (∀ ctx gs p p' ts, runAlt env fuel ctx gs p = some (p', ts) → ∃ g ∈ gs, Shape env g ts) ∧
    (∀ reps ctx g p p' ts, runMany env reps fuel ctx g p = some (p', ts) → ShapeMany env g ts) := by
  intro fuel
  induction fuel with
  | zero =>
    refine ⟨?_, ?_, ?_, ?_⟩
    · intro ctx g p p' ts h; simp [run] at h
    · intro ctx gs p p' ts h; simp [runSeq] at h
    · intro ctx gs p p' ts h; simp [runAlt] at h
    · intro reps ctx g p p' ts h
      cases reps <;> simp [runMany] at h <;> (obtain ⟨_, rfl⟩ := h; exact ShapeMany.nil g)
  | succ f ih =>
    obtain ⟨ih1, ih2, ih3, ih4⟩ := ih
    refine ⟨?_, ?_, ?_, ?_⟩
    · intro ctx g p p' ts h
      cases g with
      | lit s =>
        simp only [run] at h
        split at h
        · cases h
        · split at h
          · cases h; exact Shape.lit s
          · cases h
      | kw s ident =>
        simp only [run] at h
        split at h
        · cases h
        · split at h
          · split at h
            · cases h
            · cases h; exact Shape.kw s ident
          · cases h; exact Shape.kw s ident
          · cases h
      | word init body =>
        simp only [run] at h
        split at h
        · split at h
          · rename_i c cs _ hc
            cases h
            refine Shape.word init body c _ hc ?_
            intro x hx
            exact mem_takeWhile_true _ _ x hx
          · cases h
        · cases h
      | white =>
        simp only [run] at h
        have key : ∀ r0 : List Char,
            (if (r0.takeWhile (fun c => isWs c || c == '\n')).isEmpty = true then none
              else some (({ p with rest := r0.drop (r0.takeWhile (fun c => isWs c || c == '\n')).length } : Pos),
                [Tree.tok (String.ofList (r0.takeWhile (fun c => isWs c || c == '\n')))])) = some (p', ts) →
            Shape env .white ts := by
          intro r0 h
          split at h
          · cases h
          · rename_i hm
            cases h
            refine Shape.white _ ?_
            intro e; rw [e] at hm; simp at hm
        exact key _ h
      | lineEnd =>
        simp only [run] at h
        split at h
        · cases h; exact Shape.lineEndNl
        · split at h
          · cases h
          · cases h; exact Shape.lineEndEof
        · cases h
      | stringStart => simp only [run] at h; cases h; exact Shape.stringStart
      | stringEnd =>
        simp only [run] at h
        split at h
        · cases h; exact Shape.stringEnd
        · cases h
      | seq gs => simp only [run] at h; exact Shape.seq gs ts (ih2 ctx gs p p' ts h)
      | alt gs =>
        simp only [run] at h
        obtain ⟨g, hg, hs⟩ := ih3 ctx gs p p' ts h
        exact Shape.alt gs g ts hg hs
      | opt g =>
        simp only [run] at h
        split at h
        · rename_i r hr
          cases h
          exact Shape.optSome g ts (ih1 ctx g p p' ts hr)
        · cases h; exact Shape.optNone g
      | many g => simp only [run] at h; exact Shape.many g ts (ih4 f ctx g p p' ts h)
      | many1 g =>
        simp only [run] at h
        split at h
        · cases h
        · rename_i p1 t1 h1
          split at h
          · rename_i p2 t2 h2
            cases h
            exact Shape.many1 g t1 t2 (ih1 ctx g p p1 t1 h1) (ih4 f ctx g p1 p' t2 h2)
          · cases h
            have := Shape.many1 g ts [] (ih1 ctx g p p' ts h1) (ShapeMany.nil g)
            simpa using this
      | combine g =>
        simp only [run] at h
        split at h
        · rename_i p2 ts' h2
          cases h
          exact Shape.combine g ts' f (ih1 _ g _ p' ts' h2)
        · cases h
      | group g =>
        simp only [run] at h
        split at h
        · rename_i p2 ts' h2
          cases h
          exact Shape.group g ts' (ih1 ctx g p p' ts' h2)
        · cases h
      | suppress g =>
        simp only [run] at h
        split at h
        · rename_i p2 ts' h2
          cases h
          exact Shape.suppress g ts' (ih1 ctx g p p' ts' h2)
        · cases h
      | tag t g =>
        simp only [run] at h
        split at h
        · rename_i p2 ts' h2
          cases h
          exact Shape.tag t g ts' (ih1 ctx g p p' ts' h2)
        · cases h
      | ref n =>
        simp only [run] at h
        split at h
        · rename_i g hg
          exact Shape.ref n g ts hg (ih1 ctx g p p' ts h)
        · cases h
    · intro ctx gs p p' ts h
      cases gs with
      | nil => simp only [runSeq] at h; cases h; exact ShapeSeq.nil
      | cons g gs =>
        simp only [runSeq] at h
        split at h
        · cases h
        · rename_i p1 t1 h1
          split at h
          · cases h
          · rename_i p2 t2 h2
            cases h
            exact ShapeSeq.cons g gs t1 t2 (ih1 ctx g p p1 t1 h1) (ih2 ctx gs p1 p' t2 h2)
    · intro ctx gs p p' ts h
      cases gs with
      | nil => simp only [runAlt] at h; cases h
      | cons g gs =>
        simp only [runAlt] at h
        split at h
        · rename_i r hr
          cases h
          exact ⟨g, List.mem_cons_self, ih1 ctx g p p' ts hr⟩
        · obtain ⟨g', hg', hs⟩ := ih3 ctx gs p p' ts h
          exact ⟨g', List.mem_cons_of_mem _ hg', hs⟩
    · intro reps ctx g p p' ts h
      cases reps with
      | zero => simp only [runMany] at h; cases h; exact ShapeMany.nil g
      | succ reps =>
        simp only [runMany] at h
        split at h
        · cases h; exact ShapeMany.nil g
        · rename_i p1 t1 h1
          split at h
          · cases h; exact ShapeMany.single (ih1 ctx g p p' ts h1)
          · split at h
            · rename_i p2 t2 h2
              cases h
              exact ShapeMany.cons g t1 t2 (ih1 ctx g p p1 t1 h1) (ih4 reps ctx g p1 p' t2 h2)
            · cases h; exact ShapeMany.single (ih1 ctx g p p' ts h1)

theorem run_shape (env : Env) (fuel : Nat) (ctx : Ctx) (g : G) (p p' : Pos) (ts : List Tree)
    (h : run env fuel ctx g p = some (p', ts)) : Shape env g ts :=
  (run_shape_aux env fuel).1 ctx g p p' ts h

/-- the result of `parseString` has the shape of the document grammar -/
theorem parseDoc_shape (env : Env) (doc : G) (text : String) (ts : List Tree) (h : parseDoc env doc text = some ts) :
    Shape env doc ts := by
  unfold parseDoc at h
  simp only at h
  split at h
  · rename_i p' ts' hr
    cases h
    exact run_shape env _ _ doc _ p' ts hr
  · cases h

end Dsd.PP
