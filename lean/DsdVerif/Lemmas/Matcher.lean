import DsdVerif.Model.Linear

namespace Dsd.Bracket





theorem P_append_lt (t : List (Option Nat)) (x : Option Nat) (i : Nat) (h : i < t.length) :
    P (t ++ [x]) i = P t i := by
  simp [P, List.getElem?_append_left h]

theorem P_append_eq (t : List (Option Nat)) (x : Option Nat) :
    P (t ++ [x]) t.length = x := by
  simp [P]

theorem P_ge (t : List (Option Nat)) (i : Nat) (h : t.length ≤ i) : P t i = none := by
  simp [P, List.getElem?_eq_none h]

theorem P_set_eq (t : List (Option Nat)) (i : Nat) (x : Option Nat) (h : i < t.length) :
    P (t.set i x) i = x := by
  simp [P, h]

theorem P_set_ne (t : List (Option Nat)) (i k : Nat) (x : Option Nat) (h : i ≠ k) :
    P (t.set i x) k = P t k := by
  simp [P, List.getElem?_set_ne h]

/-- Abstract the table as a function to let grind work on pure arithmetic/logic. -/
structure Inv (u : List Sym) (tbl : List (Option Nat)) (stack : List Nat) : Prop where
  len : tbl.length = u.length
  sorted : stack.Pairwise (· > ·)
  stk : ∀ t ∈ stack, t < u.length ∧ u[t]? = some .op ∧ P tbl t = none
  dot : ∀ i, u[i]? = some .dot → P tbl i = none
  cl : ∀ i, u[i]? = some .cl → ∃ j, j < i ∧ P tbl i = some j ∧ P tbl j = some i ∧ u[j]? = some .op
  op : ∀ i, u[i]? = some .op → i ∈ stack ∨
        ∃ j, i < j ∧ P tbl i = some j ∧ P tbl j = some i ∧ u[j]? = some .cl
  strad : ∀ t ∈ stack, ∀ i j, P tbl i = some j → i < t → t < j → False
  nocross : ∀ i j k l, P tbl i = some j → P tbl k = some l → i < k → k < j → j < l → False
  bound : ∀ i j, P tbl i = some j → i < u.length ∧ j < u.length

theorem getElem?_snoc_lt {α} (u : List α) (x : α) (i : Nat) (h : i < u.length) :
    (u ++ [x])[i]? = u[i]? := List.getElem?_append_left h
theorem getElem?_snoc_eq {α} (u : List α) (x : α) :
    (u ++ [x])[u.length]? = some x := by simp
theorem getElem?_snoc_gt {α} (u : List α) (x : α) (i : Nat) (h : u.length < i) :
    (u ++ [x])[i]? = none := by simp; omega

theorem Pw (tbl : List (Option Nat)) (x : Option Nat) (i : Nat) :
    P (tbl ++ [x]) i = if i < tbl.length then P tbl i else if i = tbl.length then x else none := by
  split
  · exact P_append_lt _ _ _ ‹_›
  · split
    · subst_vars; exact P_append_eq _ _
    · apply P_ge; simp; omega

theorem Uw {α} (u : List α) (x : α) (i : Nat) :
    (u ++ [x])[i]? = if i < u.length then u[i]? else if i = u.length then some x else none := by
  split
  · exact getElem?_snoc_lt _ _ _ ‹_›
  · split
    · subst_vars; exact getElem?_snoc_eq _ _
    · apply getElem?_snoc_gt; omega

theorem u_lt {α} (u : List α) (i : Nat) (a : α) (h : u[i]? = some a) : i < u.length := by
  have := List.getElem?_eq_some_iff.mp h; exact this.1

theorem inv_dot (u : List Sym) (tbl stack) (h : Inv u tbl stack) :
    Inv (u ++ [.dot]) (tbl ++ [none]) stack := by
  obtain ⟨hl, hs, hstk, hdot, hcl, hop, hstrad, hnc, hb⟩ := h
  constructor
  · simp [hl]
  · exact hs
  · intro t ht; have := hstk t ht; simp only [Pw, Uw, List.length_append, List.length_singleton]; grind
  · intro i; simp only [Pw, Uw]; grind
  · intro i; simp only [Pw, Uw]
    intro hi
    have : i < u.length := by grind [u_lt]
    have := hcl i (by grind)
    grind
  · intro i; simp only [Pw, Uw]
    intro hi
    have : i < u.length := by grind [u_lt]
    have := hop i (by grind)
    have := hb i
    grind
  · intro t ht i j; simp only [Pw]; have := hstrad t ht i j; have := hb i j; grind
  · intro i j k l; simp only [Pw]; have := hnc i j k l; have := hb i j; have := hb k l; grind
  · intro i j; simp only [Pw, List.length_append, List.length_singleton]; have := hb i j; grind

theorem inv_op (u : List Sym) (tbl stack) (h : Inv u tbl stack) :
    Inv (u ++ [.op]) (tbl ++ [none]) (tbl.length :: stack) := by
  obtain ⟨hl, hs, hstk, hdot, hcl, hop, hstrad, hnc, hb⟩ := h
  constructor
  · simp [hl]
  · simp only [List.pairwise_cons]; refine ⟨?_, hs⟩
    intro a ha; have := hstk a ha; omega
  · intro t ht
    simp only [List.mem_cons] at ht
    simp only [Pw, Uw, List.length_append, List.length_singleton]
    rcases ht with rfl | ht
    · grind
    · have := hstk t ht; grind
  · intro i; simp only [Pw, Uw]; grind
  · intro i; simp only [Pw, Uw]
    intro hi
    have : i < u.length := by grind [u_lt]
    have := hcl i (by grind)
    grind
  · intro i; simp only [Pw, Uw, List.mem_cons]
    intro hi
    by_cases hlt : i < u.length
    · have := hop i (by grind)
      have := hb i
      grind
    · grind
  · intro t ht i j; simp only [Pw]
    simp only [List.mem_cons] at ht
    rcases ht with rfl | ht
    · have := hb i j; grind
    · have := hstrad t ht i j; have := hb i j; grind
  · intro i j k l; simp only [Pw]; have := hnc i j k l; have := hb i j; have := hb k l; grind
  · intro i j; simp only [Pw, List.length_append, List.length_singleton]; have := hb i j; grind

theorem Ps (tbl : List (Option Nat)) (t : Nat) (x : Option Nat) (i : Nat) (ht : t < tbl.length) :
    P (tbl.set t x) i = if i = t then x else P tbl i := by
  split
  · subst_vars; exact P_set_eq _ _ _ ht
  · exact P_set_ne _ _ _ _ (by omega)

theorem inv_cl (u : List Sym) (tbl) (t : Nat) (rest : List Nat) (h : Inv u tbl (t :: rest)) :
    Inv (u ++ [.cl]) (tbl.set t (some tbl.length) ++ [some t]) rest := by
  obtain ⟨hl, hs, hstk, hdot, hcl, hop, hstrad, hnc, hb⟩ := h
  have htl : t < tbl.length := by have := hstk t (by simp); omega
  have ht := hstk t (by simp)
  simp only [List.pairwise_cons] at hs
  have hrest : ∀ a ∈ rest, a < t := fun a ha => hs.1 a ha
  have hPw : ∀ x i, P (tbl.set t (some tbl.length) ++ [x]) i =
      if i < tbl.length then (if i = t then some tbl.length else P tbl i)
      else if i = tbl.length then x else none := by
    intro x i
    rw [Pw]; simp only [List.length_set]
    split
    · rw [Ps _ _ _ _ htl]
    · rfl
  constructor
  · simp [hl]
  · exact hs.2
  · intro a ha
    have := hstk a (by simp [ha]); have := hrest a ha
    simp only [hPw, Uw, List.length_append, List.length_singleton]; grind
  · intro i; simp only [hPw, Uw]
    intro hi
    by_cases hlt : i < u.length
    · have := hdot i (by grind); grind
    · grind
  · intro i; simp only [hPw, Uw]
    intro hi
    by_cases hlt : i < u.length
    · obtain ⟨j, hj⟩ := hcl i (by grind)
      refine ⟨j, ?_⟩
      have := hb i j
      grind
    · have : i = u.length := by grind
      refine ⟨t, ?_⟩
      grind
  · intro i; simp only [hPw, Uw]
    intro hi
    by_cases hlt : i < u.length
    · have h1 := hop i (by grind)
      simp only [List.mem_cons] at h1
      rcases h1 with (rfl | h1) | ⟨j, hj⟩
      · right; refine ⟨tbl.length, ?_⟩; grind
      · left; exact h1
      · right; refine ⟨j, ?_⟩; have := hb i j; grind
    · grind
  · intro a ha i j; simp only [hPw]
    have := hstrad a (by simp [ha]) i j; have := hb i j; have := hrest a ha
    grind
  · intro i j k l; simp only [hPw]
    have := hnc i j k l; have := hb i j; have := hb k l
    have := hstrad t (by simp) i j
    have := hstrad t (by simp) k l
    grind
  · intro i j; simp only [hPw, List.length_append, List.length_singleton]
    have := hb i j; grind

/-! ### run-level theorems -/

theorem inv_init : Inv [] [] [] := by
  constructor <;> simp [P]

theorem step_inv (u : List Sym) (s s' : St) (c : Sym) (h : Inv u s.tbl s.stack)
    (hs : step s c = some s') : Inv (u ++ [c]) s'.tbl s'.stack := by
  cases c with
  | dot => simp [step] at hs; subst hs; exact inv_dot u _ _ h
  | op => simp [step] at hs; subst hs; exact inv_op u _ _ h
  | cl =>
    unfold step at hs
    cases hst : s.stack with
    | nil => simp [hst] at hs
    | cons t rest =>
      simp [hst] at hs; subst hs
      rw [hst] at h
      exact inv_cl u _ t rest h

theorem run_inv (u v : List Sym) (s s' : St) (h : Inv u s.tbl s.stack)
    (hr : run s v = some s') : Inv (u ++ v) s'.tbl s'.stack := by
  induction v generalizing u s with
  | nil => simp [run] at hr; subst hr; simpa using h
  | cons c cs ih =>
    simp only [run] at hr
    cases hs : step s c with
    | none => simp [hs] at hr
    | some s1 =>
      simp [hs] at hr
      have := ih (u ++ [c]) s1 (step_inv u s s1 c h hs) hr
      simpa using this

/-- the abstract notion: an oriented non-crossing perfect matching of the brackets of `w` -/
structure Matching (w : List Sym) (M : Nat → Option Nat) : Prop where
  dot : ∀ i, w[i]? = some .dot → M i = none
  out : ∀ i, w.length ≤ i → M i = none
  cl  : ∀ i, w[i]? = some .cl → ∃ j, j < i ∧ M i = some j ∧ M j = some i ∧ w[j]? = some .op
  op  : ∀ i, w[i]? = some .op → ∃ j, i < j ∧ M i = some j ∧ M j = some i ∧ w[j]? = some .cl
  nocross : ∀ i j k l, M i = some j → M k = some l → i < k → k < j → j < l → False

/-- L2: soundness -/
theorem matchW_sound (w : List Sym) (t : List (Option Nat)) (h : matchW w = some t) :
    Matching w (P t) := by
  unfold matchW at h
  cases hr : run ⟨[], []⟩ w with
  | none => simp [hr] at h
  | some s =>
    obtain ⟨tb, st⟩ := s
    cases st with
    | cons a b => simp [hr] at h
    | nil =>
      simp [hr] at h; subst h
      have inv := run_inv [] w ⟨[], []⟩ ⟨tb, []⟩ inv_init hr
      simp at inv
      obtain ⟨hl, hs, hstk, hdot, hcl, hop, hstrad, hnc, hb⟩ := inv
      constructor
      · exact hdot
      · intro i hi; apply P_ge; omega
      · exact hcl
      · intro i hi
        rcases hop i hi with h | h
        · simp at h
        · exact h
      · exact hnc

/-- height specification of balancedness -/
def bal : Nat → List Sym → Bool
  | h, [] => h == 0
  | h, .op :: w => bal (h+1) w
  | h, .dot :: w => bal h w
  | 0, .cl :: _ => false
  | h+1, .cl :: w => bal h w

/-- L3: completeness — the run ends with an empty stack iff the word is balanced -/
theorem run_bal (w : List Sym) (s : St) :
    (∃ s', run s w = some s' ∧ s'.stack = []) ↔ bal s.stack.length w = true := by
  induction w generalizing s with
  | nil => simp [run, bal, List.length_eq_zero_iff]
  | cons c cs ih =>
    cases c with
    | op => simp only [run, step, Option.bind_some, bal]; rw [ih]; simp
    | dot => simp only [run, step, Option.bind_some, bal]; rw [ih]
    | cl =>
      cases hst : s.stack with
      | nil => simp [run, step, hst, bal]
      | cons t rest =>
        simp only [run, step, hst, Option.bind_some, bal, List.length_cons]
        rw [ih]

theorem matchW_complete (w : List Sym) : (matchW w).isSome ↔ bal 0 w = true := by
  have := run_bal w ⟨[], []⟩
  simp at this
  rw [← this]
  unfold matchW
  constructor
  · intro h
    cases hr : run ⟨[], []⟩ w with
    | none => simp [hr] at h
    | some s =>
      obtain ⟨tb, st⟩ := s
      cases st with
      | nil => exact ⟨⟨tb, []⟩, rfl, rfl⟩
      | cons a b => simp [hr] at h
  · rintro ⟨s', hs, he⟩
    obtain ⟨tb, st⟩ := s'
    simp at he; subst he
    simp [hs]

/-! ### L5: persistence of table entries, and the stack at a prefix -/

theorem step_mono (u : List Sym) (s s' : St) (c : Sym) (h : Inv u s.tbl s.stack)
    (hs : step s c = some s') : ∀ i j, P s.tbl i = some j → P s'.tbl i = some j := by
  have hb := h.bound
  have hl := h.len
  intro i j hij
  have hi := (hb i j hij).1
  cases c with
  | dot => simp [step] at hs; subst hs; simp only [Pw]; grind
  | op => simp [step] at hs; subst hs; simp only [Pw]; grind
  | cl =>
    unfold step at hs
    cases hst : s.stack with
    | nil => simp [hst] at hs
    | cons t rest =>
      simp [hst] at hs; subst hs
      have ht := h.stk t (by simp [hst])
      simp only [Pw, List.length_set]
      rw [Ps _ _ _ _ (by omega)]
      grind

theorem run_mono (u v : List Sym) (s s' : St) (h : Inv u s.tbl s.stack)
    (hr : run s v = some s') : ∀ i j, P s.tbl i = some j → P s'.tbl i = some j := by
  induction v generalizing u s with
  | nil => simp [run] at hr; subst hr; intro i j h; exact h
  | cons c cs ih =>
    simp only [run] at hr
    cases hs : step s c with
    | none => simp [hs] at hr
    | some s1 =>
      simp [hs] at hr
      intro i j hij
      exact ih (u ++ [c]) s1 (step_inv u s s1 c h hs) hr i j (step_mono u s s1 c h hs i j hij)

theorem run_append (s : St) (u v : List Sym) :
    run s (u ++ v) = (run s u).bind (fun s' => run s' v) := by
  induction u generalizing s with
  | nil => simp [run]
  | cons c cs ih =>
    simp only [List.cons_append, run]
    cases h : step s c with
    | none => simp
    | some s' => simp [ih]

/-- L5: in an accepted word `u ++ v`, the stack after the prefix `u` consists exactly of the
opening brackets of `u` whose partner lies in `v`. -/
theorem stack_at_prefix (u v : List Sym) (su : St) (t : List (Option Nat))
    (hu : run ⟨[], []⟩ u = some su) (hw : run ⟨[], []⟩ (u ++ v) = some ⟨t, []⟩) :
    ∀ i, i ∈ su.stack ↔ (u[i]? = some .op ∧ ∃ j, u.length ≤ j ∧ P t i = some j) := by
  have iu := run_inv [] u ⟨[], []⟩ su inv_init hu
  simp at iu
  have hv : run su v = some ⟨t, []⟩ := by
    rw [run_append, hu] at hw; simpa using hw
  have iw := run_inv u v su ⟨t, []⟩ iu hv
  simp at iw
  have mono := run_mono u v su ⟨t, []⟩ iu hv
  simp at mono
  intro i
  constructor
  · intro hi
    obtain ⟨h1, h2, h3⟩ := iu.stk i hi
    refine ⟨h2, ?_⟩
    have hwi : (u ++ v)[i]? = some .op := by rw [List.getElem?_append_left h1]; exact h2
    rcases iw.op i hwi with h | ⟨j, hj1, hj2, hj3, hj4⟩
    · simp at h
    · refine ⟨j, ?_, hj2⟩
      apply Classical.byContradiction
      intro hlt
      have hjl : j < u.length := by omega
      have hcl : u[j]? = some .cl := by rw [List.getElem?_append_left hjl] at hj4; exact hj4
      obtain ⟨k, hk1, hk2, hk3, hk4⟩ := iu.cl j hcl
      have e1 := mono j k hk2
      have e2 := mono k j hk3
      rw [hj3] at e1
      have : i = k := Option.some.inj e1
      subst this
      rw [h3] at hk3; simp at hk3
  · rintro ⟨hop, j, hj, hP⟩
    rcases iu.op i hop with h | ⟨j', hj1, hj2, hj3, hj4⟩
    · exact h
    · exfalso
      have e := mono i j' hj2
      rw [hP] at e
      have : j = j' := Option.some.inj e
      have := (iu.bound i j' hj2).2
      omega


/-! ### L4': a word that has a Matching is accepted, and the table is that Matching -/

/-- invariant of the run relative to a given matching `M` of the whole word `w` -/
structure Rel (w : List Sym) (M : Nat → Option Nat) (n : Nat) (s : St) : Prop where
  len : s.tbl.length = n
  sorted : s.stack.Pairwise (· > ·)
  mem : ∀ i, i ∈ s.stack ↔ (i < n ∧ w[i]? = some .op ∧ ∃ j, n ≤ j ∧ M i = some j)

theorem take_snoc {α} (w : List α) (n : Nat) (c : α) (h : w[n]? = some c) :
    w.take (n+1) = w.take n ++ [c] := by
  have hn : n < w.length := (List.getElem?_eq_some_iff.mp h).1
  rw [List.take_add_one]; simp [h]

theorem rel_step (w : List Sym) (M) (hM : Matching w M) (n : Nat) (s : St) (c : Sym)
    (hc : w[n]? = some c) (h : Rel w M n s) : ∃ s', step s c = some s' ∧ Rel w M (n+1) s' := by
  obtain ⟨hl, hs, hm⟩ := h
  cases c with
  | dot =>
    refine ⟨_, rfl, ?_⟩
    have hd := hM.dot n hc
    constructor
    · simp [hl]
    · exact hs
    · intro i; rw [hm i]
      constructor
      · rintro ⟨a, b, j, hj, e⟩
        refine ⟨by omega, b, j, ?_, e⟩
        by_cases hjn : j = n
        · subst hjn
          -- M i = some n, then M n = some i by symmetry of matching: n would be matched
          obtain ⟨k, _, hk2, hk3, _⟩ := hM.op i b
          rw [e] at hk2; have := Option.some.inj hk2; subst this
          rw [hd] at hk3; simp at hk3
        · omega
      · rintro ⟨a, b, j, hj, e⟩
        have : i ≠ n := by intro h; subst h; rw [hc] at b; simp at b
        exact ⟨by omega, b, j, by omega, e⟩
  | op =>
    refine ⟨_, rfl, ?_⟩
    obtain ⟨j, hj1, hj2, hj3, hj4⟩ := hM.op n hc
    constructor
    · simp [hl]
    · simp only [List.pairwise_cons]; refine ⟨?_, hs⟩
      intro a ha; have := (hm a).mp ha; omega
    · intro i
      simp only [List.mem_cons, hl]
      constructor
      · rintro (rfl | hi)
        · exact ⟨by omega, hc, j, by omega, hj2⟩
        · obtain ⟨a, b, k, hk, e⟩ := (hm i).mp hi
          refine ⟨by omega, b, k, ?_, e⟩
          by_cases hkn : k = n
          · subst hkn
            obtain ⟨k', _, hk2, hk3, hk4⟩ := hM.op i b
            rw [e] at hk2; have := Option.some.inj hk2; subst this
            rw [hc] at hk4; simp at hk4
          · omega
      · rintro ⟨a, b, k, hk, e⟩
        by_cases hin : i = n
        · left; exact hin
        · right; exact (hm i).mpr ⟨by omega, b, k, by omega, e⟩
  | cl =>
    obtain ⟨j, hj1, hj2, hj3, hj4⟩ := hM.cl n hc
    have hjmem : j ∈ s.stack := (hm j).mpr ⟨hj1, hj4, n, Nat.le_refl _, hj3⟩
    cases hst : s.stack with
    | nil => rw [hst] at hjmem; simp at hjmem
    | cons t rest =>
      rw [hst] at hs hjmem
      simp only [List.pairwise_cons] at hs
      have htmem : t ∈ s.stack := by rw [hst]; simp
      obtain ⟨ht1, ht2, kt, hkt, het⟩ := (hm t).mp htmem
      -- t = j, otherwise crossing
      have htj : t = j := by
        simp only [List.mem_cons] at hjmem
        rcases hjmem with h | h
        · exact h.symm
        · exfalso
          have hlt : j < t := hs.1 j h
          have hktn : kt ≠ n := by
            intro e; subst e
            obtain ⟨k', _, hk2, hk3, _⟩ := hM.op t ht2
            rw [het] at hk2; have := Option.some.inj hk2; subst this
            rw [hj2] at hk3; have := Option.some.inj hk3; omega
          exact hM.nocross j n t kt hj3 het hlt ht1 (by omega)
      subst htj
      refine ⟨⟨s.tbl.set t (some s.tbl.length) ++ [some t], rest⟩, by simp [step, hst], ?_⟩
      constructor
      · simp [hl]
      · exact hs.2
      · intro i
        constructor
        · intro hi
          have hit : i < t := hs.1 i hi
          have : i ∈ s.stack := by rw [hst]; simp [hi]
          obtain ⟨a, b, k, hk, e⟩ := (hm i).mp this
          refine ⟨by omega, b, k, ?_, e⟩
          by_cases hkn : k = n
          · subst hkn
            obtain ⟨k', _, hk2, hk3, _⟩ := hM.op i b
            rw [e] at hk2; have := Option.some.inj hk2; subst this
            rw [hj2] at hk3; have := Option.some.inj hk3; omega
          · omega
        · rintro ⟨a, b, k, hk, e⟩
          have hin : i ≠ n := by intro h; subst h; rw [hc] at b; simp at b
          have : i ∈ s.stack := (hm i).mpr ⟨by omega, b, k, by omega, e⟩
          rw [hst] at this
          simp only [List.mem_cons] at this
          rcases this with h | h
          · subst h; rw [hj3] at e; have := Option.some.inj e; omega
          · exact h

theorem rel_run (w : List Sym) (M) (hM : Matching w M) :
    ∀ (k n : Nat) (s : St), n + k = w.length → Rel w M n s →
      ∃ s', run s (w.drop n) = some s' ∧ Rel w M w.length s' := by
  intro k
  induction k with
  | zero =>
    intro n s hn h
    have : n = w.length := by omega
    subst this
    exact ⟨s, by simp [run], h⟩
  | succ k ih =>
    intro n s hn h
    have hlt : n < w.length := by omega
    have hc : w[n]? = some w[n] := List.getElem?_eq_getElem hlt
    obtain ⟨s1, hs1, r1⟩ := rel_step w M hM n s w[n] hc h
    obtain ⟨s', hs', r'⟩ := ih (n+1) s1 (by omega) r1
    refine ⟨s', ?_, r'⟩
    rw [List.drop_eq_getElem_cons hlt]
    simp [run, hs1, hs']

/-- L4': existence of a matching implies acceptance -/
theorem matching_accepted (w : List Sym) (M) (hM : Matching w M) : ∃ t, matchW w = some t := by
  have r0 : Rel w M 0 ⟨[], []⟩ := by
    constructor <;> simp
  obtain ⟨s', hs', r'⟩ := rel_run w M hM w.length 0 ⟨[], []⟩ (by omega) r0
  simp at hs'
  obtain ⟨tb, st⟩ := s'
  have hempty : st = [] := by
    cases st with
    | nil => rfl
    | cons a b =>
      exfalso
      have := (r'.mem a).mp (by simp)
      obtain ⟨h1, h2, j, hj, e⟩ := this
      obtain ⟨j', _, e', _, hcl⟩ := hM.op a h2
      rw [e] at e'; have := Option.some.inj e'; subst this
      have := (List.getElem?_eq_some_iff.mp hcl).1
      omega
  subst hempty
  exact ⟨tb, by simp [matchW, hs']⟩




end Dsd.Bracket
