/-
Proof machinery for C08 (`make_loop_index`): the scan flattened to linear positions, the invariant of
the scan relative to the matching of the word, and the loop / connectivity arguments.

The specification vocabulary (`num`, `Encl`, `LoopAt`, `Closed`, `Connected`) is repeated here verbatim
from Props/C08Loop.lean (the Props file states its theorems with its own copies; they are definitionally
equal, and the theorems there are `exact`-instances of the ones proved here).
-/
import DsdVerif.Model.Complex
import DsdVerif.Lemmas.Matcher
import DsdVerif.Lemmas.MatchingUnique
import DsdVerif.Lemmas.Locus

namespace Dsd.Loop
open Dsd.Bracket

/-! ### the scan on linear positions -/

/-- the inner loop of `loopScan` as a plain recursion over the entries, `off` = linear index of the head -/
def scanL (s : LoopSt) (off : Nat) : List (Option Nat) → LoopSt
  | [] => s
  | p :: ps => scanL (loopStep s off p) (off + 1) ps

theorem foldl_zipIdx_eq (xs : List (Option Nat)) (s : LoopSt) (off k : Nat) :
    (xs.zipIdx k).foldl (fun s (q : Option Nat × Nat) => loopStep s (off + q.2) q.1) s
      = scanL s (off + k) xs := by
  induction xs generalizing s k with
  | nil => rfl
  | cons p ps ih =>
    simp only [List.zipIdx_cons, List.foldl_cons, scanL]
    rw [ih]; rfl

theorem scanL_append (s : LoopSt) (off : Nat) (xs ys : List (Option Nat)) :
    scanL s off (xs ++ ys) = scanL (scanL s off xs) (off + xs.length) ys := by
  induction xs generalizing s off with
  | nil => rfl
  | cons p ps ih =>
    simp only [List.cons_append, scanL, List.length_cons]
    rw [ih]
    congr 1; omega

/-- state of the scan after the first `n` positions of the linear table `t` -/
def St (t : List (Option Nat)) (n : Nat) : LoopSt := scanL {} 0 (t.take n)

theorem St_succ (t : List (Option Nat)) (n : Nat) (h : n < t.length) :
    St t (n + 1) = loopStep (St t n) n t[n] := by
  unfold St
  rw [List.take_add_one, List.getElem?_eq_getElem h, Option.toList_some, scanL_append]
  simp only [List.length_take, Nat.zero_add, scanL]
  congr 1; omega

theorem St_add (t : List (Option Nat)) (off l : Nat) (h : off + l ≤ t.length) :
    scanL (St t off) off ((t.drop off).take l) = St t (off + l) := by
  unfold St
  rw [List.take_add, scanL_append]
  simp only [List.length_take, Nat.zero_add]
  congr 1; omega

theorem loopScan_cons (c : Bool) (strand : List (Option Nat)) (rest : List (List (Option Nat)))
    (off : Nat) (s : LoopSt) (ext : List Nat) (my : List (Nat × Nat)) :
    loopScan c (strand :: rest) off s ext my =
      if ext.contains (scanL s off strand).cl then
        if c then loopScan c rest (off + strand.length) (scanL s off strand) ext
          (my ++ [(s.cl, (scanL s off strand).cl)])
        else .error .secondaryStructure
      else loopScan c rest (off + strand.length) (scanL s off strand) (ext ++ [(scanL s off strand).cl])
          (my ++ [(s.cl, (scanL s off strand).cl)]) := by
  have := foldl_zipIdx_eq strand s off 0
  simp only [Nat.add_zero] at this
  rw [loopScan]
  simp only [this]

/-- the `myext` entries produced for the strands of lengths `ls` starting at linear offset `off` -/
def ends (t : List (Option Nat)) : Nat → List Nat → List (Nat × Nat)
  | _, [] => []
  | off, l :: ls => ((St t off).cl, (St t (off + l)).cl) :: ends t (off + l) ls

theorem ends_length (t : List (Option Nat)) (off : Nat) (ls : List Nat) :
    (ends t off ls).length = ls.length := by
  induction ls generalizing off with
  | nil => rfl
  | cons l ls ih => simp [ends, ih]

theorem ends_get (t : List (Option Nat)) (off : Nat) (ls : List Nat) (k : Nat) (a b : Nat)
    (h : (ends t off ls)[k]? = some (a, b)) :
    a = (St t (off + (ls.take k).sum)).cl ∧ b = (St t (off + (ls.take (k + 1)).sum)).cl := by
  induction ls generalizing off k with
  | nil => simp [ends] at h
  | cons l ls ih =>
    cases k with
    | zero =>
      simp only [ends, List.getElem?_cons_zero, Option.some.injEq, Prod.mk.injEq] at h
      simp [h.1, h.2]
    | succ k =>
      simp only [ends, List.getElem?_cons_succ] at h
      have := ih (off + l) k h
      simp only [List.take_succ_cons, List.sum_cons]
      rw [← Nat.add_assoc, ← Nat.add_assoc]
      exact this

theorem ends_get_of_lt (t : List (Option Nat)) (off : Nat) (ls : List Nat) (k : Nat) (hk : k < ls.length) :
    (ends t off ls)[k]? =
      some ((St t (off + (ls.take k).sum)).cl, (St t (off + (ls.take (k + 1)).sum)).cl) := by
  have hk' : k < (ends t off ls).length := by rw [ends_length]; exact hk
  cases hx : (ends t off ls)[k]? with
  | none => have := List.getElem?_eq_none_iff.mp hx; omega
  | some p =>
    obtain ⟨a, b⟩ := p
    obtain ⟨h1, h2⟩ := ends_get t off ls k a b hx
    rw [h1, h2]

theorem reshape_cons_drop {α} (t : List α) (off l : Nat) (ls : List Nat) :
    reshape (l :: ls) (t.drop off) = (t.drop off).take l :: reshape ls (t.drop (off + l)) := by
  simp [reshape, List.drop_drop]

theorem strand_length {α} (t : List α) (off l : Nat) (h : off + l ≤ t.length) :
    ((t.drop off).take l).length = l := by
  simp only [List.length_take, List.length_drop]; omega

/-- `components` mode: never fails, `myext` = `ends`, the exterior set is the set of strand-end loops -/
theorem scan_true (t : List (Option Nat)) (ls : List Nat) (off : Nat) (ext : List Nat)
    (my : List (Nat × Nat)) (h : off + ls.sum = t.length) :
    ∃ ext', loopScan true (reshape ls (t.drop off)) off (St t off) ext my
        = .ok (ext', my ++ ends t off ls, St t t.length) ∧
      ∀ x, x ∈ ext' ↔ x ∈ ext ∨ x ∈ (ends t off ls).map (·.2) := by
  induction ls generalizing off ext my with
  | nil =>
    simp only [List.sum_nil, Nat.add_zero] at h
    refine ⟨ext, ?_, ?_⟩
    · simp [reshape, loopScan, ends, h]
    · simp [ends]
  | cons l ls ih =>
    simp only [List.sum_cons] at h
    have hle : off + l ≤ t.length := by omega
    rw [reshape_cons_drop, loopScan_cons, strand_length t off l hle, St_add t off l hle]
    split
    · rename_i hc
      obtain ⟨ext', e1, e2⟩ := ih (off + l) ext (my ++ [((St t off).cl, (St t (off + l)).cl)]) (by omega)
      refine ⟨ext', ?_, ?_⟩
      · simp only [if_true, e1, ends, List.append_assoc, List.singleton_append]
      · intro x
        rw [e2 x]
        simp only [ends, List.map_cons, List.mem_cons]
        have : (St t (off + l)).cl ∈ ext := by simpa using hc
        constructor
        · rintro (h | h)
          · exact Or.inl h
          · exact Or.inr (Or.inr h)
        · rintro (h | h | h)
          · exact Or.inl h
          · exact Or.inl (h ▸ this)
          · exact Or.inr h
    · obtain ⟨ext', e1, e2⟩ := ih (off + l) (ext ++ [(St t (off + l)).cl])
        (my ++ [((St t off).cl, (St t (off + l)).cl)]) (by omega)
      refine ⟨ext', ?_, ?_⟩
      · simp only [e1, ends, List.append_assoc, List.singleton_append]
      · intro x
        rw [e2 x]
        simp only [ends, List.map_cons, List.mem_cons, List.mem_append, List.not_mem_nil, or_false]
        constructor
        · rintro ((h | h) | h)
          · exact Or.inl h
          · exact Or.inr (Or.inl h)
          · exact Or.inr (Or.inr h)
        · rintro (h | h | h)
          · exact Or.inl (Or.inl h)
          · exact Or.inl (Or.inr h)
          · exact Or.inr h

/-- plain mode: succeeds exactly when the strand-end loops are pairwise distinct (and new w.r.t. `ext`) -/
theorem scan_false (t : List (Option Nat)) (ls : List Nat) (off : Nat) (ext : List Nat)
    (my : List (Nat × Nat)) (h : off + ls.sum = t.length) :
    ((((ends t off ls).map (·.2)).Nodup ∧ ∀ x ∈ (ends t off ls).map (·.2), x ∉ ext) →
      loopScan false (reshape ls (t.drop off)) off (St t off) ext my
        = .ok (ext ++ (ends t off ls).map (·.2), my ++ ends t off ls, St t t.length)) ∧
    (¬ (((ends t off ls).map (·.2)).Nodup ∧ ∀ x ∈ (ends t off ls).map (·.2), x ∉ ext) →
      loopScan false (reshape ls (t.drop off)) off (St t off) ext my = .error .secondaryStructure) := by
  induction ls generalizing off ext my with
  | nil =>
    simp only [List.sum_nil, Nat.add_zero] at h
    simp [reshape, loopScan, ends, h]
  | cons l ls ih =>
    simp only [List.sum_cons] at h
    have hle : off + l ≤ t.length := by omega
    rw [reshape_cons_drop, loopScan_cons, strand_length t off l hle, St_add t off l hle]
    obtain ⟨i1, i2⟩ := ih (off + l) (ext ++ [(St t (off + l)).cl])
        (my ++ [((St t off).cl, (St t (off + l)).cl)]) (by omega)
    simp only [ends, List.map_cons, List.nodup_cons, List.mem_cons, forall_eq_or_imp]
    simp only [List.mem_append, List.mem_singleton, not_or] at i1 i2
    split
    · rename_i hc
      have hmem : (St t (off + l)).cl ∈ ext := by simpa using hc
      constructor
      · intro hh; exact absurd hmem hh.2.1
      · intro _; simp
    · rename_i hc
      have hmem : (St t (off + l)).cl ∉ ext := by simpa using hc
      constructor
      · intro hh
        rw [i1 ⟨hh.1.2, fun x hx => ⟨hh.2.2 x hx, fun e => hh.1.1 (e ▸ hx)⟩⟩]
        simp
      · intro hh
        apply i2
        intro hc2
        apply hh
        refine ⟨⟨?_, hc2.1⟩, hmem, fun x hx => (hc2.2 x hx).1⟩
        intro hx
        exact (hc2.2 _ hx).2 rfl

/-- plain-mode success implies the same result in `components` mode (any input) -/
theorem modes_agree (lin : List (List (Option Nat))) (off : Nat) (s : LoopSt) (ext : List Nat)
    (my : List (Nat × Nat)) (r) (h : loopScan false lin off s ext my = .ok r) :
    loopScan true lin off s ext my = .ok r := by
  induction lin generalizing off s ext my with
  | nil => simpa [loopScan] using h
  | cons strand rest ih =>
    rw [loopScan_cons] at h ⊢
    split
    · rename_i hc
      rw [if_pos hc] at h
      simp at h
    · rename_i hc
      rw [if_neg hc] at h
      exact ih _ _ _ _ h

/-! ### specification vocabulary (verbatim copies of the definitions in Props/C08Loop.lean) -/

def num (W : List Sym) (j : Nat) : Nat := ((W.take (j + 1)).filter (· == .op)).length

def Encl (W : List Sym) (M : Nat → Option Nat) (b j : Nat) : Prop :=
  W[j]? = some .op ∧ (∃ k, M j = some k ∧ j < b ∧ b ≤ k) ∧
  ∀ j', W[j']? = some .op → (∃ k', M j' = some k' ∧ j' < b ∧ b ≤ k') → j' ≤ j

def LoopAt (W : List Sym) (M : Nat → Option Nat) (b l : Nat) : Prop :=
  (∃ j, Encl W M b j ∧ l = num W j) ∨ ((¬ ∃ j, Encl W M b j) ∧ l = 0)

/-- number of opening brackets among the first `n` symbols -/
def cnt (W : List Sym) (n : Nat) : Nat := ((W.take n).filter (· == .op)).length

theorem num_eq_cnt (W : List Sym) (j : Nat) : num W j = cnt W (j + 1) := rfl

theorem cnt_succ (W : List Sym) (n : Nat) :
    cnt W (n + 1) = cnt W n + ((W[n]?.toList).filter (· == .op)).length := by
  unfold cnt; rw [List.take_add_one, List.filter_append, List.length_append]

theorem cnt_succ_op (W : List Sym) (n : Nat) (h : W[n]? = some .op) : cnt W (n + 1) = cnt W n + 1 := by
  rw [cnt_succ, h]; rfl

theorem cnt_succ_nop (W : List Sym) (n : Nat) (c : Sym) (h : W[n]? = some c) (hc : c ≠ .op) :
    cnt W (n + 1) = cnt W n := by
  rw [cnt_succ, h]; cases c <;> simp_all

theorem cnt_le_succ (W : List Sym) (n : Nat) : cnt W n ≤ cnt W (n + 1) := by
  rw [cnt_succ]; omega

theorem cnt_mono (W : List Sym) (a b : Nat) (h : a ≤ b) : cnt W a ≤ cnt W b := by
  induction b with
  | zero => have : a = 0 := by omega
            subst this; exact Nat.le_refl _
  | succ b ih =>
    by_cases hab : a ≤ b
    · exact Nat.le_trans (ih hab) (cnt_le_succ W b)
    · have : a = b + 1 := by omega
      subst this; exact Nat.le_refl _

theorem num_lt (W : List Sym) (i j : Nat) (hj : W[j]? = some .op) (h : i < j) : num W i < num W j := by
  rw [num_eq_cnt, num_eq_cnt, cnt_succ_op W j hj]
  have := cnt_mono W (i + 1) j (by omega)
  omega

theorem num_pos (W : List Sym) (j : Nat) (hj : W[j]? = some .op) : 0 < num W j := by
  rw [num_eq_cnt, cnt_succ_op W j hj]; omega

theorem num_inj (W : List Sym) (i j : Nat) (hi : W[i]? = some .op) (hj : W[j]? = some .op)
    (h : num W i = num W j) : i = j := by
  rcases Nat.lt_trichotomy i j with hlt | heq | hgt
  · have := num_lt W i j hj hlt; omega
  · exact heq
  · have := num_lt W j i hi hgt; omega

theorem Encl.unique {W M b j j'} (h1 : Encl W M b j) (h2 : Encl W M b j') : j = j' := by
  have := h1.2.2 j' h2.1 h2.2.1
  have := h2.2.2 j h1.1 h1.2.1
  omega

theorem LoopAt.unique {W M b l l'} (h1 : LoopAt W M b l) (h2 : LoopAt W M b l') : l = l' := by
  rcases h1 with ⟨j, hj, rfl⟩ | ⟨hn, rfl⟩ <;> rcases h2 with ⟨j', hj', rfl⟩ | ⟨hn', rfl⟩
  · rw [hj.unique hj']
  · exact absurd ⟨j, hj⟩ hn'
  · exact absurd ⟨j', hj'⟩ hn
  · rfl

/-! ### `loopStep` case by case -/

theorem loopStep_none (s : LoopSt) (i : Nat) :
    loopStep s i none = ⟨s.loopIndex ++ [s.cl], s.stack, s.cl, s.nl⟩ := rfl

theorem loopStep_op (s : LoopSt) (i j : Nat) (h : i < j) :
    loopStep s i (some j) = ⟨s.loopIndex ++ [s.nl + 1], i :: s.stack, s.nl + 1, s.nl + 1⟩ := by
  have h2 : ¬ j < i := by omega
  simp [loopStep, h, h2]

theorem loopStep_cl1 (s : LoopSt) (i j t : Nat) (h : j < i) (hst : s.stack = [t]) :
    loopStep s i (some j) = ⟨s.loopIndex ++ [s.cl], [], 0, s.nl⟩ := by
  have h2 : ¬ i < j := by omega
  simp [loopStep, h, h2, hst]

theorem loopStep_cl2 (s : LoopSt) (i j t t' : Nat) (r : List Nat) (h : j < i) (hst : s.stack = t :: t' :: r) :
    loopStep s i (some j) = ⟨s.loopIndex ++ [s.cl], t' :: r, (s.loopIndex ++ [s.cl]).getD t' 0, s.nl⟩ := by
  have h2 : ¬ i < j := by omega
  simp [loopStep, h, h2, hst]

/-! ### the invariant of the scan -/

structure LInv (W : List Sym) (M : Nat → Option Nat) (n : Nat) (s : LoopSt) : Prop where
  rel : ∃ tbl, Rel W M n ⟨tbl, s.stack⟩
  len : s.loopIndex.length = n
  nl : s.nl = cnt W n
  cl0 : s.stack = [] → s.cl = 0
  clt : ∀ t rest, s.stack = t :: rest → s.cl = num W t
  eop : ∀ i, i < n → W[i]? = some .op → s.loopIndex[i]? = some (num W i)
  ecl : ∀ i j, i < n → W[i]? = some .cl → M i = some j → s.loopIndex[i]? = some (num W j)
  edot : ∀ i l, i < n → W[i]? = some .dot → LoopAt W M i l → s.loopIndex[i]? = some l

theorem LInv.mem {W M n s} (h : LInv W M n s) :
    s.stack.Pairwise (· > ·) ∧
    ∀ i, i ∈ s.stack ↔ (i < n ∧ W[i]? = some .op ∧ ∃ j, n ≤ j ∧ M i = some j) := by
  obtain ⟨tbl, r⟩ := h.rel
  exact ⟨r.sorted, r.mem⟩

/-- the current loop is the loop of the gap before the next position -/
theorem LInv.loopAt {W M n s} (h : LInv W M n s) : LoopAt W M n s.cl := by
  obtain ⟨hs, hmem⟩ := h.mem
  cases hst : s.stack with
  | nil =>
    right
    refine ⟨?_, h.cl0 hst⟩
    rintro ⟨j, hj1, ⟨k, hk1, hk2, hk3⟩, _⟩
    have := (hmem j).mpr ⟨hk2, hj1, k, hk3, hk1⟩
    rw [hst] at this; simp at this
  | cons t rest =>
    left
    rw [hst] at hs
    simp only [List.pairwise_cons] at hs
    obtain ⟨a1, a2, k, a3, a4⟩ := (hmem t).mp (by rw [hst]; simp)
    refine ⟨t, ⟨a2, ⟨k, a4, a1, a3⟩, ?_⟩, h.clt t rest hst⟩
    rintro j' hj1 ⟨k', hk1, hk2, hk3⟩
    have := (hmem j').mpr ⟨hk2, hj1, k', hk3, hk1⟩
    rw [hst] at this
    simp only [List.mem_cons] at this
    rcases this with e | e
    · omega
    · have := hs.1 j' e; omega

theorem entries_step {W M n} {s : LoopSt} (h : LInv W M n s) (x : Nat)
    (hop : W[n]? = some .op → x = num W n)
    (hcl : ∀ j, W[n]? = some .cl → M n = some j → x = num W j)
    (hdot : ∀ l, W[n]? = some .dot → LoopAt W M n l → x = l) :
    (∀ i, i < n + 1 → W[i]? = some .op → (s.loopIndex ++ [x])[i]? = some (num W i)) ∧
    (∀ i j, i < n + 1 → W[i]? = some .cl → M i = some j → (s.loopIndex ++ [x])[i]? = some (num W j)) ∧
    (∀ i l, i < n + 1 → W[i]? = some .dot → LoopAt W M i l → (s.loopIndex ++ [x])[i]? = some l) := by
  have hl := h.len
  have e1 : ∀ i, i < n → (s.loopIndex ++ [x])[i]? = s.loopIndex[i]? :=
    fun i hi => List.getElem?_append_left (by omega)
  have e2 : (s.loopIndex ++ [x])[n]? = some x := by rw [← hl]; simp
  refine ⟨?_, ?_, ?_⟩
  · intro i hi hw
    by_cases hin : i < n
    · rw [e1 i hin]; exact h.eop i hin hw
    · have : i = n := by omega
      subst this; rw [e2, hop hw]
  · intro i j hi hw hm
    by_cases hin : i < n
    · rw [e1 i hin]; exact h.ecl i j hin hw hm
    · have : i = n := by omega
      subst this; rw [e2, hcl j hw hm]
  · intro i l hi hw hm
    by_cases hin : i < n
    · rw [e1 i hin]; exact h.edot i l hin hw hm
    · have : i = n := by omega
      subst this; rw [e2, hdot l hw hm]

theorem linv_init (W : List Sym) (M : Nat → Option Nat) : LInv W M 0 {} := by
  refine ⟨⟨[], ?_⟩, rfl, ?_, fun _ => rfl, ?_, ?_, ?_, ?_⟩
  · constructor <;> simp
  · simp [cnt]
  · intro t rest h; simp at h
  · intro i h; omega
  · intro i j h; omega
  · intro i l h; omega

theorem linv_step {W M} (hM : Matching W M) (n : Nat) (s : LoopSt) (c : Sym) (hc : W[n]? = some c)
    (h : LInv W M n s) : LInv W M (n + 1) (loopStep s n (M n)) := by
  obtain ⟨tbl, r⟩ := h.rel
  obtain ⟨s', hs', r'⟩ := rel_step W M hM n ⟨tbl, s.stack⟩ c hc r
  have hla := h.loopAt
  have hlen : tbl.length = n := r.len
  cases c with
  | dot =>
    have hMn : M n = none := hM.dot n hc
    simp only [step, Option.some.injEq] at hs'
    subst hs'
    rw [hMn, loopStep_none]
    obtain ⟨a1, a2, a3⟩ := entries_step h s.cl
      (by intro hh; rw [hc] at hh; simp at hh)
      (by intro j hh; rw [hc] at hh; simp at hh)
      (fun l _ hl => hla.unique hl)
    exact ⟨⟨_, r'⟩, by simp [h.len], by simp [h.nl, cnt_succ_nop W n _ hc], h.cl0, h.clt, a1, a2, a3⟩
  | op =>
    obtain ⟨j, hj1, hj2, hj3, hj4⟩ := hM.op n hc
    simp only [step, Option.some.injEq] at hs'
    subst hs'
    rw [hlen] at r'
    rw [hj2, loopStep_op _ _ _ hj1]
    have hnum : s.nl + 1 = num W n := by rw [h.nl, num_eq_cnt, cnt_succ_op W n hc]
    obtain ⟨a1, a2, a3⟩ := entries_step h (s.nl + 1)
      (fun _ => hnum)
      (by intro j hh; rw [hc] at hh; simp at hh)
      (by intro j hh; rw [hc] at hh; simp at hh)
    refine ⟨⟨_, r'⟩, by simp [h.len], by simp [h.nl, cnt_succ_op W n hc], ?_, ?_, a1, a2, a3⟩
    · intro e; simp at e
    · intro t rest e
      simp only [List.cons.injEq] at e
      rw [← e.1]; exact hnum
  | cl =>
    obtain ⟨j, hj1, hj2, hj3, hj4⟩ := hM.cl n hc
    obtain ⟨hs, hmem⟩ := h.mem
    cases hst : s.stack with
    | nil => simp [step, hst] at hs'
    | cons t rest =>
      simp only [step, hst, Option.some.injEq] at hs'
      subst hs'
      rw [hst] at hs
      simp only [List.pairwise_cons] at hs
      -- the popped bracket is the partner
      have htj : t = j := by
        obtain ⟨b1, b2, k, b3, b4⟩ := (hmem t).mp (by rw [hst]; simp)
        have hnot : t ∉ rest := fun e => by have := hs.1 t e; omega
        have hk : k = n := by
          apply Classical.byContradiction
          intro hne
          exact hnot ((r'.mem t).mpr ⟨by omega, b2, k, by omega, b4⟩)
        subst hk
        have := (hM.pair t k b4).2.2.2
        rw [hj2] at this
        exact (Option.some.inj this).symm
      subst htj
      have hcl : s.cl = num W t := h.clt t rest hst
      obtain ⟨a1, a2, a3⟩ := entries_step h s.cl
        (by intro hh; rw [hc] at hh; simp at hh)
        (by intro j' _ hh; rw [hj2] at hh; rw [← Option.some.inj hh]; exact hcl)
        (by intro j hh; rw [hc] at hh; simp at hh)
      rw [hj2]
      cases rest with
      | nil =>
        rw [loopStep_cl1 _ _ _ t hj1 hst]
        refine ⟨⟨_, r'⟩, by simp [h.len], by simp [h.nl, cnt_succ_nop W n _ hc], fun _ => rfl, ?_, a1, a2, a3⟩
        intro t' rest' e; simp at e
      | cons t' r'' =>
        rw [loopStep_cl2 _ _ _ t t' r'' hj1 hst]
        refine ⟨⟨_, r'⟩, by simp [h.len], by simp [h.nl, cnt_succ_nop W n _ hc], ?_, ?_, a1, a2, a3⟩
        · intro e; simp at e
        · intro t2 rest2 e
          simp only [List.cons.injEq] at e
          rw [← e.1]
          obtain ⟨b1, b2, _⟩ := (hmem t').mp (by rw [hst]; simp)
          show (s.loopIndex ++ [s.cl]).getD t' 0 = num W t'
          rw [List.getD_eq_getElem?_getD, a1 t' (by omega) b2]; rfl

/-- the invariant holds after every prefix of an accepted word -/
theorem linv_St (W : List Sym) (t : List (Option Nat)) (hM : Matching W (P t)) (hl : t.length = W.length) :
    ∀ n, n ≤ W.length → LInv W (P t) n (St t n) := by
  intro n
  induction n with
  | zero => intro _; exact linv_init W (P t)
  | succ n ih =>
    intro hn
    have hlt : n < t.length := by omega
    have hP : P t n = t[n] := by simp [P, List.getElem?_eq_getElem hlt]
    rw [St_succ t n hlt, ← hP]
    exact linv_step hM n (St t n) W[n] (List.getElem?_eq_getElem (by omega)) (ih (by omega))


/-! ### the loop-index and exterior-loop specifications -/

theorem take_sum_le (lens : List Nat) (k : Nat) : (lens.take k).sum ≤ lens.sum := by
  have := congrArg List.sum (List.take_append_drop k lens)
  rw [List.sum_append] at this
  omega

theorem St_zero (t : List (Option Nat)) : St t 0 = {} := rfl

theorem loop_index_spec (W : List Sym) (t : List (Option Nat)) (lens : List Nat)
    (hm : matchW W = some t) (hl : lens.sum = W.length) :
    ∃ ext my s, loopScan true (reshape lens t) 0 {} [] [] = .ok (ext, my, s) ∧
      s.loopIndex.length = W.length ∧
      (∀ i, W[i]? = some .op → s.loopIndex[i]? = some (num W i)) ∧
      (∀ i j, W[i]? = some .cl → P t i = some j → s.loopIndex[i]? = some (num W j)) ∧
      (∀ i l, W[i]? = some .dot → LoopAt W (P t) i l → s.loopIndex[i]? = some l) := by
  have hM := matchW_sound W t hm
  have htl := matchW_length W t hm
  obtain ⟨ext', e1, _⟩ := scan_true t lens 0 [] [] (by omega)
  have inv := linv_St W t hM htl W.length (Nat.le_refl _)
  rw [St_zero, List.drop_zero, List.nil_append, htl] at e1
  exact ⟨ext', _, _, e1, inv.len, fun i hi => inv.eop i (u_lt _ _ _ hi) hi,
    fun i j hi => inv.ecl i j (u_lt _ _ _ hi) hi, fun i l hi => inv.edot i l (u_lt _ _ _ hi) hi⟩

theorem exterior_spec (W : List Sym) (t : List (Option Nat)) (lens : List Nat)
    (hm : matchW W = some t) (hl : lens.sum = W.length) :
    ∃ ext my s, loopScan true (reshape lens t) 0 {} [] [] = .ok (ext, my, s) ∧
      my.length = lens.length ∧
      (∀ k a b, my[k]? = some (a, b) →
        LoopAt W (P t) ((lens.take k).sum) a ∧ LoopAt W (P t) ((lens.take (k + 1)).sum) b) ∧
      (∀ l, l ∈ ext ↔ ∃ (k : Nat) (a : Nat), my[k]? = some (a, l)) := by
  have hM := matchW_sound W t hm
  have htl := matchW_length W t hm
  obtain ⟨ext', e1, e2⟩ := scan_true t lens 0 [] [] (by omega)
  rw [St_zero, List.drop_zero, List.nil_append] at e1
  refine ⟨ext', _, _, e1, ends_length t 0 lens, ?_, ?_⟩
  · intro k a b hk
    obtain ⟨h1, h2⟩ := ends_get t 0 lens k a b hk
    simp only [Nat.zero_add] at h1 h2
    rw [h1, h2]
    have b1 := take_sum_le lens k
    have b2 := take_sum_le lens (k + 1)
    exact ⟨(linv_St W t hM htl _ (by omega)).loopAt, (linv_St W t hM htl _ (by omega)).loopAt⟩
  · intro l
    rw [e2 l]
    simp only [List.not_mem_nil, false_or, List.mem_map]
    constructor
    · rintro ⟨⟨a, b⟩, hp, rfl⟩
      obtain ⟨k, hk⟩ := List.mem_iff_getElem?.mp hp
      exact ⟨k, a, hk⟩
    · rintro ⟨k, a, hk⟩
      exact ⟨(a, l), List.mem_iff_getElem?.mpr ⟨k, hk⟩, rfl⟩

/-! ### `makeLoopIndex` on the output of `makePairTable` -/

theorem reshape_map {α β} (g : α → β) (lens : List Nat) (xs : List α) :
    (reshape lens xs).map (List.map g) = reshape lens (xs.map g) := by
  induction lens generalizing xs with
  | nil => rfl
  | cons l ls ih => simp [reshape, ih, List.map_take, List.map_drop]

theorem mpt_explicit (ss : List Char) (brk : Char) (pt : PairTable) (h : makePairTable ss brk = .ok pt) :
    ∃ syms t, matchW (List.flatten syms) = some t ∧
      pt = reshape (syms.map List.length) (t.map (fun o => o.map (toLocus (syms.map List.length)))) := by
  cases hm : (splitOn brk ss).mapM (fun s => s.mapM toSym) with
  | none => simp [makePairTable, hm] at h
  | some syms =>
    cases ht : matchW syms.flatten with
    | none => simp [makePairTable, hm, ht] at h
    | some t =>
      simp only [makePairTable, hm, ht, Except.ok.injEq] at h
      exact ⟨syms, t, ht, h.symm⟩

theorem makeLoopIndex_linear (ss : List Char) (brk : Char) (pt : PairTable) (comp : Bool)
    (h : makePairTable ss brk = .ok pt) :
    ∃ W t, matchW W = some t ∧ (pt.map List.length).sum = W.length ∧
      makeLoopIndex pt comp =
        (match loopScan comp (reshape (pt.map List.length) t) 0 {} [] [] with
         | .error e => .error e
         | .ok (ext, my, s) => .ok { loopIndex := reshape (pt.map List.length) s.loopIndex, exterior := ext, myext := my }) := by
  obtain ⟨syms, t, ht, hpt⟩ := mpt_explicit ss brk pt h
  have hM := matchW_sound _ t ht
  have htl := matchW_length _ t ht
  have hsum : (syms.map List.length).sum = syms.flatten.length := by rw [List.length_flatten]
  have hshape : pt.map List.length = syms.map List.length := by
    rw [hpt, reshape_shape]
    rw [List.length_map, htl, hsum]
  have hlin : pt.map (fun s => s.map (fun o => o.map (fromLocus (syms.map List.length)))) =
      reshape (syms.map List.length) t := by
    rw [hpt, reshape_map, List.map_map]
    congr 1
    conv => rhs; rw [← List.map_id t]
    apply List.map_congr_left
    intro a ha
    cases a with
    | none => rfl
    | some j =>
      obtain ⟨i, hi⟩ := List.mem_iff_getElem?.mp ha
      have hP : P t i = some j := by simp [P, hi]
      have hj := (hM.pair i j hP).2.1
      simp only [Function.comp, Option.map_some, id]
      rw [fromLocus_toLocus _ j (by omega)]
  refine ⟨syms.flatten, t, ht, by rw [hshape, hsum], ?_⟩
  unfold makeLoopIndex
  simp only [hshape, hlin]
  rfl


/-! ### strands and linear positions -/

theorem take_succ_sum (lens : List Nat) (k n : Nat) (h : lens[k]? = some n) :
    (lens.take (k + 1)).sum = (lens.take k).sum + n := by
  rw [List.take_add_one, List.sum_append, h]; simp

theorem take_sum_mono (lens : List Nat) (a b : Nat) (h : a ≤ b) :
    (lens.take a).sum ≤ (lens.take b).sum := by
  have := take_sum_le (lens.take b) a
  rw [List.take_take, Nat.min_eq_left h] at this
  exact this

theorem strand_bounds (lens : List Nat) (i : Nat) (h : i < lens.sum) :
    (toLocus lens i).1 < lens.length ∧ (lens.take (toLocus lens i).1).sum ≤ i ∧
      i < (lens.take ((toLocus lens i).1 + 1)).sum := by
  obtain ⟨n, h1, h2⟩ := toLocus_valid lens i h
  have h3 := fromLocus_toLocus lens i h
  unfold fromLocus at h3
  rw [take_succ_sum lens _ n h1]
  exact ⟨(List.getElem?_eq_some_iff.mp h1).1, by omega, by omega⟩

theorem strand_unique (lens : List Nat) (i k : Nat) (h : i < lens.sum)
    (h1 : (lens.take k).sum ≤ i) (h2 : i < (lens.take (k + 1)).sum) : (toLocus lens i).1 = k := by
  obtain ⟨_, b1, b2⟩ := strand_bounds lens i h
  rcases Nat.lt_trichotomy (toLocus lens i).1 k with hlt | heq | hgt
  · have := take_sum_mono lens ((toLocus lens i).1 + 1) k (by omega); omega
  · exact heq
  · have := take_sum_mono lens (k + 1) (toLocus lens i).1 (by omega); omega

theorem strand_gt_iff (lens : List Nat) (i k : Nat) (h : i < lens.sum) :
    k < (toLocus lens i).1 ↔ (lens.take (k + 1)).sum ≤ i := by
  obtain ⟨_, b1, b2⟩ := strand_bounds lens i h
  constructor
  · intro hk
    have := take_sum_mono lens (k + 1) (toLocus lens i).1 (by omega); omega
  · intro hk
    apply Classical.byContradiction
    intro hn
    have := take_sum_mono lens ((toLocus lens i).1 + 1) (k + 1) (by omega); omega

/-! ### facts about matchings -/

theorem op_of_lt {W M} (hM : Matching W M) (i j : Nat) (h : M i = some j) (hlt : i < j) :
    W[i]? = some .op := by
  obtain ⟨hi, _, _, _⟩ := hM.pair i j h
  rcases sym_cases W i hi with hs | hs | hs
  · exact hs
  · obtain ⟨k, h1, h2, _, _⟩ := hM.cl i hs
    rw [h] at h2; have := Option.some.inj h2; omega
  · rw [hM.dot i hs] at h; simp at h

theorem nest {W M} (hM : Matching W M) (i j k l : Nat) (h1 : M i = some j) (h2 : M k = some l)
    (hik : i < k) (hkj : k < j) : l < j := by
  have p1 := (hM.pair i j h1).2.2.2
  have p2 := (hM.pair k l h2).2.2.2
  rcases Nat.lt_trichotomy l j with hlt | heq | hgt
  · exact hlt
  · subst heq; rw [p1] at p2; have := Option.some.inj p2; omega
  · exact (hM.nocross i j k l h1 h2 hik hkj hgt).elim

theorem exists_max (Q : Nat → Prop) (B : Nat) (hB : ∀ j, Q j → j < B) (h : ∃ j, Q j) :
    ∃ j, Q j ∧ ∀ j', Q j' → j' ≤ j := by
  induction B with
  | zero => obtain ⟨j, hj⟩ := h; have := hB j hj; omega
  | succ B ih =>
    rcases Classical.em (Q B) with hq | hq
    · exact ⟨B, hq, fun j' hj' => by have := hB j' hj'; omega⟩
    · apply ih
      intro j hj
      have := hB j hj
      have : j ≠ B := fun e => hq (e ▸ hj)
      omega

/-- a gap enclosed by some pair has an innermost enclosing pair -/
theorem encl_exists {W M} (hM : Matching W M) (b i j : Nat) (h : M i = some j) (h1 : i < b) (h2 : b ≤ j) :
    ∃ j0, Encl W M b j0 := by
  obtain ⟨j0, hq, hmax⟩ := exists_max
    (fun j => W[j]? = some .op ∧ ∃ k, M j = some k ∧ j < b ∧ b ≤ k) b
    (fun j hj => by obtain ⟨_, k, _, hk, _⟩ := hj; exact hk)
    ⟨i, op_of_lt hM i j h (by omega), j, h, h1, h2⟩
  exact ⟨j0, hq.1, hq.2, fun j' a b => hmax j' ⟨a, b⟩⟩

/-- two gaps in the same loop have the same innermost enclosing pair -/
theorem same_encl {W M} (b1 b2 l : Nat) (h1 : LoopAt W M b1 l) (h2 : LoopAt W M b2 l) (j : Nat)
    (hj : Encl W M b1 j) : Encl W M b2 j := by
  rcases h1 with ⟨j1, e1, rfl⟩ | ⟨n1, rfl⟩
  · rcases h2 with ⟨j2, e2, hn⟩ | ⟨n2, hn⟩
    · have := num_inj W j1 j2 e1.1 e2.1 hn
      subst this
      rw [hj.unique e1]; exact e2
    · have := num_pos W j1 e1.1; omega
  · exact absurd ⟨j, hj⟩ n1

theorem no_straddle {W M} (hM : Matching W M) (b1 b2 l : Nat) (h1 : LoopAt W M b1 l)
    (h2 : LoopAt W M b2 l) (i j : Nat) (hij : M i = some j) (hlt : i < j) :
    ¬ (i < b1 ∧ b1 ≤ j ∧ j < b2) ∧ ¬ (b1 ≤ i ∧ i < b2 ∧ b2 ≤ j) := by
  have hop := op_of_lt hM i j hij hlt
  constructor
  · rintro ⟨c1, c2, c3⟩
    obtain ⟨j0, e1⟩ := encl_exists hM b1 i j hij c1 c2
    have e2 := same_encl b1 b2 l h1 h2 j0 e1
    obtain ⟨_, ⟨k, hk1, hk2, hk3⟩, max1⟩ := e1
    obtain ⟨_, ⟨k', hk1', hk2', hk3'⟩, _⟩ := e2
    rw [hk1] at hk1'; have := Option.some.inj hk1'; subst this
    have hle := max1 i hop ⟨j, hij, c1, c2⟩
    by_cases he : i = j0
    · subst he; rw [hij] at hk1; have := Option.some.inj hk1; omega
    · have := nest hM i j j0 k hij hk1 (by omega) (by omega); omega
  · rintro ⟨c1, c2, c3⟩
    obtain ⟨j0, e2⟩ := encl_exists hM b2 i j hij c2 c3
    have e1 := same_encl b2 b1 l h2 h1 j0 e2
    obtain ⟨_, ⟨k, hk1, hk2, hk3⟩, _⟩ := e1
    have hle := e2.2.2 i hop ⟨j, hij, c2, c3⟩
    omega

/-! ### connectivity -/

def Closed (lens : List Nat) (M : Nat → Option Nat) (S : Nat → Prop) : Prop :=
  ∀ i j, M i = some j → i < lens.sum → (S (toLocus lens i).1 ↔ S (toLocus lens j).1)

def Connected (lens : List Nat) (M : Nat → Option Nat) : Prop :=
  ∀ S : Nat → Prop, Closed lens M S → (∃ k, k < lens.length ∧ S k) → ∀ k, k < lens.length → S k

/-- two strand ends in the same loop: the strands between them are closed under pairing -/
theorem not_connected_of_same_loop {W M} (hM : Matching W M) (lens : List Nat) (hl : lens.sum = W.length)
    (k1 k2 l : Nat) (h12 : k1 < k2) (hk2 : k2 < lens.length)
    (h1 : LoopAt W M ((lens.take (k1 + 1)).sum) l) (h2 : LoopAt W M ((lens.take (k2 + 1)).sum) l) :
    ¬ Connected lens M := by
  intro hc
  have hclosed : Closed lens M (fun k => k1 < k ∧ k ≤ k2) := by
    intro i j hij hi
    obtain ⟨_, hj, hne, hji⟩ := hM.pair i j hij
    rw [← hl] at hj
    have a1 := strand_gt_iff lens i k1 hi
    have a2 := strand_gt_iff lens i k2 hi
    have a3 := strand_gt_iff lens j k1 hj
    have a4 := strand_gt_iff lens j k2 hj
    rcases Nat.lt_or_gt_of_ne hne with hlt | hgt
    · obtain ⟨n1, n2⟩ := no_straddle hM _ _ l h1 h2 i j hij hlt
      constructor
      · rintro ⟨c1, c2⟩
        refine ⟨a3.mpr (by have := a1.mp c1; omega), ?_⟩
        apply Classical.byContradiction; intro c3
        have := a4.mp (by omega)
        have := a1.mp c1
        exact n2 ⟨by omega, by
          apply Classical.byContradiction; intro c4
          have := a2.mpr (by omega); omega, by omega⟩
      · rintro ⟨c1, c2⟩
        have q1 := a3.mp c1
        have q2 : j < (lens.take (k2 + 1)).sum := by
          apply Classical.byContradiction; intro c4
          have := a4.mpr (by omega); omega
        have q3 : (lens.take (k1 + 1)).sum ≤ i := by
          apply Classical.byContradiction; intro c4
          exact n1 ⟨by omega, q1, q2⟩
        refine ⟨a1.mpr q3, ?_⟩
        apply Classical.byContradiction; intro c3
        have := a2.mp (by omega); omega
    · obtain ⟨n1, n2⟩ := no_straddle hM _ _ l h1 h2 j i hji hgt
      constructor
      · rintro ⟨c1, c2⟩
        have q1 := a1.mp c1
        have q2 : i < (lens.take (k2 + 1)).sum := by
          apply Classical.byContradiction; intro c4
          have := a2.mpr (by omega); omega
        have q3 : (lens.take (k1 + 1)).sum ≤ j := by
          apply Classical.byContradiction; intro c4
          exact n1 ⟨by omega, q1, q2⟩
        refine ⟨a3.mpr q3, ?_⟩
        apply Classical.byContradiction; intro c3
        have := a4.mp (by omega); omega
      · rintro ⟨c1, c2⟩
        refine ⟨a1.mpr (by have := a3.mp c1; omega), ?_⟩
        apply Classical.byContradiction; intro c3
        have := a2.mp (by omega)
        have := a3.mp c1
        exact n2 ⟨by omega, by
          apply Classical.byContradiction; intro c4
          have := a4.mpr (by omega); omega, by omega⟩
  have := hc _ hclosed ⟨k2, hk2, h12, Nat.le_refl _⟩ k1 (by omega)
  omega

theorem exists_dup_of_not_nodup (l : List Nat) (h : ¬ l.Nodup) :
    ∃ i j, i < j ∧ j < l.length ∧ l[i]? = l[j]? := by
  induction l with
  | nil => exact absurd List.nodup_nil h
  | cons a l ih =>
    by_cases ha : a ∈ l
    · obtain ⟨j, hj⟩ := List.mem_iff_getElem?.mp ha
      refine ⟨0, j + 1, by omega, ?_, by simp [hj]⟩
      have := (List.getElem?_eq_some_iff.mp hj).1
      simp; omega
    · have : ¬ l.Nodup := fun hn => h (List.nodup_cons.mpr ⟨ha, hn⟩)
      obtain ⟨i, j, h1, h2, h3⟩ := ih this
      exact ⟨i + 1, j + 1, by omega, by simp; omega, by simpa using h3⟩

theorem endsCl_get (t : List (Option Nat)) (lens : List Nat) (k : Nat) (hk : k < lens.length) :
    ((ends t 0 lens).map (·.2))[k]? = some (St t ((lens.take (k + 1)).sum)).cl := by
  rw [List.getElem?_map, ends_get_of_lt t 0 lens k hk]
  simp

theorem not_connected_of_error (W : List Sym) (t : List (Option Nat)) (lens : List Nat)
    (hm : matchW W = some t) (hl : lens.sum = W.length)
    (h : loopScan false (reshape lens t) 0 {} [] [] = .error .secondaryStructure) :
    ¬ Connected lens (P t) := by
  have hM := matchW_sound W t hm
  have htl := matchW_length W t hm
  obtain ⟨i1, _⟩ := scan_false t lens 0 [] [] (by omega)
  rw [St_zero, List.drop_zero] at i1
  have hnd : ¬ ((ends t 0 lens).map (·.2)).Nodup := by
    intro hn
    rw [i1 ⟨hn, fun x _ => by simp⟩] at h
    simp at h
  obtain ⟨k1, k2, h12, hk2, heq⟩ := exists_dup_of_not_nodup _ hnd
  rw [List.length_map, ends_length] at hk2
  rw [endsCl_get t lens k1 (by omega), endsCl_get t lens k2 hk2] at heq
  have heq := Option.some.inj heq
  have b1 := take_sum_le lens (k1 + 1)
  have b2 := take_sum_le lens (k2 + 1)
  have l1 := (linv_St W t hM htl _ (by omega : (lens.take (k1 + 1)).sum ≤ W.length)).loopAt
  have l2 := (linv_St W t hM htl _ (by omega : (lens.take (k2 + 1)).sum ≤ W.length)).loopAt
  rw [heq] at l1
  exact not_connected_of_same_loop hM lens hl k1 k2 _ h12 hk2 l1 l2


/-! ### connectivity, the converse: distinct strand-end loops imply a single component -/

theorem adj_strand (lens : List Nat) (g : Nat) (h0 : 0 < g) (hg : g < lens.sum)
    (hn : ∀ k, k < lens.length → g ≠ (lens.take (k + 1)).sum) :
    (toLocus lens (g - 1)).1 = (toLocus lens g).1 := by
  obtain ⟨a1, a2, a3⟩ := strand_bounds lens (g - 1) (by omega)
  have := hn _ a1
  exact (strand_unique lens g _ hg (by omega) (by omega)).symm

/-- walking from the opening bracket `j0` of a loop to the right along the top level of the loop, up to the
    gap `b`: no strand break of the loop is crossed, so the colour does not change -/
theorem walk_left {W M} (hM : Matching W M) (lens : List Nat) (hl : lens.sum = W.length)
    (S : Nat → Prop) (hS : Closed lens M S) (b j0 : Nat)
    (hnick : ∀ g, Encl W M g j0 → g < b → ∀ k, k < lens.length → g ≠ (lens.take (k + 1)).sum) :
    ∀ n g, g < n → g ≤ b → Encl W M g j0 → (S (toLocus lens (g - 1)).1 ↔ S (toLocus lens j0).1) := by
  intro n
  induction n with
  | zero => intro g h; omega
  | succ n ih =>
    intro g hgn hgb he
    obtain ⟨hop0, ⟨k0, hk0, hj0g, hgk0⟩, hmax⟩ := he
    obtain ⟨_, hk0len, _, hk0j0⟩ := hM.pair j0 k0 hk0
    by_cases hjg : g - 1 = j0
    · rw [hjg]
    · have hlt : j0 < g - 1 := by omega
      have hglen : g - 1 < W.length := by omega
      rcases sym_cases W (g - 1) hglen with hs | hs | hs
      · -- an opening bracket just before the gap would enclose it
        obtain ⟨q, hq1, hq2, _, _⟩ := hM.op (g - 1) hs
        have := hmax (g - 1) hs ⟨q, hq2, by omega, by omega⟩
        omega
      · -- a closing bracket: jump over its pair
        obtain ⟨j', hj1, hj2, hj3, hj4⟩ := hM.cl (g - 1) hs
        have hj0j' : j0 < j' := by
          rcases Nat.lt_trichotomy j' j0 with c | c | c
          · have := nest hM j' (g - 1) j0 k0 hj3 hk0 c hlt; omega
          · subst c; rw [hk0] at hj3; have := Option.some.inj hj3; omega
          · exact c
        have he' : Encl W M j' j0 := by
          refine ⟨hop0, ⟨k0, hk0, hj0j', by omega⟩, ?_⟩
          rintro j'' hop'' ⟨k'', hk1, hk2, hk3⟩
          by_cases hkg : g ≤ k''
          · exact hmax j'' hop'' ⟨k'', hk1, by omega, hkg⟩
          · exfalso
            have hback := (hM.pair j'' k'' hk1).2.2.2
            by_cases c1 : k'' = g - 1
            · rw [c1, hj2] at hback; have := Option.some.inj hback; omega
            · by_cases c2 : k'' = j'
              · rw [c2, hj3] at hback; have := Option.some.inj hback; omega
              · exact hM.nocross j'' k'' j' (g - 1) hk1 hj3 hk2 (by omega) (by omega)
        have hadj := adj_strand lens j' (by omega) (by omega) (hnick j' he' (by omega))
        have h1 := ih j' (by omega) (by omega) he'
        have h2 := hS (g - 1) j' hj2 (by omega)
        rw [h2, ← hadj]; exact h1
      · -- an unpaired position: step over it
        have hnone := hM.dot (g - 1) hs
        have he' : Encl W M (g - 1) j0 := by
          refine ⟨hop0, ⟨k0, hk0, hlt, by omega⟩, ?_⟩
          rintro j'' hop'' ⟨k'', hk1, hk2, hk3⟩
          have hback := (hM.pair j'' k'' hk1).2.2.2
          have : k'' ≠ g - 1 := by
            intro c; rw [c, hnone] at hback; simp at hback
          exact hmax j'' hop'' ⟨k'', hk1, by omega, by omega⟩
        have hadj := adj_strand lens (g - 1) (by omega) (by omega) (hnick (g - 1) he' (by omega))
        have h1 := ih (g - 1) (by omega) (by omega) he'
        rw [← hadj]; exact h1

/-- the same walk from the gap `b` to the closing bracket `k0` -/
theorem walk_right {W M} (hM : Matching W M) (lens : List Nat) (hl : lens.sum = W.length)
    (S : Nat → Prop) (hS : Closed lens M S) (b j0 k0 : Nat) (hk0 : M j0 = some k0)
    (hnick : ∀ g, Encl W M g j0 → b < g → ∀ k, k < lens.length → g ≠ (lens.take (k + 1)).sum) :
    ∀ n g, k0 - g < n → b ≤ g → Encl W M g j0 → (S (toLocus lens g).1 ↔ S (toLocus lens k0).1) := by
  intro n
  induction n with
  | zero => intro g h; omega
  | succ n ih =>
    intro g hgn hbg he
    obtain ⟨hop0, ⟨k0', hk0', hj0g, hgk0⟩, hmax⟩ := he
    rw [hk0] at hk0'; have := Option.some.inj hk0'; subst this
    obtain ⟨_, hk0len, _, hk0j0⟩ := hM.pair j0 k0 hk0
    by_cases hgk : g = k0
    · rw [hgk]
    · have hlt : g < k0 := by omega
      have hglen : g < W.length := by omega
      rcases sym_cases W g hglen with hs | hs | hs
      · -- an opening bracket: jump over its pair
        obtain ⟨q, hq1, hq2, hq3, hq4⟩ := hM.op g hs
        have hqk : q < k0 := nest hM j0 k0 g q hk0 hq2 hj0g hlt
        have he' : Encl W M (q + 1) j0 := by
          refine ⟨hop0, ⟨k0, hk0, by omega, by omega⟩, ?_⟩
          rintro j'' hop'' ⟨k'', hk1, hk2, hk3⟩
          have hne : j'' ≠ q := by
            intro c; rw [c, hq4] at hop''; simp at hop''
          by_cases c1 : j'' < g
          · exact hmax j'' hop'' ⟨k'', hk1, c1, by omega⟩
          · exfalso
            by_cases c2 : j'' = g
            · rw [c2, hq2] at hk1; have := Option.some.inj hk1; omega
            · exact hM.nocross g q j'' k'' hq2 hk1 (by omega) (by omega) (by omega)
        have hadj := adj_strand lens (q + 1) (by omega) (by omega) (hnick (q + 1) he' (by omega))
        have h1 := ih (q + 1) (by omega) (by omega) he'
        have h2 := hS g q hq2 (by omega)
        rw [h2]
        simp only [Nat.add_sub_cancel] at hadj
        rw [hadj]; exact h1
      · -- a closing bracket just after the gap would enclose it
        obtain ⟨j', hj1, hj2, hj3, hj4⟩ := hM.cl g hs
        have hle := hmax j' hj4 ⟨g, hj3, hj1, Nat.le_refl _⟩
        by_cases c : j' = j0
        · rw [c, hk0] at hj3; have := Option.some.inj hj3; omega
        · have := nest hM j' g j0 k0 hj3 hk0 (by omega) hj0g; omega
      · -- an unpaired position: step over it
        have hnone := hM.dot g hs
        have he' : Encl W M (g + 1) j0 := by
          refine ⟨hop0, ⟨k0, hk0, by omega, by omega⟩, ?_⟩
          rintro j'' hop'' ⟨k'', hk1, hk2, hk3⟩
          have : j'' ≠ g := by
            intro c; rw [c, hnone] at hk1; simp at hk1
          exact hmax j'' hop'' ⟨k'', hk1, by omega, by omega⟩
        have hadj := adj_strand lens (g + 1) (by omega) (by omega) (hnick (g + 1) he' (by omega))
        have h1 := ih (g + 1) (by omega) (by omega) he'
        simp only [Nat.add_sub_cancel] at hadj
        rw [hadj]; exact h1

theorem no_encl_at_end {W M} (hM : Matching W M) (j : Nat) : ¬ Encl W M W.length j := by
  rintro ⟨_, ⟨k, hk1, _, hk3⟩, _⟩
  have := (hM.pair j k hk1).2.1
  omega

theorem connected_of_distinct {W M} (hM : Matching W M) (lens : List Nat) (hl : lens.sum = W.length)
    (hpos : ∀ n ∈ lens, 0 < n)
    (D : ∀ k1 k2 l, k1 < lens.length → k2 < lens.length →
      LoopAt W M ((lens.take (k1 + 1)).sum) l → LoopAt W M ((lens.take (k2 + 1)).sum) l → k1 = k2) :
    Connected lens M := by
  intro S hS hex
  -- neighbouring strands have the same colour
  have hadj : ∀ k, k + 1 < lens.length → (S k ↔ S (k + 1)) := by
    intro k hk
    have hk' : k < lens.length := by omega
    have e1 := take_succ_sum lens k _ (List.getElem?_eq_getElem hk')
    have e2 := take_succ_sum lens (k + 1) _ (List.getElem?_eq_getElem hk)
    have p1 := hpos _ (List.getElem_mem hk')
    have p2 := hpos _ (List.getElem_mem hk)
    have e3 := take_sum_le lens (k + 1 + 1)
    have hb0 : 0 < (lens.take (k + 1)).sum := by omega
    have hbn : (lens.take (k + 1)).sum < lens.sum := by omega
    have s1 : (toLocus lens ((lens.take (k + 1)).sum - 1)).1 = k :=
      strand_unique lens _ k (by omega) (by omega) (by omega)
    have s2 : (toLocus lens ((lens.take (k + 1)).sum)).1 = k + 1 :=
      strand_unique lens _ (k + 1) hbn (by omega) (by omega)
    -- the loop of this strand break
    have hencl : ∃ j0, Encl W M ((lens.take (k + 1)).sum) j0 := by
      apply Classical.byContradiction
      intro hno
      have l1 : LoopAt W M ((lens.take (k + 1)).sum) 0 := Or.inr ⟨hno, rfl⟩
      have l2 : LoopAt W M ((lens.take (lens.length - 1 + 1)).sum) 0 := by
        rw [show lens.length - 1 + 1 = lens.length by omega, List.take_length, hl]
        exact Or.inr ⟨fun ⟨j, hj⟩ => no_encl_at_end hM j hj, rfl⟩
      have := D k (lens.length - 1) 0 hk' (by omega) l1 l2
      omega
    obtain ⟨j0, he⟩ := hencl
    have hla : LoopAt W M ((lens.take (k + 1)).sum) (num W j0) := Or.inl ⟨j0, he, rfl⟩
    have hnick : ∀ g, Encl W M g j0 → g ≠ (lens.take (k + 1)).sum →
        ∀ k', k' < lens.length → g ≠ (lens.take (k' + 1)).sum := by
      intro g hg hne k' hk'' e
      have : LoopAt W M ((lens.take (k' + 1)).sum) (num W j0) := by
        rw [← e]; exact Or.inl ⟨j0, hg, rfl⟩
      have := D k' k _ hk'' hk' this hla
      subst this
      exact hne e
    obtain ⟨k0, hk0, hj0b, hbk0⟩ := he.2.1
    have w1 := walk_left hM lens hl S hS ((lens.take (k + 1)).sum) j0
      (fun g hg hlt => hnick g hg (by omega))
      _ _ (Nat.lt_succ_self _) (Nat.le_refl _) he
    have w2 := walk_right hM lens hl S hS ((lens.take (k + 1)).sum) j0 k0 hk0
      (fun g hg hlt => hnick g hg (by omega))
      _ _ (Nat.lt_succ_self _) (Nat.le_refl _) he
    have w3 := hS j0 k0 hk0 (by omega)
    rw [s1] at w1
    rw [s2] at w2
    rw [w1, w2, w3]
  have hall : ∀ k, k < lens.length → (S k ↔ S 0) := by
    intro k
    induction k with
    | zero => intro _; exact Iff.rfl
    | succ k ih =>
      intro hk
      rw [← hadj k hk]; exact ih (by omega)
  obtain ⟨k, hk, hSk⟩ := hex
  intro k' hk'
  exact (hall k' hk').mpr ((hall k hk).mp hSk)

theorem error_of_not_connected (W : List Sym) (t : List (Option Nat)) (lens : List Nat)
    (hm : matchW W = some t) (hl : lens.sum = W.length) (hpos : ∀ n ∈ lens, 0 < n)
    (h : ¬ Connected lens (P t)) :
    loopScan false (reshape lens t) 0 {} [] [] = .error .secondaryStructure := by
  have hM := matchW_sound W t hm
  have htl := matchW_length W t hm
  obtain ⟨_, i2⟩ := scan_false t lens 0 [] [] (by omega)
  rw [St_zero, List.drop_zero] at i2
  apply i2
  rintro ⟨hn, _⟩
  apply h
  apply connected_of_distinct hM lens hl hpos
  intro k1 k2 l hk1 hk2 l1 l2
  have b1 := take_sum_le lens (k1 + 1)
  have b2 := take_sum_le lens (k2 + 1)
  have m1 := (linv_St W t hM htl _ (by omega : (lens.take (k1 + 1)).sum ≤ W.length)).loopAt
  have m2 := (linv_St W t hM htl _ (by omega : (lens.take (k2 + 1)).sum ≤ W.length)).loopAt
  have e1 := m1.unique l1
  have e2 := m2.unique l2
  have hlen : k1 < ((ends t 0 lens).map (·.2)).length := by
    rw [List.length_map, ends_length]; exact hk1
  apply (List.getElem?_inj hlen hn).mp
  rw [endsCl_get t lens k1 hk1, endsCl_get t lens k2 hk2, e1, e2]


end Dsd.Loop
