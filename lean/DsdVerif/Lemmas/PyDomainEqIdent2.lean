/-
(c) further branches of `py_DomainS_identifiers = DomFull.identifiers`.
-/
import DsdVerif.Lemmas.PyDomainEqIdent

namespace Dsd.PyDomainEq
open Dsd Dsd.Gen Dsd.PySingletonL

set_option maxHeartbeats 2000000 in
/-- branch "unstarred name, no length, no dtype": no nested request is made, whatever `request` / `nested` are; class and registry
    are unchanged and the canonical form is None -/
theorem identifiers_plain_name (request : Py.Dom.Req → Py.Dom.M Nat) (nested : Reg DKey → DomReq → Reg DKey × Out) (tmp : Nat)
    (s : Py.Dom.Cls) (r : Reg DKey) (cfg : DomCfg) (n : String) (hne : n ≠ "") (hst : isStarred n = false) (pfx : Option String) :
    (DomFull.identifiers nested cfg r { name := some n, prefix_ := pfx }).1 = r ∧
    (py_DomainS_identifiers request tmp cfg.cutoff cfg.shortLen cfg.longLen cfg.prefix_ (some n) none pfx none).exec s =
      (toIdents (DomFull.identifiers nested cfg r { name := some n, prefix_ := pfx }).2, s) := by
  obtain ⟨c, hc1, hc2⟩ := strLast_starred n hne
  have hcs : (c == '*') = false := by rw [hc2, hst]
  have hcn : (c != '*') = true := by simp [bne, hcs]
  have hemp : n.isEmpty = false := by simpa using hne
  unfold py_DomainS_identifiers DomFull.identifiers DomFull.identTail DomFull.lengthArg
  simp only [exec_ite, exec_bind, exec_get, exec_pure, exec_throw, exec_lift, exec_monadLift, exec_tryS, Py.unwrap, Py.Dom.truthyOS,
    Option.isNone_none, Option.isNone_some, Option.isSome_some, Option.isSome_none, if_true, if_false, Bool.false_eq_true, hc1, hcs, hcn,
    hemp, hst, Bool.not_true, Bool.not_false, pure_ok]
  constructor
  · simp
  · simp [toIdents, exec_ite, exec_bind, exec_pure, exec_throw, exec_lift] <;> rfl

end Dsd.PyDomainEq
