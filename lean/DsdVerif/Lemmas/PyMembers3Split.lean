/-
The translated generator `ComplexS.split` (Gen/PyComplexS2.lean) against the object-level model `World.splitC` (Model/World.lean): with a
`request` that answers as the world does along the run, `list(c.split())` is what `World.splitC` yields.
-/
import DsdVerif.Lemmas.PyObj2Split
import DsdVerif.Lemmas.PyIdentLoop
import DsdVerif.Props.PyFuncs
import DsdVerif.Model.World

set_option linter.unusedSimpArgs false
set_option linter.unusedVariables false

namespace Dsd.PyMembers3
open Dsd Gen PyObj PyObj2

/-- what `self.__class__(nseq, nsst)` returns / raises for an outcome of the world's request -/
def outView : Out → Except Err Nat
  | .ret id _ => .ok id
  | o => .error (PyIdent.errOfOut o)

/-- what `list(c.split())` is for the outcomes `World.splitC` lists: the objects, or the first outcome that is not an object -/
def outsView : List Out → Except Err (List Nat)
  | [] => .ok []
  | .ret id _ :: rest => (match outsView rest with | .ok l => .ok (id :: l) | .error e => .error e)
  | o :: _ => .error (PyIdent.errOfOut o)

/-- `request` answers as the world does, for every request of the run of `World.splitC`'s loop from the world `w` on (the world changes
    with every request: a component that is created is registered) -/
def Agrees (request : List String → List Char → Py.M Nat) (cls : Nat) (children : List Nat) :
    List (List (List String) × PairTable) → World → Prop
  | [], _ => True
  | p :: rest, w =>
    match strandTableToSequence "+" p.1 with
    | .error _ => True
    | .ok names =>
      request names (ptToDb p.2) = outView (w.mkCplxByNames cls names (ptToDb p.2) children).2 ∧
      (match (w.mkCplxByNames cls names (ptToDb p.2) children).2 with
       | .ret _ _ => Agrees request cls children rest (w.mkCplxByNames cls names (ptToDb p.2) children).1
       | _ => True)

/-- the world's request never answers "refused, existing object": `mkCplxByNames` hands that object over, as `split()` does -/
theorem mkCplxByNames_not_existing (w : World) (c : Nat) (names : List String) (sst : List Char) (ch : List Nat) (e : Nat) :
    (w.mkCplxByNames c names sst ch).2 ≠ .singletonErr (some e) := by
  have key : ∀ out : Out, (match out with | Out.singletonErr (some e) => Out.ret e false | o => o) ≠ Out.singletonErr (some e) := by
    intro out
    cases out with
    | singletonErr o => cases o <;> simp
    | _ => simp
  unfold World.mkCplxByNames
  cases w.cplxs[c]? with
  | none => simp
  | some cr =>
    simp only []
    exact key _

theorem outsView_append_rets (acc : List Out) (hacc : ∀ o ∈ acc, ∃ h b, o = .ret h b) (l : List Out) :
    outsView (acc ++ l) = (match outsView acc, outsView l with
      | .ok a, .ok b => .ok (a ++ b)
      | .ok _, .error e => .error e
      | .error e, _ => .error e) := by
  induction acc with
  | nil => simp [outsView]; cases outsView l <;> rfl
  | cons o rest ih =>
    obtain ⟨h, b, rfl⟩ := hacc _ (List.mem_cons_self)
    have := ih (fun o ho => hacc o (List.mem_cons_of_mem _ ho))
    simp only [List.cons_append, outsView, this]
    cases outsView rest <;> cases outsView l <;> rfl

theorem outsView_rets_ok (acc : List Out) (hacc : ∀ o ∈ acc, ∃ h b, o = .ret h b) : ∃ a, outsView acc = .ok a := by
  induction acc with
  | nil => exact ⟨[], rfl⟩
  | cons o rest ih =>
    obtain ⟨h, b, rfl⟩ := hacc _ (List.mem_cons_self)
    obtain ⟨a, ha⟩ := ih (fun o ho => hacc o (List.mem_cons_of_mem _ ho))
    exact ⟨h :: a, by simp [outsView, ha]⟩

/-- the loop of the translated generator (`splitRun`) is the loop of `World.splitC` (`go`), request by request -/
theorem splitRun_eq_go (request : List String → List Char → Py.M Nat) (nd : Node) (held : List Nat)
    (parts : List (List (List String) × PairTable)) :
    ∀ (w : World) (acc : List Out) (hacc : ∀ o ∈ acc, ∃ h b, o = .ret h b) (hag : Agrees request nd.cls nd.children parts w),
      outsView (World.splitC.go nd held parts w acc).2 =
        (match outsView acc, splitRun request parts with
         | .ok a, .ok b => .ok (a ++ b)
         | .ok _, .error e => .error e
         | .error e, _ => .error e) := by
  induction parts with
  | nil =>
    intro w acc hacc _
    obtain ⟨a, ha⟩ := outsView_rets_ok acc hacc
    simp [World.splitC.go, splitRun, ha]
  | cons p rest ih =>
    intro w acc hacc hag
    obtain ⟨a, ha⟩ := outsView_rets_ok acc hacc
    unfold World.splitC.go splitRun
    rw [PyFuncs.py_strand_table_to_sequence_list_eq, PyFuncs.py_pair_table_to_dot_bracket_eq]
    simp only [Agrees] at hag
    cases hn : strandTableToSequence "+" p.1 with
    | error e =>
      have he : e = .fault "TypeError" := by
        unfold strandTableToSequence at hn; cases hp : p.1 <;> simp [hp] at hn; exact hn.symm
      subst he
      simp only [ha]
      rw [outsView_append_rets acc hacc]
      simp [ha, outsView, PyIdent.errOfOut]
    | ok names =>
      rw [hn] at hag
      simp only [] at hag ⊢
      obtain ⟨hreq, hrest⟩ := hag
      rw [hreq]
      cases hout : (w.mkCplxByNames nd.cls names (ptToDb p.2) nd.children).2 with
      | ret id b =>
        rw [hout] at hrest
        have hacc' : ∀ o ∈ acc ++ [Out.ret id b], ∃ h b, o = .ret h b := by
          intro o ho; rcases List.mem_append.mp ho with ho | ho
          · exact hacc o ho
          · simp at ho; exact ⟨id, b, ho⟩
        have := ih (w.mkCplxByNames nd.cls names (ptToDb p.2) nd.children).1 (acc ++ [Out.ret id b]) hacc' hrest
        have hv : outsView (acc ++ [Out.ret id b]) = .ok (a ++ [id]) := by
          rw [outsView_append_rets acc hacc]; simp [ha, outsView]
        rw [hv] at this
        simp only [outView, answer, ha]
        rcases hm : w.mkCplxByNames nd.cls names (ptToDb p.2) nd.children with ⟨w', out⟩
        rw [hm] at hout this; simp only at hout; subst hout
        simp only []
        rw [this]
        cases splitRun request rest <;> simp
      | singletonErr e =>
        cases e with
        | some e => exact absurd hout (mkCplxByNames_not_existing _ _ _ _ _ e)
        | none =>
          rcases hm : w.mkCplxByNames nd.cls names (ptToDb p.2) nd.children with ⟨w', out⟩
          rw [hm] at hout; simp only at hout; subst hout
          simp [outView, answer, PyIdent.errOfOut, outsView, ha]
      | _ =>
        rcases hm : w.mkCplxByNames nd.cls names (ptToDb p.2) nd.children with ⟨w', out⟩
        rw [hm] at hout; simp only at hout; subst hout
        simp [outView, answer, PyIdent.errOfOut, outsView, ha]

end Dsd.PyMembers3
