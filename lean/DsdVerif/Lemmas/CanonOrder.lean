/-
The key order of complexes (`lexLt`, `strLt`, `ckeyLt`) is a strict total order; minimum of a list (C02).
-/
import DsdVerif.Model.Objects

namespace Dsd.Ord
open Dsd

/-- a strict total order given as a Boolean relation -/
structure STO {α} (lt : α → α → Bool) : Prop where
  irrefl : ∀ a, lt a a = false
  trans : ∀ a b c, lt a b = true → lt b c = true → lt a c = true
  total : ∀ a b, a = b ∨ lt a b = true ∨ lt b a = true

theorem lexLt_irrefl {α} [DecidableEq α] (lt : α → α → Bool) (a : List α) : lexLt lt a a = false := by
  induction a with
  | nil => rfl
  | cons x xs ih => simp [lexLt, ih]

theorem lexLt_trans {α} [DecidableEq α] (lt : α → α → Bool) (h : STO lt) :
    ∀ a b c : List α, lexLt lt a b = true → lexLt lt b c = true → lexLt lt a c = true := by
  intro a
  induction a with
  | nil =>
    intro b c h1 h2
    cases b with
    | nil => simp [lexLt] at h1
    | cons y ys =>
      cases c with
      | nil => simp [lexLt] at h2
      | cons z zs => rfl
  | cons x xs ih =>
    intro b c h1 h2
    cases b with
    | nil => simp [lexLt] at h1
    | cons y ys =>
      cases c with
      | nil => simp [lexLt] at h2
      | cons z zs =>
        simp only [lexLt] at h1 h2 ⊢
        by_cases hxy : x = y
        · subst hxy
          simp only [if_true] at h1
          by_cases hxz : x = z
          · subst hxz
            simp only [if_true] at h2 ⊢
            exact ih ys zs h1 h2
          · simp only [hxz, if_false] at h2 ⊢
            exact h2
        · simp only [hxy, if_false] at h1
          by_cases hyz : y = z
          · subst hyz
            simp only [hxy, if_false]
            exact h1
          · simp only [hyz, if_false] at h2
            have hxz := h.trans x y z h1 h2
            by_cases hxz' : x = z
            · subst hxz'
              rw [h.irrefl] at hxz; cases hxz
            · simp only [hxz', if_false]; exact hxz

theorem lexLt_total {α} [DecidableEq α] (lt : α → α → Bool) (h : STO lt) :
    ∀ a b : List α, a = b ∨ lexLt lt a b = true ∨ lexLt lt b a = true := by
  intro a
  induction a with
  | nil =>
    intro b
    cases b with
    | nil => left; rfl
    | cons y ys => right; left; rfl
  | cons x xs ih =>
    intro b
    cases b with
    | nil => right; right; rfl
    | cons y ys =>
      simp only [lexLt]
      by_cases hxy : x = y
      · subst hxy
        simp only [if_true]
        rcases ih ys with h1 | h1 | h1
        · left; rw [h1]
        · right; left; exact h1
        · right; right; exact h1
      · have hyx : ¬ y = x := fun e => hxy e.symm
        simp only [hxy, hyx, if_false]
        rcases h.total x y with h1 | h1 | h1
        · exact absurd h1 hxy
        · right; left; exact h1
        · right; right; exact h1

theorem lexLt_sto {α} [DecidableEq α] (lt : α → α → Bool) (h : STO lt) : STO (lexLt lt) :=
  ⟨lexLt_irrefl lt, lexLt_trans lt h, lexLt_total lt h⟩

def charLt (x y : Char) : Bool := x.toNat < y.toNat

theorem charLt_sto : STO charLt := by
  constructor
  · intro a; simp [charLt]
  · intro a b c h1 h2; simp only [charLt, decide_eq_true_eq] at *; omega
  · intro a b
    simp only [charLt, decide_eq_true_eq]
    by_cases h : a.toNat = b.toNat
    · left; exact Char.toNat_inj.mp h
    · right; omega

theorem strLt_sto : STO strLt := by
  have h := lexLt_sto charLt charLt_sto
  constructor
  · intro a; exact h.irrefl a.toList
  · intro a b c; exact h.trans a.toList b.toList c.toList
  · intro a b
    rcases h.total a.toList b.toList with h1 | h1 | h1
    · left; exact String.ext h1
    · right; left; exact h1
    · right; right; exact h1

theorem ckeyLt_sto : STO ckeyLt := by
  have hs := lexLt_sto strLt strLt_sto
  have hc := lexLt_sto charLt charLt_sto
  constructor
  · intro a; simp only [ckeyLt, if_true]; exact hc.irrefl a.2
  · intro a b c h1 h2
    simp only [ckeyLt] at h1 h2 ⊢
    by_cases hab : a.1 = b.1
    · simp only [hab, if_true] at h1
      by_cases hbc : b.1 = c.1
      · simp only [hbc, if_true] at h2
        simp only [hab, hbc, if_true]
        exact hc.trans _ _ _ h1 h2
      · simp only [hbc, if_false] at h2
        simp only [hab, hbc, if_false]; exact h2
    · simp only [hab, if_false] at h1
      by_cases hbc : b.1 = c.1
      · simp only [← hbc, hab, if_false]; exact h1
      · simp only [hbc, if_false] at h2
        have hac := hs.trans _ _ _ h1 h2
        by_cases hac' : a.1 = c.1
        · rw [hac', hs.irrefl] at hac; cases hac
        · simp only [hac', if_false]; exact hac
  · intro a b
    simp only [ckeyLt]
    by_cases hab : a.1 = b.1
    · simp only [hab, if_true]
      rcases hc.total a.2 b.2 with h1 | h1 | h1
      · left; exact Prod.ext hab h1
      · right; left; exact h1
      · right; right; exact h1
    · have hba : ¬ b.1 = a.1 := fun e => hab e.symm
      simp only [hab, hba, if_false]
      rcases hs.total a.1 b.1 with h1 | h1 | h1
      · exact absurd h1 hab
      · right; left; exact h1
      · right; right; exact h1

/-! ### minimum of a list -/

theorem foldl_min_spec {α} (lt : α → α → Bool) (h : STO lt) (ks : List α) (k : α) :
    let m := ks.foldl (fun m x => if lt x m then x else m) k
    m ∈ k :: ks ∧ (∀ x ∈ k :: ks, lt x m = false) := by
  induction ks generalizing k with
  | nil => simp [h.irrefl]
  | cons x xs ih =>
    simp only [List.foldl_cons]
    by_cases hx : lt x k = true
    · simp only [hx, if_true]
      obtain ⟨h1, h2⟩ := ih x
      refine ⟨?_, ?_⟩
      · simp only [List.mem_cons] at h1 ⊢
        rcases h1 with h1 | h1
        · right; left; exact h1
        · right; right; exact h1
      · intro y hy
        simp only [List.mem_cons] at hy
        rcases hy with rfl | rfl | hy
        · -- y = k : if k < m then x < k < m, but ¬ x < m
          cases hkm : lt y (xs.foldl (fun m x => if lt x m then x else m) x) with
          | false => rfl
          | true =>
            have := h.trans _ _ _ hx hkm
            rw [h2 x (by simp)] at this; cases this
        · exact h2 y (by simp)
        · exact h2 y (by simp [hy])
    · have hx' : lt x k = false := by simpa using hx
      simp only [hx', Bool.false_eq_true, if_false]
      obtain ⟨h1, h2⟩ := ih k
      refine ⟨?_, ?_⟩
      · simp only [List.mem_cons] at h1 ⊢
        rcases h1 with h1 | h1
        · left; exact h1
        · right; right; exact h1
      · intro y hy
        simp only [List.mem_cons] at hy
        rcases hy with rfl | rfl | hy
        · exact h2 y (by simp)
        · -- y = x, ¬ x < k, m ≤ k
          cases hym : lt y (xs.foldl (fun m x => if lt x m then x else m) k) with
          | false => rfl
          | true =>
            exfalso
            have hmk := h2 k (by simp)
            rcases h.total (xs.foldl (fun m x => if lt x m then x else m) k) k with e | e | e
            · rw [e] at hym; exact hx hym
            · exact hx (h.trans _ _ _ hym e)
            · rw [hmk] at e; cases e
        · exact h2 y (by simp [hy])

theorem minKey_spec (ks : List CKey) (c : CKey) (h : minKey ks = some c) :
    c ∈ ks ∧ ∀ x ∈ ks, ckeyLt x c = false := by
  cases ks with
  | nil => simp [minKey] at h
  | cons k ks =>
    simp only [minKey, Option.some.injEq] at h
    rw [← h]
    exact foldl_min_spec ckeyLt ckeyLt_sto ks k

theorem minKey_isSome (ks : List CKey) (h : ks ≠ []) : ∃ c, minKey ks = some c := by
  cases ks with
  | nil => exact absurd rfl h
  | cons k ks => exact ⟨_, rfl⟩

/-- two lists with the same elements have the same minimum -/
theorem min_unique {α} (lt : α → α → Bool) (h : STO lt) (l1 l2 : List α) (c1 c2 : α)
    (hs : ∀ x, x ∈ l1 ↔ x ∈ l2)
    (h1 : c1 ∈ l1 ∧ ∀ x ∈ l1, lt x c1 = false) (h2 : c2 ∈ l2 ∧ ∀ x ∈ l2, lt x c2 = false) : c1 = c2 := by
  rcases h.total c1 c2 with e | e | e
  · exact e
  · rw [h2.2 c1 ((hs c1).mp h1.1)] at e; cases e
  · rw [h1.2 c2 ((hs c2).mpr h2.1)] at e; cases e

end Dsd.Ord
