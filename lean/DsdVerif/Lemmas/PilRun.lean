/-
Symbolic execution of the PIL grammar (Gen/Grammars.lean) on domain statements, built from the
toolkit in Lemmas/PPRun.lean.
-/
import DsdVerif.Gen.Grammars
import DsdVerif.Lemmas.PPRun

namespace Dsd.Pil
open Dsd.PP Dsd.Gen

/-! ### characters -/

abbrev identChars : List Char := pp_alphanums ++ ['_', '-']

theorem ident_facts : ∀ c ∈ identChars, isWs c = false ∧ c ≠ '#' ∧ c ≠ '=' ∧ c ≠ ':' ∧ c ≠ '*' ∧
    c ≠ '\n' ∧ c ≠ ' ' ∧ c ≠ '\t' := by decide
theorem nums_facts : ∀ c ∈ pp_nums, c ∈ identChars ∧ c ∉ pp_alphas := by decide
theorem alphas_facts : ∀ c ∈ pp_alphas, c ∈ identChars ∧ c ∉ pp_nums := by decide
theorem outside_facts : ∀ c ∈ [' ', '\n', '=', ':', '*', '#'], c ∉ identChars := by decide

theorem outside_nums (c : Char) (h : c ∉ identChars) : c ∉ pp_nums := fun hc => h (nums_facts c hc).1
theorem outside_alphas (c : Char) (h : c ∉ identChars) : c ∉ pp_alphas := fun hc => h (alphas_facts c hc).1

/-- the first character of `r` (if any) satisfies `P` -/
def OutHd (P : Char → Prop) (r : List Char) : Prop := ∀ x, r.head? = some x → P x

theorem OutHd_nil (P : Char → Prop) : OutHd P [] := by intro x h; simp at h
theorem OutHd_cons (P : Char → Prop) (c : Char) (r : List Char) (h : P c) : OutHd P (c :: r) := by
  intro x hx; simp at hx; exact hx ▸ h
theorem OutHd_blanks (P : Char → Prop) (n : Nat) (r : List Char) (h : P ' ') (hr : OutHd P r) :
    OutHd P (List.replicate n ' ' ++ r) := by
  cases n with
  | zero => simpa using hr
  | succ n => intro x hx; simp [List.replicate_succ] at hx; exact hx ▸ h
theorem OutHd_blanks_pos (P : Char → Prop) (n : Nat) (hn : 0 < n) (r : List Char) (h : P ' ') :
    OutHd P (List.replicate n ' ' ++ r) := by
  obtain ⟨k, rfl⟩ : ∃ k, n = k + 1 := ⟨n - 1, by omega⟩
  intro x hx; simp [List.replicate_succ] at hx; exact hx ▸ h
/-- at least one blank: what a statement keyword must be followed by -/
theorem OutHd_kw_blanks (n : Nat) (hn : 0 < n) (r : List Char) :
    OutHd (fun x => x ∉ identChars) (List.replicate n ' ' ++ r) :=
  OutHd_blanks_pos _ n hn r (outside_facts ' ' (by decide))
theorem OutHd.imp {P Q : Char → Prop} {r : List Char} (h : OutHd P r) (hpq : ∀ x, P x → Q x) : OutHd Q r :=
  fun x hx => hpq x (h x hx)

/-! ### components -/

/-- a statement keyword at the very beginning of the remaining input, followed by the end of the text or a
    character that is not an identifier character (a blank, `=`, …) -/
theorem Ok_kw (env : Env) (c : Char) (s r : List Char) (hc : isWs c = false) (hc' : c ≠ '#')
    (hr : OutHd (fun x => x ∉ identChars) r) :
    Ok env 2 {} (.suppress (.kw (c :: s) identChars)) { rest := c :: (s ++ r), past := false }
      ({ rest := r, past := false }, []) :=
  Ok_suppress (Ok_keyword env {} (c :: s) identChars _ r (by rw [pre_skip]; exact skipIgn_cons c _ hc hc') rfl hr)

/-- … it fails when an identifier character follows: the keyword is a proper prefix of a longer name -/
theorem No_kw_ident (env : Env) (c : Char) (s : List Char) (x : Char) (r : List Char) (hc : isWs c = false)
    (hc' : c ≠ '#') (hx : x ∈ identChars) :
    No env 2 {} (.suppress (.kw (c :: s) identChars)) { rest := c :: (s ++ x :: r), past := false } :=
  No_suppress (No_keyword_ident env {} (c :: s) identChars _ x r (by rw [pre_skip]; exact skipIgn_cons c _ hc hc') hx)

/-- … and when the text does not start with the keyword -/
theorem No_kw (env : Env) (s : List Char) (p : Pos) (h : stripPrefix s (skipIgn p.rest) = none) :
    No env 2 {} (.suppress (.kw s identChars)) p :=
  No_suppress (No_keyword env {} s identChars p (by rw [pre_skip]; exact h))

theorem join2 (a b : List Char) : String.join [String.ofList a, String.ofList b] = String.ofList (a ++ b) := by
  simp [String.join, String.ofList_append]
theorem join1 (a : List Char) : String.join [String.ofList a] = String.ofList a := by
  simp [String.join]

def star (b : Bool) : List Char := if b then ['*'] else []

/-- `pil_domain`: an identifier with an optional, adjacent `*` -/
theorem Ok_domain (env : Env) (n : Nat) (c : Char) (m : List Char) (st : Bool) (r : List Char)
    (hc : c ∈ identChars) (hm : ∀ x ∈ m, x ∈ identChars)
    (hr : OutHd (fun x => x ∉ identChars ∧ x ≠ '*') r) :
    Ok env 6 {} pil_domain { rest := List.replicate n ' ' ++ (c :: m ++ (star st ++ r)), past := false }
      ({ rest := r, past := false }, [.tok (String.ofList (c :: m ++ star st))]) := by
  have hcf := ident_facts c hc
  have hpre : pre {} { rest := List.replicate n ' ' ++ (c :: m ++ (star st ++ r)), past := false } =
      { rest := c :: (m ++ (star st ++ r)), past := false } := by
    show (⟨skipIgn _, false⟩ : Pos) = _
    rw [List.cons_append, skipIgn_blanks_cons n c _ hcf.1 hcf.2.1]
  have hword : Ok env 1 { skip := false } pil_identifier { rest := c :: (m ++ (star st ++ r)), past := false }
      ({ rest := star st ++ r, past := false }, [.tok (String.ofList (c :: m))]) := by
    apply Ok_word env { skip := false } _ _ _ c m (star st ++ r) rfl hc hm
    cases st with
    | true => exact OutHd_cons _ _ _ (outside_facts '*' (by decide))
    | false => exact fun x hx => (hr x hx).1
  unfold pil_domain
  cases st with
  | true =>
    have hstar : Ok env 1 { skip := false } (.lit ['*']) { rest := star true ++ r, past := false }
        ({ rest := r, past := false }, [.tok (String.ofList ['*'])]) :=
      Ok_lit env _ ['*'] _ r rfl rfl
    have := Ok_combine (ctx := {}) (toks := [String.ofList (c :: m), String.ofList ['*']]) (N' := 3)
      (hpre ▸ Ok_seq (OkSeq_cons hword (OkSeq_cons (Ok_opt_some hstar) (OkSeq_nil env _ _))))
      (by intro f hf; obtain ⟨k, rfl⟩ : ∃ k, f = k + 3 := ⟨f - 3, by omega⟩; simp [flatToks])
    rw [join2] at this
    exact this.mono (by decide)
  | false =>
    have hno : No env 1 { skip := false } (.lit ['*']) { rest := star false ++ r, past := false } := by
      apply No_lit
      show stripPrefix ['*'] r = none
      cases r with
      | nil => rfl
      | cons x t =>
        have := (hr x rfl).2
        simp [stripPrefix, Ne.symm this]
    have := Ok_combine (ctx := {}) (toks := [String.ofList (c :: m)]) (N' := 2)
      (hpre ▸ Ok_seq (OkSeq_cons hword (OkSeq_cons (Ok_opt_none hno) (OkSeq_nil env _ _))))
      (by intro f hf; obtain ⟨k, rfl⟩ : ∃ k, f = k + 2 := ⟨f - 2, by omega⟩; simp [flatToks])
    rw [join1] at this
    simpa [star] using this.mono (by decide)

/-- `Suppress(assign)` -/
theorem Ok_assign (env : Env) (n : Nat) (sign : Char) (hs : sign = '=' ∨ sign = ':') (r : List Char) :
    Ok env 5 {} (.suppress pil_assign) { rest := List.replicate n ' ' ++ (sign :: r), past := false }
      ({ rest := r, past := false }, []) := by
  unfold pil_assign
  rcases hs with rfl | rfl
  · have h1 : Ok env 1 {} (.lit ['=']) { rest := List.replicate n ' ' ++ ('=' :: r), past := false }
        ({ rest := r, past := false }, [.tok (String.ofList ['='])]) :=
      Ok_lit env {} ['='] _ r (by rw [pre_skip]; exact skipIgn_blanks_cons n '=' r (by decide) (by decide)) rfl
    exact (Ok_suppress (Ok_alt (OkAlt_head h1))).mono (by decide)
  · have hskip : (pre {} { rest := List.replicate n ' ' ++ (':' :: r), past := false }).rest = ':' :: r := by
      rw [pre_skip]; exact skipIgn_blanks_cons n ':' r (by decide) (by decide)
    have h0 : No env 1 {} (.lit ['=']) { rest := List.replicate n ' ' ++ (':' :: r), past := false } := by
      apply No_lit; rw [hskip]; simp [stripPrefix]
    have h1 : Ok env 1 {} (.lit [':']) { rest := List.replicate n ' ' ++ (':' :: r), past := false }
        ({ rest := r, past := false }, [.tok (String.ofList [':'])]) :=
      Ok_lit env {} [':'] _ r hskip rfl
    exact (Ok_suppress (Ok_alt (OkAlt_tail h0 (OkAlt_head h1)))).mono (by decide)

/-- `Suppress(assign)` fails when the next character is neither `=` nor `:` -/
theorem No_assign (env : Env) (p : Pos) (c : Char) (t : List Char) (h : skipIgn p.rest = c :: t)
    (h1 : c ≠ '=') (h2 : c ≠ ':') : No env 5 {} (.suppress pil_assign) p := by
  unfold pil_assign
  have a1 : No env 1 {} (.lit ['=']) p := by
    apply No_lit; rw [pre_skip, h]; simp [stripPrefix, Ne.symm h1]
  have a2 : No env 1 {} (.lit [':']) p := by
    apply No_lit; rw [pre_skip, h]; simp [stripPrefix, Ne.symm h2]
  exact (No_suppress (No_alt (NoAlt_cons a1 (NoAlt_cons a2 (NoAlt_nil env _ _))))).mono (by decide)

/-- a `Word` over one character class -/
theorem Ok_class (env : Env) (cls : List Char) (n : Nat) (c : Char) (m r : List Char)
    (hsub : ∀ x ∈ cls, x ∈ identChars) (hc : c ∈ cls) (hm : ∀ x ∈ m, x ∈ cls)
    (hr : OutHd (fun x => x ∉ cls) r) :
    Ok env 1 {} (.word cls cls) { rest := List.replicate n ' ' ++ (c :: m ++ r), past := false }
      ({ rest := r, past := false }, [.tok (String.ofList (c :: m))]) := by
  have hcf := ident_facts c (hsub c hc)
  exact Ok_word env {} cls cls _ c m r
    (by rw [pre_skip, List.cons_append]; exact skipIgn_blanks_cons n c _ hcf.1 hcf.2.1) hc hm hr

theorem No_class (env : Env) (cls : List Char) (n : Nat) (c : Char) (t : List Char)
    (hc : c ∉ cls) (hws : isWs c = false) (hh : c ≠ '#') :
    No env 1 {} (.word cls cls) { rest := List.replicate n ' ' ++ (c :: t), past := false } :=
  No_word_cons env {} cls cls _ c t (by rw [pre_skip]; exact skipIgn_blanks_cons n c t hws hh) hc

/-- `OneOrMore(Suppress(LineEnd))` on a final newline -/
theorem Ok_eol_nl (env : Env) (rest : List Char) (h : skipIgn rest = ['\n']) :
    Ok env 6 {} (.many1 (.suppress .lineEnd)) { rest := rest, past := false } ({ rest := [], past := true }, []) := by
  have h1 : Ok env 2 {} (.suppress .lineEnd) { rest := rest, past := false } ({ rest := [], past := false }, []) :=
    Ok_suppress (Ok_lineEnd_nl env {} _ [] (by rw [pre_skip]; exact h))
  have h2 : Ok env 2 {} (.suppress .lineEnd) { rest := [], past := false } ({ rest := [], past := true }, []) :=
    Ok_suppress (Ok_lineEnd_eof env {} _ rfl rfl)
  have h3 : No env 2 {} (.suppress .lineEnd) { rest := [], past := true } :=
    No_suppress (No_lineEnd_past env {} _ rfl rfl)
  have := Ok_many1 h1 (OkMany_step h2 (by simp) (OkMany_stop h3))
  simpa using this.mono (by decide)

/-- … and at the end of the input (possibly after blanks and a comment) -/
theorem Ok_eol_end (env : Env) (rest : List Char) (h : skipIgn rest = []) :
    Ok env 5 {} (.many1 (.suppress .lineEnd)) { rest := rest, past := false } ({ rest := [], past := true }, []) := by
  have h2 : Ok env 2 {} (.suppress .lineEnd) { rest := rest, past := false } ({ rest := [], past := true }, []) :=
    Ok_suppress (Ok_lineEnd_eof env {} _ (by rw [pre_skip]; exact h) rfl)
  have h3 : No env 2 {} (.suppress .lineEnd) { rest := [], past := true } :=
    No_suppress (No_lineEnd_past env {} _ rfl rfl)
  have := Ok_many1 h2 (OkMany_stop h3)
  simpa using this.mono (by decide)

/-- end-of-statement tails: blanks, then a newline that ends the text, or the end of the text / a comment -/
def EolTail (tail : List Char) : Prop := skipIgn tail = ['\n'] ∨ skipIgn tail = []

theorem Ok_eol (env : Env) (tail : List Char) (h : EolTail tail) :
    Ok env 6 {} (.many1 (.suppress .lineEnd)) { rest := tail, past := false } ({ rest := [], past := true }, []) := by
  rcases h with h | h
  · exact Ok_eol_nl env tail h
  · exact (Ok_eol_end env tail h).mono (by decide)

theorem EolTail_nl (e : Nat) : EolTail (List.replicate e ' ' ++ ['\n']) :=
  Or.inl (skipIgn_blanks_cons e '\n' [] (by decide) (by decide))

theorem EolTail_comment (e : Nat) (comment : List Char) (h : '\n' ∉ comment) :
    EolTail (List.replicate e ' ' ++ '#' :: comment) := Or.inr (skipIgn_comment e comment h)

/-! ### statement bodies -/

/-- a statement alternative `Group(tag(Suppress(Keyword s) + …))` fails when the text does not start with `s` -/
theorem No_gts (env : Env) (t : String) (s : List Char) (gs : List G) (p : Pos)
    (h : stripPrefix s (skipIgn p.rest) = none) :
    No env 6 {} (.group (.tag t (.seq (.suppress (.kw s identChars) :: gs)))) p :=
  No_group (No_tag (No_seq (NoSeq_head (No_kw env s p h))))

theorem No_gts_past (env : Env) (t : String) (s : List Char) (gs : List G) (p : Pos) (h : p.past = true) :
    No env 6 {} (.group (.tag t (.seq (.suppress (.kw s identChars) :: gs)))) p :=
  No_group (No_tag (No_seq (NoSeq_head (No_suppress (No_keyword_past env {} s identChars p h)))))

/-- nothing of `pil_stmt` matches once the virtual end-of-input line end has been consumed -/
theorem No_stmt_end (env : Env) : No env 20 {} pil_stmt { rest := [], past := true } := by
  unfold pil_stmt pil_sl_domain pil_dl_domain pil_comp_domain pil_strand pil_strandcomplex pil_reaction
    pil_cplx pil_restingset
  have hw : No env 1 {} pil_identifier { rest := [], past := true } := No_word_nil env {} _ _ _ rfl
  refine (No_alt (NoAlt_cons (No_gts_past env _ _ _ _ rfl)
    (NoAlt_cons (No_alt (NoAlt_cons (No_gts_past env _ _ _ _ rfl) (NoAlt_cons (No_gts_past env _ _ _ _ rfl)
      (NoAlt_cons (No_gts_past env _ _ _ _ rfl) (NoAlt_nil env _ _)))))
    (NoAlt_cons (No_gts_past env _ _ _ _ rfl)
    (NoAlt_cons (No_gts_past env _ _ _ _ rfl)
    (NoAlt_cons (No_alt (NoAlt_cons (No_gts_past env _ _ _ _ rfl) (NoAlt_cons (No_gts_past env _ _ _ _ rfl)
      (NoAlt_nil env _ _))))
    (NoAlt_cons (No_alt (NoAlt_cons (No_gts_past env _ _ _ _ rfl) (NoAlt_cons (No_gts_past env _ _ _ _ rfl)
      (NoAlt_nil env _ _))))
    (NoAlt_cons (No_group (No_tag (No_seq (NoSeq_head hw))))
    (NoAlt_cons (No_alt (NoAlt_cons (No_gts_past env _ _ _ _ rfl) (NoAlt_cons (No_gts_past env _ _ _ _ rfl)
      (NoAlt_nil env _ _))))
    (NoAlt_nil env _ _)))))))))).mono (by decide)

/-- a document consisting of one statement that consumes the whole text -/
theorem Ok_document (env : Env) (N : Nat) (rest : List Char) (c : Char) (t : List Char) (ts : List Tree)
    (hstart : skipIgn rest = c :: t) (hc : c ≠ '\n')
    (hstmt : Ok env N {} pil_stmt { rest := rest, past := false } ({ rest := [], past := true }, ts)) :
    Ok env (max N 21 + 8) {} pil_grammar { rest := rest, past := false } ({ rest := [], past := true }, ts) := by
  unfold pil_grammar pil_document
  have h0 := Ok_stringStart env {} { rest := rest, past := false }
  have h1 : Ok env 4 {} (.many (.suppress .lineEnd)) { rest := rest, past := false }
      ({ rest := rest, past := false }, []) :=
    Ok_many (OkMany_stop (No_suppress (No_lineEnd_cons env {} _ c t (by rw [pre_skip]; exact hstart) hc)))
  have h2 := Ok_many1 hstmt (OkMany_stop (No_stmt_end env))
  have h3 : Ok env 1 {} .stringEnd { rest := [], past := true } ({ rest := [], past := true }, []) :=
    Ok_stringEnd env {} _ rfl
  have := Ok_seq (OkSeq_cons h0 (OkSeq_cons h1 (OkSeq_cons h2 (OkSeq_cons h3 (OkSeq_nil env _ _)))))
  simp only [List.nil_append, List.append_nil] at this
  exact this.mono (by omega)

/-- no statement at the start: the document is rejected -/
theorem No_document (env : Env) (N : Nat) (rest : List Char) (c : Char) (t : List Char)
    (hstart : skipIgn rest = c :: t) (hc : c ≠ '\n')
    (hstmt : No env N {} pil_stmt { rest := rest, past := false }) :
    No env (max N 4 + 5) {} pil_grammar { rest := rest, past := false } := by
  unfold pil_grammar pil_document
  have h0 := Ok_stringStart env {} { rest := rest, past := false }
  have h1 : Ok env 4 {} (.many (.suppress .lineEnd)) { rest := rest, past := false }
      ({ rest := rest, past := false }, []) :=
    Ok_many (OkMany_stop (No_suppress (No_lineEnd_cons env {} _ c t (by rw [pre_skip]; exact hstart) hc)))
  have := No_seq (NoSeq_tail h0 (NoSeq_tail h1 (NoSeq_head (gs := [.stringEnd]) (No_many1 hstmt))))
  exact this.mono (by omega)

/-! ### domain statements -/

theorem OutHd_sign (n : Nat) (sign : Char) (hs : sign = '=' ∨ sign = ':') (r : List Char) :
    OutHd (fun x => x ∉ identChars ∧ x ≠ '*') (List.replicate n ' ' ++ (sign :: r)) := by
  refine OutHd_blanks (fun x => x ∉ identChars ∧ x ≠ '*') n (sign :: r)
    ⟨outside_facts ' ' (by decide), by decide⟩ ?_
  refine OutHd_cons (fun x => x ∉ identChars ∧ x ≠ '*') sign r ?_
  rcases hs with rfl | rfl
  · exact ⟨outside_facts '=' (by decide), by decide⟩
  · exact ⟨outside_facts ':' (by decide), by decide⟩

/-- the text after the keyword of a domain-length statement -/
def dlText (a : Nat) (c : Char) (m : List Char) (st : Bool) (b : Nat) (sign : Char) (cc : Nat)
    (X tail : List Char) : List Char :=
  List.replicate a ' ' ++ (c :: m ++ (star st ++ (List.replicate b ' ' ++ (sign :: (List.replicate cc ' ' ++ (X ++ tail))))))

def dlBody (kw : List Char) : G :=
  .group (.tag "dl-domain" (.seq [.suppress (.kw kw identChars), pil_domain, .suppress pil_assign, pil_dlength,
    .many1 (.suppress .lineEnd)]))

theorem Ok_dl_body (env : Env) (kc : Char) (ks : List Char) (hk : isWs kc = false) (hk' : kc ≠ '#')
    (a : Nat) (ha : 0 < a) (c : Char) (m : List Char) (st : Bool) (b : Nat) (sign : Char) (hs : sign = '=' ∨ sign = ':')
    (cc : Nat) (X tail : List Char) (NL : Nat)
    (hc : c ∈ identChars) (hm : ∀ x ∈ m, x ∈ identChars)
    (hlen : Ok env NL {} pil_dlength { rest := List.replicate cc ' ' ++ (X ++ tail), past := false }
      ({ rest := tail, past := false }, [.tok (String.ofList X)]))
    (htail : EolTail tail) :
    Ok env (max NL 6 + 8) {} (dlBody (kc :: ks))
      { rest := kc :: (ks ++ dlText a c m st b sign cc X tail), past := false }
      ({ rest := [], past := true },
        [.grp [.tok "dl-domain", .tok (String.ofList (c :: m ++ star st)), .tok (String.ofList X)]]) := by
  unfold dlBody dlText
  have h1 := Ok_kw env kc ks (List.replicate a ' ' ++ (c :: m ++ (star st ++ (List.replicate b ' ' ++
    (sign :: (List.replicate cc ' ' ++ (X ++ tail))))))) hk hk' (OutHd_kw_blanks a ha _)
  have h2 := Ok_domain env a c m st _ hc hm (OutHd_sign b sign hs (List.replicate cc ' ' ++ (X ++ tail)))
  have h3 := Ok_assign env b sign hs (List.replicate cc ' ' ++ (X ++ tail))
  have h5 := Ok_eol env tail htail
  have := Ok_group (Ok_tag (t := "dl-domain") (Ok_seq (OkSeq_cons h1 (OkSeq_cons h2 (OkSeq_cons h3
    (OkSeq_cons hlen (OkSeq_cons h5 (OkSeq_nil env _ _))))))))
  simp only [List.nil_append, List.append_nil, List.cons_append] at this
  exact this.mono (by omega)

/-- `dlength` on a number -/
theorem Ok_dlength_num (env : Env) (cc : Nat) (dc : Char) (dm tail : List Char)
    (hc : dc ∈ pp_nums) (hm : ∀ x ∈ dm, x ∈ pp_nums) (ht : OutHd (fun x => x ∉ identChars) tail) :
    Ok env 3 {} pil_dlength { rest := List.replicate cc ' ' ++ (dc :: dm ++ tail), past := false }
      ({ rest := tail, past := false }, [.tok (String.ofList (dc :: dm))]) := by
  unfold pil_dlength pil_number
  exact Ok_alt (OkAlt_head (Ok_class env pp_nums cc dc dm tail (fun x hx => (nums_facts x hx).1) hc hm
    (ht.imp (fun x hx => outside_nums x hx))))

theorem Ok_dlength_short (env : Env) (cc : Nat) (tail : List Char) :
    Ok env 4 {} pil_dlength { rest := List.replicate cc ' ' ++ (['s', 'h', 'o', 'r', 't'] ++ tail), past := false }
      ({ rest := tail, past := false }, [.tok (String.ofList ['s', 'h', 'o', 'r', 't'])]) := by
  unfold pil_dlength pil_number
  have h0 := No_class env pp_nums cc 's' ('h' :: 'o' :: 'r' :: 't' :: tail) (by decide) (by decide) (by decide)
  have h1 : Ok env 1 {} (.lit ['s', 'h', 'o', 'r', 't'])
      { rest := List.replicate cc ' ' ++ (['s', 'h', 'o', 'r', 't'] ++ tail), past := false }
      ({ rest := tail, past := false }, [.tok (String.ofList ['s', 'h', 'o', 'r', 't'])]) :=
    Ok_lit env {} _ _ tail (by rw [pre_skip]; exact skipIgn_blanks_cons cc 's' _ (by decide) (by decide)) rfl
  exact (Ok_alt (OkAlt_tail h0 (OkAlt_head h1))).mono (by decide)

theorem Ok_dlength_long (env : Env) (cc : Nat) (tail : List Char) :
    Ok env 5 {} pil_dlength { rest := List.replicate cc ' ' ++ (['l', 'o', 'n', 'g'] ++ tail), past := false }
      ({ rest := tail, past := false }, [.tok (String.ofList ['l', 'o', 'n', 'g'])]) := by
  unfold pil_dlength pil_number
  have hskip : (pre {} { rest := List.replicate cc ' ' ++ (['l', 'o', 'n', 'g'] ++ tail), past := false }).rest =
      ['l', 'o', 'n', 'g'] ++ tail := by
    rw [pre_skip]; exact skipIgn_blanks_cons cc 'l' _ (by decide) (by decide)
  have h0 := No_class env pp_nums cc 'l' ('o' :: 'n' :: 'g' :: tail) (by decide) (by decide) (by decide)
  have h1 : No env 1 {} (.lit ['s', 'h', 'o', 'r', 't'])
      { rest := List.replicate cc ' ' ++ (['l', 'o', 'n', 'g'] ++ tail), past := false } := by
    apply No_lit; rw [hskip]; simp [stripPrefix]
  have h2 : Ok env 1 {} (.lit ['l', 'o', 'n', 'g'])
      { rest := List.replicate cc ' ' ++ (['l', 'o', 'n', 'g'] ++ tail), past := false }
      ({ rest := tail, past := false }, [.tok (String.ofList ['l', 'o', 'n', 'g'])]) :=
    Ok_lit env {} _ _ tail hskip rfl
  exact (Ok_alt (OkAlt_tail h0 (OkAlt_tail h1 (OkAlt_head h2)))).mono (by decide)

/-- the three keyword aliases -/
def Kw (kw : List Char) : Prop :=
  kw = ['l', 'e', 'n', 'g', 't', 'h'] ∨ kw = ['d', 'o', 'm', 'a', 'i', 'n'] ∨ kw = ['s', 'e', 'q', 'u', 'e', 'n', 'c', 'e']

theorem Kw.head {kw : List Char} (h : Kw kw) : ∃ kc ks, kw = kc :: ks ∧ isWs kc = false ∧ kc ≠ '#' ∧ kc ≠ '\n' := by
  rcases h with rfl | rfl | rfl
  · exact ⟨_, _, rfl, by decide, by decide, by decide⟩
  · exact ⟨_, _, rfl, by decide, by decide, by decide⟩
  · exact ⟨_, _, rfl, by decide, by decide, by decide⟩

/-- `pil_stmt` on a domain-length statement: `sl_domain` (tried first) must fail; then the alternative of
    `dl_domain` with the right keyword matches -/
theorem Ok_dl_stmt (env : Env) (kw T2 : List Char) (hkw : Kw kw) (res : Pos × List Tree) (NS NB : Nat)
    (hsl : No env NS {} pil_sl_domain { rest := kw ++ T2, past := false })
    (hbody : Ok env NB {} (dlBody kw) { rest := kw ++ T2, past := false } res) :
    Ok env (max NS (max NB 7) + 8) {} pil_stmt { rest := kw ++ T2, past := false } res := by
  unfold pil_stmt
  have hdl : Ok env (max NB 7 + 5) {} pil_dl_domain { rest := kw ++ T2, past := false } res := by
    unfold pil_dl_domain
    unfold dlBody at hbody
    rcases hkw with rfl | rfl | rfl
    · exact (Ok_alt (OkAlt_head hbody)).mono (by omega)
    · have n1 := No_gts env "dl-domain" ['l', 'e', 'n', 'g', 't', 'h']
        [pil_domain, .suppress pil_assign, pil_dlength, .many1 (.suppress .lineEnd)]
        { rest := ['d', 'o', 'm', 'a', 'i', 'n'] ++ T2, past := false }
        (by rw [show (['d', 'o', 'm', 'a', 'i', 'n'] ++ T2) = 'd' :: ('o' :: 'm' :: 'a' :: 'i' :: 'n' :: T2) from rfl,
              skipIgn_cons 'd' _ (by decide) (by decide)]; simp [stripPrefix])
      exact (Ok_alt (OkAlt_tail n1 (OkAlt_head hbody))).mono (by omega)
    · have hsk : skipIgn (['s', 'e', 'q', 'u', 'e', 'n', 'c', 'e'] ++ T2) =
          's' :: ('e' :: 'q' :: 'u' :: 'e' :: 'n' :: 'c' :: 'e' :: T2) := skipIgn_cons 's' _ (by decide) (by decide)
      have n1 := No_gts env "dl-domain" ['l', 'e', 'n', 'g', 't', 'h']
        [pil_domain, .suppress pil_assign, pil_dlength, .many1 (.suppress .lineEnd)]
        { rest := ['s', 'e', 'q', 'u', 'e', 'n', 'c', 'e'] ++ T2, past := false }
        (by rw [hsk]; simp [stripPrefix])
      have n2 := No_gts env "dl-domain" ['d', 'o', 'm', 'a', 'i', 'n']
        [pil_domain, .suppress pil_assign, pil_dlength, .many1 (.suppress .lineEnd)]
        { rest := ['s', 'e', 'q', 'u', 'e', 'n', 'c', 'e'] ++ T2, past := false }
        (by rw [hsk]; simp [stripPrefix])
      exact (Ok_alt (OkAlt_tail n1 (OkAlt_tail n2 (OkAlt_head hbody)))).mono (by omega)
  exact (Ok_alt (OkAlt_tail hsl (OkAlt_head hdl))).mono (by omega)

/-- `sl_domain` fails on texts that do not start with `sequence` -/
theorem No_sl_kw (env : Env) (kw T2 : List Char)
    (hkw : kw = ['l', 'e', 'n', 'g', 't', 'h'] ∨ kw = ['d', 'o', 'm', 'a', 'i', 'n']) :
    No env 6 {} pil_sl_domain { rest := kw ++ T2, past := false } := by
  unfold pil_sl_domain
  rcases hkw with rfl | rfl
  · apply No_gts
    rw [show (['l', 'e', 'n', 'g', 't', 'h'] ++ T2) = 'l' :: ('e' :: 'n' :: 'g' :: 't' :: 'h' :: T2) from rfl,
      skipIgn_cons 'l' _ (by decide) (by decide)]
    simp [stripPrefix]
  · apply No_gts
    rw [show (['d', 'o', 'm', 'a', 'i', 'n'] ++ T2) = 'd' :: ('o' :: 'm' :: 'a' :: 'i' :: 'n' :: T2) from rfl,
      skipIgn_cons 'd' _ (by decide) (by decide)]
    simp [stripPrefix]

/-- `sl_domain` fails on `sequence name = <digits>…`: the constraint must be letters -/
theorem No_sl_digits (env : Env) (a : Nat) (ha : 0 < a) (c : Char) (m : List Char) (st : Bool) (b : Nat) (sign : Char)
    (hs : sign = '=' ∨ sign = ':') (cc : Nat) (dc : Char) (dm tail : List Char)
    (hc : c ∈ identChars) (hm : ∀ x ∈ m, x ∈ identChars) (hd : dc ∈ pp_nums) :
    No env 14 {} pil_sl_domain
      { rest := ['s', 'e', 'q', 'u', 'e', 'n', 'c', 'e'] ++ dlText a c m st b sign cc (dc :: dm) tail, past := false } := by
  unfold pil_sl_domain dlText pil_constraint
  have h1 := Ok_kw env 's' ['e', 'q', 'u', 'e', 'n', 'c', 'e'] (List.replicate a ' ' ++ (c :: m ++ (star st ++
    (List.replicate b ' ' ++ (sign :: (List.replicate cc ' ' ++ (dc :: dm ++ tail))))))) (by decide) (by decide)
    (OutHd_kw_blanks a ha _)
  have h2 := Ok_domain env a c m st _ hc hm (OutHd_sign b sign hs (List.replicate cc ' ' ++ (dc :: dm ++ tail)))
  have h3 := Ok_assign env b sign hs (List.replicate cc ' ' ++ (dc :: dm ++ tail))
  have hdf := ident_facts dc (nums_facts dc hd).1
  have h4 := No_class env pp_alphas cc dc (dm ++ tail) (nums_facts dc hd).2 hdf.1 hdf.2.1
  have := No_group (No_tag (t := "sl-domain") (No_seq (NoSeq_tail h1 (NoSeq_tail h2 (NoSeq_tail h3
    (NoSeq_head (gs := [.opt (.seq [.suppress pil_assign, pil_number]), .many1 (.suppress .lineEnd)]) h4))))))
  exact this.mono (by decide)


/-! ### sequence-constraint statements -/

theorem Ok_sl_stmt (env : Env) (a : Nat) (ha : 0 < a) (c : Char) (m : List Char) (st : Bool) (b : Nat) (sign : Char)
    (hs : sign = '=' ∨ sign = ':') (cc : Nat) (kc : Char) (km tail : List Char)
    (hc : c ∈ identChars) (hm : ∀ x ∈ m, x ∈ identChars)
    (hkc : kc ∈ pp_alphas) (hkm : ∀ x ∈ km, x ∈ pp_alphas)
    (ht : skipIgn tail = ['\n']) (ht' : OutHd (fun x => x ∉ identChars) tail) :
    Ok env 20 {} pil_stmt
      { rest := ['s', 'e', 'q', 'u', 'e', 'n', 'c', 'e'] ++ dlText a c m st b sign cc (kc :: km) tail, past := false }
      ({ rest := [], past := true },
        [.grp [.tok "sl-domain", .tok (String.ofList (c :: m ++ star st)), .tok (String.ofList (kc :: km))]]) := by
  unfold pil_stmt pil_sl_domain dlText pil_constraint
  have h1 := Ok_kw env 's' ['e', 'q', 'u', 'e', 'n', 'c', 'e'] (List.replicate a ' ' ++ (c :: m ++ (star st ++
    (List.replicate b ' ' ++ (sign :: (List.replicate cc ' ' ++ (kc :: km ++ tail))))))) (by decide) (by decide)
    (OutHd_kw_blanks a ha _)
  have h2 := Ok_domain env a c m st _ hc hm (OutHd_sign b sign hs (List.replicate cc ' ' ++ (kc :: km ++ tail)))
  have h3 := Ok_assign env b sign hs (List.replicate cc ' ' ++ (kc :: km ++ tail))
  have h4 := Ok_class env pp_alphas cc kc km tail (fun x hx => (alphas_facts x hx).1) hkc hkm
    (ht'.imp (fun x hx => outside_alphas x hx))
  have h5 : Ok env 8 {} (.opt (.seq [.suppress pil_assign, pil_number])) { rest := tail, past := false }
      ({ rest := tail, past := false }, []) :=
    (Ok_opt_none (No_seq (NoSeq_head (No_assign env _ '\n' [] ht (by decide) (by decide))))).mono (by decide)
  have h6 := Ok_eol_nl env tail ht
  have := Ok_alt (OkAlt_head (gs := [pil_dl_domain, pil_comp_domain, pil_strand, pil_strandcomplex, pil_reaction,
      pil_cplx, pil_restingset])
    (Ok_group (Ok_tag (t := "sl-domain") (Ok_seq (OkSeq_cons h1 (OkSeq_cons h2 (OkSeq_cons h3
      (OkSeq_cons h4 (OkSeq_cons h5 (OkSeq_cons h6 (OkSeq_nil env _ _)))))))))))
  simp only [List.nil_append, List.append_nil, List.cons_append] at this
  exact this.mono (by decide)

/-- the text after the constraint of a sequence statement with an explicit length -/
def slTail (e : Nat) (s2 : Char) (f : Nat) (dc : Char) (dm tail : List Char) : List Char :=
  List.replicate e ' ' ++ (s2 :: (List.replicate f ' ' ++ (dc :: dm ++ tail)))

theorem Ok_sl_len_stmt (env : Env) (a : Nat) (ha : 0 < a) (c : Char) (m : List Char) (st : Bool) (b : Nat) (sign : Char)
    (hs : sign = '=' ∨ sign = ':') (cc : Nat) (kc : Char) (km : List Char) (e : Nat) (s2 : Char)
    (hs2 : s2 = '=' ∨ s2 = ':') (f : Nat) (dc : Char) (dm tail : List Char)
    (hc : c ∈ identChars) (hm : ∀ x ∈ m, x ∈ identChars)
    (hkc : kc ∈ pp_alphas) (hkm : ∀ x ∈ km, x ∈ pp_alphas)
    (hdc : dc ∈ pp_nums) (hdm : ∀ x ∈ dm, x ∈ pp_nums)
    (ht : EolTail tail) (ht' : OutHd (fun x => x ∉ identChars) tail) :
    Ok env 20 {} pil_stmt
      { rest := ['s', 'e', 'q', 'u', 'e', 'n', 'c', 'e'] ++
          dlText a c m st b sign cc (kc :: km) (slTail e s2 f dc dm tail), past := false }
      ({ rest := [], past := true },
        [.grp [.tok "sl-domain", .tok (String.ofList (c :: m ++ star st)), .tok (String.ofList (kc :: km)),
          .tok (String.ofList (dc :: dm))]]) := by
  unfold pil_stmt pil_sl_domain dlText pil_constraint slTail
  have h1 := Ok_kw env 's' ['e', 'q', 'u', 'e', 'n', 'c', 'e'] (List.replicate a ' ' ++ (c :: m ++ (star st ++
    (List.replicate b ' ' ++ (sign :: (List.replicate cc ' ' ++ (kc :: km ++
      (List.replicate e ' ' ++ (s2 :: (List.replicate f ' ' ++ (dc :: dm ++ tail))))))))))) (by decide) (by decide)
    (OutHd_kw_blanks a ha _)
  have h2 := Ok_domain env a c m st _ hc hm (OutHd_sign b sign hs (List.replicate cc ' ' ++ (kc :: km ++
      (List.replicate e ' ' ++ (s2 :: (List.replicate f ' ' ++ (dc :: dm ++ tail)))))))
  have h3 := Ok_assign env b sign hs (List.replicate cc ' ' ++ (kc :: km ++
      (List.replicate e ' ' ++ (s2 :: (List.replicate f ' ' ++ (dc :: dm ++ tail))))))
  have h4 := Ok_class env pp_alphas cc kc km
    (List.replicate e ' ' ++ (s2 :: (List.replicate f ' ' ++ (dc :: dm ++ tail))))
    (fun x hx => (alphas_facts x hx).1) hkc hkm
    ((OutHd_sign e s2 hs2 _).imp (fun x hx => outside_alphas x hx.1))
  have h5a := Ok_assign env e s2 hs2 (List.replicate f ' ' ++ (dc :: dm ++ tail))
  have h5b : Ok env 1 {} pil_number { rest := List.replicate f ' ' ++ (dc :: dm ++ tail), past := false }
      ({ rest := tail, past := false }, [.tok (String.ofList (dc :: dm))]) :=
    Ok_class env pp_nums f dc dm tail (fun x hx => (nums_facts x hx).1) hdc hdm
      (ht'.imp (fun x hx => outside_nums x hx))
  have h5 := Ok_opt_some (Ok_seq (OkSeq_cons h5a (OkSeq_cons h5b (OkSeq_nil env _ _))))
  have h6 := Ok_eol env tail ht
  have := Ok_alt (OkAlt_head (gs := [pil_dl_domain, pil_comp_domain, pil_strand, pil_strandcomplex, pil_reaction,
      pil_cplx, pil_restingset])
    (Ok_group (Ok_tag (t := "sl-domain") (Ok_seq (OkSeq_cons h1 (OkSeq_cons h2 (OkSeq_cons h3
      (OkSeq_cons h4 (OkSeq_cons h5 (OkSeq_cons h6 (OkSeq_nil env _ _)))))))))))
  simp only [List.nil_append, List.append_nil, List.cons_append] at this
  exact this.mono (by decide)

/-! ### a missing assignment sign -/

theorem No_missing_assign (env : Env) (a : Nat) (c : Char) (m : List Char) (b : Nat) (dc : Char) (dm : List Char)
    (hc : c ∈ identChars) (hm : ∀ x ∈ m, x ∈ identChars) (hdc : dc ∈ pp_nums) :
    No env 30 {} pil_stmt
      { rest := ['l', 'e', 'n', 'g', 't', 'h'] ++ (List.replicate (a + 1) ' ' ++ (c :: m ++
          (List.replicate (b + 1) ' ' ++ (dc :: dm ++ ['\n'])))), past := false } := by
  have hcf := ident_facts c hc
  have hdf := ident_facts dc (nums_facts dc hdc).1
  -- the remaining input after the keyword
  generalize hT : (List.replicate (a + 1) ' ' ++ (c :: m ++
          (List.replicate (b + 1) ' ' ++ (dc :: dm ++ ['\n'])))) = T
  have hsk : skipIgn (['l', 'e', 'n', 'g', 't', 'h'] ++ T) = 'l' :: ('e' :: 'n' :: 'g' :: 't' :: 'h' :: T) :=
    skipIgn_cons 'l' _ (by decide) (by decide)
  have nk : ∀ (t : String) (s : List Char) (gs : List G), stripPrefix s ('l' :: ('e' :: 'n' :: 'g' :: 't' :: 'h' :: T)) = none →
      No env 6 {} (.group (.tag t (.seq (.suppress (.kw s identChars) :: gs))))
        { rest := ['l', 'e', 'n', 'g', 't', 'h'] ++ T, past := false } :=
    fun t s gs h => No_gts env t s gs _ (by rw [hsk]; exact h)
  -- `dl_domain`, keyword `length`: fails at the assignment sign
  have hr : OutHd (fun x => x ∉ identChars ∧ x ≠ '*') (List.replicate (b + 1) ' ' ++ (dc :: dm ++ ['\n'])) :=
    OutHd_cons _ _ _ ⟨outside_facts ' ' (by decide), by decide⟩
  have d1 := Ok_kw env 'l' ['e', 'n', 'g', 't', 'h'] T (by decide) (by decide)
    (by rw [← hT]; exact OutHd_kw_blanks (a + 1) (Nat.succ_pos a) _)
  have d2 := Ok_domain env (a + 1) c m false _ hc hm hr
  have d3 : No env 5 {} (.suppress pil_assign)
      { rest := List.replicate (b + 1) ' ' ++ (dc :: dm ++ ['\n']), past := false } :=
    No_assign env _ dc (dm ++ ['\n']) (skipIgn_blanks_cons (b + 1) dc _ hdf.1 hdf.2.1) hdf.2.2.1 hdf.2.2.2.1
  have hdl1 : No env 12 {} (dlBody ['l', 'e', 'n', 'g', 't', 'h'])
      { rest := ['l', 'e', 'n', 'g', 't', 'h'] ++ T, past := false } := by
    unfold dlBody
    subst hT
    have := No_group (No_tag (t := "dl-domain") (No_seq (NoSeq_tail d1 (NoSeq_tail d2
      (NoSeq_head (gs := [pil_dlength, .many1 (.suppress .lineEnd)]) d3)))))
    exact this.mono (by decide)
  -- `kernel-complex`: the identifier `length` is not followed by `=`
  have hcx : No env 8 {} pil_cplx { rest := ['l', 'e', 'n', 'g', 't', 'h'] ++ T, past := false } := by
    unfold pil_cplx pil_identifier
    subst hT
    have w : Ok env 1 {} (.word identChars identChars)
        { rest := ['l', 'e', 'n', 'g', 't', 'h'] ++ (List.replicate (a + 1) ' ' ++ (c :: m ++
          (List.replicate (b + 1) ' ' ++ (dc :: dm ++ ['\n'])))), past := false }
        ({ rest := List.replicate (a + 1) ' ' ++ (c :: m ++ (List.replicate (b + 1) ' ' ++ (dc :: dm ++ ['\n']))),
           past := false }, [.tok (String.ofList ['l', 'e', 'n', 'g', 't', 'h'])]) :=
      Ok_word env {} _ _ _ 'l' ['e', 'n', 'g', 't', 'h'] _
        (by rw [pre_skip]; exact skipIgn_cons 'l' _ (by decide) (by decide)) (by decide) (by decide)
        (OutHd_cons _ _ _ (outside_facts ' ' (by decide)))
    have l : No env 2 {} (.suppress (.lit ['=']))
        { rest := List.replicate (a + 1) ' ' ++ (c :: m ++ (List.replicate (b + 1) ' ' ++ (dc :: dm ++ ['\n']))),
          past := false } := by
      apply No_suppress; apply No_lit
      rw [pre_skip, List.cons_append, skipIgn_blanks_cons (a + 1) c _ hcf.1 hcf.2.1]
      simp [stripPrefix, Ne.symm hcf.2.2.1]
    have := No_group (No_tag (t := "kernel-complex") (No_seq (NoSeq_tail w (NoSeq_head
      (gs := [.many1 (.group (.ref "pattern")), .opt pil_conc, .many1 (.suppress .lineEnd)]) l))))
    exact this.mono (by decide)
  have hsl := No_sl_kw env ['l', 'e', 'n', 'g', 't', 'h'] T (Or.inl rfl)
  unfold pil_stmt pil_dl_domain pil_comp_domain pil_strand pil_strandcomplex pil_reaction pil_restingset
  unfold dlBody at hdl1
  refine (No_alt (NoAlt_cons hsl
    (NoAlt_cons (No_alt (NoAlt_cons hdl1 (NoAlt_cons (nk _ _ _ (by simp [stripPrefix]))
      (NoAlt_cons (nk _ _ _ (by simp [stripPrefix])) (NoAlt_nil env _ _)))))
    (NoAlt_cons (nk _ _ _ (by simp [stripPrefix]))
    (NoAlt_cons (nk _ _ _ (by simp [stripPrefix]))
    (NoAlt_cons (No_alt (NoAlt_cons (nk _ _ _ (by simp [stripPrefix])) (NoAlt_cons (nk _ _ _ (by simp [stripPrefix]))
      (NoAlt_nil env _ _))))
    (NoAlt_cons (No_alt (NoAlt_cons (nk _ _ _ (by simp [stripPrefix])) (NoAlt_cons (nk _ _ _ (by simp [stripPrefix]))
      (NoAlt_nil env _ _))))
    (NoAlt_cons hcx
    (NoAlt_cons (No_alt (NoAlt_cons (nk _ _ _ (by simp [stripPrefix])) (NoAlt_cons (nk _ _ _ (by simp [stripPrefix]))
      (NoAlt_nil env _ _))))
    (NoAlt_nil env _ _)))))))))).mono (by decide)


/-! ### `parseDoc` -/

theorem expandTabs_id (cs : List Char) (col : Nat) (h : '\t' ∉ cs) : expandTabs cs col = cs := by
  induction cs generalizing col with
  | nil => rfl
  | cons c cs ih =>
    simp only [List.mem_cons, not_or] at h
    have hc : c ≠ '\t' := fun e => h.1 e.symm
    rw [expandTabs]
    · rw [ih _ h.2]
    · intro e; exact hc e

theorem parseDoc_ok (env : Env) (doc : G) (cs : List Char) (N : Nat) (p : Pos) (ts : List Tree)
    (ht : '\t' ∉ cs) (h : Ok env N {} doc { rest := cs, past := false } (p, ts)) (hN : N ≤ 200) :
    parseDoc env doc (String.ofList cs) = some ts := by
  unfold parseDoc
  simp only [String.toList_ofList, expandTabs_id cs 0 ht]
  rw [h _ (by omega)]

theorem parseDoc_no (env : Env) (doc : G) (cs : List Char) (N : Nat)
    (ht : '\t' ∉ cs) (h : No env N {} doc { rest := cs, past := false }) (hN : N ≤ 200) :
    parseDoc env doc (String.ofList cs) = none := by
  unfold parseDoc
  simp only [String.toList_ofList, expandTabs_id cs 0 ht]
  rw [h _ (by omega)]

/-! ### whole documents -/

theorem notab_ident (s : List Char) (h : ∀ x ∈ s, x ∈ identChars) : '\t' ∉ s :=
  fun hm => (ident_facts _ (h _ hm)).2.2.2.2.2.2.2 rfl

theorem notab_replicate (n : Nat) : '\t' ∉ List.replicate n ' ' := by
  intro h; have := List.eq_of_mem_replicate h; revert this; decide

theorem notab_star (st : Bool) : '\t' ∉ star st := by cases st <;> decide

theorem notab_dlText (a : Nat) (c : Char) (m : List Char) (st : Bool) (b : Nat) (sign : Char)
    (hs : sign = '=' ∨ sign = ':') (cc : Nat) (X tail : List Char)
    (hc : c ∈ identChars) (hm : ∀ x ∈ m, x ∈ identChars) (hX : '\t' ∉ X) (ht : '\t' ∉ tail) :
    '\t' ∉ dlText a c m st b sign cc X tail := by
  have h1 := notab_ident (c :: m) (by intro x hx; rcases List.mem_cons.mp hx with rfl | h; exact hc; exact hm x h)
  have hsg : '\t' ≠ sign := by rcases hs with rfl | rfl <;> decide
  unfold dlText
  simp only [List.mem_append, List.mem_cons, not_or]
  simp only [List.mem_cons, not_or] at h1
  exact ⟨notab_replicate a, ⟨h1.1, h1.2⟩, notab_star st, notab_replicate b, hsg, notab_replicate cc, hX, ht⟩

theorem parse_stmt (kw T2 : List Char) (hkw : ∃ kc ks, kw = kc :: ks ∧ isWs kc = false ∧ kc ≠ '#' ∧ kc ≠ '\n')
    (N : Nat) (ts : List Tree)
    (hstmt : Ok pil_env N {} pil_stmt { rest := kw ++ T2, past := false } ({ rest := [], past := true }, ts))
    (hN : N ≤ 170) (ht : '\t' ∉ kw ++ T2) :
    parseDoc pil_env pil_grammar (String.ofList (kw ++ T2)) = some ts := by
  obtain ⟨kc, ks, rfl, h1, h2, h3⟩ := hkw
  have hd := Ok_document pil_env N (kc :: ks ++ T2) kc (ks ++ T2) ts (skipIgn_cons kc _ h1 h2) h3 hstmt
  exact parseDoc_ok pil_env pil_grammar _ _ _ ts ht hd (by omega)

theorem dl_parse (kw : List Char) (hkw : Kw kw) (a : Nat) (ha : 0 < a) (c : Char) (m : List Char) (st : Bool) (b : Nat)
    (sign : Char) (hs : sign = '=' ∨ sign = ':') (cc : Nat) (X tail : List Char) (NL NS : Nat)
    (hc : c ∈ identChars) (hm : ∀ x ∈ m, x ∈ identChars)
    (hlen : Ok pil_env NL {} pil_dlength { rest := List.replicate cc ' ' ++ (X ++ tail), past := false }
      ({ rest := tail, past := false }, [.tok (String.ofList X)]))
    (htail : EolTail tail)
    (hsl : No pil_env NS {} pil_sl_domain { rest := kw ++ dlText a c m st b sign cc X tail, past := false })
    (hNL : NL ≤ 100) (hNS : NS ≤ 100) (hX : '\t' ∉ X) (ht : '\t' ∉ tail) :
    parseDoc pil_env pil_grammar (String.ofList (kw ++ dlText a c m st b sign cc X tail)) =
      some [.grp [.tok "dl-domain", .tok (String.ofList (c :: m ++ star st)), .tok (String.ofList X)]] := by
  obtain ⟨kc, ks, rfl, h1, h2, h3⟩ := hkw.head
  have hbody := Ok_dl_body pil_env kc ks h1 h2 a ha c m st b sign hs cc X tail NL hc hm hlen htail
  have hstmt := Ok_dl_stmt pil_env (kc :: ks) _ hkw _ NS _ hsl hbody
  apply parse_stmt (kc :: ks) _ ⟨kc, ks, rfl, h1, h2, h3⟩ _ _ hstmt (by omega)
  have hk : '\t' ∉ kc :: ks := by rcases hkw with e | e | e <;> rw [e] <;> decide
  have := notab_dlText a c m st b sign hs cc X tail hc hm hX ht
  simp only [List.mem_append, not_or]
  exact ⟨hk, this⟩


theorem reject_stmt (kw T2 : List Char) (hkw : ∃ kc ks, kw = kc :: ks ∧ isWs kc = false ∧ kc ≠ '#' ∧ kc ≠ '\n')
    (N : Nat) (hstmt : No pil_env N {} pil_stmt { rest := kw ++ T2, past := false })
    (hN : N ≤ 170) (ht : '\t' ∉ kw ++ T2) :
    parseDoc pil_env pil_grammar (String.ofList (kw ++ T2)) = none := by
  obtain ⟨kc, ks, rfl, h1, h2, h3⟩ := hkw
  have hd := No_document pil_env N (kc :: ks ++ T2) kc (ks ++ T2) (skipIgn_cons kc _ h1 h2) h3 hstmt
  exact parseDoc_no pil_env pil_grammar _ _ ht hd (by omega)

theorem cons_of_class (s cls : List Char) (h : s ≠ [] ∧ ∀ c ∈ s, c ∈ cls) :
    ∃ c m, s = c :: m ∧ c ∈ cls ∧ ∀ x ∈ m, x ∈ cls := by
  obtain ⟨h1, h2⟩ := h
  cases s with
  | nil => exact absurd rfl h1
  | cons c m => exact ⟨c, m, rfl, h2 c (by simp), fun x hx => h2 x (List.mem_cons_of_mem _ hx)⟩

theorem OutHd_nl_tail (e : Nat) : OutHd (fun x => x ∉ identChars) (List.replicate e ' ' ++ ['\n']) :=
  OutHd_blanks (fun x => x ∉ identChars) e ['\n'] (outside_facts ' ' (by decide))
    (OutHd_cons (fun x => x ∉ identChars) '\n' [] (outside_facts '\n' (by decide)))

theorem OutHd_comment_tail (e : Nat) (comment : List Char) :
    OutHd (fun x => x ∉ identChars) (List.replicate e ' ' ++ '#' :: comment) :=
  OutHd_blanks (fun x => x ∉ identChars) e _ (outside_facts ' ' (by decide))
    (OutHd_cons (fun x => x ∉ identChars) '#' comment (outside_facts '#' (by decide)))

theorem notab_nl_tail (e : Nat) : '\t' ∉ List.replicate e ' ' ++ ['\n'] := by
  simp only [List.mem_append, not_or]; exact ⟨notab_replicate e, by decide⟩

theorem notab_of_nums (s : List Char) (h : ∀ x ∈ s, x ∈ pp_nums) : '\t' ∉ s :=
  notab_ident s (fun x hx => (nums_facts x (h x hx)).1)
theorem notab_of_alphas (s : List Char) (h : ∀ x ∈ s, x ∈ pp_alphas) : '\t' ∉ s :=
  notab_ident s (fun x hx => (alphas_facts x (h x hx)).1)


end Dsd.Pil
