/-
Bridge between the two indexings of a multi-stranded structure:
* list positions of the structure list *with* the break tokens (the rotation theory, `C07.word`), and
* loci of the pair table built from the strands *without* them (`makePairTable`).

Padding every strand with one unpaired slot (the break) turns the second into the first.
-/
import DsdVerif.Model.Complex
import DsdVerif.Lemmas.Locus
import DsdVerif.Lemmas.Split
import DsdVerif.Props.C06Loci
import DsdVerif.Props.C07Rot

namespace Dsd.Brk
open Dsd Dsd.Bracket Dsd.C06 Dsd.Split

/-! ### padding every row with one more entry -/

def pad {α} (a : α) (xss : List (List α)) : List (List α) := xss.map (fun r => r ++ [a])

theorem pad_lens {α} (a : α) (xss : List (List α)) :
    (pad a xss).map List.length = (xss.map List.length).map (· + 1) := by
  simp [pad, List.map_map, Function.comp_def]

theorem getL_pad_of {α} (a : α) (xss : List (List α)) (l : Locus) (y : α) (h : getL xss l = some y) :
    getL (pad a xss) l = some y := by
  unfold getL at h ⊢
  simp only [pad, List.getElem?_map]
  cases hr : xss[l.1]? with
  | none => simp [hr] at h
  | some r =>
    simp only [hr, Option.bind_some, Option.map_some] at h ⊢
    rw [List.getElem?_append_left (List.getElem?_eq_some_iff.mp h).1]
    exact h

theorem getL_pad_inv {α} (a : α) (xss : List (List α)) (l : Locus) (y : α) (h : getL (pad a xss) l = some y) :
    getL xss l = some y ∨ (y = a ∧ getL xss l = none) := by
  unfold getL at h ⊢
  simp only [pad, List.getElem?_map] at h
  cases hr : xss[l.1]? with
  | none => simp [hr] at h
  | some r =>
    simp only [hr, Option.bind_some, Option.map_some] at h ⊢
    by_cases hlt : l.2 < r.length
    · left; rw [List.getElem?_append_left hlt] at h; exact h
    · right
      rw [List.getElem?_append_right (by omega)] at h
      have hn : r[l.2]? = none := List.getElem?_eq_none (by omega)
      cases hk : l.2 - r.length with
      | zero => rw [hk] at h; simp at h; exact ⟨h.symm, hn⟩
      | succ k => rw [hk] at h; simp at h

theorem ptGet_pad (pt : PairTable) (l : Locus) : ptGet (pad none pt) l = ptGet pt l := by
  rw [ptGet_eq, ptGet_eq]
  cases hp : getL (pad none pt) l with
  | none =>
    cases hq : getL pt l with
    | none => rfl
    | some o => rw [getL_pad_of none pt l o hq] at hp; simp at hp
  | some o =>
    rcases getL_pad_inv none pt l o hp with h | ⟨h1, h2⟩
    · rw [h]
    · rw [h1, h2]; rfl

theorem getL_none_ptGet {syms pt} (h : LM syms pt) (l : Locus) (hn : getL syms l = none) : ptGet pt l = none := by
  rw [ptGet_eq]
  cases hq : getL pt l with
  | none => rfl
  | some o =>
    have hv := getL_valid _ l o hq
    rw [h.shape] at hv
    obtain ⟨c, hc⟩ := getL_of_valid syms l hv
    rw [hn] at hc; simp at hc

/-- padding with an unpaired slot preserves the locus-level matching -/
theorem LM_pad {syms pt} (h : LM syms pt) : LM (pad Sym.dot syms) (pad none pt) := by
  refine ⟨?_, ?_, ?_, ?_, ?_⟩
  · rw [pad_lens, pad_lens, h.shape]
  · intro l hl
    rw [ptGet_pad]
    rcases getL_pad_inv _ _ _ _ hl with h1 | ⟨_, h2⟩
    · exact h.dot l h1
    · exact getL_none_ptGet h l h2
  · intro l hl
    rcases getL_pad_inv _ _ _ _ hl with h1 | ⟨h1, _⟩
    · obtain ⟨l', a1, a2, a3, a4⟩ := h.cl l h1
      exact ⟨l', a1, by rw [ptGet_pad]; exact a2, by rw [ptGet_pad]; exact a3, getL_pad_of _ _ _ _ a4⟩
    · simp at h1
  · intro l hl
    rcases getL_pad_inv _ _ _ _ hl with h1 | ⟨h1, _⟩
    · obtain ⟨l', a1, a2, a3, a4⟩ := h.op l h1
      exact ⟨l', a1, by rw [ptGet_pad]; exact a2, by rw [ptGet_pad]; exact a3, getL_pad_of _ _ _ _ a4⟩
    · simp at h1
  · intro a b c d hab hcd
    rw [ptGet_pad] at hab hcd
    exact h.nocross a b c d hab hcd

/-- lengths of the strands with their break slots -/
def lensP (syms : List (List Sym)) : List Nat := (syms.map List.length).map (· + 1)

/-- the matching of the padded word is the pair table, read at loci of the padded shape -/
theorem reindex_pad {syms pt} (h : LM syms pt) :
    ∃ tP, matchW (pad Sym.dot syms).flatten = some tP ∧
      ∀ x, ptGet pt (toLocus (lensP syms) x) = (P tP x).map (toLocus (lensP syms)) := by
  obtain ⟨tP, L⟩ := (LM_pad h).linF
  refine ⟨tP, L.hm, ?_⟩
  intro x
  have := L.hpg x
  rw [ptGet_pad, pad_lens] at this
  exact this

/-! ### the structure list as the padded word -/

theorem toSymN_of_toSym (c : Char) (y : Sym) (h : toSym c = some y) : C07.toSymN c = y := by
  unfold toSym at h
  split at h <;> simp at h <;> subst h <;> rfl

theorem map_toSymN_of_mapM (s : List Char) (ys : List Sym) (h : s.mapM toSym = some ys) :
    s.map C07.toSymN = ys := by
  have := mapM_option_map toSym s ys h
  apply List.ext_getElem?
  intro i
  have e := congrArg (fun l => l[i]?) this
  simp only [List.getElem?_map] at e ⊢
  cases hs : s[i]? with
  | none => rw [hs] at e; cases hy : ys[i]? with
    | none => rfl
    | some y => rw [hy] at e; simp at e
  | some c =>
    rw [hs] at e
    cases hy : ys[i]? with
    | none => rw [hy] at e; simp at e
    | some y =>
      rw [hy] at e
      simp only [Option.map_some, Option.some.injEq] at e ⊢
      exact toSymN_of_toSym c y e

theorem flatten_pad_join {α} (sep : α) (ss : List (List α)) (h : ss ≠ []) :
    (pad sep ss).flatten = joinWith sep ss ++ [sep] := by
  induction ss with
  | nil => exact absurd rfl h
  | cons s ss ih =>
    cases ss with
    | nil => simp [pad, joinWith]
    | cons t ts =>
      have := ih (by simp)
      rw [joinWith_cons_cons]
      simp only [pad, List.map_cons, List.flatten_cons] at this ⊢
      rw [this]; simp

/-- the structure list (breaks as unpaired symbols) followed by one more unpaired symbol is the padded word -/
theorem word_pad (sst : List Char) (syms : List (List Sym))
    (h : (splitOn '+' sst).mapM (fun s => s.mapM toSym) = some syms) :
    C07.word sst ++ [Sym.dot] = (pad Sym.dot syms).flatten := by
  have hj := joinWith_splitOn '+' sst
  have hf := flatten_pad_join '+' (splitOn '+' sst) (splitOn_ne_nil _ _)
  rw [hj] at hf
  have e1 : C07.word sst ++ [Sym.dot] = (sst ++ ['+']).map C07.toSymN := by
    simp [C07.word]; rfl
  rw [e1, ← hf, List.map_flatten]
  congr 1
  -- row by row
  have hm := mapM_option_map _ _ _ h
  simp only [pad, List.map_map]
  apply List.ext_getElem?
  intro i
  have e := congrArg (fun l => l[i]?) hm
  simp only [List.getElem?_map] at e ⊢
  cases hs : (splitOn '+' sst)[i]? with
  | none => rw [hs] at e; cases hy : syms[i]? with
    | none => rfl
    | some y => rw [hy] at e; simp at e
  | some s =>
    rw [hs] at e
    cases hy : syms[i]? with
    | none => rw [hy] at e; simp at e
    | some ys =>
      rw [hy] at e
      simp only [Option.map_some, Option.some.injEq, Function.comp] at e ⊢
      rw [List.map_append, map_toSymN_of_mapM s ys e]
      rfl

/-! ### dropping a trailing unpaired symbol -/

theorem matching_dropDot (w : List Sym) (M : Nat → Option Nat) (h : Matching (w ++ [Sym.dot]) M) : Matching w M := by
  have hlast : M w.length = none := h.dot w.length (by simp)
  have up : ∀ (i : Nat) (y : Sym), w[i]? = some y → (w ++ [Sym.dot])[i]? = some y := by
    intro i y hy
    rw [List.getElem?_append_left (List.getElem?_eq_some_iff.mp hy).1]; exact hy
  have down : ∀ (j : Nat) (y : Sym), y ≠ Sym.dot → (w ++ [Sym.dot])[j]? = some y → w[j]? = some y := by
    intro j y hy hj
    by_cases hlt : j < w.length
    · rw [List.getElem?_append_left hlt] at hj; exact hj
    · have hjl := (List.getElem?_eq_some_iff.mp hj).1
      simp at hjl
      have : j = w.length := by omega
      subst this
      simp at hj
      exact absurd hj.symm hy
  refine ⟨fun i hi => h.dot i (up i _ hi), ?_, ?_, ?_, h.nocross⟩
  · intro i hi
    by_cases he : i = w.length
    · rw [he]; exact hlast
    · exact h.out i (by simp; omega)
  · intro i hi
    obtain ⟨j, a1, a2, a3, a4⟩ := h.cl i (up i _ hi)
    exact ⟨j, a1, a2, a3, down j _ (by decide) a4⟩
  · intro i hi
    obtain ⟨j, a1, a2, a3, a4⟩ := h.op i (up i _ hi)
    exact ⟨j, a1, a2, a3, down j _ (by decide) a4⟩

theorem matchW_dropDot (w : List Sym) (tP : List (Option Nat)) (h : matchW (w ++ [Sym.dot]) = some tP) :
    ∃ t0, matchW w = some t0 ∧ ∀ x, P t0 x = P tP x := by
  have hM := matching_dropDot w _ (matchW_sound _ _ h)
  obtain ⟨t0, ht0⟩ := matching_accepted w _ hM
  refine ⟨t0, ht0, ?_⟩
  have := matching_unique w _ _ (matchW_sound _ _ ht0) hM
  intro x; exact congrFun this x

/-- **re-indexing**: the matching of the structure list with its break tokens, read through the loci of the
    padded shape, is the pair table -/
theorem reindex (sst : List Char) (syms : List (List Sym)) (pt : PairTable) (t : List (Option Nat))
    (hs : (splitOn '+' sst).mapM (fun s => s.mapM toSym) = some syms) (L : LinF syms pt t) :
    ∃ t0, matchW (C07.word sst) = some t0 ∧
      ∀ x, ptGet pt (toLocus (lensP syms) x) = (P t0 x).map (toLocus (lensP syms)) := by
  obtain ⟨tP, h1, h2⟩ := reindex_pad L.lm
  rw [← word_pad sst syms hs] at h1
  obtain ⟨t0, h3, h4⟩ := matchW_dropDot _ _ h1
  exact ⟨t0, h3, fun x => by rw [h2 x, h4 x]⟩

/-! ### the converse: a balanced structure list over `( ) . +` has a pair table -/

theorem splitOn_cons_ne' {α} [DecidableEq α] (sep c : α) (cs : List α) (h : c ≠ sep) :
    ∃ s ss, splitOn sep cs = s :: ss ∧ splitOn sep (c :: cs) = (c :: s) :: ss := by
  cases hs : splitOn sep cs with
  | nil => exact absurd hs (splitOn_ne_nil _ _)
  | cons s ss => exact ⟨s, ss, rfl, by rw [splitOn_cons_ne sep c cs h, hs]⟩

theorem mem_splitOn {α} [DecidableEq α] (sep : α) (l s : List α) (c : α) (hs : s ∈ splitOn sep l) (hc : c ∈ s) :
    c ∈ l ∧ c ≠ sep := by
  induction l generalizing s with
  | nil => simp [splitOn] at hs; subst hs; simp at hc
  | cons x xs ih =>
    by_cases hx : x = sep
    · subst hx
      rw [splitOn_cons_eq] at hs
      rcases List.mem_cons.mp hs with rfl | hs
      · simp at hc
      · obtain ⟨a, b⟩ := ih s hs hc
        exact ⟨List.mem_cons_of_mem _ a, b⟩
    · obtain ⟨s0, ss, e1, e2⟩ := splitOn_cons_ne' sep x xs hx
      rw [e2] at hs
      rcases List.mem_cons.mp hs with rfl | hs
      · rcases List.mem_cons.mp hc with rfl | hc
        · exact ⟨by simp, hx⟩
        · obtain ⟨a, b⟩ := ih s0 (by rw [e1]; simp) hc
          exact ⟨List.mem_cons_of_mem _ a, b⟩
      · obtain ⟨a, b⟩ := ih s (by rw [e1]; exact List.mem_cons_of_mem _ hs) hc
        exact ⟨List.mem_cons_of_mem _ a, b⟩

theorem bal_append_congr (s X Y : List Sym) (h : ∀ k, bal k X = bal k Y) (k : Nat) :
    bal k (s ++ X) = bal k (s ++ Y) := by
  induction s generalizing k with
  | nil => exact h k
  | cons y s ih =>
    cases y with
    | op => simp only [List.cons_append, bal]; exact ih _
    | dot => simp only [List.cons_append, bal]; exact ih _
    | cl =>
      cases k with
      | zero => simp [bal]
      | succ k => simp only [List.cons_append, bal]; exact ih _

theorem bal_pad (syms : List (List Sym)) (k : Nat) : bal k (pad Sym.dot syms).flatten = bal k syms.flatten := by
  induction syms generalizing k with
  | nil => rfl
  | cons s ss ih =>
    simp only [pad, List.map_cons, List.flatten_cons, List.append_assoc] at ih ⊢
    apply bal_append_congr
    intro k'
    simp only [List.singleton_append, bal]
    exact ih k'

theorem bal_snoc_dot (w : List Sym) (k : Nat) : bal k (w ++ [Sym.dot]) = bal k w := by
  have := bal_append_congr w [Sym.dot] [] (by intro k; simp [bal]) k
  simpa using this

theorem toSym_of_alpha (c : Char) (h : c = '(' ∨ c = ')' ∨ c = '.') : toSym c = some (C07.toSymN c) := by
  rcases h with rfl | rfl | rfl <;> rfl

theorem mpt_of_word (sst : List Char) (t0 : List (Option Nat))
    (halpha : ∀ c ∈ sst, c = '(' ∨ c = ')' ∨ c = '.' ∨ c = '+') (h0 : matchW (C07.word sst) = some t0) :
    ∃ syms pt t, (splitOn '+' sst).mapM (fun s => s.mapM toSym) = some syms ∧ LinF syms pt t ∧
      makePairTable sst '+' = .ok pt := by
  have hrow : ∀ s ∈ splitOn '+' sst, s.mapM toSym = some (s.map C07.toSymN) := by
    intro s hs
    apply mapM_option_of_map
    rw [List.map_map]
    apply List.map_congr_left
    intro c hc
    obtain ⟨a, b⟩ := mem_splitOn '+' sst s c hs hc
    rcases halpha c a with e | e | e | e
    · exact toSym_of_alpha c (Or.inl e)
    · exact toSym_of_alpha c (Or.inr (Or.inl e))
    · exact toSym_of_alpha c (Or.inr (Or.inr e))
    · exact absurd e b
  have hs : (splitOn '+' sst).mapM (fun s => s.mapM toSym) =
      some ((splitOn '+' sst).map (fun s => s.map C07.toSymN)) := by
    apply mapM_option_of_map
    rw [List.map_map]
    apply List.map_congr_left
    intro s hs
    exact hrow s hs
  have hb : bal 0 ((splitOn '+' sst).map (fun s => s.map C07.toSymN)).flatten = true := by
    rw [← bal_pad, ← word_pad sst _ hs, bal_snoc_dot]
    exact (matchW_complete _).mp (by rw [h0]; rfl)
  obtain ⟨t, ht⟩ := Option.isSome_iff_exists.mp ((matchW_complete _).mpr hb)
  refine ⟨_, _, t, hs, ⟨ht, rfl⟩, ?_⟩
  unfold makePairTable
  simp only [hs, ht]

/-! ### geometry of the rotation on padded shapes -/

theorem toLocus_append_left (a b : List Nat) (i : Nat) (h : i < a.sum) : toLocus (a ++ b) i = toLocus a i := by
  induction a generalizing i with
  | nil => simp at h
  | cons l ls ih =>
    simp only [List.cons_append]
    by_cases hl : i < l
    · rw [toLocus_cons_lt _ _ _ hl, toLocus_cons_lt _ _ _ hl]
    · simp only [List.sum_cons] at h
      rw [toLocus_cons_ge _ _ _ hl, toLocus_cons_ge _ _ _ hl, ih (i - l) (by omega)]

theorem toLocus_append_right (a b : List Nat) (i : Nat) :
    toLocus (a ++ b) (a.sum + i) = ((toLocus b i).1 + a.length, (toLocus b i).2) := by
  induction a with
  | nil => simp
  | cons l ls ih =>
    simp only [List.cons_append, List.sum_cons, List.length_cons]
    rw [toLocus_cons_ge _ _ _ (by omega)]
    have : l + ls.sum + i - l = ls.sum + i := by omega
    rw [this, ih]
    simp only [Nat.add_assoc]

/-- strand lengths only depend on the positions of the breaks -/
theorem splitOn_lengths {α β} [DecidableEq α] [DecidableEq β] (sa : α) (sb : β) (a : List α) (b : List β)
    (hlen : a.length = b.length) (h : ∀ i : Nat, a[i]? = some sa ↔ b[i]? = some sb) :
    (splitOn sa a).map List.length = (splitOn sb b).map List.length := by
  induction a generalizing b with
  | nil =>
    cases b with
    | nil => rfl
    | cons _ _ => simp at hlen
  | cons x xs ih =>
    cases b with
    | nil => simp at hlen
    | cons y ys =>
      have h0 := h 0
      simp only [List.getElem?_cons_zero, Option.some.injEq] at h0
      have hrec := ih ys (by simpa using hlen) (fun i => by have := h (i + 1); simpa using this)
      by_cases hx : x = sa
      · have hy : y = sb := h0.mp hx
        subst hx; subst hy
        rw [splitOn_cons_eq, splitOn_cons_eq]
        simp [hrec]
      · have hy : y ≠ sb := fun e => hx (h0.mpr e)
        obtain ⟨s1, ss1, e1, e2⟩ := splitOn_cons_ne' sa x xs hx
        obtain ⟨s2, ss2, e3, e4⟩ := splitOn_cons_ne' sb y ys hy
        rw [e1, e3] at hrec
        rw [e2, e4]
        simp only [List.map_cons, List.cons.injEq, List.length_cons] at hrec ⊢
        exact ⟨by omega, hrec.2⟩


/-! ### strand-index arithmetic -/

theorem wrap_pred_succ (s n : Nat) (h : s + 1 < n + 1) : wrap (((s + 1 : Nat) : Int) - 1) n = s := by
  have hn : 0 < n := by omega
  have := C07.wrap_eq_emod (((s + 1 : Nat) : Int) - 1) n hn
  have e : ((s + 1 : Nat) : Int) - 1 = (s : Int) := by omega
  rw [e, Int.emod_eq_of_lt (by omega) (by omega)] at this
  rw [e]
  exact Int.ofNat_inj.mp this

theorem wrap_pred_zero (n : Nat) (hn : 0 < n) : wrap (((0 : Nat) : Int) - 1) n = n - 1 := by
  have := C07.wrap_eq_emod (((0 : Nat) : Int) - 1) n hn
  have e : (((0 : Nat) : Int) - 1) % (n : Int) = ((n - 1 : Nat) : Int) := by
    have h1 : (((0 : Nat) : Int) - 1 + (n : Int)) % (n : Int) = (((0 : Nat) : Int) - 1) % (n : Int) :=
      Int.add_emod_right _ _
    rw [← h1, Int.emod_eq_of_lt (by omega) (by omega)]
    omega
  rw [e] at this
  exact Int.ofNat_inj.mp this

theorem wrap_succ (s n : Nat) (h : s + 1 < n) : wrap ((s : Int) + 1) n = s + 1 := by
  have := C07.wrap_eq_emod ((s : Int) + 1) n (by omega)
  rw [Int.emod_eq_of_lt (by omega) (by omega)] at this
  have e : (s : Int) + 1 = ((s + 1 : Nat) : Int) := by omega
  rw [e] at this
  exact Int.ofNat_inj.mp this

theorem wrap_last (n : Nat) (hn : 0 < n) : wrap (((n - 1 : Nat) : Int) + 1) n = 0 := by
  have := C07.wrap_eq_emod (((n - 1 : Nat) : Int) + 1) n hn
  have e : ((n - 1 : Nat) : Int) + 1 = (n : Int) := by omega
  rw [e, Int.emod_self] at this
  rw [e]
  exact Int.ofNat_inj.mp this

/-- the strand renaming of one rotation step -/
def rotS (n s : Nat) : Nat := wrap ((s : Int) - 1) n
def rotL1 (n : Nat) (l : Locus) : Locus := (rotS n l.1, l.2)

/-- where a non-break position goes: the locus (in the padded shape of the rotated structure) of the moved
    position is the rotated locus -/
theorem toLocus_sigma (l0 : Nat) (rest : List Nat) (x : Nat)
    (hx : x < ((l0 + 1) :: rest.map (· + 1)).sum - 1)
    (hv : ValidL (l0 :: rest) (toLocus ((l0 + 1) :: rest.map (· + 1)) x)) :
    toLocus (rest.map (· + 1) ++ [l0 + 1]) (C07.sigma (((l0 + 1) :: rest.map (· + 1)).sum - 1) l0 x) =
      rotL1 (rest.length + 1) (toLocus ((l0 + 1) :: rest.map (· + 1)) x) := by
  simp only [List.sum_cons] at hx ⊢
  by_cases h1 : x < l0 + 1
  · rw [toLocus_cons_lt _ _ _ h1] at hv ⊢
    obtain ⟨k, hk1, hk2⟩ := hv
    simp only [List.getElem?_cons_zero, Option.some.injEq] at hk1
    subst hk1
    simp only at hk2
    have hs : C07.sigma (l0 + 1 + (rest.map (· + 1)).sum - 1) l0 x = (rest.map (· + 1)).sum + x := by
      unfold C07.sigma; rw [if_pos hk2]; omega
    rw [hs, toLocus_append_right, toLocus_cons_lt _ _ _ h1]
    simp only [rotL1, rotS, List.length_map, Nat.zero_add]
    rw [wrap_pred_zero _ (by omega)]
    simp
  · rw [toLocus_cons_ge _ _ _ h1]
    have hs : C07.sigma (l0 + 1 + (rest.map (· + 1)).sum - 1) l0 x = x - (l0 + 1) := by
      unfold C07.sigma; rw [if_neg (by omega), if_neg (by omega)]
    have hlt : x - (l0 + 1) < (rest.map (· + 1)).sum := by omega
    rw [hs, toLocus_append_left _ _ _ hlt]
    have hvr := toLocus_valid _ _ hlt
    have hsl := Split.validL_lt _ _ hvr
    simp only [List.length_map] at hsl
    simp only [rotL1, rotS]
    rw [wrap_pred_succ _ _ (by omega)]


/-! ### the rotation on pair tables -/

theorem mem_splitOn_of_ne {α} [DecidableEq α] (sep : α) (l : List α) (c : α) (hc : c ∈ l) (hne : c ≠ sep) :
    ∃ s ∈ splitOn sep l, c ∈ s := by
  induction l with
  | nil => simp at hc
  | cons x xs ih =>
    by_cases hx : x = sep
    · subst hx
      rw [splitOn_cons_eq]
      rcases List.mem_cons.mp hc with rfl | hc
      · exact absurd rfl hne
      · obtain ⟨s, hs, hcs⟩ := ih hc
        exact ⟨s, List.mem_cons_of_mem _ hs, hcs⟩
    · obtain ⟨s0, ss, e1, e2⟩ := splitOn_cons_ne' sep x xs hx
      rw [e2]
      rcases List.mem_cons.mp hc with rfl | hc
      · exact ⟨c :: s0, by simp, by simp⟩
      · obtain ⟨s, hs, hcs⟩ := ih hc
        rw [e1] at hs
        rcases List.mem_cons.mp hs with rfl | hs
        · exact ⟨x :: s, by simp, List.mem_cons_of_mem _ hcs⟩
        · exact ⟨s, by simp [hs], hcs⟩

theorem alpha_of_toSym (c : Char) (y : Sym) (h : toSym c = some y) : c = '(' ∨ c = ')' ∨ c = '.' ∨ c = '+' := by
  unfold toSym at h
  split at h <;> simp_all

theorem alphabet (sst : List Char) (syms : List (List Sym))
    (hs : (splitOn '+' sst).mapM (fun s => s.mapM toSym) = some syms) :
    ∀ c ∈ sst, c = '(' ∨ c = ')' ∨ c = '.' ∨ c = '+' := by
  intro c hc
  by_cases hp : c = '+'
  · exact Or.inr (Or.inr (Or.inr hp))
  · obtain ⟨s, hs1, hcs⟩ := mem_splitOn_of_ne '+' sst c hc hp
    have h1 := mapM_option_map _ _ _ hs
    have : s.mapM toSym ∈ (splitOn '+' sst).map (fun s => s.mapM toSym) := List.mem_map.mpr ⟨s, hs1, rfl⟩
    rw [h1] at this
    obtain ⟨ys, _, hys⟩ := List.mem_map.mp this
    have h2 := mapM_option_map _ _ _ hys.symm
    have : toSym c ∈ s.map toSym := List.mem_map.mpr ⟨c, hcs, rfl⟩
    rw [h2] at this
    obtain ⟨y, _, hy⟩ := List.mem_map.mp this
    exact alpha_of_toSym c y hy.symm

theorem bracket_of_toSymN (c : Char) (h : C07.toSymN c ≠ Sym.dot) : c = '(' ∨ c = ')' := by
  unfold C07.toSymN at h
  split at h
  · exact Or.inl rfl
  · exact Or.inr rfl
  · exact absurd rfl h

theorem sigma_surj (N p y : Nat) (hp : p < N) (hy : y < N) : ∃ i, i < N ∧ C07.sigma N p i = y := by
  rcases Rot.rot_pos_cases N p y hp hy with h | ⟨i, hi, hip, hsh⟩
  · exact ⟨p, hp, by unfold C07.sigma; simp [h]⟩
  · exact ⟨i, hi, by rw [C07.sigma_eq_sh N p i hi hip]; exact hsh⟩

theorem take_drop_at {α} (l : List α) (p : Nat) (a : α) (h : l[p]? = some a) :
    l = l.take p ++ a :: l.drop (p + 1) := by
  have hp := (List.getElem?_eq_some_iff.mp h).1
  have ha : l[p] = a := by rw [List.getElem?_eq_getElem hp] at h; exact Option.some.inj h
  conv => lhs; rw [← List.take_append_drop p l]
  rw [List.drop_eq_getElem_cons hp, ha]

/-- strand lengths of a structure list whose first break is at `p` -/
theorem lens_first (sst : List Char) (p : Nat) (h : sst[p]? = some '+') (hb : ∀ j, j < p → sst[j]? ≠ some '+') :
    ∃ rest, rest ≠ [] ∧ (splitOn '+' sst).map List.length = p :: rest := by
  have hp := (List.getElem?_eq_some_iff.mp h).1
  have hnot : '+' ∉ sst.take p := by
    intro hm
    obtain ⟨j, hj⟩ := List.mem_iff_getElem?.mp hm
    have hjl := (List.getElem?_eq_some_iff.mp hj).1
    simp at hjl
    rw [List.getElem?_take_of_lt (by omega)] at hj
    exact hb j (by omega) hj
  have e := take_drop_at sst p '+' h
  have := splitOn_append_sep '+' (sst.take p) (sst.drop (p + 1)) hnot
  rw [← e] at this
  rw [this]
  refine ⟨(splitOn '+' (sst.drop (p + 1))).map List.length, ?_, ?_⟩
  · intro e0
    exact splitOn_ne_nil _ _ (List.map_eq_nil_iff.mp e0)
  · simp; omega

theorem rot_main (seq : List String) (sst : List Char) (pt : PairTable)
    (hal : C07.Aligned seq sst) (hok : makePairTable sst '+' = .ok pt)
    (hne : ∀ s ∈ splitOn '+' sst, s ≠ []) (hplus : "+" ∈ seq) :
    ∃ seq' sst' pt', rotateOnce seq sst = .ok (seq', sst') ∧ makePairTable sst' '+' = .ok pt' ∧
      (∀ s ∈ splitOn '+' sst', s ≠ []) ∧
      pt'.map List.length = (pt.drop 1 ++ pt.take 1).map List.length ∧ 2 ≤ pt.length ∧
      (∀ l, ValidL (pt.map List.length) l →
        ptGet pt' (rotL1 pt.length l) = (ptGet pt l).map (rotL1 pt.length)) := by
  obtain ⟨syms, t, L, hs⟩ := mpt_linF sst '+' pt hok
  obtain ⟨t0, h0, hR⟩ := reindex sst syms pt t hs L
  obtain ⟨p, hp⟩ := Rot.idxOf?_isSome_of_mem seq "+" hplus
  obtain ⟨hps, hpp, hpb⟩ := Rot.idxOf?_some seq "+" p hp
  obtain ⟨hlen, hbreak⟩ := hal
  have hsp : sst[p]? = some '+' := (hbreak p).mp hpp
  have hsb : ∀ j, j < p → sst[j]? ≠ some '+' := fun j hj e => hpb j hj ((hbreak j).mpr e)
  obtain ⟨seq', sst', t0', hrot, hseq', hlen', hal', hm', _, hunp, hP⟩ :=
    C07.rotateOnce_pairs seq sst p t0 ⟨hlen, hbreak⟩ hp h0
  have hM0 := matchW_sound _ _ h0
  have hM0' := matchW_sound _ _ hm'
  have hpN : p < sst.length := by omega
  -- shapes
  have hshape : pt.map List.length = (splitOn '+' sst).map List.length := C06.mpt_shape sst '+' pt hok
  have hsymlen : syms.map List.length = pt.map List.length := L.shape.symm
  obtain ⟨rest, hrest, hlens⟩ := lens_first sst p hsp hsb
  have hN : sst.length + 1 = (lensP syms).sum := by
    have := congrArg List.length (word_pad sst syms hs)
    rw [List.length_append, List.length_flatten, pad_lens] at this
    simpa [C07.word, lensP] using this
  have hlP : lensP syms = (p + 1) :: rest.map (· + 1) := by
    unfold lensP; rw [hsymlen, hshape, hlens]; rfl
  -- the rotated structure is over the alphabet
  have halpha := alphabet sst syms hs
  have halpha' : ∀ c ∈ sst', c = '(' ∨ c = ')' ∨ c = '.' ∨ c = '+' := by
    intro c hc
    obtain ⟨y, hy⟩ := List.mem_iff_getElem?.mp hc
    have hyl := (List.getElem?_eq_some_iff.mp hy).1
    obtain ⟨i, hi, rfl⟩ := sigma_surj sst.length p y hpN (by omega)
    cases hPi : P t0 i with
    | none =>
      have := hunp i hi (by simp [hPi])
      rw [hy] at this
      exact halpha c (List.mem_of_getElem? this.symm)
    | some j =>
      have hP' := hP i hi
      rw [hPi] at hP'
      have hw : (C07.word sst')[C07.sigma sst.length p i]? = some (C07.toSymN c) := by
        simp [C07.word, hy]
      have hnd : C07.toSymN c ≠ Sym.dot := by
        intro e
        rw [e] at hw
        rw [hM0'.dot _ hw] at hP'
        simp at hP'
      rcases bracket_of_toSymN c hnd with e | e
      · exact Or.inl e
      · exact Or.inr (Or.inl e)
  obtain ⟨syms', pt', t', hs', L', hok'⟩ := mpt_of_word sst' t0' halpha' hm'
  obtain ⟨t0'', h0'', hR'⟩ := reindex sst' syms' pt' t' hs' L'
  rw [hm'] at h0''
  have := Option.some.inj h0''
  subst this
  -- strand lengths of the rotated structure
  have hshape' : pt'.map List.length = (splitOn '+' sst').map List.length := C06.mpt_shape sst' '+' pt' hok'
  have hl1 : (splitOn '+' sst').map List.length = (splitOn "+" seq').map List.length :=
    (splitOn_lengths "+" '+' seq' sst' hal'.1 hal'.2).symm
  have hl2 : (splitOn "+" seq).map List.length = (splitOn '+' sst).map List.length :=
    splitOn_lengths "+" '+' seq sst hlen hbreak
  have hl3 := C07.rotateOnce_strands seq sst (seq', sst') hrot hplus
  have hlens' : (splitOn '+' sst').map List.length = rest ++ [p] := by
    rw [hl1, hl3, List.map_append, List.map_drop, List.map_take, hl2, hlens]
    simp
  have hsymlen' : syms'.map List.length = pt'.map List.length := L'.shape.symm
  have hlP' : lensP syms' = rest.map (· + 1) ++ [p + 1] := by
    unfold lensP; rw [hsymlen', hshape', hlens']; simp
  have hptlen : pt.length = rest.length + 1 := by
    have := congrArg List.length (hshape.trans hlens)
    simpa using this
  have hppos : 0 < p := by
    have : sst.take p ∈ splitOn '+' sst := by
      have e := take_drop_at sst p '+' hsp
      have hnot : '+' ∉ sst.take p := by
        intro hm
        obtain ⟨j, hj⟩ := List.mem_iff_getElem?.mp hm
        have hjl := (List.getElem?_eq_some_iff.mp hj).1
        simp at hjl
        rw [List.getElem?_take_of_lt (by omega)] at hj
        exact hsb j (by omega) hj
      have := splitOn_append_sep '+' (sst.take p) (sst.drop (p + 1)) hnot
      rw [← e] at this
      rw [this]; simp
    have := hne _ this
    have hl : (sst.take p).length = p := by simp; omega
    cases hp0 : p with
    | zero => rw [hp0] at this; simp at this
    | succ k => omega
  have hlPget : ∀ (s k : Nat), (pt.map List.length)[s]? = some k → (lensP syms)[s]? = some (k + 1) := by
    intro s k h
    show ((syms.map List.length).map (· + 1))[s]? = _
    rw [hsymlen, List.getElem?_map, h]; rfl
  refine ⟨seq', sst', pt', hrot, hok', ?_, ?_, ?_, ?_⟩
  · -- non-empty strands
    intro s hs1 e
    have : s.length ∈ (splitOn '+' sst').map List.length := List.mem_map.mpr ⟨s, hs1, rfl⟩
    rw [hlens', e] at this
    rcases List.mem_append.mp this with h | h
    · -- an element of `rest` is the length of a strand of `sst`
      have h2 : (0 : Nat) ∈ (splitOn '+' sst).map List.length := by
        rw [hlens]; exact List.mem_cons_of_mem _ h
      obtain ⟨s0, hs0, hs0l⟩ := List.mem_map.mp h2
      exact hne s0 hs0 (List.length_eq_zero_iff.mp hs0l)
    · have h0 : (0 : Nat) = p := by simpa using h
      omega
  · rw [hshape', hlens', List.map_append, List.map_drop, List.map_take, hshape, hlens]
    simp
  · have := List.length_pos_iff.mpr hrest
    omega
  · intro l hv
    -- the linear position of `l` in the structure list
    have hvP : ValidL (lensP syms) l := by
      obtain ⟨k, hk1, hk2⟩ := hv
      exact ⟨k + 1, hlPget _ _ hk1, by omega⟩
    obtain ⟨x, hx, rfl⟩ := valid_eq_toLocus _ l hvP
    have hxN : x < sst.length := by
      -- `x` is not the last padded position, which is a break slot
      have hne' : x ≠ sst.length := by
        intro e
        -- the break slot of the last strand is not a valid locus of `pt`
        obtain ⟨k, hk1, hk2⟩ := hv
        have h1 := fromLocus_toLocus (lensP syms) x hx
        have hk3 : (lensP syms)[(toLocus (lensP syms) x).1]? = some (k + 1) := hlPget _ _ hk1
        have h2 := Loop.take_succ_sum (lensP syms) _ _ hk3
        have h3 := Loop.take_sum_le (lensP syms) ((toLocus (lensP syms) x).1 + 1)
        unfold fromLocus at h1
        omega
      omega
    have hsig := toLocus_sigma p rest x (by rw [← hlP]; omega) (by rw [← hlP, ← hlens, ← hshape]; exact hv)
    rw [← hlP, ← hlP', ← hN] at hsig
    simp only [Nat.add_sub_cancel] at hsig
    rw [hptlen, ← hsig, hR', hR x, hP x hxN]
    cases hj : P t0 x with
    | none => rfl
    | some j =>
      simp only [Option.map_some, Option.some.injEq]
      -- the partner is a non-break position as well
      have hRj := hR j
      obtain ⟨_, hjN, _, hjx⟩ := hM0.pair x j hj
      rw [hjx] at hRj
      have hvj : ValidL (pt.map List.length) (toLocus (lensP syms) j) := by
        rw [ptGet_eq] at hRj
        cases hg : getL pt (toLocus (lensP syms) j) with
        | none => rw [hg] at hRj; simp at hRj
        | some o => exact getL_valid _ _ o hg
      have hjN' : j < sst.length := by simpa [C07.word] using hjN
      have hsigj := toLocus_sigma p rest j (by rw [← hlP]; omega) (by rw [← hlP, ← hlens, ← hshape]; exact hvj)
      rw [← hlP, ← hlP', ← hN] at hsigj
      simp only [Nat.add_sub_cancel] at hsigj
      exact hsigj


/-! ### the pair-table generator undoes the rotation -/

theorem rotS_zero (n : Nat) (hn : 0 < n) : rotS n 0 = n - 1 := wrap_pred_zero n hn
theorem rotS_succ (n s : Nat) (h : s + 1 < n + 1) : rotS n (s + 1) = s := wrap_pred_succ s n h

theorem rotS_lt (n s : Nat) (hs : s < n) : rotS n s < n := by
  cases s with
  | zero => rw [rotS_zero n (by omega)]; omega
  | succ s => rw [rotS_succ n s (by omega)]; omega

theorem unrot_rotS (n s : Nat) (hs : s < n) : wrap ((rotS n s : Int) + 1) n = s := by
  cases s with
  | zero => rw [rotS_zero n (by omega)]; exact wrap_last n (by omega)
  | succ s => rw [rotS_succ n s (by omega)]; exact wrap_succ s n (by omega)

theorem rotS_surj (n k : Nat) (hk : k < n) : ∃ s, s < n ∧ rotS n s = k := by
  by_cases h : k = n - 1
  · exact ⟨0, by omega, by rw [rotS_zero n (by omega)]; exact h.symm⟩
  · exact ⟨k + 1, by omega, rotS_succ n k (by omega)⟩

theorem rot_rows {β} (l : List β) (n s : Nat) (hn : l.length = n) (hs : s < n) :
    (l.drop (n - 1) ++ l.take (n - 1))[s]? = l[rotS n s]? := by
  cases s with
  | zero =>
    rw [rotS_zero n (by omega), List.getElem?_append_left (by simp; omega), List.getElem?_drop]
    simp
  | succ s =>
    rw [rotS_succ n s (by omega), List.getElem?_append_right (by simp; omega)]
    simp only [List.length_drop]
    have : s + 1 - (l.length - (n - 1)) = s := by omega
    rw [this, List.getElem?_take_of_lt (by omega)]

theorem rot_rows' {β} (l : List β) (n s : Nat) (hn : l.length = n) (hs : s < n) :
    (l.drop 1 ++ l.take 1)[rotS n s]? = l[s]? := by
  cases s with
  | zero =>
    rw [rotS_zero n (by omega), List.getElem?_append_right (by simp; omega)]
    simp only [List.length_drop]
    have : n - 1 - (l.length - 1) = 0 := by omega
    rw [this, List.getElem?_take_of_lt (by omega)]
  | succ s =>
    rw [rotS_succ n s (by omega), List.getElem?_append_left (by simp; omega), List.getElem?_drop]
    congr 1; omega

theorem getL_map_map {α β} (f : α → β) (xss : List (List α)) (l : Locus) :
    getL (xss.map (fun r => r.map f)) l = (getL xss l).map f := by
  simp only [getL, List.getElem?_map]
  cases xss[l.1]? with
  | none => rfl
  | some r => simp

/-- the row lengths of the rotated table, row by row -/
theorem rot_shape (pt pt' : PairTable) (n : Nat) (hn : pt.length = n)
    (hshape : pt'.map List.length = (pt.drop 1 ++ pt.take 1).map List.length) (s : Nat) (hs : s < n) :
    (pt'.map List.length)[rotS n s]? = (pt.map List.length)[s]? := by
  rw [hshape, List.map_append, List.map_drop, List.map_take]
  exact rot_rows' (pt.map List.length) n s (by simpa using hn) hs

theorem rot_valid (pt pt' : PairTable) (n : Nat) (hn : pt.length = n)
    (hshape : pt'.map List.length = (pt.drop 1 ++ pt.take 1).map List.length) (l : Locus) (hs : l.1 < n) :
    ValidL (pt'.map List.length) (rotL1 n l) ↔ ValidL (pt.map List.length) l := by
  unfold ValidL rotL1
  simp only
  rw [rot_shape pt pt' n hn hshape l.1 hs]

theorem rot_back (pt pt' : PairTable) (n : Nat) (hn : pt.length = n) (h2 : 2 ≤ n)
    (hshape : pt'.map List.length = (pt.drop 1 ++ pt.take 1).map List.length)
    (hent : ∀ l m, ptGet pt l = some m → m.1 < n)
    (hid : ∀ l, ValidL (pt.map List.length) l → ptGet pt' (rotL1 n l) = (ptGet pt l).map (rotL1 n)) :
    (pt'.drop (n - 1) ++ pt'.take (n - 1)).map (fun row => row.map (rotateLocus n 1)) = pt := by
  have hn' : pt'.length = n := by
    have := congrArg List.length hshape
    simp only [List.length_map, List.length_append, List.length_drop, List.length_take] at this
    omega
  apply ext_getL
  · simp only [List.length_map, List.length_append, List.length_drop, List.length_take]; omega
  · intro l
    rw [getL_map_map]
    by_cases hs : l.1 < n
    · have hrow : getL (pt'.drop (n - 1) ++ pt'.take (n - 1)) l = getL pt' (rotL1 n l) := by
        unfold getL rotL1
        simp only
        rw [rot_rows pt' n l.1 hn' hs]
      rw [hrow]
      by_cases hv : ValidL (pt.map List.length) l
      · have hv' := (rot_valid pt pt' n hn hshape l hs).mpr hv
        obtain ⟨o, ho⟩ := getL_of_valid pt l hv
        obtain ⟨o', ho'⟩ := getL_of_valid pt' _ hv'
        have e := hid l hv
        rw [ptGet_eq, ptGet_eq, ho, ho'] at e
        simp only [Option.join_some] at e
        rw [ho, ho', e]
        simp only [Option.map_some, Option.some.injEq]
        cases o with
        | none => rfl
        | some m =>
          have hm := hent l m (by rw [ptGet_eq, ho]; rfl)
          simp only [Option.map_some, rotateLocus, rotL1, Option.some.injEq]
          rw [unrot_rotS n m.1 hm]
      · have e1 : getL pt l = none := by
          cases hg : getL pt l with
          | none => rfl
          | some o => exact absurd (getL_valid _ _ o hg) hv
        have e2 : getL pt' (rotL1 n l) = none := by
          cases hg : getL pt' (rotL1 n l) with
          | none => rfl
          | some o => exact absurd ((rot_valid pt pt' n hn hshape l hs).mp (getL_valid _ _ o hg)) hv
        rw [e1, e2]; rfl
    · have e1 : getL pt l = none := by
        unfold getL
        rw [List.getElem?_eq_none (by omega)]; rfl
      have e2 : getL (pt'.drop (n - 1) ++ pt'.take (n - 1)) l = none := by
        unfold getL
        rw [List.getElem?_eq_none (by simp; omega)]; rfl
      rw [e1, e2]; rfl

theorem rot_list_back {β} (l : List β) (n : Nat) (hn : l.length = n) (h1 : 1 ≤ n) :
    (l.drop 1 ++ l.take 1).drop (n - 1) ++ (l.drop 1 ++ l.take 1).take (n - 1) = l := by
  cases l with
  | nil => simp at hn; omega
  | cons a r =>
    subst hn
    simp

/-! ### connectivity on loci -/

/-- the strands form one component under the pairing of the table (locus form of `Loop.Connected`) -/
def ConnL (pt : PairTable) (n : Nat) : Prop :=
  ∀ S : Nat → Prop, (∀ l m, ptGet pt l = some m → (S l.1 ↔ S m.1)) → (∃ k, k < n ∧ S k) → ∀ k, k < n → S k

theorem connected_iff_connL {syms pt t} (L : LinF syms pt t) :
    Loop.Connected (syms.map List.length) (P t) ↔ ConnL pt (syms.map List.length).length := by
  have hcl : ∀ S : Nat → Prop, Loop.Closed (syms.map List.length) (P t) S ↔
      (∀ l m, ptGet pt l = some m → (S l.1 ↔ S m.1)) := by
    intro S
    constructor
    · intro h l m hp
      obtain ⟨i, j, rfl, rfl, hij⟩ := L.pair_of_ptGet l m hp
      have hi := (L.hM.pair i j hij).1
      rw [L.wlen] at hi
      exact h i j hij hi
    · intro h i j hij hi
      apply h
      rw [L.hpg i, hij]; rfl
  unfold Loop.Connected ConnL
  constructor
  · intro h S hS; exact h S ((hcl S).mpr hS)
  · intro h S hS; exact h S ((hcl S).mp hS)

/-- plain-mode `make_loop_index` succeeds exactly on connected complexes (non-empty strands) -/
theorem plain_iff_connL {syms pt t} (L : LinF syms pt t) (hpos : ∀ k ∈ syms.map List.length, 0 < k) :
    (∃ lo, makeLoopIndex pt false = .ok lo) ↔ ConnL pt pt.length := by
  have hlen : (syms.map List.length).length = pt.length := by
    have := congrArg List.length L.shape; simpa using this.symm
  rw [← hlen, ← connected_iff_connL L, L.makeLoopIndex_eq]
  have hl : (syms.map List.length).sum = syms.flatten.length := L.wlen.symm
  have hdich := Loop.scan_false t (syms.map List.length) 0 [] [] (by rw [L.tlen]; omega)
  rw [Loop.St_zero, List.drop_zero] at hdich
  constructor
  · rintro ⟨lo, hlo⟩
    apply Classical.byContradiction
    intro hc
    rw [Loop.error_of_not_connected _ t _ L.hm hl hpos hc] at hlo
    simp at hlo
  · intro hc
    by_cases hcond : ((Loop.ends t 0 (syms.map List.length)).map (·.2)).Nodup ∧
        ∀ x ∈ (Loop.ends t 0 (syms.map List.length)).map (·.2), x ∉ ([] : List Nat)
    · rw [hdich.1 hcond]; exact ⟨_, rfl⟩
    · exact absurd hc (Loop.not_connected_of_error _ t _ L.hm hl (hdich.2 hcond))

theorem ptGet_valid (pt : PairTable) (l m : Locus) (h : ptGet pt l = some m) : ValidL (pt.map List.length) l := by
  rw [ptGet_eq] at h
  cases hg : getL pt l with
  | none => rw [hg] at h; simp at h
  | some o => exact getL_valid _ _ o hg

theorem connL_rot (pt pt' : PairTable) (n : Nat) (hn : pt.length = n)
    (hshape : pt'.map List.length = (pt.drop 1 ++ pt.take 1).map List.length)
    (hent : ∀ l m, ptGet pt l = some m → m.1 < n)
    (hid : ∀ l, ValidL (pt.map List.length) l → ptGet pt' (rotL1 n l) = (ptGet pt l).map (rotL1 n)) :
    ConnL pt n ↔ ConnL pt' n := by
  have hn' : pt'.length = n := by
    have := congrArg List.length hshape
    simp only [List.length_map, List.length_append, List.length_drop, List.length_take] at this
    omega
  have hlt : ∀ l m, ptGet pt l = some m → l.1 < n := fun l m h => hn ▸ Split.ptGet_lt pt l m h
  -- every non-empty entry of the rotated table comes from one of the original
  have hback : ∀ l' m', ptGet pt' l' = some m' →
      ∃ l m, l' = rotL1 n l ∧ m' = rotL1 n m ∧ ptGet pt l = some m := by
    intro l' m' h
    have hl' : l'.1 < n := hn' ▸ Split.ptGet_lt pt' l' m' h
    obtain ⟨s, hs, hrs⟩ := rotS_surj n l'.1 hl'
    have e : l' = rotL1 n (s, l'.2) := by
      show l' = (rotS n s, l'.2); rw [hrs]
    have hv' := ptGet_valid pt' l' m' h
    rw [e] at hv' h
    have hv := (rot_valid pt pt' n hn hshape (s, l'.2) hs).mp hv'
    rw [hid _ hv] at h
    cases hm : ptGet pt (s, l'.2) with
    | none => rw [hm] at h; simp at h
    | some m =>
      rw [hm] at h
      simp only [Option.map_some, Option.some.injEq] at h
      exact ⟨(s, l'.2), m, e, h.symm, hm⟩
  constructor
  · intro h S' hS' hex k' hk'
    have := h (fun k => S' (rotS n k))
      (by intro l m hp
          have hv := ptGet_valid pt l m hp
          have e := hid l hv
          rw [hp] at e
          exact hS' _ _ e)
      (by obtain ⟨k, hk, hSk⟩ := hex
          obtain ⟨s, hs, hrs⟩ := rotS_surj n k hk
          exact ⟨s, hs, by show S' (rotS n s); rw [hrs]; exact hSk⟩)
    obtain ⟨s, hs, hrs⟩ := rotS_surj n k' hk'
    have := this s hs
    simp only [hrs] at this
    exact this
  · intro h S hS hex k hk
    have := h (fun k' => S (wrap ((k' : Int) + 1) n))
      (by intro l' m' hp
          obtain ⟨l, m, rfl, rfl, hlm⟩ := hback l' m' hp
          show S (wrap ((rotS n l.1 : Int) + 1) n) ↔ S (wrap ((rotS n m.1 : Int) + 1) n)
          rw [unrot_rotS n l.1 (hlt l m hlm), unrot_rotS n m.1 (hent l m hlm)]
          exact hS l m hlm)
      (by obtain ⟨k0, hk0, hSk⟩ := hex
          exact ⟨rotS n k0, rotS_lt n k0 hk0, by show S (wrap ((rotS n k0 : Int) + 1) n); rw [unrot_rotS n k0 hk0]; exact hSk⟩)
      (rotS n k) (rotS_lt n k hk)
    simp only [unrot_rotS n k hk] at this
    exact this


end Dsd.Brk
