/-
Documents with a malformed statement are rejected (C19, negative clauses): `BadStmt s` — the statement
alternatives fail on `s`, whatever follows; a document in which such a text stands where a statement is expected —
after any number of well-formed statements — is rejected, whatever comes after it.  `BadStmtT`: the same for texts
with tabs (which `parseDoc` expands first).
-/
import DsdVerif.Lemmas.PPSswReject
import DsdVerif.Lemmas.PPSswTabs

namespace Dsd.PP.Ssw
open Dsd.PP Dsd.Gen Dsd.PP.Tabs

/-- the statement alternatives reject the text `s` (which starts like a statement), whatever follows it -/
structure BadStmt (s : List Char) : Prop where
  head : ∃ c r, s = c :: r ∧ StartCh c
  notab : '\t' ∉ s
  fails : ∃ b, b ≤ 3 * s.length + 30 ∧ ∀ R, Ev ssw_env sk (.alt bodyAlts) (P (s ++ R)) none b

theorem ev_stringEnd_fail {env : Env} {ctx : Ctx} {p : Pos} (c : Char) (r : List Char)
    (hp : (pre ctx p).rest = c :: r) : Ev env ctx .stringEnd p none 0 := by
  intro fuel _
  cases fuel with
  | zero => simp only [run]
  | succ f => simp [run, hp]

/-- `chain` with an arbitrary final position -/
theorem chain_to (l : List Item) (hl : ∀ x ∈ l, StmtText x.1 x.2.1) (T : List Char) (p : Pos) (hc : Cont T p)
    (q : Pos) (tt : List Tree) (bt : Nat) (htail : EvMany ssw_env sk ssw_stmt p (some (q, tt)) bt) :
    EvMany ssw_env sk ssw_stmt (posOf l T p) (some (q, l.map (·.2.1) ++ tt))
      (3 * (itemsText l).length + bt + 41) := by
  induction l with
  | nil => exact htail.cast rfl (by omega)
  | cons x xs ih =>
    have hxs : ∀ y ∈ xs, StmtText y.1 y.2.1 := fun y hy => hl y (List.mem_cons_of_mem _ hy)
    have h1 := stmt_term x.1 x.2.1 (hl x List.mem_cons_self) x.2.2 (itemsText xs ++ T) (posOf xs T p)
      (cont_items xs hxs T p hc)
    rw [← itemsText_cons] at h1
    have hne := posOf_ne x xs hxs T p hc
    simp only [posOf]
    refine (evm_step h1 hne (ih hxs)).cast (by simp) ?_
    simp only [itemsText, itemText, List.flatMap_cons, List.length_append, List.length_cons, List.length_replicate]
    omega

/-- after `k0` blank lines and the well-formed statements `l`, the malformed `s` makes the document fail -/
theorem document_reject_ev (k0 : Nat) (l : List Item) (hl : ∀ x ∈ l, StmtText x.1 x.2.1) (s : List Char)
    (hs : BadStmt s) (R : List Char) :
    ∃ b, b ≤ 3 * (itemsText l ++ s).length + k0 + 150 ∧
      Ev ssw_env sk ssw_document (P (List.replicate k0 '\n' ++ (itemsText l ++ (s ++ R)))) none b := by
  obtain ⟨c, r, rfl, hc⟩ := hs.head
  obtain ⟨b, hb, hfail⟩ := hs.fails
  have hstmt : Ev ssw_env sk ssw_stmt (P (c :: r ++ R)) none (b + 3) := by
    rw [ssw_stmt_eq]
    exact (ev_seq (evs_fail_head (ev_group_fail (hfail R)))).cast rfl (by omega)
  have hend : Ev ssw_env sk .stringEnd (P (c :: r ++ R)) none 0 :=
    ev_stringEnd_fail c (r ++ R) (by simp only [pre, if_true]; exact skipIgn_cons_of c _ hc.1 hc.2.1)
  cases l with
  | nil =>
    refine ⟨b + k0 + 10, by simp only [itemsText, List.flatMap_nil, List.nil_append]; omega, ?_⟩
    simp only [itemsText, List.flatMap_nil, List.nil_append]
    unfold ssw_document
    apply Ev.cast
    · apply ev_seq
      apply evs_fail_tail ev_stringStart
      apply evs_fail_tail (ev_many (evm_lineEnds_nls k0 c (r ++ R) hc.1 hc.2.1 hc.2.2))
      exact evs_fail_head (ev_many1_fail hstmt)
    · rfl
    · omega
  | cons x xs =>
    have hxs : ∀ y ∈ xs, StmtText y.1 y.2.1 := fun y hy => hl y (List.mem_cons_of_mem _ hy)
    have hx := hl x List.mem_cons_self
    obtain ⟨cx, rx, hcr, hcx⟩ := hx.cons
    have hcont : Cont (c :: r ++ R) (P (c :: r ++ R)) := Cont.next c (r ++ R) hc
    have h1 := stmt_term x.1 x.2.1 hx x.2.2 (itemsText xs ++ (c :: r ++ R)) (posOf xs (c :: r ++ R) (P (c :: r ++ R)))
      (cont_items xs hxs _ _ hcont)
    rw [← itemsText_cons] at h1
    have h2 := chain_to xs hxs (c :: r ++ R) (P (c :: r ++ R)) hcont (P (c :: r ++ R)) [] _ (evm_stop hstmt)
    have hm := ev_many1 h1 h2
    have htext : itemsText (x :: xs) ++ (c :: r ++ R) =
        cx :: (rx ++ '\n' :: (List.replicate x.2.2 '\n' ++ (itemsText xs ++ (c :: r ++ R)))) := by
      simp [itemsText, itemText, hcr]
    have hlen : (itemsText (x :: xs) ++ c :: r).length =
        x.1.length + 1 + x.2.2 + (itemsText xs).length + (r.length + 1) := by
      simp [itemsText, itemText]; omega
    rw [htext] at hm ⊢
    have hdoc := ev_seq (evs_fail_tail (ev_stringStart (env := ssw_env) (ctx := sk))
      (evs_fail_tail (ev_many (evm_lineEnds_nls k0 cx _ hcx.1 hcx.2.1 hcx.2.2))
        (evs_fail_tail hm (evs_fail_head (gs := []) hend))))
    refine ⟨_, ?_, hdoc⟩
    rw [hlen]
    simp only [List.length_cons] at hb
    omega

theorem notab_replicate_nl (k : Nat) : '\t' ∉ List.replicate k '\n' := by
  intro h; exact absurd (List.eq_of_mem_replicate h) (by decide)

/-- **a document with a malformed statement is rejected** (tab-free) -/
theorem document_rejected (k0 : Nat) (stmts : List Item) (h : ∀ x ∈ stmts, StmtText x.1 x.2.1) (s : List Char)
    (hs : BadStmt s) (R : List Char) (hR : '\t' ∉ R) :
    parseDoc ssw_env ssw_grammar (String.ofList (List.replicate k0 '\n' ++ (itemsText stmts ++ (s ++ R)))) = none := by
  obtain ⟨b, hb, hev⟩ := document_reject_ev k0 stmts h s hs R
  have hnt : '\t' ∉ List.replicate k0 '\n' ++ (itemsText stmts ++ (s ++ R)) := by
    have h1 := notab_items stmts h
    have h2 := hs.notab
    have h3 := notab_replicate_nl k0
    simp only [List.mem_append, not_or]
    exact ⟨h3, h1, h2, hR⟩
  rw [parseDoc_of_ev ssw_grammar _ _ _ hnt hev (by
    simp only [List.length_append, List.length_replicate] at hb ⊢; omega)]
  rfl

/-! ### with tabs -/

/-- `s` — which may contain tabs — expands (at column 0) to a malformed statement -/
def BadStmtT (s : List Char) : Prop :=
  ∃ s', (∀ rest, ∃ col', expandTabs (s ++ rest) 0 = s' ++ expandTabs rest col') ∧ BadStmt s'

theorem BadStmt.toT {s : List Char} (h : BadStmt s) : BadStmtT s :=
  ⟨s, fun rest => ⟨_, expandTabs_tok s h.notab rest 0⟩, h⟩

theorem notab_expandTabs (cs : List Char) (col : Nat) : '\t' ∉ expandTabs cs col := by
  induction cs generalizing col with
  | nil => simp [expandTabs]
  | cons c cs ih =>
    by_cases hc : c = '\t'
    · subst hc
      simp only [expandTabs, List.mem_append, not_or]
      exact ⟨fun h => absurd (List.eq_of_mem_replicate h) (by decide), ih 0⟩
    · rw [expandTabs]
      · simp only [List.mem_cons, not_or]
        exact ⟨fun e => hc e.symm, ih _⟩
      · exact hc

theorem colAfter_nls (k : Nat) (col : Nat) (h : k = 0 → col = 0) : colAfter (List.replicate k '\n') col = 0 := by
  induction k generalizing col with
  | zero => simpa [colAfter] using h rfl
  | succ k ih =>
    rw [List.replicate_succ]
    show colAfter (List.replicate k '\n') 0 = 0
    exact ih 0 (fun _ => rfl)

theorem colAfter_items (l : List Item) : colAfter (itemsText l) 0 = 0 := by
  induction l with
  | nil => rfl
  | cons x xs ih =>
    have : itemsText (x :: xs) = (x.1 ++ ['\n']) ++ (List.replicate x.2.2 '\n' ++ itemsText xs) := by
      simp [itemsText, itemText]
    rw [this, colAfter_append, colAfter_nl, colAfter_append, colAfter_nls _ _ (fun _ => rfl), ih]

/-- **a document with a malformed statement is rejected**: the malformed statement and everything after it may
    contain tabs -/
theorem document_rejectedT (k0 : Nat) (stmts : List Item) (h : ∀ x ∈ stmts, StmtText x.1 x.2.1) (s : List Char)
    (hs : BadStmtT s) (R : List Char) :
    parseDoc ssw_env ssw_grammar (String.ofList (List.replicate k0 '\n' ++ (itemsText stmts ++ (s ++ R)))) = none := by
  obtain ⟨s', hex, hbad⟩ := hs
  obtain ⟨col', hcol⟩ := hex R
  have h1 := notab_items stmts h
  have h3 := notab_replicate_nl k0
  have hexp : expandTabs (List.replicate k0 '\n' ++ (itemsText stmts ++ (s ++ R))) 0 =
      List.replicate k0 '\n' ++ (itemsText stmts ++ (s' ++ expandTabs R col')) := by
    rw [expandTabs_tok _ h3, colAfter_nls k0 0 (fun _ => rfl), expandTabs_tok _ h1, colAfter_items, hcol]
  have hnt : '\t' ∉ List.replicate k0 '\n' ++ (itemsText stmts ++ (s' ++ expandTabs R col')) := by
    simp only [List.mem_append, not_or]
    exact ⟨h3, h1, hbad.notab, notab_expandTabs R col'⟩
  rw [parseDoc_expand ssw_env ssw_grammar _ _ hexp hnt]
  exact document_rejected k0 stmts h s' hbad _ (notab_expandTabs R col')

end Dsd.PP.Ssw
