/-
End-to-end reading of declared systems (C14, "sigma" theorems), part 7: strand-notation complexes.
-/
import DsdVerif.Lemmas.ReaderSigmaCplxDoc

namespace Dsd.Sig
open Dsd Dsd.PP Dsd.RState

/-- a complex in strand notation: name, strand names, structure -/
structure CDecl where
  name : String
  strands : List String
  sst : List Char

def contentOf (ss : List SDecl) (n : String) : List String := (ss.lookup n).getD []

/-- what a strand-notation declaration means: names joined by "+", handles joined by breaks -/
def CDecl.spec (ds : List Decl) (ss : List SDecl) (c : CDecl) : CSpec :=
  { name := c.name, ns := joinWith "+" (c.strands.map (contentOf ss)), sst := c.sst,
    seq := joinWith none (c.strands.map (fun n => (idsOf ds (contentOf ss n)).map some)) }

theorem spec_name (ds : List Decl) (ss : List SDecl) (c : CDecl) : (c.spec ds ss).name = c.name := rfl

/-- hypotheses on the strand-notation complexes of a system -/
structure CSys (ds : List Decl) (ss : List SDecl) (cds : List CDecl) : Prop where
  strands : ∀ c ∈ cds, c.strands ≠ [] ∧ ∀ n ∈ c.strands, n ∈ ss.map (·.1)
  descr : ∀ c ∈ cds, Rot.Descr' (c.spec ds ss).ns c.sst
  names : (cds.map (·.name)).Nodup
  nonrot : cds.Pairwise (fun a b => ((b.spec ds ss).ns, b.sst) ∉
    Rot.orb (Rot.nStr (a.spec ds ss).ns) (a.spec ds ss).ns a.sst)

/-! ### strands of the explicit state -/

theorem ss_pos (ss : List SDecl) (hn : (ss.map (·.1)).Nodup) (j j' : Nat) (p p' : SDecl) (hj : ss[j]? = some p)
    (hj' : ss[j']? = some p') (he : p.1 = p'.1) : j = j' := by
  have h1 : (ss.map (·.1))[j]? = some p.1 := by simp [hj]
  have h2 : (ss.map (·.1))[j']? = some p'.1 := by simp [hj']
  have hlt : j < (ss.map (·.1)).length := by simpa using getElem?_lt' _ _ _ hj
  exact (List.getElem?_inj hlt hn).mp (by rw [h1, h2, he])

theorem contentOf_get (ss : List SDecl) (hn : (ss.map (·.1)).Nodup) (j : Nat) (p : SDecl) (hj : ss[j]? = some p) :
    contentOf ss p.1 = p.2 := by
  unfold contentOf
  have : ss.lookup p.1 = some p.2 := by
    apply lookup_unique
    · exact List.mem_of_getElem? hj
    · intro v' hv'
      obtain ⟨j', hj'⟩ := List.getElem?_of_mem hv'
      have := ss_pos ss hn j j' p (p.1, v') hj hj' rfl
      subst this
      have := getElem?_det ss j p (p.1, v') hj hj'
      rw [this]
  rw [this]; rfl

theorem sObjs_findName (ds : List Decl) (ss : List SDecl) (hn : (ss.map (·.1)).Nodup) (j : Nat) (p : SDecl)
    (hj : ss[j]? = some p) :
    Reg.findName ({ objs := sObjs ds ss, autoId := 1 } : Reg CKey) p.1 =
      some (newStrand (2 * ds.length + j) p.1 p.2) := by
  unfold Reg.findName
  apply RegL.find?_unique
  · rw [sObjs, mem_zipIdx_map]; exact ⟨j, p, hj, rfl⟩
  · simp [newStrand]
  · intro a ha hp
    obtain ⟨j', p', hj', rfl⟩ := sObjs_mem ds ss a ha
    have he : p'.1 = p.1 := by simpa [newStrand] using hp
    have := ss_pos ss hn j j' p p' hj hj' he.symm
    subst this
    rw [getElem?_det ss j p p' hj hj']

/-- looking a declared strand up by name returns its domain handles and changes nothing -/
theorem strandDomains_S4 (sl : Slots) (hcs : sl.strand < 4) (ds : List Decl) (ss : List SDecl)
    (hn : (ss.map (·.1)).Nodup) (cs : List CSpec) (conc : List (Nat × (String × String × String))) (n : String)
    (hmem : n ∈ ss.map (·.1)) :
    (S4 sl.dom sl.strand sl.cplx ds ss cs conc).strandDomains sl n =
      (S4 sl.dom sl.strand sl.cplx ds ss cs conc, .ok (idsOf ds (contentOf ss n))) := by
  obtain ⟨p, hp, rfl⟩ := List.mem_map.mp hmem
  obtain ⟨j, hj⟩ := List.getElem?_of_mem hp
  have hlt := getElem?_lt' _ _ _ hj
  have hmk := mkStrand_existing (S4 sl.dom sl.strand sl.cplx ds ss cs conc).w sl.strand hcs (sObjs ds ss) rfl p.1 _
    (sObjs_findName ds ss hn j p hj)
    (by
      show 2 * ds.length + j ∈ List.range (base4 ds ss + cs.length)
      exact List.mem_range.mpr (by unfold base4; omega))
  have := strandDomains_existing (S4 sl.dom sl.strand sl.cplx ds ss cs conc) sl p.1 _ _ _ hmk
    (nodes4_strand sl.dom sl.strand sl.cplx ds ss cs j p hj)
  rw [this, contentOf_get ss hn j p hj]
  rfl

theorem domObj_S4 (cd cst cc : Nat) (hcd : cd < 4) (ds : List Decl) (hsys : Sys ds) (ss : List SDecl)
    (cs : List CSpec) (n : String) (hn : ∃ (k : Nat) (d : Decl), ds[k]? = some d ∧ (n = d.name ∨ n = star d.name)) :
    ∃ o, (P4 cd cst cc ds ss cs).world.domObj (resolveId ds n) = some (cd, o) ∧ o.name = n := by
  obtain ⟨k, d, hk, hnd⟩ := hn
  have hlt := getElem?_lt' _ _ _ hk
  obtain ⟨l1, l2⟩ := dDict_lookup ds hsys k d hk
  obtain ⟨fo1, fo2⟩ := dObjs_find ds k d hk
  rcases hnd with rfl | rfl
  · have hres : resolveId ds d.name = 2 * k := by unfold resolveId; rw [l1]; rfl
    rw [hres]
    exact ⟨_, domObj_gen _ cd hcd (dObjs ds) rfl _ _ (nodes4_dom cd cst cc ds ss cs _ (by omega)) fo1, rfl⟩
  · have hres : resolveId ds (star d.name) = 2 * k + 1 := by unfold resolveId; rw [l2]; rfl
    rw [hres]
    exact ⟨_, domObj_gen _ cd hcd (dObjs ds) rfl _ _ (nodes4_dom cd cst cc ds ss cs _ (by omega)) fo2, rfl⟩

/-- **reading one strand-notation complex** -/
theorem scstep (sl : Slots) (hcd : sl.dom < 4) (hcs : sl.strand < 4) (hcc : sl.cplx < 4) (ds : List Decl)
    (hsys : Sys ds) (ss : List SDecl) (hss : SSys ds ss) (cs : List CSpec) (c : CDecl)
    (conc : List (Nat × (String × String × String))) (lines : List Tree)
    (hstr : c.strands ≠ [] ∧ ∀ n ∈ c.strands, n ∈ ss.map (·.1))
    (hd : Rot.Descr' (c.spec ds ss).ns c.sst) (hname : ∀ c' ∈ cs, c'.name ≠ c.name)
    (hdisj : ∀ c' ∈ cs, ∀ x ∈ Rot.orb (Rot.nStr (c.spec ds ss).ns) (c.spec ds ss).ns c.sst,
      x ∉ Rot.orb (Rot.nStr c'.ns) c'.ns c'.sst) :
    (S4 sl.dom sl.strand sl.cplx ds ss cs conc).readDoc sl [] [] (.grp (scplxLine c.name c.strands c.sst) :: lines)
        (D4 ds ss cs) =
      (S4 sl.dom sl.strand sl.cplx ds ss (cs ++ [c.spec ds ss]) conc).readDoc sl [] [] lines
        (D4 ds ss (cs ++ [c.spec ds ss])) := by
  apply cstep_core sl hcd hcs hcc ds ss cs (c.spec ds ss) conc conc _ lines _ hname
  have hcol := collect_same (S4 sl.dom sl.strand sl.cplx ds ss cs conc) sl (fun n => idsOf ds (contentOf ss n))
    c.strands (fun n hn => strandDomains_S4 sl hcs ds ss hss.names cs conc n (hstr.2 n hn))
  have hns : (P4 sl.dom sl.strand sl.cplx ds ss cs).world.seqNames (c.spec ds ss).seq = some (c.spec ds ss).ns := by
    have := seqNames_joinWith (P4 sl.dom sl.strand sl.cplx ds ss cs).world sl.dom (resolveId ds)
      (c.strands.map (contentOf ss))
      (by
        intro ct hct n hn
        obtain ⟨sn, hsn, rfl⟩ := List.mem_map.mp hct
        obtain ⟨p, hp, rfl⟩ := List.mem_map.mp (hstr.2 sn hsn)
        obtain ⟨j, hj⟩ := List.getElem?_of_mem hp
        rw [contentOf_get ss hss.names j p hj] at hn
        exact domObj_S4 sl.dom sl.strand sl.cplx hcd ds hsys ss cs n ((hss.content p hp) n hn).2)
    rw [List.map_map] at this
    exact this
  have hmk := mkCplx_S4 sl.dom sl.strand sl.cplx hcc ds ss cs (c.spec ds ss) hns hd hname hdisj
  have hseq : joinWith none ((c.strands.map (fun n => idsOf ds (contentOf ss n))).map (fun ds => ds.map some)) =
      (c.spec ds ss).seq := by
    rw [List.map_map]; rfl
  have := readLine_scplx (S4 sl.dom sl.strand sl.cplx ds ss cs conc) sl c.name c.strands c.sst
    (by
      intro ch hch e
      have := hd.chars ch hch
      rw [e] at this
      rcases this with h | h | h | h <;> cases h)
    _ (by
      intro e
      have := congrArg List.length e
      simp only [List.length_map, List.length_nil] at this
      exact hstr.1 (List.length_eq_zero_iff.mp this))
    hcol _ _ _ _ (by rw [hseq]; exact hmk)
  rw [this]
  rfl

/-! ### whole documents -/

def cdoc (cds : List CDecl) : List Tree := cds.map (fun c => Tree.grp (scplxLine c.name c.strands c.sst))

theorem readDoc_strands_tail (sl : Slots) (hcd : sl.dom < 4) (hcs : sl.strand < 4) (ds : List Decl) (hsys : Sys ds)
    (tail : List Tree) :
    ∀ (rest pre : List SDecl), SSys ds (pre ++ rest) →
      (S3 sl.dom sl.strand ds pre).readDoc sl [] [] (sdoc rest ++ tail) (D3 ds pre) =
        (S3 sl.dom sl.strand ds (pre ++ rest)).readDoc sl [] [] tail (D3 ds (pre ++ rest)) := by
  intro rest
  induction rest with
  | nil => intro pre _; simp [sdoc]
  | cons p rest ih =>
    intro pre hs
    have hassoc : pre ++ p :: rest = (pre ++ [p]) ++ rest := by simp
    have hn1 := hs.names
    have hn2 := hs.contents
    rw [List.map_append, List.map_cons] at hn1 hn2
    have hf1 : ∀ q ∈ pre, q.1 ≠ p.1 := by
      intro q hq e
      exact (List.nodup_append.mp hn1).2.2 q.1 (List.mem_map_of_mem hq) p.1 (by simp) e
    have hf2 : ∀ q ∈ pre, q.2 ≠ p.2 := by
      intro q hq e
      exact (List.nodup_append.mp hn2).2.2 q.2 (List.mem_map_of_mem hq) p.2 (by simp) e
    have hstep := sstep sl hcd hcs ds hsys pre p (sdoc rest ++ tail) (hs.content p (by simp)) hf1 hf2
    have : sdoc (p :: rest) ++ tail = .grp (compLine p.1 p.2) :: (sdoc rest ++ tail) := rfl
    rw [this, hstep, hassoc]
    exact ih (pre ++ [p]) (by rw [← hassoc]; exact hs)

theorem readDoc_cplxs_tail (sl : Slots) (hcd : sl.dom < 4) (hcs : sl.strand < 4) (hcc : sl.cplx < 4) (ds : List Decl)
    (hsys : Sys ds) (ss : List SDecl) (hss : SSys ds ss) (conc : List (Nat × (String × String × String)))
    (tail : List Tree) :
    ∀ (rest pre : List CDecl), CSys ds ss (pre ++ rest) →
      (S4 sl.dom sl.strand sl.cplx ds ss (pre.map (CDecl.spec ds ss)) conc).readDoc sl [] [] (cdoc rest ++ tail)
          (D4 ds ss (pre.map (CDecl.spec ds ss))) =
        (S4 sl.dom sl.strand sl.cplx ds ss ((pre ++ rest).map (CDecl.spec ds ss)) conc).readDoc sl [] [] tail
          (D4 ds ss ((pre ++ rest).map (CDecl.spec ds ss))) := by
  intro rest
  induction rest with
  | nil => intro pre _; simp [cdoc]
  | cons c rest ih =>
    intro pre hs
    have hassoc : pre ++ c :: rest = (pre ++ [c]) ++ rest := by simp
    have hn1 := hs.names
    rw [List.map_append, List.map_cons] at hn1
    have hname : ∀ c' ∈ pre.map (CDecl.spec ds ss), c'.name ≠ (c.spec ds ss).name := by
      intro c' hc' e
      obtain ⟨x, hx, rfl⟩ := List.mem_map.mp hc'
      exact (List.nodup_append.mp hn1).2.2 x.name (List.mem_map_of_mem hx) c.name (by simp) e
    have hdc := hs.descr c (by simp)
    have hdisj : ∀ c' ∈ pre.map (CDecl.spec ds ss), ∀ x ∈ Rot.orb (Rot.nStr (c.spec ds ss).ns) (c.spec ds ss).ns c.sst,
        x ∉ Rot.orb (Rot.nStr c'.ns) c'.ns c'.sst := by
      intro c' hc' x hx hx'
      obtain ⟨a, ha, rfl⟩ := List.mem_map.mp hc'
      have hda := hs.descr a (by simp [ha])
      have hR := (List.pairwise_append.mp hs.nonrot).2.2 a ha c (by simp)
      exact hR (orb_meet ((a.spec ds ss).ns, a.sst) ((c.spec ds ss).ns, c.sst) hda hdc x hx' hx)
    have hstep := scstep sl hcd hcs hcc ds hsys ss hss (pre.map (CDecl.spec ds ss)) c conc (cdoc rest ++ tail)
      (hs.strands c (by simp)) hdc hname hdisj
    have : cdoc (c :: rest) ++ tail = .grp (scplxLine c.name c.strands c.sst) :: (cdoc rest ++ tail) := rfl
    rw [this, hstep]
    have e : pre.map (CDecl.spec ds ss) ++ [c.spec ds ss] = (pre ++ [c]).map (CDecl.spec ds ss) := by simp
    rw [e, hassoc]
    exact ih (pre ++ [c]) (by rw [← hassoc]; exact hs)

/-- **reading domains, strands and strand-notation complexes into the fresh state** -/
theorem readDoc_fresh4 (sl : Slots) (hcd : sl.dom < 4) (hcs : sl.strand < 4) (hcc : sl.cplx < 4) (ds : List Decl)
    (hsys : Sys ds) (ss : List SDecl) (hss : SSys ds ss) (cds : List CDecl) (hcs' : CSys ds ss cds) :
    ({} : RState).readDoc sl [] [] (doc ds ++ (sdoc ss ++ cdoc cds)) {} =
      (S4 sl.dom sl.strand sl.cplx ds ss (cds.map (CDecl.spec ds ss)) [],
        .ok (D4 ds ss (cds.map (CDecl.spec ds ss)))) := by
  have h1 := readDoc_decls_tail sl hcd sl.strand hcs (sdoc ss ++ cdoc cds) ds [] (by simpa using hsys)
  have hS : S sl.dom sl.strand [] = {} := by
    unfold S
    have : P sl.dom sl.strand [] = { cd := sl.dom, cs := sl.strand } := rfl
    rw [this, world_empty sl.dom sl.strand hcd hcs]
    rfl
  have hD : D [] = {} := rfl
  rw [hS, hD] at h1
  simp only [List.nil_append] at h1
  rw [h1, ← S3_nil, ← D3_nil]
  have h2 := readDoc_strands_tail sl hcd hcs ds hsys (cdoc cds) ss [] (by simpa using hss)
  simp only [List.nil_append] at h2
  rw [h2, ← S4_nil sl.dom sl.strand sl.cplx hcc, ← D4_nil]
  have h3 := readDoc_cplxs_tail sl hcd hcs hcc ds hsys ss hss [] [] cds [] (by simpa using hcs')
  simp only [List.nil_append, List.map_nil, List.append_nil] at h3
  rw [h3]
  simp [readDoc]

end Dsd.Sig
