/-
`ComplexS.__init__` as translated from the source (Gen/PyComplexS3.lean): its net effect on the new object and on the class.
-/
import DsdVerif.Lemmas.PyObjBasic
import DsdVerif.Gen.PyComplexS3

set_option linter.unusedSimpArgs false
set_option linter.unusedVariables false

namespace Dsd.PyObj3
open Dsd Gen PyObj PyObj.Basic

abbrev CKey3 := List String × List Char

/-- the automatic name both `identifiers` and `__init__` compute: `prefix` (or `cls.PREFIX`) followed by `cls.ID` -/
def autoName (pfx : String) (id : Nat) (pre : Option String) : String := (pre.getD pfx) ++ Py.strNat id

/-- what `__init__` registers: `cls._instanceCanon[k] = self` for each key, in order -/
def register (d : List (CKey3 × Nat)) (keys : List CKey3) (self_ : Nat) : List (CKey3 × Nat) :=
  keys.foldl (fun d k => Py.dictSet d k self_) d

/-- the state after `__init__` -/
def initPost (st : ComplexS3.St) (self_ : Nat) (seq : List String) (sst : List Char) (name pre : Option String) (c : CKey3) (t : Int)
    (keys : List CKey3) : ComplexS3.St :=
  { cls_PREFIX := st.cls_PREFIX
    cls_ID := if name.isNone then st.cls_ID + 1 else st.cls_ID
    cls_instanceCanon := register st.cls_instanceCanon keys self_
    _sequence := seq, _structure := sst, _name := name.getD (autoName st.cls_PREFIX st.cls_ID pre), _canon := some c, _turns := t
    _strand_table := none, _pair_table := none, _loop_index := none, _domains := none, _exterior_domains := none
    _enclosed_domains := none, _exterior_loops := none, _concentration := none }

theorem exec_init_loop (self_ : Nat) (seq : List String) (sst : List Char) (name pre : Option String) (canon : Option CKey3)
    (turns : Option Int) (rcplxs keys : List CKey3) (v : ComplexS_init_full.Vars) (st : ComplexS3.St) :
    (List.foldlM (ComplexS_init_full.loop1 self_ seq sst name pre canon turns rcplxs) v keys).exec st =
      (.ok v, { st with cls_instanceCanon := register st.cls_instanceCanon keys self_ }) := by
  induction keys generalizing st with
  | nil => rfl
  | cons k ks ih =>
    rw [List.foldlM_cons, exec_bind]
    have : (ComplexS_init_full.loop1 self_ seq sst name pre canon turns rcplxs v k).exec st =
        (.ok v, { st with cls_instanceCanon := Py.dictSet st.cls_instanceCanon k self_ }) := rfl
    rw [this]
    simp only [ih, register, List.foldl_cons]

/-- **`__init__` as written, net effect**: with a canonical form and `turns` (what `identifiers` always hands over) it never raises, stores
    the given name or the automatic one, counts `cls.ID` up exactly when no name was given, assigns every attribute, and registers the
    object under exactly the keys `rcplxs`, in order -/
theorem py_init_full_eq (st : ComplexS3.St) (self_ : Nat) (seq : List String) (sst : List Char) (name pre : Option String) (c : CKey3)
    (t : Int) (keys : List CKey3) :
    (py_ComplexS_init_full self_ seq sst name pre (some c) (some t) keys).exec st =
      (.ok (), initPost st self_ seq sst name pre c t keys) := by
  unfold py_ComplexS_init_full
  cases name with
  | some n =>
    simp only [Option.isSome, Option.isNone, Bool.not_true, Bool.false_eq_true, if_false, exec_bind, exec_get, exec_modify, exec_pure,
      exec_lift, exec_monadLift, unwrap_some, exec_init_loop, exec_ite]
    rfl
  | none =>
    cases pre <;>
    · simp only [Option.isSome, Option.isNone, Bool.not_true, Bool.false_eq_true, if_false, if_true, exec_bind, exec_get, exec_modify,
        exec_pure, exec_lift, exec_monadLift, unwrap_some, exec_init_loop, exec_ite]
      rfl

/-- without a canonical form, or without `turns`, the assertions refuse and nothing is changed -/
theorem py_init_full_asserts (st : ComplexS3.St) (self_ : Nat) (seq : List String) (sst : List Char) (name pre : Option String)
    (canon : Option CKey3) (turns : Option Int) (keys : List CKey3) (h : canon = none ∨ turns = none) :
    (py_ComplexS_init_full self_ seq sst name pre canon turns keys).exec st = (.error .assertion, st) := by
  unfold py_ComplexS_init_full
  rcases h with h | h <;> subst h
  · rfl
  · cases canon <;> rfl

end Dsd.PyObj3
