/-
The simple views of the translated `ComplexS` object (Gen/PyComplexS.lean) on a coherent object.
-/
import DsdVerif.Lemmas.PyObjDefs
import DsdVerif.Lemmas.LegacyViews

set_option linter.unusedSimpArgs false

namespace Dsd.PyObj.Basic
open Dsd Gen

/-! ### running the monad -/

section exec
variable {σ α β : Type}

theorem exec_pure (a : α) (s : σ) : (pure a : Py.MS σ α).exec s = (.ok a, s) := rfl

theorem exec_bind (m : Py.MS σ α) (f : α → Py.MS σ β) (s : σ) :
    (m >>= f).exec s = match m.exec s with
      | (.ok a, s') => (f a).exec s'
      | (.error e, s') => (.error e, s') := by
  simp only [Py.MS.exec, ExceptT.run, bind, ExceptT.bind, ExceptT.mk, StateT.bind, StateT.run]
  cases h : m s with
  | mk r s' => cases r <;> rfl

theorem exec_get (s : σ) : (get : Py.MS σ σ).exec s = (.ok s, s) := rfl

theorem exec_modify (f : σ → σ) (s : σ) : (modify f : Py.MS σ Unit).exec s = (.ok (), f s) := rfl

theorem exec_throw (e : Err) (s : σ) : (throw e : Py.MS σ α).exec s = (.error e, s) := rfl

theorem exec_lift (x : Except Err α) (s : σ) : (liftM x : Py.MS σ α).exec s = (x, s) := by
  cases x <;> rfl

theorem exec_monadLift (x : Except Err α) (s : σ) : (monadLift x : Py.MS σ α).exec s = (x, s) := by
  cases x <;> rfl

end exec


theorem exec_ite {σ α : Type} (c : Prop) [Decidable c] (a b : Py.MS σ α) (s : σ) :
    (if c then a else b).exec s = if c then a.exec s else b.exec s := by split <;> rfl

theorem truthy_iff {α} (o : Option (List α)) : Py.truthyOL o = true ↔ ∃ l, o = some l ∧ l ≠ [] := by
  cases o with
  | none => simp [Py.truthyOL]
  | some l => cases l <;> simp [Py.truthyOL]

theorem not_truthy_iff {α} (o : Option (List α)) : (!Py.truthyOL o) = true ↔ ∀ l, o = some l → l = [] := by
  cases o with
  | none => simp [Py.truthyOL]
  | some l => cases l <;> simp [Py.truthyOL]

/-- `self.__strand_table` on a coherent object: the table of the current sequence, cached -/
theorem exec_p_strand_table (s : ComplexS.Self) (h : PCoh s) :
    ∃ s', (Gen.py_ComplexS_p_strand_table).exec s = (.ok (some (makeStrandTableList "+" s._sequence)), s') ∧ PCoh s' ∧ SameRepS s s' ∧
      s'._strand_table = some (makeStrandTableList "+" s._sequence) ∧ s'._pair_table = s._pair_table ∧ s'._loop_index = s._loop_index ∧
      s'._exterior_loops = s._exterior_loops ∧ s'._exterior_domains = s._exterior_domains ∧ s'._enclosed_domains = s._enclosed_domains := by
  unfold py_ComplexS_p_strand_table
  simp only [exec_ite, exec_bind, exec_get, exec_pure, exec_lift, exec_modify, PyFuncs.py_make_strand_table_list_default]
  split
  · refine ⟨_, rfl, ⟨h.len, h.nn, ?_, h.pt, h.li, h.ex, h.en⟩, SameRepS.refl _, rfl, rfl, rfl, rfl, rfl, rfl⟩
    intro t ht _
    simp only [Option.some.injEq] at ht
    exact ht.symm
  · rename_i hc
    have hc' : Py.truthyOL s._strand_table = true := by simpa using hc
    obtain ⟨t, ht, hne⟩ := (truthy_iff _).1 hc'
    have := h.st t ht hne
    subst this
    exact ⟨s, by rw [ht], h, SameRepS.refl _, ht, rfl, rfl, rfl, rfl, rfl⟩


/-! ### shape facts -/

theorem mpt_ne_nil (ss : List Char) (pt : PairTable) (h : makePairTable ss = .ok pt) : pt ≠ [] := by
  intro h0
  have hs := C06.mpt_shape ss '+' pt h
  subst h0
  have : splitOn '+' ss = [] := by simpa using hs.symm
  exact Rot.splitOn_ne_nil _ _ this

theorem reshape_length {α} (lens : List Nat) (xs : List α) : (reshape lens xs).length = lens.length := by
  induction lens generalizing xs with
  | nil => rfl
  | cons l ls ih => simp [reshape, ih]

theorem liOf_length (pt : PairTable) (l : List (List Nat)) (e : List Nat) (h : CplxObj.liOf pt = .ok (l, e)) :
    l.length = pt.length := by
  unfold CplxObj.liOf at h
  cases hm : makeLoopIndex pt false with
  | error e => rw [hm] at h; cases h
  | ok lo =>
    rw [hm] at h
    simp only [Except.ok.injEq, Prod.mk.injEq] at h
    unfold makeLoopIndex at hm
    simp only at hm
    split at hm
    · cases hm
    · injection hm with hm
      rw [← h.1, ← hm]
      simp [reshape_length]

theorem liOf_ne_nil (pt : PairTable) (l : List (List Nat)) (e : List Nat) (h : CplxObj.liOf pt = .ok (l, e)) (hpt : pt ≠ []) :
    l ≠ [] := by
  intro h0
  have := liOf_length pt l e h
  subst h0
  exact hpt (List.length_eq_zero_iff.mp this.symm)

/-! ### the pair table -/

theorem pcoh_setPT (s : ComplexS.Self) (h : PCoh s) (t : PairTable) (ht : makePairTable s._structure = .ok t) :
    PCoh { s with _pair_table := some t } := by
  refine ⟨h.len, h.nn, h.st, ?_, ?_, h.ex, h.en⟩
  · intro t' ht' _
    simp only [Option.some.injEq] at ht'
    subst ht'; exact ht
  · intro l hl hne
    obtain ⟨pt, e, h1, h2, h3, h4, h5⟩ := h.li l hl hne
    have : pt = t := by rw [ht] at h3; injection h3 with h3; exact h3.symm
    subst this
    exact ⟨pt, e, rfl, h2, h3, h4, h5⟩

/-- `self.__pair_table` on a coherent object: either the table, cached, or the error with the object unchanged -/
theorem exec_p_pair_table (s : ComplexS.Self) (h : PCoh s) :
    (∃ t s', makePairTable s._structure = .ok t ∧ (Gen.py_ComplexS_p_pair_table).exec s = (.ok (some t), s') ∧ PCoh s' ∧ SameRepS s s' ∧
        s'._pair_table = some t ∧ s'._strand_table = s._strand_table ∧ s'._loop_index = s._loop_index ∧
        s'._exterior_loops = s._exterior_loops ∧ s'._exterior_domains = s._exterior_domains ∧ s'._enclosed_domains = s._enclosed_domains)
    ∨ (∃ e, makePairTable s._structure = .error e ∧ (Gen.py_ComplexS_p_pair_table).exec s = (.error e, s)) := by
  unfold py_ComplexS_p_pair_table
  simp only [exec_ite, exec_bind, exec_get, exec_pure, exec_lift, exec_modify, PyFuncs.py_make_pair_table_eq]
  split
  · cases hm : makePairTable s._structure with
    | error e => exact Or.inr ⟨e, rfl, rfl⟩
    | ok t =>
      exact Or.inl ⟨t, _, rfl, rfl, pcoh_setPT s h t hm, SameRepS.refl _, rfl, rfl, rfl, rfl, rfl, rfl⟩
  · rename_i hc
    have hc' : Py.truthyOL s._pair_table = true := by simpa using hc
    obtain ⟨t, ht, hne⟩ := (truthy_iff _).1 hc'
    have hm := h.pt t ht hne
    exact Or.inl ⟨t, s, hm, by rw [ht], h, SameRepS.refl _, ht, rfl, rfl, rfl, rfl, rfl⟩

theorem foldlM_pair_table_loop1 (l : List (List (Option (Nat × Nat)))) (v : ComplexS_pair_table.Vars) (s : ComplexS.Self) :
    (List.foldlM ComplexS_pair_table.loop1 v l).exec s = (.ok { yielded := v.yielded ++ l }, s) := by
  induction l generalizing v with
  | nil => simp [List.foldlM, exec_pure]
  | cons x xs ih =>
    simp only [List.foldlM, exec_bind, ComplexS_pair_table.loop1, exec_pure, ih]
    simp

/-- the public generator `pair_table` -/
theorem exec_pair_table (s : ComplexS.Self) (h : PCoh s) :
    (∃ t s', makePairTable s._structure = .ok t ∧ (Gen.py_ComplexS_pair_table).exec s = (.ok t, s') ∧ PCoh s' ∧ SameRepS s s' ∧
        s'._pair_table = some t ∧ s'._strand_table = s._strand_table ∧ s'._loop_index = s._loop_index ∧
        s'._exterior_loops = s._exterior_loops ∧ s'._exterior_domains = s._exterior_domains ∧ s'._enclosed_domains = s._enclosed_domains)
    ∨ (∃ e, makePairTable s._structure = .error e ∧ (Gen.py_ComplexS_pair_table).exec s = (.error e, s)) := by
  unfold py_ComplexS_pair_table
  simp only [exec_ite, exec_bind, exec_get, exec_pure, exec_lift, exec_modify, PyFuncs.py_make_pair_table_eq]
  split
  · cases hm : makePairTable s._structure with
    | error e => exact Or.inr ⟨e, rfl, rfl⟩
    | ok t =>
      refine Or.inl ⟨t, _, rfl, ?_, pcoh_setPT s h t hm, SameRepS.refl _, rfl, rfl, rfl, rfl, rfl, rfl⟩
      simp [Py.unwrap, foldlM_pair_table_loop1]
      rfl
  · rename_i hc
    have hc' : Py.truthyOL s._pair_table = true := by simpa using hc
    obtain ⟨t, ht, hne⟩ := (truthy_iff _).1 hc'
    have hm := h.pt t ht hne
    refine Or.inl ⟨t, s, hm, ?_, h, SameRepS.refl _, ht, rfl, rfl, rfl, rfl, rfl⟩
    simp [ht, Py.unwrap, foldlM_pair_table_loop1]
    rfl


/-! ### the loop index -/

theorem liOf_of_ok (pt : PairTable) (lo : LoopOut) (h : makeLoopIndex pt false = .ok lo) :
    CplxObj.liOf pt = .ok (lo.loopIndex, lo.exterior) := by
  simp only [CplxObj.liOf, h]

theorem liOf_of_error (pt : PairTable) (e : Err) (h : makeLoopIndex pt false = .error e) :
    CplxObj.liOf pt = .error e := by
  simp only [CplxObj.liOf, h]

/-- `self.__loop_index` on a coherent object: on success `_pair_table`, `_loop_index`, `_exterior_loops` are all set coherently -/
theorem exec_p_loop_index (s : ComplexS.Self) (h : PCoh s) :
    (∃ pt l e s', makePairTable s._structure = .ok pt ∧ CplxObj.liOf pt = .ok (l, e) ∧
        (Gen.py_ComplexS_p_loop_index).exec s = (.ok (some l), s') ∧ PCoh s' ∧ SameRepS s s' ∧
        s'._pair_table = some pt ∧ s'._loop_index = some l ∧ s'._exterior_loops = some e ∧ s'._strand_table = s._strand_table ∧
        s'._exterior_domains = s._exterior_domains ∧ s'._enclosed_domains = s._enclosed_domains)
    ∨ (∃ e s', CplxObj.liSpec s._structure = .error e ∧ (Gen.py_ComplexS_p_loop_index).exec s = (.error e, s') ∧ PCoh s' ∧ SameRepS s s') := by
  unfold py_ComplexS_p_loop_index
  simp only [exec_ite, exec_bind, exec_get, exec_pure, exec_lift, exec_modify]
  split
  · rcases exec_pair_table s h with ⟨t, s1, hm, hex, hc1, hr1, g1, g2, g3, g4, g5, g6⟩ | ⟨e, hm, hex⟩
    · rw [hex]
      simp only
      rw [PyFuncs.py_make_loop_index_eq s._structure '+' t hm false]
      cases hml : makeLoopIndex t false with
      | error e =>
        refine Or.inr ⟨e, s1, ?_, rfl, hc1, hr1⟩
        simp only [CplxObj.liSpec, hm, liOf_of_error t e hml]
      | ok lo =>
        refine Or.inl ⟨t, lo.loopIndex, lo.exterior, _, hm, liOf_of_ok t lo hml, rfl, ?_, hr1, g1, rfl, rfl, g2, g5, g6⟩
        refine ⟨hc1.len, hc1.nn, hc1.st, hc1.pt, ?_, hc1.ex, hc1.en⟩
        intro l hl _
        simp only [Option.some.injEq] at hl
        subst hl
        refine ⟨t, lo.exterior, g1, mpt_ne_nil _ t hm, ?_, rfl, liOf_of_ok t lo hml⟩
        rw [hr1.2.1]; exact hm
    · rw [hex]
      refine Or.inr ⟨e, s, ?_, rfl, h, SameRepS.refl _⟩
      simp only [CplxObj.liSpec, hm]
  · rename_i hc
    have hc' : Py.truthyOL s._loop_index = true := by simpa using hc
    obtain ⟨l, hl, hne⟩ := (truthy_iff _).1 hc'
    obtain ⟨pt, e, h1, h2, h3, h4, h5⟩ := h.li l hl hne
    exact Or.inl ⟨pt, l, e, s, h3, h5, by rw [hl], h, SameRepS.refl _, h1, hl, h4, rfl, rfl, rfl⟩


/-! ### the views -/

theorem view_sequence (s : ComplexS.Self) (canon : CKey) (h : PCoh s) :
    ViewOk s .sequence (C03.qSpec (toObj s canon) .sequence) := by
  simp only [ViewOk, pyQuery, pyAnswer, py_ComplexS_sequence, exec_bind, exec_get, exec_pure]
  exact ⟨h, SameRepS.refl _, rfl⟩

theorem view_structure (s : ComplexS.Self) (canon : CKey) (h : PCoh s) :
    ViewOk s .structure (C03.qSpec (toObj s canon) .structure) := by
  simp only [ViewOk, pyQuery, pyAnswer, py_ComplexS_structure, exec_bind, exec_get, exec_pure]
  exact ⟨h, SameRepS.refl _, rfl⟩

theorem view_turns (s : ComplexS.Self) (canon : CKey) (h : PCoh s) :
    ViewOk s .turns (C03.qSpec (toObj s canon) .turns) := by
  simp only [ViewOk, pyQuery, pyAnswer, py_ComplexS_turns, exec_bind, exec_get, exec_pure]
  exact ⟨h, SameRepS.refl _, rfl⟩

theorem view_name (s : ComplexS.Self) (canon : CKey) (h : PCoh s) :
    ViewOk s .name (C03.qSpec (toObj s canon) .name) := by
  simp only [ViewOk, pyQuery, pyAnswer, py_ComplexS_name, exec_bind, exec_get, exec_pure]
  exact ⟨h, SameRepS.refl _, rfl⟩

theorem view_size (s : ComplexS.Self) (canon : CKey) (h : PCoh s) :
    ViewOk s .size (C03.qSpec (toObj s canon) .size) := by
  obtain ⟨s', hex, hc, hr, _⟩ := exec_p_strand_table s h
  simp only [ViewOk, pyQuery, pyAnswer, py_ComplexS_size, exec_bind, exec_get, exec_pure, exec_lift, hex, Py.unwrap]
  exact ⟨hc, hr, rfl⟩


theorem unwrap_some {α} (x : α) : Py.unwrap (some x) = .ok x := rfl

theorem idx_eq {α} (l : List α) (i : Nat) :
    Py.idx l i = match l[i]? with | some x => .ok x | none => .error (.fault "IndexError") := by
  unfold Py.idx; cases l[i]? <;> rfl

theorem foldlM_strand_table_loop1 (l : List (List String)) (v : ComplexS_strand_table.Vars) (s : ComplexS.Self) :
    (List.foldlM ComplexS_strand_table.loop1 v l).exec s = (.ok { yielded := v.yielded ++ l }, s) := by
  induction l generalizing v with
  | nil => simp [List.foldlM, exec_pure]
  | cons x xs ih =>
    simp only [List.foldlM, exec_bind, ComplexS_strand_table.loop1, exec_pure, ih]
    simp

/-- the public generator `strand_table` -/
theorem exec_strand_table (s : ComplexS.Self) (h : PCoh s) :
    ∃ s', (Gen.py_ComplexS_strand_table).exec s = (.ok (makeStrandTableList "+" s._sequence), s') ∧ PCoh s' ∧ SameRepS s s' ∧
      s'._strand_table = some (makeStrandTableList "+" s._sequence) ∧ s'._pair_table = s._pair_table ∧ s'._loop_index = s._loop_index ∧
      s'._exterior_loops = s._exterior_loops ∧ s'._exterior_domains = s._exterior_domains ∧ s'._enclosed_domains = s._enclosed_domains := by
  unfold py_ComplexS_strand_table
  simp only [exec_ite, exec_bind, exec_get, exec_pure, exec_lift, exec_modify, PyFuncs.py_make_strand_table_list_default]
  split
  · refine ⟨{ s with _strand_table := some (makeStrandTableList "+" s._sequence) }, ?_,
      ⟨h.len, h.nn, ?_, h.pt, h.li, h.ex, h.en⟩, SameRepS.refl _, rfl, rfl, rfl, rfl, rfl, rfl⟩
    · simp [Py.unwrap, foldlM_strand_table_loop1]
      rfl
    · intro t ht _
      simp only [Option.some.injEq] at ht
      exact ht.symm
  · rename_i hc
    have hc' : Py.truthyOL s._strand_table = true := by simpa using hc
    obtain ⟨t, ht, hne⟩ := (truthy_iff _).1 hc'
    have := h.st t ht hne
    subst this
    refine ⟨s, ?_, h, SameRepS.refl _, ht, rfl, rfl, rfl, rfl, rfl⟩
    simp [ht, Py.unwrap, foldlM_strand_table_loop1]
    rfl

theorem view_strandTable (s : ComplexS.Self) (canon : CKey) (h : PCoh s) :
    ViewOk s .strandTable (C03.qSpec (toObj s canon) .strandTable) := by
  obtain ⟨s', hex, hc, hr, _⟩ := exec_strand_table s h
  simp only [ViewOk, pyQuery, pyAnswer, exec_bind, exec_pure, hex]
  exact ⟨hc, hr, rfl⟩

theorem view_pairTable (s : ComplexS.Self) (canon : CKey) (h : PCoh s) :
    ViewOk s .pairTable (C03.qSpec (toObj s canon) .pairTable) := by
  rcases exec_pair_table s h with ⟨t, s1, hm, hex, hc1, hr1, _⟩ | ⟨e, hm, hex⟩
  · simp only [ViewOk, pyQuery, pyAnswer, exec_bind, exec_pure, hex, C03.qSpec, toObj, hm]
    exact ⟨hc1, hr1, trivial⟩
  · simp only [ViewOk, pyQuery, pyAnswer, exec_bind, exec_pure, hex, C03.qSpec, toObj, hm]
    exact ⟨h, SameRepS.refl _, trivial⟩

theorem view_strandLength (s : ComplexS.Self) (canon : CKey) (k : Nat) (h : PCoh s) :
    ViewOk s (.strandLength k) (C03.qSpec (toObj s canon) (.strandLength k)) := by
  obtain ⟨s', hex, hc, hr, _⟩ := exec_p_strand_table s h
  simp only [ViewOk, pyQuery, pyAnswer, py_ComplexS_strand_length, exec_bind, exec_pure, exec_lift, hex, unwrap_some,
    C03.qSpec, toObj, idx_eq]
  cases (makeStrandTableList "+" s._sequence)[k]? with
  | none => exact ⟨hc, hr, rfl⟩
  | some x => exact ⟨hc, hr, rfl⟩

theorem view_getDomain (s : ComplexS.Self) (canon : CKey) (l : Locus) (h : PCoh s) :
    ViewOk s (.getDomain l) (C03.qSpec (toObj s canon) (.getDomain l)) := by
  obtain ⟨s', hex, hc, hr, _⟩ := exec_p_strand_table s h
  simp only [ViewOk, pyQuery, pyAnswer, py_ComplexS_get_domain, exec_bind, exec_pure, exec_lift, hex, unwrap_some,
    C03.qSpec, toObj, idx_eq]
  cases (makeStrandTableList "+" s._sequence)[l.1]? with
  | none => exact ⟨hc, hr, rfl⟩
  | some x =>
    simp only [Option.bind_some]
    cases x[l.2]? with
    | none => exact ⟨hc, hr, rfl⟩
    | some y => exact ⟨hc, hr, rfl⟩


theorem view_getPairedLoc (s : ComplexS.Self) (canon : CKey) (l : Locus) (h : PCoh s) :
    ViewOk s (.getPairedLoc l) (C03.qSpec (toObj s canon) (.getPairedLoc l)) := by
  have hlt : ((decide (l.1 < 0)) || (decide (l.2 < 0))) = false := by simp
  rcases exec_p_pair_table s h with ⟨t, s1, hm, hex, hc1, hr1, _⟩ | ⟨e, hm, hex⟩
  · simp only [ViewOk, pyQuery, pyAnswer, py_ComplexS_get_paired_loc, hlt, exec_bind, exec_pure, exec_lift, exec_ite, hex,
      unwrap_some, C03.qSpec, toObj, hm, idx_eq, Bool.false_eq_true, if_false]
    cases t[l.1]? with
    | none => exact ⟨hc1, hr1, rfl⟩
    | some x =>
      simp only [Option.bind_some]
      cases x[l.2]? with
      | none => exact ⟨hc1, hr1, rfl⟩
      | some y => exact ⟨hc1, hr1, rfl⟩
  · simp only [ViewOk, pyQuery, pyAnswer, py_ComplexS_get_paired_loc, hlt, exec_bind, exec_pure, exec_lift, exec_ite, hex,
      unwrap_some, C03.qSpec, toObj, hm, idx_eq, Bool.false_eq_true, if_false]
    exact ⟨h, SameRepS.refl _, trivial⟩

theorem view_getLoopIndex (s : ComplexS.Self) (canon : CKey) (l : Locus) (h : PCoh s) :
    ViewOk s (.getLoopIndex l) (C03.qSpec (toObj s canon) (.getLoopIndex l)) := by
  rcases exec_p_loop_index s h with ⟨pt, li, e, s1, hm, hli, hex, hc1, hr1, _⟩ | ⟨e, s1, hm, hex, hc1, hr1⟩
  · have hsp : CplxObj.liSpec s._structure = .ok (li, e) := by simp only [CplxObj.liSpec, hm, hli]
    simp only [ViewOk, pyQuery, pyAnswer, py_ComplexS_get_loop_index, exec_bind, exec_pure, exec_lift, hex,
      unwrap_some, C03.qSpec, toObj, hsp, idx_eq]
    cases li[l.1]? with
    | none => exact ⟨hc1, hr1, rfl⟩
    | some x =>
      simp only [Option.bind_some]
      cases x[l.2]? with
      | none => exact ⟨hc1, hr1, rfl⟩
      | some y => exact ⟨hc1, hr1, rfl⟩
  · simp only [ViewOk, pyQuery, pyAnswer, py_ComplexS_get_loop_index, exec_bind, exec_pure, exec_lift, hex,
      unwrap_some, C03.qSpec, toObj, hm, idx_eq]
    exact ⟨hc1, hr1, trivial⟩

theorem exec_tryCatch {σ α : Type} (m : Py.MS σ α) (hd : Err → Py.MS σ α) (s : σ) :
    (tryCatch m hd).exec s = match m.exec s with
      | (.ok a, s') => (.ok a, s')
      | (.error e, s') => (hd e).exec s' := by
  simp only [Py.MS.exec, ExceptT.run, tryCatch, tryCatchThe, MonadExceptOf.tryCatch, ExceptT.tryCatch, ExceptT.mk, bind, StateT.bind, StateT.run]
  cases h : m s with
  | mk r s' => cases r <;> rfl

theorem exec_isc (s : ComplexS.Self) : py_ComplexS_is_connected.exec s =
    if (!Py.truthyOL s._loop_index) = true then
      match py_ComplexS_p_loop_index.exec s with
      | (.ok _, s') => (.ok true, s')
      | (.error .secondaryStructure, s') => (.ok false, s')
      | (.error e, s') => (.error e, s')
    else (.ok true, s) := by
  unfold py_ComplexS_is_connected
  simp only [exec_bind, exec_get, exec_ite, exec_tryCatch, exec_pure]
  split
  · cases h : py_ComplexS_p_loop_index.exec s with
    | mk r s' =>
      cases r with
      | ok a => 
        rfl
      | error e =>
        cases e <;> rfl
  · rfl

theorem view_isConnected (s : ComplexS.Self) (canon : CKey) (h : PCoh s) :
    ViewOk s .isConnected (C03.qSpec (toObj s canon) .isConnected) := by
  simp only [ViewOk, pyQuery, pyAnswer, exec_bind, exec_pure, exec_isc]
  by_cases hc : (!Py.truthyOL s._loop_index) = true
  · rw [if_pos hc]
    rcases exec_p_loop_index s h with ⟨pt, li, e, s1, hm, hli, hex, hc1, hr1, _⟩ | ⟨e, s1, hm, hex, hc1, hr1⟩
    · have hsp : CplxObj.liSpec s._structure = .ok (li, e) := by simp only [CplxObj.liSpec, hm, hli]
      simp only [hex, C03.qSpec, toObj, hsp]
      exact ⟨hc1, hr1, trivial⟩
    · simp only [hex, C03.qSpec, toObj, hm]
      cases e <;> exact ⟨hc1, hr1, rfl⟩
  · rw [if_neg hc]
    have hc' : Py.truthyOL s._loop_index = true := by simpa using hc
    obtain ⟨l, hl, hne⟩ := (truthy_iff _).1 hc'
    obtain ⟨pt, e, h1, h2, h3, h4, h5⟩ := h.li l hl hne
    have hsp : CplxObj.liSpec s._structure = .ok (l, e) := by simp only [CplxObj.liSpec, h3, h5]
    simp only [C03.qSpec, toObj, hsp]
    exact ⟨h, SameRepS.refl _, trivial⟩

end Dsd.PyObj.Basic

#print axioms Dsd.PyObj.Basic.exec_p_strand_table
#print axioms Dsd.PyObj.Basic.exec_p_pair_table
#print axioms Dsd.PyObj.Basic.exec_p_loop_index
#print axioms Dsd.PyObj.Basic.view_sequence
#print axioms Dsd.PyObj.Basic.view_structure
#print axioms Dsd.PyObj.Basic.view_turns
#print axioms Dsd.PyObj.Basic.view_name
#print axioms Dsd.PyObj.Basic.view_size
#print axioms Dsd.PyObj.Basic.view_strandTable
#print axioms Dsd.PyObj.Basic.view_pairTable
#print axioms Dsd.PyObj.Basic.view_strandLength
#print axioms Dsd.PyObj.Basic.view_getDomain
#print axioms Dsd.PyObj.Basic.view_getPairedLoc
#print axioms Dsd.PyObj.Basic.view_getLoopIndex
#print axioms Dsd.PyObj.Basic.view_isConnected
