/-
Class independence of the reader (C15), document level: the per-line garbage collection only removes objects,
keeps everything that is held, and every identity stored in the result dictionary belongs to the slot class of its
kind.
-/
import DsdVerif.Lemmas.ReaderFrameLine

namespace Dsd.RdL
open Dsd Dsd.PP

/-! ### nothing is added off the slot class; held objects stay -/

/-- every object of a class other than `c` was there before -/
def SubOff {κ} (c : Nat) (cs cs' : List (ClassReg κ)) : Prop :=
  ∀ c' cr', c' ≠ c → cs'[c']? = some cr' → ∃ cr, cs[c']? = some cr ∧ ∀ o ∈ cr'.reg.objs, o ∈ cr.reg.objs

/-- every object of a class other than `c` whose identity is in `keep` is still there -/
def KeepOff {κ} (c : Nat) (keep : List Nat) (cs cs' : List (ClassReg κ)) : Prop :=
  ∀ c' cr, c' ≠ c → cs[c']? = some cr → ∃ cr', cs'[c']? = some cr' ∧ ∀ o ∈ cr.reg.objs, o.id ∈ keep → o ∈ cr'.reg.objs

theorem SubOff.refl {κ} (c : Nat) (cs : List (ClassReg κ)) : SubOff c cs cs :=
  fun _ cr' _ h => ⟨cr', h, fun _ ho => ho⟩
theorem KeepOff.refl {κ} (c : Nat) (keep : List Nat) (cs : List (ClassReg κ)) : KeepOff c keep cs cs :=
  fun _ cr _ h => ⟨cr, h, fun _ ho _ => ho⟩

theorem SubOff.trans {κ} {c : Nat} {a b d : List (ClassReg κ)} (h1 : SubOff c a b) (h2 : SubOff c b d) : SubOff c a d := by
  intro c' cr' hc hcr'
  obtain ⟨crb, hb, hsub⟩ := h2 c' cr' hc hcr'
  obtain ⟨cra, ha, hsub'⟩ := h1 c' crb hc hb
  exact ⟨cra, ha, fun o ho => hsub' o (hsub o ho)⟩

theorem KeepOff.trans {κ} {c : Nat} {keep : List Nat} {a b d : List (ClassReg κ)} (h1 : KeepOff c keep a b)
    (h2 : KeepOff c keep b d) : KeepOff c keep a d := by
  intro c' cr hc hcr
  obtain ⟨crb, hb, hk⟩ := h1 c' cr hc hcr
  obtain ⟨crd, hd, hk'⟩ := h2 c' crb hc hb
  exact ⟨crd, hd, fun o ho hid => hk' o (hk o ho hid) hid⟩

theorem SameOff.sub {κ} {c : Nat} {cs cs' : List (ClassReg κ)} (h : SameOff c cs cs') : SubOff c cs cs' := by
  intro c' cr' hc hcr'
  have := h c' hc
  rw [hcr'] at this
  cases hcs : cs[c']? with
  | none => rw [hcs] at this; simp at this
  | some cr =>
    rw [hcs] at this
    simp only [Option.map_some, Option.some.injEq] at this
    exact ⟨cr, rfl, fun o ho => by rw [← this]; exact ho⟩

theorem SameOff.keep {κ} {c : Nat} (keep : List Nat) {cs cs' : List (ClassReg κ)} (h : SameOff c cs cs') :
    KeepOff c keep cs cs' := by
  intro c' cr hc hcr
  have := h c' hc
  rw [hcr] at this
  cases hcs : cs'[c']? with
  | none => rw [hcs] at this; simp at this
  | some cr' =>
    rw [hcs] at this
    simp only [Option.map_some, Option.some.injEq] at this
    exact ⟨cr', rfl, fun o ho _ => by rw [this]; exact ho⟩

theorem dropDead_sub {κ} [DecidableEq κ] (c : Nat) (cs : List (ClassReg κ)) (alive : List Nat) :
    SubOff c cs (World.dropDead cs alive) := by
  intro c' cr' _ hcr'
  obtain ⟨cr, hcr, hobjs⟩ := dropDead_some cs alive c' cr' hcr'
  refine ⟨cr, hcr, ?_⟩
  intro o ho
  rw [hobjs] at ho
  exact (List.mem_filter.mp ho).1

theorem dropDead_keep {κ} [DecidableEq κ] (c : Nat) (keep : List Nat) (cs : List (ClassReg κ)) (alive : List Nat)
    (h : ∀ x ∈ keep, x ∈ alive) : KeepOff c keep cs (World.dropDead cs alive) := by
  intro c' cr _ hcr
  refine ⟨_, C05.dropDead_get cs alive c' cr hcr, ?_⟩
  intro o ho hid
  simp only [List.mem_filter, List.contains_eq_mem, decide_eq_true_eq]
  exact ⟨ho, h _ hid⟩

/-- between two worlds of a read: nothing new off the slot classes, held objects of the other classes kept -/
structure DocRel (sl : Slots) (keep : List Nat) (w w' : World) : Prop where
  subDoms : SubOff sl.dom w.doms w'.doms
  subStrands : SubOff sl.strand w.strands w'.strands
  subCplxs : SubOff sl.cplx w.cplxs w'.cplxs
  subMacros : SubOff sl.macr w.macros w'.macros
  subRxns : SubOff sl.rxn w.rxns w'.rxns
  keepDoms : KeepOff sl.dom keep w.doms w'.doms
  keepStrands : KeepOff sl.strand keep w.strands w'.strands
  keepCplxs : KeepOff sl.cplx keep w.cplxs w'.cplxs
  keepMacros : KeepOff sl.macr keep w.macros w'.macros
  keepRxns : KeepOff sl.rxn keep w.rxns w'.rxns

theorem DocRel.refl (sl : Slots) (keep : List Nat) (w : World) : DocRel sl keep w w :=
  ⟨SubOff.refl _ _, SubOff.refl _ _, SubOff.refl _ _, SubOff.refl _ _, SubOff.refl _ _,
   KeepOff.refl _ _ _, KeepOff.refl _ _ _, KeepOff.refl _ _ _, KeepOff.refl _ _ _, KeepOff.refl _ _ _⟩

theorem DocRel.trans {sl : Slots} {keep : List Nat} {a b c : World} (h1 : DocRel sl keep a b) (h2 : DocRel sl keep b c) :
    DocRel sl keep a c :=
  ⟨h1.subDoms.trans h2.subDoms, h1.subStrands.trans h2.subStrands, h1.subCplxs.trans h2.subCplxs,
   h1.subMacros.trans h2.subMacros, h1.subRxns.trans h2.subRxns,
   h1.keepDoms.trans h2.keepDoms, h1.keepStrands.trans h2.keepStrands, h1.keepCplxs.trans h2.keepCplxs,
   h1.keepMacros.trans h2.keepMacros, h1.keepRxns.trans h2.keepRxns⟩

theorem Frame.docRel {sl : Slots} {w w' : World} (h : Frame sl w w') (keep : List Nat) : DocRel sl keep w w' :=
  ⟨h.doms.sub, h.strands.sub, h.cplxs.sub, h.macros.sub, h.rxns.sub,
   h.doms.keep keep, h.strands.keep keep, h.cplxs.keep keep, h.macros.keep keep, h.rxns.keep keep⟩

/-- a collection after restricting the handles to a superset of `keep` -/
theorem collect_docRel (sl : Slots) (keep : List Nat) (w : World) (held' : List Nat) (h : ∀ x ∈ keep, x ∈ held') :
    DocRel sl keep w ({ w with held := held' } : World).collect := by
  have hal : ∀ x ∈ keep, x ∈ ({ w with held := held' } : World).reachable :=
    fun x hx => WorldL.held_sub_reachable _ x (h x hx)
  exact ⟨dropDead_sub _ _ _, dropDead_sub _ _ _, dropDead_sub _ _ _, dropDead_sub _ _ _, dropDead_sub _ _ _,
    dropDead_keep _ _ _ _ hal, dropDead_keep _ _ _ _ hal, dropDead_keep _ _ _ _ hal, dropDead_keep _ _ _ _ hal,
    dropDead_keep _ _ _ _ hal⟩

/-! ### the invariant survives a collection -/

theorem inv_collect (sl : Slots) (w : World) (h : Inv sl w) : Inv sl w.collect := by
  refine ⟨wf_collect w h.wf, ?_⟩
  intro n hn hk hc ch hch
  simp only [World.collect, List.mem_filter, List.contains_eq_mem, decide_eq_true_eq] at hn
  rw [has_collect]
  refine ⟨h.ss n hn.1 hk hc ch hch, ?_⟩
  apply WorldL.reachable_closed w n.id hn.2 ch
  have := wf_node_of_mem w h.wf n hn.1
  unfold World.node at this
  unfold World.childrenOf
  rw [this]; exact hch

theorem inv_held (sl : Slots) (w : World) (h : Inv sl w) (held : List Nat) : Inv sl { w with held := held } :=
  ⟨wf_held w h.wf held, h.ss⟩

/-! ### the result dictionary and `read_pil` -/

/-- an identity of the slot class of kind `k` that the user holds -/
def InSlot (sl : Slots) (w : World) (k : Kind) (i : Nat) : Prop := has w k (slotOf sl k) i ∧ i ∈ w.held

/-- every identity stored in the dictionary is a held object of the slot class of its kind -/
structure DictIn (sl : Slots) (w : World) (d : RDict) : Prop where
  domains : ∀ p ∈ d.domains, InSlot sl w .dom p.2
  strands : ∀ p ∈ d.strands, InSlot sl w .strand p.2
  complexes : ∀ p ∈ d.complexes, InSlot sl w .cplx p.2
  macrostates : ∀ p ∈ d.macrostates, InSlot sl w .macro p.2
  det : ∀ i ∈ d.det, InSlot sl w .rxn i
  con : ∀ i ∈ d.con, InSlot sl w .rxn i

theorem dictIn_empty (sl : Slots) (w : World) : DictIn sl w {} :=
  ⟨by simp, by simp, by simp, by simp, by simp, by simp⟩

theorem dictPut_mem (d : List (String × Nat)) (n : String) (id : Nat) (p : String × Nat) (h : p ∈ dictPut d n id) :
    p ∈ d ∨ p = (n, id) := by
  unfold dictPut at h
  split at h
  · rw [List.mem_map] at h
    obtain ⟨q, hq, hp⟩ := h
    split at hp
    · exact Or.inr hp.symm
    · exact Or.inl (hp ▸ hq)
  · rcases List.mem_append.mp h with h | h
    · exact Or.inl h
    · exact Or.inr (by simpa using h)

theorem InSlot.mono {sl : Slots} {w w' : World} (h : LS sl w w') {k : Kind} {i : Nat} (hi : InSlot sl w k i) :
    InSlot sl w' k i := ⟨h.has _ _ _ hi.1, h.held _ hi.2⟩

theorem DictIn.mono {sl : Slots} {w w' : World} (h : LS sl w w') {d : RDict} (hd : DictIn sl w d) : DictIn sl w' d :=
  ⟨fun p hp => (hd.domains p hp).mono h, fun p hp => (hd.strands p hp).mono h, fun p hp => (hd.complexes p hp).mono h,
   fun p hp => (hd.macrostates p hp).mono h, fun i hi => (hd.det i hi).mono h, fun i hi => (hd.con i hi).mono h⟩

/-- the handles `keepOnly` retains -/
def keepList (before : List Nat) (d : RDict) : List Nat :=
  before ++ d.domains.map (·.2) ++ d.strands.map (·.2) ++ d.complexes.map (·.2) ++ d.macrostates.map (·.2) ++ d.det ++ d.con

theorem keepOnly_eq (s : RState) (before : List Nat) (d : RDict) :
    (s.keepOnly before d).w =
      ({ s.w with held := s.w.held.filter (fun h => (keepList before d).contains h) } : World).collect := rfl

theorem keepOnly_inSlot (sl : Slots) (s : RState) (before : List Nat) (d : RDict) (k : Kind) (i : Nat)
    (h : InSlot sl s.w k i) (hk : i ∈ keepList before d) : InSlot sl (s.keepOnly before d).w k i := by
  rw [keepOnly_eq]
  have hheld : i ∈ s.w.held.filter (fun h => (keepList before d).contains h) := by
    simp only [List.mem_filter, List.contains_eq_mem, decide_eq_true_eq]
    exact ⟨h.2, hk⟩
  refine ⟨?_, hheld⟩
  rw [has_collect]
  exact ⟨h.1, WorldL.held_sub_reachable _ i hheld⟩

theorem keepOnly_dictIn (sl : Slots) (s : RState) (before : List Nat) (d : RDict) (h : DictIn sl s.w d) :
    DictIn sl (s.keepOnly before d).w d := by
  refine ⟨?_, ?_, ?_, ?_, ?_, ?_⟩
  · intro p hp
    exact keepOnly_inSlot sl s before d _ _ (h.domains p hp) (by simp [keepList]; right; left; exact ⟨p.1, hp⟩)
  · intro p hp
    exact keepOnly_inSlot sl s before d _ _ (h.strands p hp) (by simp [keepList]; right; right; left; exact ⟨p.1, hp⟩)
  · intro p hp
    exact keepOnly_inSlot sl s before d _ _ (h.complexes p hp)
      (by simp [keepList]; right; right; right; left; exact ⟨p.1, hp⟩)
  · intro p hp
    exact keepOnly_inSlot sl s before d _ _ (h.macrostates p hp)
      (by simp [keepList]; right; right; right; right; left; exact ⟨p.1, hp⟩)
  · intro i hi
    exact keepOnly_inSlot sl s before d _ _ (h.det i hi) (by simp [keepList]; right; right; right; right; right; left; exact hi)
  · intro i hi
    exact keepOnly_inSlot sl s before d _ _ (h.con i hi) (by simp [keepList]; right; right; right; right; right; right; exact hi)

/-- `keepOnly` keeps the invariant, removes only, and keeps what `before` names -/
theorem keepOnly_spec (sl : Slots) (s : RState) (before : List Nat) (d : RDict) (hi : Inv sl s.w)
    (hb : ∀ x ∈ before, x ∈ s.w.held) :
    Inv sl (s.keepOnly before d).w ∧ DocRel sl before s.w (s.keepOnly before d).w ∧
    (∀ x ∈ before, x ∈ (s.keepOnly before d).w.held) := by
  have hkeep : ∀ x ∈ before, x ∈ s.w.held.filter (fun h => (keepList before d).contains h) := by
    intro x hx
    simp only [List.mem_filter, List.contains_eq_mem, decide_eq_true_eq]
    exact ⟨hb x hx, by simp [keepList]; exact Or.inl hx⟩
  rw [keepOnly_eq]
  exact ⟨inv_collect sl _ (inv_held sl s.w hi _), collect_docRel sl before s.w _ hkeep, hkeep⟩

/-- relative to an original world `w0`: whatever carries an identity below the original counter is original -/
structure Old (w0 w : World) : Prop where
  next : w0.nextId ≤ w.nextId
  nodes : ∀ n ∈ w.nodes, n.id < w0.nextId → n ∈ w0.nodes
  has : ∀ k c i, RdL.has w k c i → i < w0.nextId → RdL.has w0 k c i

theorem Old.refl (w : World) : Old w w := ⟨Nat.le_refl _, fun _ h _ => h, fun _ _ _ h _ => h⟩

theorem Old.ls {sl : Slots} {w0 w w' : World} (h : Old w0 w) (hls : LS sl w w') : Old w0 w' := by
  refine ⟨Nat.le_trans h.next hls.next, ?_, ?_⟩
  · intro n hn hlt
    rcases hls.nodesNew n hn with hn | hge
    · exact h.nodes n hn hlt
    · have := h.next; omega
  · intro k c i hh hlt
    rcases hls.hasNew k c i hh with hh | hge
    · exact h.has k c i hh hlt
    · have := h.next; omega

theorem Old.collect {w0 w : World} (h : Old w0 w) (held : List Nat) : Old w0 ({ w with held := held } : World).collect := by
  refine ⟨h.next, ?_, ?_⟩
  · intro n hn hlt
    simp only [World.collect, List.mem_filter] at hn
    exact h.nodes n hn.1 hlt
  · intro k c i hh hlt
    rw [has_collect] at hh
    exact h.has k c i (by cases k <;> exact hh.1) hlt

theorem Old.keepOnly {w0 : World} {s : RState} (h : Old w0 s.w) (before : List Nat) (d : RDict) :
    Old w0 (s.keepOnly before d).w := by
  rw [keepOnly_eq]; exact h.collect _

/-- what `read_pil` guarantees -/
def DSpec (sl : Slots) (before : List Nat) (s : RState) (r : RState × Except RErr RDict) : Prop :=
  Inv sl r.1.w ∧ DocRel sl before s.w r.1.w ∧ (∀ x ∈ before, x ∈ r.1.w.held) ∧ (∀ d', r.2 = .ok d' → DictIn sl r.1.w d') ∧
  (∀ w0, Old w0 s.w → Old w0 r.1.w)

theorem LS.docRel {sl : Slots} {w w' : World} (h : LS sl w w') (keep : List Nat) : DocRel sl keep w w' :=
  h.frame.docRel keep

/-- the read fails after the state `s2` was reached by adding objects -/
theorem DSpec.fail (sl : Slots) (before : List Nat) (s s2 : RState) (e : RErr) (hls : LS sl s.w s2.w) (hi2 : Inv sl s2.w)
    (hb : ∀ x ∈ before, x ∈ s.w.held) : DSpec sl before s (s2.keepOnly before {}, .error e) := by
  obtain ⟨k1, k2, k3⟩ := keepOnly_spec sl s2 before {} hi2 (fun x hx => hls.held x (hb x hx))
  exact ⟨k1, (hls.docRel before).trans k2, k3, (by intro d' h; cases h), fun w0 h0 => (h0.ls hls).keepOnly before {}⟩

/-- the read goes on from `s2.keepOnly before d2` -/
theorem DSpec.step (sl : Slots) (before : List Nat) (s s2 : RState) (d2 : RDict) (hls : LS sl s.w s2.w)
    (hi2 : Inv sl s2.w) (hb : ∀ x ∈ before, x ∈ s.w.held) (hd2 : DictIn sl s2.w d2)
    (r : RState × Except RErr RDict)
    (ih : Inv sl (s2.keepOnly before d2).w → (∀ x ∈ before, x ∈ (s2.keepOnly before d2).w.held) →
      DictIn sl (s2.keepOnly before d2).w d2 → DSpec sl before (s2.keepOnly before d2) r) :
    DSpec sl before s r := by
  obtain ⟨k1, k2, k3⟩ := keepOnly_spec sl s2 before d2 hi2 (fun x hx => hls.held x (hb x hx))
  obtain ⟨r1, r2, r3, r4, r5⟩ := ih k1 k3 (keepOnly_dictIn sl s2 before d2 hd2)
  exact ⟨r1, ((hls.docRel before).trans k2).trans r2, r3, r4, fun w0 h0 => r5 w0 ((h0.ls hls).keepOnly before d2)⟩

theorem dictIn_put_domains (sl : Slots) (w : World) (d : RDict) (n : String) (id : Nat) (h : DictIn sl w d)
    (hid : InSlot sl w .dom id) : DictIn sl w { d with domains := dictPut d.domains n id } :=
  ⟨by intro p hp; rcases dictPut_mem _ _ _ _ hp with hp | rfl
      · exact h.domains p hp
      · exact hid, h.strands, h.complexes, h.macrostates, h.det, h.con⟩

theorem dictIn_put_strands (sl : Slots) (w : World) (d : RDict) (n : String) (id : Nat) (h : DictIn sl w d)
    (hid : InSlot sl w .strand id) : DictIn sl w { d with strands := dictPut d.strands n id } :=
  ⟨h.domains, by intro p hp; rcases dictPut_mem _ _ _ _ hp with hp | rfl
                 · exact h.strands p hp
                 · exact hid, h.complexes, h.macrostates, h.det, h.con⟩

theorem dictIn_put_complexes (sl : Slots) (w : World) (d : RDict) (n : String) (id : Nat) (h : DictIn sl w d)
    (hid : InSlot sl w .cplx id) : DictIn sl w { d with complexes := dictPut d.complexes n id } :=
  ⟨h.domains, h.strands, by intro p hp; rcases dictPut_mem _ _ _ _ hp with hp | rfl
                            · exact h.complexes p hp
                            · exact hid, h.macrostates, h.det, h.con⟩

theorem dictIn_put_macrostates (sl : Slots) (w : World) (d : RDict) (n : String) (id : Nat) (h : DictIn sl w d)
    (hid : InSlot sl w .macro id) : DictIn sl w { d with macrostates := dictPut d.macrostates n id } :=
  ⟨h.domains, h.strands, h.complexes, by intro p hp; rcases dictPut_mem _ _ _ _ hp with hp | rfl
                                         · exact h.macrostates p hp
                                         · exact hid, h.det, h.con⟩

theorem readDoc_fs (sl : Slots) (hsl : SlotsOK sl) (ign : List String) (before : List Nat) (lines : List Tree) :
    ∀ (s : RState) (d : RDict), Inv sl s.w → (∀ x ∈ before, x ∈ s.w.held) → DictIn sl s.w d →
      DSpec sl before s (s.readDoc sl ign before lines d) := by
  induction lines with
  | nil =>
    intro s d hi hb hd
    simp only [RState.readDoc]
    exact ⟨hi, DocRel.refl _ _ _, hb, (by intro d' h; cases h; exact hd), fun _ h => h⟩
  | cons t rest ih =>
    intro s d hi hb hd
    cases t with
    | tok x =>
      simp only [RState.readDoc]
      exact ⟨hi, DocRel.refl _ _ _, hb, (by intro d' h; cases h; exact hd), fun _ h => h⟩
    | grp line =>
      simp only [RState.readDoc]
      split
      · exact ih s d hi hb hd
      · obtain ⟨a1, a2, a3⟩ := readLine_fs s sl hi hsl line
        generalize s.readLine sl line = r1 at a1 a2 a3
        obtain ⟨s1, res1⟩ := r1
        cases res1 with
        | error e1 => exact DSpec.fail sl before s s1 e1 a2 a1 hb
        | ok obj =>
          simp only at a1 a2 a3 ⊢
          have hd1 := hd.mono a2
          have hobj := a3 obj rfl
          cases obj with
          | dom id =>
            simp only
            obtain ⟨b1, b2, b3⟩ := invert_fs sl s1.w a1 id hobj.1
            generalize s1.w.invert id = res at b1 b2 b3
            obtain ⟨w', out⟩ := res
            simp only at b1 b2 b3 ⊢
            have hls : LS sl s.w w' := a2.trans b2
            cases out with
            | ret cid b =>
              simp only
              have hd2 := dictIn_put_domains sl w' _ ((objName w'.doms sl.dom cid).getD "") cid
                (dictIn_put_domains sl w' d ((objName s1.w.doms sl.dom id).getD "") id (hd1.mono b2)
                  (InSlot.mono b2 hobj)) (b3 cid b rfl)
              split
              · rename_i s2 e2 heq
                have hs2 : s2.w = w' := by
                  split at heq
                  · split at heq
                    · simp only [Prod.mk.injEq] at heq; rw [← heq.1]
                    · simp at heq
                  · simp at heq
                exact DSpec.fail sl before s s2 e2 (hs2 ▸ hls) (hs2 ▸ b1) hb
              · rename_i s2 d2 heq
                have hs2 : s2.w = w' ∧ DictIn sl w' d2 := by
                  split at heq
                  · split at heq
                    · simp at heq
                    · simp only [Prod.mk.injEq, Except.ok.injEq] at heq
                      rw [← heq.1, ← heq.2]; exact ⟨rfl, hd2⟩
                  · simp only [Prod.mk.injEq, Except.ok.injEq] at heq
                    rw [← heq.1, ← heq.2]; exact ⟨rfl, hd2⟩
                exact DSpec.step sl before s s2 d2 (hs2.1 ▸ hls) (hs2.1 ▸ b1) hb (hs2.1 ▸ hs2.2) _
                  (fun h1 h2 h3 => ih _ _ h1 h2 h3)
            | _ => exact DSpec.fail sl before s { s1 with w := w' } _ hls b1 hb
          | strand id =>
            exact DSpec.step sl before s s1 _ a2 a1 hb (dictIn_put_strands sl s1.w d _ id hd1 hobj) _
              (fun h1 h2 h3 => ih _ _ h1 h2 h3)
          | cplx id =>
            exact DSpec.step sl before s s1 _ a2 a1 hb (dictIn_put_complexes sl s1.w d _ id hd1 hobj) _
              (fun h1 h2 h3 => ih _ _ h1 h2 h3)
          | «macro» id =>
            exact DSpec.step sl before s s1 _ a2 a1 hb (dictIn_put_macrostates sl s1.w d _ id hd1 hobj) _
              (fun h1 h2 h3 => ih _ _ h1 h2 h3)
          | rxn id b =>
            cases b
            · refine DSpec.step sl before s s1 _ a2 a1 hb ?_ _ (fun h1 h2 h3 => ih _ _ h1 h2 h3)
              refine ⟨hd1.domains, hd1.strands, hd1.complexes, hd1.macrostates, ?_, hd1.con⟩
              intro i hi'
              split at hi'
              · exact hd1.det i hi'
              · rcases List.mem_append.mp hi' with hi' | hi'
                · exact hd1.det i hi'
                · simp at hi'; subst hi'; exact hobj
            · refine DSpec.step sl before s s1 _ a2 a1 hb ?_ _ (fun h1 h2 h3 => ih _ _ h1 h2 h3)
              refine ⟨hd1.domains, hd1.strands, hd1.complexes, hd1.macrostates, hd1.det, ?_⟩
              intro i hi'
              split at hi'
              · exact hd1.con i hi'
              · rcases List.mem_append.mp hi' with hi' | hi'
                · exact hd1.con i hi'
                · simp at hi'; subst hi'; exact hobj
          | other =>
            exact DSpec.step sl before s s1 { d with other := d.other + 1 } a2 a1 hb
              ⟨hd1.domains, hd1.strands, hd1.complexes, hd1.macrostates, hd1.det, hd1.con⟩ _
              (fun h1 h2 h3 => ih _ _ h1 h2 h3)


end Dsd.RdL
