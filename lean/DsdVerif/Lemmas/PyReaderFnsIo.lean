/-
The translated `set_io_objects` / `clear_io_objects` (Gen/PyReaderFns.lean): their net effect on the five module globals.
-/
import DsdVerif.Gen.PyReaderFns
import DsdVerif.Model.Reader

namespace Dsd.PyReaderFnsL
open Dsd Dsd.Gen

/-- what `set_io_objects(D, S, C, M, R)` leaves in the five module globals: the argument, or the library class where it is `None` -/
def configured (base : objectio.Imports) (D S C M R : Option Py.ClassId) : objectio.Globals :=
  { Domain := some (D.getD base.DomainS), Strand := some (S.getD base.StrandS), Complex := some (C.getD base.ComplexS),
    Macrostate := some (M.getD base.MacrostateS), Reaction := some (R.getD base.ReactionS) }

theorem set_exec (base : objectio.Imports) (D S C M R : Option Py.ClassId) (g : objectio.Globals) :
    Py.MS.exec (py_set_io_objects base D S C M R) g = (.ok (), configured base D S C M R) := by
  cases D <;> cases S <;> cases C <;> cases M <;> cases R <;> rfl

theorem clear_exec (base : objectio.Imports) (g : objectio.Globals) :
    Py.MS.exec (py_clear_io_objects base) g = (.ok (), {}) := rfl

/-- the reader's slot configuration (Model/Reader.lean `Slots`: per kind the index of the configured class) that a state of the
    module globals stands for, when all five are set -/
def slotsOf (g : objectio.Globals) : Option Slots :=
  match g.Domain, g.Strand, g.Complex, g.Macrostate, g.Reaction with
  | some d, some s, some c, some m, some r => some { dom := d, strand := s, cplx := c, macr := m, rxn := r }
  | _, _, _, _, _ => none

end Dsd.PyReaderFnsL
