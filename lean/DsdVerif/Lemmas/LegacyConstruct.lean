/-
C20, task 3 (second half): `canonical_form` of a freshly initialised legacy object and `DSD_Complex.__init__` on a
well-formed description, in terms of the abstract legacy model (`legacyVariants`, `legacyCanon`).
-/
import DsdVerif.Lemmas.LegacyCanon

namespace Dsd.LgL
open Dsd Dsd.Lg Dsd.Rot

/-- the instance right after the attribute assignments of `__init__` -/
def mk0 (fresh : Nat) (nm : String) (seq : List String) (sst : List Char) (mc : Bool) : LObj :=
  { id := fresh, name := nm, seq := seq, sst := sst, memorycheck := mc }

/-- the instance after `canonical_form` has run: turned once around (back in its representation), canonical form and
    `_rotations` set; `_strand_lengths` and `_lol_sequence` filled (emptied by every `rotate_once` of the loop since the
    repair c1d6792, filled again by the `self.size` that computes `_rotations`), the other caches empty -/
def registered (fresh : Nat) (nm : String) (seq : List String) (sst : List Char) (mc : Bool) (c : CKey) (rot : Nat) :
    LObj :=
  { id := fresh, name := nm, seq := seq, sst := sst, canon := some c, rotations := some rot,
    strandLengths := some ((makeStrandTableList "+" seq).map List.length),
    lolSequence := some (makeStrandTableList "+" seq), memorycheck := mc }

/-- the fresh instance after the first evaluation of `self.size` -/
def mk1 (fresh : Nat) (nm : String) (seq : List String) (sst : List Char) (mc : Bool) : LObj :=
  { mk0 fresh nm seq sst mc with lolSequence := some (makeStrandTableList "+" seq), strandLengths := some ((makeStrandTableList "+" seq).map List.length) }

def withCanon (o : LObj) (c : CKey) : LObj := { o with canon := some c }

def withRot (o : LObj) (r : Nat) : LObj := { o with rotations := some r }

/-- the representations met by the legacy loop are the orbit -/
theorem variants_mem_orb (seq : List String) (sst : List Char) (hd : Descr' seq sst) (vs : List CKey)
    (hvs : legacyVariants (nStr seq) seq sst = .ok vs) (z : CKey) : z ∈ vs ↔ z ∈ orb (nStr seq) seq sst := by
  obtain ⟨vs', hvs', hlen, hget⟩ := legacyVariants_spec (nStr seq) seq sst hd
  rw [hvs] at hvs'; cases hvs'
  have hpos := nStr_pos seq hd.nonempty
  rw [mem_orb_any seq sst hd]
  constructor
  · intro hz
    obtain ⟨i, hi⟩ := List.mem_iff_getElem?.mp hz
    have hil : i < nStr seq := by have := (List.getElem?_eq_some_iff.mp hi).1; omega
    obtain ⟨z', h1, h2⟩ := hget i hil
    rw [hi] at h1; cases h1
    exact ⟨i + 1, h2⟩
  · rintro ⟨k, hk⟩
    have hk' : rotateN (k % nStr seq) seq sst = .ok z := by rw [← rotateN_mod k seq sst hd]; exact hk
    by_cases h0 : k % nStr seq = 0
    · rw [h0] at hk'
      have hp := descr_period seq sst hd
      obtain ⟨z', h1, h2⟩ := hget (nStr seq - 1) (by omega)
      have e : nStr seq - 1 + 1 = nStr seq := by omega
      rw [e, hp] at h2
      have hz0 : z = (seq, sst) := by
        simp only [rotateN, Except.ok.injEq] at hk'; exact hk'.symm
      cases h2
      rw [hz0]
      exact List.mem_iff_getElem?.mpr ⟨_, h1⟩
    · have hlt := Nat.mod_lt k hpos
      obtain ⟨z', h1, h2⟩ := hget (k % nStr seq - 1) (by omega)
      have e : k % nStr seq - 1 + 1 = k % nStr seq := by omega
      rw [e, hk'] at h2
      cases h2
      exact List.mem_iff_getElem?.mpr ⟨_, h1⟩

theorem size_mk0 (fresh : Nat) (nm : String) (seq : List String) (sst : List Char) (mc : Bool) :
    (mk0 fresh nm seq sst mc).size = (mk1 fresh nm seq sst mc, nStr seq) := by
  unfold LObj.size LObj.fillStrandLengths mk1 mk0 nStr
  simp [truthy]

/-- `self.size` at the end of `canonical_form`: the instance has been turned once around, `_strand_lengths` and
    `_lol_sequence` are empty and are filled again - with what they held before the loop -/
theorem size_turned (fresh : Nat) (nm : String) (seq : List String) (sst : List Char) (mc : Bool) (c : CKey) :
    (withCanon (rotated (mk1 fresh nm seq sst mc) (seq, sst)) c).size =
      (withCanon (mk1 fresh nm seq sst mc) c, nStr seq) := by
  unfold LObj.size LObj.fillStrandLengths withCanon rotated mk1 mk0 nStr
  simp [truthy]

/-- **`canonical_form` of a fresh instance** of a well-formed description: if no rotation is a key of MEMORY (or the
    check is off) it is the canonical form and `_rotations` of the abstract legacy model (`legacyCanon`), and the
    instance ends in its original representation; otherwise the first rotation that is a key of MEMORY raises. -/
theorem canonicalForm_fresh (R : LReg) (fresh : Nat) (nm : String) (seq : List String) (sst : List Char) (mc : Bool)
    (hd : Descr' seq sst) :
    ∃ vs, legacyVariants (nStr seq) seq sst = .ok vs ∧
      ((∀ z ∈ vs, chk R mc z = none) →
        ∃ c rot, legacyCanon seq sst = .ok (c, rot) ∧
          (mk0 fresh nm seq sst mc).canonicalForm R = (registered fresh nm seq sst mc c rot, .ok c)) ∧
      (∀ (j : Nat) (z : CKey) (other : LObj), vs[j]? = some z → chk R mc z = some other →
        (∀ i, i < j → ∀ z', vs[i]? = some z' → chk R mc z' = none) →
        ∃ o', (mk0 fresh nm seq sst mc).canonicalForm R = (o', .error (dupOf (nStr seq) (j + 1) other))) := by
  have hpos := nStr_pos seq hd.nonempty
  let o0 : LObj := mk1 fresh nm seq sst mc
  have hinv : Inv (nStr seq) mc o0 :=
    ⟨fun l hl => (by cases hl; simp [nStr]), fun l hl => (by cases hl; rfl), rfl, hpos, rfl, hd⟩
  obtain ⟨vs, hvs, hlen, ha, hb⟩ := canonLoop_spec R (nStr seq) mc (nStr seq) o0 [] [] hinv dictFirst_nil
    (fun _ h => by cases h)
  change legacyVariants (nStr seq) seq sst = .ok vs at hvs
  have hcf : ∀ x, LObj.canonLoop R (nStr seq) 1 o0 [] = x →
      (mk0 fresh nm seq sst mc).canonicalForm R =
        match x with
        | (o1, .error e) => (o1, .error e)
        | (o1, .ok vars) =>
          match (sortBy ckeyLt (vars.map (·.1))).head? with
          | none => (o1, .error (.fault "IndexError"))
          | some c =>
            match vars.lookup c with
            | none => (withCanon o1 c, .error (.fault "KeyError"))
            | some e =>
              (withRot (withCanon o1 c).size.1 ((e : Int) - ((withCanon o1 c).size.2 : Int)).natAbs, .ok c) := by
    intro x hx
    unfold LObj.canonicalForm
    have hc0 : (mk0 fresh nm seq sst mc).canon = none := rfl
    simp only [hc0, size_mk0]
    show (match LObj.canonLoop R (nStr seq) 1 o0 [] with | (o1, .error e) => _ | (o1, .ok vars) => _) = _
    rw [hx]
    obtain ⟨o1, r⟩ := x
    cases r with
    | error e => rfl
    | ok vars =>
      simp only
      cases (sortBy ckeyLt (vars.map (·.1))).head? with
      | none => rfl
      | some c =>
        simp only
        cases vars.lookup c <;> rfl
  refine ⟨vs, hvs, ?_, ?_⟩
  · intro hall
    obtain ⟨o1, vars, h1, h2, h3, h4, h5⟩ := ha hall
    simp only [List.length_nil, Nat.zero_add, List.nil_append] at h1 h2
    have hper : rotateN (nStr seq) seq sst = .ok (seq, sst) := descr_period seq sst hd
    have hrep : (o1.seq, o1.sst) = (seq, sst) := by
      have : rotateN (nStr seq) o0.seq o0.sst = .ok (o1.seq, o1.sst) := h4
      rw [show o0.seq = seq from rfl, show o0.sst = sst from rfl, hper] at this
      cases this; rfl
    have ho1 : o1 = rotated o0 (seq, sst) := by
      rw [h5, if_neg (by omega), hrep]
    have hne : vs ≠ [] := fun e => by rw [e] at hlen; simp at hlen; omega
    obtain ⟨c, hc⟩ := Ord.minKey_isSome vs hne
    obtain ⟨m1, _⟩ := Ord.minKey_spec vs c hc
    have hhead : (sortBy ckeyLt (vars.map (·.1))).head? = some c := by
      rw [h2.keys]
      exact CplxFullL.head_sortBy _ c (CplxFullL.minKey_eraseDups vs c hc)
    have hlook : vars.lookup c = some (vs.idxOf c + 1) := h2.get c m1
    refine ⟨c, if vs.idxOf c + 1 ≥ nStr seq then vs.idxOf c + 1 - nStr seq else nStr seq - (vs.idxOf c + 1), ?_, ?_⟩
    · unfold legacyCanon
      have hn : (makeStrandTableList "+" seq).length = nStr seq := rfl
      simp only [hn, hvs, hc, firstIdx1]
    · rw [hcf _ h1]
      simp only [hhead, hlook]
      rw [ho1, size_turned]
      have hrot : ((((vs.idxOf c + 1 : Nat) : Int) - (nStr seq : Int)).natAbs) =
          (if vs.idxOf c + 1 ≥ nStr seq then vs.idxOf c + 1 - nStr seq else nStr seq - (vs.idxOf c + 1)) := by
        split <;> omega
      rw [hrot]
      rfl
  · intro j z other hj hz hbefore
    obtain ⟨o', h1⟩ := hb j z other hj hz hbefore
    simp only [List.length_nil, Nat.zero_add] at h1
    refine ⟨o', ?_⟩
    rw [hcf _ h1]
    have : 1 + j = j + 1 := by omega
    rw [this]

/-- a computed canonical form is returned as it is -/
theorem canonicalForm_cached (R : LReg) (o : LObj) (c : CKey) (h : o.canon = some c) :
    o.canonicalForm R = (o, .ok c) := by
  unfold LObj.canonicalForm
  rw [h]

theorem size_canon (o : LObj) : o.size.1.canon = o.canon := by
  unfold LObj.size LObj.fillStrandLengths
  by_cases h1 : truthy o.strandLengths = true
  · simp [h1]
  · by_cases h2 : truthy o.lolSequence = true <;> simp [h1, h2]

/-- a successful evaluation leaves the canonical form in the instance -/
theorem canonicalForm_ok (R : LReg) (o o1 : LObj) (c : CKey) (h : o.canonicalForm R = (o1, .ok c)) :
    o1.canon = some c := by
  unfold LObj.canonicalForm at h
  cases hc : o.canon with
  | some c0 =>
    rw [hc] at h
    simp only [Prod.mk.injEq, Except.ok.injEq] at h
    rw [← h.1, ← h.2]; exact hc
  | none =>
    rw [hc] at h
    simp only at h
    generalize o.size = sz at h
    obtain ⟨o0, n⟩ := sz
    simp only at h
    generalize LObj.canonLoop R n 1 o0 [] = x at h
    obtain ⟨oa, r⟩ := x
    cases r with
    | error e => simp at h
    | ok vars =>
      simp only at h
      cases hh : (sortBy ckeyLt (vars.map (·.1))).head? with
      | none => rw [hh] at h; simp at h
      | some c1 =>
        rw [hh] at h
        simp only at h
        cases hl : vars.lookup c1 with
        | none => rw [hl] at h; simp at h
        | some e1 =>
          rw [hl] at h
          simp only at h
          generalize hsz : LObj.size _ = sz2 at h
          obtain ⟨o3, n3⟩ := sz2
          simp only [Prod.mk.injEq, Except.ok.injEq] at h
          obtain ⟨h1, h2⟩ := h
          have hcan : o3.canon = some c1 := (congrArg (fun p => p.1.canon) hsz).symm.trans (size_canon _)
          rw [← h1, ← h2]; exact hcan

/-! ### `__init__` after the name has been chosen -/

/-- `__init__` from the length check on, for the chosen name `nm` and the class state `R1` after naming -/
def core (R1 : LReg) (fresh : Nat) (nm : String) (seq : List String) (sst : List Char) (mc : Bool) :
    LReg × Except LErr LObj :=
  if seq.length ≠ sst.length then
    (R1, .error (.objects "DSD_Complex() sequence and structure must have same length"))
  else
    if mc then
      match (mk0 fresh nm seq sst mc).canonicalForm R1 with
      | (_, .error e) => (R1, .error e)
      | (o1, .ok canon) =>
        if (R1.NAMES.lookup nm).isSome then (R1, .error (.objects "Duplicate DSD_Complex name!"))
        else
          match o1.canonicalForm { R1 with NAMES := dictPut R1.NAMES nm canon } with
          | (_, .error e) => ({ R1 with NAMES := dictPut R1.NAMES nm canon }, .error e)
          | (o2, .ok c2) =>
            ({ R1 with NAMES := dictPut R1.NAMES nm canon, MEMORY := dictPut R1.MEMORY c2 o2 }, .ok o2)
    else (R1, .ok (mk0 fresh nm seq sst mc))

/-- an explicit (truthy) name -/
theorem construct_named (R : LReg) (fresh : Nat) (seq : List String) (sst : List Char) (n pfx : String) (mc : Bool)
    (hn : n ≠ "") : construct R fresh seq sst (some n) pfx mc = core R fresh n seq sst mc := by
  unfold construct core mk0
  simp only [hn, ne_eq, not_false_eq_true, if_true]
  rfl

/-- an automatic name: `name` is `None` or `''`, the prefix is non-empty and does not end with a digit -/
theorem construct_auto (R : LReg) (fresh : Nat) (seq : List String) (sst : List Char) (name : Option String)
    (pfx : String) (mc : Bool) (hname : name = none ∨ name = some "") (hp : pfx ≠ "") (hdig : endsWithDigit pfx = false) :
    construct R fresh seq sst name pfx mc =
      core { R with ID := R.ID + 1 } fresh (pfx ++ toString R.ID) seq sst mc := by
  unfold construct core mk0
  rcases hname with rfl | rfl
  · simp only [hp, if_false, hdig, Bool.false_eq_true]
    rfl
  · simp only [ne_eq, not_true_eq_false, if_false, hp, hdig, Bool.false_eq_true]
    rfl

/-- the refusals of the naming step leave the whole class state untouched -/
theorem construct_bad_prefix (R : LReg) (fresh : Nat) (seq : List String) (sst : List Char) (name : Option String)
    (pfx : String) (mc : Bool) (hname : name = none ∨ name = some "") :
    (pfx = "" → construct R fresh seq sst name pfx mc = (R, .error (.objects "DSD_Complex prefix must not be empty!"))) ∧
    (pfx ≠ "" → endsWithDigit pfx = true →
      construct R fresh seq sst name pfx mc = (R, .error (.objects "DSD_Complex prefix must not end with a digit!"))) := by
  unfold construct
  rcases hname with rfl | rfl
  · refine ⟨fun h => by simp [h], fun h1 h2 => by simp [h1, h2]⟩
  · refine ⟨fun h => by simp [h], fun h1 h2 => by simp [h1, h2]⟩

/-- **`__init__` on a well-formed description with the memory check on.** -/
theorem core_spec (R1 : LReg) (fresh : Nat) (nm : String) (seq : List String) (sst : List Char)
    (hd : Descr' seq sst) :
    ∃ vs, legacyVariants (nStr seq) seq sst = .ok vs ∧
      ((∀ z ∈ vs, R1.MEMORY.lookup z = none) →
        ∃ c rot, legacyCanon seq sst = .ok (c, rot) ∧
          ((R1.NAMES.lookup nm).isSome = true →
            core R1 fresh nm seq sst true = (R1, .error (.objects "Duplicate DSD_Complex name!"))) ∧
          (R1.NAMES.lookup nm = none →
            core R1 fresh nm seq sst true =
              ({ R1 with NAMES := dictPut R1.NAMES nm c,
                         MEMORY := dictPut R1.MEMORY c (registered fresh nm seq sst true c rot) },
               .ok (registered fresh nm seq sst true c rot)))) ∧
      (∀ (j : Nat) (z : CKey) (other : LObj), vs[j]? = some z → R1.MEMORY.lookup z = some other →
        (∀ i, i < j → ∀ z', vs[i]? = some z' → R1.MEMORY.lookup z' = none) →
        core R1 fresh nm seq sst true = (R1, .error (dupOf (nStr seq) (j + 1) other))) := by
  obtain ⟨vs, hvs, ha, hb⟩ := canonicalForm_fresh R1 fresh nm seq sst true hd
  have hlen : ¬ seq.length ≠ sst.length := fun h => h hd.al.1
  refine ⟨vs, hvs, ?_, ?_⟩
  · intro hall
    obtain ⟨c, rot, hlc, hcf⟩ := ha (fun z hz => by simp only [chk, if_true]; exact hall z hz)
    refine ⟨c, rot, hlc, ?_, ?_⟩
    · intro hnm
      unfold core
      simp only [hlen, if_false, if_true, hcf, hnm]
    · intro hnm
      unfold core
      simp only [hlen, if_false, if_true, hcf, hnm, Option.isSome_none, Bool.false_eq_true]
      rw [canonicalForm_cached _ (registered fresh nm seq sst true c rot) c rfl]
  · intro j z other hj hz hbefore
    obtain ⟨o', h1⟩ := hb j z other hj (by simp only [chk, if_true]; exact hz)
      (fun i hi z' hz' => by simp only [chk, if_true]; exact hbefore i hi z' hz')
    unfold core
    simp only [hlen, if_false, if_true, h1]

/-- with the check off nothing is computed and nothing is registered -/
theorem core_nocheck (R1 : LReg) (fresh : Nat) (nm : String) (seq : List String) (sst : List Char)
    (h : seq.length = sst.length) : core R1 fresh nm seq sst false = (R1, .ok (mk0 fresh nm seq sst false)) := by
  unfold core
  simp [h]

/-- **a refused construction leaves nothing behind in NAMES and MEMORY** — for every input, well-formed or not;
    the counter `ID` may have been consumed. -/
theorem core_refused (R1 : LReg) (fresh : Nat) (nm : String) (seq : List String) (sst : List Char) (mc : Bool)
    (e : LErr) (R' : LReg) (h : core R1 fresh nm seq sst mc = (R', .error e)) : R' = R1 := by
  unfold core at h
  split at h
  · cases h; rfl
  · split at h
    · generalize hx : (mk0 fresh nm seq sst mc).canonicalForm R1 = x at h
      obtain ⟨o1, r⟩ := x
      cases r with
      | error e1 => simp only [Prod.mk.injEq] at h; exact h.1.symm
      | ok canon =>
        simp only at h
        split at h
        · simp only [Prod.mk.injEq] at h; exact h.1.symm
        · -- the second evaluation of `canonical_form` is a cache hit: it cannot raise
          rw [canonicalForm_cached _ o1 canon (canonicalForm_ok _ _ _ _ hx)] at h
          simp at h
    · simp at h

end Dsd.LgL
