/-
`kernel_string` of the translated legacy `DSD_Complex` (Gen/PyLegacy.lean) is the model's `LObj.kernelString` on EVERY object:
the index loop over `range(len(seq))` with `sst[i]` (IndexError when the structure is shorter) and the final `knl[:-1]`.
A Python `str` is the list of its characters in the translation and a `String` in the model (`String.toList`).
-/
import DsdVerif.Lemmas.PyLegacyBasic
import DsdVerif.Lemmas.LegacyViews

set_option linter.unusedSimpArgs false

namespace Dsd.PyLegacy
open Dsd Dsd.Gen Dsd.Lg Dsd.PyObj.Basic

abbrev KV := DSD_Complex_kernel_string.Vars

theorem sp_toList : (" " : String).toList = [' '] := by decide

/-- one iteration on the locals, for an index inside the sequence -/
theorem kernel_step (seq : List String) (sst : List Char) (i : Nat) (knl : List Char) (s : DSD_Complex.Self)
    (h1 : i < seq.length) :
    (DSD_Complex_kernel_string.loop1 { seq := seq, sst := sst, knl := knl } i).exec s =
      (match sst[i]? with
        | none => .error (.fault "IndexError")
        | some c => .ok { seq := seq, sst := sst, knl := knl ++ (LgL.tokC (seq[i], c) ++ [' ']) }, s) := by
  have hg1 : seq[i]? = some seq[i] := List.getElem?_eq_getElem h1
  unfold DSD_Complex_kernel_string.loop1
  simp only [exec_bind, exec_lift, exec_monadLift, exec_pure, exec_ite, Py.idx, hg1, sp_toList]
  cases hc : sst[i]? with
  | none => rfl
  | some c =>
    simp only [pure, Except.pure]
    by_cases c1 : c = '+'
    · simp [c1, LgL.tokC]
    · by_cases c2 : c = ')'
      · simp [c2, LgL.tokC]
      · by_cases c3 : c = '('
        · simp [c3, LgL.tokC]
        · simp [c1, c2, c3, LgL.tokC]

/-- the loop is the model's `kernelLoop` -/
theorem kernel_fold (seq : List String) (sst : List Char) : ∀ (is : List Nat) (knl : String) (s : DSD_Complex.Self),
    (∀ i ∈ is, i < seq.length) →
    (List.foldlM DSD_Complex_kernel_string.loop1 ({ seq := seq, sst := sst, knl := knl.toList } : KV) is).exec s =
      (match kernelLoop seq sst is knl with
        | .ok k => .ok { seq := seq, sst := sst, knl := k.toList }
        | .error e => .error (errOf e), s) := by
  intro is
  induction is with
  | nil => intro knl s _; rfl
  | cons i is ih =>
    intro knl s hb
    have hi : i < seq.length := hb i List.mem_cons_self
    have hg1 : seq[i]? = some seq[i] := List.getElem?_eq_getElem hi
    have hb' : ∀ j ∈ is, j < seq.length := fun j hj => hb j (List.mem_cons_of_mem _ hj)
    rw [List.foldlM_cons, exec_bind, kernel_step seq sst i knl.toList s hi]
    unfold kernelLoop
    cases hc : sst[i]? with
    | none => rfl
    | some c =>
      simp only [hg1, Option.getD_some]
      by_cases c1 : c = '+'
      · have := ih (knl ++ String.singleton c ++ " ") s hb'
        simp only [String.toList_append, String.toList_singleton, sp_toList, List.append_assoc] at this
        simp only [c1, if_true, LgL.tokC] at this ⊢
        exact this
      · by_cases c2 : c = ')'
        · have := ih (knl ++ String.singleton c ++ " ") s hb'
          simp only [String.toList_append, String.toList_singleton, sp_toList, List.append_assoc] at this
          simp only [c2, if_true, if_false, LgL.tokC, (by decide : ¬ ')' = '+')] at this ⊢
          exact this
        · by_cases c3 : c = '('
          · have := ih (knl ++ seq[i] ++ String.singleton c ++ " ") s hb'
            simp only [String.toList_append, String.toList_singleton, sp_toList, List.append_assoc] at this
            simp only [c3, if_true, if_false, LgL.tokC, (by decide : ¬ '(' = '+'), (by decide : ¬ '(' = ')'), List.append_assoc] at this ⊢
            exact this
          · have := ih (knl ++ seq[i] ++ " ") s hb'
            simp only [String.toList_append, String.toList_singleton, sp_toList, List.append_assoc] at this
            simp only [c1, c2, c3, if_false, LgL.tokC, List.append_assoc] at this ⊢
            exact this

/-- the answer of a view that returns a `str` -/
def strAnsL (r : Except LErr String) (o : LObj) : Except Err (List Char) × DSD_Complex.Self :=
  (match r with | .ok k => .ok k.toList | .error e => .error (errOf e), ofL o)

theorem exec_kernel_string (o : LObj) : (py_DSD_Complex_kernel_string).exec (ofL o) = strAnsL o.kernelString o := by
  unfold py_DSD_Complex_kernel_string LObj.kernelString strAnsL
  simp only [exec_bind, exec_get, exec_pure]
  have := kernel_fold o.seq o.sst (List.range o.seq.length) "" (ofL o) (fun i hi => List.mem_range.mp hi)
  simp only [String.toList_empty] at this
  simp only [ofL] at this ⊢
  rw [this]
  cases kernelLoop o.seq o.sst (List.range o.seq.length) "" with
  | error e => rfl
  | ok k => simp only [String.toList_ofList]

end Dsd.PyLegacy
