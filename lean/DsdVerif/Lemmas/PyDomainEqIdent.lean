/-
(c) `py_DomainS_identifiers request …` against `DomFull.identifiers nested …` for related `request` / `nested`, per branch.
-/
import DsdVerif.Lemmas.PyDomainEq

namespace Dsd.PyDomainEq
open Dsd Dsd.Gen Dsd.PySingletonL

/-- the exception of the code for a refusal of the model -/
def toErr : Out → Err
  | .singletonErr e => .singleton e
  | .objectInitErr => .objectInit
  | .fault k => .fault k
  | _ => .fault "model"

/-- the result of a request in the code for an outcome of the model -/
def toRes : Out → Except Err Nat
  | .ret id _ => .ok id
  | o => .error (toErr o)

/-- the result of `identifiers` in the code for the model's -/
def toIdents : Except Out DomFull.Idents → Except Err DomFull.Idents
  | .ok x => .ok x
  | .error e => .error (toErr e)

/-- the parameter `request` of the translation does what the parameter `nested` of the model does, on the requests `identifiers`
    makes (a name, maybe a length): related classes afterwards, corresponding results, and an object it CREATES is `tmp` -/
def Related (request : Py.Dom.Req → Py.Dom.M Nat) (nested : Reg DKey → DomReq → Reg DKey × Out) (tmp : Nat) : Prop :=
  ∀ (s : Py.Dom.Cls) (r : Reg DKey) (n : String) (l : Option Nat), RepX s r →
    ∃ s', RepX s' (nested r { name := some n, length := l }).1 ∧
      (request { name := some n, length := l }).exec s = (toRes (nested r { name := some n, length := l }).2, s') ∧
      (∀ id c, (nested r { name := some n, length := l }).2 = .ret id c → (c = true ↔ id = tmp)) ∧
      (∀ e, (nested r { name := some n, length := l }).2 = e → (∀ id c, e ≠ .ret id c) → (∀ x, e ≠ .singletonErr x) →
        ∀ x, toErr e ≠ .singleton x)

theorem pure_ok {α} (a : α) : (pure a : Except Err α) = .ok a := rfl

theorem strLast_starred (n : String) (hne : n ≠ "") :
    ∃ c, Py.strLast n = .ok c ∧ (c == '*') = isStarred n := by
  unfold Py.strLast isStarred
  cases h : n.toList.getLast? with
  | none =>
    exfalso
    have : n.toList = [] := List.getLast?_eq_none_iff.mp h
    apply hne
    have := congrArg String.ofList this
    simpa using this
  | some c => exact ⟨c, rfl, by simp⟩

theorem cname_eq (n : String) : (if isStarred n = true then Py.strDropLast n else n ++ "*") = cnameOf n := by
  unfold cnameOf Py.strDropLast; rfl

set_option maxHeartbeats 2000000 in
/-- branch "starred name with a length" (`elif length is not None and name[-1] == '*'`) -/
theorem identifiers_starred_length (request : Py.Dom.Req → Py.Dom.M Nat) (nested : Reg DKey → DomReq → Reg DKey × Out) (tmp : Nat)
    (hrel : Related request nested tmp) (s : Py.Dom.Cls) (r : Reg DKey) (h : RepX s r) (cfg : DomCfg)
    (n : String) (hne : n ≠ "") (hst : isStarred n = true) (l : Nat) (pfx : Option String) :
    ∃ s', RepX s' (DomFull.identifiers nested cfg r { name := some n, length := some l, prefix_ := pfx }).1 ∧
      (py_DomainS_identifiers request tmp cfg.cutoff cfg.shortLen cfg.longLen cfg.prefix_ (some n) (some l) pfx none).exec s =
        (toIdents (DomFull.identifiers nested cfg r { name := some n, length := some l, prefix_ := pfx }).2, s') := by
  obtain ⟨c, hc1, hc2⟩ := strLast_starred n hne
  have hcs : (c == '*') = true := by rw [hc2, hst]
  have hcn : (c != '*') = false := by simp [bne, hcs]
  have hemp : n.isEmpty = false := by simpa using hne
  have hdl : Py.strDropLast n = cnameOf n := by rw [← cname_eq n, if_pos hst]
  obtain ⟨s1, hR1, he1, hcr1, hoth1⟩ := hrel s r (cnameOf n) none h
  unfold py_DomainS_identifiers DomFull.identifiers DomFull.identTail DomFull.lengthArg
  simp only [exec_ite, exec_bind, exec_get, exec_pure, exec_throw, exec_lift, exec_monadLift, exec_tryS, Py.unwrap, Py.Dom.truthyOS,
    Option.isNone_none, Option.isNone_some, Option.isSome_some, if_true, if_false, Bool.false_eq_true, hc1, hcs, hcn, hemp, hst,
    Bool.not_true, hdl, pure_ok, he1]
  cases hn : (nested r { name := some (cnameOf n) }) with
  | mk r1 o =>
    rw [hn] at hR1 hcr1 hoth1
    simp only at hR1 hcr1 hoth1
    cases o with
    | ret id cr =>
      obtain ⟨s2, hR2, hl2⟩ := lenTemp_eq s1 r1 hR1 tmp id cr (hcr1 id cr rfl)
      simp only [toRes, hl2]
      cases hlr : DomFull.lenAndRelease r1 id cr with
      | mk lo r2 =>
        rw [hlr] at hR2
        simp only at hR2
        cases lo with
        | none => exact ⟨s2, hR2, by simp [toIdents, toErr]⟩
        | some cl =>
          by_cases hcl : cl = l
          · refine ⟨s2, by simpa [hcl] using hR2, ?_⟩
            simp [hcl, toIdents, exec_ite, exec_bind, exec_pure, exec_throw, exec_lift] <;> rfl
          · refine ⟨s2, by simpa [hcl] using hR2, ?_⟩
            simp [hcl, toIdents, toErr, exec_ite, exec_bind, exec_pure, exec_throw, exec_lift] <;> rfl
    | singletonErr e =>
      refine ⟨s1, hR1, ?_⟩
      simp [toRes, toErr, toIdents, exec_ite, exec_bind, exec_pure, exec_throw, exec_lift] <;> rfl
    | _ =>
      refine ⟨s1, hR1, ?_⟩
      simp [toRes, toErr, toIdents, exec_ite, exec_bind, exec_pure, exec_throw, exec_lift] <;> rfl

end Dsd.PyDomainEq
