/-
The size of a kernel pattern is bounded by the length of its text (C16, recursion budget): with input accounting
(`PP.Yield`), every token of the forest a pattern returns consumed at least one non-blank character, and every
nested list two parentheses.  `nb cs`: the number of non-blank characters (tab expansion only adds blanks);
`tsizeL ts`: tokens + 2 · groups; `treeSize f ts ≤ tsizeL ts + 1` for every fuel.
-/
import DsdVerif.Lemmas.PilReject
import DsdVerif.Model.Kernel

namespace Dsd.PP
open Dsd Dsd.Gen

/-! ### measures -/

mutual
/-- tokens count 1, groups 2 (their two parentheses) plus their content -/
def tsizeT : Tree → Nat
  | .tok _ => 1
  | .grp ts => 2 + tsizeL ts
def tsizeL : List Tree → Nat
  | [] => 0
  | t :: r => tsizeT t + tsizeL r
end

theorem tsizeL_append (a b : List Tree) : tsizeL (a ++ b) = tsizeL a + tsizeL b := by
  induction a with
  | nil => simp [tsizeL]
  | cons t r ih => simp [tsizeL, ih]; omega

/-- the fuel-bounded size of the model never exceeds the count -/
theorem treeSize_le (f : Nat) : ∀ ts : List Tree, treeSize f ts ≤ tsizeL ts + 1 := by
  induction f with
  | zero => intro ts; simp [treeSize]
  | succ f ih =>
    intro ts
    cases ts with
    | nil => simp [treeSize, tsizeL]
    | cons t r =>
      cases t with
      | tok s => simp only [treeSize, tsizeL, tsizeT]; have := ih r; omega
      | grp g => simp only [treeSize, tsizeL, tsizeT]; have := ih r; have := ih g; omega

/-- the number of non-blank characters -/
def nb (cs : List Char) : Nat := (cs.filter (fun c => c != ' ')).length

theorem nb_nil : nb [] = 0 := rfl
theorem nb_append (a b : List Char) : nb (a ++ b) = nb a + nb b := by simp [nb]
theorem nb_cons_of_ne (c : Char) (cs : List Char) (h : c ≠ ' ') : nb (c :: cs) = 1 + nb cs := by
  simp [nb, h]; omega
theorem nb_cons_le (c : Char) (cs : List Char) : nb (c :: cs) ≤ 1 + nb cs := by
  by_cases h : c = ' '
  · subst h; simp [nb]
  · rw [nb_cons_of_ne c cs h]; exact Nat.le_refl _
theorem nb_le_length (cs : List Char) : nb cs ≤ cs.length := by
  unfold nb; exact List.length_filter_le _ _
theorem nb_replicate_blank (n : Nat) : nb (List.replicate n ' ') = 0 := by
  induction n with
  | zero => rfl
  | succ n ih => rw [List.replicate_succ]; simp [nb]

/-- tab expansion adds only blanks -/
theorem nb_expandTabs_le (cs : List Char) : ∀ col, nb (expandTabs cs col) ≤ cs.length := by
  induction cs with
  | nil => intro col; simp [expandTabs, nb]
  | cons c cs ih =>
    intro col
    by_cases hc : c = '\t'
    · subst hc
      simp only [expandTabs, nb_append, nb_replicate_blank, List.length_cons]
      have := ih 0; omega
    · rw [expandTabs]
      · have := ih (if (c == '\n' || c == '\r') = true then 0 else (col + 1) % 8)
        have h2 := nb_cons_le c (expandTabs cs (if (c == '\n' || c == '\r') = true then 0 else (col + 1) % 8))
        simp only [List.length_cons]; omega
      · exact hc

theorem nb_pos_of_head {c' rest : List Char} {ch : Char} {cs : List Char} (e : c' ++ rest = ch :: cs)
    (hlen : rest.length ≤ cs.length) (hch : ch ≠ ' ') : 1 ≤ nb c' := by
  cases c' with
  | nil =>
    simp only [List.nil_append] at e
    rw [e] at hlen; simp at hlen; omega
  | cons x xs =>
    simp only [List.cons_append, List.cons.injEq] at e
    rw [e.1, nb_cons_of_ne ch xs hch]; omega

/-! ### the elements of a pattern -/

theorem identChars_ne_blank : ∀ c, (pp_alphanums ++ ['_', '-']).contains c = true → c ≠ ' ' := by
  intro c hc e; subst e; revert hc; decide

/-- a `sense` token consumes at least one non-blank character and returns one token -/
theorem sense_size {skip : Bool} {inp rest : List Char} {ts : List Tree}
    (h : Yield pil_env skip pil_sense inp rest ts) : ∃ c s, inp = c ++ rest ∧ ts = [.tok s] ∧ 1 ≤ nb c := by
  unfold pil_sense at h
  obtain ⟨ts', f, hts, hc⟩ := h.combine_inv
  obtain ⟨ign, e1, _⟩ := preL_split skip inp
  obtain ⟨ma, ta, ra, _, ha, hra⟩ := hc.seq_inv.cons_inv
  obtain ⟨c', e'⟩ := hc.suffix
  obtain ⟨c2, e2⟩ := hra.suffix
  unfold pil_identifier at ha
  cases ha with
  | word _ _ _ _ ch cs hp hch =>
    have hp' : preL skip inp = ch :: cs := hp
    have hlen : rest.length ≤ cs.length := by
      have h1 : (cs.drop (cs.takeWhile (fun x => (pp_alphanums ++ ['_', '-']).contains x)).length).length ≤ cs.length := by
        simp
      have h2 := congrArg List.length e2
      simp only [List.length_append] at h2
      omega
    have hpos := nb_pos_of_head (c' := c') (rest := rest) (by rw [← e', hp']) hlen (identChars_ne_blank ch hch)
    refine ⟨ign ++ c', _, by rw [List.append_assoc, ← e']; exact e1, hts, ?_⟩
    rw [nb_append]; omega

/-- one element of a pattern; `ih` is the statement for the (shorter) inner patterns -/
theorem item_size (n : Nat)
    (ih : ∀ (inp : List Char), inp.length ≤ n → ∀ (skip : Bool) (rest : List Char) (ts : List Tree),
      Yield pil_env skip patternG inp rest ts → ∃ c, inp = c ++ rest ∧ tsizeL ts ≤ nb c)
    (skip : Bool) (inp rest : List Char) (ts : List Tree) (hlen : inp.length ≤ n + 1)
    (h : Yield pil_env skip (.alt [pil_loop, .lit ['+'], pil_sense]) inp rest ts) :
    ∃ c, inp = c ++ rest ∧ tsizeL ts ≤ nb c := by
  obtain ⟨g, hg, hs⟩ := h.alt_inv
  simp only [List.mem_cons, List.not_mem_nil, or_false] at hg
  rcases hg with rfl | rfl | rfl
  · unfold pil_loop at hs
    obtain ⟨m1, t1, r1, rfl, h1, hr1⟩ := hs.seq_inv.cons_inv
    obtain ⟨m2, t2, r2, rfl, h2, hr2⟩ := hr1.cons_inv
    obtain ⟨m3, t3, r3, rfl, h3, hr3⟩ := hr2.cons_inv
    obtain ⟨hm3, hr3e⟩ := hr3.nil_inv
    subst hm3; subst hr3e
    -- the head `name(`: one token
    obtain ⟨ts', f, ht1, hc1⟩ := h1.combine_inv
    obtain ⟨ign1, e1, _⟩ := preL_split skip inp
    obtain ⟨ma, ta, ra, _, ha, hra⟩ := hc1.seq_inv.cons_inv
    obtain ⟨mb, tb, rb, _, hb, hrb⟩ := hra.cons_inv
    obtain ⟨hmb, _⟩ := hrb.nil_inv
    subst hmb
    obtain ⟨cs, sn, es, _, ns⟩ := sense_size ha
    obtain ⟨_, tpar, hpar⟩ := hb.suppress_inv
    obtain ⟨ignp, ep, _, hip, _⟩ := hpar.lit_split
    rw [hip rfl] at ep
    simp only [List.nil_append, List.cons_append] at ep
    subst ep
    rw [es] at e1
    have hlen1 : m1.length ≤ n := by
      have : inp.length = ign1.length + (cs.length + (1 + m1.length)) := by rw [e1]; simp; omega
      omega
    -- the inner part: one group
    obtain ⟨inner, ht2, hin⟩ := h2.group_inv
    have hmid : ∃ c2, m1 = c2 ++ m2 ∧ tsizeL inner ≤ nb c2 := by
      rcases hin.opt_inv with ⟨hm, hi⟩ | hin
      · exact ⟨[], by rw [hm]; rfl, by rw [hi]; simp [tsizeL]⟩
      · unfold pil_innerloop at hin
        obtain ⟨g, hg, hs'⟩ := hin.alt_inv
        simp only [List.mem_cons, List.not_mem_nil, or_false] at hg
        rcases hg with rfl | rfl
        · obtain ⟨g', hg', hs''⟩ := hs'.ref_inv
          rw [pil_env_pattern] at hg'
          cases hg'
          exact ih m1 hlen1 skip m2 inner hs''
        · obtain ⟨hi, tw, hw⟩ := hs'.suppress_inv
          obtain ⟨cw, ew⟩ := hw.suffix
          exact ⟨cw, ew, by rw [hi]; simp [tsizeL]⟩
    obtain ⟨c2, e2, n2⟩ := hmid
    -- the closing parenthesis: no token
    obtain ⟨ht3, tcl, hcl⟩ := h3.suppress_inv
    obtain ⟨ign3, e3, _, _, _⟩ := hcl.lit_split
    refine ⟨(ign1 ++ cs) ++ '(' :: (c2 ++ (ign3 ++ [')'])), ?_, ?_⟩
    · rw [e1, e2, e3]; simp
    · rw [ht1, ht2, ht3]
      simp only [List.append_nil, List.cons_append, List.nil_append, tsizeL, tsizeT, nb_append]
      rw [nb_cons_of_ne '(' _ (by decide), nb_append, nb_append, nb_cons_of_ne ')' _ (by decide)]
      omega
  · obtain ⟨ign, e, _, _, hts⟩ := hs.lit_split
    refine ⟨ign ++ ['+'], by rw [e]; simp, ?_⟩
    rw [hts, nb_append, nb_cons_of_ne '+' _ (by decide)]
    simp only [tsizeL, tsizeT]; omega
  · obtain ⟨c, s, e, hts, hn⟩ := sense_size hs
    exact ⟨c, e, by rw [hts]; simpa [tsizeL, tsizeT] using hn⟩

theorem yieldMany_size {env : Env} (bound : Nat) : ∀ {skip : Bool} {g : G} {inp rest : List Char} {ts : List Tree},
    YieldMany env skip g inp rest ts →
    (∀ (inp rest : List Char) (ts : List Tree), inp.length ≤ bound → Yield env skip g inp rest ts →
      ∃ c, inp = c ++ rest ∧ tsizeL ts ≤ nb c) →
    inp.length ≤ bound → ∃ c, inp = c ++ rest ∧ tsizeL ts ≤ nb c
  | _, _, _, _, _, .nil _ _ inp, _, _ => ⟨[], rfl, by simp [tsizeL]⟩
  | _, _, _, _, _, .cons _ _ inp mid rest t1 t2 h1 h2, hitem, hlen => by
    obtain ⟨c1, e1, n1⟩ := hitem inp mid t1 hlen h1
    have hmid : mid.length ≤ bound := by
      have : inp.length = c1.length + mid.length := by rw [e1]; simp
      omega
    obtain ⟨c2, e2, n2⟩ := yieldMany_size bound h2 hitem hmid
    exact ⟨c1 ++ c2, by rw [e1, e2, List.append_assoc], by rw [tsizeL_append, nb_append]; omega⟩

theorem pattern_size_aux : ∀ (n : Nat) (inp : List Char), inp.length ≤ n → ∀ (skip : Bool) (rest : List Char)
    (ts : List Tree), Yield pil_env skip patternG inp rest ts → ∃ c, inp = c ++ rest ∧ tsizeL ts ≤ nb c := by
  intro n
  induction n with
  | zero =>
    intro inp hlen skip rest ts h
    exfalso
    have hnil : inp = [] := List.eq_nil_of_length_eq_zero (by omega)
    subst hnil
    -- a pattern consumes at least one character (its first element does)
    unfold patternG at h
    obtain ⟨mid, t1, t2, _, h1, _⟩ := h.many1_inv
    obtain ⟨g, hg, hs⟩ := h1.alt_inv
    simp only [List.mem_cons, List.not_mem_nil, or_false] at hg
    have hsense : ∀ {sk : Bool} {r : List Char} {t : List Tree}, Yield pil_env sk pil_sense [] r t → False := by
      intro sk r t hy
      obtain ⟨c, s, e, _, hn⟩ := sense_size hy
      have : c = [] := by
        cases c with
        | nil => rfl
        | cons x xs => simp at e
      rw [this] at hn; simp [nb] at hn
    rcases hg with rfl | rfl | rfl
    · unfold pil_loop at hs
      obtain ⟨m1, t1', r1, _, h1', _⟩ := hs.seq_inv.cons_inv
      obtain ⟨ts', f, _, hc⟩ := h1'.combine_inv
      have hp : preL skip [] = [] := by unfold preL; split <;> rfl
      rw [hp] at hc
      obtain ⟨ma, ta, ra, _, ha, _⟩ := hc.seq_inv.cons_inv
      exact hsense ha
    · obtain ⟨ign, e, _⟩ := hs.lit_split
      have := congrArg List.length e
      simp at this
    · exact hsense hs
  | succ n ih =>
    intro inp hlen skip rest ts h
    unfold patternG at h
    obtain ⟨mid, t1, t2, rfl, h1, h2⟩ := h.many1_inv
    obtain ⟨c1, e1, n1⟩ := item_size n ih skip inp mid t1 hlen h1
    have hmid : mid.length ≤ n + 1 := by
      have : inp.length = c1.length + mid.length := by rw [e1]; simp
      omega
    obtain ⟨c2, e2, n2⟩ := yieldMany_size (n + 1) h2
      (fun i r t hl hy => item_size n ih skip i r t hl hy) hmid
    exact ⟨c1 ++ c2, by rw [e1, e2, List.append_assoc], by rw [tsizeL_append, nb_append]; omega⟩

/-- **the forest a kernel pattern returns is no larger than the non-blank text it consumed** -/
theorem pattern_size {skip : Bool} {inp rest : List Char} {ts : List Tree}
    (h : Yield pil_env skip patternG inp rest ts) : ∃ c, inp = c ++ rest ∧ tsizeL ts ≤ nb c :=
  pattern_size_aux inp.length inp (Nat.le_refl _) skip rest ts h

/-- **a kernel statement**: its tree has the shape `[kernel-complex, name, pattern, …]`, and the pattern is
    smaller than the non-blank text of the statement (which also holds the name and the `=`) -/
theorem cplx_size {skip : Bool} {inp rest : List Char} {ts : List Tree}
    (h : Yield pil_env skip pil_cplx inp rest ts) :
    ∃ name pat more c, ts = [.grp (.tok "kernel-complex" :: .tok name :: .grp pat :: more)] ∧ inp = c ++ rest ∧
      tsizeL pat + 2 ≤ nb c := by
  unfold pil_cplx at h
  obtain ⟨t, hts, h1⟩ := h.group_inv
  cases h1 with
  | tag _ _ _ _ _ t' h2 =>
    obtain ⟨m1, t1, r1, ht', h1, hr1⟩ := h2.seq_inv.cons_inv
    obtain ⟨m2, t2, r2, hr1t, h2', hr2⟩ := hr1.cons_inv
    obtain ⟨m3, t3, r3, hr2t, h3, hr3⟩ := hr2.cons_inv
    -- the name
    unfold pil_identifier at h1
    obtain ⟨ign1, ch, mm, e1, _, _, hch, _, _, ht1⟩ := h1.word_split
    -- the sign
    obtain ⟨ht2, teq, heq⟩ := h2'.suppress_inv
    obtain ⟨ign2, e2, _, _, _⟩ := heq.lit_split
    -- the first pattern
    obtain ⟨ma, ta, tb, ht3, ha, hb⟩ := h3.many1_inv
    obtain ⟨pat, hta, hpat⟩ := ha.group_inv
    obtain ⟨g, hg, hs⟩ := hpat.ref_inv
    rw [pil_env_pattern] at hg
    cases hg
    obtain ⟨c3, e3, n3⟩ := pattern_size hs
    obtain ⟨c4, e4⟩ := hb.suffix
    obtain ⟨c5, e5⟩ := hr3.suffix
    refine ⟨String.ofList (ch :: mm), pat, tb ++ r3, (ign1 ++ (ch :: mm)) ++ ((ign2 ++ ['=']) ++ (c3 ++ (c4 ++ c5))), ?_, ?_, ?_⟩
    · rw [hts, ht', hr1t, hr2t, ht1, ht2, ht3, hta]; simp
    · rw [e1, e2, e3, e4, e5]; simp
    · simp only [nb_append]
      rw [nb_cons_of_ne ch mm (identChars_ne_blank ch hch), nb_cons_of_ne '=' [] (by decide)]
      omega

/-! ### the kernel lines of an accepted document -/

/-- every `kernel-complex` line of the result was returned by a run of the kernel statement on a suffix of the
    text -/
theorem kernel_line_source {inp rest : List Char} {ts : List Tree} (h : Yield pil_env true pil_document inp rest ts)
    (line : Tree) (hl : line ∈ ts) (l : List Tree) (hk : line = .grp (.tok "kernel-complex" :: l)) :
    ∃ pre i r t, inp = pre ++ i ∧ Yield pil_env true pil_cplx i r t ∧ line ∈ t := by
  unfold pil_document at h
  obtain ⟨m1, t1, r1, rfl, h1, hr1⟩ := h.seq_inv.cons_inv
  obtain ⟨m2, t2, r2, rfl, h2, hr2⟩ := hr1.cons_inv
  obtain ⟨m3, t3, r3, rfl, h3, hr3⟩ := hr2.cons_inv
  obtain ⟨m4, t4, r4, rfl, h4, hr4⟩ := hr3.cons_inv
  obtain ⟨_, hr4e⟩ := hr4.nil_inv
  have ht1 : t1 = [] := by cases h1; rfl
  have ht2 : t2 = [] := shapeMany_suppress _ _ h2.shape.many_inv
  have ht4 : t4 = [] := by cases h4; rfl
  rw [ht1, ht2, ht4, hr4e] at hl
  simp only [List.nil_append, List.append_nil] at hl
  obtain ⟨c1, e1⟩ := h1.suffix
  obtain ⟨c2, e2⟩ := h2.suffix
  have e12 : inp = (c1 ++ c2) ++ m2 := by rw [e1, e2, List.append_assoc]
  have hstmt : ∃ pre i r t, m2 = pre ++ i ∧ Yield pil_env true pil_stmt i r t ∧ line ∈ t := by
    obtain ⟨mid, ta, tb, rfl, ha, hb⟩ := h3.many1_inv
    rcases List.mem_append.mp hl with hl | hl
    · exact ⟨[], m2, mid, ta, rfl, ha, hl⟩
    · obtain ⟨c, e⟩ := ha.suffix
      obtain ⟨pre, i, r, t, e', hy, hlt⟩ := hb.elem line hl
      exact ⟨c ++ pre, i, r, t, by rw [e, e', List.append_assoc], hy, hlt⟩
  obtain ⟨pre, i, r, t, ei, hy, hlt⟩ := hstmt
  exact ⟨(c1 ++ c2) ++ pre, i, r, t, by rw [e12, ei]; simp, stmt_kernel_is_cplx hy line hlt l hk, hlt⟩

/-- **the kernel patterns of an accepted text are smaller than the text**: `treeSize` of the pattern of every
    `kernel-complex` line is less than the number of characters of the text (tabs count as one character) -/
theorem kernel_pattern_lt_text (text : String) (lines : List Tree) (h : parseDoc pil_env pil_grammar text = some lines)
    (name : String) (pat rest : List Tree)
    (hm : .grp (.tok "kernel-complex" :: .tok name :: .grp pat :: rest) ∈ lines) (f : Nat) :
    treeSize f pat < text.toList.length := by
  obtain ⟨rst, hy⟩ := parseDoc_yield pil_env pil_grammar text lines h
  obtain ⟨pre, i, r, t, e, hc, hlt⟩ := kernel_line_source hy _ hm _ rfl
  obtain ⟨name', pat', more, c, hts, ec, hn⟩ := cplx_size hc
  rw [hts] at hlt
  simp only [List.mem_cons, List.not_mem_nil, or_false, Tree.grp.injEq, List.cons.injEq, Tree.tok.injEq] at hlt
  obtain ⟨_, _, hpat, _⟩ := hlt
  subst hpat
  have h1 := treeSize_le f pat
  have h2 : nb c ≤ nb (expandTabs text.toList 0) := by
    rw [e, ec, nb_append, nb_append]; omega
  have h3 := nb_expandTabs_le text.toList 0
  omega

end Dsd.PP
