/-
The small members of `DomainS` as translated from the source (Gen/PyMembers.lean): what each returns, on every object.
-/
import DsdVerif.Gen.PyMembers
import DsdVerif.Model.Objects

set_option linter.unusedSimpArgs false
set_option linter.unusedVariables false

namespace Dsd.PyMembersL
open Dsd Gen

section exec
variable {σ α β : Type}
theorem exec_pure (a : α) (s : σ) : (pure a : Py.MS σ α).exec s = (.ok a, s) := rfl
theorem exec_bind (m : Py.MS σ α) (f : α → Py.MS σ β) (s : σ) :
    (m >>= f).exec s = match m.exec s with
      | (.ok a, s') => (f a).exec s'
      | (.error e, s') => (.error e, s') := by
  simp only [Py.MS.exec, ExceptT.run, bind, ExceptT.bind, ExceptT.mk, StateT.bind, StateT.run]
  cases h : m s with
  | mk r s' => cases r <;> rfl
theorem exec_get (s : σ) : (get : Py.MS σ σ).exec s = (.ok s, s) := rfl
theorem exec_lift (x : Except Err α) (s : σ) : (liftM x : Py.MS σ α).exec s = (x, s) := by cases x <;> rfl
theorem exec_monadLift (x : Except Err α) (s : σ) : (monadLift x : Py.MS σ α).exec s = (x, s) := by cases x <;> rfl
theorem exec_ite (c : Prop) [Decidable c] (a b : Py.MS σ α) (s : σ) :
    (if c then a else b).exec s = if c then a.exec s else b.exec s := by split <;> rfl
end exec

theorem exec_name (s : DomainSM.Self) : py_DomainSM_name.exec s = (.ok s._name, s) := rfl
theorem exec_length (s : DomainSM.Self) : py_DomainSM_length.exec s = (.ok s._length, s) := rfl
theorem exec_len (s : DomainSM.Self) : py_DomainSM_len.exec s = (.ok s._length, s) := rfl

theorem exec_truth (s : DomainSM.Self) : py_DomainSM_truth.exec s = (.ok (decide (s._length ≠ 0)), s) := rfl

theorem exec_dtype (cutoff : Nat) (s : DomainSM.Self) :
    (py_DomainSM_dtype cutoff).exec s = (.ok (if s._length ≤ cutoff then "short" else "long"), s) := by
  unfold py_DomainSM_dtype
  simp only [exec_bind, exec_length, exec_pure]
  by_cases h : s._length ≤ cutoff <;> simp [h] <;> rfl

/-- `name[-1] == '*'`: IndexError for the empty name, else whether the last character is a star -/
theorem exec_is_complement (s : DomainSM.Self) :
    py_DomainSM_is_complement.exec s =
      (match s._name.toList.getLast? with
       | none => .error (.fault "IndexError")
       | some c => .ok (c == '*'), s) := by
  unfold py_DomainSM_is_complement
  simp only [exec_bind, exec_name, exec_lift, exec_monadLift, Py.strLast]
  cases s._name.toList.getLast? <;> rfl

theorem isStarred_of_last (n : String) (c : Char) (h : n.toList.getLast? = some c) : isStarred n = (c == '*') := by
  unfold isStarred; rw [h]
  by_cases hc : c = '*'
  · subst hc; rfl
  · have : (c == '*') = false := by simpa using hc
    rw [this]; simpa using hc

/-- `cname` as written is the model's `cnameOf` (IndexError for the empty name) -/
theorem exec_cname (s : DomainSM.Self) :
    py_DomainSM_cname.exec s =
      (match s._name.toList.getLast? with
       | none => .error (.fault "IndexError")
       | some _ => .ok (cnameOf s._name), s) := by
  unfold py_DomainSM_cname
  simp only [exec_bind, exec_is_complement]
  cases h : s._name.toList.getLast? with
  | none => rfl
  | some c =>
    simp only [exec_ite, exec_bind, exec_name, exec_pure, cnameOf, isStarred_of_last _ c h, Py.strDropLast]
    by_cases hc : (c == '*') = true <;> simp [hc] <;> rfl

theorem exec_complement (request : String → Nat → Py.M Nat) (s : DomainSM.Self) :
    (py_DomainSM_complement request).exec s =
      (match s._name.toList.getLast? with
       | none => .error (.fault "IndexError")
       | some _ => request (cnameOf s._name) s._length, s) := by
  unfold py_DomainSM_complement
  simp only [exec_bind, exec_cname]
  cases h : s._name.toList.getLast? with
  | none => rfl
  | some c =>
    simp only [exec_length, exec_lift, exec_monadLift, exec_pure]

theorem exec_invert (request : String → Nat → Py.M Nat) (s : DomainSM.Self) :
    (py_DomainSM_invert request).exec s = (py_DomainSM_complement request).exec s := by
  unfold py_DomainSM_invert
  simp only [exec_bind, exec_pure]

end Dsd.PyMembersL
