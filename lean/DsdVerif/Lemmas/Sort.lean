/-
`sortBy` (Model/Objects.lean) is an insertion sort: permutation, sortedness, uniqueness of the sorted
permutation, commutation with the key projection.
-/
import DsdVerif.Model.Objects

namespace Dsd.SortL
open Dsd

theorem insertSorted_perm {α} (le : α → α → Bool) (x : α) (l : List α) : (insertSorted le x l).Perm (x :: l) := by
  induction l with
  | nil => exact List.Perm.refl _
  | cons y ys ih =>
    simp only [insertSorted]
    split
    · exact List.Perm.refl _
    · exact (List.Perm.cons y ih).trans (List.Perm.swap x y ys)

theorem sortBy_nil {α} (lt : α → α → Bool) : sortBy lt [] = [] := rfl
theorem sortBy_cons {α} (lt : α → α → Bool) (x : α) (xs : List α) :
    sortBy lt (x :: xs) = insertSorted (fun a b => !lt b a) x (sortBy lt xs) := rfl

theorem sortBy_perm {α} (lt : α → α → Bool) (xs : List α) : (sortBy lt xs).Perm xs := by
  induction xs with
  | nil => exact List.Perm.refl _
  | cons x xs ih =>
    rw [sortBy_cons]
    exact (insertSorted_perm _ x _).trans (List.Perm.cons x ih)

theorem sortBy_length {α} (lt : α → α → Bool) (xs : List α) : (sortBy lt xs).length = xs.length :=
  (sortBy_perm lt xs).length_eq

theorem insertSorted_sorted {α} (lt : α → α → Bool) (hirr : ∀ a, lt a a = false)
    (htr : ∀ a b c, lt a b = true → lt b c = true → lt a c = true)
    (hneg : ∀ a b c, lt a b = false → lt b c = false → lt a c = false) (x : α) (l : List α)
    (hl : l.Pairwise (fun a b => lt b a = false)) :
    (insertSorted (fun a b => !lt b a) x l).Pairwise (fun a b => lt b a = false) := by
  induction l with
  | nil => simp [insertSorted]
  | cons y ys ih =>
    rw [List.pairwise_cons] at hl
    simp only [insertSorted]
    by_cases hyx : lt y x = true
    · simp only [hyx, Bool.not_true, Bool.false_eq_true, if_false]
      rw [List.pairwise_cons]
      refine ⟨?_, ih hl.2⟩
      intro z hz
      have hz' := (insertSorted_perm (fun a b => !lt b a) x ys).subset hz
      rcases List.mem_cons.mp hz' with rfl | hz'
      · cases hxy : lt z y with
        | false => rfl
        | true =>
          have := htr _ _ _ hyx hxy
          rw [hirr] at this; cases this
      · exact hl.1 z hz'
    · have hyx' : lt y x = false := by simpa using hyx
      simp only [hyx', Bool.not_false, if_true]
      rw [List.pairwise_cons]
      refine ⟨?_, List.pairwise_cons.mpr hl⟩
      intro z hz
      rcases List.mem_cons.mp hz with rfl | hz
      · exact hyx'
      · exact hneg _ _ _ (hl.1 z hz) hyx'

theorem sortBy_sorted {α} (lt : α → α → Bool) (hirr : ∀ a, lt a a = false)
    (htr : ∀ a b c, lt a b = true → lt b c = true → lt a c = true)
    (hneg : ∀ a b c, lt a b = false → lt b c = false → lt a c = false) (xs : List α) :
    (sortBy lt xs).Pairwise (fun a b => lt b a = false) := by
  induction xs with
  | nil => exact List.Pairwise.nil
  | cons x xs ih =>
    rw [sortBy_cons]
    exact insertSorted_sorted lt hirr htr hneg x _ ih

/-- a strict total order is negatively transitive -/
theorem neg_trans {κ} (lt : κ → κ → Bool) (hirr : ∀ a, lt a a = false)
    (htr : ∀ a b c, lt a b = true → lt b c = true → lt a c = true)
    (htot : ∀ a b, a = b ∨ lt a b = true ∨ lt b a = true) :
    ∀ a b c, lt a b = false → lt b c = false → lt a c = false := by
  intro a b c h1 h2
  cases hac : lt a c with
  | false => rfl
  | true =>
    rcases htot a b with h | h | h
    · subst h; rw [hac] at h2; cases h2
    · rw [h] at h1; cases h1
    · rcases htot b c with h' | h' | h'
      · subst h'; rw [hac] at h1; cases h1
      · rw [h'] at h2; cases h2
      · have h3 := htr _ _ _ (htr _ _ _ h' h) hac
        rw [hirr] at h3; cases h3

/-- sorting commutes with the key projection -/
theorem insertSorted_map {α κ} (key : α → κ) (le : κ → κ → Bool) (x : α) (l : List α) :
    (insertSorted (fun a b => le (key a) (key b)) x l).map key = insertSorted le (key x) (l.map key) := by
  induction l with
  | nil => rfl
  | cons y ys ih =>
    simp only [insertSorted, List.map_cons]
    split
    · rfl
    · rw [List.map_cons, ih]

theorem sortBy_map {α κ} (key : α → κ) (lt : κ → κ → Bool) (xs : List α) :
    (sortBy (fun a b => lt (key a) (key b)) xs).map key = sortBy lt (xs.map key) := by
  induction xs with
  | nil => rfl
  | cons x xs ih =>
    rw [List.map_cons, sortBy_cons, sortBy_cons, ← ih]
    exact insertSorted_map key (fun a b => !lt b a) x _

/-- permutations of a population in which only equal elements tie sort to the same list -/
theorem sortBy_perm_invariant {α κ} (key : α → κ) (lt : κ → κ → Bool) (hirr : ∀ a, lt a a = false)
    (htr : ∀ a b c, lt a b = true → lt b c = true → lt a c = true)
    (htot : ∀ a b, a = b ∨ lt a b = true ∨ lt b a = true)
    (xs ys : List α) (hp : xs.Perm ys) (hinj : ∀ a ∈ xs, ∀ b ∈ xs, key a = key b → a = b) :
    sortBy (fun a b => lt (key a) (key b)) xs = sortBy (fun a b => lt (key a) (key b)) ys := by
  have hneg := neg_trans lt hirr htr htot
  have s1 := sortBy_sorted (fun a b => lt (key a) (key b)) (fun a => hirr _) (fun a b c => htr _ _ _)
    (fun a b c => hneg _ _ _) xs
  have s2 := sortBy_sorted (fun a b => lt (key a) (key b)) (fun a => hirr _) (fun a b c => htr _ _ _)
    (fun a b c => hneg _ _ _) ys
  have p1 := sortBy_perm (fun a b => lt (key a) (key b)) xs
  have p2 := sortBy_perm (fun a b => lt (key a) (key b)) ys
  refine List.Perm.eq_of_pairwise ?_ s1 s2 (p1.trans (hp.trans p2.symm))
  intro a b ha hb h1 h2
  have ha' : a ∈ xs := p1.subset ha
  have hb' : b ∈ xs := hp.symm.subset (p2.subset hb)
  apply hinj a ha' b hb'
  rcases htot (key a) (key b) with h | h | h
  · exact h
  · rw [h] at h2; cases h2
  · rw [h] at h1; cases h1

/-- sorting keys: any two permutations sort to the same list -/
theorem sortBy_keys_perm {κ} (lt : κ → κ → Bool) (hirr : ∀ a, lt a a = false)
    (htr : ∀ a b c, lt a b = true → lt b c = true → lt a c = true)
    (htot : ∀ a b, a = b ∨ lt a b = true ∨ lt b a = true)
    (xs ys : List κ) (hp : xs.Perm ys) : sortBy lt xs = sortBy lt ys :=
  sortBy_perm_invariant (fun k => k) lt hirr htr htot xs ys hp (fun _ _ _ _ h => h)

end Dsd.SortL
