/-
Fuel monotonicity of the pyparsing interpreter holds on the choice-free fragment only: `opt`, `alt`, `many`,
`many1` turn a failure of a sub-parser into a success, and running out of fuel is reported as a failure, so a
result obtained with little fuel can change when more fuel is supplied (`Combine` is excluded because it flattens
its tokens with a fuel-bounded traversal, `ref` because it leaves the term).
-/
import DsdVerif.Model.Pyparsing

namespace Dsd.PP

/-- grammar terms without choice points -/
inductive ChoiceFree : G → Prop
  | lit (s) : ChoiceFree (.lit s)
  | kw (s i) : ChoiceFree (.kw s i)
  | word (i b) : ChoiceFree (.word i b)
  | white : ChoiceFree .white
  | lineEnd : ChoiceFree .lineEnd
  | stringStart : ChoiceFree .stringStart
  | stringEnd : ChoiceFree .stringEnd
  | seq (gs) : (∀ g ∈ gs, ChoiceFree g) → ChoiceFree (.seq gs)
  | group (g) : ChoiceFree g → ChoiceFree (.group g)
  | suppress (g) : ChoiceFree g → ChoiceFree (.suppress g)
  | tag (t g) : ChoiceFree g → ChoiceFree (.tag t g)

theorem mono_aux (env : Env) : ∀ fuel,
    (∀ ctx g p r k, ChoiceFree g → run env fuel ctx g p = some r → run env (fuel + k) ctx g p = some r) ∧
    (∀ ctx gs p r k, (∀ g ∈ gs, ChoiceFree g) → runSeq env fuel ctx gs p = some r →
      runSeq env (fuel + k) ctx gs p = some r) := by
  intro fuel
  induction fuel with
  | zero =>
    constructor
    · intro ctx g p r k _ h; simp [run] at h
    · intro ctx gs p r k _ h; simp [runSeq] at h
  | succ f ih =>
    obtain ⟨ih1, ih2⟩ := ih
    constructor
    · intro ctx g p r k hg h
      rw [show f + 1 + k = (f + k) + 1 by omega]
      cases hg with
      | lit s => simpa only [run] using h
      | kw s i => simpa only [run] using h
      | word i b => simpa only [run] using h
      | white => simpa only [run] using h
      | lineEnd => simpa only [run] using h
      | stringStart => simpa only [run] using h
      | stringEnd => simpa only [run] using h
      | seq gs hgs =>
        simp only [run] at h ⊢
        exact ih2 ctx gs p r k hgs h
      | group g hg =>
        simp only [run] at h ⊢
        cases hr : run env f ctx g p with
        | none => rw [hr] at h; simp at h
        | some r1 => rw [hr] at h; rw [ih1 ctx g p r1 k hg hr]; exact h
      | suppress g hg =>
        simp only [run] at h ⊢
        cases hr : run env f ctx g p with
        | none => rw [hr] at h; simp at h
        | some r1 => rw [hr] at h; rw [ih1 ctx g p r1 k hg hr]; exact h
      | tag t g hg =>
        simp only [run] at h ⊢
        cases hr : run env f ctx g p with
        | none => rw [hr] at h; simp at h
        | some r1 => rw [hr] at h; rw [ih1 ctx g p r1 k hg hr]; exact h
    · intro ctx gs p r k hgs h
      rw [show f + 1 + k = (f + k) + 1 by omega]
      cases gs with
      | nil => simpa only [runSeq] using h
      | cons g gs =>
        simp only [runSeq] at h ⊢
        cases hr : run env f ctx g p with
        | none => rw [hr] at h; simp at h
        | some r1 =>
          rw [hr] at h
          rw [ih1 ctx g p r1 k (hgs g List.mem_cons_self) hr]
          obtain ⟨p1, t1⟩ := r1
          simp only at h ⊢
          cases hr2 : runSeq env f ctx gs p1 with
          | none => rw [hr2] at h; simp at h
          | some r2 =>
            rw [hr2] at h
            rw [ih2 ctx gs p1 r2 k (fun g hg => hgs g (List.mem_cons_of_mem _ hg)) hr2]
            exact h

theorem run_fuel_mono_choiceFree (env : Env) (fuel k : Nat) (ctx : Ctx) (g : G) (p : Pos) (r : Pos × List Tree)
    (hg : ChoiceFree g) (h : run env fuel ctx g p = some r) : run env (fuel + k) ctx g p = some r :=
  (mono_aux env fuel).1 ctx g p r k hg h

end Dsd.PP
