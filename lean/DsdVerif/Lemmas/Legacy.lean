/-
The legacy `DSD_Complex.canonical_form` (C20): same minimum, and the meaning of `_rotations`.
-/
import DsdVerif.Model.Legacy
import DsdVerif.Lemmas.CanonIds

namespace Dsd.Rot
open Dsd.Bracket

/-- the legacy variants of a well-formed description are `r¹x, …, rᵏx` -/
theorem legacyVariants_spec (k : Nat) :
    ∀ (s : List String) (t : List Char), Descr' s t →
      ∃ vs, legacyVariants k s t = .ok vs ∧ vs.length = k ∧
        ∀ i, i < k → ∃ z, vs[i]? = some z ∧ rotateN (i + 1) s t = .ok z := by
  induction k with
  | zero => intro s t _; exact ⟨[], rfl, rfl, fun i hi => by omega⟩
  | succ k ih =>
    intro s t hd
    obtain ⟨nx, hrot, hdn, _⟩ := descr_rotateOnce s t hd
    obtain ⟨vs, hvs, hlen, hget⟩ := ih nx.1 nx.2 hdn
    refine ⟨nx :: vs, ?_, by simp [hlen], ?_⟩
    · simp only [legacyVariants, hrot, hvs]; rfl
    · intro i hi
      cases i with
      | zero => exact ⟨nx, rfl, by rw [rotateN_succ, hrot]; rfl⟩
      | succ i =>
        obtain ⟨z, hz1, hz2⟩ := hget i (by omega)
        refine ⟨z, by simpa using hz1, ?_⟩
        rw [rotateN_succ, hrot]; exact hz2

/-- the legacy canonical form: the minimum of the orbit, reached from the description by `e` rotations,
    `1 ≤ e ≤ n`, and `_rotations = n − e` -/
theorem legacyCanon_spec (seq : List String) (sst : List Char) (hd : Descr' seq sst) :
    ∃ c e, legacyCanon seq sst = .ok (c, nStr seq - e) ∧ 1 ≤ e ∧ e ≤ nStr seq ∧
      rotateN e seq sst = .ok c ∧ c ∈ orb (nStr seq) seq sst ∧
      ∀ x ∈ orb (nStr seq) seq sst, ckeyLt x c = false := by
  obtain ⟨vs, hvs, hlen, hget⟩ := legacyVariants_spec (nStr seq) seq sst hd
  have hpos := nStr_pos seq hd.nonempty
  -- same elements as the orbit
  have hset : ∀ z, z ∈ vs ↔ z ∈ orb (nStr seq) seq sst := by
    intro z
    rw [mem_orb_any seq sst hd]
    constructor
    · intro hz
      obtain ⟨i, hi⟩ := List.mem_iff_getElem?.mp hz
      have hil : i < nStr seq := by have := (List.getElem?_eq_some_iff.mp hi).1; omega
      obtain ⟨z', h1, h2⟩ := hget i hil
      rw [hi] at h1; cases h1
      exact ⟨i + 1, h2⟩
    · rintro ⟨k, hk⟩
      -- reduce the exponent into 1 … n
      have hk' : rotateN (k % nStr seq) seq sst = .ok z := by rw [← rotateN_mod k seq sst hd]; exact hk
      by_cases h0 : k % nStr seq = 0
      · rw [h0] at hk'
        have hp := descr_period seq sst hd
        obtain ⟨z', h1, h2⟩ := hget (nStr seq - 1) (by omega)
        have e : nStr seq - 1 + 1 = nStr seq := by omega
        rw [e, hp] at h2
        have hz0 : z = (seq, sst) := by
          simp only [rotateN, Except.ok.injEq] at hk'; exact hk'.symm
        cases h2
        rw [hz0]
        exact List.mem_iff_getElem?.mpr ⟨_, h1⟩
      · have hlt := Nat.mod_lt k hpos
        obtain ⟨z', h1, h2⟩ := hget (k % nStr seq - 1) (by omega)
        have e : k % nStr seq - 1 + 1 = k % nStr seq := by omega
        rw [e, hk'] at h2
        cases h2
        exact List.mem_iff_getElem?.mpr ⟨_, h1⟩
  have hne : vs ≠ [] := by
    intro e; rw [e] at hlen; simp at hlen; omega
  obtain ⟨c, hc⟩ := Ord.minKey_isSome vs hne
  obtain ⟨m1, m2⟩ := Ord.minKey_spec vs c hc
  have hidx : vs.idxOf c < vs.length := List.idxOf_lt_length_iff.mpr m1
  have hgetc : vs[vs.idxOf c]? = some c := by
    rw [List.getElem?_eq_getElem hidx, List.getElem_idxOf hidx]
  obtain ⟨z', h1, h2⟩ := hget (vs.idxOf c) (by omega)
  rw [hgetc] at h1; cases h1
  refine ⟨c, vs.idxOf c + 1, ?_, by omega, by omega, h2, (hset c).mp m1, ?_⟩
  · unfold legacyCanon
    have hn : (makeStrandTableList "+" seq).length = nStr seq := rfl
    simp only [hn, hvs, hc, firstIdx1]
    have hle : ¬ (vs.idxOf c + 1 ≥ nStr seq ∧ vs.idxOf c + 1 ≠ nStr seq) := by omega
    by_cases he : vs.idxOf c + 1 ≥ nStr seq
    · rw [if_pos he]
      have : vs.idxOf c + 1 = nStr seq := by omega
      rw [this]
    · rw [if_neg he]
  · intro x hx
    exact m2 x ((hset x).mpr hx)

/-- rotating the legacy canonical form by `_rotations` strands gives back the description -/
theorem legacy_rot_back (seq : List String) (sst : List Char) (hd : Descr' seq sst) (c : CKey) (e : Nat)
    (h1 : 1 ≤ e) (h2 : e ≤ nStr seq) (hc : rotateN e seq sst = .ok c) :
    rotateN ((nStr seq - e) % nStr seq) c.1 c.2 = .ok (seq, sst) := by
  rw [Nat.mod_eq_of_lt (by omega)]
  have := rotateN_add e (nStr seq - e) seq sst
  rw [hc] at this
  have e' : e + (nStr seq - e) = nStr seq := by omega
  rw [e', descr_period seq sst hd] at this
  exact this.symm

end Dsd.Rot
