/-
Object-level analysis of `split()` (C09): the registry invariant for complexes, the outcome of the unnamed
request `split()` makes for a component, and the world invariant `CplxStateOK`.
-/
import DsdVerif.Model.World
import DsdVerif.Props.C01Reg
import DsdVerif.Props.C02Canon
import DsdVerif.Props.C03Views
import DsdVerif.Props.C05World
import DsdVerif.Props.C09Split
import DsdVerif.Lemmas.Breaks
import DsdVerif.Lemmas.ReaderWF
import DsdVerif.Lemmas.World

namespace Dsd.SplitObj
open Dsd Dsd.Bracket

/-! ### the pure canonical form -/

/-- the canonical form of a description as `ComplexS.identifiers` computes it with nothing registered -/
theorem pure_ids (seq : List String) (sst : List Char) (hd : C02.Descr seq sst) :
    ∃ ids, complexIdentifiers {} seq sst = .ok ids ∧
      minKey (C02.orbit (C02.nStrands seq) seq sst) = some ids.canon := by
  have hd' := (C02.descr_iff _ _).mp hd
  rcases Rot.ids_cases {} seq sst hd' with ⟨ids0, _, _, hsome⟩ | ⟨_, c, hc, hci⟩
  · exact absurd hsome (by simp [Reg.findCanon])
  · exact ⟨_, hci, hc⟩

/-- two well-formed descriptions with a common rotation have the same orbit -/
theorem same_orbit (a b : CKey) (ha : Rot.Descr' a.1 a.2) (hb : Rot.Descr' b.1 b.2) (k : CKey)
    (hka : k ∈ Rot.orb (Rot.nStr a.1) a.1 a.2) (hkb : k ∈ Rot.orb (Rot.nStr b.1) b.1 b.2) :
    ∀ z, z ∈ Rot.orb (Rot.nStr a.1) a.1 a.2 ↔ z ∈ Rot.orb (Rot.nStr b.1) b.1 b.2 := by
  obtain ⟨i, _, hi⟩ := (Rot.mem_orb _ _ _ _).mp hka
  obtain ⟨j, _, hj⟩ := (Rot.mem_orb _ _ _ _).mp hkb
  obtain ⟨_, hy1, _, hn1⟩ := Rot.descr_rotateN i a.1 a.2 ha
  rw [hi] at hy1; cases hy1
  obtain ⟨_, hy2, _, hn2⟩ := Rot.descr_rotateN j b.1 b.2 hb
  rw [hj] at hy2; cases hy2
  intro z
  rw [← Rot.orb_rotateN i a.1 a.2 ha k hi z, ← Rot.orb_rotateN j b.1 b.2 hb k hj z, ← hn1, ← hn2]

/-! ### the registry invariant for a complex class -/

/-- canonical forms are minimal rotations -/
def CanonMin (r : Reg CKey) : Prop :=
  ∀ o ∈ r.objs, ∀ k ∈ C02.orbit (C02.nStrands o.canon.1) o.canon.1 o.canon.2, ckeyLt k o.canon = false

structure RegOK (r : Reg CKey) : Prop where
  wf : C01.WF r
  orb : C02.KeysAreOrbit r
  min : CanonMin r

theorem RegOK.autoId {r : Reg CKey} (h : RegOK r) (n : Nat) : RegOK { r with autoId := n } :=
  ⟨⟨h.wf.names, h.wf.ids, h.wf.keys, h.wf.canon⟩, h.orb, h.min⟩

theorem regOK_of_objs {r r' : Reg CKey} (h : RegOK r) (e : r'.objs = r.objs) : RegOK r' := by
  refine ⟨⟨?_, ?_, ?_, ?_⟩, ?_, ?_⟩
  · rw [e]; exact h.wf.names
  · rw [e]; exact h.wf.ids
  · rw [e]; exact h.wf.keys
  · rw [e]; exact h.wf.canon
  · intro o ho; rw [e] at ho; exact h.orb o ho
  · intro o ho; rw [e] at ho; exact h.min o ho

/-- an object registered under a rotation of the description has the description's canonical form -/
theorem canon_of_hit (r : Reg CKey) (h : RegOK r) (seq : List String) (sst : List Char) (hd : C02.Descr seq sst)
    (ids0 : CplxIds) (h0 : minKey (C02.orbit (C02.nStrands seq) seq sst) = some ids0.canon)
    (ob : Obj CKey) (ho : ob ∈ r.objs) (k : CKey) (hk : k ∈ C02.orbit (C02.nStrands seq) seq sst)
    (hkk : k ∈ ob.keys) : ob.canon = ids0.canon := by
  have hd' := (C02.descr_iff _ _).mp hd
  obtain ⟨hdo, hkeys⟩ := h.orb ob ho
  have hdo' := (C02.descr_iff _ _).mp hdo
  have hk2 := (hkeys k).mp hkk
  rw [C02.orbit_eq, C02.nStrands_eq] at hk hk2 h0
  have hset := same_orbit ob.canon (seq, sst) hdo' hd' k hk2 hk
  obtain ⟨m1, m2⟩ := Ord.minKey_spec _ _ h0
  have hmin := h.min ob ho
  rw [C02.orbit_eq, C02.nStrands_eq] at hmin
  exact Ord.min_unique ckeyLt Ord.ckeyLt_sto _ _ _ _ hset ⟨Rot.self_mem_orb _ _ hdo', hmin⟩ ⟨m1, m2⟩


/-! ### the four outcomes of `Singleton.__call__` with both identifiers -/

theorem call_hit_free (r : Reg CKey) (k : CKey) (nm : String) (fresh : Nat) (keys : List CKey) (auto : Bool)
    (ob : Obj CKey) (hob : r.findCanon k = some ob) (hn : r.findName nm = none) :
    r.call (some k) (some nm) fresh keys auto = (r, .singletonErr (some ob.id)) := by
  simp [Reg.call, Reg.decide, hn, hob]

theorem call_hit_own (r : Reg CKey) (k : CKey) (nm : String) (fresh : Nat) (keys : List CKey) (auto : Bool)
    (ob : Obj CKey) (hob : r.findCanon k = some ob) (hn : r.findName nm = some ob) :
    r.call (some k) (some nm) fresh keys auto = (r, .ret ob.id false) := by
  simp [Reg.call, Reg.decide, hn, hob]

theorem call_hit_other (r : Reg CKey) (k : CKey) (nm : String) (fresh : Nat) (keys : List CKey) (auto : Bool)
    (ob on : Obj CKey) (hob : r.findCanon k = some ob) (hn : r.findName nm = some on) (hid : on.id ≠ ob.id) :
    r.call (some k) (some nm) fresh keys auto = (r, .singletonErr none) := by
  simp [Reg.call, Reg.decide, hn, hob, hid]

theorem call_create (r : Reg CKey) (k : CKey) (nm : String) (fresh : Nat) (keys : List CKey) (auto : Bool)
    (hfc : r.findCanon k = none) (hn : r.findName nm = none) :
    r.call (some k) (some nm) fresh keys auto =
      (r.register { id := fresh, name := nm, canon := k, keys := keys } auto, .ret fresh true) := by
  simp [Reg.call, Reg.decide, hn, hfc]

theorem call_taken (r : Reg CKey) (k : CKey) (nm : String) (fresh : Nat) (keys : List CKey) (auto : Bool)
    (on : Obj CKey) (hfc : r.findCanon k = none) (hn : r.findName nm = some on) :
    r.call (some k) (some nm) fresh keys auto = (r, .singletonErr none) := by
  simp [Reg.call, Reg.decide, hn, hfc]

/-- the outcome of the unnamed request for a well-formed description -/
inductive ReqOut (pfx : String) (r : Reg CKey) (fresh : Nat) (seq : List String) (sst : List Char) (canon : CKey) :
    Reg CKey × Out × Option CplxIds → Prop
  /-- a live object of this rotation class, the automatic name is free: refused with `existing` -/
  | hitFree (ob : Obj CKey) (ids : CplxIds) : ob ∈ r.objs → ob.canon = canon →
      r.findName (pfx ++ toString r.autoId) = none →
      ReqOut pfx r fresh seq sst canon (r, .singletonErr (some ob.id), some ids)
  /-- … the automatic name is that object's name: returned -/
  | hitOwn (ob : Obj CKey) (ids : CplxIds) : ob ∈ r.objs → ob.canon = canon →
      r.findName (pfx ++ toString r.autoId) = some ob →
      ReqOut pfx r fresh seq sst canon (r, .ret ob.id false, some ids)
  /-- … the automatic name belongs to another object: refused without `existing` -/
  | hitOther (ob on : Obj CKey) (ids : CplxIds) : ob ∈ r.objs → ob.canon = canon →
      r.findName (pfx ++ toString r.autoId) = some on → on.id ≠ ob.id →
      ReqOut pfx r fresh seq sst canon (r, .singletonErr none, some ids)
  /-- no live object of this class, the automatic name is free: created -/
  | create (ids : CplxIds) : (∀ ob ∈ r.objs, ob.canon ≠ canon) → ids.canon = canon →
      (∀ k, k ∈ ids.keys ↔ k ∈ C02.orbit (C02.nStrands seq) seq sst) →
      (∀ k ∈ ids.keys, r.findCanon k = none) →
      r.findName (pfx ++ toString r.autoId) = none →
      ReqOut pfx r fresh seq sst canon
        (r.register { id := fresh, name := pfx ++ toString r.autoId, canon := canon, keys := ids.keys } true,
         .ret fresh true, some ids)
  /-- no live object of this class, the automatic name is taken: refused without `existing` -/
  | taken (on : Obj CKey) (ids : CplxIds) : (∀ ob ∈ r.objs, ob.canon ≠ canon) →
      r.findName (pfx ++ toString r.autoId) = some on →
      ReqOut pfx r fresh seq sst canon (r, .singletonErr none, some ids)

theorem request_out (pfx : String) (r : Reg CKey) (h : RegOK r) (fresh : Nat) (seq : List String) (sst : List Char)
    (hd : C02.Descr seq sst) (ids0 : CplxIds)
    (h0 : minKey (C02.orbit (C02.nStrands seq) seq sst) = some ids0.canon) :
    ReqOut pfx r fresh seq sst ids0.canon
      (complexRequest pfx r fresh { seq := some seq, sst := sst, name := none, prefix_ := none }) := by
  have hd' := (C02.descr_iff _ _).mp hd
  rcases Rot.ids_cases r seq sst hd' with ⟨ids, hids, hmem, hsome⟩ | ⟨hfree, c, hc, hci⟩
  · -- a rotation is registered
    rw [C02.complexRequest_seq pfx r fresh seq sst none ids hids]
    simp only [Option.getD_none, Option.isNone_none]
    obtain ⟨ob, hob⟩ := Option.isSome_iff_exists.mp hsome
    obtain ⟨ho, hkk⟩ := Reg.findCanon_some r _ ob hob
    have hcan := canon_of_hit r h seq sst hd ids0 h0 ob ho ids.canon (by rw [C02.orbit_eq, C02.nStrands_eq]; exact hmem) hkk
    cases hn : r.findName (pfx ++ toString r.autoId) with
    | none =>
      rw [call_hit_free r _ _ fresh ids.keys true ob hob hn]
      exact ReqOut.hitFree ob ids ho hcan hn
    | some on =>
      by_cases hid : on.id = ob.id
      · have hon := (Reg.findName_some r _ on hn).1
        have e : on = ob := (C01.wf_unique r h.wf on ob hon ho).2.2 hid
        subst e
        rw [call_hit_own r _ _ fresh ids.keys true on hob hn]
        exact ReqOut.hitOwn on ids ho hcan hn
      · rw [call_hit_other r _ _ fresh ids.keys true ob on hob hn hid]
        exact ReqOut.hitOther ob on ids ho hcan hn hid
  · -- nothing of the orbit is registered
    rw [C02.orbit_eq, C02.nStrands_eq] at h0
    rw [hc] at h0
    have hcc : c = ids0.canon := Option.some.inj h0
    obtain ⟨ids, hids, hic, hik⟩ : ∃ ids, complexIdentifiers r seq sst = .ok ids ∧ ids.canon = c ∧
        ids.keys = (Rot.orb (Rot.nStr seq) seq sst).eraseDups := ⟨_, hci, rfl, rfl⟩
    rw [C02.complexRequest_seq pfx r fresh seq sst none ids hids]
    simp only [Option.getD_none, Option.isNone_none]
    obtain ⟨m1, _⟩ := Ord.minKey_spec _ _ hc
    have hno : ∀ ob ∈ r.objs, ob.canon ≠ ids0.canon := by
      intro ob ho e
      have := (C01.wf_lookup r h.wf ob ho).2.1
      rw [e, ← hcc, hfree c m1] at this
      cases this
    have hkeys : ∀ k, k ∈ ids.keys ↔ k ∈ C02.orbit (C02.nStrands seq) seq sst := by
      intro k; rw [hik, C02.orbit_eq, C02.nStrands_eq]; exact List.mem_eraseDups
    have hfc : r.findCanon ids.canon = none := by rw [hic]; exact hfree c m1
    have hfk : ∀ k ∈ ids.keys, r.findCanon k = none :=
      fun k hk => hfree k (by rw [← C02.orbit_eq, ← C02.nStrands_eq]; exact (hkeys k).mp hk)
    cases hn : r.findName (pfx ++ toString r.autoId) with
    | none =>
      rw [call_create r _ _ fresh _ true hfc hn, hic, hcc]
      exact ReqOut.create ids hno (by rw [hic, hcc]) hkeys hfk hn
    | some on =>
      rw [call_taken r _ _ fresh _ true on hfc hn]
      exact ReqOut.taken on ids hno hn

/-- creating the component keeps the registry invariant -/
theorem regOK_register (r : Reg CKey) (h : RegOK r) (fresh : Nat) (seq : List String) (sst : List Char)
    (hd : C02.Descr seq sst) (ids0 ids : CplxIds) (nm : String)
    (h0 : minKey (C02.orbit (C02.nStrands seq) seq sst) = some ids0.canon)
    (hkeys : ∀ k, k ∈ ids.keys ↔ k ∈ C02.orbit (C02.nStrands seq) seq sst)
    (hfree : ∀ k ∈ ids.keys, r.findCanon k = none) (hn : r.findName nm = none)
    (hfresh : ∀ o ∈ r.objs, o.id ≠ fresh) :
    RegOK (r.register { id := fresh, name := nm, canon := ids0.canon, keys := ids.keys } true) := by
  have hd' := (C02.descr_iff _ _).mp hd
  obtain ⟨m1, m2⟩ := Ord.minKey_spec _ _ h0
  -- the canonical form is a rotation: it has the same orbit
  rw [C02.orbit_eq, C02.nStrands_eq] at m1
  obtain ⟨i, _, hi⟩ := (Rot.mem_orb _ _ _ _).mp m1
  obtain ⟨_, hy, hdc, hnc⟩ := Rot.descr_rotateN i seq sst hd'
  rw [hi] at hy; cases hy
  have horb : ∀ k, k ∈ C02.orbit (C02.nStrands ids0.canon.1) ids0.canon.1 ids0.canon.2 ↔
      k ∈ C02.orbit (C02.nStrands seq) seq sst := by
    intro k
    rw [C02.orbit_eq, C02.nStrands_eq, hnc]
    exact Rot.orb_rotateN i seq sst hd' ids0.canon hi k
  refine ⟨?_, ?_, ?_⟩
  · exact C02.wf_register r h.wf nm ids0.canon fresh ids.keys true hfresh
      ((hkeys _).mpr (by rw [C02.orbit_eq, C02.nStrands_eq]; exact m1)) hn hfree
  · intro o ho
    simp only [Reg.register, List.mem_append, List.mem_singleton] at ho
    rcases ho with ho | rfl
    · exact h.orb o ho
    · exact ⟨(C02.descr_iff _ _).mpr hdc, fun k => by rw [hkeys k, horb k]⟩
  · intro o ho
    simp only [Reg.register, List.mem_append, List.mem_singleton] at ho
    rcases ho with ho | rfl
    · exact h.min o ho
    · intro k hk
      exact m2 k ((horb k).mp hk)

/-! ### the request at world level -/

/-- class `c`'s registry with the inherited `ID` made its own value (what every request leaves behind) -/
def normW (w : World) (c : Nat) (cr : ClassReg CKey) : World :=
  { w with cplxs := w.cplxs.set c { cr with reg := { cr.reg with autoId := World.effId w.cplxs 5 c } } }

/-- … and the returned live object is (now) held by the user -/
def oldW (w : World) (c : Nat) (cr : ClassReg CKey) (id : Nat) : World :=
  { normW w c cr with held := if w.held.contains id then w.held else w.held ++ [id] }

/-- the class registry after the component was created -/
def newCR (w : World) (c : Nat) (cr : ClassReg CKey) (nm : String) (canon : CKey) (keys : List CKey) : ClassReg CKey :=
  { cr with
    reg := ({ cr.reg with autoId := World.effId w.cplxs 5 c } : Reg CKey).register
      { id := w.nextId, name := nm, canon := canon, keys := keys } true,
    ownId := true }

/-- the world after the component was created -/
def newW (w : World) (c : Nat) (cr : ClassReg CKey) (nm : String) (canon : CKey) (keys : List CKey)
    (names : List String) (sst : List Char) (turns : Nat) (children : List Nat) : World :=
  { w with
    cplxs := w.cplxs.set c (newCR w c cr nm canon keys),
    nodes := w.nodes ++ [{ id := w.nextId, kind := .cplx, cls := c, children := children }],
    held := if w.held.contains w.nextId then w.held else w.held ++ [w.nextId],
    nextId := w.nextId + 1,
    cstate := w.cstate ++ [(w.nextId, { seq := names, sst := sst, turns := turns, canon := canon, name := nm })] }

def splitChildren (w : World) (names : List String) (pch : List Nat) : List Nat :=
  pch.filter (fun d => match w.domObj d with | some (_, o) => names.contains o.name | none => false)

/-- the automatic name the class would use next -/
def autoName (w : World) (c : Nat) : String :=
  World.effPrefix w.cplxs 5 c ++ toString (World.effId w.cplxs 5 c)

theorem findId_register_new (r : Reg CKey) (o : Obj CKey) (auto : Bool) (h : ∀ x ∈ r.objs, x.id ≠ o.id) :
    (r.register o auto).findId o.id = some o := by
  unfold Reg.findId Reg.register
  simp only
  rw [List.find?_append]
  have : r.objs.find? (fun x => x.id == o.id) = none := by
    rw [List.find?_eq_none]
    intro x hx; simpa using h x hx
  rw [this]
  simp

/-- outcome of `split()`'s request in the world -/
inductive StepOut (w : World) (c : Nat) (cr : ClassReg CKey) (names : List String) (sst : List Char) (pch : List Nat)
    (canon : CKey) : World × Out → Prop
  | old (ob : Obj CKey) : ob ∈ cr.reg.objs → ob.canon = canon →
      (cr.reg.findName (autoName w c) = none ∨ cr.reg.findName (autoName w c) = some ob) →
      StepOut w c cr names sst pch canon (oldW w c cr ob.id, .ret ob.id false)
  | new (ids : CplxIds) : (∀ ob ∈ cr.reg.objs, ob.canon ≠ canon) → ids.canon = canon →
      (∀ k, k ∈ ids.keys ↔ k ∈ C02.orbit (C02.nStrands names) names sst) →
      (∀ k ∈ ids.keys, cr.reg.findCanon k = none) →
      cr.reg.findName (autoName w c) = none →
      StepOut w c cr names sst pch canon
        (newW w c cr (autoName w c) canon ids.keys names sst ids.turns (splitChildren w names pch), .ret w.nextId true)
  | refused (on : Obj CKey) : cr.reg.findName (autoName w c) = some on → on.canon ≠ canon →
      StepOut w c cr names sst pch canon (normW w c cr, .singletonErr none)

theorem findName_autoId (r : Reg CKey) (n : Nat) (nm : String) :
    ({ r with autoId := n } : Reg CKey).findName nm = r.findName nm := rfl
theorem findCanon_autoId (r : Reg CKey) (n : Nat) (k : CKey) :
    ({ r with autoId := n } : Reg CKey).findCanon k = r.findCanon k := rfl

theorem mkCplxByNames_out (w : World) (c : Nat) (cr : ClassReg CKey) (hc : w.cplxs[c]? = some cr)
    (hreg : RegOK cr.reg) (hfresh : ∀ o ∈ cr.reg.objs, o.id ≠ w.nextId)
    (names : List String) (sst : List Char) (pch : List Nat) (hd : C02.Descr names sst) (ids0 : CplxIds)
    (h0 : minKey (C02.orbit (C02.nStrands names) names sst) = some ids0.canon) :
    StepOut w c cr names sst pch ids0.canon (w.mkCplxByNames c names sst pch) := by
  have hR := request_out (World.effPrefix w.cplxs 5 c) { cr.reg with autoId := World.effId w.cplxs 5 c }
    (hreg.autoId _) w.nextId names sst hd ids0 h0
  unfold World.mkCplxByNames
  simp only [hc]
  generalize complexRequest (World.effPrefix w.cplxs 5 c) { cr.reg with autoId := World.effId w.cplxs 5 c } w.nextId
    { seq := some names, sst := sst, name := none, prefix_ := none } = res at hR
  cases hR with
  | hitFree ob ids ho hcan hn =>
    have : StepOut w c cr names sst pch ids0.canon (oldW w c cr ob.id, .ret ob.id false) :=
      StepOut.old ob ho hcan (Or.inl hn)
    simpa [oldW, normW, World.settle] using this
  | hitOwn ob ids ho hcan hn =>
    have : StepOut w c cr names sst pch ids0.canon (oldW w c cr ob.id, .ret ob.id false) :=
      StepOut.old ob ho hcan (Or.inr hn)
    simpa [oldW, normW, World.settle] using this
  | hitOther ob on ids ho hcan hn hid =>
    have hne : on.canon ≠ ids0.canon := by
      intro e
      have hon := (Reg.findName_some _ _ on hn).1
      have := (C01.wf_unique _ hreg.wf on ob hon ho).2.1
        ⟨on.canon, hreg.wf.canon on hon, by rw [e, ← hcan]; exact hreg.wf.canon ob ho⟩
      exact hid (by rw [this])
    have : StepOut w c cr names sst pch ids0.canon (normW w c cr, .singletonErr none) :=
      StepOut.refused on hn hne
    simpa [normW, World.settle] using this
  | create ids hno hcan hkeys hfk hn =>
    have hfid : (({ cr.reg with autoId := World.effId w.cplxs 5 c } : Reg CKey).register
        { id := w.nextId, name := World.effPrefix w.cplxs 5 c ++ toString (World.effId w.cplxs 5 c),
          canon := ids0.canon, keys := ids.keys } true).findId w.nextId =
        some { id := w.nextId, name := World.effPrefix w.cplxs 5 c ++ toString (World.effId w.cplxs 5 c),
               canon := ids0.canon, keys := ids.keys } :=
      findId_register_new _ _ true hfresh
    have : StepOut w c cr names sst pch ids0.canon
        (newW w c cr (autoName w c) ids0.canon ids.keys names sst ids.turns (splitChildren w names pch),
         .ret w.nextId true) := StepOut.new ids hno hcan hkeys hfk hn
    have hb : ∀ o : Obj CKey, (cr.ownId || (({ cr.reg with autoId := World.effId w.cplxs 5 c } : Reg CKey).register
        o true).autoId != World.effId w.cplxs 5 c) = true := by intro o; simp [Reg.register]
    simp only [World.settle, hfid, hcan, Option.map_some, Option.getD_some, hb]
    exact this
  | taken on ids hno hn =>
    have hon := (Reg.findName_some _ _ on hn).1
    have : StepOut w c cr names sst pch ids0.canon (normW w c cr, .singletonErr none) :=
      StepOut.refused on hn (hno on hon)
    simpa [normW, World.settle] using this


/-! ### the world invariant -/

/-- the mutable state of a live complex describes that complex -/
structure EntryOK (ob : Obj CKey) (o : CplxObj) : Prop where
  descr : C02.Descr o.seq o.sst
  rot : (o.seq, o.sst) ∈ ob.keys
  canon : o.canon = ob.canon
  name : o.name = ob.name
  coh : C03.Coherent o

/-- every class registry of complexes is well formed (unique names / identities, keys = rotations of a minimal
    canonical form), every live complex has a state entry whose sequence and structure are an aligned, balanced,
    non-empty-stranded rotation of its canonical form -/
structure CplxStateOK (w : World) : Prop where
  regs : ∀ (c : Nat) (cr : ClassReg CKey), w.cplxs[c]? = some cr → RegOK cr.reg
  entry : ∀ (c : Nat) (cr : ClassReg CKey) (ob : Obj CKey), w.cplxs[c]? = some cr → ob ∈ cr.reg.objs → ∃ o, w.cstate.lookup ob.id = some o ∧ EntryOK ob o
  stateLt : ∀ p ∈ w.cstate, p.1 < w.nextId

theorem lookup_append_new (l : List (Nat × CplxObj)) (k : Nat) (v : CplxObj) (h : ∀ p ∈ l, p.1 ≠ k) :
    (l ++ [(k, v)]).lookup k = some v := by
  rw [List.lookup_append]
  have : l.lookup k = none := by
    rw [List.lookup_eq_none_iff]
    intro p hp
    have := h p hp
    simpa using fun e => this e.symm
  simp [this]

theorem lookup_append_old (l l2 : List (Nat × CplxObj)) (k : Nat) (v : CplxObj) (h : l.lookup k = some v) :
    (l ++ l2).lookup k = some v := by
  rw [List.lookup_append, h]; rfl

theorem getElem?_set_cases {α} (l : List α) (c c' : Nat) (x y : α) (h : (l.set c x)[c']? = some y) :
    (c' = c ∧ y = x ∧ c < l.length) ∨ (c' ≠ c ∧ l[c']? = some y) := by
  by_cases hcc : c' = c
  · subst hcc
    have hlt : c' < l.length := by
      have := (List.getElem?_eq_some_iff.mp h).1
      simpa using this
    rw [List.getElem?_set_self hlt] at h
    exact Or.inl ⟨rfl, (Option.some.inj h).symm, hlt⟩
  · rw [List.getElem?_set_ne (fun e => hcc e.symm)] at h
    exact Or.inr ⟨hcc, h⟩

/-- a world that differs in registry counters / handles only -/
theorem wok_congr (w w' : World) (h : RdL.WOK w) (hd : w'.doms = w.doms)
    (hl : w'.strands.length = w.strands.length ∧ w'.cplxs.length = w.cplxs.length ∧
      w'.macros.length = w.macros.length ∧ w'.rxns.length = w.rxns.length)
    (hn : w'.nodes = w.nodes) (hx : w'.nextId = w.nextId)
    (hh : ∀ k c i, RdL.has w' k c i → RdL.has w k c i) : RdL.WOK w' := by
  obtain ⟨l1, l2, l3, l4, l5⟩ := h.lens
  refine ⟨⟨by rw [hd]; exact l1, by omega, by omega, by omega, by omega⟩, by rw [hn]; exact h.nodup, ?_, ?_, ?_, ?_, ?_⟩
  · intro n hnn; rw [hn] at hnn; rw [hx]; exact h.lt n hnn
  · intro k c i hki
    obtain ⟨n, hnn, r⟩ := h.objNode k c i (hh k c i hki)
    exact ⟨n, by rw [hn]; exact hnn, r⟩
  · intro n hnn ch hch
    rw [hn] at hnn
    obtain ⟨m, hm, hmi⟩ := h.child n hnn ch hch
    exact ⟨m, by rw [hn]; exact hm, hmi⟩
  · intro n hnn hk ch hch
    rw [hn] at hnn
    exact RdL.goodDom_congr w w' hd ch (h.strandChild n hnn hk ch hch)
  · intro c cr hcr; rw [hd] at hcr; exact h.domIds c cr hcr

theorem has_normW (w : World) (c : Nat) (cr : ClassReg CKey) (hc : w.cplxs[c]? = some cr) (k : Kind) (c' i : Nat) :
    RdL.has (normW w c cr) k c' i ↔ RdL.has w k c' i := by
  cases k <;> simp only [RdL.has, normW]
  have := RdL.hasObj_set w.cplxs c cr { cr with reg := { cr.reg with autoId := World.effId w.cplxs 5 c } } []
    hc (by simp) c' i
  rw [this]; simp

theorem wok_normW (w : World) (h : RdL.WOK w) (c : Nat) (cr : ClassReg CKey) (hc : w.cplxs[c]? = some cr) :
    RdL.WOK (normW w c cr) :=
  wok_congr w _ h rfl ⟨rfl, by simp [normW], rfl, rfl⟩ rfl rfl (fun k c' i hh => (has_normW w c cr hc k c' i).mp hh)

theorem wok_oldW (w : World) (h : RdL.WOK w) (c : Nat) (cr : ClassReg CKey) (hc : w.cplxs[c]? = some cr) (id : Nat) :
    RdL.WOK (oldW w c cr id) := RdL.wok_held _ (wok_normW w h c cr hc) _

theorem cplxs_normW (w : World) (c : Nat) (cr : ClassReg CKey) (c' : Nat) (cr' : ClassReg CKey)
    (h : (normW w c cr).cplxs[c']? = some cr') :
    (c' = c ∧ cr' = { cr with reg := { cr.reg with autoId := World.effId w.cplxs 5 c } }) ∨
    (c' ≠ c ∧ w.cplxs[c']? = some cr') := by
  rcases getElem?_set_cases _ _ _ _ _ h with ⟨a, b, _⟩ | ⟨a, b⟩
  · exact Or.inl ⟨a, b⟩
  · exact Or.inr ⟨a, b⟩

theorem cso_normW (w : World) (h : CplxStateOK w) (c : Nat) (cr : ClassReg CKey) (hc : w.cplxs[c]? = some cr) :
    CplxStateOK (normW w c cr) := by
  refine ⟨?_, ?_, h.stateLt⟩
  · intro c' cr' hcr'
    rcases cplxs_normW w c cr c' cr' hcr' with ⟨rfl, rfl⟩ | ⟨_, h2⟩
    · exact (h.regs c' cr hc).autoId _
    · exact h.regs c' cr' h2
  · intro c' cr' ob hcr' hob
    rcases cplxs_normW w c cr c' cr' hcr' with ⟨rfl, rfl⟩ | ⟨_, h2⟩
    · exact h.entry c' cr ob hc hob
    · exact h.entry c' cr' ob h2 hob

theorem cso_oldW (w : World) (h : CplxStateOK w) (c : Nat) (cr : ClassReg CKey) (hc : w.cplxs[c]? = some cr) (id : Nat) :
    CplxStateOK (oldW w c cr id) := by
  have := cso_normW w h c cr hc
  exact ⟨this.regs, this.entry, this.stateLt⟩

/-! ### the created component -/

theorem has_newW (w : World) (c : Nat) (cr : ClassReg CKey) (hc : w.cplxs[c]? = some cr) (nm : String) (canon : CKey)
    (keys : List CKey) (names : List String) (sst : List Char) (turns : Nat) (children : List Nat) (k : Kind) (c' i : Nat) :
    RdL.has (newW w c cr nm canon keys names sst turns children) k c' i ↔
      RdL.has w k c' i ∨ (k = .cplx ∧ c' = c ∧ i = w.nextId) := by
  cases k <;> simp only [RdL.has, newW]
  · simp
  · simp
  · have := RdL.hasObj_set w.cplxs c cr (newCR w c cr nm canon keys)
      [{ id := w.nextId, name := nm, canon := canon, keys := keys }] hc (by simp [newCR, Reg.register]) c' i
    rw [this]
    simp only [List.mem_singleton, exists_eq_left, true_and]
    constructor
    · rintro (h | ⟨h1, h2⟩)
      · exact Or.inl h
      · exact Or.inr ⟨h1, h2.symm⟩
    · rintro (h | ⟨h1, h2⟩)
      · exact Or.inl h
      · exact Or.inr ⟨h1, h2.symm⟩
  · simp
  · simp

theorem wok_newW (w : World) (h : RdL.WOK w) (c : Nat) (cr : ClassReg CKey) (hc : w.cplxs[c]? = some cr) (nm : String)
    (canon : CKey) (keys : List CKey) (names : List String) (sst : List Char) (turns : Nat) (children : List Nat)
    (hch : ∀ ch ∈ children, RdL.HasNode w ch) :
    RdL.WOK (newW w c cr nm canon keys names sst turns children) := by
  have hhas := has_newW w c cr hc nm canon keys names sst turns children
  have g : RdL.Grow w (newW w c cr nm canon keys names sst turns children) .cplx c children (.ret w.nextId true) := by
    refine ⟨⟨rfl, rfl, by simp [newW], rfl, rfl⟩, ?_, ?_, ?_, ?_, rfl, rfl, ?_, ?_, ?_⟩
    · intro k' c' i hh; exact (hhas k' c' i).mpr (Or.inl hh)
    · intro k' c' i hh
      rcases (hhas k' c' i).mp hh with h1 | ⟨h1, h2, h3⟩
      · exact Or.inl h1
      · exact Or.inr ⟨rfl, h3, h1, h2⟩
    · intro i b e
      cases e
      exact (hhas .cplx c w.nextId).mpr (Or.inr ⟨rfl, rfl, rfl⟩)
    · intro i e; cases e; rfl
    · intro i hg; exact RdL.goodDom_congr w _ rfl i hg
    · exact RdL.domObjs_congr w _ rfl
    · intro kk e; cases e
  exact g.wok h hch (by intro e; cases e)

theorem cplxs_newW (w : World) (c : Nat) (cr : ClassReg CKey) (nm : String) (canon : CKey)
    (keys : List CKey) (names : List String) (sst : List Char) (turns : Nat) (children : List Nat)
    (c' : Nat) (cr' : ClassReg CKey)
    (h : (newW w c cr nm canon keys names sst turns children).cplxs[c']? = some cr') :
    (c' = c ∧ cr' = newCR w c cr nm canon keys) ∨
    (c' ≠ c ∧ w.cplxs[c']? = some cr') := by
  rcases getElem?_set_cases _ _ _ _ _ h with ⟨a, b, _⟩ | ⟨a, b⟩
  · exact Or.inl ⟨a, b⟩
  · exact Or.inr ⟨a, b⟩

theorem cso_newW (w : World) (hw : RdL.WOK w) (h : CplxStateOK w) (c : Nat) (cr : ClassReg CKey)
    (hc : w.cplxs[c]? = some cr) (names : List String) (sst : List Char) (hd : C02.Descr names sst)
    (ids0 ids : CplxIds) (h0 : minKey (C02.orbit (C02.nStrands names) names sst) = some ids0.canon)
    (hkeys : ∀ k, k ∈ ids.keys ↔ k ∈ C02.orbit (C02.nStrands names) names sst)
    (hfree : ∀ k ∈ ids.keys, cr.reg.findCanon k = none) (nm : String) (hn : cr.reg.findName nm = none)
    (turns : Nat) (children : List Nat) :
    CplxStateOK (newW w c cr nm ids0.canon ids.keys names sst turns children) := by
  have hfresh : ∀ o ∈ cr.reg.objs, o.id ≠ w.nextId := by
    intro o ho e
    obtain ⟨n, hn1, hn2, _⟩ := hw.objNode .cplx c o.id ⟨cr, hc, o, ho, rfl⟩
    have := hw.lt n hn1
    omega
  have hd' := (C02.descr_iff _ _).mp hd
  refine ⟨?_, ?_, ?_⟩
  · intro c' cr' hcr'
    rcases cplxs_newW w c cr nm _ _ names sst turns children c' cr' hcr' with ⟨rfl, rfl⟩ | ⟨_, h2⟩
    · exact regOK_register _ ((h.regs c' cr hc).autoId _) w.nextId names sst hd ids0 ids nm h0 hkeys hfree hn hfresh
    · exact h.regs c' cr' h2
  · intro c' cr' ob hcr' hob
    have hold : ∀ (c'' : Nat) (cr'' : ClassReg CKey), w.cplxs[c'']? = some cr'' → ob ∈ cr''.reg.objs →
        ∃ o, (newW w c cr nm ids0.canon ids.keys names sst turns children).cstate.lookup ob.id = some o ∧ EntryOK ob o := by
      intro c'' cr'' h1 h2
      obtain ⟨o, ho, he⟩ := h.entry c'' cr'' ob h1 h2
      exact ⟨o, lookup_append_old _ _ _ _ ho, he⟩
    rcases cplxs_newW w c cr nm _ _ names sst turns children c' cr' hcr' with ⟨rfl, rfl⟩ | ⟨_, h2⟩
    · simp only [newCR, Reg.register, List.mem_append, List.mem_singleton] at hob
      rcases hob with hob | rfl
      · exact hold c' cr hc hob
      · refine ⟨_, lookup_append_new _ w.nextId _ (fun p hp => by have := h.stateLt p hp; omega), ?_⟩
        refine ⟨hd, ?_, rfl, rfl, C03.coherent_fresh _ _ _ _ _⟩
        simp only
        rw [hkeys, C02.orbit_eq, C02.nStrands_eq]
        exact Rot.self_mem_orb names sst hd'
    · exact hold c' cr' h2 hob
  · intro p hp
    simp only [newW, List.mem_append, List.mem_singleton] at hp ⊢
    rcases hp with hp | rfl
    · have := h.stateLt p hp; omega
    · simp


/-! ### the loop of `split()` -/

abbrev Part := List (List String) × PairTable

def pnames (p : Part) : List String := joinWith "+" p.1
def psst (p : Part) : List Char := ptToDb p.2

/-- the (pure) canonical form of a description: its smallest rotation -/
def canonOf (seq : List String) (sst : List Char) : Option CKey := minKey (C02.orbit (C02.nStrands seq) seq sst)

structure PartOK (p : Part) : Prop where
  ne : p.1 ≠ []
  descr : C02.Descr (pnames p) (psst p)

/-- the handles kept when the list under construction is discarded -/
def abortW (w : World) (held0 : List Nat) : World :=
  ({ w with held := w.held.filter (fun h => held0.contains h) }).collect

/-- a run of the loop of `split()` from world `w` with `acc` already yielded -/
inductive GoRes (cls : Nat) (pch : List Nat) (held0 : List Nat) : List Part → World → List Out → World × List Out → Prop
  | nil (w : World) (acc : List Out) : RdL.WOK w → CplxStateOK w → GoRes cls pch held0 [] w acc (w, acc)
  | old (p : Part) (ps : List Part) (w : World) (acc : List Out) (res : World × List Out) (cr : ClassReg CKey)
      (ob : Obj CKey) (k : CKey) : RdL.WOK w → CplxStateOK w → w.cplxs[cls]? = some cr →
      canonOf (pnames p) (psst p) = some k → ob ∈ cr.reg.objs → ob.canon = k →
      (cr.reg.findName (autoName w cls) = none ∨ cr.reg.findName (autoName w cls) = some ob) →
      GoRes cls pch held0 ps (oldW w cls cr ob.id) (acc ++ [.ret ob.id false]) res →
      GoRes cls pch held0 (p :: ps) w acc res
  | new (p : Part) (ps : List Part) (w : World) (acc : List Out) (res : World × List Out) (cr : ClassReg CKey)
      (ids : CplxIds) (k : CKey) : RdL.WOK w → CplxStateOK w → w.cplxs[cls]? = some cr →
      canonOf (pnames p) (psst p) = some k → (∀ ob ∈ cr.reg.objs, ob.canon ≠ k) →
      cr.reg.findName (autoName w cls) = none →
      GoRes cls pch held0 ps
        (newW w cls cr (autoName w cls) k ids.keys (pnames p) (psst p) ids.turns (splitChildren w (pnames p) pch))
        (acc ++ [.ret w.nextId true]) res →
      GoRes cls pch held0 (p :: ps) w acc res
  | abort (p : Part) (ps : List Part) (w : World) (acc : List Out) (cr : ClassReg CKey) (on : Obj CKey) (k : CKey) :
      RdL.WOK w → CplxStateOK w → w.cplxs[cls]? = some cr → canonOf (pnames p) (psst p) = some k →
      cr.reg.findName (autoName w cls) = some on → on.canon ≠ k →
      GoRes cls pch held0 (p :: ps) w acc (abortW (normW w cls cr) held0, [.singletonErr none])

theorem sts_ok (st : List (List String)) (h : st ≠ []) : strandTableToSequence "+" st = .ok (joinWith "+" st) := by
  unfold strandTableToSequence
  split
  · exact absurd rfl h
  · rfl

theorem go_nil (nd : Node) (held0 : List Nat) (w : World) (acc : List Out) :
    World.splitC.go nd held0 [] w acc = (w, acc) := rfl

theorem go_cons (nd : Node) (held0 : List Nat) (p : Part) (rest : List Part) (w : World) (acc : List Out) :
    World.splitC.go nd held0 (p :: rest) w acc =
      match strandTableToSequence "+" p.1 with
      | .error _ => (w, acc ++ [.fault "TypeError"])
      | .ok names =>
        match w.mkCplxByNames nd.cls names (ptToDb p.2) nd.children with
        | (w', .ret a b) => World.splitC.go nd held0 rest w' (acc ++ [.ret a b])
        | (w', e) => (({ w' with held := w'.held.filter (fun h => held0.contains h) }).collect, [e]) := by
  rw [World.splitC.go]
  cases strandTableToSequence "+" p.1 with
  | error e => rfl
  | ok names =>
    simp only
    cases hm : w.mkCplxByNames nd.cls names (ptToDb p.2) nd.children with
    | mk w' out => cases out <;> rfl

theorem hasNode_mono (w w' : World) (h : ∀ n ∈ w.nodes, n ∈ w'.nodes) (i : Nat) (hi : RdL.HasNode w i) :
    RdL.HasNode w' i := by
  obtain ⟨m, hm, e⟩ := hi
  exact ⟨m, h m hm, e⟩

theorem go_spec (nd : Node) (held0 : List Nat) :
    ∀ (ps : List Part) (w : World) (acc : List Out), RdL.WOK w → CplxStateOK w →
      (∃ cr, w.cplxs[nd.cls]? = some cr) → (∀ p ∈ ps, PartOK p) → (∀ ch ∈ nd.children, RdL.HasNode w ch) →
      GoRes nd.cls nd.children held0 ps w acc (World.splitC.go nd held0 ps w acc) := by
  intro ps
  induction ps with
  | nil => intro w acc hw hs _ _ _; rw [go_nil]; exact GoRes.nil w acc hw hs
  | cons p rest ih =>
    intro w acc hw hs ⟨cr, hc⟩ hps hch
    have hp := hps p (by simp)
    obtain ⟨ids0, _, h0⟩ := pure_ids (pnames p) (psst p) hp.descr
    have hfresh : ∀ o ∈ cr.reg.objs, o.id ≠ w.nextId := by
      intro o ho e
      obtain ⟨n, hn1, hn2, _⟩ := hw.objNode .cplx nd.cls o.id ⟨cr, hc, o, ho, rfl⟩
      have := hw.lt n hn1
      omega
    have hstep := mkCplxByNames_out w nd.cls cr hc (hs.regs nd.cls cr hc) hfresh (pnames p) (psst p) nd.children
      hp.descr ids0 h0
    rw [go_cons, sts_ok p.1 hp.ne]
    simp only
    have hlt : nd.cls < w.cplxs.length := RdL.getElem?_lt _ _ _ hc
    have e : w.mkCplxByNames nd.cls (joinWith "+" p.1) (ptToDb p.2) nd.children =
        w.mkCplxByNames nd.cls (pnames p) (psst p) nd.children := rfl
    rw [e]
    generalize hres : w.mkCplxByNames nd.cls (pnames p) (psst p) nd.children = res at hstep
    cases hstep with
    | old ob ho hcan hn =>
      simp only
      apply GoRes.old p rest w acc _ cr ob ids0.canon hw hs hc h0 ho hcan hn
      apply ih _ _ (wok_oldW w hw nd.cls cr hc ob.id) (cso_oldW w hs nd.cls cr hc ob.id)
      · exact ⟨_, by simp only [oldW, normW]; rw [List.getElem?_set_self hlt]⟩
      · exact fun q hq => hps q (List.mem_cons_of_mem _ hq)
      · exact hch
    | new ids hno hcan hkeys hfk hn =>
      simp only
      have hchn : ∀ ch ∈ splitChildren w (pnames p) nd.children, RdL.HasNode w ch := by
        intro ch hc'
        exact hch ch (List.mem_filter.mp hc').1
      apply GoRes.new p rest w acc _ cr ids ids0.canon hw hs hc h0 hno hn
      apply ih _ _ (wok_newW w hw nd.cls cr hc _ _ _ _ _ _ _ hchn)
        (cso_newW w hw hs nd.cls cr hc (pnames p) (psst p) hp.descr ids0 ids h0 hkeys hfk _ hn _ _)
      · exact ⟨_, by simp only [newW]; rw [List.getElem?_set_self hlt]⟩
      · exact fun q hq => hps q (List.mem_cons_of_mem _ hq)
      · intro ch hc'
        exact hasNode_mono w _ (fun n hn' => by simp only [newW]; exact List.mem_append_left _ hn') ch (hch ch hc')
    | refused on hn hne =>
      simp only
      exact GoRes.abort p rest w acc cr on ids0.canon hw hs hc h0 hn hne


/-! ### from a description to its pair table and its parts -/

/-- equal strand lengths mean aligned break positions -/
theorem aligned_of_lengths {α β} [DecidableEq α] [DecidableEq β] (sa : α) (sb : β) (a : List α) (b : List β)
    (h : (splitOn sa a).map List.length = (splitOn sb b).map List.length) :
    a.length = b.length ∧ ∀ i : Nat, a[i]? = some sa ↔ b[i]? = some sb := by
  induction a generalizing b with
  | nil =>
    cases b with
    | nil => exact ⟨rfl, fun i => by simp⟩
    | cons y ys =>
      exfalso
      by_cases hy : y = sb
      · subst hy
        rw [splitOn_cons_eq] at h
        have := congrArg List.length h
        have hne := splitOn_ne_nil y ys
        have hpos := List.length_pos_iff.mpr hne
        simp only [splitOn, List.map_cons, List.map_nil, List.length_cons, List.length_nil, List.length_map] at this
        omega
      · obtain ⟨s2, ss2, _, e4⟩ := Brk.splitOn_cons_ne' sb y ys hy
        rw [e4] at h
        simp [splitOn] at h
  | cons x xs ih =>
    cases b with
    | nil =>
      exfalso
      by_cases hx : x = sa
      · subst hx
        rw [splitOn_cons_eq] at h
        have := congrArg List.length h
        have hne := splitOn_ne_nil x xs
        have hpos := List.length_pos_iff.mpr hne
        simp only [splitOn, List.map_cons, List.map_nil, List.length_cons, List.length_nil, List.length_map] at this
        omega
      · obtain ⟨s1, ss1, _, e2⟩ := Brk.splitOn_cons_ne' sa x xs hx
        rw [e2] at h
        simp [splitOn] at h
    | cons y ys =>
      by_cases hx : x = sa
      · by_cases hy : y = sb
        · subst hx; subst hy
          rw [splitOn_cons_eq, splitOn_cons_eq] at h
          simp only [List.map_cons, List.cons.injEq, List.length_nil, true_and] at h
          obtain ⟨i1, i2⟩ := ih ys h
          refine ⟨by simp [i1], ?_⟩
          intro i
          cases i with
          | zero => simp
          | succ i => simpa using i2 i
        · exfalso
          subst hx
          obtain ⟨s2, ss2, _, e4⟩ := Brk.splitOn_cons_ne' sb y ys hy
          rw [splitOn_cons_eq, e4] at h
          simp at h
      · by_cases hy : y = sb
        · exfalso
          subst hy
          obtain ⟨s1, ss1, _, e2⟩ := Brk.splitOn_cons_ne' sa x xs hx
          rw [splitOn_cons_eq, e2] at h
          simp at h
        · obtain ⟨s1, ss1, e1, e2⟩ := Brk.splitOn_cons_ne' sa x xs hx
          obtain ⟨s2, ss2, e3, e4⟩ := Brk.splitOn_cons_ne' sb y ys hy
          rw [e2, e4] at h
          simp only [List.map_cons, List.cons.injEq, List.length_cons] at h
          have hrec : (splitOn sa xs).map List.length = (splitOn sb ys).map List.length := by
            rw [e1, e3]; simp only [List.map_cons, List.cons.injEq]; exact ⟨by omega, h.2⟩
          obtain ⟨i1, i2⟩ := ih ys hrec
          refine ⟨by simp [i1], ?_⟩
          intro i
          cases i with
          | zero => simp [hx, hy]
          | succ i => simpa using i2 i

theorem filterMap_congr' {α β} (l : List α) (f g : α → Option β) (h : ∀ x ∈ l, f x = g x) :
    l.filterMap f = l.filterMap g := by
  induction l with
  | nil => rfl
  | cons x xs ih =>
    rw [List.filterMap_cons, List.filterMap_cons, h x (by simp), ih (fun y hy => h y (List.mem_cons_of_mem _ hy))]

theorem stab_eq (seq : List String) (h : ∀ s ∈ splitOn "+" seq, s ≠ []) :
    makeStrandTableList "+" seq = splitOn "+" seq := by
  unfold makeStrandTableList
  rw [List.filter_eq_self]
  intro s hs
  have := h s hs
  cases s with
  | nil => exact absurd rfl this
  | cons _ _ => rfl

/-- a well-formed description has a pair table of the shape of its strand table -/
theorem descr_pt (seq : List String) (sst : List Char) (hd : C02.Descr seq sst) :
    ∃ pt, makePairTable sst = .ok pt ∧ (∀ s ∈ splitOn '+' sst, s ≠ []) ∧
      pt.map List.length = (splitOn "+" seq).map List.length := by
  obtain ⟨t0, h0⟩ := hd.balanced
  obtain ⟨syms, pt, t, _, _, hok⟩ := Brk.mpt_of_word sst t0 hd.chars h0
  have hl := Brk.splitOn_lengths "+" '+' seq sst hd.aligned.1 hd.aligned.2
  refine ⟨pt, hok, ?_, ?_⟩
  · intro s hs e
    have : (0 : Nat) ∈ (splitOn '+' sst).map List.length := List.mem_map.mpr ⟨s, hs, by rw [e]; rfl⟩
    rw [← hl] at this
    obtain ⟨s', hs', hl'⟩ := List.mem_map.mp this
    exact hd.nonempty s' hs' (List.length_eq_zero_iff.mp hl')
  · rw [C06.mpt_shape sst '+' pt hok, hl]

theorem map_len_getElem? {α β} (a : List (List α)) (b : List (List β))
    (h : a.map List.length = b.map List.length) (i : Nat) :
    (a[i]?).map List.length = (b[i]?).map List.length := by
  have := congrArg (fun l => l[i]?) h
  simpa using this

/-- every part of the split of a well-formed description is a well-formed description -/
theorem parts_ok (seq : List String) (sst : List Char) (hd : C02.Descr seq sst) (pt : PairTable)
    (hpt : makePairTable sst = .ok pt) (parts : List Part)
    (hsp : splitPt (pt.length + 1) (makeStrandTableList "+" seq) pt = .ok parts) :
    ∀ p ∈ parts, PartOK p := by
  obtain ⟨pt', hpt', hne, hshape⟩ := descr_pt seq sst hd
  rw [hpt] at hpt'; cases hpt'
  rw [stab_eq seq hd.nonempty] at hsp
  have hlen : (splitOn "+" seq).length = pt.length := by
    have := congrArg List.length hshape; simpa using this.symm
  obtain ⟨parts', idxs, f, l, q, _, _⟩ := C09.split_spec sst '+' pt (splitOn "+" seq) hpt hlen
  rw [hsp] at f
  have := Except.ok.inj f
  subst this
  have hwf := C09.split_parts_wellformed sst '+' pt (splitOn "+" seq) parts hpt hlen rfl hne hsp
  intro p hp
  obtain ⟨k, hk⟩ := List.mem_iff_getElem?.mp hp
  have hkl : k < idxs.length := by rw [l]; exact (List.getElem?_eq_some_iff.mp hk).1
  obtain ⟨po, hidx⟩ := q k p _ hk (List.getElem?_eq_getElem hkl)
  generalize idxs[k] = idx at po hidx
  -- rows of the part are strands of the original
  have hrows : ∀ r ∈ p.1, r ∈ splitOn "+" seq := by
    intro r hr
    rw [po.strands] at hr
    obtain ⟨i, _, hi⟩ := List.mem_filterMap.mp hr
    exact List.mem_of_getElem? hi
  have hp1 : p.1 ≠ [] := by
    cases idx with
    | nil => exact absurd rfl hidx
    | cons i0 is =>
      have hb := po.bound i0 (by simp)
      rw [po.strands, List.filterMap_cons, List.getElem?_eq_getElem (by omega)]
      simp
  have hsplit : splitOn "+" (pnames p) = p.1 := by
    apply splitOn_joinWith "+" p.1 hp1
    intro r hr hmem
    exact (Brk.mem_splitOn "+" seq r "+" (hrows r hr) hmem).2 rfl
  have hw := hwf p hp
  have hshp := C06.mpt_shape (psst p) '+' p.2 hw
  have hlens : p.1.map List.length = p.2.map List.length := by
    rw [po.rows, po.strands, List.map_filterMap]
    apply filterMap_congr'
    intro i _
    exact map_len_getElem? _ _ hshape.symm i
  obtain ⟨syms, t, L, hsy⟩ := Split.mpt_linF (psst p) '+' p.2 hw
  obtain ⟨t0, ht0, _⟩ := Brk.reindex (psst p) syms p.2 t hsy L
  refine ⟨hp1, ⟨?_, ⟨t0, ht0⟩, Brk.alphabet (psst p) syms hsy, ?_⟩⟩
  · apply aligned_of_lengths "+" '+'
    rw [hsplit, ← hshp, hlens]
  · intro r hr
    rw [hsplit] at hr
    exact hd.nonempty r (hrows r hr)


/-! ### `splitC` as a run of the loop -/

theorem splitC_run (w : World) (id c : Nat) (hw : RdL.WOK w) (hs : CplxStateOK w) (hlive : RdL.has w .cplx c id) :
    ∃ (o : CplxObj) (nd : Node) (cr : ClassReg CKey) (ob : Obj CKey) (pt : PairTable) (parts : List Part),
      w.cstate.lookup id = some o ∧ w.node id = some nd ∧ nd ∈ w.nodes ∧ nd.cls = c ∧ w.cplxs[c]? = some cr ∧
      ob ∈ cr.reg.objs ∧ ob.id = id ∧ EntryOK ob o ∧ makePairTable o.sst = .ok pt ∧
      splitPt (pt.length + 1) (makeStrandTableList "+" o.seq) pt = .ok parts ∧ (∀ p ∈ parts, PartOK p) ∧
      GoRes c nd.children w.held parts w [] (w.splitC id) := by
  obtain ⟨cr, hc, ob, hob, hid⟩ := hlive
  obtain ⟨nd, hnode, hnd, _, _, hcls⟩ := RdL.node_of_has w hw .cplx c id ⟨cr, hc, ob, hob, hid⟩
  obtain ⟨o, ho, he⟩ := hs.entry c cr ob hc hob
  rw [hid] at ho
  obtain ⟨pt, hpt, hne, hshape⟩ := descr_pt o.seq o.sst he.descr
  have hlen : (makeStrandTableList "+" o.seq).length = pt.length := by
    rw [stab_eq o.seq he.descr.nonempty]
    have := congrArg List.length hshape; simpa using this.symm
  obtain ⟨parts, _, hsp, _⟩ := C09.split_spec o.sst '+' pt (makeStrandTableList "+" o.seq) hpt hlen
  have hpok := parts_ok o.seq o.sst he.descr pt hpt parts hsp
  refine ⟨o, nd, cr, ob, pt, parts, ho, hnode, hnd, hcls, hc, hob, hid, he, hpt, hsp, hpok, ?_⟩
  have hgo := go_spec nd w.held parts w [] hw hs ⟨cr, by rw [hcls]; exact hc⟩ hpok (hw.child nd hnd)
  rw [hcls] at hgo
  have e : w.splitC id = World.splitC.go nd w.held parts w [] := by
    unfold World.splitC
    simp only [ho, hnode, hpt, hsp]
  rw [e]
  exact hgo


/-! ### growth of the world along the loop -/

/-- `w'` keeps every complex object of class `cls`, every state entry, every node and every handle of `w` -/
structure Ext (cls : Nat) (w w' : World) : Prop where
  objs : ∀ cr, w.cplxs[cls]? = some cr → ∃ cr', w'.cplxs[cls]? = some cr' ∧ ∀ ob ∈ cr.reg.objs, ob ∈ cr'.reg.objs
  state : ∀ id o, w.cstate.lookup id = some o → w'.cstate.lookup id = some o
  node : ∀ id nd, w.node id = some nd → w'.node id = some nd
  held : ∀ h ∈ w.held, h ∈ w'.held

theorem Ext.refl (cls : Nat) (w : World) : Ext cls w w :=
  ⟨fun cr h => ⟨cr, h, fun _ ho => ho⟩, fun _ _ h => h, fun _ _ h => h, fun _ h => h⟩

theorem Ext.trans {cls : Nat} {a b c : World} (h1 : Ext cls a b) (h2 : Ext cls b c) : Ext cls a c := by
  refine ⟨?_, fun id o h => h2.state id o (h1.state id o h), fun id nd h => h2.node id nd (h1.node id nd h),
    fun h hh => h2.held h (h1.held h hh)⟩
  intro cr hcr
  obtain ⟨cr1, h3, h4⟩ := h1.objs cr hcr
  obtain ⟨cr2, h5, h6⟩ := h2.objs cr1 h3
  exact ⟨cr2, h5, fun ob ho => h6 ob (h4 ob ho)⟩

theorem ext_oldW (w : World) (c : Nat) (cr : ClassReg CKey) (hc : w.cplxs[c]? = some cr) (id : Nat) :
    Ext c w (oldW w c cr id) := by
  have hlt := RdL.getElem?_lt _ _ _ hc
  refine ⟨?_, fun _ _ h => h, fun _ _ h => h, ?_⟩
  · intro cr0 h0
    rw [hc] at h0; cases h0
    exact ⟨{ cr with reg := { cr.reg with autoId := World.effId w.cplxs 5 c } },
      by simp only [oldW, normW]; rw [List.getElem?_set_self hlt], fun _ ho => ho⟩
  · intro h hh
    simp only [oldW]
    split
    · exact hh
    · exact List.mem_append_left _ hh

theorem ext_normW (w : World) (c : Nat) (cr : ClassReg CKey) (hc : w.cplxs[c]? = some cr) :
    Ext c w (normW w c cr) := by
  have hlt := RdL.getElem?_lt _ _ _ hc
  refine ⟨?_, fun _ _ h => h, fun _ _ h => h, fun _ h => h⟩
  intro cr0 h0
  rw [hc] at h0; cases h0
  exact ⟨{ cr with reg := { cr.reg with autoId := World.effId w.cplxs 5 c } },
    by simp only [normW]; rw [List.getElem?_set_self hlt], fun _ ho => ho⟩

theorem ext_newW (w : World) (c : Nat) (cr : ClassReg CKey) (hc : w.cplxs[c]? = some cr) (nm : String) (canon : CKey)
    (keys : List CKey) (names : List String) (sst : List Char) (turns : Nat) (children : List Nat) :
    Ext c w (newW w c cr nm canon keys names sst turns children) := by
  have hlt := RdL.getElem?_lt _ _ _ hc
  refine ⟨?_, ?_, ?_, ?_⟩
  · intro cr0 h0
    rw [hc] at h0; cases h0
    refine ⟨_, by simp only [newW]; rw [List.getElem?_set_self hlt], ?_⟩
    intro ob ho
    simp only [newCR, Reg.register]
    exact List.mem_append_left _ ho
  · intro id o h
    exact lookup_append_old _ _ _ _ h
  · intro id nd h
    unfold World.node at h ⊢
    simp only [newW]
    rw [List.find?_append, h]; rfl
  · intro h hh
    simp only [newW]
    split
    · exact hh
    · exact List.mem_append_left _ hh

/-! ### the automatic name is not changed by a request that creates nothing -/

theorem effId_succ {κ} (cs : List (ClassReg κ)) (f c : Nat) :
    World.effId cs (f + 1) c =
      match cs[c]? with
      | none => 1
      | some cr => if cr.ownId then cr.reg.autoId else
          match parentOf c with | some p => World.effId cs f p | none => cr.reg.autoId := rfl

theorem effPrefix_succ {κ} (cs : List (ClassReg κ)) (f c : Nat) :
    World.effPrefix cs (f + 1) c =
      match cs[c]? with
      | none => ""
      | some cr => match cr.prefix_ with
        | some p => p
        | none => match parentOf c with | some p => World.effPrefix cs f p | none => "" := rfl

theorem effId_set_norm (cs : List (ClassReg CKey)) (c : Nat) (cr : ClassReg CKey) (hc : cs[c]? = some cr) :
    ∀ (f c' : Nat), World.effId (cs.set c { cr with reg := { cr.reg with autoId := World.effId cs 5 c } }) f c' =
      World.effId cs f c' := by
  have hlt := RdL.getElem?_lt _ _ _ hc
  -- the value written is the class's own counter whenever the class uses it
  have hown : cr.ownId = true ∨ parentOf c = none → World.effId cs 5 c = cr.reg.autoId := by
    intro h
    rw [effId_succ]
    simp only [hc]
    rcases h with h | h
    · simp [h]
    · by_cases ho : cr.ownId = true
      · simp [ho]
      · simp [ho, h]
  generalize hv : World.effId cs 5 c = v at hown
  intro f
  induction f with
  | zero => intro c'; rfl
  | succ f ih =>
    intro c'
    rw [effId_succ (cs.set c _) f c', effId_succ cs f c']
    by_cases hcc : c' = c
    · subst hcc
      rw [List.getElem?_set_self hlt, hc]
      simp only
      by_cases ho : cr.ownId = true
      · rw [if_pos ho, if_pos ho]; exact hown (Or.inl ho)
      · rw [if_neg ho, if_neg ho]
        cases hp : parentOf c' with
        | none => exact hown (Or.inr hp)
        | some p => exact ih p
    · rw [List.getElem?_set_ne (fun e => hcc e.symm)]
      cases hcr : cs[c']? with
      | none => rfl
      | some cr' =>
        simp only
        split
        · rfl
        · cases hp : parentOf c' with
          | none => rfl
          | some p => exact ih p

theorem effPrefix_set (cs : List (ClassReg CKey)) (c : Nat) (cr cr' : ClassReg CKey) (hc : cs[c]? = some cr)
    (hp : cr'.prefix_ = cr.prefix_) : ∀ (f c' : Nat), World.effPrefix (cs.set c cr') f c' = World.effPrefix cs f c' := by
  have hlt := RdL.getElem?_lt _ _ _ hc
  intro f
  induction f with
  | zero => intro c'; rfl
  | succ f ih =>
    intro c'
    rw [effPrefix_succ (cs.set c cr') f c', effPrefix_succ cs f c']
    by_cases hcc : c' = c
    · subst hcc
      rw [List.getElem?_set_self hlt, hc]
      simp only [hp]
      cases cr.prefix_ with
      | some q => rfl
      | none =>
        cases hpp : parentOf c' with
        | none => rfl
        | some p => exact ih p
    · rw [List.getElem?_set_ne (fun e => hcc e.symm)]
      cases hcr : cs[c']? with
      | none => rfl
      | some cr'' =>
        simp only
        cases cr''.prefix_ with
        | some q => rfl
        | none =>
          cases hpp : parentOf c' with
          | none => rfl
          | some p => exact ih p

theorem autoName_normW (w : World) (c : Nat) (cr : ClassReg CKey) (hc : w.cplxs[c]? = some cr) (c' : Nat) :
    autoName (normW w c cr) c' = autoName w c' := by
  unfold autoName normW
  simp only
  rw [effId_set_norm w.cplxs c cr hc 5 c',
    effPrefix_set w.cplxs c cr { cr with reg := { cr.reg with autoId := World.effId w.cplxs 5 c } } hc rfl 5 c']

theorem autoName_oldW (w : World) (c : Nat) (cr : ClassReg CKey) (hc : w.cplxs[c]? = some cr) (id c' : Nat) :
    autoName (oldW w c cr id) c' = autoName w c' := autoName_normW w c cr hc c'


/-! ### reading a run -/

def IsRet (o : Out) : Prop := ∃ h b, o = .ret h b

/-- every output is a returned handle, or the run ended with the refusal -/
theorem goRes_cases {cls : Nat} {pch held0 : List Nat} {ps : List Part} {w : World} {acc : List Out}
    {res : World × List Out} (h : GoRes cls pch held0 ps w acc res) (hacc : ∀ o ∈ acc, IsRet o) :
    (∀ o ∈ res.2, IsRet o) ∨ res.2 = [.singletonErr none] := by
  induction h with
  | nil w acc _ _ => exact Or.inl hacc
  | old p ps w acc res cr ob k _ _ _ _ _ _ _ _ ih =>
    apply ih
    intro o ho
    rcases List.mem_append.mp ho with ho | ho
    · exact hacc o ho
    · simp only [List.mem_singleton] at ho; exact ⟨_, _, ho⟩
  | new p ps w acc res cr ids k _ _ _ _ _ _ _ ih =>
    apply ih
    intro o ho
    rcases List.mem_append.mp ho with ho | ho
    · exact hacc o ho
    · simp only [List.mem_singleton] at ho; exact ⟨_, _, ho⟩
  | abort p ps w acc cr on k _ _ _ _ _ _ => exact Or.inr rfl

/-- what a successful run yields for a part: a handle to a live complex of the part's rotation class (canonical
    form `k`), whose state carries `k`; the object that was live before (in `w0`) if there was one -/
def PartRes (cls : Nat) (w0 w' : World) (p : Part) (out : Out) : Prop :=
  ∃ (h : Nat) (b : Bool) (o' : CplxObj) (k : CKey) (cr' : ClassReg CKey) (ob' : Obj CKey),
    out = .ret h b ∧ canonOf (pnames p) (psst p) = some k ∧ w'.cstate.lookup h = some o' ∧ o'.canon = k ∧
    w'.cplxs[cls]? = some cr' ∧ ob' ∈ cr'.reg.objs ∧ ob'.id = h ∧ ob'.canon = k ∧
    (∀ (cr : ClassReg CKey) (ob : Obj CKey), w0.cplxs[cls]? = some cr → ob ∈ cr.reg.objs → ob.canon = k →
      h = ob.id ∧ b = false)

theorem partRes_mono {cls : Nat} {w0 w1 w' : World} (he : Ext cls w0 w1) {p : Part} {out : Out}
    (h : PartRes cls w1 w' p out) : PartRes cls w0 w' p out := by
  obtain ⟨h, b, o', k, cr', ob', a1, a2, a3, a4, a5, a6, a7, a8, a9⟩ := h
  refine ⟨h, b, o', k, cr', ob', a1, a2, a3, a4, a5, a6, a7, a8, ?_⟩
  intro cr ob hcr hob hk
  obtain ⟨cr1, h1, h2⟩ := he.objs cr hcr
  exact a9 cr1 ob h1 (h2 ob hob) hk

/-- the two lists have the same length and corresponding elements are related -/
inductive All2 {α β} (R : α → β → Prop) : List α → List β → Prop
  | nil : All2 R [] []
  | cons {a b l1 l2} : R a b → All2 R l1 l2 → All2 R (a :: l1) (b :: l2)

theorem forall₂_imp {α β} {R S : α → β → Prop} (h : ∀ a b, R a b → S a b) :
    ∀ {l1 : List α} {l2 : List β}, All2 R l1 l2 → All2 S l1 l2
  | _, _, .nil => .nil
  | _, _, .cons hab t => .cons (h _ _ hab) (forall₂_imp h t)

theorem All2.length {α β} {R : α → β → Prop} : ∀ {l1 : List α} {l2 : List β}, All2 R l1 l2 → l1.length = l2.length
  | _, _, .nil => rfl
  | _, _, .cons _ t => by simp [t.length]

theorem All2.get {α β} {R : α → β → Prop} : ∀ {l1 : List α} {l2 : List β}, All2 R l1 l2 →
    ∀ (i : Nat) (a : α), l1[i]? = some a → ∃ b, l2[i]? = some b ∧ R a b
  | _, _, .nil, i, a, h => by simp at h
  | _, _, .cons hab t, 0, a, h => by simp at h; subst h; exact ⟨_, rfl, hab⟩
  | _, _, .cons _ t, i + 1, a, h => by simpa using t.get i a (by simpa using h)

theorem goRes_ok {cls : Nat} {pch held0 : List Nat} {ps : List Part} {w : World} {acc : List Out}
    {res : World × List Out} (h : GoRes cls pch held0 ps w acc res) (hret : ∀ o ∈ res.2, IsRet o) :
    ∃ rets, res.2 = acc ++ rets ∧ Ext cls w res.1 ∧ RdL.WOK res.1 ∧ CplxStateOK res.1 ∧
      All2 (PartRes cls w res.1) ps rets := by
  induction h with
  | nil w acc hw hs => exact ⟨[], by simp, Ext.refl _ _, hw, hs, .nil⟩
  | old p ps w acc res cr ob k hw hs hc hk hob hcan hn hrest ih =>
    obtain ⟨rets, e1, e2, e3, e4, e5⟩ := ih hret
    have hext := (ext_oldW w cls cr hc ob.id).trans e2
    refine ⟨.ret ob.id false :: rets, by rw [e1]; simp, hext, e3, e4, .cons ?_ (forall₂_imp (fun a b hab =>
      partRes_mono (ext_oldW w cls cr hc ob.id) hab) e5)⟩
    obtain ⟨o, ho, he⟩ := hs.entry cls cr ob hc hob
    obtain ⟨cr', hcr', hsub⟩ := hext.objs cr hc
    refine ⟨ob.id, false, o, k, cr', ob, rfl, hk, hext.state _ _ ho, by rw [he.canon, hcan], hcr', hsub ob hob, rfl,
      hcan, ?_⟩
    intro cr2 ob2 hcr2 hob2 hk2
    rw [hc] at hcr2; cases hcr2
    have hwf := (hs.regs cls cr hc).wf
    have := (C01.wf_unique _ hwf ob2 ob hob2 hob).2.1
      ⟨ob2.canon, hwf.canon ob2 hob2, by rw [hk2, ← hcan]; exact hwf.canon ob hob⟩
    exact ⟨by rw [this], rfl⟩
  | new p ps w acc res cr ids k hw hs hc hk hno hn hrest ih =>
    obtain ⟨rets, e1, e2, e3, e4, e5⟩ := ih hret
    have hext0 := ext_newW w cls cr hc (autoName w cls) k ids.keys (pnames p) (psst p) ids.turns
      (splitChildren w (pnames p) pch)
    have hext := hext0.trans e2
    refine ⟨.ret w.nextId true :: rets, by rw [e1]; simp, hext, e3, e4, .cons ?_ (forall₂_imp (fun a b hab =>
      partRes_mono hext0 hab) e5)⟩
    have hlt := RdL.getElem?_lt _ _ _ hc
    have hcrn : (newW w cls cr (autoName w cls) k ids.keys (pnames p) (psst p) ids.turns
        (splitChildren w (pnames p) pch)).cplxs[cls]? = some (newCR w cls cr (autoName w cls) k ids.keys) := by
      simp only [newW]; rw [List.getElem?_set_self hlt]
    obtain ⟨cr', hcr', hsub⟩ := e2.objs _ hcrn
    refine ⟨w.nextId, true, _, k, cr', { id := w.nextId, name := autoName w cls, canon := k, keys := ids.keys }, rfl, hk,
      e2.state _ _ (lookup_append_new _ w.nextId _ (fun q hq => by have := hs.stateLt q hq; omega)), rfl, hcr',
      hsub _ (by simp [newCR, Reg.register]), rfl, rfl, ?_⟩
    intro cr2 ob2 hcr2 hob2 hk2
    rw [hc] at hcr2; cases hcr2
    exact absurd hk2 (hno ob2 hob2)
  | abort p ps w acc cr on k _ _ _ _ _ _ =>
    obtain ⟨h, b, e⟩ := hret _ (List.mem_singleton.mpr rfl)
    cases e


/-! ### the state entry determines the canonical form -/

theorem canon_of_entry (r : Reg CKey) (h : RegOK r) (ob : Obj CKey) (ho : ob ∈ r.objs) (o : CplxObj)
    (he : EntryOK ob o) : canonOf o.seq o.sst = some ob.canon := by
  obtain ⟨ids0, _, h0⟩ := pure_ids o.seq o.sst he.descr
  have hd' := (C02.descr_iff _ _).mp he.descr
  have := canon_of_hit r h o.seq o.sst he.descr ids0 h0 ob ho (o.seq, o.sst)
    (by rw [C02.orbit_eq, C02.nStrands_eq]; exact Rot.self_mem_orb _ _ hd') he.rot
  unfold canonOf
  rw [h0, this]

/-! ### a run that finds every component alive -/

/-- the worlds differ in handles and registry counters only -/
structure SameLive (w w' : World) : Prop where
  nodes : w'.nodes = w.nodes
  cstate : w'.cstate = w.cstate
  nextId : w'.nextId = w.nextId
  doms : w'.doms = w.doms
  strands : w'.strands = w.strands
  macros : w'.macros = w.macros
  rxns : w'.rxns = w.rxns
  cplxs : ∀ c' : Nat, (w'.cplxs[c']?).map (fun (x : ClassReg CKey) => x.reg.objs) =
    (w.cplxs[c']?).map (fun (x : ClassReg CKey) => x.reg.objs)
  held : ∀ h ∈ w.held, h ∈ w'.held

theorem SameLive.refl (w : World) : SameLive w w :=
  ⟨rfl, rfl, rfl, rfl, rfl, rfl, rfl, fun _ => rfl, fun _ h => h⟩

theorem SameLive.trans {a b c : World} (h1 : SameLive a b) (h2 : SameLive b c) : SameLive a c :=
  ⟨h2.nodes.trans h1.nodes, h2.cstate.trans h1.cstate, h2.nextId.trans h1.nextId, h2.doms.trans h1.doms,
    h2.strands.trans h1.strands, h2.macros.trans h1.macros, h2.rxns.trans h1.rxns,
    fun c' => (h2.cplxs c').trans (h1.cplxs c'), fun h hh => h2.held h (h1.held h hh)⟩

theorem sameLive_oldW (w : World) (c : Nat) (cr : ClassReg CKey) (hc : w.cplxs[c]? = some cr) (id : Nat) :
    SameLive w (oldW w c cr id) := by
  have hlt := RdL.getElem?_lt _ _ _ hc
  refine ⟨rfl, rfl, rfl, rfl, rfl, rfl, rfl, ?_, ?_⟩
  · intro c'
    simp only [oldW, normW]
    by_cases hcc : c' = c
    · subst hcc; rw [List.getElem?_set_self hlt, hc]; rfl
    · rw [List.getElem?_set_ne (fun e => hcc e.symm)]
  · intro h hh
    simp only [oldW]
    split
    · exact hh
    · exact List.mem_append_left _ hh

theorem goRes_repeat {cls : Nat} {pch held0 : List Nat} {ps : List Part} {w : World} {acc : List Out}
    {res : World × List Out} (h : GoRes cls pch held0 ps w acc res) (objs : List (Obj CKey))
    (hc : ∃ cr, w.cplxs[cls]? = some cr ∧ cr.reg.objs = objs)
    (hfree : ∀ ob ∈ objs, ob.name ≠ autoName w cls)
    (hex : ∀ p ∈ ps, ∃ ob ∈ objs, canonOf (pnames p) (psst p) = some ob.canon) :
    ∃ rets, res.2 = acc ++ rets ∧ SameLive w res.1 ∧
      All2 (fun p out => ∃ ob ∈ objs, canonOf (pnames p) (psst p) = some ob.canon ∧ out = .ret ob.id false) ps rets := by
  induction h with
  | nil w acc hw hs => exact ⟨[], by simp, SameLive.refl _, .nil⟩
  | old p ps w acc res cr ob k hw hs hc' hk hob hcan hn hrest ih =>
    obtain ⟨cr0, hc0, ho0⟩ := hc
    rw [hc'] at hc0; cases hc0
    have hlt := RdL.getElem?_lt _ _ _ hc'
    obtain ⟨rets, e1, e2, e3⟩ := ih
      ⟨{ cr with reg := { cr.reg with autoId := World.effId w.cplxs 5 cls } },
        by simp only [oldW, normW]; rw [List.getElem?_set_self hlt], ho0⟩
      (by intro ob' ho'; rw [autoName_oldW w cls cr hc' ob.id cls]; exact hfree ob' ho')
      (fun q hq => hex q (List.mem_cons_of_mem _ hq))
    refine ⟨.ret ob.id false :: rets, by rw [e1]; simp, (sameLive_oldW w cls cr hc' ob.id).trans e2, .cons ?_ e3⟩
    exact ⟨ob, by rw [← ho0]; exact hob, by rw [hk, hcan], rfl⟩
  | new p ps w acc res cr ids k hw hs hc' hk hno hn hrest ih =>
    exfalso
    obtain ⟨cr0, hc0, ho0⟩ := hc
    rw [hc'] at hc0; cases hc0
    obtain ⟨ob, hob, hcan⟩ := hex p (by simp)
    rw [hk] at hcan
    exact hno ob (by rw [ho0]; exact hob) (Option.some.inj hcan).symm
  | abort p ps w acc cr on k hw hs hc' hk hn hne =>
    exfalso
    obtain ⟨cr0, hc0, ho0⟩ := hc
    rw [hc'] at hc0; cases hc0
    obtain ⟨h1, h2⟩ := Reg.findName_some _ _ on hn
    exact hfree on (by rw [← ho0]; exact h1) h2

/-! ### a run that ends with the refusal -/

theorem goRes_abort {cls : Nat} {pch held0 : List Nat} {ps : List Part} {w : World} {acc : List Out}
    {res : World × List Out} (h : GoRes cls pch held0 ps w acc res) (hacc : ∀ o ∈ acc, IsRet o)
    (he : res.2 = [.singletonErr none]) :
    ∃ (wk : World) (cr : ClassReg CKey) (on : Obj CKey) (p : Part) (k : CKey), Ext cls w wk ∧ p ∈ ps ∧
      RdL.WOK wk ∧ CplxStateOK wk ∧ wk.cplxs[cls]? = some cr ∧ canonOf (pnames p) (psst p) = some k ∧
      cr.reg.findName (autoName wk cls) = some on ∧ on.canon ≠ k ∧ res.1 = abortW (normW wk cls cr) held0 := by
  induction h with
  | nil w acc hw hs =>
    exfalso
    simp only at he
    obtain ⟨_, _, e⟩ := hacc (.singletonErr none) (by rw [he]; simp)
    cases e
  | old p ps w acc res cr ob k hw hs hc hk hob hcan hn hrest ih =>
    obtain ⟨wk, cr', on, q, k', a1, a2, a3, a4, a5, a6, a7, a8, a9⟩ := ih (by
      intro o ho
      rcases List.mem_append.mp ho with ho | ho
      · exact hacc o ho
      · simp only [List.mem_singleton] at ho; exact ⟨_, _, ho⟩) he
    exact ⟨wk, cr', on, q, k', (ext_oldW w cls cr hc ob.id).trans a1, List.mem_cons_of_mem _ a2, a3, a4, a5, a6, a7, a8, a9⟩
  | new p ps w acc res cr ids k hw hs hc hk hno hn hrest ih =>
    obtain ⟨wk, cr', on, q, k', a1, a2, a3, a4, a5, a6, a7, a8, a9⟩ := ih (by
      intro o ho
      rcases List.mem_append.mp ho with ho | ho
      · exact hacc o ho
      · simp only [List.mem_singleton] at ho; exact ⟨_, _, ho⟩) he
    exact ⟨wk, cr', on, q, k', (ext_newW w cls cr hc _ _ _ _ _ _ _).trans a1, List.mem_cons_of_mem _ a2, a3, a4, a5, a6,
      a7, a8, a9⟩
  | abort p ps w acc cr on k hw hs hc hk hn hne =>
    exact ⟨w, cr, on, p, k, Ext.refl _ _, by simp, hw, hs, hc, hk, hn, hne, rfl⟩


end Dsd.SplitObj
