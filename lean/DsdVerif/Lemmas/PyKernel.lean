/-
The machine-generated statement-level translation of `resolve_kernel_loops` (Gen/PyKernel.lean, from dsdobjects/objectio.py) is
the hand-written model `resolveKernel` (Model/Kernel.lean) with the SAME recursion budget, for every token forest whose names are
non-empty and do not begin with a star (what the PIL grammar yields).  The model is total on names: it takes `compName ""` to be
`"*"` where the code evaluates `old[-1]` of the empty str, an IndexError; the two differ exactly there (witnesses in
Props/PyKernel.lean).  `struct[-1] = '('` on an empty list (a group that nothing precedes) is an IndexError on both sides.
-/
import DsdVerif.Gen.PyKernel
import DsdVerif.Model.Kernel

namespace Dsd.PyKernelL
open Dsd Dsd.PP Dsd.Gen

/-- a name that is not empty and does not begin with `*` (every PIL identifier, starred or not, and `+`) -/
def GoodName (n : String) : Bool :=
  match n.toList with
  | [] => false
  | c :: _ => c != '*'

mutual
/-- every name of the item, at any depth, is a `GoodName` -/
def treeOk : Tree → Bool
  | .tok s => GoodName s
  | .grp ts => forestOk ts
/-- every name of the forest, at any depth, is a `GoodName` -/
def forestOk : List Tree → Bool
  | [] => true
  | t :: ts => treeOk t && forestOk ts
end

theorem forestOk_cons (t : Tree) (ts : List Tree) : forestOk (t :: ts) = (treeOk t && forestOk ts) := by simp [forestOk]
theorem treeOk_grp (ts : List Tree) : treeOk (.grp ts) = forestOk ts := by simp [treeOk]
theorem treeOk_tok (s : String) : treeOk (.tok s) = GoodName s := by simp [treeOk]

/-! ### the model as a fold over an explicit step function -/

/-- the step of the model's fold (the `fun acc t => …` of `resolveKernel`, with the function for the nested lists as a parameter) -/
def mstep (rec : List Tree → Except Err (List String × List Char)) (acc : List String × List Char) (t : Tree) :
    Except Err (List String × List Char) :=
  match t with
  | .tok s => .ok (acc.1 ++ [s], acc.2 ++ [if s == "+" then '+' else '.'])
  | .grp inner =>
    match acc.1.getLast? with
    | none => .error (.fault "IndexError")
    | some old =>
      match rec inner with
      | .error e => .error e
      | .ok (se, ss) =>
        .ok (acc.1 ++ se ++ [compName old], (acc.2.dropLast ++ ['(']) ++ ss ++ [')'])

theorem resolveKernel_succ (fuel : Nat) (toks : List Tree) :
    resolveKernel (fuel + 1) toks = toks.foldlM (mstep (resolveKernel fuel)) ([], []) := by
  rw [resolveKernel]; rfl

/-- the part of the local variables that the function returns -/
def proj (v : resolve_kernel_loops.Vars) : List String × List Char := (v.sequen, v.struct)

theorem py_succ (fuel : Nat) (toks : List Tree) :
    py_resolve_kernel_loops (fuel + 1) toks =
      (List.foldlM (resolve_kernel_loops.loop1 (py_resolve_kernel_loops fuel) toks) { sequen := [], struct := [] } toks).map proj := by
  rw [py_resolve_kernel_loops]
  simp only [bind, Except.bind, pure, Except.pure, Except.map, proj]

/-! ### names -/

theorem goodName_ne_nil (n : String) (h : GoodName n = true) : ∃ c cs, n.toList = c :: cs ∧ c ≠ '*' := by
  unfold GoodName at h
  cases e : n.toList with
  | nil => rw [e] at h; cases h
  | cons c cs => rw [e] at h; exact ⟨c, cs, rfl, by simpa using h⟩

/-- `old + '*' if old[-1] != '*' else old[:-1]` of a non-empty name is the model's `compName` -/
theorem comp_eq (old : String) (c : Char) (hc : old.toList.getLast? = some c) :
    (if (c != '*') = true then old ++ "*" else Py.strDropLast old) = compName old := by
  unfold compName cnameOf isStarred Py.strDropLast
  rw [hc]
  by_cases h : c = '*'
  · subst h; simp
  · have : (some c == some '*') = false := by simp [h]
    simp [h, this]

/-- the complement name of a good name is a good name -/
theorem goodName_comp (n : String) (h : GoodName n = true) : GoodName (compName n) = true := by
  obtain ⟨c, cs, e, hc⟩ := goodName_ne_nil n h
  unfold compName cnameOf isStarred
  split
  · rename_i hs
    unfold GoodName
    rw [String.toList_ofList, e]
    cases cs with
    | nil => rw [e] at hs; simp at hs; exact absurd hs hc
    | cons d ds => simp [List.dropLast, hc]
  · unfold GoodName
    rw [String.toList_append, e]
    simp [hc]

/-! ### one iteration -/

theorem step_tok (recur : List Tree → Py.M (List String × List Char)) (lp : List Tree) (v : resolve_kernel_loops.Vars)
    (s : String) :
    resolve_kernel_loops.loop1 recur lp v (.tok s) =
      .ok { v with sequen := v.sequen ++ [s], struct := v.struct ++ [if s == "+" then '+' else '.'] } := by
  unfold resolve_kernel_loops.loop1
  by_cases h : (s == "+") = true
  · simp [h, pure, Except.pure]
  · simp [h, pure, Except.pure]

/-- a nested list when nothing precedes it: IndexError (from `struct[-1] = '('`) -/
theorem step_grp_empty (recur : List Tree → Py.M (List String × List Char)) (lp : List Tree) (v : resolve_kernel_loops.Vars)
    (ts : List Tree) (h : v.struct = []) :
    resolve_kernel_loops.loop1 recur lp v (.grp ts) = .error (.fault "IndexError") := by
  unfold resolve_kernel_loops.loop1
  simp [h, Py.setLast, bind, Except.bind, throw, throwThe, MonadExceptOf.throw]

/-- `struct` is non-empty but `sequen` is empty (never happens from the initial state): IndexError from `sequen[-1]` -/
theorem step_grp_noname (recur : List Tree → Py.M (List String × List Char)) (lp : List Tree) (v : resolve_kernel_loops.Vars)
    (ts : List Tree) (h : v.sequen = []) :
    resolve_kernel_loops.loop1 recur lp v (.grp ts) = .error (.fault "IndexError") := by
  unfold resolve_kernel_loops.loop1
  cases hs : v.struct with
  | nil => simp [hs, Py.setLast, bind, Except.bind, throw, throwThe, MonadExceptOf.throw]
  | cons a l => simp [hs, h, Py.setLast, Py.last, bind, Except.bind, pure, Except.pure, throw, throwThe, MonadExceptOf.throw]

/-- the nested list raises: the same exception -/
theorem step_grp_err (recur : List Tree → Py.M (List String × List Char)) (lp : List Tree) (v : resolve_kernel_loops.Vars)
    (ts : List Tree) (a : Char) (l : List Char) (old : String) (e : Err)
    (hs : v.struct = a :: l) (ho : v.sequen.getLast? = some old) (hr : recur ts = .error e) :
    resolve_kernel_loops.loop1 recur lp v (.grp ts) = .error e := by
  unfold resolve_kernel_loops.loop1
  simp [hs, ho, hr, Py.setLast, Py.last, bind, Except.bind, pure, Except.pure]

/-- the regular case: the name before the nested list is not empty -/
theorem step_grp_ok (recur : List Tree → Py.M (List String × List Char)) (lp : List Tree) (v : resolve_kernel_loops.Vars)
    (ts : List Tree) (a : Char) (l : List Char) (old : String) (c : Char) (se : List String) (ss : List Char)
    (hs : v.struct = a :: l) (ho : v.sequen.getLast? = some old) (hr : recur ts = .ok (se, ss))
    (hc : old.toList.getLast? = some c) :
    (resolve_kernel_loops.loop1 recur lp v (.grp ts)).map proj =
      .ok (v.sequen ++ se ++ [compName old], (v.struct.dropLast ++ ['(']) ++ ss ++ [')']) := by
  unfold resolve_kernel_loops.loop1
  rw [← comp_eq old c hc]
  simp [hs, ho, hr, hc, Py.setLast, Py.last, Py.strLast, bind, Except.bind, pure, Except.pure, Except.map, proj]

/-- the name before the nested list is EMPTY: IndexError (from `old[-1]`) - here the model goes on with `"*"` -/
theorem step_grp_emptyname (recur : List Tree → Py.M (List String × List Char)) (lp : List Tree) (v : resolve_kernel_loops.Vars)
    (ts : List Tree) (a : Char) (l : List Char) (old : String) (se : List String) (ss : List Char)
    (hs : v.struct = a :: l) (ho : v.sequen.getLast? = some old) (hr : recur ts = .ok (se, ss))
    (hc : old.toList.getLast? = none) :
    resolve_kernel_loops.loop1 recur lp v (.grp ts) = .error (.fault "IndexError") := by
  unfold resolve_kernel_loops.loop1
  simp [hs, ho, hr, hc, Py.setLast, Py.last, Py.strLast, bind, Except.bind, pure, Except.pure, throw, throwThe, MonadExceptOf.throw]

/-! ### the loop -/

theorem map_ok {α β} {x : Except Err α} {f : α → β} {b : β} (h : x.map f = .ok b) : ∃ a, x = .ok a ∧ f a = b := by
  cases x with
  | error e => cases h
  | ok a => exact ⟨a, rfl, by simpa [Except.map] using h⟩

/-- what the loop keeps true: `struct` is empty only if `sequen` is (they grow together), and the last name is a good name -/
structure Inv (v : resolve_kernel_loops.Vars) : Prop where
  emp : v.struct = [] → v.sequen = []
  last : ∀ old, v.sequen.getLast? = some old → GoodName old = true

theorem goodName_last (old : String) (h : GoodName old = true) : ∃ c, old.toList.getLast? = some c := by
  obtain ⟨c, cs, e, _⟩ := goodName_ne_nil old h
  rw [e]
  cases hl : (c :: cs).getLast? with
  | none => simp at hl
  | some d => exact ⟨d, rfl⟩

/-- the translated loop is the model's fold, from any state that satisfies the invariant, given that the function used for the
    nested lists is the model's -/
theorem fold_eq (recur mrec : List Tree → Except Err (List String × List Char)) (lp : List Tree)
    (hrec : ∀ ts, forestOk ts = true → recur ts = mrec ts) :
    ∀ (rest : List Tree) (v : resolve_kernel_loops.Vars), forestOk rest = true → Inv v →
      (List.foldlM (resolve_kernel_loops.loop1 recur lp) v rest).map proj = List.foldlM (mstep mrec) (proj v) rest := by
  intro rest
  induction rest with
  | nil => intro v _ _; rfl
  | cons t rest ih =>
    intro v hok hinv
    rw [forestOk_cons, Bool.and_eq_true] at hok
    obtain ⟨hk1, hk2⟩ := hok
    rw [List.foldlM_cons, List.foldlM_cons]
    cases t with
    | tok s =>
      rw [step_tok]
      rw [treeOk_tok] at hk1
      have hm : mstep mrec (proj v) (.tok s) =
          .ok (proj { v with sequen := v.sequen ++ [s], struct := v.struct ++ [if s == "+" then '+' else '.'] }) := rfl
      rw [hm]
      show Except.map proj (List.foldlM _ _ rest) = List.foldlM _ _ rest
      apply ih _ hk2
      constructor
      · intro h; simp at h
      · intro old h
        simp at h
        rw [← h]; exact hk1
    | grp ts =>
      rw [treeOk_grp] at hk1
      cases hs : v.struct with
      | nil =>
        have hq := hinv.emp hs
        rw [step_grp_empty _ _ _ _ hs]
        have hm : mstep mrec (proj v) (.grp ts) = .error (.fault "IndexError") := by
          simp [mstep, proj, hq]
        rw [hm]; rfl
      | cons a l =>
        cases ho : v.sequen.getLast? with
        | none =>
          have hq : v.sequen = [] := List.getLast?_eq_none_iff.mp ho
          rw [step_grp_noname _ _ _ _ hq]
          have hm : mstep mrec (proj v) (.grp ts) = .error (.fault "IndexError") := by
            simp [mstep, proj, hq]
          rw [hm]; rfl
        | some old =>
          have hr0 := hrec ts hk1
          cases hr : mrec ts with
          | error e =>
            rw [hr] at hr0
            rw [step_grp_err _ _ _ _ a l old e hs ho hr0]
            have hm : mstep mrec (proj v) (.grp ts) = .error e := by
              simp [mstep, proj, ho, hr]
            rw [hm]; rfl
          | ok r =>
            obtain ⟨se, ss⟩ := r
            rw [hr] at hr0
            have hg := hinv.last old ho
            obtain ⟨c, hc⟩ := goodName_last old hg
            obtain ⟨v', hv1, hv2⟩ := map_ok (step_grp_ok recur lp v ts a l old c se ss hs ho hr0 hc)
            have hm : mstep mrec (proj v) (.grp ts) = .ok (proj v') := by
              rw [hv2]; simp [mstep, proj, ho, hr]
            rw [hv1, hm]
            show Except.map proj (List.foldlM _ _ rest) = List.foldlM _ _ rest
            apply ih _ hk2
            have h1 : v'.sequen = v.sequen ++ se ++ [compName old] := congrArg Prod.fst hv2
            have h2 : v'.struct = (v.struct.dropLast ++ ['(']) ++ ss ++ [')'] := congrArg Prod.snd hv2
            constructor
            · intro h; rw [h2] at h; simp at h
            · intro o h
              rw [h1] at h; simp at h
              rw [← h]; exact goodName_comp old hg

/-- **the translation is the model**, with the same recursion budget, on every forest of good names -/
theorem py_eq_model (fuel : Nat) : ∀ toks : List Tree, forestOk toks = true →
    py_resolve_kernel_loops fuel toks = resolveKernel fuel toks := by
  induction fuel with
  | zero => intro toks _; rfl
  | succ fuel ih =>
    intro toks h
    rw [py_succ, resolveKernel_succ]
    exact fold_eq (py_resolve_kernel_loops fuel) (resolveKernel fuel) toks ih toks _ h
      ⟨fun _ => rfl, fun old ho => by simp at ho⟩

/-! ### without any hypothesis on the names: the translation agrees with the model or raises IndexError -/

theorem fold_total (recur mrec : List Tree → Except Err (List String × List Char)) (lp : List Tree)
    (hrec : ∀ ts, recur ts = mrec ts ∨ recur ts = .error (.fault "IndexError")) :
    ∀ (rest : List Tree) (v : resolve_kernel_loops.Vars), (v.struct = [] → v.sequen = []) →
      Except.map proj (List.foldlM (resolve_kernel_loops.loop1 recur lp) v rest) = List.foldlM (mstep mrec) (proj v) rest ∨
      List.foldlM (resolve_kernel_loops.loop1 recur lp) v rest = .error (.fault "IndexError") := by
  intro rest
  induction rest with
  | nil => intro v _; exact Or.inl rfl
  | cons t rest ih =>
    intro v hinv
    cases t with
    | tok s =>
      rw [List.foldlM_cons, List.foldlM_cons, step_tok]
      have hm : mstep mrec (proj v) (.tok s) =
          .ok (proj { v with sequen := v.sequen ++ [s], struct := v.struct ++ [if s == "+" then '+' else '.'] }) := rfl
      rw [hm]
      exact ih _ (by intro h; simp at h)
    | grp ts =>
      cases hs : v.struct with
      | nil =>
        right
        rw [List.foldlM_cons, step_grp_empty _ _ _ _ hs]; rfl
      | cons a l =>
        cases ho : v.sequen.getLast? with
        | none =>
          right
          have hq : v.sequen = [] := List.getLast?_eq_none_iff.mp ho
          rw [List.foldlM_cons, step_grp_noname _ _ _ _ hq]; rfl
        | some old =>
          rcases hrec ts with hr0 | hr0
          · cases hr : mrec ts with
            | error e =>
              left
              rw [hr] at hr0
              rw [List.foldlM_cons, List.foldlM_cons, step_grp_err _ _ _ _ a l old e hs ho hr0]
              have hm : mstep mrec (proj v) (.grp ts) = .error e := by
                simp [mstep, proj, ho, hr]
              rw [hm]; rfl
            | ok r =>
              obtain ⟨se, ss⟩ := r
              rw [hr] at hr0
              cases hc : old.toList.getLast? with
              | none =>
                right
                rw [List.foldlM_cons, step_grp_emptyname _ _ _ _ a l old se ss hs ho hr0 hc]; rfl
              | some c =>
                obtain ⟨v', hv1, hv2⟩ := map_ok (step_grp_ok recur lp v ts a l old c se ss hs ho hr0 hc)
                have hm : mstep mrec (proj v) (.grp ts) = .ok (proj v') := by
                  rw [hv2]; simp [mstep, proj, ho, hr]
                rw [List.foldlM_cons, List.foldlM_cons, hv1, hm]
                have h2 : v'.struct = (v.struct.dropLast ++ ['(']) ++ ss ++ [')'] := congrArg Prod.snd hv2
                exact ih _ (by intro h; rw [h2] at h; simp at h)
          · right
            rw [List.foldlM_cons, step_grp_err _ _ _ _ a l old _ hs ho hr0]; rfl

/-- for EVERY forest and budget the translation answers like the model or raises IndexError -/
theorem py_eq_model_or_index_error (fuel : Nat) : ∀ toks : List Tree,
    py_resolve_kernel_loops fuel toks = resolveKernel fuel toks ∨
    py_resolve_kernel_loops fuel toks = .error (.fault "IndexError") := by
  induction fuel with
  | zero => intro toks; exact Or.inl rfl
  | succ fuel ih =>
    intro toks
    rw [py_succ, resolveKernel_succ]
    rcases fold_total (py_resolve_kernel_loops fuel) (resolveKernel fuel) toks ih toks
        { sequen := [], struct := [] } (fun _ => rfl) with h | h
    · exact Or.inl h
    · right; rw [h]; rfl

end Dsd.PyKernelL
