/-
`DSD_Complex.__init__` as translated from the source (Gen/PyLegacyInit.lean) is the model's `construct` (Model/LegacyFull.lean):
the new object or the exception, and the class variables afterwards - for every class state whose `MEMORY` has pairwise different
keys (the reading of a Python dict as an item list).
-/
import DsdVerif.Gen.PyLegacyInit
import DsdVerif.Lemmas.PyLegacyRegCanon
import DsdVerif.Lemmas.LegacyConstruct

set_option linter.unusedSimpArgs false

namespace Dsd.PyLegacyInit
open Dsd Dsd.Gen Dsd.Lg Dsd.LgL Dsd.PyLegacy Dsd.PyLegacyReg Dsd.PyObj.Basic

/-- on an absent key both dict writes append -/
theorem dictSet_absent {κ ν} [BEq κ] (l : List (κ × ν)) (k : κ) (v : ν) (h : Py.dictHas l k = false) :
    Py.dictSet l k v = l ++ [(k, v)] := by
  unfold Py.dictSet; simp only [h, Bool.false_eq_true, if_false]

theorem dictPut_absent {κ ν} [BEq κ] [LawfulBEq κ] [DecidableEq κ] : ∀ (l : List (κ × ν)) (k : κ) (v : ν), l.lookup k = none →
    dictPut l k v = l ++ [(k, v)] := by
  intro l
  induction l with
  | nil => intro k v _; rfl
  | cons p l ih =>
    intro k v h
    obtain ⟨k', v'⟩ := p
    simp only [List.lookup_cons] at h
    by_cases hk : k = k'
    · subst hk; simp at h
    · have : (k == k') = false := by simpa using hk
      rw [this] at h
      simp only [dictPut, List.cons_append]
      rw [if_neg (fun e => hk e.symm), ih k v h]

/-- a key that is present, in a dict with pairwise different keys -/
theorem dictSet_present {κ ν μ} [BEq κ] [LawfulBEq κ] [DecidableEq κ] (f : ν → μ) : ∀ (l : List (κ × ν)) (k : κ) (v : ν),
    (l.map (·.1)).Nodup → (l.lookup k).isSome = true →
    Py.dictSet (l.map (fun p => (p.1, f p.2))) k (f v) = (dictPut l k v).map (fun p => (p.1, f p.2)) := by
  intro l k v hn hs
  unfold Py.dictSet
  have hh : Py.dictHas (l.map (fun p => (p.1, f p.2))) k = true := by
    unfold Py.dictHas; rw [lookup_map]; simpa using hs
  simp only [hh, if_true]
  clear hh
  induction l with
  | nil => simp at hs
  | cons p l ih =>
    obtain ⟨k', v'⟩ := p
    simp only [List.map_cons, List.nodup_cons] at hn
    by_cases hk : k' = k
    · subst hk
      simp only [List.map_cons, dictPut, if_true, beq_self_eq_true]
      congr 1
      -- no other item has this key
      rw [List.map_map]
      apply List.map_congr_left
      intro q hq
      have : q.1 ≠ k' := fun e => hn.1 (by rw [← e]; exact List.mem_map_of_mem hq)
      simp [this]
    · have hb : (k' == k) = false := by simpa using hk
      have hb' : (k == k') = false := by simpa using (fun e : k = k' => hk e.symm)
      simp only [List.lookup_cons, hb'] at hs
      simp only [List.map_cons, dictPut, hb, Bool.false_eq_true, if_false, hk]
      congr 1
      exact ih hn.2 hs

end Dsd.PyLegacyInit
