/-
(d) the translated `Singleton.__call__` on a class that represents a registry: the class afterwards, EXACTLY - unchanged unless an
object is created, and then both dictionaries get one new entry (no keys registered by `__init__`).
-/
import DsdVerif.Lemmas.PyDomainEqReq

namespace Dsd.PyDomainEq
open Dsd Dsd.Gen Dsd.PySingletonL
variable {κ : Type} [DecidableEq κ]

set_option maxHeartbeats 1000000 in
theorem call_exact (s : Py.SingletonCls κ) (r : Reg κ) (h : Rep s r) (canon : Option κ) (name : String) (fresh : Nat) (auto : Bool) :
    ((py_Singleton_call canon name fresh []).exec s).2 =
      match (r.callFull canon name fresh [] auto).2, canon with
      | .ret _ true, some k =>
        { _instanceNames := Py.dictSet s._instanceNames name fresh, _instanceCanon := Py.dictSet s._instanceCanon k fresh }
      | _, _ => s := by
  unfold py_Singleton_call
  simp only [exec_ite, exec_bind, exec_get, exec_pure, exec_throw, exec_lift, exec_modify, exec_construct]
  simp only [Py.dictHas, Py.dictHasO, Py.dictGetOpt, Py.dictGetOptO, Py.dictGet, Py.dictGetKO, Py.unwrap, Py.keyOf, Py.attrOf]
  cases canon with
  | none =>
    cases hne : name.isEmpty <;> unfold Reg.callFull
    <;> simp only [hne, Bool.not_false, Bool.not_true, Option.isSome_none, Bool.and_false, Bool.false_eq_true, if_false, if_true,
      h.names name]
    <;> first
      | (cases hn : r.findName name <;> simp [pure, Except.pure])
      | simp
  | some k =>
    cases hne : name.isEmpty <;> cases hn : r.findName name <;> cases hc : r.findCanon k
    all_goals
      unfold Reg.callFull
      simp only [hne, hn, hc, Bool.not_false, Bool.not_true, Option.isSome_some, Option.isSome_none, Bool.and_true, Bool.and_self,
        Bool.and_false, Bool.false_eq_true, if_false, if_true, h.names name, h.canon k]
      simp [pure, Except.pure]
      try (split <;> simp_all)

end Dsd.PyDomainEq
