/-
The `reaction` branch of the translated `read_pil_line` for an IGNORED reaction: the statement is handed back, as in the model (`RObj.other`).
-/
import DsdVerif.Lemmas.PyReadLine3
import DsdVerif.Props.PyReaderFns

namespace Dsd.PyReadLineL
open Dsd Dsd.PP Dsd.Gen Dsd.ReaderFull

theorem exec_lift_ok {α} (x : α) (s : RState) :
    Py.MS.exec (liftM (Except.ok x : Except Err α) : Py.MS RState α) s = (.ok x, s) := rfl

theorem reaction_ignored_eq (sl : Slots) (g12 : Py.FloatLit → String) (strL : List Tree → String) (nameT : Tree) (rest : List Tree) (s : RState)
    (hT : PyReaderFnsL.lineTyped (.tok "reaction" :: nameT :: rest) = true)
    (hm : readReaction (.tok "reaction" :: nameT :: rest) = .ok (none, none, none)) :
    Py.MS.exec (py_read_pil_line (modelEnv sl Gen.rtypes g12 strL) (.tok "reaction" :: nameT :: rest)) s =
      outOf (.tok "reaction" :: nameT :: rest) (s.readLineFull sl (.tok "reaction" :: nameT :: rest)) := by
  have h6 := PyReaderFns.py_ignored_reaction_six_nones g12 strL _ hT hm
  simp [py_read_pil_line, modelEnv, Py.idx, Py.treeEqStr, RState.readLineFull, item, isStr, lineReaction, outOf, hm, h6]
  simp [exec_bind, exec_lift_ok, exec_pure]

end Dsd.PyReadLineL
