/-
End-to-end reading of declared systems (C14, "sigma" theorems), part 15: documents with reactions.
-/
import DsdVerif.Lemmas.ReaderSigmaRxn

namespace Dsd.Sig
open Dsd Dsd.PP Dsd.RState

/-- a reaction with an info box `[type = rate /units]` -/
structure RDecl where
  ty : String
  rate : String
  units : String
  reactants : List String
  products : List String

def RDecl.cond (R : RDecl) : Bool := R.ty == "condensed"

def mResolve (b : Nat) (MS : List MDecl) (n : String) : Nat := ((mDict b MS).lookup n).getD 0

def mCanonOf (C : List CSpec) (MS : List MDecl) (n : String) : MKey :=
  ((MS.find? (fun M => M.name == n)).map (fun M => macroCanon (msOf C M))).getD []

/-- a member as the reaction constructor sees it: name and canonical form (of a complex, or of a macrostate for a
    condensed reaction) -/
def memOf (C : List CSpec) (MS : List MDecl) (cond : Bool) (n : String) : String × MemKey :=
  if cond then (n, .m (mCanonOf C MS n)) else (n, .c (cCanonOf C n))

def memId (b4 b6 : Nat) (C : List CSpec) (MS : List MDecl) (cond : Bool) (n : String) : Nat :=
  if cond then mResolve b6 MS n else cResolve b4 C n

def rsOf (C : List CSpec) (MS : List MDecl) (R : RDecl) : List (String × MemKey) := R.reactants.map (memOf C MS R.cond)
def psOf (C : List CSpec) (MS : List MDecl) (R : RDecl) : List (String × MemKey) := R.products.map (memOf C MS R.cond)

def rCanon (C : List CSpec) (MS : List MDecl) (R : RDecl) : RKey := rxnCanonOf (rsOf C MS R) (psOf C MS R) R.ty
def rName (C : List CSpec) (MS : List MDecl) (R : RDecl) : String := rxnNameOf (rsOf C MS R) (psOf C MS R) R.ty

def rChildren (b4 b6 : Nat) (C : List CSpec) (MS : List MDecl) (R : RDecl) : List Nat :=
  R.reactants.map (memId b4 b6 C MS R.cond) ++ R.products.map (memId b4 b6 C MS R.cond)

def rObjs (b : Nat) (C : List CSpec) (MS : List MDecl) (RS : List RDecl) : List (Obj RKey) :=
  RS.zipIdx.map (fun p => newRxn (b + p.2) (rsOf C MS p.1) (psOf C MS p.1) p.1.ty)

def rNodes (cr b4 b6 b : Nat) (C : List CSpec) (MS : List MDecl) (RS : List RDecl) : List Node :=
  RS.zipIdx.map (fun p => rxnNode (b + p.2) cr (rChildren b4 b6 C MS p.1))

def rRates (b : Nat) (RS : List RDecl) : List (Nat × (String × Option String)) :=
  RS.zipIdx.map (fun p => (b + p.2, (p.1.rate, some p.1.units)))

def rDet (b : Nat) (RS : List RDecl) : List Nat := RS.zipIdx.filterMap (fun p => if p.1.cond then none else some (b + p.2))
def rCon (b : Nat) (RS : List RDecl) : List Nat := RS.zipIdx.filterMap (fun p => if p.1.cond then some (b + p.2) else none)

def base7 (ds : List Decl) (ss : List SDecl) (C : List CSpec) (MS : List MDecl) : Nat := base6 ds ss C + MS.length

def P7 (cd cst cc cm cr : Nat) (ds : List Decl) (ss : List SDecl) (C : List CSpec) (MS : List MDecl) (RS : List RDecl) :
    DW6 :=
  { cd := cd, cs := cst, cc := cc, cm := cm, cr := cr, dobjs := dObjs ds, sobjs := sObjs ds ss,
    cobjs := cObjs (base4 ds ss) C, mobjs := mObjs (base6 ds ss C) C MS,
    robjs := rObjs (base7 ds ss C MS) C MS RS,
    nodes := (P6 cd cst cc cm cr ds ss C MS).nodes ++
      rNodes cr (base4 ds ss) (base6 ds ss C) (base7 ds ss C MS) C MS RS,
    held := List.range (base7 ds ss C MS + RS.length), next := base7 ds ss C MS + RS.length,
    cstate := cStates (base4 ds ss) C }

def S7 (cd cst cc cm cr : Nat) (ds : List Decl) (ss : List SDecl) (C : List CSpec) (MS : List MDecl) (RS : List RDecl)
    (conc : List (Nat × (String × String × String))) : RState :=
  { w := (P7 cd cst cc cm cr ds ss C MS RS).world, dseq := dSeq ds, conc := conc,
    rate := rRates (base7 ds ss C MS) RS }

def D7 (ds : List Decl) (ss : List SDecl) (C : List CSpec) (MS : List MDecl) (RS : List RDecl) (oth : Nat) : RDict :=
  { domains := dDict ds, strands := sDict ds ss, complexes := cDict (base4 ds ss) C,
    macrostates := mDict (base6 ds ss C) MS, det := rDet (base7 ds ss C MS) RS, con := rCon (base7 ds ss C MS) RS,
    other := oth }

theorem S7_nil (cd cst cc cm cr : Nat) (ds : List Decl) (ss : List SDecl) (C : List CSpec) (MS : List MDecl)
    (conc : List (Nat × (String × String × String))) :
    S7 cd cst cc cm cr ds ss C MS [] conc = S6 cd cst cc cm cr ds ss C MS conc := by
  unfold S7 S6
  have e : P7 cd cst cc cm cr ds ss C MS [] = P6 cd cst cc cm cr ds ss C MS := by
    simp [P7, P6, rObjs, rNodes, base7]
  rw [e]; rfl

theorem D7_nil (ds : List Decl) (ss : List SDecl) (C : List CSpec) (MS : List MDecl) :
    D7 ds ss C MS [] 0 = D6 ds ss C MS := rfl

/-! ### membership -/

theorem rObjs_mem (b : Nat) (C : List CSpec) (MS : List MDecl) (RS : List RDecl) (o : Obj RKey)
    (ho : o ∈ rObjs b C MS RS) : ∃ j R, RS[j]? = some R ∧ o = newRxn (b + j) (rsOf C MS R) (psOf C MS R) R.ty := by
  obtain ⟨j, R, hj, rfl⟩ := (mem_zipIdx_map RS _ o).mp ho
  exact ⟨j, R, hj, rfl⟩

theorem rDet_lt (b : Nat) (RS : List RDecl) : ∀ i ∈ rDet b RS, i < b + RS.length := by
  intro i hi
  unfold rDet at hi
  rw [List.mem_filterMap] at hi
  obtain ⟨⟨R, j⟩, hm, he⟩ := hi
  have hj := getElem?_lt' _ _ _ (List.mem_zipIdx_iff_getElem?.mp hm)
  cases hc : R.cond <;> simp [hc] at he
  omega

theorem rCon_lt (b : Nat) (RS : List RDecl) : ∀ i ∈ rCon b RS, i < b + RS.length := by
  intro i hi
  unfold rCon at hi
  rw [List.mem_filterMap] at hi
  obtain ⟨⟨R, j⟩, hm, he⟩ := hi
  have hj := getElem?_lt' _ _ _ (List.mem_zipIdx_iff_getElem?.mp hm)
  cases hc : R.cond <;> simp [hc] at he
  omega

theorem rxn_listed (b : Nat) (RS : List RDecl) (j : Nat) (R : RDecl) (hj : RS[j]? = some R) :
    (R.cond = true → b + j ∈ rCon b RS ∧ b + j ∉ rDet b RS) ∧
    (R.cond = false → b + j ∈ rDet b RS ∧ b + j ∉ rCon b RS) := by
  have hmem := List.mem_zipIdx_iff_getElem?.mpr (show RS[((R, j) : RDecl × Nat).2]? = some ((R, j) : RDecl × Nat).1 from hj)
  have hnot : ∀ (f : RDecl × Nat → Option Nat), (∀ p : RDecl × Nat, ∀ v, f p = some v → v = b + p.2 ∧ f p ≠ none) →
      f (R, j) = none → b + j ∉ RS.zipIdx.filterMap f := by
    intro f hf hn hm
    rw [List.mem_filterMap] at hm
    obtain ⟨⟨R', j'⟩, hm', he⟩ := hm
    have h1 := (hf _ _ he).1
    simp only at h1
    have : j' = j := by omega
    subst this
    have := getElem?_det RS j' R R' hj (List.mem_zipIdx_iff_getElem?.mp hm')
    subst this
    rw [hn] at he; cases he
  constructor
  · intro hc
    refine ⟨?_, ?_⟩
    · unfold rCon; rw [List.mem_filterMap]; exact ⟨(R, j), hmem, by simp [hc]⟩
    · unfold rDet
      apply hnot
      · intro p v hv
        cases hp : p.1.cond <;> simp [hp] at hv
        exact ⟨hv.symm, by simp⟩
      · simp [hc]
  · intro hc
    refine ⟨?_, ?_⟩
    · unfold rDet; rw [List.mem_filterMap]; exact ⟨(R, j), hmem, by simp [hc]⟩
    · unfold rCon
      apply hnot
      · intro p v hv
        cases hp : p.1.cond <;> simp [hp] at hv
        exact ⟨hv.symm, by simp⟩
      · simp [hc]

/-! ### nodes and members of the explicit state -/

theorem nodes7_old (cd cst cc cm cr : Nat) (ds : List Decl) (ss : List SDecl) (C : List CSpec) (MS : List MDecl)
    (RS : List RDecl) (i : Nat) (n : Node)
    (h : (P6 cd cst cc cm cr ds ss C MS).nodes.find? (fun m => m.id == i) = some n) :
    (P7 cd cst cc cm cr ds ss C MS RS).nodes.find? (fun m => m.id == i) = some n := by
  show ((P6 cd cst cc cm cr ds ss C MS).nodes ++ rNodes cr (base4 ds ss) (base6 ds ss C) (base7 ds ss C MS) C MS RS).find? _ = _
  rw [List.find?_append, h]; rfl

theorem P6_nodes_lt (cd cst cc cm cr : Nat) (ds : List Decl) (ss : List SDecl) (C : List CSpec) (MS : List MDecl) :
    ∀ n ∈ (P6 cd cst cc cm cr ds ss C MS).nodes, n.id < base7 ds ss C MS := by
  intro n hn
  have hn' : n ∈ dNodes cd ds ++ sNodes cst ds ss ++ cNodes cc (base4 ds ss) C ++
      mNodes cm (base4 ds ss) (base6 ds ss C) C MS := hn
  rw [List.mem_append, List.mem_append, List.mem_append] at hn'
  rcases hn' with ((h | h) | h) | h
  · have := dNodes_id_lt cd ds n h; unfold base7 base6 base4; omega
  · obtain ⟨j, p, hj, rfl⟩ := (mem_zipIdx_map ss _ n).mp h
    have := getElem?_lt' _ _ _ hj
    simp only [strandNode]; unfold base7 base6 base4; omega
  · obtain ⟨j, c, hj, rfl⟩ := cNodes_mem cc _ C n h
    have := getElem?_lt' _ _ _ hj
    simp only [cplxNode]; unfold base7 base6; omega
  · obtain ⟨j, M, hj, rfl⟩ := (mem_zipIdx_map MS _ n).mp h
    have := getElem?_lt' _ _ _ hj
    simp only [macroNode]; unfold base7; omega

theorem nodes7_rxn (cd cst cc cm cr : Nat) (ds : List Decl) (ss : List SDecl) (C : List CSpec) (MS : List MDecl)
    (RS : List RDecl) (j : Nat) (R : RDecl) (hj : RS[j]? = some R) :
    (P7 cd cst cc cm cr ds ss C MS RS).nodes.find? (fun m => m.id == base7 ds ss C MS + j) =
      some (rxnNode (base7 ds ss C MS + j) cr (rChildren (base4 ds ss) (base6 ds ss C) C MS R)) := by
  show ((P6 cd cst cc cm cr ds ss C MS).nodes ++ rNodes cr (base4 ds ss) (base6 ds ss C) (base7 ds ss C MS) C MS RS).find? _ = _
  apply RegL.find?_unique
  · rw [List.mem_append]; right
    rw [rNodes, mem_zipIdx_map]; exact ⟨j, R, hj, rfl⟩
  · simp [rxnNode]
  · intro a ha hp
    have hid : a.id = base7 ds ss C MS + j := by simpa using hp
    rw [List.mem_append] at ha
    rcases ha with ha | ha
    · have := P6_nodes_lt cd cst cc cm cr ds ss C MS a ha; omega
    · obtain ⟨j', R', hj', rfl⟩ := (mem_zipIdx_map RS _ a).mp ha
      simp only [rxnNode] at hid
      have : j' = j := by omega
      subst this
      rw [getElem?_det RS j' R R' hj hj']

theorem mdecl_pos (MS : List MDecl) (hn : (MS.map (·.name)).Nodup) (i j : Nat) (M M' : MDecl) (hi : MS[i]? = some M)
    (hj : MS[j]? = some M') (he : M.name = M'.name) : i = j := by
  have h1 : (MS.map (·.name))[i]? = some M.name := by simp [hi]
  have h2 : (MS.map (·.name))[j]? = some M'.name := by simp [hj]
  have hlt : i < (MS.map (·.name)).length := by simpa using getElem?_lt' _ _ _ hi
  exact (List.getElem?_inj hlt hn).mp (by rw [h1, h2, he])

theorem mCanonOf_get (C : List CSpec) (MS : List MDecl) (hn : (MS.map (·.name)).Nodup) (j : Nat) (M : MDecl)
    (hj : MS[j]? = some M) : mCanonOf C MS M.name = macroCanon (msOf C M) := by
  unfold mCanonOf
  have : MS.find? (fun x => x.name == M.name) = some M := by
    apply RegL.find?_unique _ _ M (List.mem_of_getElem? hj) (by simp)
    intro a ha hp
    obtain ⟨i, hi⟩ := List.getElem?_of_mem ha
    have he : a.name = M.name := by simpa using hp
    have := mdecl_pos MS hn i j a M hi hj he
    subst this
    exact getElem?_det MS i a M hi hj
  rw [this]; rfl

/-- a member of a reaction looked up by name in the explicit state: same world, its identity, its key -/
theorem member7 (sl : Slots) (hcc : sl.cplx < 4) (hcm : sl.macr < 4) (ds : List Decl) (ss : List SDecl)
    (C : List CSpec) (hf : CFacts C) (MS : List MDecl) (hmn : (MS.map (·.name)).Nodup) (RS : List RDecl) (ty : String)
    (n : String)
    (hn : if (ty == "condensed") = true then n ∈ MS.map (·.name) else n ∈ C.map (·.name)) :
    (∃ b, lookFn sl ty (P7 sl.dom sl.strand sl.cplx sl.macr sl.rxn ds ss C MS RS).world n =
      ((P7 sl.dom sl.strand sl.cplx sl.macr sl.rxn ds ss C MS RS).world,
        .ret (memId (base4 ds ss) (base6 ds ss C) C MS (ty == "condensed") n) b)) ∧
    (P7 sl.dom sl.strand sl.cplx sl.macr sl.rxn ds ss C MS RS).world.memberKey
        (memId (base4 ds ss) (base6 ds ss C) C MS (ty == "condensed") n) =
      some (memOf C MS (ty == "condensed") n) := by
  cases hc : (ty == "condensed") with
  | true =>
    simp only [hc, if_true] at hn
    obtain ⟨M, hM, rfl⟩ := List.mem_map.mp hn
    obtain ⟨j, hj⟩ := List.getElem?_of_mem hM
    have hlt := getElem?_lt' _ _ _ hj
    have hres : mResolve (base6 ds ss C) MS M.name = base6 ds ss C + j := by
      unfold mResolve; rw [mDict_lookup _ MS hmn j M hj]; rfl
    have hnode := nodes7_old sl.dom sl.strand sl.cplx sl.macr sl.rxn ds ss C MS RS _ _
      (nodes6_macro sl.dom sl.strand sl.cplx sl.macr sl.rxn ds ss C MS j M hj)
    obtain ⟨o1, o2⟩ := macroObj_gen (P7 sl.dom sl.strand sl.cplx sl.macr sl.rxn ds ss C MS RS).world sl.macr hcm
      (mObjs (base6 ds ss C) C MS) rfl _ _ _ hnode (mObjs_find _ C MS j M hj)
    simp only [memId, memOf, if_true, hres]
    refine ⟨⟨false, ?_⟩, ?_⟩
    · unfold lookFn
      simp only [hc, if_true]
      exact mkMacro_lookup_gen _ sl.macr hcm (mObjs (base6 ds ss C) C MS) rfl M.name _
        (mObjs_findName _ C MS hmn j M hj)
        (by
          show base6 ds ss C + j ∈ List.range (base7 ds ss C MS + RS.length)
          exact List.mem_range.mpr (by unfold base7; omega))
    · rw [memberKey_macro _ _ _ _ o2 o1, mCanonOf_get C MS hmn j M hj]; rfl
  | false =>
    simp only [hc, Bool.false_eq_true, if_false] at hn
    obtain ⟨c, hcm', rfl⟩ := List.mem_map.mp hn
    obtain ⟨i, hi⟩ := List.getElem?_of_mem hcm'
    have hlt := getElem?_lt' _ _ _ hi
    have hres := cResolve_get (base4 ds ss) C hf i c hi
    have hnode := nodes7_old sl.dom sl.strand sl.cplx sl.macr sl.rxn ds ss C MS RS _ _
      (nodes6_cplx sl.dom sl.strand sl.cplx sl.macr sl.rxn ds ss C MS i c hi)
    have hobj := cplxObj_gen (P7 sl.dom sl.strand sl.cplx sl.macr sl.rxn ds ss C MS RS).world sl.cplx hcc
      (cObjs (base4 ds ss) C) rfl _ _ _ hnode (cObjs_find _ C i c hi)
    simp only [memId, memOf, Bool.false_eq_true, if_false, hres]
    refine ⟨⟨false, ?_⟩, ?_⟩
    · unfold lookFn
      simp only [hc, Bool.false_eq_true, if_false]
      rw [mkCplx_lookup_gen _ sl.cplx hcc (cObjs (base4 ds ss) C) rfl c.name _ (cObjs_findName _ C hf i c hi)
        (by
          show base4 ds ss + i ∈ List.range (base7 ds ss C MS + RS.length)
          exact List.mem_range.mpr (by unfold base7 base6; omega))]
      rfl
    · rw [memberKey_cplx _ _ _ _ hobj, cCanonOf_get C hf i c hi]; rfl

/-! ### one reaction -/

/-- hypotheses on one reaction relative to the earlier ones -/
structure ROK (C : List CSpec) (MS : List MDecl) (RS : List RDecl) (R : RDecl) : Prop where
  ty : Gen.rtypes.contains R.ty = true
  members : ∀ n ∈ R.reactants ++ R.products,
    if R.cond = true then n ∈ MS.map (·.name) else n ∈ C.map (·.name)
  freshName : ∀ R' ∈ RS, rName C MS R' ≠ rName C MS R
  freshCanon : ∀ R' ∈ RS, rCanon C MS R' ≠ rCanon C MS R

theorem P7_snoc_world (cd cst cc cm cr : Nat) (ds : List Decl) (ss : List SDecl) (C : List CSpec) (MS : List MDecl)
    (RS : List RDecl) (R : RDecl) :
    ({ (P7 cd cst cc cm cr ds ss C MS RS).world with
        rxns := setObjs baseRxns cr (rObjs (base7 ds ss C MS) C MS RS ++
          [newRxn (P7 cd cst cc cm cr ds ss C MS RS).world.nextId (rsOf C MS R) (psOf C MS R) R.ty]),
        nodes := (P7 cd cst cc cm cr ds ss C MS RS).world.nodes ++
          [rxnNode (P7 cd cst cc cm cr ds ss C MS RS).world.nextId cr (rChildren (base4 ds ss) (base6 ds ss C) C MS R)],
        held := if (P7 cd cst cc cm cr ds ss C MS RS).world.held.contains (P7 cd cst cc cm cr ds ss C MS RS).world.nextId
          then (P7 cd cst cc cm cr ds ss C MS RS).world.held
          else (P7 cd cst cc cm cr ds ss C MS RS).world.held ++ [(P7 cd cst cc cm cr ds ss C MS RS).world.nextId],
        nextId := (P7 cd cst cc cm cr ds ss C MS RS).world.nextId + 1 } : World) =
      (P7 cd cst cc cm cr ds ss C MS (RS ++ [R])).world := by
  have hnext : (P7 cd cst cc cm cr ds ss C MS RS).world.nextId = base7 ds ss C MS + RS.length := rfl
  have hheld : (P7 cd cst cc cm cr ds ss C MS RS).world.held = List.range (base7 ds ss C MS + RS.length) := rfl
  have hc : (List.range (base7 ds ss C MS + RS.length)).contains (base7 ds ss C MS + RS.length) = false := by simp
  have hr : List.range (base7 ds ss C MS + (RS.length + 1)) =
      List.range (base7 ds ss C MS + RS.length) ++ [base7 ds ss C MS + RS.length] := by
    have : base7 ds ss C MS + (RS.length + 1) = (base7 ds ss C MS + RS.length).succ := by omega
    rw [this, List.range_succ]
  simp only [hnext, hheld, hc, Bool.false_eq_true, if_false]
  unfold DW6.world P7
  simp only [rObjs, rNodes, zipIdx_snoc, List.map_append, List.map_cons, List.map_nil, List.length_append,
    List.length_singleton, hr, List.append_assoc]
  rfl

theorem filterMap_members (w : World) (g : String → Nat) (h : String → String × MemKey) (l : List String)
    (hk : ∀ n ∈ l, w.memberKey (g n) = some (h n)) : (l.map g).filterMap w.memberKey = l.map h :=
  filterMap_map_some g w.memberKey h l hk

theorem range_mem_dicts7 (ds : List Decl) (ss : List SDecl) (C : List CSpec) (MS : List MDecl) (RS : List RDecl)
    (i : Nat) (hi : i < base7 ds ss C MS + RS.length) :
    i ∈ (dDict ds).map (·.2) ++ (sDict ds ss).map (·.2) ++ (cDict (base4 ds ss) C).map (·.2) ++
      (mDict (base6 ds ss C) MS).map (·.2) ++ rDet (base7 ds ss C MS) RS ++ rCon (base7 ds ss C MS) RS := by
  by_cases h : i < base7 ds ss C MS
  · rw [List.append_assoc, List.mem_append]
    exact Or.inl (range_mem_dicts6 ds ss C MS i h)
  · have hj : i - base7 ds ss C MS < RS.length := by omega
    have hget : RS[i - base7 ds ss C MS]? = some RS[i - base7 ds ss C MS] := List.getElem?_eq_getElem hj
    obtain ⟨h1, h2⟩ := rxn_listed (base7 ds ss C MS) RS _ _ hget
    have e : base7 ds ss C MS + (i - base7 ds ss C MS) = i := by omega
    rw [e] at h1 h2
    rw [List.mem_append, List.mem_append]
    cases hc : RS[i - base7 ds ss C MS].cond with
    | true => exact Or.inr (h1 hc).1
    | false => exact Or.inl (Or.inr (h2 hc).1)

theorem keepOnly_S7 (cd cst cc cm cr : Nat) (hcd : cd < 4) (hcs : cst < 4) (hcc : cc < 4) (hcm : cm < 4) (hcr : cr < 4)
    (ds : List Decl) (ss : List SDecl) (C : List CSpec) (MS : List MDecl) (RS : List RDecl)
    (conc : List (Nat × (String × String × String))) (oth : Nat) :
    (S7 cd cst cc cm cr ds ss C MS RS conc).keepOnly [] (D7 ds ss C MS RS oth) = S7 cd cst cc cm cr ds ss C MS RS conc := by
  unfold keepOnly
  have hheld : (S7 cd cst cc cm cr ds ss C MS RS conc).w.held = List.range (base7 ds ss C MS + RS.length) := rfl
  have hfil : List.filter (fun h => (([] : List Nat) ++ (D7 ds ss C MS RS oth).domains.map (·.2) ++
      (D7 ds ss C MS RS oth).strands.map (·.2) ++ (D7 ds ss C MS RS oth).complexes.map (·.2) ++
      (D7 ds ss C MS RS oth).macrostates.map (·.2) ++ (D7 ds ss C MS RS oth).det ++
      (D7 ds ss C MS RS oth).con).contains h)
      (List.range (base7 ds ss C MS + RS.length)) = List.range (base7 ds ss C MS + RS.length) := by
    rw [List.filter_eq_self]
    intro i hi
    have := range_mem_dicts7 ds ss C MS RS i (List.mem_range.mp hi)
    simp only [D7, List.nil_append, List.contains_eq_mem, decide_eq_true_eq]
    exact this
  simp only [hheld, hfil]
  have hw : ({ (S7 cd cst cc cm cr ds ss C MS RS conc).w with held := List.range (base7 ds ss C MS + RS.length) } : World) =
      (P7 cd cst cc cm cr ds ss C MS RS).world := rfl
  rw [hw, collect_DW6 (P7 cd cst cc cm cr ds ss C MS RS) hcd hcs hcc hcm hcr]
  · rfl
  · intro o ho; exact List.mem_range.mpr (by have := dObjs_id_lt ds o ho; unfold base7 base6 base4; omega)
  · intro o ho
    obtain ⟨j, p, hj, rfl⟩ := sObjs_mem ds ss o ho
    have := getElem?_lt' _ _ _ hj
    exact List.mem_range.mpr (by simp only [newStrand]; unfold base7 base6 base4; omega)
  · intro o ho
    obtain ⟨j, c, hj, rfl⟩ := cObjs_mem _ C o ho
    have := getElem?_lt' _ _ _ hj
    exact List.mem_range.mpr (by simp only [newCplx]; unfold base7 base6; omega)
  · intro o ho
    obtain ⟨j, M, hj, rfl⟩ := mObjs_mem _ C MS o ho
    have := getElem?_lt' _ _ _ hj
    exact List.mem_range.mpr (by simp only [newMacro]; unfold base7; omega)
  · intro o ho
    obtain ⟨j, R, hj, rfl⟩ := rObjs_mem _ C MS RS o ho
    have := getElem?_lt' _ _ _ hj
    exact List.mem_range.mpr (by simp only [newRxn]; omega)
  · intro n hn
    have hn' : n ∈ (P6 cd cst cc cm cr ds ss C MS).nodes ++
        rNodes cr (base4 ds ss) (base6 ds ss C) (base7 ds ss C MS) C MS RS := hn
    rw [List.mem_append] at hn'
    rcases hn' with h | h
    · exact List.mem_range.mpr (by have := P6_nodes_lt cd cst cc cm cr ds ss C MS n h; omega)
    · obtain ⟨j, R, hj, rfl⟩ := (mem_zipIdx_map RS _ n).mp h
      have := getElem?_lt' _ _ _ hj
      exact List.mem_range.mpr (by simp only [rxnNode]; omega)
  · intro q hq
    obtain ⟨j, c, hj, rfl⟩ := (mem_zipIdx_map C _ q).mp hq
    have := getElem?_lt' _ _ _ hj
    exact List.mem_range.mpr (by simp only; unfold base7 base6; omega)

theorem rDet_snoc (b : Nat) (RS : List RDecl) (R : RDecl) :
    rDet b (RS ++ [R]) = rDet b RS ++ (if R.cond then [] else [b + RS.length]) := by
  unfold rDet
  rw [zipIdx_snoc, List.filterMap_append]
  cases hc : R.cond <;> simp [hc]

theorem rCon_snoc (b : Nat) (RS : List RDecl) (R : RDecl) :
    rCon b (RS ++ [R]) = rCon b RS ++ (if R.cond then [b + RS.length] else []) := by
  unfold rCon
  rw [zipIdx_snoc, List.filterMap_append]
  cases hc : R.cond <;> simp [hc]

/-- **reading one reaction line** -/
theorem rstep (sl : Slots) (hcd : sl.dom < 4) (hcs : sl.strand < 4) (hcc : sl.cplx < 4) (hcm : sl.macr < 4)
    (hcr : sl.rxn < 4) (ds : List Decl) (ss : List SDecl) (C : List CSpec) (hf : CFacts C) (MS : List MDecl)
    (hmn : (MS.map (·.name)).Nodup) (RS : List RDecl) (R : RDecl) (hR : ROK C MS RS R)
    (conc : List (Nat × (String × String × String))) (oth : Nat) (lines : List Tree) :
    (S7 sl.dom sl.strand sl.cplx sl.macr sl.rxn ds ss C MS RS conc).readDoc sl [] []
        (.grp (rxnLine R.ty R.rate R.units R.reactants R.products) :: lines) (D7 ds ss C MS RS oth) =
      (S7 sl.dom sl.strand sl.cplx sl.macr sl.rxn ds ss C MS (RS ++ [R]) conc).readDoc sl [] [] lines
        (D7 ds ss C MS (RS ++ [R]) oth) := by
  have hmemb : ∀ n ∈ R.reactants ++ R.products,
      (∃ b, lookFn sl R.ty (P7 sl.dom sl.strand sl.cplx sl.macr sl.rxn ds ss C MS RS).world n =
        ((P7 sl.dom sl.strand sl.cplx sl.macr sl.rxn ds ss C MS RS).world,
          .ret (memId (base4 ds ss) (base6 ds ss C) C MS R.cond n) b)) ∧
      (P7 sl.dom sl.strand sl.cplx sl.macr sl.rxn ds ss C MS RS).world.memberKey
          (memId (base4 ds ss) (base6 ds ss C) C MS R.cond n) = some (memOf C MS R.cond n) :=
    fun n hn => member7 sl hcc hcm ds ss C hf MS hmn RS R.ty n (hR.members n hn)
  have hw : (S7 sl.dom sl.strand sl.cplx sl.macr sl.rxn ds ss C MS RS conc).w =
      (P7 sl.dom sl.strand sl.cplx sl.macr sl.rxn ds ss C MS RS).world := rfl
  have hla1 := lookupAll_same (S7 sl.dom sl.strand sl.cplx sl.macr sl.rxn ds ss C MS RS conc) (lookFn sl R.ty)
    (memId (base4 ds ss) (base6 ds ss C) C MS R.cond) R.reactants
    (fun n hn => by rw [hw]; exact (hmemb n (List.mem_append_left _ hn)).1)
  have hla2 := lookupAll_same (S7 sl.dom sl.strand sl.cplx sl.macr sl.rxn ds ss C MS RS conc) (lookFn sl R.ty)
    (memId (base4 ds ss) (base6 ds ss C) C MS R.cond) R.products
    (fun n hn => by rw [hw]; exact (hmemb n (List.mem_append_right _ hn)).1)
  have hrs := filterMap_members (P7 sl.dom sl.strand sl.cplx sl.macr sl.rxn ds ss C MS RS).world
    (memId (base4 ds ss) (base6 ds ss C) C MS R.cond) (memOf C MS R.cond) R.reactants
    (fun n hn => (hmemb n (List.mem_append_left _ hn)).2)
  have hps := filterMap_members (P7 sl.dom sl.strand sl.cplx sl.macr sl.rxn ds ss C MS RS).world
    (memId (base4 ds ss) (base6 ds ss C) C MS R.cond) (memOf C MS R.cond) R.products
    (fun n hn => (hmemb n (List.mem_append_right _ hn)).2)
  have hmk := mkRxn_create (P7 sl.dom sl.strand sl.cplx sl.macr sl.rxn ds ss C MS RS).world sl.rxn hcr
    (rObjs (base7 ds ss C MS) C MS RS) rfl _ _ _ _ hrs hps R.ty
    (by
      intro o ho
      obtain ⟨j, R', hj, rfl⟩ := rObjs_mem _ C MS RS o ho
      exact hR.freshName R' (List.mem_of_getElem? hj))
    (by
      intro o ho hk
      obtain ⟨j, R', hj, rfl⟩ := rObjs_mem _ C MS RS o ho
      simp only [newRxn, List.mem_singleton] at hk
      exact hR.freshCanon R' (List.mem_of_getElem? hj) hk.symm)
  have hchild : R.reactants.map (memId (base4 ds ss) (base6 ds ss C) C MS R.cond) ++
      R.products.map (memId (base4 ds ss) (base6 ds ss C) C MS R.cond) =
      rChildren (base4 ds ss) (base6 ds ss C) C MS R := rfl
  rw [hchild] at hmk
  have hP := P7_snoc_world sl.dom sl.strand sl.cplx sl.macr sl.rxn ds ss C MS RS R
  have hrsO : List.map (memOf C MS R.cond) R.reactants = rsOf C MS R := rfl
  have hpsO : List.map (memOf C MS R.cond) R.products = psOf C MS R := rfl
  rw [hrsO, hpsO] at hmk
  rw [hP] at hmk
  have hrl := readLine_rxn (S7 sl.dom sl.strand sl.cplx sl.macr sl.rxn ds ss C MS RS conc) sl R.ty R.rate R.units
    R.reactants R.products hR.ty _ _ hla1 hla2 _ _ _ _ hmk
  rw [readDoc_rxn _ sl [] _ lines (D7 ds ss C MS RS oth) _ _ _ hrl]
  have hnext : (P7 sl.dom sl.strand sl.cplx sl.macr sl.rxn ds ss C MS RS).world.nextId = base7 ds ss C MS + RS.length :=
    rfl
  have hfil : List.filter (fun p => p.1 != base7 ds ss C MS + RS.length) (rRates (base7 ds ss C MS) RS) =
      rRates (base7 ds ss C MS) RS := by
    rw [List.filter_eq_self]
    intro q hq
    obtain ⟨j, R', hj, rfl⟩ := (mem_zipIdx_map RS _ q).mp hq
    have := getElem?_lt' _ _ _ hj
    simp; omega
  have hstate : ({ S7 sl.dom sl.strand sl.cplx sl.macr sl.rxn ds ss C MS RS conc with
      w := (P7 sl.dom sl.strand sl.cplx sl.macr sl.rxn ds ss C MS (RS ++ [R])).world,
      rate := List.filter (fun p => p.1 != (P7 sl.dom sl.strand sl.cplx sl.macr sl.rxn ds ss C MS RS).world.nextId)
        (S7 sl.dom sl.strand sl.cplx sl.macr sl.rxn ds ss C MS RS conc).rate ++
          [((P7 sl.dom sl.strand sl.cplx sl.macr sl.rxn ds ss C MS RS).world.nextId, (R.rate, some R.units))] } : RState) =
      S7 sl.dom sl.strand sl.cplx sl.macr sl.rxn ds ss C MS (RS ++ [R]) conc := by
    have hr : (S7 sl.dom sl.strand sl.cplx sl.macr sl.rxn ds ss C MS RS conc).rate = rRates (base7 ds ss C MS) RS := rfl
    rw [hnext, hr, hfil]
    unfold S7
    simp [rRates, zipIdx_snoc]
  rw [hstate]
  have hdict : putRxn (D7 ds ss C MS RS oth) (P7 sl.dom sl.strand sl.cplx sl.macr sl.rxn ds ss C MS RS).world.nextId
      (R.ty == "condensed") = D7 ds ss C MS (RS ++ [R]) oth := by
    rw [hnext]
    have hnc : (rCon (base7 ds ss C MS) RS).contains (base7 ds ss C MS + RS.length) = false := by
      rw [List.contains_eq_mem]; simp only [decide_eq_false_iff_not]
      intro h; have := rCon_lt _ RS _ h; omega
    have hnd : (rDet (base7 ds ss C MS) RS).contains (base7 ds ss C MS + RS.length) = false := by
      rw [List.contains_eq_mem]; simp only [decide_eq_false_iff_not]
      intro h; have := rDet_lt _ RS _ h; omega
    have hcd : R.cond = (R.ty == "condensed") := rfl
    unfold putRxn D7
    simp only [hnc, hnd, Bool.false_eq_true, if_false, rDet_snoc, rCon_snoc, hcd]
    cases (R.ty == "condensed") <;> simp
  rw [hdict, keepOnly_S7 sl.dom sl.strand sl.cplx sl.macr sl.rxn hcd hcs hcc hcm hcr]

/-- **reading one ignorable reaction line**: nothing is created, the counter of other statements goes up -/
theorem ostep (sl : Slots) (hcd : sl.dom < 4) (hcs : sl.strand < 4) (hcc : sl.cplx < 4) (hcm : sl.macr < 4)
    (hcr : sl.rxn < 4) (ds : List Decl) (ss : List SDecl) (C : List CSpec) (MS : List MDecl) (RS : List RDecl)
    (conc : List (Nat × (String × String × String))) (oth : Nat) (info rs ps lines : List Tree)
    (h : (match info with
          | [.grp ty, .grp ra, .grp _] =>
            (tokList ra).head? = none ∨ (match (tokList ty).head? with | some t => Gen.rtypes.contains t = false | none => True)
          | _ => True)) :
    (S7 sl.dom sl.strand sl.cplx sl.macr sl.rxn ds ss C MS RS conc).readDoc sl [] []
        (.grp [.tok "reaction", .grp info, .grp rs, .grp ps] :: lines) (D7 ds ss C MS RS oth) =
      (S7 sl.dom sl.strand sl.cplx sl.macr sl.rxn ds ss C MS RS conc).readDoc sl [] [] lines
        (D7 ds ss C MS RS (oth + 1)) := by
  rw [readDoc_other _ sl [] _ lines _ (readLine_ignored _ sl info rs ps h)]
  have : ({ D7 ds ss C MS RS oth with other := (D7 ds ss C MS RS oth).other + 1 } : RDict) = D7 ds ss C MS RS (oth + 1) := rfl
  rw [this, keepOnly_S7 sl.dom sl.strand sl.cplx sl.macr sl.rxn hcd hcs hcc hcm hcr]

/-! ### whole documents -/

/-- a `reaction` line of the document: one with a proper info box, or one the reader ignores -/
inductive RLine
  | decl (R : RDecl)
  | ign (info rs ps : List Tree)

def RLine.tree : RLine → Tree
  | .decl R => .grp (rxnLine R.ty R.rate R.units R.reactants R.products)
  | .ign info rs ps => .grp [.tok "reaction", .grp info, .grp rs, .grp ps]

def rdoc (L : List RLine) : List Tree := L.map RLine.tree

def declsOf : List RLine → List RDecl
  | [] => []
  | .decl R :: rest => R :: declsOf rest
  | .ign _ _ _ :: rest => declsOf rest

def ignCount : List RLine → Nat
  | [] => 0
  | .decl _ :: rest => ignCount rest
  | .ign _ _ _ :: rest => ignCount rest + 1

theorem declsOf_append (A B : List RLine) : declsOf (A ++ B) = declsOf A ++ declsOf B := by
  induction A with
  | nil => rfl
  | cons a as ih => cases a <;> simp [declsOf, ih]

theorem ignCount_append (A B : List RLine) : ignCount (A ++ B) = ignCount A + ignCount B := by
  induction A with
  | nil => simp [ignCount]
  | cons a as ih => cases a <;> simp [ignCount, ih] <;> omega

/-- what makes a line ignorable -/
def Ignorable (info : List Tree) : Prop :=
  match info with
  | [.grp ty, .grp ra, .grp _] =>
    (tokList ra).head? = none ∨ (match (tokList ty).head? with | some t => Gen.rtypes.contains t = false | none => True)
  | _ => True

/-- hypotheses on the reaction lines of a system -/
structure RSys (C : List CSpec) (MS : List MDecl) (L : List RLine) : Prop where
  decls : ∀ R ∈ declsOf L, Gen.rtypes.contains R.ty = true ∧
    ∀ n ∈ R.reactants ++ R.products, if R.cond = true then n ∈ MS.map (·.name) else n ∈ C.map (·.name)
  ign : ∀ info rs ps, RLine.ign info rs ps ∈ L → Ignorable info
  names : ((declsOf L).map (rName C MS)).Nodup
  canons : ((declsOf L).map (rCanon C MS)).Nodup

theorem readDoc_rxns (sl : Slots) (hcd : sl.dom < 4) (hcs : sl.strand < 4) (hcc : sl.cplx < 4) (hcm : sl.macr < 4)
    (hcr : sl.rxn < 4) (ds : List Decl) (ss : List SDecl) (C : List CSpec) (hf : CFacts C) (MS : List MDecl)
    (hmn : (MS.map (·.name)).Nodup) (conc : List (Nat × (String × String × String))) :
    ∀ (rest pre : List RLine), RSys C MS (pre ++ rest) →
      (S7 sl.dom sl.strand sl.cplx sl.macr sl.rxn ds ss C MS (declsOf pre) conc).readDoc sl [] [] (rdoc rest)
          (D7 ds ss C MS (declsOf pre) (ignCount pre)) =
        (S7 sl.dom sl.strand sl.cplx sl.macr sl.rxn ds ss C MS (declsOf (pre ++ rest)) conc,
          .ok (D7 ds ss C MS (declsOf (pre ++ rest)) (ignCount (pre ++ rest)))) := by
  intro rest
  induction rest with
  | nil => intro pre _; simp [rdoc, readDoc]
  | cons ln rest ih =>
    intro pre hs
    have hassoc : pre ++ ln :: rest = (pre ++ [ln]) ++ rest := by simp
    cases ln with
    | decl R =>
      have hdo : declsOf (pre ++ RLine.decl R :: rest) = declsOf pre ++ R :: declsOf rest := by
        rw [declsOf_append]; rfl
      have hRmem : R ∈ declsOf (pre ++ RLine.decl R :: rest) := by rw [hdo]; simp
      obtain ⟨e1, e2⟩ := hs.decls R hRmem
      have hn := hs.names
      have hc := hs.canons
      rw [hdo, List.map_append, List.map_cons] at hn hc
      have hR : ROK C MS (declsOf pre) R :=
        ⟨e1, e2,
          fun R' hR' e => (List.nodup_append.mp hn).2.2 _ (List.mem_map_of_mem hR') _ (by simp) e,
          fun R' hR' e => (List.nodup_append.mp hc).2.2 _ (List.mem_map_of_mem hR') _ (by simp) e⟩
      have hstep := rstep sl hcd hcs hcc hcm hcr ds ss C hf MS hmn (declsOf pre) R hR conc (ignCount pre) (rdoc rest)
      have h1 : rdoc (RLine.decl R :: rest) = .grp (rxnLine R.ty R.rate R.units R.reactants R.products) :: rdoc rest := rfl
      have h2 : declsOf pre ++ [R] = declsOf (pre ++ [RLine.decl R]) := by rw [declsOf_append]; rfl
      have h3 : ignCount pre = ignCount (pre ++ [RLine.decl R]) := by rw [ignCount_append]; rfl
      rw [h1, hstep, h2, h3, hassoc]
      exact ih (pre ++ [RLine.decl R]) (by rw [← hassoc]; exact hs)
    | ign info rs ps =>
      have hig := hs.ign info rs ps (by simp)
      have hstep := ostep sl hcd hcs hcc hcm hcr ds ss C MS (declsOf pre) conc (ignCount pre) info rs ps (rdoc rest) hig
      have h1 : rdoc (RLine.ign info rs ps :: rest) = .grp [.tok "reaction", .grp info, .grp rs, .grp ps] :: rdoc rest :=
        rfl
      have h2 : declsOf pre = declsOf (pre ++ [RLine.ign info rs ps]) := by rw [declsOf_append]; simp [declsOf]
      have h3 : ignCount pre + 1 = ignCount (pre ++ [RLine.ign info rs ps]) := by rw [ignCount_append]; rfl
      rw [h1, hstep, h3]
      conv => lhs; rw [h2]
      rw [hassoc]
      exact ih (pre ++ [RLine.ign info rs ps]) (by rw [← hassoc]; exact hs)

/-- **reading a whole declared system, reactions included, into the fresh state** -/
theorem readDoc_fresh7 (sl : Slots) (hcd : sl.dom < 4) (hcs : sl.strand < 4) (hcc : sl.cplx < 4) (hcm : sl.macr < 4)
    (hcr : sl.rxn < 4) (ds : List Decl) (hsys : Sys ds) (ss : List SDecl) (hss : SSys ds ss) (cds : List CDecl)
    (hcs' : CSys ds ss cds) (kds : List KDecl) (hks : KSys ds (cds.map (CDecl.spec ds ss)) kds) (MS : List MDecl)
    (hms : MSys (cds.map (CDecl.spec ds ss) ++ kds.map (KDecl.spec ds)) MS) (L : List RLine)
    (hrs : RSys (cds.map (CDecl.spec ds ss) ++ kds.map (KDecl.spec ds)) MS L) :
    ({} : RState).readDoc sl [] [] (doc ds ++ (sdoc ss ++ (cdoc cds ++ (kdoc kds ++ (mdoc MS ++ rdoc L))))) {} =
      (S7 sl.dom sl.strand sl.cplx sl.macr sl.rxn ds ss (cds.map (CDecl.spec ds ss) ++ kds.map (KDecl.spec ds)) MS
          (declsOf L) (kConc (base4 ds ss + cds.length) kds),
        .ok (D7 ds ss (cds.map (CDecl.spec ds ss) ++ kds.map (KDecl.spec ds)) MS (declsOf L) (ignCount L))) := by
  rw [readDoc_fresh6 sl hcd hcs hcc hcm hcr ds hsys ss hss cds hcs' kds hks MS hms (rdoc L), ← S7_nil, ← D7_nil]
  have hf : CFacts (cds.map (CDecl.spec ds ss) ++ kds.map (KDecl.spec ds)) := ⟨hks.names, hks.descr, hks.nonrot⟩
  have := readDoc_rxns sl hcd hcs hcc hcm hcr ds ss _ hf MS hms.names (kConc (base4 ds ss + cds.length) kds) L []
    (by simpa using hrs)
  simpa [declsOf, ignCount] using this

end Dsd.Sig
