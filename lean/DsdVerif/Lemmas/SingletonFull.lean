/-
`Reg.callFull` (Python truthiness, explicit registration order) against `Reg.call`.
-/
import DsdVerif.Model.SingletonFull
import DsdVerif.Lemmas.Registry

namespace Dsd.Reg
variable {κ : Type} [DecidableEq κ]

theorem callFull_eq (r : Reg κ) (canon : Option κ) (name : String) (fresh : Nat) (initKeys keys : List κ)
    (auto : Bool) (hne : name ≠ "")
    (hk : ∀ k, canon = some k → r.findCanon k = none →
      (if initKeys.contains k then initKeys else initKeys ++ [k]) = keys) :
    r.callFull canon name fresh initKeys auto = r.call canon (some name) fresh keys auto := by
  have hemp : name.isEmpty = false := by simpa using hne
  unfold callFull call decide
  simp only [hemp, Bool.not_false]
  cases canon with
  | none => cases hn : r.findName name <;> simp [hn]
  | some k =>
    have := hk k rfl
    simp only [List.contains_eq_mem, decide_eq_true_eq] at this
    cases hn : r.findName name <;> cases hc : r.findCanon k <;> simp [hn, hc]
    · rw [this hc]
    · split <;> simp

/-- with an empty (falsy) name the request is a look-up by canonical form -/
theorem callFull_empty (r : Reg κ) (canon : Option κ) (fresh : Nat) (initKeys : List κ) (auto : Bool) :
    r.callFull canon "" fresh initKeys auto = r.call canon none fresh [] auto := by
  have he : ("" : String).isEmpty = true := rfl
  unfold callFull call decide
  simp only [he, Bool.not_true]
  cases canon with
  | none => simp
  | some k => cases hc : r.findCanon k <;> simp [hc]

end Dsd.Reg
