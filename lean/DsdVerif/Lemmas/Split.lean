/-
Proof machinery for C09 (`split_complex_pt`).

* `LinF`  — a pair table in linear form: the re-indexed linear table of an accepted word (what
            `makePairTable` produces);
* `LM`    — the same notion stated on loci (a non-crossing perfect matching of the brackets of a
            list of strands); `LM` and `LinF` are equivalent, and `LM` is stable under restriction to a set
            of strands that is closed under pairing;
* the analysis of `splitScan` on the `myext` list of a table in linear form;
* `PartOf` (copy of the structure in Props/C09Split.lean), its transitivity, the two halves of a splice.
-/
import DsdVerif.Model.Complex
import DsdVerif.Lemmas.Locus
import DsdVerif.Lemmas.Loop
import DsdVerif.Props.C06Loci

namespace Dsd.Split
open Dsd.Bracket Dsd.C06 Dsd.Loop

/-! ### tables in linear form -/

structure LinF (syms : List (List Sym)) (pt : PairTable) (t : List (Option Nat)) : Prop where
  hm : matchW syms.flatten = some t
  hpt : pt = reshape (syms.map List.length) (t.map (fun o => o.map (toLocus (syms.map List.length))))

theorem LinF.hM {syms pt t} (L : LinF syms pt t) : Matching syms.flatten (P t) := matchW_sound _ _ L.hm

theorem LinF.wlen {syms pt t} (_L : LinF syms pt t) : syms.flatten.length = (syms.map List.length).sum :=
  List.length_flatten

theorem LinF.tlen {syms pt t} (L : LinF syms pt t) : t.length = (syms.map List.length).sum := by
  rw [matchW_length _ _ L.hm, L.wlen]

theorem LinF.mlen {syms pt t} (L : LinF syms pt t) :
    (t.map (fun o => o.map (toLocus (syms.map List.length)))).length = (syms.map List.length).sum := by
  rw [List.length_map, L.tlen]

theorem LinF.shape {syms pt t} (L : LinF syms pt t) : pt.map List.length = syms.map List.length := by
  rw [L.hpt, reshape_shape _ _ L.mlen]

theorem LinF.hpg {syms pt t} (L : LinF syms pt t) (i : Nat) :
    ptGet pt (toLocus (syms.map List.length) i) = (P t i).map (toLocus (syms.map List.length)) := by
  rw [ptGet_eq, L.hpt, reshape_get _ _ L.mlen, P]
  cases hti : t[i]? <;> simp [hti]

/-- a valid locus is `toLocus` of a linear position -/
theorem valid_eq_toLocus (lens : List Nat) (l : Locus) (h : ValidL lens l) :
    ∃ i, i < lens.sum ∧ l = toLocus lens i := by
  obtain ⟨e1, e2⟩ := toLocus_fromLocus lens l h
  exact ⟨_, e2, e1.symm⟩

theorem not_valid_toLocus (lens : List Nat) (i : Nat) (h : lens.sum ≤ i) : ¬ ValidL lens (toLocus lens i) := by
  intro hv
  obtain ⟨e1, e2⟩ := toLocus_fromLocus lens _ hv
  have := toLocus_inj lens _ _ e1
  omega

theorem LinF.pair_of_ptGet {syms pt t} (L : LinF syms pt t) (l l' : Locus) (hp : ptGet pt l = some l') :
    ∃ i j, l = toLocus (syms.map List.length) i ∧ l' = toLocus (syms.map List.length) j ∧ P t i = some j := by
  rw [ptGet_eq] at hp
  cases hg : getL pt l with
  | none => simp [hg] at hp
  | some o =>
    have hv := getL_valid _ l o hg
    rw [L.shape] at hv
    obtain ⟨i, _, rfl⟩ := valid_eq_toLocus _ l hv
    have := L.hpg i
    rw [ptGet_eq, hp] at this
    cases hpi : P t i with
    | none => simp [hpi] at this
    | some j =>
      simp [hpi] at this
      exact ⟨i, j, rfl, this, hpi⟩

/-! ### the same notion on loci -/

structure LM (syms : List (List Sym)) (pt : PairTable) : Prop where
  shape : pt.map List.length = syms.map List.length
  dot : ∀ l, getL syms l = some .dot → ptGet pt l = none
  cl : ∀ l, getL syms l = some .cl → ∃ l', Locus.lt l' l = true ∧ ptGet pt l = some l' ∧
    ptGet pt l' = some l ∧ getL syms l' = some .op
  op : ∀ l, getL syms l = some .op → ∃ l', Locus.lt l l' = true ∧ ptGet pt l = some l' ∧
    ptGet pt l' = some l ∧ getL syms l' = some .cl
  nocross : ∀ a b c d, ptGet pt a = some b → ptGet pt c = some d →
    Locus.lt a c = true → Locus.lt c b = true → Locus.lt b d = true → False

theorem LinF.lm {syms pt t} (L : LinF syms pt t) : LM syms pt := by
  have hM := L.hM
  have hsym : ∀ i, getL syms (toLocus (syms.map List.length) i) = syms.flatten[i]? := getL_toLocus syms
  refine ⟨L.shape, ?_, ?_, ?_, ?_⟩
  · intro l hl
    obtain ⟨i, _, rfl⟩ := valid_eq_toLocus _ l (getL_valid _ l _ hl)
    rw [hsym] at hl
    rw [L.hpg, hM.dot i hl]; rfl
  · intro l hl
    obtain ⟨i, _, rfl⟩ := valid_eq_toLocus _ l (getL_valid _ l _ hl)
    rw [hsym] at hl
    obtain ⟨j, hj1, hj2, hj3, hj4⟩ := hM.cl i hl
    refine ⟨toLocus _ j, (toLocus_lt _ j i).mpr hj1, ?_, ?_, ?_⟩
    · rw [L.hpg, hj2]; rfl
    · rw [L.hpg, hj3]; rfl
    · rw [hsym]; exact hj4
  · intro l hl
    obtain ⟨i, _, rfl⟩ := valid_eq_toLocus _ l (getL_valid _ l _ hl)
    rw [hsym] at hl
    obtain ⟨j, hj1, hj2, hj3, hj4⟩ := hM.op i hl
    refine ⟨toLocus _ j, (toLocus_lt _ i j).mpr hj1, ?_, ?_, ?_⟩
    · rw [L.hpg, hj2]; rfl
    · rw [L.hpg, hj3]; rfl
    · rw [hsym]; exact hj4
  · intro a b c d hab hcd h1 h2 h3
    obtain ⟨i, j, rfl, rfl, hij⟩ := L.pair_of_ptGet a b hab
    obtain ⟨k, m, rfl, rfl, hkm⟩ := L.pair_of_ptGet c d hcd
    rw [toLocus_lt] at h1 h2 h3
    exact hM.nocross i j k m hij hkm h1 h2 h3

theorem sym3 (y : Sym) : y = .op ∨ y = .cl ∨ y = .dot := by cases y <;> simp

/-- a non-empty entry sits at a valid locus and points to a valid locus -/
theorem LM.entry {syms pt} (h : LM syms pt) (a b : Locus) (hab : ptGet pt a = some b) :
    ValidL (syms.map List.length) a ∧ ValidL (syms.map List.length) b ∧ ptGet pt b = some a ∧ a ≠ b := by
  rw [ptGet_eq] at hab
  cases hg : getL pt a with
  | none => simp [hg] at hab
  | some o =>
    have hv := getL_valid _ a o hg
    rw [h.shape] at hv
    refine ⟨hv, ?_⟩
    obtain ⟨y, hy⟩ := getL_of_valid syms a hv
    rw [← ptGet_eq] at hab
    rcases sym3 y with rfl | rfl | rfl
    · obtain ⟨l', h1, h2, h3, h4⟩ := h.op a hy
      rw [hab] at h2; have := Option.some.inj h2; subst this
      refine ⟨getL_valid _ _ _ h4, h3, ?_⟩
      intro e; rw [e, Locus.lt_irrefl] at h1; simp at h1
    · obtain ⟨l', h1, h2, h3, h4⟩ := h.cl a hy
      rw [hab] at h2; have := Option.some.inj h2; subst this
      refine ⟨getL_valid _ _ _ h4, h3, ?_⟩
      intro e; rw [e, Locus.lt_irrefl] at h1; simp at h1
    · rw [h.dot a hy] at hab; simp at hab

theorem P_ext (t t' : List (Option Nat)) (hl : t.length = t'.length) (h : P t = P t') : t = t' := by
  apply List.ext_getElem hl
  intro i h1 h2
  have := congrFun h i
  simp only [P, List.getElem?_eq_getElem h1, List.getElem?_eq_getElem h2, Option.join_some] at this
  exact this

theorem LM.linF {syms pt} (h : LM syms pt) : ∃ t, LinF syms pt t := by
  have hsym : ∀ i, getL syms (toLocus (syms.map List.length) i) = syms.flatten[i]? := getL_toLocus syms
  have hwl : syms.flatten.length = (syms.map List.length).sum := List.length_flatten
  -- the linear matching
  have hMat : Matching syms.flatten
      (fun i => (ptGet pt (toLocus (syms.map List.length) i)).map (fromLocus (syms.map List.length))) := by
    refine ⟨?_, ?_, ?_, ?_, ?_⟩
    · intro i hi
      rw [← hsym] at hi
      simp [h.dot _ hi]
    · intro i hi
      have hnv := not_valid_toLocus (syms.map List.length) i (by omega)
      cases hg : getL pt (toLocus (syms.map List.length) i) with
      | none => simp [ptGet_eq, hg]
      | some o =>
        have := getL_valid _ _ _ hg
        rw [h.shape] at this
        exact absurd this hnv
    · intro i hi
      have hilt : i < (syms.map List.length).sum := by rw [← hwl]; exact u_lt _ _ _ hi
      rw [← hsym] at hi
      obtain ⟨l', h1, h2, h3, h4⟩ := h.cl _ hi
      obtain ⟨j, hj, rfl⟩ := valid_eq_toLocus _ l' (getL_valid _ _ _ h4)
      refine ⟨j, (toLocus_lt _ j i).mp h1, ?_, ?_, ?_⟩
      · simp only [h2, Option.map_some, fromLocus_toLocus _ j hj]
      · simp only [h3, Option.map_some, fromLocus_toLocus _ i hilt]
      · rw [← hsym]; exact h4
    · intro i hi
      have hilt : i < (syms.map List.length).sum := by rw [← hwl]; exact u_lt _ _ _ hi
      rw [← hsym] at hi
      obtain ⟨l', h1, h2, h3, h4⟩ := h.op _ hi
      obtain ⟨j, hj, rfl⟩ := valid_eq_toLocus _ l' (getL_valid _ _ _ h4)
      refine ⟨j, (toLocus_lt _ i j).mp h1, ?_, ?_, ?_⟩
      · simp only [h2, Option.map_some, fromLocus_toLocus _ j hj]
      · simp only [h3, Option.map_some, fromLocus_toLocus _ i hilt]
      · rw [← hsym]; exact h4
    · intro i j k l hij hkl h1 h2 h3
      cases hb : ptGet pt (toLocus (syms.map List.length) i) with
      | none => simp [hb] at hij
      | some b =>
        cases hd : ptGet pt (toLocus (syms.map List.length) k) with
        | none => simp [hd] at hkl
        | some d =>
          simp only [hb, Option.map_some, Option.some.injEq] at hij
          simp only [hd, Option.map_some, Option.some.injEq] at hkl
          obtain ⟨_, vb, _, _⟩ := h.entry _ _ hb
          obtain ⟨_, vd, _, _⟩ := h.entry _ _ hd
          obtain ⟨eb, _⟩ := toLocus_fromLocus _ b vb
          obtain ⟨ed, _⟩ := toLocus_fromLocus _ d vd
          rw [hij] at eb
          rw [hkl] at ed
          rw [← eb] at hb
          rw [← ed] at hd
          exact h.nocross _ _ _ _ hb hd ((toLocus_lt _ _ _).mpr h1) ((toLocus_lt _ _ _).mpr h2)
            ((toLocus_lt _ _ _).mpr h3)
  obtain ⟨t, ht⟩ := matching_accepted _ _ hMat
  have hPt := matching_unique _ _ _ (matchW_sound _ _ ht) hMat
  have htl : t.length = (syms.map List.length).sum := by rw [matchW_length _ _ ht, hwl]
  have hml : (t.map (fun o => o.map (toLocus (syms.map List.length)))).length = (syms.map List.length).sum := by
    rw [List.length_map, htl]
  refine ⟨t, ht, ?_⟩
  apply ext_getL
  · have := congrArg List.length h.shape
    have := congrArg List.length (reshape_shape (syms.map List.length) _ hml)
    simp only [List.length_map] at *
    omega
  · intro l
    by_cases hv : ValidL (syms.map List.length) l
    · obtain ⟨i, hi, rfl⟩ := valid_eq_toLocus _ l hv
      rw [reshape_get _ _ hml, List.getElem?_map]
      have hv' : ValidL (pt.map List.length) (toLocus (syms.map List.length) i) := by
        rw [h.shape]; exact hv
      obtain ⟨o, ho⟩ := getL_of_valid pt _ hv'
      rw [ho]
      have hlt : i < t.length := by omega
      have e1 : P t i = t[i] := by simp [P, List.getElem?_eq_getElem hlt]
      have e2 := congrFun hPt i
      simp only [ptGet_eq, ho, Option.join_some] at e2
      rw [e1] at e2
      rw [List.getElem?_eq_getElem hlt, e2]
      simp only [Option.map_some, Option.some.injEq]
      cases o with
      | none => rfl
      | some b =>
        have hb : ptGet pt (toLocus (syms.map List.length) i) = some b := by rw [ptGet_eq, ho]; rfl
        obtain ⟨_, vb, _, _⟩ := h.entry _ _ hb
        simp only [Option.map_some, (toLocus_fromLocus _ b vb).1]
    · have e1 : getL pt l = none := by
        cases hg : getL pt l with
        | none => rfl
        | some o => have := getL_valid _ _ _ hg; rw [h.shape] at this; exact absurd this hv
      have e2 : getL (reshape (syms.map List.length)
          (t.map (fun o => o.map (toLocus (syms.map List.length))))) l = none := by
        cases hg : getL (reshape (syms.map List.length)
          (t.map (fun o => o.map (toLocus (syms.map List.length))))) l with
        | none => rfl
        | some o =>
          have := getL_valid _ _ _ hg
          rw [reshape_shape _ _ hml] at this; exact absurd this hv
      rw [e1, e2]

/-! ### `makeLoopIndex` on a table in linear form -/

theorem LinF.lin {syms pt t} (L : LinF syms pt t) :
    pt.map (fun s => s.map (fun o => o.map (fromLocus (syms.map List.length)))) =
      reshape (syms.map List.length) t := by
  have hM := L.hM
  rw [L.hpt, reshape_map, List.map_map]
  congr 1
  conv => rhs; rw [← List.map_id t]
  apply List.map_congr_left
  intro a ha
  cases a with
  | none => rfl
  | some j =>
    obtain ⟨i, hi⟩ := List.mem_iff_getElem?.mp ha
    have hP : P t i = some j := by simp [P, hi]
    have hj := (hM.pair i j hP).2.1
    rw [L.wlen] at hj
    simp only [Function.comp, Option.map_some, id]
    rw [fromLocus_toLocus _ j hj]

theorem LinF.makeLoopIndex_eq {syms pt t} (L : LinF syms pt t) (comp : Bool) :
    makeLoopIndex pt comp =
      (match loopScan comp (reshape (syms.map List.length) t) 0 {} [] [] with
       | .error e => .error e
       | .ok (ext, my, s) => .ok { loopIndex := reshape (syms.map List.length) s.loopIndex,
                                   exterior := ext, myext := my }) := by
  unfold makeLoopIndex
  simp only [L.shape, L.lin]
  rfl

/-- loop of the gap before strand `g` -/
def loopOf (t : List (Option Nat)) (lens : List Nat) (g : Nat) : Nat := (St t ((lens.take g).sum)).cl

theorem LinF.myext {syms pt t} (L : LinF syms pt t) :
    ∃ lo, makeLoopIndex pt true = .ok lo ∧ lo.myext = ends t 0 (syms.map List.length) := by
  obtain ⟨ext', e1, _⟩ := scan_true t (syms.map List.length) 0 [] [] (by rw [L.tlen]; omega)
  rw [St_zero, List.drop_zero, List.nil_append] at e1
  rw [L.makeLoopIndex_eq, e1]
  exact ⟨_, rfl, rfl⟩

theorem ends_loopOf (t : List (Option Nat)) (lens : List Nat) (k : Nat) (hk : k < lens.length) :
    (ends t 0 lens)[k]? = some (loopOf t lens k, loopOf t lens (k + 1)) := by
  rw [ends_get_of_lt t 0 lens k hk]
  simp [loopOf]

theorem loopOf_zero (t : List (Option Nat)) (lens : List Nat) : loopOf t lens 0 = 0 := rfl

theorem LinF.loopAt {syms pt t} (L : LinF syms pt t) (g : Nat) :
    LoopAt syms.flatten (P t) (((syms.map List.length).take g).sum) (loopOf t (syms.map List.length) g) := by
  have b := take_sum_le (syms.map List.length) g
  exact (linv_St _ t L.hM (by rw [L.tlen, L.wlen]) _ (by rw [L.wlen]; exact b)).loopAt

theorem LinF.loopOf_end {syms pt t} (L : LinF syms pt t) :
    loopOf t (syms.map List.length) (syms.map List.length).length = 0 := by
  have h := L.loopAt (syms.map List.length).length
  rw [List.take_length, ← L.wlen] at h
  exact h.unique (Or.inr ⟨fun ⟨j, hj⟩ => no_encl_at_end L.hM j hj, rfl⟩)

/-- plain mode succeeds iff the strand-end loops are pairwise distinct -/
theorem LinF.plain_ok {syms pt t} (L : LinF syms pt t)
    (hd : ∀ a b, 1 ≤ a → a < b → b ≤ (syms.map List.length).length →
      loopOf t (syms.map List.length) a ≠ loopOf t (syms.map List.length) b) :
    ∃ lo, makeLoopIndex pt false = .ok lo := by
  obtain ⟨i1, _⟩ := scan_false t (syms.map List.length) 0 [] [] (by rw [L.tlen]; omega)
  rw [St_zero, List.drop_zero] at i1
  have hn : ((ends t 0 (syms.map List.length)).map (·.2)).Nodup := by
    rw [List.nodup_iff_pairwise_ne, List.pairwise_iff_getElem]
    intro i j hi hj hij
    have hj' : j < (syms.map List.length).length := by
      rw [List.length_map, ends_length] at hj; exact hj
    have e1 := endsCl_get t (syms.map List.length) i (by omega)
    have e2 := endsCl_get t (syms.map List.length) j hj'
    rw [List.getElem?_eq_getElem hi] at e1
    rw [List.getElem?_eq_getElem hj] at e2
    rw [Option.some.inj e1, Option.some.inj e2]
    exact hd (i + 1) (j + 1) (by omega) (by omega) (by omega)
  rw [L.makeLoopIndex_eq, i1 ⟨hn, fun x _ => by simp⟩]
  exact ⟨_, rfl⟩

theorem LinF.plain_ok_iff {syms pt t} (L : LinF syms pt t) (lo : LoopOut)
    (h : makeLoopIndex pt false = .ok lo) :
    ∀ a b, 1 ≤ a → a < b → b ≤ (syms.map List.length).length →
      loopOf t (syms.map List.length) a ≠ loopOf t (syms.map List.length) b := by
  obtain ⟨_, i2⟩ := scan_false t (syms.map List.length) 0 [] [] (by rw [L.tlen]; omega)
  rw [St_zero, List.drop_zero] at i2
  have hn : ((ends t 0 (syms.map List.length)).map (·.2)).Nodup := by
    apply Classical.byContradiction
    intro hn
    rw [L.makeLoopIndex_eq, i2 (fun hh => hn hh.1)] at h
    simp at h
  intro a b ha hab hb e
  have hlen : a - 1 < ((ends t 0 (syms.map List.length)).map (·.2)).length := by
    rw [List.length_map, ends_length]; omega
  have := (List.getElem?_inj hlen hn (j := b - 1)).mp (by
    rw [endsCl_get t _ (a - 1) (by omega), endsCl_get t _ (b - 1) (by omega)]
    have e1 : a - 1 + 1 = a := by omega
    have e2 : b - 1 + 1 = b := by omega
    rw [e1, e2]
    exact congrArg some e)
  omega

/-! ### the scan of `split_complex_pt` -/

def seenOf (loop : Nat → Nat) : Nat → List (Nat × Nat)
  | 0 => [(loop 0, 0)]
  | j + 1 => (loop (j + 1), j + 1) :: seenOf loop j

theorem mem_seenOf (loop : Nat → Nat) (j k v : Nat) : (k, v) ∈ seenOf loop j ↔ v ≤ j ∧ k = loop v := by
  induction j with
  | zero => simp [seenOf]; constructor
            · rintro ⟨rfl, rfl⟩; exact ⟨rfl, rfl⟩
            · rintro ⟨rfl, rfl⟩; exact ⟨rfl, rfl⟩
  | succ j ih =>
    simp only [seenOf, List.mem_cons, Prod.mk.injEq, ih]
    constructor
    · rintro (⟨rfl, rfl⟩ | ⟨h1, h2⟩)
      · exact ⟨Nat.le_refl _, rfl⟩
      · exact ⟨by omega, h2⟩
    · rintro ⟨h1, h2⟩
      by_cases hv : v = j + 1
      · left; exact ⟨hv ▸ h2, hv⟩
      · right; exact ⟨by omega, h2⟩

theorem seenOf_head (loop : Nat → Nat) (j : Nat) : ∃ rest, seenOf loop j = (loop j, j) :: rest := by
  cases j with
  | zero => exact ⟨[], rfl⟩
  | succ j => exact ⟨_, rfl⟩

theorem lookup_some_mem (l : List (Nat × Nat)) (k v : Nat) (h : l.lookup k = some v) : (k, v) ∈ l := by
  induction l with
  | nil => simp [List.lookup] at h
  | cons p ps ih =>
    obtain ⟨a, b⟩ := p
    rw [List.lookup_cons] at h
    by_cases hk : k = a
    · subst hk; simp at h; subst h; simp
    · have : (k == a) = false := by simp [hk]
      rw [this] at h
      exact List.mem_cons_of_mem _ (ih h)

theorem lookup_none_not_mem (l : List (Nat × Nat)) (k : Nat) (h : l.lookup k = none) : ∀ v, (k, v) ∉ l := by
  induction l with
  | nil => intro v; simp
  | cons p ps ih =>
    obtain ⟨a, b⟩ := p
    rw [List.lookup_cons] at h
    by_cases hk : k = a
    · subst hk; simp at h
    · have : (k == a) = false := by simp [hk]
      rw [this] at h
      intro v hv
      simp only [List.mem_cons, Prod.mk.injEq] at hv
      rcases hv with ⟨e, _⟩ | hv
      · exact hk e
      · exact ih h v hv

theorem lookup_isSome_of_mem (l : List (Nat × Nat)) (k v : Nat) (h : (k, v) ∈ l) : (l.lookup k).isSome = true := by
  cases hl : l.lookup k with
  | none => exact absurd h (lookup_none_not_mem l k hl v)
  | some _ => rfl

theorem lookup_head (k v : Nat) (rest : List (Nat × Nat)) : ((k, v) :: rest).lookup k = some v := by
  simp [List.lookup]

/-- outcome of the scan: either no splice point and all gaps `0 … n-1` lie in different loops, or a splice
    point `(i, j)` with the gaps `i` and `j + 1` in the same loop -/
theorem splitScan_spec (loop : Nat → Nat) (n : Nat) (my : List (Nat × Nat)) (hlen : my.length = n)
    (hmy : ∀ k, k < n → my[k]? = some (loop k, loop (k + 1))) (hend : loop n = loop 0) :
    ∀ d j, n - j = d → j < n → (∀ a b, a < b → b ≤ j → loop a ≠ loop b) →
      (splitScan (my.drop j) j n (seenOf loop j) = .ok none ∧ (∀ a b, a < b → b ≤ n - 1 → loop a ≠ loop b)) ∨
      (∃ i j', splitScan (my.drop j) j n (seenOf loop j) = .ok (some (i, j')) ∧ i ≤ j' ∧ j' + 1 < n ∧
        loop i = loop (j' + 1)) := by
  intro d
  induction d with
  | zero => intro j h1 h2; omega
  | succ d ih =>
    intro j hd hj hdist
    have hjl : j < my.length := by omega
    have hget : my[j] = (loop j, loop (j + 1)) := by
      have := hmy j hj
      rw [List.getElem?_eq_getElem hjl] at this
      exact Option.some.inj this
    rw [List.drop_eq_getElem_cons hjl, hget]
    obtain ⟨rest, hrest⟩ := seenOf_head loop j
    have hl1 : (seenOf loop j).lookup (loop j) = some j := by rw [hrest]; exact lookup_head _ _ _
    rw [splitScan]
    simp only [hl1, ne_eq, not_true_eq_false, if_false]
    by_cases hlast : j = n - 1
    · simp only [hlast, if_true]
      left
      have hn1 : n - 1 + 1 = n := by omega
      have : ((seenOf loop (n - 1)).lookup (loop (n - 1 + 1))).isSome = true := by
        rw [hn1, hend]
        exact lookup_isSome_of_mem _ _ 0 ((mem_seenOf loop _ _ _).mpr ⟨by omega, rfl⟩)
      rw [this]
      exact ⟨rfl, fun a b h1 h2 => hdist a b h1 (by omega)⟩
    · simp only [hlast, if_false]
      cases hl2 : (seenOf loop j).lookup (loop (j + 1)) with
      | some i =>
        right
        have := (mem_seenOf loop j _ _).mp (lookup_some_mem _ _ _ hl2)
        exact ⟨i, j, rfl, this.1, by omega, this.2.symm⟩
      | none =>
        have hnm := lookup_none_not_mem _ _ hl2
        have hdist' : ∀ a b, a < b → b ≤ j + 1 → loop a ≠ loop b := by
          intro a b h1 h2 e
          by_cases hb : b = j + 1
          · subst hb
            exact hnm a ((mem_seenOf loop j _ _).mpr ⟨by omega, e.symm⟩)
          · exact hdist a b h1 (by omega) e
        exact ih (j + 1) (by omega) (by omega) hdist'


/-- outcome of the scan on the `myext` of a table in linear form with at least one strand -/
theorem LinF.scan_outcome {syms pt t} (L : LinF syms pt t) (hn : 1 ≤ (syms.map List.length).length) :
    (splitScan (ends t 0 (syms.map List.length)) 0 (ends t 0 (syms.map List.length)).length [(0, 0)] = .ok none ∧
      (∀ a b, 1 ≤ a → a < b → b ≤ (syms.map List.length).length →
        loopOf t (syms.map List.length) a ≠ loopOf t (syms.map List.length) b)) ∨
    (∃ i j, splitScan (ends t 0 (syms.map List.length)) 0 (ends t 0 (syms.map List.length)).length [(0, 0)]
        = .ok (some (i, j)) ∧ i ≤ j ∧ j + 1 < (syms.map List.length).length ∧
      loopOf t (syms.map List.length) i = loopOf t (syms.map List.length) (j + 1)) := by
  have hend : loopOf t (syms.map List.length) (syms.map List.length).length
      = loopOf t (syms.map List.length) 0 := by rw [L.loopOf_end]; rfl
  have := splitScan_spec (loopOf t (syms.map List.length)) (syms.map List.length).length
    (ends t 0 (syms.map List.length)) (ends_length _ _ _)
    (fun k hk => ends_loopOf t _ k hk) hend _ 0 rfl (by omega) (by intro a b h1 h2; omega)
  rw [ends_length]
  rcases this with ⟨h1, h2⟩ | h
  · left
    refine ⟨h1, ?_⟩
    intro a b ha hab hb
    by_cases hbn : b = (syms.map List.length).length
    · rw [hbn, hend]
      exact fun e => h2 0 a (by omega) (by omega) e.symm
    · exact h2 a b hab (by omega)
  · right; exact h

theorem split_fuel_mono {α} (fuel : Nat) (stab : List (List α)) (ptab : PairTable) (parts)
    (h : splitPt fuel stab ptab = .ok parts) : splitPt (fuel + 1) stab ptab = .ok parts := by
  induction fuel generalizing stab ptab parts with
  | zero => simp [splitPt] at h
  | succ f ih =>
    rw [splitPt] at h
    rw [splitPt]
    cases hm : makeLoopIndex ptab true with
    | error e => simp [hm] at h
    | ok lo =>
      simp only [hm] at h ⊢
      cases hs : splitScan lo.myext 0 lo.myext.length [(0, 0)] with
      | error e => simp [hs] at h
      | ok r =>
        cases r with
        | none => simp only [hs] at h ⊢; exact h
        | some ij =>
          obtain ⟨i, j⟩ := ij
          simp only [hs] at h ⊢
          cases ha : splitPt f (splice stab ptab i j).1.1 (splice stab ptab i j).1.2 with
          | error e => simp [ha] at h
          | ok a =>
            cases hb : splitPt f (splice stab ptab i j).2.1 (splice stab ptab i j).2.2 with
            | error e => simp [ha, hb] at h
            | ok b =>
              simp only [ha, hb] at h
              simp only [ih _ _ _ ha, ih _ _ _ hb]
              exact h

theorem split_fuel_le {α} (f f' : Nat) (hf : f ≤ f') (stab : List (List α)) (ptab : PairTable) (parts)
    (h : splitPt f stab ptab = .ok parts) : splitPt f' stab ptab = .ok parts := by
  induction f' with
  | zero => have : f = 0 := by omega
            subst this; exact h
  | succ k ih =>
    by_cases hk : f ≤ k
    · exact split_fuel_mono k stab ptab parts (ih hk)
    · have : f = k + 1 := by omega
      subst this; exact h

theorem LinF.split_id {α} {syms pt t} (L : LinF syms pt t) (hn : pt ≠ []) (lo : LoopOut)
    (hc : makeLoopIndex pt false = .ok lo) (stab : List (List α)) (fuel : Nat) :
    splitPt (fuel + 1) stab pt = .ok [(stab, pt)] := by
  have hlen : 1 ≤ (syms.map List.length).length := by
    rw [← L.shape, List.length_map]
    cases pt with
    | nil => exact absurd rfl hn
    | cons _ _ => simp
  obtain ⟨lo', h1, h2⟩ := L.myext
  have hd := L.plain_ok_iff lo hc
  rw [splitPt]
  simp only [h1, h2]
  rcases L.scan_outcome hlen with ⟨e, _⟩ | ⟨i, j, _, hij, hj, heq⟩
  · simp only [e]
    have : (ends t 0 (syms.map List.length)).isEmpty = false := by
      cases hh : ends t 0 (syms.map List.length) with
      | nil => have := ends_length t 0 (syms.map List.length); rw [hh] at this; simp only [List.length_nil] at this; omega
      | cons _ _ => rfl
    simp [this]
  · exfalso
    by_cases hi : i = 0
    · subst hi
      have e0 : loopOf t (syms.map List.length) 0 = 0 := rfl
      rw [e0, ← L.loopOf_end] at heq
      exact hd (j + 1) _ (by omega) hj (Nat.le_refl _) heq.symm
    · exact hd i (j + 1) (by omega) (by omega) (by omega) heq


theorem mpt_linF (ss : List Char) (brk : Char) (pt : PairTable) (h : makePairTable ss brk = .ok pt) :
    ∃ syms t, LinF syms pt t ∧ (splitOn brk ss).mapM (fun s => s.mapM toSym) = some syms := by
  cases hm : (splitOn brk ss).mapM (fun s => s.mapM toSym) with
  | none => simp [makePairTable, hm] at h
  | some syms =>
    cases ht : matchW syms.flatten with
    | none => simp [makePairTable, hm, ht] at h
    | some t =>
      simp only [makePairTable, hm, ht, Except.ok.injEq] at h
      exact ⟨syms, t, ⟨ht, h.symm⟩, rfl⟩


/-! ### selecting strands by a sorted list of indices -/

def sel {α} (xs : List α) (idx : List Nat) : List α := idx.filterMap (fun i => xs[i]?)

theorem sel_cons {α} (xs : List α) (i : Nat) (is : List Nat) (hi : i < xs.length) :
    sel xs (i :: is) = xs[i] :: sel xs is := by
  simp [sel, List.getElem?_eq_getElem hi]

theorem sel_get {α} (xs : List α) (idx : List Nat) (hb : ∀ i ∈ idx, i < xs.length) (a : Nat) :
    (sel xs idx)[a]? = (idx[a]?).bind (fun i => xs[i]?) := by
  induction idx generalizing a with
  | nil => simp [sel]
  | cons i is ih =>
    have hi : i < xs.length := hb i (by simp)
    rw [sel_cons xs i is hi]
    cases a with
    | zero => simp [List.getElem?_eq_getElem hi]
    | succ a =>
      simp only [List.getElem?_cons_succ]
      exact ih (fun j hj => hb j (List.mem_cons_of_mem _ hj)) a

theorem sel_length {α} (xs : List α) (idx : List Nat) (hb : ∀ i ∈ idx, i < xs.length) :
    (sel xs idx).length = idx.length := by
  induction idx with
  | nil => rfl
  | cons i is ih =>
    rw [sel_cons xs i is (hb i (by simp))]
    simp [ih (fun j hj => hb j (List.mem_cons_of_mem _ hj))]

theorem sel_map {α β} (f : α → β) (xs : List α) (idx : List Nat) : (sel xs idx).map f = sel (xs.map f) idx := by
  simp [sel, List.map_filterMap]

theorem getD_lt (idx : List Nat) (hs : idx.Pairwise (· < ·)) (a b : Nat) (hab : a < b) (hb : b < idx.length) :
    idx.getD a 0 < idx.getD b 0 := by
  rw [List.pairwise_iff_getElem] at hs
  have := hs a b (by omega) hb hab
  rw [List.getD_eq_getElem?_getD, List.getD_eq_getElem?_getD,
    List.getElem?_eq_getElem (by omega : a < idx.length), List.getElem?_eq_getElem hb]
  exact this

theorem getD_inj (idx : List Nat) (hs : idx.Pairwise (· < ·)) (a b : Nat) (ha : a < idx.length)
    (hb : b < idx.length) (h : idx.getD a 0 = idx.getD b 0) : a = b := by
  rcases Nat.lt_trichotomy a b with c | c | c
  · have := getD_lt idx hs a b c hb; omega
  · exact c
  · have := getD_lt idx hs b a c ha; omega

theorem getD_mem (idx : List Nat) (a : Nat) (ha : a < idx.length) : idx.getD a 0 ∈ idx := by
  rw [List.getD_eq_getElem?_getD, List.getElem?_eq_getElem ha]
  exact List.getElem_mem ha

theorem getD_idxOf (idx : List Nat) (x : Nat) (hx : x ∈ idx) :
    idx.idxOf x < idx.length ∧ idx.getD (idx.idxOf x) 0 = x := by
  have h1 := List.idxOf_lt_length_of_mem hx
  refine ⟨h1, ?_⟩
  rw [List.getD_eq_getElem?_getD, List.getElem?_eq_getElem h1]
  simp

theorem idxOf_getD (idx : List Nat) (hs : idx.Pairwise (· < ·)) (a : Nat) (ha : a < idx.length) :
    idx.idxOf (idx.getD a 0) = a := by
  obtain ⟨h1, h2⟩ := getD_idxOf idx _ (getD_mem idx a ha)
  exact getD_inj idx hs _ _ h1 ha h2

/-- original locus of a locus of the part / locus in the part of an original locus -/
def up (idx : List Nat) (l : Locus) : Locus := (idx.getD l.1 0, l.2)
def dn (idx : List Nat) (l : Locus) : Locus := (idx.idxOf l.1, l.2)

theorem dn_up (idx : List Nat) (hs : idx.Pairwise (· < ·)) (l : Locus) (h : l.1 < idx.length) :
    dn idx (up idx l) = l := by
  show (idx.idxOf (idx.getD l.1 0), l.2) = l
  rw [idxOf_getD idx hs l.1 h]

theorem up_dn (idx : List Nat) (l : Locus) (h : l.1 ∈ idx) : up idx (dn idx l) = l ∧ (dn idx l).1 < idx.length := by
  obtain ⟨h1, h2⟩ := getD_idxOf idx l.1 h
  refine ⟨?_, h1⟩
  show (idx.getD (idx.idxOf l.1) 0, l.2) = l
  rw [h2]

theorem lt_up (idx : List Nat) (hs : idx.Pairwise (· < ·)) (a b : Locus) (ha : a.1 < idx.length)
    (hb : b.1 < idx.length) : Locus.lt (up idx a) (up idx b) = true ↔ Locus.lt a b = true := by
  unfold up
  simp only [Locus.lt, Bool.or_eq_true, decide_eq_true_eq, Bool.and_eq_true, beq_iff_eq]
  rcases Nat.lt_trichotomy a.1 b.1 with c | c | c
  · have := getD_lt idx hs _ _ c hb; omega
  · rw [c]; omega
  · have := getD_lt idx hs _ _ c ha; omega

theorem getL_sel {α} (xss : List (List α)) (idx : List Nat) (hb : ∀ i ∈ idx, i < xss.length) (l : Locus)
    (h : l.1 < idx.length) : getL (sel xss idx) l = getL xss (up idx l) := by
  simp only [getL, up, sel_get xss idx hb, List.getElem?_eq_getElem h, Option.bind_some,
    List.getD_eq_getElem?_getD, Option.getD_some]

theorem getL_sel_lt {α} (xss : List (List α)) (idx : List Nat) (hb : ∀ i ∈ idx, i < xss.length) (l : Locus)
    (y : α) (h : getL (sel xss idx) l = some y) : l.1 < idx.length := by
  unfold getL at h
  cases hs : (sel xss idx)[l.1]? with
  | none => simp [hs] at h
  | some s =>
    have := (List.getElem?_eq_some_iff.mp hs).1
    rw [sel_length xss idx hb] at this
    exact this

/-! ### parts of a pair table -/

/-- the table `pt'` consists of the rows `idx` of `ptab`, closed under pairing, strand indices renamed -/
structure PartPt (ptab pt' : PairTable) (idx : List Nat) : Prop where
  sorted : idx.Pairwise (· < ·)
  bound : ∀ i ∈ idx, i < ptab.length
  rows : pt'.map List.length = idx.filterMap (fun i => (ptab[i]?).map List.length)
  closed : ∀ a d l, a ∈ idx → ptGet ptab (a, d) = some l → l.1 ∈ idx
  pairs : ∀ (a : Nat) d, a < idx.length →
    ptGet pt' (a, d) = (ptGet ptab (idx.getD a 0, d)).map (fun l => (idx.idxOf l.1, l.2))

theorem PartPt.rows' {ptab pt' idx} (h : PartPt ptab pt' idx) :
    pt'.map List.length = sel (ptab.map List.length) idx := by
  rw [h.rows]; simp [sel]

theorem PartPt.len {ptab pt' idx} (h : PartPt ptab pt' idx) : pt'.length = idx.length := by
  have := congrArg List.length h.rows'
  rw [List.length_map, sel_length _ _ (by simpa using h.bound)] at this
  exact this

theorem PartPt.k1 {ptab pt' idx} (h : PartPt ptab pt' idx) (l : Locus) (hl : l.1 < idx.length) :
    ptGet pt' l = (ptGet ptab (up idx l)).map (dn idx) := h.pairs l.1 l.2 hl

theorem ptGet_lt (pt : PairTable) (l l' : Locus) (h : ptGet pt l = some l') : l.1 < pt.length := by
  rw [ptGet_eq] at h
  cases hg : getL pt l with
  | none => simp [hg] at h
  | some o =>
    unfold getL at hg
    cases hs : pt[l.1]? with
    | none => simp [hs] at hg
    | some s => exact (List.getElem?_eq_some_iff.mp hs).1

theorem PartPt.k3 {ptab pt' idx} (h : PartPt ptab pt' idx) (a b : Locus) (hab : ptGet pt' a = some b) :
    a.1 < idx.length ∧ b.1 < idx.length ∧ ptGet ptab (up idx a) = some (up idx b) := by
  have ha : a.1 < idx.length := by rw [← h.len]; exact ptGet_lt pt' a b hab
  rw [h.k1 a ha] at hab
  cases hm : ptGet ptab (up idx a) with
  | none => simp [hm] at hab
  | some m =>
    simp only [hm, Option.map_some, Option.some.injEq] at hab
    have hmem : m.1 ∈ idx := h.closed _ _ m (getD_mem idx a.1 ha) hm
    obtain ⟨e1, e2⟩ := up_dn idx m hmem
    rw [hab] at e1 e2
    exact ⟨ha, e2, by rw [e1]⟩

theorem LM.restrict {syms ptab} (h : LM syms ptab) {pt' idx} (hp : PartPt ptab pt' idx) :
    LM (sel syms idx) pt' := by
  have hlen : syms.length = ptab.length := by
    have := congrArg List.length h.shape; simpa using this.symm
  have hb : ∀ i ∈ idx, i < syms.length := fun i hi => hlen ▸ hp.bound i hi
  have hs := hp.sorted
  refine ⟨?_, ?_, ?_, ?_, ?_⟩
  · rw [hp.rows', h.shape, sel_map]
  · intro l hl
    have hlt := getL_sel_lt syms idx hb l _ hl
    rw [getL_sel syms idx hb l hlt] at hl
    rw [hp.k1 l hlt, h.dot _ hl]; rfl
  · intro l hl
    have hlt := getL_sel_lt syms idx hb l _ hl
    rw [getL_sel syms idx hb l hlt] at hl
    obtain ⟨m, h1, h2, h3, h4⟩ := h.cl _ hl
    have hmem : m.1 ∈ idx := hp.closed _ _ m (getD_mem idx l.1 hlt) h2
    obtain ⟨e1, e2⟩ := up_dn idx m hmem
    refine ⟨dn idx m, ?_, ?_, ?_, ?_⟩
    · rw [← lt_up idx hs _ _ e2 hlt, e1]; exact h1
    · rw [hp.k1 l hlt, h2]; rfl
    · rw [hp.k1 _ e2, e1, h3]; simp [dn_up idx hs l hlt]
    · rw [getL_sel syms idx hb _ e2, e1]; exact h4
  · intro l hl
    have hlt := getL_sel_lt syms idx hb l _ hl
    rw [getL_sel syms idx hb l hlt] at hl
    obtain ⟨m, h1, h2, h3, h4⟩ := h.op _ hl
    have hmem : m.1 ∈ idx := hp.closed _ _ m (getD_mem idx l.1 hlt) h2
    obtain ⟨e1, e2⟩ := up_dn idx m hmem
    refine ⟨dn idx m, ?_, ?_, ?_, ?_⟩
    · rw [← lt_up idx hs _ _ hlt e2, e1]; exact h1
    · rw [hp.k1 l hlt, h2]; rfl
    · rw [hp.k1 _ e2, e1, h3]; simp [dn_up idx hs l hlt]
    · rw [getL_sel syms idx hb _ e2, e1]; exact h4
  · intro a b c d hab hcd h1 h2 h3
    obtain ⟨a1, b1, ab⟩ := hp.k3 a b hab
    obtain ⟨c1, d1, cd⟩ := hp.k3 c d hcd
    exact h.nocross _ _ _ _ ab cd ((lt_up idx hs _ _ a1 c1).mpr h1) ((lt_up idx hs _ _ c1 b1).mpr h2)
      ((lt_up idx hs _ _ b1 d1).mpr h3)


/-! ### the two halves of a splice -/

theorem ptGet_shift (pt : PairTable) (f : Nat → Nat) (l : Locus) :
    ptGet (pt.map (fun st => st.map (shiftLocus f))) l = (ptGet pt l).map (fun l => (f l.1, l.2)) := by
  simp only [ptGet, List.getElem?_map]
  cases pt[l.1]? with
  | none => rfl
  | some s =>
    simp only [Option.map_some, Option.bind_some, List.getElem?_map]
    cases s[l.2]? with
    | none => rfl
    | some o => cases o <;> rfl

theorem ptGet_sel (ptab : PairTable) (J : List Nat) (hb : ∀ i ∈ J, i < ptab.length) (l : Locus)
    (h : l.1 < J.length) : ptGet (sel ptab J) l = ptGet ptab (up J l) := by
  rw [ptGet_eq, ptGet_eq, getL_sel ptab J hb l h]

theorem partPt_of_sel (ptab : PairTable) (J : List Nat) (f : Nat → Nat) (hs : J.Pairwise (· < ·))
    (hb : ∀ i ∈ J, i < ptab.length)
    (hc : ∀ a d l, a ∈ J → ptGet ptab (a, d) = some l → l.1 ∈ J)
    (hf : ∀ x ∈ J, f x = J.idxOf x) :
    PartPt ptab ((sel ptab J).map (fun st => st.map (shiftLocus f))) J := by
  refine ⟨hs, hb, ?_, hc, ?_⟩
  · rw [List.map_map]
    have : (List.length ∘ fun st : List (Option Locus) => st.map (shiftLocus f)) = List.length := by
      funext st; simp
    rw [this, sel_map]; simp [sel]
  · intro a d ha
    rw [ptGet_shift, ptGet_sel ptab J hb (a, d) ha]
    show Option.map _ (ptGet ptab (J.getD a 0, d)) = _
    cases hm : ptGet ptab (J.getD a 0, d) with
    | none => rfl
    | some m =>
      have := hc _ _ m (getD_mem J a ha) hm
      simp only [Option.map_some, hf m.1 this]

theorem sel_append {α} (xs : List α) (A B : List Nat) : sel xs (A ++ B) = sel xs A ++ sel xs B := by
  simp [sel, List.filterMap_append]

theorem sel_range' {α} (xs : List α) (i m : Nat) (h : i + m ≤ xs.length) :
    sel xs (List.range' i m) = (xs.take (i + m)).drop i := by
  apply List.ext_getElem?
  intro a
  rw [sel_get xs _ (by intro x hx; obtain ⟨k, hk, rfl⟩ := List.mem_range'.mp hx; omega)]
  rw [List.getElem?_drop, List.getElem?_take]
  by_cases ha : a < m
  · rw [List.getElem?_range' ha]
    simp only [Option.bind_some, Nat.one_mul]
    rw [if_pos (by omega)]
  · have : (List.range' i m)[a]? = none := by
      apply List.getElem?_eq_none; simp; omega
    rw [this, if_neg (by omega)]; rfl

/-- strand indices of the inner / outer half -/
def Jin (i j : Nat) : List Nat := List.range' i (j + 1 - i)
def Jout (i j n : Nat) : List Nat := List.range' 0 i ++ List.range' (j + 1) (n - (j + 1))

theorem mem_Jin (i j x : Nat) : x ∈ Jin i j ↔ i ≤ x ∧ x ≤ j := by
  simp only [Jin, List.mem_range', Nat.one_mul]
  constructor
  · rintro ⟨k, hk, rfl⟩; omega
  · rintro ⟨h1, h2⟩; exact ⟨x - i, by omega, by omega⟩

theorem mem_Jout (i j n x : Nat) (hij : i ≤ j) (hj : j < n) : x ∈ Jout i j n ↔ x < n ∧ ¬ (i ≤ x ∧ x ≤ j) := by
  simp only [Jout, List.mem_append, List.mem_range', Nat.one_mul]
  constructor
  · rintro (⟨k, hk, rfl⟩ | ⟨k, hk, rfl⟩) <;> omega
  · rintro ⟨h1, h2⟩
    by_cases hx : x < i
    · left; exact ⟨x, hx, by omega⟩
    · right; exact ⟨x - (j + 1), by omega, by omega⟩

theorem Jin_sorted (i j : Nat) : (Jin i j).Pairwise (· < ·) := List.pairwise_lt_range' 1

theorem Jout_sorted (i j n : Nat) (hij : i ≤ j) : (Jout i j n).Pairwise (· < ·) := by
  rw [Jout, List.pairwise_append]
  refine ⟨List.pairwise_lt_range' 1, List.pairwise_lt_range' 1, ?_⟩
  intro a ha b hb
  simp only [List.mem_range', Nat.one_mul] at ha hb
  obtain ⟨k, hk, rfl⟩ := ha
  obtain ⟨k', hk', rfl⟩ := hb
  omega

theorem Jin_length (i j : Nat) : (Jin i j).length = j + 1 - i := by simp [Jin]
theorem Jout_length (i j n : Nat) : (Jout i j n).length = i + (n - (j + 1)) := by simp [Jout]

theorem Jin_getD (i j a : Nat) (ha : a < j + 1 - i) : (Jin i j).getD a 0 = i + a := by
  rw [List.getD_eq_getElem?_getD, Jin, List.getElem?_range' ha]; simp

theorem Jout_getD (i j n a : Nat) (hij : i ≤ j) (ha : a < i + (n - (j + 1))) :
    (Jout i j n).getD a 0 = if a < i then a else a + (j + 1 - i) := by
  rw [List.getD_eq_getElem?_getD, Jout]
  by_cases h : a < i
  · rw [List.getElem?_append_left (by simpa using h), List.getElem?_range' h, if_pos h]; simp
  · rw [List.getElem?_append_right (by simpa using h), if_neg h]
    simp only [List.length_range']
    rw [List.getElem?_range' (by omega)]
    simp; omega

theorem Jin_idxOf (i j x : Nat) (hx : x ∈ Jin i j) : x - i = (Jin i j).idxOf x := by
  obtain ⟨h1, h2⟩ := (mem_Jin i j x).mp hx
  have hlt : x - i < (Jin i j).length := by rw [Jin_length]; omega
  have := idxOf_getD _ (Jin_sorted i j) (x - i) hlt
  rw [Jin_getD i j _ (by omega)] at this
  rw [← this]; congr 1; omega

theorem Jout_idxOf (i j n x : Nat) (hij : i ≤ j) (hj : j < n) (hx : x ∈ Jout i j n) :
    (if x < i then x else x - (j + 1 - i)) = (Jout i j n).idxOf x := by
  obtain ⟨h1, h2⟩ := (mem_Jout i j n x hij hj).mp hx
  by_cases hxi : x < i
  · rw [if_pos hxi]
    have hlt : x < (Jout i j n).length := by rw [Jout_length]; omega
    have := idxOf_getD _ (Jout_sorted i j n hij) x hlt
    rw [Jout_getD i j n _ hij (by omega), if_pos hxi] at this
    exact this.symm
  · rw [if_neg hxi]
    have hlt : x - (j + 1 - i) < (Jout i j n).length := by rw [Jout_length]; omega
    have := idxOf_getD _ (Jout_sorted i j n hij) _ hlt
    rw [Jout_getD i j n _ hij (by omega), if_neg (by omega)] at this
    rw [← this]; congr 1; omega

theorem sel_Jin {α} (xs : List α) (i j : Nat) (hij : i ≤ j) (hj : j < xs.length) :
    sel xs (Jin i j) = (xs.take (j + 1)).drop i := by
  rw [Jin, sel_range' xs i _ (by omega)]
  congr 2; omega

theorem sel_Jout {α} (xs : List α) (i j : Nat) (hij : i ≤ j) (hj : j < xs.length) :
    sel xs (Jout i j xs.length) = xs.take i ++ xs.drop (j + 1) := by
  rw [Jout, sel_append, sel_range' xs 0 i (by omega), sel_range' xs (j + 1) _ (by omega)]
  simp only [Nat.zero_add, List.drop_zero]
  congr 1
  rw [List.take_of_length_le (by omega)]

theorem splice_eq {α} (stab : List (List α)) (ptab : PairTable) (i j : Nat) (hij : i ≤ j)
    (hj : j < ptab.length) (hs : stab.length = ptab.length) :
    splice stab ptab i j =
      ((sel stab (Jin i j), (sel ptab (Jin i j)).map (fun st => st.map (shiftLocus (fun s => s - i)))),
       (sel stab (Jout i j ptab.length),
        (sel ptab (Jout i j ptab.length)).map
          (fun st => st.map (shiftLocus (fun s => if s < i then s else s - (j + 1 - i)))))) := by
  rw [sel_Jin stab i j hij (by omega), sel_Jin ptab i j hij hj, ← hs, sel_Jout stab i j hij (by omega), hs,
    sel_Jout ptab i j hij hj]
  rfl


theorem block_closed_pos {W M} (hM : Matching W M) (b1 b2 l : Nat) (h1 : LoopAt W M b1 l)
    (h2 : LoopAt W M b2 l) (p q : Nat) (hpq : M p = some q) :
    (b1 ≤ p ∧ p < b2) ↔ (b1 ≤ q ∧ q < b2) := by
  obtain ⟨_, _, hne, hqp⟩ := hM.pair p q hpq
  rcases Nat.lt_or_gt_of_ne hne with c | c
  · obtain ⟨n1, n2⟩ := no_straddle hM b1 b2 l h1 h2 p q hpq c; omega
  · obtain ⟨n1, n2⟩ := no_straddle hM b1 b2 l h1 h2 q p hqp c; omega

theorem strand_ge_iff (lens : List Nat) (p g : Nat) (hp : p < lens.sum) :
    g ≤ (toLocus lens p).1 ↔ (lens.take g).sum ≤ p := by
  cases g with
  | zero => simp
  | succ k =>
    have := strand_gt_iff lens p k hp
    omega

theorem validL_lt (lens : List Nat) (l : Locus) (h : ValidL lens l) : l.1 < lens.length := by
  obtain ⟨n, h1, _⟩ := h
  exact (List.getElem?_eq_some_iff.mp h1).1

theorem LinF.entry_lt {syms pt t} (L : LinF syms pt t) (a l : Locus) (h : ptGet pt a = some l) :
    l.1 < pt.length := by
  obtain ⟨_, v, _, _⟩ := L.lm.entry a l h
  have := validL_lt _ _ v
  have e := congrArg List.length L.shape
  simp only [List.length_map] at e this
  omega

/-- two gaps in the same loop: the block of strands between them is closed under pairing -/
theorem LinF.block_closed {syms pt t} (L : LinF syms pt t) (i j : Nat)
    (hloop : loopOf t (syms.map List.length) i = loopOf t (syms.map List.length) (j + 1))
    (a d : Nat) (l : Locus) (h : ptGet pt (a, d) = some l) : (i ≤ a ∧ a ≤ j) ↔ (i ≤ l.1 ∧ l.1 ≤ j) := by
  obtain ⟨p, q, e1, e2, hpq⟩ := L.pair_of_ptGet (a, d) l h
  obtain ⟨hp, hq, _, _⟩ := L.hM.pair p q hpq
  rw [L.wlen] at hp hq
  have l1 := L.loopAt i
  have l2 := L.loopAt (j + 1)
  rw [hloop] at l1
  have key := block_closed_pos L.hM _ _ _ l1 l2 p q hpq
  have ea : a = (toLocus (syms.map List.length) p).1 := congrArg Prod.fst e1
  have el : l.1 = (toLocus (syms.map List.length) q).1 := congrArg Prod.fst e2
  have s1 := strand_ge_iff (syms.map List.length) p i hp
  have s2 := strand_ge_iff (syms.map List.length) p (j + 1) hp
  have s3 := strand_ge_iff (syms.map List.length) q i hq
  have s4 := strand_ge_iff (syms.map List.length) q (j + 1) hq
  rw [← ea] at s1 s2
  rw [← el] at s3 s4
  omega

theorem LinF.part_inner {syms pt t} (L : LinF syms pt t) (i j : Nat) (_hij : i ≤ j) (hj : j < pt.length)
    (hloop : loopOf t (syms.map List.length) i = loopOf t (syms.map List.length) (j + 1)) :
    PartPt pt ((sel pt (Jin i j)).map (fun st => st.map (shiftLocus (fun s => s - i)))) (Jin i j) := by
  apply partPt_of_sel pt (Jin i j) _ (Jin_sorted i j)
  · intro x hx; have := (mem_Jin i j x).mp hx; omega
  · intro a d l ha h
    rw [mem_Jin] at ha ⊢
    exact (L.block_closed i j hloop a d l h).mp ha
  · intro x hx; exact Jin_idxOf i j x hx

theorem LinF.part_outer {syms pt t} (L : LinF syms pt t) (i j : Nat) (hij : i ≤ j) (hj : j < pt.length)
    (hloop : loopOf t (syms.map List.length) i = loopOf t (syms.map List.length) (j + 1)) :
    PartPt pt ((sel pt (Jout i j pt.length)).map
      (fun st => st.map (shiftLocus (fun s => if s < i then s else s - (j + 1 - i))))) (Jout i j pt.length) := by
  apply partPt_of_sel pt (Jout i j pt.length) _ (Jout_sorted i j _ hij)
  · intro x hx; exact ((mem_Jout i j _ x hij hj).mp hx).1
  · intro a d l ha h
    rw [mem_Jout i j _ _ hij hj] at ha ⊢
    refine ⟨L.entry_lt _ _ h, ?_⟩
    intro hl
    exact ha.2 ((L.block_closed i j hloop a d l h).mpr hl)
  · intro x hx; exact Jout_idxOf i j _ x hij hj hx


/-! ### parts of parts -/

theorem sel_sel {α} (xs : List α) (J idx : List Nat) (hJ : ∀ i ∈ J, i < xs.length)
    (hidx : ∀ a ∈ idx, a < J.length) :
    sel (sel xs J) idx = sel xs (idx.map (fun a => J.getD a 0)) := by
  have hb2 : ∀ a ∈ idx, a < (sel xs J).length := by rw [sel_length xs J hJ]; exact hidx
  have hb3 : ∀ i ∈ idx.map (fun a => J.getD a 0), i < xs.length := by
    intro i hi
    obtain ⟨a, ha, rfl⟩ := List.mem_map.mp hi
    exact hJ _ (getD_mem J a (hidx a ha))
  apply List.ext_getElem?
  intro a
  rw [sel_get _ _ hb2, sel_get _ _ hb3, List.getElem?_map]
  cases hk : idx[a]? with
  | none => rfl
  | some k =>
    have hkJ : k < J.length := hidx k (List.mem_of_getElem? hk)
    simp only [Option.bind_some, Option.map_some]
    rw [sel_get _ _ hJ, List.getElem?_eq_getElem hkJ, List.getD_eq_getElem?_getD,
      List.getElem?_eq_getElem hkJ]
    rfl

theorem getD_map_getD (J idx : List Nat) (a : Nat) (ha : a < idx.length) :
    (idx.map (fun a => J.getD a 0)).getD a 0 = J.getD (idx.getD a 0) 0 := by
  rw [List.getD_eq_getElem?_getD, List.getElem?_map, List.getElem?_eq_getElem ha]
  rw [List.getD_eq_getElem?_getD (l := idx), List.getElem?_eq_getElem ha]
  rfl

theorem PartPt.trans {ptab mid pt' : PairTable} {J idx : List Nat} (h1 : PartPt ptab mid J)
    (h2 : PartPt mid pt' idx) : PartPt ptab pt' (idx.map (fun a => J.getD a 0)) := by
  have hmid : mid.length = J.length := h1.len
  have hidx : ∀ a ∈ idx, a < J.length := fun a ha => hmid ▸ h2.bound a ha
  have hsorted : (idx.map (fun a => J.getD a 0)).Pairwise (· < ·) := by
    rw [List.pairwise_map]
    exact List.Pairwise.imp_of_mem (fun {a b} _ hb hab => getD_lt J h1.sorted a b hab (hidx b hb)) h2.sorted
  -- partner bookkeeping
  have key : ∀ a' d m, a' ∈ idx → ptGet ptab (J.getD a' 0, d) = some m →
      m.1 ∈ J ∧ J.idxOf m.1 ∈ idx ∧ J.getD (J.idxOf m.1) 0 = m.1 := by
    intro a' d m ha' hm
    have hJa : a' < J.length := hidx a' ha'
    have hmJ : m.1 ∈ J := h1.closed _ _ m (getD_mem J a' hJa) hm
    have hp := h1.pairs a' d hJa
    rw [hm] at hp
    exact ⟨hmJ, h2.closed a' d _ ha' hp, (getD_idxOf J m.1 hmJ).2⟩
  refine ⟨hsorted, ?_, ?_, ?_, ?_⟩
  · intro i hi
    obtain ⟨a, ha, rfl⟩ := List.mem_map.mp hi
    exact h1.bound _ (getD_mem J a (hidx a ha))
  · have := h2.rows'
    rw [h1.rows', sel_sel _ J idx (by simpa using h1.bound) hidx] at this
    rw [this]; simp [sel]
  · intro a d l ha hl
    obtain ⟨a', ha', rfl⟩ := List.mem_map.mp ha
    obtain ⟨_, k2, k3⟩ := key a' d l ha' hl
    exact List.mem_map.mpr ⟨_, k2, k3⟩
  · intro a d ha
    rw [List.length_map] at ha
    have hmem : idx.getD a 0 ∈ idx := getD_mem idx a ha
    rw [h2.pairs a d ha, h1.pairs _ d (hidx _ hmem), getD_map_getD J idx a ha]
    cases hm : ptGet ptab (J.getD (idx.getD a 0) 0, d) with
    | none => rfl
    | some m =>
      obtain ⟨_, k2, k3⟩ := key _ d m hmem hm
      simp only [Option.map_some, Option.some.injEq, Prod.mk.injEq, and_true]
      -- position of `m.1` in the composed index list
      obtain ⟨q1, q2⟩ := getD_idxOf idx _ k2
      have := idxOf_getD _ hsorted (idx.idxOf (J.idxOf m.1)) (by rw [List.length_map]; exact q1)
      rw [getD_map_getD J idx _ q1, q2, k3] at this
      exact this.symm

/-- `part` consists of the strands `idx` of `(stab, ptab)` -/
structure PartOf {α} (stab : List (List α)) (ptab : PairTable) (part : List (List α) × PairTable)
    (idx : List Nat) : Prop where
  pt : PartPt ptab part.2 idx
  strands : part.1 = sel stab idx

theorem PartOf.trans {α} {stab : List (List α)} {ptab mid : PairTable} {J idx : List Nat}
    {part : List (List α) × PairTable} (hs : stab.length = ptab.length)
    (h1 : PartPt ptab mid J) (h2 : PartOf (sel stab J) mid part idx) :
    PartOf stab ptab part (idx.map (fun a => J.getD a 0)) := by
  refine ⟨h1.trans h2.pt, ?_⟩
  rw [h2.strands, sel_sel stab J idx (fun i hi => hs ▸ h1.bound i hi)
    (fun a ha => h1.len ▸ h2.pt.bound a ha)]

theorem sel_range {α} (xs : List α) : sel xs (List.range xs.length) = xs := by
  rw [List.range_eq_range', sel_range' xs 0 xs.length (by omega)]
  simp

theorem range_getD (n a : Nat) (ha : a < n) : (List.range n).getD a 0 = a := by
  rw [List.getD_eq_getElem?_getD, List.getElem?_range ha]; rfl

theorem LinF.part_self {α} {syms pt t} (L : LinF syms pt t) (stab : List (List α))
    (hs : stab.length = pt.length) : PartOf stab pt (stab, pt) (List.range pt.length) := by
  have hsorted : (List.range pt.length).Pairwise (· < ·) := List.pairwise_lt_range
  refine ⟨⟨hsorted, ?_, ?_, ?_, ?_⟩, ?_⟩
  · intro i hi; exact List.mem_range.mp hi
  · have : (List.range pt.length).filterMap (fun i => (pt[i]?).map List.length) =
        sel (pt.map List.length) (List.range (pt.map List.length).length) := by
      simp [sel]
    rw [this, sel_range]
  · intro a d l _ hl
    exact List.mem_range.mpr (L.entry_lt _ _ hl)
  · intro a d ha
    rw [List.length_range] at ha
    rw [range_getD _ a ha]
    cases hm : ptGet pt (a, d) with
    | none => rfl
    | some m =>
      have hlt := L.entry_lt _ _ hm
      have := idxOf_getD _ hsorted m.1 (by rw [List.length_range]; exact hlt)
      rw [range_getD _ _ hlt] at this
      simp only [Option.map_some, this]
  · show stab = sel stab (List.range pt.length)
    rw [← hs, sel_range]

theorem map_getD_range (J : List Nat) : (List.range J.length).map (fun a => J.getD a 0) = J := by
  apply List.ext_getElem?
  intro a
  rw [List.getElem?_map]
  by_cases ha : a < J.length
  · rw [List.getElem?_range ha, List.getElem?_eq_getElem ha]
    simp [List.getD_eq_getElem?_getD, List.getElem?_eq_getElem ha]
  · rw [List.getElem?_eq_none (by simpa using ha), List.getElem?_eq_none (by omega)]; rfl

theorem Jin_Jout_perm (i j n : Nat) (hij : i ≤ j) (hj : j < n) : (Jin i j ++ Jout i j n).Perm (List.range n) := by
  have e1 : List.range' 0 i ++ List.range' i (j + 1 - i) = List.range' 0 (j + 1) := by
    have := List.range'_append (s := 0) (m := i) (n := j + 1 - i) (step := 1)
    simp only [Nat.zero_add, Nat.one_mul] at this
    rw [this]; congr 1; omega
  have e2 : List.range' 0 (j + 1) ++ List.range' (j + 1) (n - (j + 1)) = List.range' 0 n := by
    have := List.range'_append (s := 0) (m := j + 1) (n := n - (j + 1)) (step := 1)
    simp only [Nat.zero_add, Nat.one_mul] at this
    rw [this]; congr 1; omega
  rw [Jin, Jout, List.range_eq_range', ← e2, ← e1, ← List.append_assoc]
  exact List.Perm.append_right _ List.perm_append_comm


/-! ### the main induction -/

theorem split_gen {α} : ∀ (n : Nat) (stab : List (List α)) (ptab : PairTable) (syms : List (List Sym)),
    LM syms ptab → ptab.length = n → 1 ≤ n → stab.length = n →
    ∃ (parts : List (List (List α) × PairTable)) (idxs : List (List Nat)),
      splitPt (n + 1) stab ptab = .ok parts ∧ idxs.length = parts.length ∧
      (∀ (k : Nat) part idx, parts[k]? = some part → idxs[k]? = some idx →
        PartOf stab ptab part idx ∧ idx ≠ []) ∧
      idxs.flatten.Perm (List.range n) ∧
      (∀ part ∈ parts, ∃ lo, makeLoopIndex part.2 false = .ok lo) := by
  intro n
  induction n using Nat.strongRecOn with
  | _ n ih =>
    intro stab ptab syms hlm hn h1 hs
    obtain ⟨t, L⟩ := hlm.linF
    have hlens : (syms.map List.length).length = n := by rw [← L.shape, List.length_map, hn]
    have hne : ptab ≠ [] := by intro e; rw [e] at hn; simp at hn; omega
    have hs' : stab.length = ptab.length := hs.trans hn.symm
    obtain ⟨lo', m1, m2⟩ := L.myext
    rcases L.scan_outcome (by omega) with ⟨e, hd⟩ | ⟨i, j, e, hij, hj, heq⟩
    · -- a single component
      obtain ⟨lo, hlo⟩ := L.plain_ok hd
      refine ⟨[(stab, ptab)], [List.range n], L.split_id hne lo hlo stab n, rfl, ?_, ?_, ?_⟩
      · intro k part idx hp hi
        cases k with
        | zero =>
          simp only [List.getElem?_cons_zero, Option.some.injEq] at hp hi
          subst hp; subst hi
          refine ⟨hn ▸ L.part_self stab hs', ?_⟩
          intro e0
          have := congrArg List.length e0
          simp at this; omega
        | succ k => simp at hp
      · simp
      · intro part hp
        simp only [List.mem_singleton] at hp
        subst hp; exact ⟨lo, hlo⟩
    · -- a splice
      rw [hlens] at hj
      have hjl : j < ptab.length := by omega
      have Pin := L.part_inner i j hij hjl heq
      have Pout := L.part_outer i j hij hjl heq
      have Lin := hlm.restrict Pin
      have Lout := hlm.restrict Pout
      have lin : (Jin i j).length = j + 1 - i := Jin_length i j
      have lout : (Jout i j ptab.length).length = i + (n - (j + 1)) := by rw [Jout_length, hn]
      have bin : ∀ x ∈ Jin i j, x < stab.length := fun x hx => hs' ▸ Pin.bound x hx
      have bout : ∀ x ∈ Jout i j ptab.length, x < stab.length := fun x hx => hs' ▸ Pout.bound x hx
      obtain ⟨pa, ia, fa, la, qa, ra, ca⟩ := ih (j + 1 - i) (by omega) (sel stab (Jin i j)) _ _ Lin
        (by rw [Pin.len, lin]) (by omega) (by rw [sel_length stab _ bin, lin])
      obtain ⟨pb, ib, fb, lb, qb, rb, cb⟩ := ih (i + (n - (j + 1))) (by omega)
        (sel stab (Jout i j ptab.length)) _ _ Lout
        (by rw [Pout.len, lout]) (by omega) (by rw [sel_length stab _ bout, lout])
      have fa' := split_fuel_le _ n (by omega) _ _ _ fa
      have fb' := split_fuel_le _ n (by omega) _ _ _ fb
      refine ⟨pa ++ pb, ia.map (List.map (fun a => (Jin i j).getD a 0)) ++
          ib.map (List.map (fun a => (Jout i j ptab.length).getD a 0)), ?_, ?_, ?_, ?_, ?_⟩
      · rw [splitPt]
        simp only [m1, m2, e]
        rw [splice_eq stab ptab i j hij hjl hs']
        simp only [fa', fb']
      · simp [la, lb]
      · intro k part idx hp hi
        rw [List.getElem?_append] at hp hi
        rw [List.length_map, la] at hi
        by_cases hk : k < pa.length
        · rw [if_pos hk] at hp hi
          rw [List.getElem?_map] at hi
          cases h0 : ia[k]? with
          | none => rw [h0] at hi; simp at hi
          | some idx0 =>
            rw [h0] at hi
            simp only [Option.map_some, Option.some.injEq] at hi
            subst hi
            obtain ⟨p1, p2⟩ := qa k part idx0 hp h0
            refine ⟨PartOf.trans hs' Pin p1, ?_⟩
            intro e0; exact p2 (List.map_eq_nil_iff.mp e0)
        · rw [if_neg hk] at hp hi
          rw [List.getElem?_map] at hi
          cases h0 : ib[k - pa.length]? with
          | none => rw [h0] at hi; simp at hi
          | some idx0 =>
            rw [h0] at hi
            simp only [Option.map_some, Option.some.injEq] at hi
            subst hi
            obtain ⟨p1, p2⟩ := qb _ part idx0 hp h0
            refine ⟨PartOf.trans hs' Pout p1, ?_⟩
            intro e0; exact p2 (List.map_eq_nil_iff.mp e0)
      · rw [List.flatten_append, ← List.map_flatten, ← List.map_flatten]
        have e1 := (ra.map (fun a => (Jin i j).getD a 0))
        have e2 := (rb.map (fun a => (Jout i j ptab.length).getD a 0))
        rw [← lin, map_getD_range] at e1
        rw [← lout, map_getD_range] at e2
        have := (e1.append e2).trans (Jin_Jout_perm i j ptab.length hij hjl)
        rw [← hn]
        exact this
      · intro part hp
        rcases List.mem_append.mp hp with h | h
        · exact ca part h
        · exact cb part h


/-! ### a table in linear form is the parse of its own rendering -/

def symChar : Sym → Char
  | .op => '('
  | .cl => ')'
  | .dot => '.'

theorem toSym_symChar (y : Sym) : toSym (symChar y) = some y := by cases y <;> rfl

theorem mem_sel {α} (xs : List α) (idx : List Nat) (x : α) (h : x ∈ sel xs idx) : x ∈ xs := by
  obtain ⟨i, _, hi⟩ := List.mem_filterMap.mp h
  exact List.mem_of_getElem? hi

theorem LM.render_eq {syms pt} (h : LM syms pt) : pt.zipIdx.map rend = syms.map (List.map symChar) := by
  apply ext_getL
  · have := congrArg List.length h.shape
    simpa using this
  · intro l
    rw [getL_rend]
    have e : getL (syms.map (List.map symChar)) l = (getL syms l).map symChar := by
      simp only [getL, List.getElem?_map]
      cases syms[l.1]? with
      | none => rfl
      | some s => simp
    rw [e]
    cases hy : getL syms l with
    | none =>
      cases hp : getL pt l with
      | none => rfl
      | some o =>
        have hv := getL_valid _ l o hp
        rw [h.shape] at hv
        obtain ⟨c, hc⟩ := getL_of_valid syms l hv
        rw [hy] at hc; simp at hc
    | some y =>
      have hv := getL_valid _ l y hy
      rw [← h.shape] at hv
      obtain ⟨o, ho⟩ := getL_of_valid pt l hv
      have hpg : ptGet pt l = o := by rw [ptGet_eq, ho]; rfl
      rw [ho]
      simp only [Option.map_some, Option.some.injEq]
      cases y with
      | op =>
        obtain ⟨l', p1, p2, _, _⟩ := h.op l hy
        rw [hpg] at p2; subst p2
        simp [C06.render, p1, symChar]
      | cl =>
        obtain ⟨l', p1, p2, _, _⟩ := h.cl l hy
        rw [hpg] at p2; subst p2
        simp [C06.render, Locus.lt_asymm _ _ p1, symChar]
      | dot =>
        have := h.dot l hy
        rw [hpg] at this; subst this
        rfl

theorem LM.roundtrip {syms pt} (h : LM syms pt) (brk : Char) (hb : toSym brk = none)
    (hne : pt ≠ []) (hhead : ∀ r ∈ pt.head?, r ≠ []) :
    makePairTable (ptToDb pt brk) brk = .ok pt := by
  obtain ⟨t, L⟩ := h.linF
  have hsyms : syms ≠ [] := by
    intro e
    have := congrArg List.length h.shape
    rw [e] at this
    simp at this
    exact hne this
  rw [ptToDb_joinWith pt brk hhead, h.render_eq]
  have hsplit : splitOn brk (joinWith brk (syms.map (List.map symChar))) = syms.map (List.map symChar) := by
    apply splitOn_joinWith
    · simpa using hsyms
    · intro s hs hmem
      obtain ⟨row, _, rfl⟩ := List.mem_map.mp hs
      obtain ⟨y, _, hy⟩ := List.mem_map.mp hmem
      have := toSym_symChar y
      rw [hy, hb] at this
      simp at this
  have hmapM : (syms.map (List.map symChar)).mapM (fun s => s.mapM toSym) = some syms := by
    apply mapM_option_of_map
    rw [List.map_map]
    apply List.map_congr_left
    intro row _
    show (row.map symChar).mapM toSym = some row
    apply mapM_option_of_map
    rw [List.map_map]
    apply List.map_congr_left
    intro y _
    exact toSym_symChar y
  unfold makePairTable
  simp only [hsplit, hmapM, L.hm]
  rw [← L.hpt]


end Dsd.Split
