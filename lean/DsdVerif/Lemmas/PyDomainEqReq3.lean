/-
(d) the translated `Singleton.__call__` zoomed onto the dictionaries of `Py.Dom.Cls`, against `Reg.call`: result and class afterwards.
-/
import DsdVerif.Lemmas.PyDomainEqReq2

namespace Dsd.PyDomainEq
open Dsd Dsd.Gen Dsd.PySingletonL

theorem exec_set {σ : Type} (x s : σ) : (set x : Py.MS σ PUnit).exec s = (.ok ⟨⟩, x) := rfl

theorem keysOf_nil (canon : Option DKey) : PySingleton.keysOf canon [] = canon.toList := by
  cases canon <;> simp [PySingleton.keysOf]

/-- the registry part of the class after the call: one new entry in each dictionary iff an object was created -/
def regAfter (s : Py.Dom.Cls) (canon : Option DKey) (name : String) (fresh : Nat) (out : Out) : Py.SingletonCls DKey :=
  match out, canon with
  | .ret _ true, some k =>
    { _instanceNames := Py.dictSet s.reg._instanceNames name fresh,
      _instanceCanon := @Py.dictSet DKey Nat instBEqOfDecidableEq s.reg._instanceCanon k fresh }
  | _, _ => s.reg

theorem zoom_call (s : Py.Dom.Cls) (r : Reg DKey) (h : RepX s r) (canon : Option DKey) (name : String) (fresh : Nat) (auto : Bool)
    (hne : name ≠ "") :
    (PyDomainRequest.zoom (py_Singleton_call canon name fresh [])).exec s =
      (toPy (r.call canon (some name) fresh canon.toList auto).2,
        { s with reg := regAfter s canon name fresh (r.call canon (some name) fresh canon.toList auto).2 }) := by
  have hR := repX_rep s r h
  have hres := (call_eq s.reg r hR canon name fresh [] auto).1
  have hst := call_exact s.reg r hR canon name fresh auto
  have hcf := PySingleton.callFull_call r canon name fresh [] auto hne
  rw [keysOf_nil] at hcf
  rw [hcf] at hres hst
  have hex : (py_Singleton_call canon name fresh []).exec s.reg =
      (toPy (r.call canon (some name) fresh canon.toList auto).2,
        regAfter s canon name fresh (r.call canon (some name) fresh canon.toList auto).2) := by
    apply Prod.ext
    · exact hres
    · rw [hst]; unfold regAfter
      generalize (r.call canon (some name) fresh canon.toList auto).2 = o
      cases o with
      | ret id b => cases b <;> cases canon <;> rfl
      | _ => cases canon <;> rfl
  unfold PyDomainRequest.zoom
  simp only [exec_bind, exec_get, hex]
  cases toPy (r.call canon (some name) fresh canon.toList auto).2 with
  | ok a => simp only [exec_bind, exec_set, exec_pure]
  | error e => simp only [exec_bind, exec_set, exec_throw]

end Dsd.PyDomainEq
