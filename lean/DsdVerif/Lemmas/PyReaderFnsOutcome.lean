/-
`Gen.py_read_reaction` on typed lines, for ANY set `RTYPES`: what it returns is six `None`s, or the complete tuple of an accepted
reaction - by the same case analysis as Lemmas/PyReaderFns.lean `py_eq_grp`.
-/
import DsdVerif.Lemmas.PyReaderFns

namespace Dsd.PyReaderFnsL
open Dsd Dsd.PP Dsd.Gen Dsd.ReaderFull

@[local simp] theorem except_throw_bind {ε α β} (e : ε) (f : α → Except ε β) : (throw e >>= f) = throw e := rfl
@[local simp] theorem except_error_bind {ε α β} (e : ε) (f : α → Except ε β) : (Except.error e >>= f) = Except.error e := rfl
@[local simp] theorem except_ok_bind {ε α β} (x : α) (f : α → Except ε β) : (Except.ok x >>= f) = f x := rfl
@[local simp] theorem except_pure_eq {ε α} (x : α) : (pure x : Except ε α) = .ok x := rfl
@[local simp] theorem except_throw_eq {ε α} (e : ε) : (throw e : Except ε α) = .error e := rfl

/-- the two kinds of result: all six components `None` (the reaction is ignored), or reactants `line[2]`, products `line[3]`, a type that
    is a str of `RTYPES`, and a rate -/
def Outcome (RTYPES : Py.StrSet) (line : List Tree) (r : Res6) : Prop :=
  r = (none, none, none, none, none, none) ∨
  (∃ t ra, r.1 = line[2]? ∧ r.2.1 = line[3]? ∧ r.1.isSome ∧ r.2.1.isSome ∧ r.2.2.1 = some (.tok t) ∧ t ∈ RTYPES ∧ r.2.2.2.1 = some ra ∧
    r.2.2.2.2.2.isSome)

set_option maxHeartbeats 4000000 in
theorem py_outcome_grp (RTYPES : Py.StrSet) (g12 : Py.FloatLit → String) (strL : List Tree → String) (a : Tree) (ts rest : List Tree)
    (h : lineTyped (a :: .grp ts :: rest) = true) :
    ∀ r, py_read_reaction RTYPES g12 strL (a :: .grp ts :: rest) = .ok r → Outcome RTYPES (a :: .grp ts :: rest) r := by
  unfold Outcome
  rx_line RTYPES

end Dsd.PyReaderFnsL
