/-
(c) `py_DomainS_identifiers = DomFull.identifiers`, branch "unstarred name with a length" (two nested requests, the second one a bare
statement whose value is discarded).
-/
import DsdVerif.Lemmas.PyDomainEqIdent2

namespace Dsd.PyDomainEq
open Dsd Dsd.Gen Dsd.PySingletonL

/-- the value of a nested request is discarded: `Py.Dom.release` is the registry half of the model's `lenAndRelease` -/
theorem release_eq (s : Py.Dom.Cls) (r : Reg DKey) (h : RepX s r) (tmp id : Nat) (created : Bool) (hc : created = true ↔ id = tmp) :
    ∃ s', RepX s' (DomFull.lenAndRelease r id created).2 ∧ (Py.Dom.release tmp id).exec s = (.ok (), s') := by
  unfold Py.Dom.release DomFull.lenAndRelease
  by_cases ht : id = tmp
  · subst ht
    have : created = true := hc.mpr rfl
    subst this
    refine ⟨_, (repX_drop s r h id).2, ?_⟩
    simp only [beq_self_eq_true, if_true]
    exact (repX_drop s r h id).1
  · have : created = false := by
      cases created with
      | false => rfl
      | true => exact absurd (hc.mp rfl) ht
    subst this
    have hb : (id == tmp) = false := by simpa using ht
    exact ⟨s, h, by simp only [hb, Bool.false_eq_true, if_false]; rfl⟩

set_option maxHeartbeats 4000000 in
/-- branch `elif length is not None and name[-1] != '*'`: an unstarred name with a length -/
theorem identifiers_unstarred_length (request : Py.Dom.Req → Py.Dom.M Nat) (nested : Reg DKey → DomReq → Reg DKey × Out) (tmp : Nat)
    (hrel : Related request nested tmp) (s : Py.Dom.Cls) (r : Reg DKey) (h : RepX s r) (cfg : DomCfg)
    (n : String) (hne : n ≠ "") (hst : isStarred n = false) (l : Nat) (pfx : Option String) :
    ∃ s', RepX s' (DomFull.identifiers nested cfg r { name := some n, length := some l, prefix_ := pfx }).1 ∧
      (py_DomainS_identifiers request tmp cfg.cutoff cfg.shortLen cfg.longLen cfg.prefix_ (some n) (some l) pfx none).exec s =
        (toIdents (DomFull.identifiers nested cfg r { name := some n, length := some l, prefix_ := pfx }).2, s') := by
  obtain ⟨c, hc1, hc2⟩ := strLast_starred n hne
  have hcs : (c == '*') = false := by rw [hc2, hst]
  have hcn : (c != '*') = true := by simp [bne, hcs]
  have hemp : n.isEmpty = false := by simpa using hne
  have hdl : n ++ "*" = cnameOf n := by rw [← cname_eq n, if_neg (by simp [hst])]
  obtain ⟨s1, hR1, he1, hcr1, hoth1⟩ := hrel s r (cnameOf n) none h
  unfold py_DomainS_identifiers DomFull.identifiers DomFull.identTail DomFull.lengthArg
  simp only [exec_ite, exec_bind, exec_get, exec_pure, exec_throw, exec_lift, exec_monadLift, exec_tryS, Py.unwrap, Py.Dom.truthyOS,
    Option.isNone_none, Option.isNone_some, Option.isSome_some, if_true, if_false, Bool.false_eq_true, hc1, hcs, hcn, hemp, hst,
    Bool.not_true, Bool.not_false, hdl, pure_ok, he1]
  cases hn : (nested r { name := some (cnameOf n) }) with
  | mk r1 o =>
    rw [hn] at hR1 hcr1 hoth1
    simp only at hR1 hcr1 hoth1
    cases o with
    | ret id cr =>
      obtain ⟨s2, hR2, hl2⟩ := lenTemp_eq s1 r1 hR1 tmp id cr (hcr1 id cr rfl)
      simp only [toRes, hl2]
      cases hlr : DomFull.lenAndRelease r1 id cr with
      | mk lo r2 =>
        rw [hlr] at hR2
        simp only at hR2
        cases lo with
        | none => exact ⟨s2, hR2, by simp [toIdents, toErr]⟩
        | some cl =>
          obtain ⟨s3, hR3, he3, hcr3, hoth3⟩ := hrel s2 r2 (cnameOf n) (some l) hR2
          simp only [exec_ite, exec_bind, exec_get, exec_pure, exec_throw, exec_lift, exec_monadLift, exec_tryS, he3]
          cases hn3 : (nested r2 { name := some (cnameOf n), length := some l }) with
          | mk r3 o3 =>
            rw [hn3] at hR3 hcr3 hoth3
            simp only at hR3 hcr3 hoth3
            cases o3 with
            | ret id2 c2 =>
              obtain ⟨s4, hR4, he4⟩ := release_eq s3 r3 hR3 tmp id2 c2 (hcr3 id2 c2 rfl)
              refine ⟨s4, hR4, ?_⟩
              simp [toRes, he4, toIdents, exec_ite, exec_bind, exec_pure, exec_throw, exec_lift] <;> rfl
            | singletonErr e3 =>
              by_cases hcl : cl = l
              · refine ⟨s3, by simpa [hcl] using hR3, ?_⟩
                simp [hcl, toRes, toErr, toIdents, exec_ite, exec_bind, exec_pure, exec_throw, exec_lift] <;> rfl
              · refine ⟨s3, by simpa [hcl] using hR3, ?_⟩
                simp [hcl, toRes, toErr, toIdents, exec_ite, exec_bind, exec_pure, exec_throw, exec_lift] <;> rfl
            | _ =>
              refine ⟨s3, hR3, ?_⟩
              simp [toRes, toErr, toIdents, exec_ite, exec_bind, exec_pure, exec_throw, exec_lift] <;> rfl
    | singletonErr e =>
      refine ⟨s1, hR1, ?_⟩
      simp [toRes, toErr, toIdents, exec_ite, exec_bind, exec_pure, exec_throw, exec_lift] <;> rfl
    | _ =>
      refine ⟨s1, hR1, ?_⟩
      simp [toRes, toErr, toIdents, exec_ite, exec_bind, exec_pure, exec_throw, exec_lift] <;> rfl

end Dsd.PyDomainEq
