/-
The `resting-macrostate` and `reaction` branches of the translated `read_pil_line` (Gen/PyReadLine.lean) under `PyReadLineL.modelEnv` against
`ReaderFull.readLineFull`.  The model drops the `try … except KeyError` wrapper ("the except KeyError never fires"): the equalities carry that
assumption explicitly (`NoKeyError`: a look-up request of the world never answers KeyError).
-/
import DsdVerif.Lemmas.PyReadLine2

namespace Dsd.PyReadLineL
open Dsd Dsd.PP Dsd.Gen Dsd.ReaderFull

/-- running `try m catch h`: the handler runs in the world the body left -/
theorem exec_tryCatch {α} (m : Py.MS RState α) (h : Err → Py.MS RState α) (s : RState) :
    Py.MS.exec (tryCatch m h) s =
      (match Py.MS.exec m s with
       | (.ok a, s') => (.ok a, s')
       | (.error e, s') => Py.MS.exec (h e) s') := by
  simp only [Py.MS.exec, tryCatch, tryCatchThe, MonadExceptOf.tryCatch, ExceptT.tryCatch, ExceptT.mk, ExceptT.run, bind, StateT.bind, StateT.run]
  rcases m s with ⟨(e | a), s'⟩ <;> rfl

theorem exec_throw {α} (e : Err) (s : RState) : Py.MS.exec (throw e : Py.MS RState α) s = (.error e, s) := rfl

theorem exec_pure_st {σ} (v : σ) (s : RState) :
    Py.MS.exec ((pure () : StateT σ (Py.MS RState) Unit) v) s = (.ok ((), v), s) := rfl

/-- the model's assumption about the look-ups by name: they never answer KeyError -/
def NoKeyError {β} (F : RState → String → RState × Except RErr β) : Prop := ∀ s x, (F s x).2 ≠ .error (.fault "KeyError")

theorem listComp_noKey {β} (F : RState → String → RState × Except RErr β) (h : NoKeyError F) (ds : List String) (s : RState) :
    (listComp F s ds).2 ≠ .error (.fault "KeyError") := by
  induction ds generalizing s with
  | nil => simp [listComp]
  | cons d ds ih =>
    simp only [listComp]
    have h1 := h s d
    rcases hF : F s d with ⟨s1, (e | y)⟩
    · rw [hF] at h1; simpa using h1
    · have h2 := ih s1
      rcases hL : listComp F s1 ds with ⟨s2, (e | ys)⟩
      · rw [hL] at h2; simp only [hL]; simpa using h2
      · simp only [hL]; simp

theorem resting_eq (sl : Slots) (RT : Py.StrSet) (g12 : Py.FloatLit → String) (strL : List Tree → String) (name : String) (xs : List String)
    (rest : List Tree) (s : RState) (hK : NoKeyError (fun s x => ctorComplex sl s none [] (some x))) :
    Py.MS.exec (py_read_pil_line (modelEnv sl RT g12 strL) (.tok "resting-macrostate" :: .tok name :: .grp (xs.map .tok) :: rest)) s =
      outOf (.tok "resting-macrostate" :: .tok name :: .grp (xs.map .tok) :: rest)
        (s.readLineFull sl (.tok "resting-macrostate" :: .tok name :: .grp (xs.map .tok) :: rest)) := by
  simp [py_read_pil_line, modelEnv, Py.idx, Py.treeEqStr, Py.treeItems, RState.readLineFull, item, isStr, lineResting, outOf, asList,
    asStr, asStrs_map, Except.bind, exec_bind, named_tok, exec_req_bind, exec_map_req, exec_tryCatch, exec_throw, exec_pure]
  have h := mapM_named (fun s x => ctorComplex sl s none [] (some x)) xs s
  simp only [List.mapM_map] at h
  rw [h]
  have hn := listComp_noKey _ hK xs s
  rcases hL : listComp (fun s x => ctorComplex sl s none [] (some x)) s xs with ⟨s1, (e | cs)⟩
  · rw [hL] at hn
    cases e with
    | fault k =>
      have hk : k ≠ "KeyError" := by intro h; subst h; simp at hn
      simp [ofRErr, exec_throw, hk]
      try rfl
    | _ => rfl
  · simp only [exec_pure_st, exec_pure, named_tok, exec_map_req]
    generalize ctorMacro sl s1 (some cs) (some name) = r
    rcases r with ⟨s2, (e | id)⟩ <;> rfl

end Dsd.PyReadLineL
