/-
End-to-end reading of declared systems (C14, "sigma" theorems), part 9: kernel-notation complexes over declared
domains.
-/
import DsdVerif.Lemmas.ReaderSigmaCplxAttr

namespace Dsd.Sig
open Dsd Dsd.PP Dsd.RState

/-- a name-only request for a live, held domain leaves a world with the explicit domain class as it is -/
theorem mkDom_existing_gen (w : World) (cd : Nat) (hcd : cd < 4) (dobjs : List (Obj DKey))
    (hdoms : w.doms = setObjs baseDoms cd dobjs) (n : String) (o : Obj DKey) (hn : n ≠ "")
    (h1 : Reg.findName ({ objs := dobjs, autoId := 1 } : Reg DKey) n = some o)
    (h2 : ∀ b, Reg.findName ({ objs := dobjs, autoId := 1 } : Reg DKey) (cnameOf n) = some b →
      Reg.findCanon ({ objs := dobjs, autoId := 1 } : Reg DKey) (n, b.canon.2) = some o)
    (hheld : o.id ∈ w.held) :
    w.mkDom cd { name := some n } = (w, .ret o.id false) := by
  obtain ⟨cr0, h0, _⟩ := baseDoms_get cd hcd
  have hget := setObjs_get baseDoms cd dobjs cr0 h0
  rw [ReaderL.mkDom_eq, ReaderL.withClass_some _ _ _ _ (by rw [hdoms]; exact hget)]
  simp only [hdoms, effId_doms cd hcd]
  rw [domainRequest_nameonly _ { objs := dobjs, autoId := 1 } _ n o hn h1 h2]
  simp only
  rw [setObjs_same cd hcd dobjs _ hget]
  have hc : w.held.contains o.id = true := by simpa using hheld
  simp only [World.settle, hc, if_true, ← hdoms]

/-- a declared domain name (or complement) requested in the state with complexes: same state, same object -/
theorem content_request4 (sl : Slots) (hcd : sl.dom < 4) (ds : List Decl) (hsys : Sys ds) (ss : List SDecl)
    (cs : List CSpec) (conc : List (Nat × (String × String × String))) (n : String)
    (hn : ∃ (k : Nat) (d : Decl), ds[k]? = some d ∧ (n = d.name ∨ n = star d.name)) :
    (S4 sl.dom sl.strand sl.cplx ds ss cs conc).domReq sl { name := some n } =
      (S4 sl.dom sl.strand sl.cplx ds ss cs conc, .ok (resolveId ds n)) := by
  obtain ⟨k, d, hk, hnd⟩ := hn
  have hlt := getElem?_lt' _ _ _ hk
  have hbd := hsys.base d (List.mem_of_getElem? hk)
  obtain ⟨fn1, fn2⟩ := dObjs_findName ds hsys k d hk
  obtain ⟨fc1, fc2⟩ := dObjs_findCanon ds hsys k d hk
  obtain ⟨l1, l2⟩ := dDict_lookup ds hsys k d hk
  rcases hnd with rfl | rfl
  · have hres : resolveId ds d.name = 2 * k := by unfold resolveId; rw [l1]; rfl
    rw [hres]
    have hmk := mkDom_existing_gen (S4 sl.dom sl.strand sl.cplx ds ss cs conc).w sl.dom hcd (dObjs ds) rfl d.name _
      hbd.1 fn1
      (by
        intro b hb
        rw [cnameOf_base _ hbd, fn2] at hb
        cases hb; exact fc1)
      (by
        show 2 * k ∈ List.range (base4 ds ss + cs.length)
        exact List.mem_range.mpr (by unfold base4; omega))
    exact domReq_of_mkDom _ sl _ _ _ _ hmk
  · have hres : resolveId ds (star d.name) = 2 * k + 1 := by unfold resolveId; rw [l2]; rfl
    rw [hres]
    have hmk := mkDom_existing_gen (S4 sl.dom sl.strand sl.cplx ds ss cs conc).w sl.dom hcd (dObjs ds) rfl
      (star d.name) _ (star_ne_empty _) fn2
      (by
        intro b hb
        rw [cnameOf_star _ hbd, fn1] at hb
        cases hb; exact fc2)
      (by
        show 2 * k + 1 ∈ List.range (base4 ds ss + cs.length)
        exact List.mem_range.mpr (by unfold base4; omega))
    exact domReq_of_mkDom _ sl _ _ _ _ hmk

/-! ### the handles of a kernel sequence -/

def kseq (ds : List Decl) (ns : List String) : List (Option Nat) :=
  ns.map (fun n => if n == "+" then none else some (resolveId ds n))

theorem weave_eq (f : String → Nat) (ns : List String) :
    readLine.weave ns ((ns.filter (· != "+")).map f) = ns.map (fun n => if n == "+" then none else some (f n)) := by
  induction ns with
  | nil => rfl
  | cons n rest ih =>
    unfold readLine.weave
    by_cases h : n = "+"
    · subst h
      simp only [beq_self_eq_true, if_true, List.map_cons]
      have : List.filter (fun x => x != "+") ("+" :: rest) = List.filter (fun x => x != "+") rest := by simp
      rw [this, ih]
    · have hb : (n == "+") = false := by simpa using h
      have : List.filter (fun x => x != "+") (n :: rest) = n :: List.filter (fun x => x != "+") rest := by
        simp [h]
      rw [this]
      simp only [hb, Bool.false_eq_true, if_false, List.map_cons]
      rw [ih]

theorem seqNames_kseq (w : World) (cd : Nat) (f : String → Nat) (ns : List String)
    (h : ∀ n ∈ ns, n ≠ "+" → ∃ o, w.domObj (f n) = some (cd, o) ∧ o.name = n) :
    w.seqNames (ns.map (fun n => if n == "+" then none else some (f n))) = some ns := by
  unfold World.seqNames
  induction ns with
  | nil => rfl
  | cons n rest ih =>
    have ih' := ih (fun m hm => h m (by simp [hm]))
    by_cases hn : n = "+"
    · subst hn
      simp only [List.map_cons, beq_self_eq_true, if_true, List.mapM_cons, ih']
      rfl
    · have hb : (n == "+") = false := by simpa using hn
      obtain ⟨o, ho, hon⟩ := h n (by simp) hn
      simp only [List.map_cons, hb, Bool.false_eq_true, if_false, List.mapM_cons, ho, Option.map_some, hon, ih']
      rfl

theorem kseq_children (ds : List Decl) (hsys : Sys ds) (ns : List String)
    (h : ∀ n ∈ ns, n ≠ "+" → ∃ (k : Nat) (d : Decl), ds[k]? = some d ∧ (n = d.name ∨ n = star d.name)) :
    ((kseq ds ns).filterMap id).map some = (ns.filter (· != "+")).map (fun n => (dDict ds).lookup n) := by
  induction ns with
  | nil => rfl
  | cons n rest ih =>
    have ih' := ih (fun m hm => h m (by simp [hm]))
    unfold kseq at ih' ⊢
    by_cases hn : n = "+"
    · subst hn
      simpa using ih'
    · have hb : (n == "+") = false := by simpa using hn
      obtain ⟨k, d, hk, hnd⟩ := h n (by simp) hn
      obtain ⟨l1, l2⟩ := dDict_lookup ds hsys k d hk
      have hl : (dDict ds).lookup n = some (resolveId ds n) := by
        unfold resolveId
        rcases hnd with rfl | rfl
        · rw [l1]; rfl
        · rw [l2]; rfl
      simp only [List.map_cons, hb, Bool.false_eq_true, if_false, List.filterMap_cons, id]
      have hf : List.filter (fun x => x != "+") (n :: rest) = n :: List.filter (fun x => x != "+") rest := by
        simp [hn]
      rw [hf]
      simp only [List.map_cons, hl]
      rw [ih']

/-! ### kernel declarations -/

/-- a complex in kernel notation: name, parsed pattern, the names and structure the pattern resolves to, and an
    optional concentration `(mode, value, unit)` -/
structure KDecl where
  name : String
  pat : List Tree
  ns : List String
  sst : List Char
  conc : Option (String × String × String)

def KDecl.line (k : KDecl) : List Tree :=
  [.tok "kernel-complex", .tok k.name, .grp k.pat] ++
    (match k.conc with
     | some (m, v, u) => [Tree.grp [.tok m, .tok v, .tok u]]
     | none => [])

def KDecl.spec (ds : List Decl) (k : KDecl) : CSpec := { name := k.name, ns := k.ns, sst := k.sst, seq := kseq ds k.ns }

def kConc (b : Nat) (kds : List KDecl) : List (Nat × (String × String × String)) :=
  kds.zipIdx.filterMap (fun p => p.1.conc.map (fun t => (b + p.2, t)))

theorem kConc_snoc (b : Nat) (kds : List KDecl) (k : KDecl) :
    kConc b (kds ++ [k]) = kConc b kds ++ (match k.conc with | some t => [(b + kds.length, t)] | none => []) := by
  unfold kConc
  rw [zipIdx_snoc, List.filterMap_append]
  cases hc : k.conc <;> simp [hc]

theorem kConc_lt (b : Nat) (kds : List KDecl) : ∀ q ∈ kConc b kds, q.1 < b + kds.length := by
  intro q hq
  unfold kConc at hq
  rw [List.mem_filterMap] at hq
  obtain ⟨⟨k, j⟩, hm, he⟩ := hq
  have hj := getElem?_lt' _ _ _ (List.mem_zipIdx_iff_getElem?.mp hm)
  cases hc : k.conc with
  | none => simp [hc] at he
  | some t =>
    simp only [hc, Option.map_some, Option.some.injEq] at he
    rw [← he]; simp only; omega

theorem readLine_kernel (s : RState) (sl : Slots) (k : KDecl)
    (hres : resolveKernel (treeSize 1000 k.pat + 2) k.pat = .ok (k.ns, k.sst)) (ids : List Nat)
    (hdl : s.domList sl (k.ns.filter (· != "+")) = (s, .ok ids)) (w' : World) (id : Nat) (b : Bool)
    (x : Option CplxIds)
    (hmk : s.w.mkCplx sl.cplx (some (readLine.weave k.ns ids)) k.sst (some k.name) none = (w', .ret id b, x)) :
    s.readLine sl k.line =
      ((match k.conc with
        | some t => ({ s with w := w' } : RState).setConc id t
        | none => { s with w := w' }), .ok (.cplx id)) := by
  unfold KDecl.line readLine
  cases hc : k.conc with
  | none => simp only [List.append_nil, hres, hdl, hmk]
  | some t =>
    obtain ⟨m, v, u⟩ := t
    simp only [List.cons_append, List.nil_append, hres, hdl, hmk]

/-- **reading one kernel-notation complex** -/
theorem kstep (sl : Slots) (hcd : sl.dom < 4) (hcs : sl.strand < 4) (hcc : sl.cplx < 4) (ds : List Decl)
    (hsys : Sys ds) (ss : List SDecl) (C : List CSpec) (done : List KDecl) (k : KDecl) (lines : List Tree)
    (hres : resolveKernel (treeSize 1000 k.pat + 2) k.pat = .ok (k.ns, k.sst))
    (hnm : ∀ n ∈ k.ns, n ≠ "+" → ∃ (i : Nat) (d : Decl), ds[i]? = some d ∧ (n = d.name ∨ n = star d.name))
    (hd : Rot.Descr' k.ns k.sst) (hname : ∀ c' ∈ C ++ done.map (KDecl.spec ds), c'.name ≠ k.name)
    (hdisj : ∀ c' ∈ C ++ done.map (KDecl.spec ds), ∀ x ∈ Rot.orb (Rot.nStr k.ns) k.ns k.sst,
      x ∉ Rot.orb (Rot.nStr c'.ns) c'.ns c'.sst) :
    (S4 sl.dom sl.strand sl.cplx ds ss (C ++ done.map (KDecl.spec ds)) (kConc (base4 ds ss + C.length) done)).readDoc
        sl [] [] (.grp k.line :: lines) (D4 ds ss (C ++ done.map (KDecl.spec ds))) =
      (S4 sl.dom sl.strand sl.cplx ds ss (C ++ (done ++ [k]).map (KDecl.spec ds))
          (kConc (base4 ds ss + C.length) (done ++ [k]))).readDoc sl [] [] lines
        (D4 ds ss (C ++ (done ++ [k]).map (KDecl.spec ds))) := by
  have hcs' : C ++ (done ++ [k]).map (KDecl.spec ds) = (C ++ done.map (KDecl.spec ds)) ++ [k.spec ds] := by simp
  rw [hcs']
  apply cstep_core sl hcd hcs hcc ds ss (C ++ done.map (KDecl.spec ds)) (k.spec ds) _ _ _ lines _ hname
  have hdl := domList_same
    (S4 sl.dom sl.strand sl.cplx ds ss (C ++ done.map (KDecl.spec ds)) (kConc (base4 ds ss + C.length) done)) sl
    (resolveId ds) (k.ns.filter (· != "+"))
    (fun n hn => by
      rw [List.mem_filter] at hn
      exact content_request4 sl hcd ds hsys ss _ _ n (hnm n hn.1 (by simpa using hn.2)))
  have hns : (P4 sl.dom sl.strand sl.cplx ds ss (C ++ done.map (KDecl.spec ds))).world.seqNames (k.spec ds).seq =
      some (k.spec ds).ns :=
    seqNames_kseq _ sl.dom (resolveId ds) k.ns
      (fun n hn hne => domObj_S4 sl.dom sl.strand sl.cplx hcd ds hsys ss _ n (hnm n hn hne))
  have hmk := mkCplx_S4 sl.dom sl.strand sl.cplx hcc ds ss (C ++ done.map (KDecl.spec ds)) (k.spec ds) hns hd hname
    hdisj
  have hw : readLine.weave k.ns ((k.ns.filter (· != "+")).map (resolveId ds)) = (k.spec ds).seq :=
    weave_eq (resolveId ds) k.ns
  have := readLine_kernel _ sl k hres _ hdl _ _ _ _ (by rw [hw]; exact hmk)
  rw [this]
  have hlen : (C ++ done.map (KDecl.spec ds)).length = C.length + done.length := by simp
  congr 1
  rw [kConc_snoc]
  cases hc : k.conc with
  | none => simp only [List.append_nil]; rfl
  | some t =>
    simp only
    unfold setConc S4
    simp only
    have hfil : List.filter (fun p => p.1 != base4 ds ss + (C ++ done.map (KDecl.spec ds)).length)
        (kConc (base4 ds ss + C.length) done) = kConc (base4 ds ss + C.length) done := by
      rw [List.filter_eq_self]
      intro q hq
      have := kConc_lt _ done q hq
      rw [hlen]; simp; omega
    rw [hfil, hlen, Nat.add_assoc]

/-! ### whole documents -/

def kdoc (kds : List KDecl) : List Tree := kds.map (fun k => Tree.grp k.line)

/-- hypotheses on the kernel-notation complexes, relative to the complexes `C` read before them -/
structure KSys (ds : List Decl) (C : List CSpec) (kds : List KDecl) : Prop where
  res : ∀ k ∈ kds, resolveKernel (treeSize 1000 k.pat + 2) k.pat = .ok (k.ns, k.sst)
  doms : ∀ k ∈ kds, ∀ n ∈ k.ns, n ≠ "+" →
    ∃ (i : Nat) (d : Decl), ds[i]? = some d ∧ (n = d.name ∨ n = star d.name)
  descr : ∀ c ∈ C ++ kds.map (KDecl.spec ds), Rot.Descr' c.ns c.sst
  names : ((C ++ kds.map (KDecl.spec ds)).map (·.name)).Nodup
  nonrot : (C ++ kds.map (KDecl.spec ds)).Pairwise (fun a b => (b.ns, b.sst) ∉ Rot.orb (Rot.nStr a.ns) a.ns a.sst)

theorem readDoc_kernels (sl : Slots) (hcd : sl.dom < 4) (hcs : sl.strand < 4) (hcc : sl.cplx < 4) (ds : List Decl)
    (hsys : Sys ds) (ss : List SDecl) (C : List CSpec) :
    ∀ (rest done : List KDecl), KSys ds C (done ++ rest) →
      (S4 sl.dom sl.strand sl.cplx ds ss (C ++ done.map (KDecl.spec ds)) (kConc (base4 ds ss + C.length) done)).readDoc
          sl [] [] (kdoc rest) (D4 ds ss (C ++ done.map (KDecl.spec ds))) =
        (S4 sl.dom sl.strand sl.cplx ds ss (C ++ (done ++ rest).map (KDecl.spec ds))
            (kConc (base4 ds ss + C.length) (done ++ rest)),
          .ok (D4 ds ss (C ++ (done ++ rest).map (KDecl.spec ds)))) := by
  intro rest
  induction rest with
  | nil => intro done _; simp [kdoc, readDoc]
  | cons k rest ih =>
    intro done hs
    have hassoc : done ++ k :: rest = (done ++ [k]) ++ rest := by simp
    have hsplit : C ++ (done ++ k :: rest).map (KDecl.spec ds) =
        (C ++ done.map (KDecl.spec ds)) ++ (k.spec ds :: rest.map (KDecl.spec ds)) := by simp
    have hkmem : k ∈ done ++ k :: rest := by simp
    have hname : ∀ c' ∈ C ++ done.map (KDecl.spec ds), c'.name ≠ k.name := by
      intro c' hc' e
      have hn := hs.names
      rw [hsplit, List.map_append, List.map_cons] at hn
      exact (List.nodup_append.mp hn).2.2 c'.name (List.mem_map_of_mem hc') k.name (by simp [KDecl.spec]) e
    have hdk : Rot.Descr' k.ns k.sst := hs.descr (k.spec ds) (by rw [hsplit]; simp)
    have hdisj : ∀ c' ∈ C ++ done.map (KDecl.spec ds), ∀ x ∈ Rot.orb (Rot.nStr k.ns) k.ns k.sst,
        x ∉ Rot.orb (Rot.nStr c'.ns) c'.ns c'.sst := by
      intro c' hc' x hx hx'
      have hdc : Rot.Descr' c'.ns c'.sst := hs.descr c' (by rw [hsplit]; exact List.mem_append_left _ hc')
      have hp := hs.nonrot
      rw [hsplit] at hp
      have hR := (List.pairwise_append.mp hp).2.2 c' hc' (k.spec ds) (by simp)
      exact hR (orb_meet (c'.ns, c'.sst) (k.ns, k.sst) hdc hdk x hx' hx)
    have hstep := kstep sl hcd hcs hcc ds hsys ss C done k (kdoc rest) (hs.res k hkmem) (hs.doms k hkmem) hdk hname hdisj
    have : kdoc (k :: rest) = .grp k.line :: kdoc rest := rfl
    rw [this, hstep, hassoc]
    exact ih (done ++ [k]) (by rw [← hassoc]; exact hs)

/-- **reading domains, strands, strand-notation and kernel-notation complexes into the fresh state** -/
theorem readDoc_fresh5 (sl : Slots) (hcd : sl.dom < 4) (hcs : sl.strand < 4) (hcc : sl.cplx < 4) (ds : List Decl)
    (hsys : Sys ds) (ss : List SDecl) (hss : SSys ds ss) (cds : List CDecl) (hcs' : CSys ds ss cds)
    (kds : List KDecl) (hks : KSys ds (cds.map (CDecl.spec ds ss)) kds) :
    ({} : RState).readDoc sl [] [] (doc ds ++ (sdoc ss ++ (cdoc cds ++ kdoc kds))) {} =
      (S4 sl.dom sl.strand sl.cplx ds ss (cds.map (CDecl.spec ds ss) ++ kds.map (KDecl.spec ds))
          (kConc (base4 ds ss + cds.length) kds),
        .ok (D4 ds ss (cds.map (CDecl.spec ds ss) ++ kds.map (KDecl.spec ds)))) := by
  have h1 := readDoc_decls_tail sl hcd sl.strand hcs (sdoc ss ++ (cdoc cds ++ kdoc kds)) ds [] (by simpa using hsys)
  have hS : S sl.dom sl.strand [] = {} := by
    unfold S
    have : P sl.dom sl.strand [] = { cd := sl.dom, cs := sl.strand } := rfl
    rw [this, world_empty sl.dom sl.strand hcd hcs]
    rfl
  have hD : D [] = {} := rfl
  rw [hS, hD] at h1
  simp only [List.nil_append] at h1
  rw [h1, ← S3_nil, ← D3_nil]
  have h2 := readDoc_strands_tail sl hcd hcs ds hsys (cdoc cds ++ kdoc kds) ss [] (by simpa using hss)
  simp only [List.nil_append] at h2
  rw [h2, ← S4_nil sl.dom sl.strand sl.cplx hcc, ← D4_nil]
  have h3 := readDoc_cplxs_tail sl hcd hcs hcc ds hsys ss hss [] (kdoc kds) cds [] (by simpa using hcs')
  simp only [List.nil_append, List.map_nil] at h3
  rw [h3]
  have h4 := readDoc_kernels sl hcd hcs hcc ds hsys ss (cds.map (CDecl.spec ds ss)) kds [] (by simpa using hks)
  simp only [List.map_nil, List.append_nil, List.nil_append, List.length_map] at h4
  have hk0 : kConc (base4 ds ss + cds.length) [] = [] := rfl
  rw [hk0] at h4
  exact h4

theorem kConc_lookup (b : Nat) (kds : List KDecl) (j : Nat) (k : KDecl) (hj : kds[j]? = some k) :
    (kConc b kds).lookup (b + j) = k.conc := by
  cases hc : k.conc with
  | none =>
    apply lookup_none_of
    intro q hq e
    unfold kConc at hq
    rw [List.mem_filterMap] at hq
    obtain ⟨⟨k', j'⟩, hm, he⟩ := hq
    have hj' := List.mem_zipIdx_iff_getElem?.mp hm
    cases hc' : k'.conc with
    | none => simp [hc'] at he
    | some t =>
      simp only [hc', Option.map_some, Option.some.injEq] at he
      rw [← he] at e
      simp only at e
      have : j' = j := by omega
      subst this
      have := getElem?_det kds j' k k' hj hj'
      subst this
      rw [hc] at hc'; cases hc'
  | some t =>
    apply lookup_unique
    · unfold kConc
      rw [List.mem_filterMap]
      exact ⟨(k, j), List.mem_zipIdx_iff_getElem?.mpr hj, by simp [hc]⟩
    · intro v' hv'
      unfold kConc at hv'
      rw [List.mem_filterMap] at hv'
      obtain ⟨⟨k', j'⟩, hm, he⟩ := hv'
      have hj' := List.mem_zipIdx_iff_getElem?.mp hm
      cases hc' : k'.conc with
      | none => simp [hc'] at he
      | some t' =>
        simp only [hc', Option.map_some, Option.some.injEq, Prod.mk.injEq] at he
        have : j' = j := by omega
        subst this
        have := getElem?_det kds j' k k' hj hj'
        subst this
        rw [hc] at hc'; cases hc'
        exact he.2.symm

end Dsd.Sig
