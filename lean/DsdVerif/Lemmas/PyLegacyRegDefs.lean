/-
The registry side of the translated legacy `DSD_Complex` (Gen/PyLegacyReg.lean) against the model (`Lg.LObj`, `Lg.LReg` of
Model/LegacyFull.lean): correspondence of states and exception classes, the lens to the earlier translation.
-/
import DsdVerif.Gen.PyLegacyReg
import DsdVerif.Lemmas.PyLegacyRotate

set_option linter.unusedSimpArgs false

namespace Dsd.PyLegacyReg
open Dsd Dsd.Gen Dsd.Lg Dsd.PyLegacy Dsd.PyObj.Basic

/-- the exception classes of the model as the translator names them; `DSDDuplicationError` with its two attributes -/
def errOfR : LErr → Err
  | .duplication ex r => Py.LegR_dupErr ex r
  | e => errOf e

/-- a registered object as `MEMORY` refers to it in the translation: identity and `_rotations` -/
def refOf (ob : LObj) : Py.LegR_Ref := (ob.id, ob.rotations)

/-- object and class state of the model as the state of the translated registry methods -/
def ofLR (R : LReg) (o : LObj) : DSD_ComplexR.Self :=
  { _sequence := o.seq, _structure := o.sst, _strand_lengths := o.strandLengths, _pair_table := o.pairTable,
    _loop_index := o.loopIndex, _exterior_loops := o.exteriorLoops, _lol_sequence := o.lolSequence,
    _exterior_domains := o.exteriorDomains, _enclosed_domains := o.enclosedDomains,
    _name := o.name, _canonical_form := o.canon, _rotations := o.rotations, _memorycheck := o.memorycheck, oid := o.id,
    cls_ID := R.ID, cls_NAMES := R.NAMES, cls_MEMORY := R.MEMORY.map (fun p => (p.1, refOf p.2)) }

theorem core_ofLR (R : LReg) (o : LObj) : DSD_ComplexR.core (ofLR R o) = ofL o := rfl

/-- the object `o1` that a method of the earlier translation leaves, with the attributes those methods do not have -/
def withCore (o o1 : LObj) : LObj :=
  { o1 with id := o.id, name := o.name, canon := o.canon, rotations := o.rotations, memorycheck := o.memorycheck }

theorem setCore_ofLR (R : LReg) (o o1 : LObj) : DSD_ComplexR.setCore (ofLR R o) (ofL o1) = ofLR R (withCore o o1) := rfl

theorem exec_liftCore {α} (m : DSD_Complex.M α) (s : DSD_ComplexR.Self) :
    (DSD_ComplexR.liftCore m).exec s = ((m.exec (DSD_ComplexR.core s)).1, DSD_ComplexR.setCore s (m.exec (DSD_ComplexR.core s)).2) := by
  unfold DSD_ComplexR.liftCore
  simp only [exec_bind, exec_get]
  rcases hm : m.exec (DSD_ComplexR.core s) with ⟨r, c⟩
  cases r <;> rfl

theorem withCore_size (o : LObj) : withCore o o.size.1 = o.size.1 := by
  unfold LObj.size LObj.fillStrandLengths withCore
  simp only []
  split
  · rfl
  · split <;> rfl

theorem withCore_rotateOnce (o : LObj) : withCore o o.rotateOnce.1 = o.rotateOnce.1 := by
  unfold LObj.rotateOnce withCore
  split <;> rfl

theorem lookup_map {κ α β} [BEq κ] (f : α → β) (k : κ) : ∀ (l : List (κ × α)),
    (l.map (fun p => (p.1, f p.2))).lookup k = (l.lookup k).map f := by
  intro l
  induction l with
  | nil => rfl
  | cons p l ih =>
    obtain ⟨k', a⟩ := p
    simp only [List.map_cons, List.lookup_cons]
    cases k == k' <;> simp [ih]

/-- `self.size` through the lens -/
theorem exec_size_R (R : LReg) (o : LObj) :
    (DSD_ComplexR.liftCore py_DSD_Complex_size).exec (ofLR R o) = (.ok o.size.2, ofLR R o.size.1) := by
  rw [exec_liftCore, core_ofLR, exec_size]
  simp only [okAns, setCore_ofLR, withCore_size]

theorem bracketLoop_err (push pop : Char) (tmp : List Char) : ∀ (is st : List Nat) (e : LErr),
    bracketLoop push pop tmp is st = .error e → errOf e = errOfR e := by
  intro is
  induction is with
  | nil => intro st e h; simp only [bracketLoop] at h; cases h
  | cons i is ih =>
    intro st e h
    simp only [bracketLoop] at h
    cases hc : tmp[i]? with
    | none => rw [hc] at h; cases h; rfl
    | some c =>
      rw [hc] at h
      simp only [] at h
      split at h
      · exact ih _ _ h
      · split at h
        · split at h
          · cases h; rfl
          · exact ih _ _ h
        · exact ih _ _ h

/-- `rotate_once` never raises a duplication error -/
theorem rotateOnce_err (o : LObj) (e : LErr) (h : o.rotateOnce.2 = some e) : errOf e = errOfR e := by
  unfold LObj.rotateOnce rotateOnceLists at h
  cases hp : o.seq.idxOf? "+" with
  | none => rw [hp] at h; cases h
  | some p =>
    rw [hp] at h
    simp only [] at h
    unfold flipStructure at h
    cases h1 : bracketLoop '(' ')' o.sst (List.range p) [] with
    | error e1 => rw [h1] at h; simp only [] at h; cases h; exact bracketLoop_err _ _ _ _ _ _ h1
    | ok st1 =>
      rw [h1] at h
      simp only [] at h
      cases h2 : bracketLoop ')' '(' (assignAll o.sst st1 ')')
          (List.range' (p + 1) ((assignAll o.sst st1 ')').length - (p + 1))).reverse [] with
      | error e2 => rw [h2] at h; simp only [] at h; cases h; exact bracketLoop_err _ _ _ _ _ _ h2
      | ok st2 => rw [h2] at h; simp only [] at h; cases h

/-- `self.rotate_once()` through the lens -/
theorem exec_rotate_once_R (R : LReg) (o : LObj) :
    (DSD_ComplexR.liftCore py_DSD_Complex_rotate_once).exec (ofLR R o) =
      (match o.rotateOnce.2 with | none => .ok () | some e => .error (errOfR e), ofLR R o.rotateOnce.1) := by
  rw [exec_liftCore, core_ofLR, exec_rotate_once]
  simp only [rotAns, setCore_ofLR, withCore_rotateOnce]
  cases hr : o.rotateOnce.2 with
  | none => rfl
  | some e => simp only [rotateOnce_err o e hr]

/-- the answer of a method that returns nothing -/
def unitAns (R : LReg) (r : LObj × Option LErr) : Except Err Unit × DSD_ComplexR.Self :=
  (match r.2 with | none => .ok () | some e => .error (errOfR e), ofLR R r.1)

theorem exec_do_memorycheck (R : LReg) (o : LObj) (current : CKey) (e : Nat) :
    (py_DSD_ComplexR_do_memorycheck current (some (Int.ofNat e))).exec (ofLR R o) =
      unitAns R (o.doMemorycheck R current (some e)) := by
  unfold py_DSD_ComplexR_do_memorycheck LObj.doMemorycheck unitAns
  have hm : List.lookup current (ofLR R o).cls_MEMORY = (R.MEMORY.lookup current).map refOf := lookup_map refOf current R.MEMORY
  cases hl : R.MEMORY.lookup current with
  | none =>
    rw [hl] at hm
    simp only [exec_ite, exec_bind, exec_get, exec_pure, exec_lift, exec_monadLift, exec_modify, exec_throw, Py.dictHas, Py.dictGet, hm,
      Option.map_none, Option.isSome_none, Bool.false_eq_true, if_false]
  | some other =>
    rw [hl] at hm
    simp only [exec_ite, exec_bind, exec_get, exec_pure, exec_lift, exec_monadLift, exec_modify, exec_throw, Py.dictHas, Py.dictGet, hm,
      Option.map_some, Option.isSome_some, if_true, pure, Except.pure, exec_size_R, Py.unwrap, refOf]
    cases hro : other.rotations with
    | none => rfl
    | some ro => rfl

end Dsd.PyLegacyReg
