/-
`ComplexS.identifiers` as written in the source (`Gen.py_ComplexS_identifiers`) equals the statement-level model
`CplxFull.identifiers` for EVERY registry and EVERY request (`identifiers_eq`), over `fold_spec` (Lemmas/PyIdentLoop.lean).
-/
import DsdVerif.Lemmas.PyIdentLoop
import DsdVerif.Props.PyFuncs

namespace Dsd.PyIdent
open Dsd Dsd.Gen Dsd.CplxFull

/-- `wrap(x, m)` on ints as written in the source, for a positive modulus: the model's `wrap` -/
theorem py_wrap_ids_pos (x : Int) (m : Nat) (hm : 0 < m) : py_wrap_ids x (Int.ofNat m) = .ok ((wrap x m : Nat) : Int) := by
  have hm' : (Int.ofNat m) ≠ 0 := by simp; omega
  have hnn : (0 : Int) ≤ Int.ofNat m := by simp
  unfold py_wrap_ids Py.imod
  simp only [hm', if_false, pure, Except.pure, bind, Except.bind, Int.fmod_eq_emod_of_nonneg _ hnn]
  rw [ViewsRot.wrap_cast x m hm]
  simp [Int.add_emod_right]


def pyTail (tot : Nat) (v : IV) : Except Err PyIds :=
  if (!v.brk1) = true then
    Py.idx (Py.sortedBy Py.ckeyLt (Py.dictKeys v.cdict)) 0 >>= fun c =>
    Py.dictGetO v.cdict (some c) >>= fun t =>
    py_wrap_ids (-Int.ofNat t) (Int.ofNat tot) >>= fun w =>
    pure (some c, v.name, some (some c, w, Py.dictKeys v.cdict))
  else
    py_wrap_ids (-v.turns) (Int.ofNat tot) >>= fun w =>
    pure (v.canon, v.name, some (v.canon, w, Py.dictKeys v.cdict))

def pyBody (reg : List CKey) (pfx : String) (id : Nat) (sequence : List String) (sst : List Char) (name pre : Option String) :
    Except Err PyIds :=
  if (sequence.length != sst.length) = true then .error .objectInit
  else if ((makeStrandTableList "+" sequence).length == 0) = true then .error .objectInit
  else
    List.foldlM (ComplexS_identifiers.loop1 reg pfx id (some sequence) sst name pre)
        { cdict := [], rseq := sequence, rstr := sst,
          name := if name.isNone = true then some (match pre with | none => pfx ++ Py.strNat id | some p => p ++ Py.strNat id) else name,
          brk1 := false }
        (List.range (makeStrandTableList "+" sequence).length) >>= fun v =>
    pyTail (makeStrandTableList "+" sequence).length v

theorem py_eq_body (reg pfx id sequence sst name pre) :
    py_ComplexS_identifiers reg pfx id (some sequence) sst name pre = pyBody reg pfx id sequence sst name pre := by
  unfold pyBody pyTail
  simp only [py_ComplexS_identifiers, PyFuncs.py_make_strand_table_list_default, bind, Except.bind, pure, Except.pure]
  by_cases h1 : (sequence.length != sst.length) = true <;> by_cases h2 : ((makeStrandTableList "+" sequence).length == 0) = true <;>
    cases name <;> simp only [h1, h2, Option.isNone, ↓reduceIte, Bool.false_eq_true] <;> rfl

theorem idx0 {α} (l : List α) : Py.idx l 0 = match l.head? with | some x => .ok x | none => .error (.fault "IndexError") := by
  cases l <;> rfl

theorem identifiers_eq (pfx : String) (r : Reg CKey) (reg : List CKey) (hreg : ∀ k, reg.contains k = (r.findCanon k).isSome)
    (q : CplxReq) :
    py_ComplexS_identifiers reg pfx r.autoId q.seq q.sst q.name q.prefix_ = idsView (CplxFull.identifiers pfx r q) := by
  obtain ⟨qseq, qsst, qname, qpre⟩ := q
  cases qseq with
  | none => cases qname <;> rfl
  | some sequence =>
    rw [py_eq_body]
    unfold pyBody
    simp only [CplxFull.identifiers]
    by_cases h1 : sequence.length = qsst.length
    · by_cases h2 : (makeStrandTableList "+" sequence).length = 0
      · simp [h1, h2, idsView, errOfOut]
      · have htot : 0 < (makeStrandTableList "+" sequence).length := by omega
        have hf := fold_spec r reg hreg pfx r.autoId (some sequence) qsst qname qpre (List.range (makeStrandTableList "+" sequence).length)
          { cdict := [], rseq := sequence, rstr := qsst,
            name := if qname.isNone = true then some (match qpre with | none => pfx ++ Py.strNat r.autoId | some p => p ++ Py.strNat r.autoId) else qname,
            brk1 := false } rfl h1 (by simp [dictKeys])
        simp only [h1, h2, bne_self_eq_false, Bool.false_eq_true, ↓reduceIte, beq_iff_eq, ne_eq, not_true_eq_false]
        simp only at hf
        cases hfl : forLoop r (List.range (makeStrandTableList "+" sequence).length) sequence qsst [] with
        | error o =>
          rw [hfl] at hf
          simp only at hf
          rw [hf]
          rfl
        | ok le =>
          rw [hfl] at hf
          cases le with
          | brk c t d =>
            obtain ⟨v', hv, hb, hc, ht, hd, hn⟩ := hf
            rw [hv]
            simp only [bind, Except.bind, pyTail, hb, hc, ht, hd, hn, py_wrap_ids_pos _ _ htot, idsView, pure, Except.pure]
            cases qname <;> cases qpre <;> rfl
          | els d =>
            obtain ⟨v', hv, hb, hd, hn⟩ := hf
            rw [hv]
            simp only [bind, Except.bind, pyTail, hb, hd, hn, idsView, pure, Except.pure, idx0, sortedKeys_eq]
            simp only [Bool.not_false, ↓reduceIte]
            cases hh : (sortBy ckeyLt (dictKeys d)).head? with
            | none => rfl
            | some c =>
              simp only [Py.dictGetO, dictGet_eq]
              cases hg : dictGet d c with
              | none => rfl
              | some t =>
                simp only [py_wrap_ids_pos _ _ htot]
                cases qname <;> cases qpre <;> rfl
    · simp [h1, idsView, errOfOut]

end Dsd.PyIdent
