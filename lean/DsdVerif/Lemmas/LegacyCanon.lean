/-
C20, task 3 (first half): the `canonical_form` loop of the legacy `DSD_Complex` on a well-formed description.
-/
import DsdVerif.Lemmas.LegacyRotate
import DsdVerif.Lemmas.Legacy
import DsdVerif.Lemmas.ComplexFull

namespace Dsd.LgL
open Dsd Dsd.Lg Dsd.Rot

/-! ### dictionaries as association lists -/

theorem lookup_isSome_iff {κ ν} [BEq κ] [LawfulBEq κ] (d : List (κ × ν)) (z : κ) :
    (d.lookup z).isSome = true ↔ z ∈ d.map (·.1) := by
  induction d with
  | nil => simp
  | cons p d ih =>
    obtain ⟨k, v⟩ := p
    by_cases h : z = k
    · subst h; simp
    · have : (z == k) = false := by simpa using h
      simp [List.lookup_cons, this, ih, h]

theorem lookup_none_iff {κ ν} [BEq κ] [LawfulBEq κ] (d : List (κ × ν)) (z : κ) :
    d.lookup z = none ↔ z ∉ d.map (·.1) := by
  rw [← lookup_isSome_iff]
  cases d.lookup z <;> simp

theorem lookup_append {κ ν} [BEq κ] (d1 d2 : List (κ × ν)) (z : κ) :
    (d1 ++ d2).lookup z = (d1.lookup z).or (d2.lookup z) := by
  induction d1 with
  | nil => simp
  | cons p d ih =>
    obtain ⟨k, v⟩ := p
    simp only [List.cons_append, List.lookup_cons]
    cases z == k <;> simp [ih]

/-- `all_variants` after the representations `seen` have been met (the count starts at 1): the keys in order of first
    occurrence, each with the position of its first occurrence -/
structure DictFirst (d : List (CKey × Nat)) (seen : List CKey) : Prop where
  keys : d.map (·.1) = seen.eraseDups
  get : ∀ z ∈ seen, d.lookup z = some (seen.idxOf z + 1)

theorem dictFirst_nil : DictFirst [] [] := ⟨rfl, fun _ h => by cases h⟩

theorem dictFirst_mem (d : List (CKey × Nat)) (seen : List CKey) (h : DictFirst d seen) (z : CKey) :
    (d.lookup z).isSome = true ↔ z ∈ seen := by
  rw [lookup_isSome_iff, h.keys, List.mem_eraseDups]

theorem dictFirst_old (d : List (CKey × Nat)) (seen : List CKey) (h : DictFirst d seen) (z : CKey) (hz : z ∈ seen) :
    DictFirst d (seen ++ [z]) := by
  refine ⟨?_, ?_⟩
  · rw [h.keys, CplxFullL.eraseDups_snoc, if_pos hz]
  · intro w hw
    have hw' : w ∈ seen := by
      rcases List.mem_append.mp hw with h1 | h1
      · exact h1
      · simp only [List.mem_singleton] at h1; rw [h1]; exact hz
    rw [h.get w hw', List.idxOf_append, if_pos hw']

theorem dictFirst_new (d : List (CKey × Nat)) (seen : List CKey) (h : DictFirst d seen) (z : CKey) (hz : z ∉ seen) :
    DictFirst (d ++ [(z, seen.length + 1)]) (seen ++ [z]) := by
  refine ⟨?_, ?_⟩
  · rw [List.map_append, h.keys, CplxFullL.eraseDups_snoc, if_neg hz]; rfl
  · intro w hw
    rw [lookup_append]
    rcases List.mem_append.mp hw with h1 | h1
    · rw [h.get w h1, List.idxOf_append, if_pos h1]; rfl
    · simp only [List.mem_singleton] at h1
      subst h1
      have hn : d.lookup w = none := by
        rw [lookup_none_iff, h.keys, List.mem_eraseDups]; exact hz
      rw [hn, List.idxOf_append, if_neg hz]
      simp

/-! ### objects in the loop -/

/-- the object after a successful `rotate_once` that produced the lists `nx` -/
def rotated (o : LObj) (nx : List String × List Char) : LObj :=
  { o with seq := nx.1, sst := nx.2, pairTable := none, loopIndex := none, lolSequence := none,
           strandLengths := none, exteriorDomains := none, enclosedDomains := none }

theorem rotated_rotated (o : LObj) (a b : List String × List Char) : rotated (rotated o a) b = rotated o b := rfl

theorem obj_rotateOnce (o : LObj) (nx : List String × List Char) (h : Dsd.rotateOnce o.seq o.sst = .ok nx)
    (hl : o.seq.length = o.sst.length) : o.rotateOnce = (rotated o nx, none) := by
  have := rotateOnceLists_eq o.seq o.sst hl
  rw [h] at this
  unfold LObj.rotateOnce
  generalize rotateOnceLists o.seq o.sst = x at this
  obtain ⟨s, r⟩ := x
  cases r with
  | ok t =>
    simp only [toCurrent, Except.ok.injEq] at this
    subst this
    rfl
  | error e => cases e <;> simp [toCurrent] at this

/-- what the loop keeps invariant: `_strand_lengths` and `_lol_sequence`, when filled, have one entry per strand
    (`rotate_once` empties both, `self.size` fills them again from the turned sequence - a turn does not change the
    number of strands), the flag, well-formedness -/
structure Inv (n : Nat) (mc : Bool) (o : LObj) : Prop where
  lens : ∀ l, o.strandLengths = some l → l.length = n
  lol : ∀ ll, o.lolSequence = some ll → ll.length = n
  nstr : nStr o.seq = n
  pos : 0 < n
  mc : o.memorycheck = mc
  descr : Descr' o.seq o.sst

theorem truthy_true {α} (x : Option (List α)) (h : truthy x = true) : ∃ a l, x = some (a :: l) := by
  cases x with
  | none => cases h
  | some l =>
    cases l with
    | nil => cases h
    | cons a l => exact ⟨a, l, rfl⟩

/-- `self.size` in the loop: the number of strands, whether `_strand_lengths` is still there or has to be filled again -/
theorem size_inv (n : Nat) (mc : Bool) (o : LObj) (h : Inv n mc o) : o.size.2 = n := by
  unfold LObj.size LObj.fillStrandLengths
  by_cases ht : truthy o.strandLengths = true
  · obtain ⟨a, l, hl⟩ := truthy_true _ ht
    rw [if_pos ht, hl]
    exact h.lens _ hl
  · rw [if_neg ht]
    by_cases ht2 : truthy o.lolSequence = true
    · obtain ⟨a, l, hl⟩ := truthy_true _ ht2
      simp only [ht2, if_true, List.length_map]
      rw [hl]
      exact h.lol _ hl
    · simp only [ht2, Bool.false_eq_true, if_false, Option.getD_some, List.length_map]
      exact h.nstr

theorem inv_rotated (n : Nat) (mc : Bool) (o : LObj) (h : Inv n mc o) (nx : List String × List Char)
    (hd : Descr' nx.1 nx.2) (hn : nStr nx.1 = nStr o.seq) : Inv n mc (rotated o nx) :=
  ⟨fun _ hl => (by cases hl), fun _ hl => (by cases hl), (by rw [← h.nstr]; exact hn), h.pos, h.mc, hd⟩

/-- the memory entry consulted by `do_memorycheck` when the flag is set -/
def chk (R : LReg) (mc : Bool) (z : CKey) : Option LObj := if mc then R.MEMORY.lookup z else none

/-- the exception `do_memorycheck` raises for the entry `other` at count `e` -/
def dupOf (n e : Nat) (other : LObj) : LErr :=
  match other.rotations with
  | none => .fault "TypeError"
  | some ro => .duplication other.id ((((e : Int) - (n : Int)).natAbs : Int) - (ro : Int))

theorem doMemorycheck_inv (R : LReg) (n : Nat) (mc : Bool) (o : LObj) (h : Inv n mc o) (z : CKey) (e : Nat) :
    LObj.doMemorycheck R o z (some e) =
      match R.MEMORY.lookup z with
      | none => (o, none)
      | some other => (o.size.1, some (dupOf n e other)) := by
  unfold LObj.doMemorycheck
  cases hm : R.MEMORY.lookup z with
  | none => rfl
  | some other =>
    have hs : o.size = (o.size.1, n) := by rw [← size_inv n mc o h]
    simp only [dupOf]
    rw [hs]
    cases other.rotations <;> rfl

/-- one iteration of the loop -/
theorem canonLoop_succ (R : LReg) (n : Nat) (mc : Bool) (k e : Nat) (o : LObj) (vars : List (CKey × Nat))
    (h : Inv n mc o) (nx : List String × List Char) (hrot : Dsd.rotateOnce o.seq o.sst = .ok nx)
    (hd : Descr' nx.1 nx.2) (hn : nStr nx.1 = nStr o.seq) :
    LObj.canonLoop R (k + 1) e o vars =
      if (vars.lookup nx).isSome then LObj.canonLoop R k (e + 1) (rotated o nx) vars
      else match chk R mc nx with
        | some other => ((rotated o nx).size.1, .error (dupOf n e other))
        | none => LObj.canonLoop R k (e + 1) (rotated o nx) (vars ++ [(nx, e)]) := by
  conv => lhs; unfold LObj.canonLoop
  rw [obj_rotateOnce o nx hrot h.descr.al.1]
  have hi := inv_rotated n mc o h nx hd hn
  simp only
  have hc : ((rotated o nx).seq, (rotated o nx).sst) = nx := rfl
  rw [hc]
  by_cases hv : (vars.lookup nx).isSome = true
  · simp only [hv, if_true]
  · simp only [hv]
    have hmc : (rotated o nx).memorycheck = mc := h.mc
    rw [hmc]
    cases mc with
    | false => simp [chk]
    | true =>
      simp only [if_true, chk]
      rw [doMemorycheck_inv R n true (rotated o nx) hi]
      cases R.MEMORY.lookup nx <;> rfl

/-- **the loop of `canonical_form`**: the representations met are `r¹x … rᵏx` (`legacyVariants`); if none of them is
    in MEMORY the loop ends with the dictionary of first occurrences and the object turned `k` times; otherwise the
    first one that is in MEMORY raises the duplication error with its count. -/
theorem canonLoop_spec (R : LReg) (n : Nat) (mc : Bool) :
    ∀ (k : Nat) (o : LObj) (seen : List CKey) (vars : List (CKey × Nat)), Inv n mc o → DictFirst vars seen →
      (∀ w ∈ seen, chk R mc w = none) →
      ∃ vs, legacyVariants k o.seq o.sst = .ok vs ∧ vs.length = k ∧
        ((∀ z ∈ vs, chk R mc z = none) →
          ∃ o' vars', LObj.canonLoop R k (seen.length + 1) o vars = (o', .ok vars') ∧ DictFirst vars' (seen ++ vs) ∧
            Inv n mc o' ∧ rotateN k o.seq o.sst = .ok (o'.seq, o'.sst) ∧
            o' = (if k = 0 then o else rotated o (o'.seq, o'.sst))) ∧
        (∀ (j : Nat) (z : CKey) (other : LObj), vs[j]? = some z → chk R mc z = some other →
          (∀ i, i < j → ∀ z', vs[i]? = some z' → chk R mc z' = none) →
          ∃ o', LObj.canonLoop R k (seen.length + 1) o vars = (o', .error (dupOf n (seen.length + 1 + j) other))) := by
  intro k
  induction k with
  | zero =>
    intro o seen vars hinv hdict _
    refine ⟨[], rfl, rfl, ?_, ?_⟩
    · intro _
      exact ⟨o, vars, rfl, by simpa using hdict, hinv, rfl, rfl⟩
    · intro j z other hj; simp at hj
  | succ k ih =>
    intro o seen vars hinv hdict hseen
    obtain ⟨nx, hrot, hdn, hnn⟩ := descr_rotateOnce o.seq o.sst hinv.descr
    have hstep := canonLoop_succ R n mc k (seen.length + 1) o vars hinv nx hrot hdn hnn
    have hi1 := inv_rotated n mc o hinv nx hdn hnn
    have hlen1 : (seen ++ [nx]).length + 1 = seen.length + 1 + 1 := by simp
    by_cases hmem : nx ∈ seen
    · -- an old representation: no check
      have hv : (vars.lookup nx).isSome = true := (dictFirst_mem vars seen hdict nx).mpr hmem
      rw [hv, if_pos rfl] at hstep
      have hseen1 : ∀ w ∈ seen ++ [nx], chk R mc w = none := by
        intro w hw
        rcases List.mem_append.mp hw with h1 | h1
        · exact hseen w h1
        · simp only [List.mem_singleton] at h1; rw [h1]; exact hseen nx hmem
      obtain ⟨vs, hvs, hl, ha, hb⟩ := ih (rotated o nx) (seen ++ [nx]) vars hi1 (dictFirst_old vars seen hdict nx hmem) hseen1
      refine ⟨nx :: vs, ?_, by simp [hl], ?_, ?_⟩
      · simp only [legacyVariants, hrot]
        show (legacyVariants k nx.1 nx.2).map _ = _
        rw [show legacyVariants k nx.1 nx.2 = .ok vs from hvs]; rfl
      · intro hall
        obtain ⟨o', vars', h1, h2, h3, h4, h5⟩ := ha (fun z hz => hall z (List.mem_cons_of_mem _ hz))
        refine ⟨o', vars', ?_, ?_, h3, ?_, ?_⟩
        · rw [hstep, ← hlen1]; exact h1
        · rw [List.append_assoc] at h2; exact h2
        · rw [rotateN_succ, hrot]; exact h4
        · rw [h5]
          simp only [Nat.succ_ne_zero, if_false]
          split
          · rfl
          · rfl
      · intro j z other hj hz hbefore
        cases j with
        | zero =>
          simp only [List.getElem?_cons_zero, Option.some.injEq] at hj
          subst hj
          rw [hseen nx hmem] at hz; cases hz
        | succ j =>
          simp only [List.getElem?_cons_succ] at hj
          obtain ⟨o', h1⟩ := hb j z other hj hz (fun i hi z' hz' => hbefore (i + 1) (by omega) z' (by simpa using hz'))
          have e1 : (seen ++ [nx]).length + 1 + j = seen.length + 1 + (j + 1) := by
            rw [List.length_append, List.length_singleton]; omega
          rw [e1] at h1
          exact ⟨o', by rw [hstep, ← hlen1, h1]⟩
    · -- a new representation: recorded, then checked
      have hv : ¬ (vars.lookup nx).isSome = true := fun h => hmem ((dictFirst_mem vars seen hdict nx).mp h)
      rw [if_neg hv] at hstep
      cases hc : chk R mc nx with
      | some other =>
        rw [hc] at hstep
        obtain ⟨vs, hvs, hl, _⟩ := legacyVariants_spec k nx.1 nx.2 hdn
        refine ⟨nx :: vs, ?_, by simp [hl], ?_, ?_⟩
        · simp only [legacyVariants, hrot]
          show (legacyVariants k nx.1 nx.2).map _ = _
          rw [hvs]; rfl
        · intro hall
          have := hall nx (List.mem_cons_self ..)
          rw [hc] at this; cases this
        · intro j z other' hj hz hbefore
          cases j with
          | zero =>
            simp only [List.getElem?_cons_zero, Option.some.injEq] at hj
            subst hj
            rw [hc] at hz; cases hz
            exact ⟨_, by rw [hstep]⟩
          | succ j =>
            have := hbefore 0 (by omega) nx rfl
            rw [hc] at this; cases this
      | none =>
        rw [hc] at hstep
        have hseen1 : ∀ w ∈ seen ++ [nx], chk R mc w = none := by
          intro w hw
          rcases List.mem_append.mp hw with h1 | h1
          · exact hseen w h1
          · simp only [List.mem_singleton] at h1; rw [h1]; exact hc
        obtain ⟨vs, hvs, hl, ha, hb⟩ := ih (rotated o nx) (seen ++ [nx]) (vars ++ [(nx, seen.length + 1)]) hi1
          (dictFirst_new vars seen hdict nx hmem) hseen1
        refine ⟨nx :: vs, ?_, by simp [hl], ?_, ?_⟩
        · simp only [legacyVariants, hrot]
          show (legacyVariants k nx.1 nx.2).map _ = _
          rw [show legacyVariants k nx.1 nx.2 = .ok vs from hvs]; rfl
        · intro hall
          obtain ⟨o', vars', h1, h2, h3, h4, h5⟩ := ha (fun z hz => hall z (List.mem_cons_of_mem _ hz))
          refine ⟨o', vars', ?_, ?_, h3, ?_, ?_⟩
          · rw [hstep, ← hlen1]; exact h1
          · rw [List.append_assoc] at h2; exact h2
          · rw [rotateN_succ, hrot]; exact h4
          · rw [h5]
            simp only [Nat.succ_ne_zero, if_false]
            split
            · rfl
            · rfl
        · intro j z other hj hz hbefore
          cases j with
          | zero =>
            simp only [List.getElem?_cons_zero, Option.some.injEq] at hj
            subst hj
            rw [hc] at hz; cases hz
          | succ j =>
            simp only [List.getElem?_cons_succ] at hj
            obtain ⟨o', h1⟩ := hb j z other hj hz (fun i hi z' hz' => hbefore (i + 1) (by omega) z' (by simpa using hz'))
            have e1 : (seen ++ [nx]).length + 1 + j = seen.length + 1 + (j + 1) := by
              rw [List.length_append, List.length_singleton]; omega
            rw [e1] at h1
            exact ⟨o', by rw [hstep, ← hlen1, h1]⟩

end Dsd.LgL
